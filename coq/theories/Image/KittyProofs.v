(* Proofs about the handler model (Image/Kitty.v) read through the protocol
   side (Image/KittySpec.v): chunking, the payload of a transmission, what each
   call does to the terminal-side store, identifier arithmetic. *)
From Coq Require Import List NArith ZArith Bool Lia Arith.
From Coq Require Import ZifyBool ZifyNat ZifyN.
From SNT Require Import Surface.Shape Surface.ShapeProofs Encoder.Base64 Encoder.Base64Proofs
  Gen.KittyConst Image.Kitty Image.KittySpec Image.KittyParse.
Import ListNotations.
Local Open Scope N_scope.
Arguments N.add : simpl never.
Arguments N.sub : simpl never.
Arguments N.mul : simpl never.
Arguments N.eqb : simpl never.
Arguments N.ltb : simpl never.
Arguments N.leb : simpl never.
Arguments N.div : simpl never.
Arguments N.modulo : simpl never.

(* ---------- the regenerated constants ---------- *)
(* identifiers: the values the theorems below are proved for; a changed constant in the source
   breaks these two lemmas (and the check) *)
Lemma max_id_const : KITTY_MAX_ID = 4294967295.  Proof. reflexivity. Qed.
Lemma max_dim_const : KITTY_MAX_DIM = 65536.  Proof. reflexivity. Qed.
(* chunk size: any value the protocol allows is fine *)
Lemma chunk_const : (0 < N.to_nat KITTY_CHUNK <= 4096)%nat /\ (N.to_nat KITTY_CHUNK mod 4 = 0)%nat.
Proof. vm_compute. repeat split; lia. Qed.

(* ---------- <[u8]>::chunks ---------- *)
Lemma chunks_go_concat : forall fuel n l, (0 < n)%nat -> (length l <= fuel)%nat ->
  concat (chunks_go fuel n l) = l.
Proof.
  induction fuel as [|f IH]; intros n l Hn Hl.
  - destruct l; [reflexivity|cbn in Hl; lia].
  - cbn [chunks_go]. destruct l as [|x l']; [reflexivity|].
    cbn [concat]. rewrite IH; [apply firstn_skipn|exact Hn|].
    rewrite skipn_length. cbn [length] in *. lia.
Qed.

Lemma forall_firstn_skipn {A} (Q : A -> Prop) n (l : list A) :
  Forall Q l -> Forall Q (firstn n l) /\ Forall Q (skipn n l).
Proof. intros H. rewrite <- (firstn_skipn n l) in H. apply Forall_app in H. exact H. Qed.

Lemma chunks_go_elems (Q : N -> Prop) : forall fuel n l, Forall Q l -> Forall (Forall Q) (chunks_go fuel n l).
Proof.
  induction fuel as [|f IH]; intros n l HQ; [constructor|].
  cbn [chunks_go]. destruct l as [|x l']; [constructor|].
  destruct (forall_firstn_skipn Q n (x :: l') HQ) as [H1 H2].
  constructor; [exact H1|apply IH, H2].
Qed.

Ltac nat_divmod := Zify.zify; Z.div_mod_to_equations; lia.

(* every chunk is non-empty, at most n long, and a multiple of four when n and the text are *)
Lemma chunks_go_shape : forall fuel n l, (0 < n)%nat -> (n mod 4 = 0)%nat ->
  (length l <= fuel)%nat -> (length l mod 4 = 0)%nat ->
  Forall (fun c => (0 < length c <= n)%nat /\ (length c mod 4 = 0)%nat) (chunks_go fuel n l).
Proof.
  induction fuel as [|f IH]; intros n l Hn Hn4 Hl Hl4; [constructor|].
  cbn [chunks_go]. destruct l as [|x l']; [constructor|].
  constructor.
  - rewrite firstn_length. cbn [length] in *.
    destruct (Nat.min_spec n (S (length l'))) as [[Hlt ->]|[Hlt ->]]; split; try lia; assumption.
  - apply IH; try assumption.
    + rewrite skipn_length. cbn [length] in *. lia.
    + rewrite skipn_length. cbn [length] in *. nat_divmod.
Qed.

Lemma chunks_concat n l : (0 < n)%nat -> concat (chunks n l) = l.
Proof. intros. apply chunks_go_concat; [assumption|lia]. Qed.

Lemma chunks_shape n l : (0 < n)%nat -> (n mod 4 = 0)%nat -> (length l mod 4 = 0)%nat ->
  Forall (fun c => (0 < length c <= n)%nat /\ (length c mod 4 = 0)%nat) (chunks n l).
Proof. intros. apply chunks_go_shape; try assumption. lia. Qed.

Lemma chunks_elems (Q : N -> Prop) n l : Forall Q l -> Forall (Forall Q) (chunks n l).
Proof. apply chunks_go_elems. Qed.

Lemma chunks_nonempty n l : (0 < n)%nat -> l <> [] -> chunks n l <> [].
Proof. intros Hn Hl. unfold chunks. destruct l; [contradiction|]. cbn. discriminate. Qed.

Lemma rfc4648_length4 x : (length (rfc4648 x) mod 4 = 0)%nat.
Proof.
  induction x as [| a | a b | a b c r IH] using list_ind3; try reflexivity.
  cbn [rfc4648 app length]. cbn [length] in IH. nat_divmod.
Qed.

Lemma rfc4648_nonempty x : x <> [] -> rfc4648 x <> [].
Proof. destruct x as [|a [|b [|c r]]]; [contradiction|discriminate..]. Qed.

(* ---------- pixels and payload ---------- *)
Definition rgba_ok (p : rgba) : Prop :=
  let '(r, g, b, a) := p in r < 256 /\ g < 256 /\ b < 256 /\ a < 256.

(* an image as Image::new / from / crop build it: channel values are bytes and the shape is a
   window of an H x W matrix stored in the backing vector (the representation relation of C07) *)
Definition image_wf (img : image) : Prop :=
  Forall rgba_ok (im_data img) /\
  exists H W w, Rep H W (im_shape img) w /\ (H * W <= length (im_data img))%nat.

(* the RGBA bytes of the image in row-major order *)
Definition pix_bytes (img : image) : list N := flat_map rgba_bytes (im_pixels img).

Lemma iter_from_in {A} : forall fuel i sh (data : list A) x, In x (iter_from fuel i sh data) -> In x data.
Proof.
  induction fuel as [|f IH]; intros i sh data x Hin; [contradiction|].
  cbn [iter_from] in Hin. destruct (nth_pos sh i) as [[r c]|]; [|contradiction].
  destruct (nth_error data (offset sh r c)) eqn:E; [|contradiction].
  destruct Hin as [<-|Hin]; [eapply nth_error_In, E|eapply IH, Hin].
Qed.

Lemma pixels_ok img : Forall rgba_ok (im_data img) -> Forall rgba_ok (im_pixels img).
Proof.
  intros H. apply Forall_forall. intros x Hx. rewrite Forall_forall in H. apply H.
  eapply iter_from_in, Hx.
Qed.

Lemma bytes_ok_flat px : Forall rgba_ok px -> bytes_ok (flat_map rgba_bytes px) = true.
Proof.
  induction 1 as [|[[[r g] b] a] px (Hr & Hg & Hb & Ha) _ IH]; [reflexivity|].
  cbn [flat_map rgba_bytes app]. unfold bytes_ok in *. cbn [forallb]. rewrite IH.
  unfold byte_ok. lia.
Qed.

Lemma payload_rfc img : Forall rgba_ok (im_data img) -> payload_of img = rfc4648 (pix_bytes img).
Proof.
  intros H. unfold payload_of, pix_bytes. rewrite flat_map_concat_map.
  apply encode_chunks_rfc. rewrite <- flat_map_concat_map. apply bytes_ok_flat, pixels_ok, H.
Qed.

Lemma flat_rgba_length px : length (flat_map rgba_bytes px) = (4 * length px)%nat.
Proof.
  induction px as [|[[[r g] b] a] px IH]; [reflexivity|].
  cbn [flat_map rgba_bytes app length]. rewrite IH. lia.
Qed.

Lemma pix_bytes_length img : image_wf img ->
  N.of_nat (length (pix_bytes img)) = im_width img * im_height img * 4.
Proof.
  intros (_ & H & W & w & Hrep & Hlen). unfold pix_bytes, im_pixels, im_width, im_height.
  rewrite flat_rgba_length, (iter_length H W _ w _ Hrep Hlen). lia.
Qed.

(* row-major: the k-th pixel is the cell (k / width, k mod width) of the window *)
Lemma pixels_row_major img : image_wf img ->
  map Some (im_pixels img) =
  map (fun p => nth_error (im_data img) (offset (im_shape img) (fst p) (snd p)))
      (positions (sh_height (im_shape img)) (sh_width (im_shape img))).
Proof. intros (_ & H & W & w & Hrep & Hlen). exact (iter_spec H W _ w _ Hrep Hlen). Qed.

Lemma pix_bytes_nonempty img : image_wf img -> im_height img <> 0 -> im_width img <> 0 -> pix_bytes img <> [].
Proof.
  intros Hwf Hh Hw E. pose proof (pix_bytes_length img Hwf) as L. rewrite E in L. cbn [length] in L. lia.
Qed.

(* ---------- control data of the commands the handler writes ---------- *)
Lemma first_clean id h w more q : kvs_clean (kvs_first id h w more q) = true.
Proof.
  unfold kvs_clean, kvs_first. cbn [forallb]. unfold kv_clean. cbn [fst snd]. rewrite !dec_vclean. reflexivity.
Qed.
Lemma next_clean more q : kvs_clean (kvs_next more q) = true.
Proof.
  unfold kvs_clean, kvs_next. cbn [forallb]. unfold kv_clean. cbn [fst snd]. rewrite !dec_vclean. reflexivity.
Qed.
Lemma put_clean id pid q : kvs_clean (kvs_put id pid q) = true.
Proof.
  unfold kvs_clean, kvs_put. cbn [forallb]. unfold kv_clean. cbn [fst snd]. rewrite !dec_vclean. reflexivity.
Qed.
Lemma del_clean id pid : kvs_clean (kvs_del id pid) = true.
Proof.
  unfold kvs_clean, kvs_del. destruct pid; cbn [app forallb option_map]; unfold kv_clean; cbn [fst snd]; rewrite !dec_vclean; reflexivity.
Qed.

(* ---------- what the terminal side does with each command ---------- *)
Lemma gfx_step_put id pid q s : t_pending s = None ->
  gfx_step (kvs_put id pid q) [] s = do_put id pid s.
Proof.
  intros Hp. unfold gfx_step. rewrite Hp.
  cbv -[dec parse_num do_put add_err]. rewrite !parse_num_dec. reflexivity.
Qed.

Lemma gfx_step_del id pid s : t_pending s = None ->
  gfx_step (kvs_del id pid) [] s = delete_sel 105 id (match pid with Some p => p | None => 0 end) s.
Proof.
  intros Hp. unfold gfx_step. rewrite Hp. destruct pid;
  cbv -[dec parse_num delete_sel add_err]; rewrite !parse_num_dec; reflexivity.
Qed.

(* first chunk of a transmission *)
Lemma gfx_step_first_more id h w q c s : t_pending s = None ->
  gfx_step (kvs_first id h w 1 q) c s = set_pending (mkPending id w h false 0 [c]) s.
Proof.
  intros Hp. unfold gfx_step. rewrite Hp.
  cbv -[dec parse_num set_pending finish_transmit add_err]. rewrite !parse_num_dec. reflexivity.
Qed.
Lemma gfx_step_first_last id h w q c s : t_pending s = None ->
  gfx_step (kvs_first id h w 0 q) c s = finish_transmit (mkPending id w h false 0 [c]) s.
Proof.
  intros Hp. unfold gfx_step. rewrite Hp.
  cbv -[dec parse_num set_pending finish_transmit add_err]. rewrite !parse_num_dec. reflexivity.
Qed.
(* continuation chunks *)
Lemma gfx_step_next_more q c pd s : t_pending s = Some pd ->
  gfx_step (kvs_next 1 q) c s =
  set_pending (mkPending (pd_id pd) (pd_w pd) (pd_h pd) (pd_show pd) (pd_pid pd) (pd_chunks pd ++ [c])) s.
Proof.
  intros Hp. unfold gfx_step. rewrite Hp.
  cbv -[dec parse_num set_pending finish_transmit add_err app pd_id pd_w pd_h pd_show pd_pid pd_chunks].
  rewrite !parse_num_dec. reflexivity.
Qed.
Lemma gfx_step_next_last q c pd s : t_pending s = Some pd ->
  gfx_step (kvs_next 0 q) c s =
  finish_transmit (mkPending (pd_id pd) (pd_w pd) (pd_h pd) (pd_show pd) (pd_pid pd) (pd_chunks pd ++ [c])) s.
Proof.
  intros Hp. unfold gfx_step. rewrite Hp.
  cbv -[dec parse_num set_pending finish_transmit add_err app pd_id pd_w pd_h pd_show pd_pid pd_chunks].
  rewrite !parse_num_dec. reflexivity.
Qed.

(* ---------- a chunked transmission, command by command ---------- *)
Fixpoint chunk_items (first : bool) (id h w q : N) (chs : list (list N)) : list item :=
  match chs with
  | [] => []
  | c :: rest =>
      let more := match rest with [] => 0 | _ => 1 end in
      IGfx (if first then kvs_first id h w more q else kvs_next more q) c
      :: chunk_items false id h w q rest
  end.

Lemma option_map_cons_app {A} (x : A) l o :
  option_map (cons x) (option_map (app l) o) = option_map (app (x :: l)) o.
Proof. destruct o; reflexivity. Qed.

Lemma parse_emit_chunks id h w q : forall chs first f rest, Forall no_esc chs -> (length chs <= f)%nat ->
  parse_items f (emit_chunks first id h w q chs ++ rest) =
  option_map (app (chunk_items first id h w q chs)) (parse_items (f - length chs) rest).
Proof.
  induction chs as [|c r IH]; intros first f rest Hne Hf.
  - cbn [emit_chunks chunk_items app length]. rewrite Nat.sub_0_r. destruct (parse_items f rest); reflexivity.
  - inversion Hne as [|? ? Hc Hr]; subst. cbn [length] in Hf. destruct f as [|f]; [lia|].
    cbn [emit_chunks chunk_items length]. rewrite <- app_assoc.
    rewrite parse_gfx.
    + rewrite IH by (try exact Hr; lia). cbn [Nat.sub]. apply option_map_cons_app.
    + destruct first; discriminate.
    + destruct first; [apply first_clean|apply next_clean].
    + exact Hc.
    + left. reflexivity.
Qed.

Lemma emit_chunks_length id h w q : forall chs first, (length chs <= length (emit_chunks first id h w q chs))%nat.
Proof.
  induction chs as [|c r IH]; intros first; [cbn; lia|].
  cbn [emit_chunks length]. rewrite app_length. specialize (IH false). unfold gfx. cbn [length]. lia.
Qed.

Definition pd_add (pd : pending) (cs : list (list N)) : pending :=
  mkPending (pd_id pd) (pd_w pd) (pd_h pd) (pd_show pd) (pd_pid pd) (pd_chunks pd ++ cs).

Lemma finish_set_pending pd x s : finish_transmit pd (set_pending x s) = finish_transmit pd s.
Proof. reflexivity. Qed.

Lemma store_run_cons s it its : store_run s (it :: its) = store_run (item_step s it) its.
Proof. reflexivity. Qed.
Lemma store_run_app s a b : store_run s (a ++ b) = store_run (store_run s a) b.
Proof. apply fold_left_app. Qed.

Lemma run_chunks_next id h w q : forall chs pd s, chs <> [] -> t_pending s = Some pd ->
  store_run s (chunk_items false id h w q chs) = finish_transmit (pd_add pd chs) s.
Proof.
  induction chs as [|c r IH]; intros pd s Hne Hp; [contradiction|].
  destruct r as [|c' r'].
  - cbn [chunk_items store_run fold_left item_step]. apply gfx_step_next_last, Hp.
  - change (chunk_items false id h w q (c :: c' :: r'))
      with (IGfx (kvs_next 1 q) c :: chunk_items false id h w q (c' :: r')).
    rewrite store_run_cons. cbn [item_step]. rewrite (gfx_step_next_more q c pd s Hp).
    rewrite (IH (pd_add pd [c])) by (try discriminate; reflexivity).
    rewrite finish_set_pending. unfold pd_add. cbn [pd_id pd_w pd_h pd_show pd_pid pd_chunks].
    rewrite <- app_assoc. reflexivity.
Qed.

Lemma run_chunks_first id h w q chs s : chs <> [] -> t_pending s = None ->
  store_run s (chunk_items true id h w q chs) = finish_transmit (mkPending id w h false 0 chs) s.
Proof.
  intros Hne Hp. destruct chs as [|c r]; [contradiction|]. destruct r as [|c' r'].
  - cbn [chunk_items store_run fold_left item_step]. apply gfx_step_first_last, Hp.
  - change (chunk_items true id h w q (c :: c' :: r'))
      with (IGfx (kvs_first id h w 1 q) c :: chunk_items false id h w q (c' :: r')).
    rewrite store_run_cons. cbn [item_step]. rewrite (gfx_step_first_more id h w q c s Hp).
    rewrite (run_chunks_next id h w q (c' :: r') (mkPending id w h false 0 [c])) by (try discriminate; reflexivity).
    rewrite finish_set_pending. reflexivity.
Qed.

(* a complete, valid transmission: the image is stored, earlier placements of the id are dropped *)
Definition store_add_image (id : N) (im : timage) (s : tstore) : tstore :=
  mkStore ((id, im) :: filter (fun e => negb (fst e =? id)) (t_images s))
          (filter (fun p => negb (place_id p =? id)) (t_places s))
          None (t_cursor s) (t_saved s) ((id, im) :: t_sent s) (t_errs s).

Lemma finish_ok id w h chs s data :
  forallb chunk_ok chs = true -> b64_decode (concat chs) = Some data ->
  w <> 0 -> h <> 0 -> N.of_nat (length data) = w * h * 4 -> 1 <= id <= ID_MAX ->
  finish_transmit (mkPending id w h false 0 chs) s = store_add_image id (mkTimage w h data) s.
Proof.
  intros Hc Hd Hw Hh Hl Hid. unfold finish_transmit, store_add_image.
  cbn [pd_id pd_w pd_h pd_show pd_pid pd_chunks t_images t_places t_cursor t_saved t_sent t_errs].
  rewrite Hc, Hd. cbn [negb].
  replace ((w =? 0) || (h =? 0)) with false by lia.
  replace (N.of_nat (length data) =? w * h * 4) with true by lia. cbn [negb].
  replace ((id =? 0) || (ID_MAX <? id)) with false by lia. reflexivity.
Qed.

Lemma chunks_ok_of_shape n chs : (n <= 4096)%nat ->
  Forall (fun c => (0 < length c <= n)%nat /\ (length c mod 4 = 0)%nat) chs -> forallb chunk_ok chs = true.
Proof.
  intros Hn H. apply forallb_forall. intros c Hc. rewrite Forall_forall in H. destruct (H c Hc) as [[H1 H2] H3].
  unfold chunk_ok, CHUNK_MAX. rewrite H3.
  apply andb_true_intro; split; [apply andb_true_intro; split|].
  - apply Nat.leb_le. lia.
  - reflexivity.
  - destruct (length c); [lia|reflexivity].
Qed.

(* ---------- draw ---------- *)
Definition put_item (id pid q : N) : item := IGfx (kvs_put id pid q) [].
Definition del_item (id : N) (pid : option N) : item := IGfx (kvs_del id pid) [].
Definition qval (st : kitty) : N := match k_suppress st with Some s => s | None => 0 end.
Definition tx_chunks (img : image) : list (list N) := chunks (N.to_nat KITTY_CHUNK) (payload_of img).
Definition tx_items (id q : N) (img : image) : list item :=
  chunk_items true id (im_height img) (im_width img) q (tx_chunks img).
Definition nonempty (img : image) : Prop := im_height img <> 0 /\ im_width img <> 0.

Lemma draw_empty st img hash pos : ~ nonempty img -> draw st img hash pos = ([], st).
Proof.
  intros H. unfold draw. replace ((im_height img =? 0) || (im_width img =? 0)) with true; [reflexivity|].
  unfold nonempty in H. lia.
Qed.

Lemma draw_fresh st img hash pos : nonempty img -> lookup (image_id st hash) (k_imgs st) = None ->
  draw st img hash pos =
  (emit_chunks true (image_id st hash) (im_height img) (im_width img) (qval st) (tx_chunks img)
     ++ gfx (kvs_put (image_id st hash) (placement_id pos) (qval st)) true [],
   mkKitty ((image_id st hash, (img, hash)) :: k_imgs st) (ids_note (k_ids st) hash) (k_suppress st)).
Proof.
  intros [Hh Hw] Hl. unfold draw. replace ((im_height img =? 0) || (im_width img =? 0)) with false by lia.
  rewrite Hl. reflexivity.
Qed.

Lemma draw_cached st img hash pos x : nonempty img -> lookup (image_id st hash) (k_imgs st) = Some x ->
  draw st img hash pos =
  (gfx (kvs_put (image_id st hash) (placement_id pos) (qval st)) true [],
   mkKitty (k_imgs st) (ids_note (k_ids st) hash) (k_suppress st)).
Proof.
  intros [Hh Hw] Hl. unfold draw. replace ((im_height img =? 0) || (im_width img =? 0)) with false by lia.
  rewrite Hl. reflexivity.
Qed.

Lemma parse_items_nil f : parse_items f [] = Some [].
Proof. destruct f; reflexivity. Qed.

Lemma parse_single_gfx kvs semi payload : kvs <> [] -> kvs_clean kvs = true -> no_esc payload ->
  (semi = true \/ payload = []) -> parse_stream (gfx kvs semi payload) = Some [IGfx kvs payload].
Proof.
  intros. unfold parse_stream. rewrite <- (app_nil_r (gfx kvs semi payload)) at 2.
  destruct (length (gfx kvs semi payload)) eqn:E; [unfold gfx in E; discriminate|].
  rewrite parse_gfx by assumption. rewrite parse_items_nil. reflexivity.
Qed.

Lemma tx_chunks_spec img : image_wf img -> nonempty img ->
  tx_chunks img <> [] /\ Forall no_esc (tx_chunks img) /\
  concat (tx_chunks img) = rfc4648 (pix_bytes img) /\
  Forall (fun c => (0 < length c <= 4096)%nat /\ (length c mod 4 = 0)%nat) (tx_chunks img).
Proof.
  intros Hwf [Hh Hw]. destruct chunk_const as [[Hc0 Hc1] Hc4]. unfold tx_chunks.
  rewrite (payload_rfc img (proj1 Hwf)). repeat split.
  - apply chunks_nonempty; [exact Hc0|]. apply rfc4648_nonempty, pix_bytes_nonempty; assumption.
  - apply chunks_elems, rfc4648_no_esc.
  - apply chunks_concat, Hc0.
  - eapply Forall_impl; [|apply (chunks_shape _ _ Hc0 Hc4 (rfc4648_length4 _))].
    cbv beta. intros c [[H1 H2] H3]. repeat split; lia.
Qed.

Lemma parse_draw_fresh st img hash pos : image_wf img -> nonempty img ->
  lookup (image_id st hash) (k_imgs st) = None ->
  parse_stream (fst (draw st img hash pos)) =
  Some (tx_items (image_id st hash) (qval st) img ++ [put_item (image_id st hash) (placement_id pos) (qval st)]).
Proof.
  intros Hwf Hne Hl. rewrite (draw_fresh st img hash pos Hne Hl). cbn [fst].
  destruct (tx_chunks_spec img Hwf Hne) as (_ & Hesc & _ & _).
  unfold parse_stream, tx_items.
  set (id := image_id st hash). set (q := qval st). set (chs := tx_chunks img) in *.
  set (put := gfx (kvs_put id (placement_id pos) q) true []).
  pose proof (emit_chunks_length id (im_height img) (im_width img) q chs true) as HL.
  assert (Hput : (1 <= length put)%nat) by (unfold put, gfx; cbn [length]; lia).
  rewrite app_length.
  rewrite parse_emit_chunks by (try exact Hesc; lia).
  rewrite <- (app_nil_r put) at 2.
  destruct (length (emit_chunks true id (im_height img) (im_width img) q chs) + length put - length chs)%nat
    as [|f] eqn:E; [lia|].
  unfold put. rewrite parse_gfx; [|discriminate|apply put_clean|constructor|left; reflexivity].
  rewrite parse_items_nil. reflexivity.
Qed.

Lemma parse_draw_cached st img hash pos x : nonempty img ->
  lookup (image_id st hash) (k_imgs st) = Some x ->
  parse_stream (fst (draw st img hash pos)) = Some [put_item (image_id st hash) (placement_id pos) (qval st)].
Proof.
  intros Hne Hl. rewrite (draw_cached st img hash pos x Hne Hl). cbn [fst].
  apply parse_single_gfx; [discriminate|apply put_clean|constructor|left; reflexivity].
Qed.

Lemma parse_erase st img hash pos :
  parse_stream (fst (erase st img hash pos)) = Some [del_item (image_id st hash) (option_map placement_id pos)].
Proof.
  unfold erase. apply parse_single_gfx; [destruct pos; discriminate|apply del_clean|constructor|right; reflexivity].
Qed.

(* continuation flags: m=1 on every chunk but the last, m=0 on the last *)
Definition item_more (it : item) : option N :=
  match it with IGfx kvs _ => kv_num k_m kvs 0 | _ => None end.

Lemma first_more id h w more q : kv_num k_m (kvs_first id h w more q) 0 = Some more.
Proof. cbv -[dec parse_num]. apply parse_num_dec. Qed.
Lemma next_more more q : kv_num k_m (kvs_next more q) 0 = Some more.
Proof. cbv -[dec parse_num]. apply parse_num_dec. Qed.

Lemma chunk_items_more id h w q : forall chs first, chs <> [] ->
  map item_more (chunk_items first id h w q chs) = repeat (Some 1) (length chs - 1) ++ [Some 0].
Proof.
  induction chs as [|c r IH]; intros first Hne; [contradiction|].
  destruct r as [|c' r'].
  - cbn [chunk_items map item_more length Nat.sub repeat app].
    destruct first; [rewrite first_more|rewrite next_more]; reflexivity.
  - change (chunk_items first id h w q (c :: c' :: r'))
      with (IGfx (if first then kvs_first id h w 1 q else kvs_next 1 q) c :: chunk_items false id h w q (c' :: r')).
    cbn [map item_more]. rewrite (IH false) by discriminate.
    replace (length (c :: c' :: r') - 1)%nat with (S (length (c' :: r') - 1)) by (cbn [length]; lia).
    cbn [repeat app]. destruct first; [rewrite first_more|rewrite next_more]; reflexivity.
Qed.

(* the transmission as the terminal side sees it *)
Lemma do_put_ok id pid s im : 1 <= id <= ID_MAX -> pid <= ID_MAX -> img_lookup id (t_images s) = Some im ->
  do_put id pid s =
  mkStore (t_images s)
          ((id, pid, t_cursor s) ::
           (if pid =? 0 then t_places s
            else filter (fun p => negb ((place_id p =? id) && (place_pid p =? pid))) (t_places s)))
          (t_pending s) (t_cursor s) (t_saved s) (t_sent s) (t_errs s).
Proof.
  intros Hid Hpid Hl. unfold do_put.
  replace ((id =? 0) || (ID_MAX <? id) || (ID_MAX <? pid)) with false by lia. rewrite Hl. reflexivity.
Qed.

Lemma store_transmit id q img s : image_wf img -> nonempty img -> 1 <= id <= ID_MAX -> t_pending s = None ->
  store_run s (tx_items id q img) =
  store_add_image id (mkTimage (im_width img) (im_height img) (pix_bytes img)) s.
Proof.
  intros Hwf Hne Hid Hp. destruct (tx_chunks_spec img Hwf Hne) as (Hn & _ & Hcat & Hshape).
  unfold tx_items. rewrite run_chunks_first by assumption.
  apply finish_ok; try assumption; try apply Hne.
  - apply (chunks_ok_of_shape 4096); [lia|exact Hshape].
  - rewrite Hcat. apply b64_decode_rfc, bytes_ok_flat, pixels_ok, Hwf.
  - apply pix_bytes_length, Hwf.
Qed.

(* ---------- the commands of one call, and the bytes followed by anything else ---------- *)
Definition cached (st : kitty) (hash : N) : bool :=
  match lookup (image_id st hash) (k_imgs st) with Some _ => true | None => false end.

Definition draw_items (st : kitty) (img : image) (hash : N) (pos : N * N) : list item :=
  if (im_height img =? 0) || (im_width img =? 0) then []
  else if cached st hash then [put_item (image_id st hash) (placement_id pos) (qval st)]
  else tx_items (image_id st hash) (qval st) img ++ [put_item (image_id st hash) (placement_id pos) (qval st)].

Lemma nonempty_dec img : {nonempty img} + {~ nonempty img}.
Proof.
  unfold nonempty. destruct (N.eq_dec (im_height img) 0); [right; tauto|].
  destruct (N.eq_dec (im_width img) 0); [right; tauto|left; tauto].
Qed.

Lemma parse_draw_gen st img hash pos : image_wf img -> forall f rest,
  (length (draw_items st img hash pos) <= f)%nat ->
  parse_items f (fst (draw st img hash pos) ++ rest) =
  option_map (app (draw_items st img hash pos)) (parse_items (f - length (draw_items st img hash pos)) rest).
Proof.
  intros Hwf f rest Hf. unfold draw_items in *.
  destruct (nonempty_dec img) as [Hne|Hne].
  - destruct Hne as [Hh Hw]. replace ((im_height img =? 0) || (im_width img =? 0)) with false in * by lia.
    unfold cached in *. destruct (lookup (image_id st hash) (k_imgs st)) as [x|] eqn:Hl.
    + rewrite (draw_cached st img hash pos x (conj Hh Hw) Hl). cbn [fst length] in *.
      destruct f as [|f]; [lia|]. unfold put_item.
      rewrite parse_gfx; [|discriminate|apply put_clean|constructor|left; reflexivity].
      cbn [Nat.sub]. rewrite Nat.sub_0_r. destruct (parse_items f rest); reflexivity.
    + rewrite (draw_fresh st img hash pos (conj Hh Hw) Hl). cbn [fst].
      destruct (tx_chunks_spec img Hwf (conj Hh Hw)) as (_ & Hesc & _ & _).
      rewrite app_length in Hf. cbn [length] in Hf. unfold tx_items in *.
      rewrite <- app_assoc.
      assert (Hlen : forall b id h w q chs, length (chunk_items b id h w q chs) = length chs).
      { intros b id h w q chs. revert b. induction chs; intros b; cbn [chunk_items length]; [reflexivity|]. rewrite IHchs. reflexivity. }
      rewrite Hlen in Hf.
      rewrite parse_emit_chunks by (try exact Hesc; lia).
      destruct (f - length (tx_chunks img))%nat as [|f'] eqn:E; [lia|].
      unfold put_item.
      rewrite parse_gfx; [|discriminate|apply put_clean|constructor|left; reflexivity].
      rewrite app_length, Hlen. cbn [length].
      replace (f - (length (tx_chunks img) + 1))%nat with f' by lia.
      destruct (parse_items f' rest); cbn [option_map]; [|reflexivity].
      rewrite <- app_assoc. reflexivity.
  - rewrite (draw_empty st img hash pos Hne). unfold nonempty in Hne.
    replace ((im_height img =? 0) || (im_width img =? 0)) with true in * by lia.
    cbn [fst app length]. rewrite Nat.sub_0_r. destruct (parse_items f rest); reflexivity.
Qed.

Lemma draw_items_le_bytes st img hash pos : image_wf img ->
  (length (draw_items st img hash pos) <= length (fst (draw st img hash pos)))%nat.
Proof.
  intros Hwf. unfold draw_items. destruct (nonempty_dec img) as [Hne|Hne].
  - destruct Hne as [Hh Hw]. replace ((im_height img =? 0) || (im_width img =? 0)) with false by lia.
    unfold cached. destruct (lookup (image_id st hash) (k_imgs st)) as [x|] eqn:Hl.
    + rewrite (draw_cached st img hash pos x (conj Hh Hw) Hl). cbn [fst length]. unfold gfx. cbn [length]. lia.
    + rewrite (draw_fresh st img hash pos (conj Hh Hw) Hl). cbn [fst]. rewrite !app_length. unfold tx_items.
      pose proof (emit_chunks_length (image_id st hash) (im_height img) (im_width img) (qval st) (tx_chunks img) true).
      assert (Hlen : forall b id h w q chs, length (chunk_items b id h w q chs) = length chs).
      { intros b id h w q chs. revert b. induction chs; intros b; cbn [chunk_items length]; [reflexivity|]. rewrite IHchs. reflexivity. }
      rewrite Hlen. unfold gfx. cbn [length]. lia.
  - unfold nonempty in Hne. replace ((im_height img =? 0) || (im_width img =? 0)) with true by lia. cbn. lia.
Qed.

Lemma parse_draw st img hash pos : image_wf img ->
  parse_stream (fst (draw st img hash pos)) = Some (draw_items st img hash pos).
Proof.
  intros Hwf. unfold parse_stream.
  rewrite <- (app_nil_r (fst (draw st img hash pos))) at 2.
  rewrite parse_draw_gen by (try exact Hwf; apply draw_items_le_bytes, Hwf).
  rewrite parse_items_nil. cbn [option_map]. rewrite app_nil_r. reflexivity.
Qed.

(* handle: what is written for an error response naming a cached image and a placement *)
Definition handle_items (st : kitty) (ev : event) : list item :=
  match ev with
  | EvKitty id (Some p) true =>
      match lookup id (k_imgs st) with
      | Some (img, hash) =>
          ISave :: IMoveTo (fst (placement_to_pos p) + 1) (snd (placement_to_pos p) + 1)
          :: draw_items (mkKitty (remove_key id (k_imgs st)) (k_ids st) (Some 2)) img hash (placement_to_pos p)
          ++ [IRestore]
      | None => []
      end
  | _ => []
  end.

Lemma parse_handle st ev :
  (forall id img hash, lookup id (k_imgs st) = Some (img, hash) -> image_wf img) ->
  parse_stream (fst (fst (handle st ev))) = Some (handle_items st ev).
Proof.
  intros Hwf. unfold handle, handle_items.
  destruct ev as [id pl err|]; [|reflexivity].
  destruct err; [|destruct pl; reflexivity].
  destruct (lookup id (k_imgs st)) as [[img hash]|] eqn:Hl; [|destruct pl; reflexivity].
  destruct pl as [p|]; [|reflexivity].
  specialize (Hwf id img hash Hl).
  set (st1 := mkKitty (remove_key id (k_imgs st)) (k_ids st) (Some 2)).
  set (pos := placement_to_pos p).
  pose proof (parse_draw_gen st1 img hash pos Hwf) as PD.
  pose proof (draw_items_le_bytes st1 img hash pos Hwf) as LE.
  destruct (draw st1 img hash pos) as [bytes st2] eqn:ED. cbn [fst] in *.
  unfold parse_stream. rewrite !app_length.
  set (n := length (draw_items st1 img hash pos)) in *.
  replace (length cursor_save + (length (cursor_to pos) + (length bytes + length cursor_restore)))%nat
    with (S (S (n + S (length (cursor_to pos) + (length bytes - n) + 1)))) by (cbn [cursor_save cursor_restore length]; lia).
  rewrite parse_save, parse_moveto.
  rewrite PD by lia.
  replace (n + S (length (cursor_to pos) + (length bytes - n) + 1) - n)%nat
    with (S (length (cursor_to pos) + (length bytes - n) + 1)) by lia.
  rewrite <- (app_nil_r cursor_restore). rewrite parse_restore, parse_items_nil. reflexivity.
Qed.

(* ---------- identifiers ---------- *)
Definition in_dom (pos : N * N) : Prop := fst pos < 65536 /\ snd pos < 65536.

(* every remembered id is a valid one *)
Definition ids_range (ids : list (N * N)) : Prop := forall h i, lookup h ids = Some i -> 1 <= i <= ID_MAX.

Lemma image_id_base_range hash : 1 <= image_id_base hash <= ID_MAX.
Proof. unfold image_id_base, ID_MAX. rewrite max_id_const. zify_divmod. lia. Qed.

Lemma probe_range : forall fuel id taken, 1 <= id <= ID_MAX -> 1 <= probe fuel id taken <= ID_MAX.
Proof.
  induction fuel as [|f IH]; intros id taken Hid; cbn [probe]; [exact Hid|].
  destruct (existsb (N.eqb id) taken); [|exact Hid]. apply IH.
  unfold ID_MAX in *. rewrite max_id_const. zify_divmod. lia.
Qed.

Lemma id_in_range ids hash : ids_range ids -> 1 <= id_in ids hash <= ID_MAX.
Proof.
  intros Hr. unfold id_in. destruct (lookup hash ids) as [i|] eqn:E; [exact (Hr _ _ E)|].
  apply probe_range, image_id_base_range.
Qed.

Lemma ids_note_range ids hash : ids_range ids -> ids_range (ids_note ids hash).
Proof.
  intros Hr. unfold ids_note. destruct (lookup hash ids) eqn:E; [exact Hr|].
  intros h i Hl. cbn [lookup] in Hl. destruct (hash =? h); [|exact (Hr _ _ Hl)].
  inversion Hl; subst. apply id_in_range, Hr.
Qed.

Lemma image_id_range st hash : ids_range (k_ids st) -> 1 <= image_id st hash <= ID_MAX.
Proof. apply id_in_range. Qed.

(* once a content has its id it keeps it; other contents are not affected by a new one *)
Lemma id_in_note_same ids hash : id_in (ids_note ids hash) hash = id_in ids hash.
Proof.
  unfold ids_note. destruct (lookup hash ids) eqn:E; [reflexivity|].
  unfold id_in at 1. cbn [lookup]. rewrite N.eqb_refl. reflexivity.
Qed.

Lemma lookup_note_same ids hash : lookup hash (ids_note ids hash) = Some (id_in ids hash).
Proof.
  unfold ids_note. destruct (lookup hash ids) eqn:E.
  - unfold id_in. rewrite E. reflexivity.
  - cbn [lookup]. rewrite N.eqb_refl. reflexivity.
Qed.

Lemma lookup_note_other ids hash h : h <> hash -> lookup h (ids_note ids hash) = lookup h ids.
Proof.
  intros Hne. unfold ids_note. destruct (lookup hash ids); [reflexivity|].
  cbn [lookup]. replace (hash =? h) with false by lia. reflexivity.
Qed.

Lemma lookup_note_kept ids hash h i : lookup h ids = Some i -> lookup h (ids_note ids hash) = Some i.
Proof.
  intros Hl. destruct (N.eq_dec h hash) as [->|Hne].
  - rewrite lookup_note_same. unfold id_in. rewrite Hl. reflexivity.
  - rewrite lookup_note_other by exact Hne. exact Hl.
Qed.

Lemma placement_id_range pos : 1 <= placement_id pos <= ID_MAX.
Proof. unfold placement_id, ID_MAX. rewrite max_id_const. zify_divmod. lia. Qed.

(* the position is recovered from the id, except for the one position that wraps around *)
Lemma placement_inverse pos : in_dom pos -> pos <> (65535, 65535) ->
  placement_to_pos (placement_id pos) = pos.
Proof.
  destruct pos as [row col]. unfold in_dom, placement_to_pos, placement_id, placement_index. cbn [fst snd].
  rewrite max_id_const, max_dim_const. intros [Hr Hc] Hne.
  assert (Hx : row <> 65535 \/ col <> 65535).
  { destruct (N.eq_dec row 65535) as [->|]; [|left; assumption].
    destruct (N.eq_dec col 65535) as [->|]; [contradiction|right; assumption]. }
  f_equal; zify_divmod; lia.
Qed.

(* distinct positions get distinct ids, except the last two positions (65534,65535) / (65535,65535) *)
Lemma pos_eq_dec (a b : N * N) : {a = b} + {a <> b}.
Proof. decide equality; apply N.eq_dec. Qed.

Lemma placement_inj p1 p2 : in_dom p1 -> in_dom p2 -> placement_id p1 = placement_id p2 ->
  p1 = p2 \/ (p1 = (65534, 65535) /\ p2 = (65535, 65535)) \/ (p1 = (65535, 65535) /\ p2 = (65534, 65535)).
Proof.
  intros H1 H2 E.
  destruct (pos_eq_dec p1 (65535, 65535)) as [C1|C1], (pos_eq_dec p2 (65535, 65535)) as [C2|C2].
  - left. congruence.
  - right. right. split; [exact C1|]. rewrite <- (placement_inverse p2 H2 C2), <- E, C1. reflexivity.
  - right. left. split; [|exact C2]. rewrite <- (placement_inverse p1 H1 C1), E, C2. reflexivity.
  - left. rewrite <- (placement_inverse p1 H1 C1), <- (placement_inverse p2 H2 C2), E. reflexivity.
Qed.

Lemma corner_collision : placement_id (65534, 65535) = placement_id (65535, 65535).
Proof. reflexivity. Qed.

(* ---------- the payload theorem ---------- *)
Theorem payload_thm img hash pos st :
  image_wf img -> nonempty img -> ids_range (k_ids st) -> lookup (image_id st hash) (k_imgs st) = None ->
  let id := image_id st hash in
  let q := qval st in
  let chs := tx_chunks img in
  let tx := chunk_items true id (im_height img) (im_width img) q chs in
  parse_stream (fst (draw st img hash pos)) = Some (tx ++ [put_item id (placement_id pos) q]) /\
  chs <> [] /\
  Forall (fun c => (0 < length c <= 4096)%nat /\ (length c mod 4 = 0)%nat) chs /\
  map item_more tx = repeat (Some 1) (length chs - 1) ++ [Some 0] /\
  b64_decode (concat chs) = Some (pix_bytes img) /\
  N.of_nat (length (pix_bytes img)) = im_width img * im_height img * 4 /\
  (forall s, t_pending s = None ->
     store_run s tx = store_add_image id (mkTimage (im_width img) (im_height img) (pix_bytes img)) s).
Proof.
  intros Hwf Hne Hr Hl id q chs tx.
  destruct (tx_chunks_spec img Hwf Hne) as (Hn & _ & Hcat & Hshape).
  repeat split.
  - exact (parse_draw_fresh st img hash pos Hwf Hne Hl).
  - exact Hn.
  - exact Hshape.
  - apply chunk_items_more, Hn.
  - unfold chs. rewrite Hcat. apply b64_decode_rfc, bytes_ok_flat, pixels_ok, Hwf.
  - apply pix_bytes_length, Hwf.
  - intros s Hp. apply (store_transmit id q img s Hwf Hne (image_id_range st hash Hr) Hp).
Qed.

(* ---------- a new content gets an id that no other content holds ---------- *)
Definition succ_id (x : N) : N := x mod KITTY_MAX_ID + 1.
Fixpoint cands (fuel : nat) (id : N) : list N :=
  match fuel with O => [] | S f => id :: cands f (succ_id id) end.

Lemma existsb_eqb_in x l : existsb (N.eqb x) l = true <-> In x l.
Proof.
  rewrite existsb_exists. split.
  - intros (y & Hy & E). apply N.eqb_eq in E. subst. exact Hy.
  - intros H. exists x. split; [exact H|apply N.eqb_refl].
Qed.

Lemma probe_witness : forall fuel id taken,
  (exists c, In c (cands fuel id) /\ ~ In c taken) -> ~ In (probe fuel id taken) taken.
Proof.
  induction fuel as [|f IH]; intros id taken (c & Hc & Hn); [contradiction|].
  cbn [probe cands] in *. destruct (existsb (N.eqb id) taken) eqn:E.
  - apply existsb_eqb_in in E. apply IH. exists c. split; [|exact Hn].
    destruct Hc as [<-|Hc]; [contradiction|exact Hc].
  - intros Hin. apply existsb_eqb_in in Hin. congruence.
Qed.

Lemma cands_closed : forall fuel id, 1 <= id <= KITTY_MAX_ID ->
  cands fuel id = map (fun k => (id - 1 + N.of_nat k) mod KITTY_MAX_ID + 1) (seq 0 fuel).
Proof.
  induction fuel as [|f IH]; intros id Hid; [reflexivity|].
  cbn [cands seq map]. f_equal.
  - rewrite max_id_const in *. zify_divmod. lia.
  - rewrite IH by (unfold succ_id; rewrite max_id_const in *; zify_divmod; lia).
    rewrite <- seq_shift, map_map. apply map_ext. intros k. unfold succ_id.
    rewrite max_id_const in *. zify_divmod. lia.
Qed.

Lemma cands_nodup fuel id : 1 <= id <= KITTY_MAX_ID -> N.of_nat fuel <= KITTY_MAX_ID -> NoDup (cands fuel id).
Proof.
  intros Hid Hf. rewrite cands_closed by exact Hid.
  apply NoDup_map_in; [|apply seq_NoDup].
  intros k j Hk Hj E. apply in_seq in Hk, Hj. rewrite max_id_const in *. zify_divmod. lia.
Qed.

Lemma cands_length fuel id : length (cands fuel id) = fuel.
Proof. revert id. induction fuel as [|f IH]; intros id; cbn [cands length]; [reflexivity|]. rewrite IH. reflexivity. Qed.

Lemma fresh_witness (l taken : list N) : NoDup l -> (length taken < length l)%nat ->
  exists c, In c l /\ ~ In c taken.
Proof.
  intros Hnd Hlen.
  destruct (existsb (fun c => negb (existsb (N.eqb c) taken)) l) eqn:E.
  - apply existsb_exists in E as (c & Hc & Hn). exists c. split; [exact Hc|].
    intros Hin. apply existsb_eqb_in in Hin. rewrite Hin in Hn. discriminate.
  - exfalso. assert (Hincl : incl l taken).
    { intros c Hc. apply existsb_eqb_in. destruct (existsb (N.eqb c) taken) eqn:Ec; [reflexivity|].
      assert (existsb (fun c => negb (existsb (N.eqb c) taken)) l = true)
        by (apply existsb_exists; exists c; split; [exact Hc|rewrite Ec; reflexivity]).
      congruence. }
    pose proof (NoDup_incl_length Hnd Hincl). lia.
Qed.

Theorem probe_fresh fuel id taken : 1 <= id <= KITTY_MAX_ID -> N.of_nat fuel <= KITTY_MAX_ID ->
  (length taken < fuel)%nat -> ~ In (probe fuel id taken) taken.
Proof.
  intros Hid Hf Hlen. apply probe_witness. apply fresh_witness.
  - apply cands_nodup; assumption.
  - rewrite cands_length. exact Hlen.
Qed.

(* the id table: valid ids, each content once, each id once *)
Record ids_ok (ids : list (N * N)) : Prop := mkIdsOk {
  io_range : ids_range ids;
  io_keys : NoDup (map fst ids);
  io_vals : NoDup (map snd ids);
  io_room : N.of_nat (length ids) < KITTY_MAX_ID }.

Lemma lookup_in {A} (k : N) (l : list (N * A)) v : lookup k l = Some v -> In (k, v) l.
Proof.
  induction l as [|[k' v'] l IH]; [discriminate|]. cbn [lookup].
  destruct (k' =? k) eqn:E; intros H.
  - apply N.eqb_eq in E. inversion H. subst. left. reflexivity.
  - right. apply IH, H.
Qed.

Lemma lookup_none_notin {A} (k : N) (l : list (N * A)) : lookup k l = None -> ~ In k (map fst l).
Proof.
  induction l as [|[k' v'] l IH]; [intros _ H; exact H|]. cbn [lookup map fst].
  destruct (k' =? k) eqn:E; [discriminate|]. intros H [X|X]; [subst; rewrite N.eqb_refl in E; discriminate|].
  exact (IH H X).
Qed.

(* a new content: its id is held by no other content *)
Lemma id_in_fresh ids hash : ids_ok ids -> lookup hash ids = None -> ~ In (id_in ids hash) (map snd ids).
Proof.
  intros [Hr Hk Hv Hroom] Hl. unfold id_in. rewrite Hl.
  pose proof (image_id_base_range hash) as Hb. unfold ID_MAX in Hb. rewrite <- max_id_const in Hb.
  apply probe_fresh; [exact Hb|lia|rewrite map_length; lia].
Qed.

Lemma ids_note_ok ids hash : ids_ok ids -> N.of_nat (S (length ids)) < KITTY_MAX_ID -> ids_ok (ids_note ids hash).
Proof.
  intros Hok Hroom'. pose proof Hok as [Hr Hk Hv Hroom]. unfold ids_note.
  destruct (lookup hash ids) eqn:Hl; [exact Hok|].
  constructor.
  - pose proof (ids_note_range ids hash Hr) as X. unfold ids_note in X. rewrite Hl in X. exact X.
  - cbn [map fst]. constructor; [apply lookup_none_notin, Hl|exact Hk].
  - cbn [map snd]. constructor; [apply id_in_fresh; assumption|exact Hv].
  - cbn [length]. exact Hroom'.
Qed.

(* two contents never share an id *)
Lemma ids_ok_inj ids h1 h2 i : ids_ok ids -> lookup h1 ids = Some i -> lookup h2 ids = Some i -> h1 = h2.
Proof.
  intros [_ _ Hv _] H1 H2. apply lookup_in in H1, H2.
  induction ids as [|[h v] l IH]; [contradiction|]. cbn [map snd] in Hv. inversion Hv as [|? ? Hn Hv']; subst.
  destruct H1 as [E1|H1], H2 as [E2|H2].
  - congruence.
  - inversion E1; subst. exfalso. apply Hn. apply in_map_iff. exists (h2, i). split; [reflexivity|exact H2].
  - inversion E2; subst. exfalso. apply Hn. apply in_map_iff. exists (h1, i). split; [reflexivity|exact H1].
  - exact (IH Hv' H1 H2).
Qed.
