(* Model of KDTree::{new, find} (src/image.rs:1501-1608) and of the brute-force
   specification it is compared with.  Executable definitions only.

   Colours are RGB triples of N (bytes).  The index arena `Vec<KDNode>` of the
   code (every node pushed once, after both of its subtrees; the root is the
   last element) is abstracted into an inductive binary tree: `left`/`right`
   Option<usize> become subtrees, `None` becomes KNil. *)
From Coq Require Import List NArith ZArith Bool.
From SNT Require Import Base.Outcome.
Import ListNotations.

Definition rgb := (N * N * N)%type.

Definition rgb_ok (c : rgb) : bool :=
  let '(r, g, b) := c in ((r <? 256) && (g <? 256) && (b <? 256))%N.

Definition rgb_eqb (a b : rgb) : bool :=
  let '(r0, g0, b0) := a in let '(r1, g1, b1) := b in
  ((r0 =? r1) && (g0 =? g1) && (b0 =? b1))%N.

(* c[dim], dim in 0..2 *)
Definition chan (d : nat) (c : rgb) : N :=
  let '(r, g, b) := c in
  match d with O => r | S O => g | _ => b end.

(* (dim + 1) % 3 *)
Definition next_dim (d : nat) : nat :=
  match d with O => 1%nat | S O => 2%nat | _ => O end.

Definition sq (x : Z) : Z := (x * x)%Z.

(* fn dist: squared Euclidean distance in i32 (at most 3*255^2, no overflow) *)
Definition dist2 (a b : rgb) : Z :=
  let '(r0, g0, b0) := a in let '(r1, g1, b1) := b in
  (sq (Z.of_N r0 - Z.of_N r1) + sq (Z.of_N g0 - Z.of_N g1) + sq (Z.of_N b0 - Z.of_N b1))%Z.

(* ---------- construction ---------- *)

Definition entry := (N * rgb)%type.          (* (color_index, color) *)

(* slice::sort_by_key(|(_, c)| c[dim]) is a stable sort; the result of a stable
   sort is unique, so insertion sort (insert before the first strictly greater
   key... see ins: equal keys keep their original order) describes it. *)
Fixpoint ins (d : nat) (x : entry) (l : list entry) : list entry :=
  match l with
  | [] => [x]
  | y :: ys => if (chan d (snd x) <=? chan d (snd y))%N then x :: y :: ys
               else y :: ins d x ys
  end.

Definition sort_by (d : nat) (l : list entry) : list entry :=
  fold_right (ins d) [] l.

Inductive kd :=
| KNil
| KNode (l : kd) (idx : N) (c : rgb) (dim : nat) (r : kd).

(* build_rec; `fuel` only makes the recursion structural: each call recurses on
   strictly shorter slices, so `length l` is enough (KDTreeProofs.build_elems shows
   no entry is ever lost, which would be the visible effect of running dry). *)
Fixpoint build_fuel (fuel : nat) (d : nat) (l : list entry) : kd :=
  match l with
  | [] => KNil
  | [(i, c)] => KNode KNil i c d KNil
  | _ =>
      match fuel with
      | O => KNil
      | S f =>
          let s := sort_by d l in
          let m := Nat.div2 (length l) in
          match skipn m s with
          | [] => KNil
          | (i, c) :: rest =>
              KNode (build_fuel f (next_dim d) (firstn m s)) i c d
                    (build_fuel f (next_dim d) rest)
          end
      end
  end.

Fixpoint enumerate_from (i : N) (l : list rgb) : list entry :=
  match l with
  | [] => []
  | c :: r => (i, c) :: enumerate_from (i + 1) r
  end.

(* KDTree::new *)
Definition build (pal : list rgb) : kd :=
  build_fuel (length pal) O (enumerate_from 0 pal).

(* ---------- search ---------- *)

(* find_rec: returns (node.color_index, node.color, distance) *)
Fixpoint find_rec (t : kd) (q : rgb) : option (N * rgb * Z) :=
  match t with
  | KNil => None
  | KNode l i c d r =>
      let node_dist := dist2 q c in
      let go_left := (chan d q <? chan d c)%N in
      let guess :=
        match (if go_left then find_rec l q else find_rec r q) with
        | None => (i, c, node_dist)
        | Some (gi, gc, gd) =>
            if (gd >=? node_dist)%Z then (i, c, node_dist) else (gi, gc, gd)
        end in
      let '(gi, gc, gd) := guess in
      let other_dist := sq (Z.of_N (chan d q) - Z.of_N (chan d c)) in
      if (other_dist >=? gd)%Z then Some guess
      else
        match (if go_left then find_rec r q else find_rec l q) with
        | None => Some guess
        | Some (oi, oc, od) =>
            if (od <? gd)%Z then Some (oi, oc, od) else Some guess
        end
  end.

(* KDTree::find; on an empty arena `self.nodes.len() - 1` underflows *)
Definition kd_find (t : kd) (q : rgb) : outcome (N * rgb) :=
  match find_rec t q with
  | None => Panic 13001
  | Some (i, c, _) => Ok (i, c)
  end.

(* ---------- specification side ---------- *)

(* (i, c) is an entry of pal at minimal distance from q *)
Definition is_nearest (pal : list rgb) (q : rgb) (i : N) (c : rgb) : Prop :=
  nth_error pal (N.to_nat i) = Some c /\
  forall c', In c' pal -> (dist2 q c <= dist2 q c')%Z.

Definition is_nearestb (pal : list rgb) (q : rgb) (i : N) (c : rgb) : bool :=
  match nth_error pal (N.to_nat i) with
  | Some c0 => rgb_eqb c0 c && forallb (fun c' => (dist2 q c <=? dist2 q c')%Z) pal
  | None => false
  end.

(* ColorPalette::find_naive: first minimum *)
Definition find_naive (pal : list rgb) (q : rgb) : option (N * rgb) :=
  match pal with
  | [] => None
  | c0 :: rest =>
      let '(bi, bc, _, _) :=
        fold_left (fun '(bi, bc, bd, k) c =>
                     let d := dist2 q c in
                     if (d <? bd)%Z then (k, c, d, (k + 1)%N) else (bi, bc, bd, (k + 1)%N))
                  rest (0%N, c0, dist2 q c0, 1%N) in
      Some (bi, bc)
  end.
