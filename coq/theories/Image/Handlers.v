(* The rest of the ImageHandler interface around KittyImageHandler
   (src/image.rs:476-589): ImageHandlerKind::from_str, ImageHandler::kind,
   DummyImageHandler.  (The choice of a handler from the terminal's
   capabilities lives in the private unix module behind a tty and is not
   modelled.) *)
From Coq Require Import Ascii String.
From Coq Require Import List NArith Bool.
From SNT Require Import Base.Report Image.Kitty.
Import ListNotations.
Local Open Scope N_scope.

Inductive hkind := KKitty | KSixel | KDummy.
Definition hkind_code (k : hkind) : N := match k with KKitty => 0 | KSixel => 1 | KDummy => 2 end.

(* str::to_ascii_lowercase on the UTF-8 bytes: only A-Z change *)
Definition ascii_lower (c : N) : N := if (65 <=? c) && (c <=? 90) then c + 32 else c.

(* match s.to_ascii_lowercase().as_str() { "kitty" => Kitty, "sixel" => Sixel, "dummy" => Dummy, _ => Err } *)
Definition kind_of_bytes (s : list N) : option hkind :=
  let l := map ascii_lower s in
  if nlist_eqb l (bs "kitty") then Some KKitty
  else if nlist_eqb l (bs "sixel") then Some KSixel
  else if nlist_eqb l (bs "dummy") then Some KDummy
  else None.

(* DummyImageHandler: draw and erase write nothing and return Ok(()), handle returns Ok(false) *)
Definition dummy_step (o : op) : list N * N := ([], 0).
Definition dummy_run (ops : list op) : list (list N * N) := map dummy_step ops.

(* ImageHandler::kind *)
Definition kind_of_handler (dummy : bool) : hkind := if dummy then KDummy else KKitty.
