(* C12, cropped views: an Image is (buffer, Shape); Image::crop(r0..r1, c0..c1) keeps the
   buffer and takes Shape::view.  Through C07's representation lemmas (Surface/ShapeProofs:
   rep_root, rep_view, rep_offset) the element the code reads at position (r, c) of the
   cropped image - buffer[shape.offset(r, c)] - is the element (r, c) of the window
   `view_rows parent crop` the sixel theorems are stated for. *)
From Coq Require Import List NArith Bool Lia Arith.
From SNT Require Import Surface.Bounds Surface.Shape Surface.ShapeProofs
     Base.Outcome Image.KDTree Image.Sixel Image.SixelDraw Image.SixelPicture.
Import ListNotations.

Lemma nth_error_concat_rect {A} (P : list (list A)) W : forall r c,
  Forall (fun row => length row = W) P -> (c < W)%nat ->
  nth_error (concat P) (r * W + c) = match nth_error P r with Some row => nth_error row c | None => None end.
Proof.
  induction P as [|row rest IH]; intros r c Hrect Hc.
  - cbn. destruct (r * W + c)%nat; destruct r; reflexivity.
  - inversion Hrect as [|? ? Hrow Hrest]; subst. cbn [concat]. destruct r as [|r].
    + cbn [Nat.mul Nat.add nth_error]. rewrite nth_error_app1 by lia. reflexivity.
    + cbn [nth_error]. rewrite nth_error_app2 by lia.
      replace (S r * length row + c - length row)%nat with (r * length row + c)%nat by lia.
      apply IH; assumption.
Qed.

Theorem crop_reads_window {A} (P : list (list A)) (H W r0 r1 c0 c1 r c : nat) :
  length P = H -> Forall (fun row => length row = W) P ->
  (r0 < r1 <= H)%nat -> (c0 < c1 <= W)%nat -> (r < r1 - r0)%nat -> (c < c1 - c0)%nat ->
  get (view (of_size H W) (Some (r0, r1)) (Some (c0, c1))) (concat P) r c
  = match nth_error (map (fun row => firstn (c1 - c0) (skipn c0 row)) (firstn (r1 - r0) (skipn r0 P))) r with
    | Some row => nth_error row c
    | None => None
    end.
Proof.
  intros HP Hrect Hr Hc Hrr Hcc.
  assert (Hrep : Rep H W (view (of_size H W) (Some (r0, r1)) (Some (c0, c1)))
                     (win_view (win_root H W) (Some (r0, r1)) (Some (c0, c1)))).
  { apply rep_view; [apply rep_root| |]; cbn; lia. }
  destruct (rep_offset H W _ _ r c Hrep) as (Hoff & _ & _); [cbn; lia|cbn; lia|].
  cbn [win_view win_root w_t w_h w_w w_r0 w_c0] in Hoff.
  unfold get. destruct Hrep as (Hh & Hw & _). cbn [win_view win_root w_t w_h w_w] in Hh, Hw.
  rewrite Hh, Hw.
  replace ((r1 - r0 <=? r) || (c1 - c0 <=? c)) with false
    by (symmetry; apply orb_false_iff; split; apply Nat.leb_gt; lia).
  rewrite Hoff. unfold root_index, win_coord. cbn [w_t w_r0 w_c0 fst snd].
  rewrite (nth_error_concat_rect P W) by (assumption || lia).
  rewrite nth_error_map, nth_error_firstn_lt by lia. rewrite nth_error_skipn_add.
  replace (0 + r0 + r)%nat with (r0 + r)%nat by lia.
  destruct (nth_error P (r0 + r)) as [row|] eqn:E; cbn [option_map]; [|reflexivity].
  rewrite nth_error_firstn_lt by lia. rewrite nth_error_skipn_add. reflexivity.
Qed.

(* in the vocabulary of the sixel model: the pixels draw reads from a cropped Image are the rows
   `view_rows parent (Some (r0, r1, c0, c1))` *)
Corollary crop_is_view_rows (parent : list (list spx)) (H W r0 r1 c0 c1 r c : nat) :
  length parent = H -> Forall (fun row => length row = W) parent ->
  (r0 < r1 <= H)%nat -> (c0 < c1 <= W)%nat -> (r < r1 - r0)%nat -> (c < c1 - c0)%nat ->
  get (view (of_size H W) (Some (r0, r1)) (Some (c0, c1))) (concat parent) r c
  = match nth_error (view_rows parent (Some (r0, r1, c0, c1))) r with
    | Some row => nth_error row c
    | None => None
    end.
Proof. intros. unfold view_rows. now apply crop_reads_window with (H := H). Qed.
