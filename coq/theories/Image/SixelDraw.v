(* C12: SixelImageHandler::draw = channel reduction, Image::quantize(256, true, bg),
   sixel encoding, with the constants and the two scaling tables regenerated from
   the source on every run (Gen/TabSixel.v).  Executable definitions only. *)
From Coq Require Import List NArith Bool.
From SNT Require Import Base.Outcome Image.KDTree Image.Octree Image.Quantize Image.Sixel Gen.TabSixel.
Import ListNotations.
Local Open Scope N_scope.

Definition pre (x : N) : N := tbl sixel_pre_tbl x.
Definition scale (x : N) : N := tbl sixel_scale_tbl x.

Definition sixel_eff (rows : list (list spx)) : img :=
  map (map (eff_px sixel_pre_tbl)) (rows6 rows).

Definition sixel_encode (pal : list rgb) (q : list (list N)) (w : nat) (orders : list (list N))
  : outcome (list N) :=
  encode sixel_shift_min sixel_repeat_min sixel_code_offset scale pal q w orders.

(* bytes of a first draw of the image; orders = the hash-map iteration order of every band *)
Definition sixel_draw (rows : list (list spx)) (orders : list (list N)) : outcome (list N) :=
  let eff := sixel_eff rows in
  match quantize eff sixel_palette_size sixel_dither with
  | Ok (pal, q) => sixel_encode pal q (N.to_nat (img_width eff)) orders
  | Err _ => Ok []                          (* `None => return Ok(())`: nothing is written *)
  | Panic s => Panic s
  | OutOfFuel => OutOfFuel
  end.

(* the iteration orders must enumerate exactly the colours present in each band *)
Definition orders_ok (q : list (list N)) (orders : list (list N)) : bool :=
  let bs := bands (length q) q in
  Nat.eqb (length orders) (length bs) &&
  forallb (fun p => order_ok (fst p) (snd p)) (combine orders bs).

(* the source picture at sixel resolution *)
Definition sixel_src100 (rows : list (list spx)) : list (list rgb) := map (map src100) (rows6 rows).

Definition distinct100 (rows : list (list spx)) : N :=
  N.of_nat (length (nodup_rgb (concat (sixel_src100 rows)))).

(* ---------- cropped views ---------- *)

(* Image::crop(r0..r1, c0..c1): a window of the parent's pixel matrix (the parent's buffer
   is shared, only the Shape changes; C07 proves that a Shape view is this window) *)
Definition view_rows (parent : list (list spx)) (crop : option (nat * nat * nat * nat))
  : list (list spx) :=
  match crop with
  | None => parent
  | Some (r0, r1, c0, c1) =>
      map (fun r => firstn (c1 - c0) (skipn c0 r)) (firstn (r1 - r0) (skipn r0 parent))
  end.

