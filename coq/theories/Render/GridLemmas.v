(* Render/GridLemmas.v — facts about lists-as-rows and grids used by the C01 proofs. *)
From Coq Require Import List NArith Bool Arith Lia.
From SNT Require Import Render.Cell.
Import ListNotations.

(* ---------- upd ---------- *)
Lemma upd_length : forall {A} (l : list A) k v, length (upd l k v) = length l.
Proof. induction l as [|x t IH]; intros [|k] v; simpl; auto. Qed.

Lemma nth_error_upd_eq : forall {A} (l : list A) k v,
  k < length l -> nth_error (upd l k v) k = Some v.
Proof.
  induction l as [|x t IH]; intros [|k] v H; simpl in *; try lia; auto.
  apply IH. lia.
Qed.

Lemma nth_error_upd_neq : forall {A} (l : list A) k j v,
  j <> k -> nth_error (upd l k v) j = nth_error l j.
Proof.
  induction l as [|x t IH]; intros [|k] [|j] v H; simpl; auto; try congruence.
Qed.

Lemma upd_beyond : forall {A} (l : list A) k v, length l <= k -> upd l k v = l.
Proof.
  induction l as [|x t IH]; intros [|k] v H; simpl in *; auto; try lia.
  f_equal. apply IH. lia.
Qed.

Lemma nth_error_upd : forall {A} (l : list A) k j v,
  nth_error (upd l k v) j =
  if Nat.eqb j k then (if k <? length l then Some v else None) else nth_error l j.
Proof.
  intros. destruct (Nat.eqb_spec j k) as [->|Hne].
  - destruct (Nat.ltb_spec k (length l)).
    + apply nth_error_upd_eq; auto.
    + rewrite upd_beyond by lia. apply nth_error_None. lia.
  - apply nth_error_upd_neq; auto.
Qed.

(* ---------- mapi ---------- *)
Lemma mapi_from_length : forall {A B} (f : nat -> A -> B) l k, length (mapi_from f k l) = length l.
Proof. induction l; intros; simpl; auto. Qed.

Lemma mapi_length : forall {A B} (f : nat -> A -> B) l, length (mapi f l) = length l.
Proof. intros. apply mapi_from_length. Qed.

Lemma nth_error_mapi_from : forall {A B} (f : nat -> A -> B) l k i,
  nth_error (mapi_from f k l) i = option_map (f (k + i)) (nth_error l i).
Proof.
  induction l as [|x t IH]; intros k [|i]; simpl; auto.
  - rewrite Nat.add_0_r. reflexivity.
  - rewrite IH. replace (S k + i) with (k + S i) by lia. reflexivity.
Qed.

Lemma nth_error_mapi : forall {A B} (f : nat -> A -> B) l i,
  nth_error (mapi f l) i = option_map (f i) (nth_error l i).
Proof. intros. unfold mapi. rewrite nth_error_mapi_from. reflexivity. Qed.

Lemma in_mapi_from : forall {A B} (f : nat -> A -> B) l k y,
  In y (mapi_from f k l) <-> exists i x, nth_error l i = Some x /\ y = f (k + i) x.
Proof.
  induction l as [|x t IH]; intros k y; simpl.
  - split; [tauto|]. intros (i & x & H & _). destruct i; discriminate.
  - rewrite IH. split.
    + intros [<-|(i & x' & H & ->)].
      * exists 0, x. rewrite Nat.add_0_r. auto.
      * exists (S i), x'. split; auto. f_equal. lia.
    + intros ([|i] & x' & H & ->); simpl in H.
      * inversion H; subst. left. f_equal. lia.
      * right. exists i, x'. split; auto. f_equal. lia.
Qed.

Lemma in_mapi : forall {A B} (f : nat -> A -> B) l y,
  In y (mapi f l) <-> exists i x, nth_error l i = Some x /\ y = f i x.
Proof. intros. unfold mapi. rewrite in_mapi_from. reflexivity. Qed.

Lemma mapi_from_id : forall {A} (f : nat -> A -> A) l k,
  (forall i x, f i x = x) -> mapi_from f k l = l.
Proof. induction l; intros; simpl; auto. rewrite H, IHl; auto. Qed.

(* ---------- repeat ---------- *)
Lemma nth_error_repeat : forall {A} (v : A) n i, i < n -> nth_error (repeat v n) i = Some v.
Proof. induction n; intros [|i] H; simpl; try lia; auto. apply IHn. lia. Qed.

Lemma nth_error_repeat_inv : forall {A} (v x : A) n i, nth_error (repeat v n) i = Some x -> x = v /\ i < n.
Proof.
  induction n; intros [|i] H; simpl in *; try discriminate.
  - inversion H. split; auto. lia.
  - apply IHn in H. destruct H. split; auto. lia.
Qed.

(* ---------- dimensions ---------- *)
Definition gdims {A} (g : grid A) (h w : nat) : Prop :=
  length g = h /\ forall row, In row g -> length row = w.

Lemma grid_dims_true : forall {A} (g : grid A) h w, grid_dims g h w = true <-> gdims g h w.
Proof.
  intros. unfold grid_dims, gdims. rewrite andb_true_iff, Nat.eqb_eq, forallb_forall.
  split; intros [H1 H2]; split; auto; intros row Hin; specialize (H2 row Hin);
    [apply Nat.eqb_eq|apply Nat.eqb_eq]; auto.
Qed.

Lemma gdims_gmake : forall {A} h w (v : A), gdims (gmake h w v) h w.
Proof.
  intros. unfold gmake, gdims. split. apply repeat_length.
  intros row Hin. apply repeat_spec in Hin. subst. apply repeat_length.
Qed.

Lemma gdims_row : forall {A} (g : grid A) h w r row,
  gdims g h w -> nth_error g r = Some row -> length row = w.
Proof. intros A g h w r row [_ H] Hn. apply H. eapply nth_error_In; eauto. Qed.

Lemma gget_some_bounds : forall {A} (g : grid A) h w r c x,
  gdims g h w -> gget g r c = Some x -> r < h /\ c < w.
Proof.
  intros A g h w r c x Hd Hg. unfold gget in Hg.
  destruct (nth_error g r) as [row|] eqn:Er; [|discriminate].
  pose proof (gdims_row _ _ _ _ _ Hd Er) as Hl.
  destruct Hd as [Hh _]. split.
  - rewrite <- Hh. apply nth_error_Some. congruence.
  - rewrite <- Hl. apply nth_error_Some. congruence.
Qed.

Lemma gget_in_bounds : forall {A} (g : grid A) h w r c,
  gdims g h w -> r < h -> c < w -> exists x, gget g r c = Some x.
Proof.
  intros A g h w r c Hd Hr Hc. unfold gget.
  destruct (nth_error g r) as [row|] eqn:Er.
  - pose proof (gdims_row _ _ _ _ _ Hd Er) as Hl.
    destruct (nth_error row c) eqn:Ec; eauto.
    apply nth_error_None in Ec. lia.
  - apply nth_error_None in Er. destruct Hd. lia.
Qed.

Lemma gget_none_out : forall {A} (g : grid A) h w r c,
  gdims g h w -> (h <= r \/ w <= c) -> gget g r c = None.
Proof.
  intros A g h w r c Hd Hout. destruct (gget g r c) eqn:E; auto.
  eapply gget_some_bounds in E; eauto. lia.
Qed.

Lemma gget_gmake : forall {A} h w (v : A) r c, r < h -> c < w -> gget (gmake h w v) r c = Some v.
Proof.
  intros. unfold gget, gmake. rewrite nth_error_repeat by auto. apply nth_error_repeat; auto.
Qed.

Lemma gget_gmake_inv : forall {A} h w (v x : A) r c, gget (gmake h w v) r c = Some x -> x = v.
Proof.
  intros A h w v x r c H. unfold gget, gmake in H.
  destruct (nth_error (repeat (repeat v w) h) r) as [row|] eqn:E; [|discriminate].
  apply nth_error_repeat_inv in E. destruct E as [-> _].
  apply nth_error_repeat_inv in H. tauto.
Qed.

(* extensionality *)
Lemma list_ext : forall {A} (l1 l2 : list A),
  length l1 = length l2 -> (forall i, i < length l1 -> nth_error l1 i = nth_error l2 i) -> l1 = l2.
Proof.
  induction l1 as [|x t IH]; intros [|y u] Hl H; simpl in *; try discriminate; auto.
  f_equal.
  - specialize (H 0 ltac:(lia)). simpl in H. congruence.
  - apply IH. lia. intros i Hi. apply (H (S i)). lia.
Qed.

Lemma grid_ext : forall {A} (g1 g2 : grid A) h w,
  gdims g1 h w -> gdims g2 h w ->
  (forall r c, r < h -> c < w -> gget g1 r c = gget g2 r c) -> g1 = g2.
Proof.
  intros A g1 g2 h w Hd1 Hd2 H.
  apply list_ext. destruct Hd1, Hd2; congruence.
  intros r Hr. destruct Hd1 as [Hh1 Hw1]. destruct Hd2 as [Hh2 Hw2].
  destruct (nth_error g1 r) as [row1|] eqn:E1; [|apply nth_error_None in E1; lia].
  destruct (nth_error g2 r) as [row2|] eqn:E2; [|apply nth_error_None in E2; lia].
  f_equal.
  assert (L1 : length row1 = w) by (apply Hw1; eapply nth_error_In; eauto).
  assert (L2 : length row2 = w) by (apply Hw2; eapply nth_error_In; eauto).
  apply list_ext. congruence.
  intros c Hc. specialize (H r c ltac:(lia) ltac:(lia)).
  unfold gget in H. rewrite E1, E2 in H. exact H.
Qed.

(* ---------- gset ---------- *)
Lemma gdims_upd_row : forall {A} (g : grid A) h w r row,
  gdims g h w -> length row = w -> gdims (upd g r row) h w.
Proof.
  intros A g h w r row [Hh Hw] Hl. split. rewrite upd_length; auto.
  intros row' Hin. apply In_nth_error in Hin. destruct Hin as [i Hi].
  rewrite nth_error_upd in Hi. destruct (Nat.eqb i r).
  - destruct (r <? length g); inversion Hi; subst; auto.
  - apply Hw. eapply nth_error_In; eauto.
Qed.

Lemma gdims_gset : forall {A} (g : grid A) h w r c v, gdims g h w -> gdims (gset g r c v) h w.
Proof.
  intros A g h w r c v Hd. unfold gset. destruct (nth_error g r) as [row|] eqn:E; auto.
  apply gdims_upd_row; auto. rewrite upd_length. eapply gdims_row; eauto.
Qed.

Lemma gget_gset : forall {A} (g : grid A) r c v r' c',
  gget (gset g r c v) r' c' =
  if Nat.eqb r' r && Nat.eqb c' c then option_map (fun _ => v) (gget g r c) else gget g r' c'.
Proof.
  intros. unfold gset, gget.
  destruct (nth_error g r) as [row|] eqn:E.
  - rewrite nth_error_upd. destruct (Nat.eqb_spec r' r) as [->|Hr]; simpl.
    + assert (Hlt : r < length g) by (apply nth_error_Some; congruence).
      apply Nat.ltb_lt in Hlt. rewrite Hlt, E.
      rewrite nth_error_upd. destruct (Nat.eqb_spec c' c) as [->|Hc]; auto.
      destruct (Nat.ltb_spec c (length row)) as [Hl|Hl].
      * destruct (nth_error row c) eqn:Ec; auto. apply nth_error_None in Ec. lia.
      * assert (Ec : nth_error row c = None) by (apply nth_error_None; lia). rewrite Ec. auto.
    + reflexivity.
  - destruct (Nat.eqb_spec r' r) as [->|Hr]; simpl; auto.
    rewrite E. destruct (Nat.eqb c' c); auto.
Qed.

(* ---------- gfill ---------- *)
Lemma fill_range_length : forall {A} (l : list A) a b v, length (fill_range l a b v) = length l.
Proof. intros. unfold fill_range. apply mapi_length. Qed.

Lemma gdims_gfill : forall {A} (g : grid A) h w r0 r1 c0 c1 v,
  gdims g h w -> gdims (gfill g r0 r1 c0 c1 v) h w.
Proof.
  intros A g h w r0 r1 c0 c1 v [Hh Hw]. unfold gfill. split. rewrite mapi_length; auto.
  intros row Hin. apply in_mapi in Hin. destruct Hin as (i & x & Hn & ->).
  assert (length x = w) by (apply Hw; eapply nth_error_In; eauto).
  destruct (in_range r0 r1 i); auto. rewrite fill_range_length; auto.
Qed.

Lemma gget_gfill : forall {A} (g : grid A) r0 r1 c0 c1 v r c,
  gget (gfill g r0 r1 c0 c1 v) r c =
  option_map (fun x => if in_range r0 r1 r && in_range c0 c1 c then v else x) (gget g r c).
Proof.
  intros. unfold gfill, gget. rewrite nth_error_mapi.
  destruct (nth_error g r) as [row|]; simpl; auto.
  destruct (in_range r0 r1 r); simpl.
  - unfold fill_range. rewrite nth_error_mapi. reflexivity.
  - destruct (nth_error row c); reflexivity.
Qed.

Lemma gfill_empty : forall {A} (g : grid A) r0 r1 c0 c1 v,
  (r1 <= r0 \/ c1 <= c0) -> gfill g r0 r1 c0 c1 v = g.
Proof.
  intros A g r0 r1 c0 c1 v H. unfold gfill, mapi. apply mapi_from_id. intros r row.
  destruct (in_range r0 r1 r) eqn:E; auto.
  unfold fill_range, mapi. apply mapi_from_id. intros c x.
  destruct (in_range c0 c1 c) eqn:E2; auto.
  unfold in_range in *. apply andb_true_iff in E, E2.
  rewrite Nat.leb_le, Nat.ltb_lt in *. lia.
Qed.

Lemma in_range_true : forall a b k, in_range a b k = true <-> a <= k < b.
Proof. intros. unfold in_range. rewrite andb_true_iff, Nat.leb_le, Nat.ltb_lt. tauto. Qed.

Lemma in_range_false : forall a b k, in_range a b k = false <-> ~ (a <= k < b).
Proof.
  intros. rewrite <- in_range_true. destruct (in_range a b k); split; intro; try congruence; tauto.
Qed.

(* ---------- all_pos ---------- *)
Lemma in_all_pos : forall h w r c, In (r, c) (all_pos h w) <-> r < h /\ c < w.
Proof.
  intros. unfold all_pos. rewrite in_flat_map. split.
  - intros (r' & Hr & Hin). apply in_map_iff in Hin. destruct Hin as (c' & Heq & Hc).
    inversion Heq; subst. apply in_seq in Hr. apply in_seq in Hc. lia.
  - intros [Hr Hc]. exists r. split. apply in_seq. lia.
    apply in_map_iff. exists c. split; auto. apply in_seq. lia.
Qed.
