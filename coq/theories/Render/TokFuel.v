(* The re-parse loop of MatcherDecoder terminates: every emitted item permanently consumes at
   least one byte, every other step moves a byte from the rescheduled stack into the buffer.
   Hence the fuel the model gives to `drain` (tok_weight) always suffices, for any automaton. *)
From Coq Require Import List Arith Bool NArith Lia.
From SNT Require Import Base.Outcome Render.CellLayout Render.Writer.
Import ListNotations.

Definition CandOk (st : tstate) : Prop :=
  match t_cand st with
  | Some (_, size) => 1 <= size <= length (t_buf st)
  | None => True
  end.

Lemma t0_candok d : CandOk (t0 d).
Proof. exact I. Qed.

Lemma decode_byte_measure d st b st1 o : CandOk st -> decode_byte d st b = (st1, o) ->
  CandOk st1 /\
  ((o = None /\ length (t_resched st1) = length (t_resched st) /\ length (t_buf st1) = length (t_buf st) + 1) \/
   (o <> None /\ length (t_resched st1) + length (t_buf st1) < length (t_resched st) + 1 + length (t_buf st))).
Proof.
  intros Hc. unfold decode_byte.
  assert (Hlen : length (t_buf st ++ [b]) = length (t_buf st) + 1) by (rewrite app_length; cbn; lia).
  destruct (d_delta d (t_q st) b) as [q'|].
  - destruct (d_inf d q') as [[acc term] tag]. destruct acc.
    + destruct term.
      * cbn [take_candidate t_cand t_buf t_resched]. intros [= <- <-]. split; [exact I|]. right.
        split; [discriminate|]. cbn [t_resched t_buf]. rewrite skipn_all. cbn. lia.
      * intros [= <- <-]. split; [unfold CandOk; cbn; lia|]. left. cbn. auto.
    + intros [= <- <-]. split.
      * unfold CandOk in *. cbn. destruct (t_cand st) as [[it size]|]; auto. lia.
      * left. cbn. auto.
  - unfold take_candidate. cbn [t_cand t_buf t_resched].
    unfold CandOk in Hc. destruct (t_cand st) as [[it size]|].
    + intros [= <- <-]. split; [exact I|]. right. split; [discriminate|].
      cbn [t_resched t_buf]. rewrite app_length, skipn_length. cbn. lia.
    + destruct (1 <? length (t_buf st ++ [b])) eqn:E.
      * apply Nat.ltb_lt in E. intros [= <- <-]. split; [exact I|]. right. split; [discriminate|]. cbn. lia.
      * intros [= <- <-]. split; [exact I|]. right. split; [discriminate|]. cbn. lia.
Qed.

Definition phi (st : tstate) : nat :=
  let t := length (t_resched st) + length (t_buf st) in t * (t + 1) + length (t_resched st).

Lemma drain_total d : forall fuel st, CandOk st -> phi st <= fuel ->
  exists st' items, drain d fuel st = Ok (st', items) /\ CandOk st' /\ t_resched st' = [].
Proof.
  induction fuel as [|f IH]; intros st Hc Hphi.
  - destruct st as [q buf [|b r] cand]; cbn.
    + exists (mkT q buf [] cand), []. auto.
    + unfold phi in Hphi. cbn in Hphi. lia.
  - destruct st as [q buf [|b r] cand]; cbn [drain t_resched t_q t_buf t_cand].
    + exists (mkT q buf [] cand), []. auto.
    + destruct (decode_byte d (mkT q buf r cand) b) as [st1 o] eqn:H1.
      destruct (decode_byte_measure d (mkT q buf r cand) b st1 o Hc H1) as [Hc1 Hm].
      assert (Hphi1 : phi st1 <= f).
      { unfold phi in *. cbn [t_resched t_buf] in *. cbn [length] in Hphi.
        destruct Hm as [(_ & E1 & E2)|(_ & Hlt)].
        - rewrite E1, E2. nia.
        - nia. }
      destruct (IH st1 Hc1 Hphi1) as (st' & items & -> & Hc' & Hr').
      exists st', (olist o ++ items). auto.
Qed.

Lemma tok_feed_total d st b : CandOk st ->
  exists st' items, tok_feed d st b = Ok (st', items) /\ CandOk st' /\ t_resched st' = [].
Proof.
  intros Hc. unfold tok_feed. destruct (decode_byte d st b) as [st1 o] eqn:H1.
  destruct (decode_byte_measure d _ b st1 o Hc H1) as [Hc1 _].
  destruct (drain_total d (tok_weight st1) st1 Hc1) as (st' & items & -> & Hc' & Hr').
  { unfold tok_weight, phi. lia. }
  exists st', (olist o ++ items). auto.
Qed.
