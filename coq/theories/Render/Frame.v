(* Render/Frame.v — executable model of surf_n_term::render::TerminalRenderer
   (src/render.rs: new, clear, surface, frame), pass by pass.

   frame():
     pass 1  row-major over all cells: glyph cells are replaced by their cached
             image; a cell that is unchanged (old == new and not marked
             Damaged) only marks what it occupies (image rectangle / trailing
             columns of a wide character) Ignored; a changed cell erases its
             old image, marks what the old cell occupied Damaged, records the
             new image and marks what the new cell occupies Ignored.  Marks are
             written in scan order, last writer wins.  A character whose own cell
             is already Ignored is hidden: it marks nothing, except that the
             columns behind it are Damaged (where not Ignored) when the wide
             character covering it has just been repainted.
     pass 2  per row, left to right: skip cells that are not Damaged and are
             Ignored or unchanged, cells that are not characters, zero-width
             characters; otherwise Face (if different from the tracked face),
             CursorTo (if different from the tracked cursor), then either a run
             of blanks (EraseChars when longer than 4 and the face has no underline,
             strike or reverse attribute; it does not move the cursor) or the
             character (advancing by its width).
     pass 3  every recorded image: Face, erase the rows of its rectangle,
             CursorTo, Image.
     then    back := front (glyphs resolved), front := default, marks := Empty.
   (In the code the marks are local to frame(): filled at its start with Damaged when the
   force_repaint flag is set by clear()/new(clear=true), Empty otherwise; the flag is cleared when the
   frame is complete.  The model keeps the equivalent grid: all Damaged after rclear / rnew true, all
   Empty after a frame.  A frame() that fails half-way — Terminal::execute returning an error — is
   outside the model: the terminal then has not executed what was issued.)

   Pass 2 is written as the composition of the diff proper ([paints_row]: what
   is painted where) and the cursor/face tracking ([emit]); their composition
   emits exactly the command list of the code (checked by the correspondence
   run). *)
From Coq Require Import List NArith Bool Arith.
From SNT Require Export Render.Cell Render.Screen.
Import ListNotations.

Inductive mark := MEmpty | MIgnored | MDamaged.
Definition mark_eqb (a b : mark) : bool :=
  match a, b with
  | MEmpty, MEmpty | MIgnored, MIgnored | MDamaged, MDamaged => true
  | _, _ => false
  end.

Record rstate := mkrstate {
  rh : nat; rw : nat;
  front : grid cell;
  back : grid cell;
  marks : grid mark }.

(* TerminalRenderer::new(term, clear) *)
Definition rnew (h w : nat) (clear : bool) : rstate :=
  mkrstate h w (gmake h w cell_default) (gmake h w cell_default)
           (gmake h w (if clear then MDamaged else MEmpty)).

(* ---------- pass 1 ---------- *)
Record p1 := mkp1 {
  p1_marks : grid mark;
  p1_front : grid cell;
  p1_cmds : list cmd;                          (* reversed *)
  p1_imgs : list (nat * nat * face * N);       (* reversed *)
  p1_recov : option (nat * nat) }.             (* the cell a repainted wide character has just covered *)

Definition fill_extent (o : oracle) (m : grid mark) (x : cell) (r c : nat) (v : mark) : grid mark :=
  let '(r0, r1, c0, c1) := extent o x r c in gfill m r0 r1 c0 c1 v.

(* Damaged, except where the mark is Ignored *)
Definition damage_mark (v : mark) : mark := match v with MIgnored => MIgnored | _ => MDamaged end.
Definition damage_extent (o : oracle) (m : grid mark) (x : cell) (r c : nat) : grid mark :=
  let '(r0, r1, c0, c1) := extent o x r c in
  mapi (fun r' row => if in_range r0 r1 r'
                      then mapi (fun c' v => if in_range c0 c1 c' then damage_mark v else v) row
                      else row) m.

Definition is_damaged (m : option mark) : bool :=
  match m with Some MDamaged => true | _ => false end.
Definition is_ignored (m : option mark) : bool :=
  match m with Some MIgnored => true | _ => false end.
Definition is_char (x : cell) : bool := match ckind x with KChar _ => true | _ => false end.
(* a character wider than one column *)
Definition covers_next (o : oracle) (x : cell) : bool :=
  match ckind x with KChar ch => 1 <? cw o ch | _ => false end.
Definition pos_is (p : option (nat * nat)) (r c : nat) : bool :=
  match p with Some (r', c') => Nat.eqb r' r && Nat.eqb c' c | None => false end.

Definition pass1_step (o : oracle) (old_g : grid cell) (st : p1) (p : nat * nat) : p1 :=
  let '(r, c) := p in
  match gget old_g r c, gget (p1_front st) r c with
  | Some old, Some new0 =>
      let new := resolve o new0 in
      let front' := gset (p1_front st) r c new in
      let mk := gget (p1_marks st) r c in
      (* a character that is itself covered (behind a wide character, under an image) is not shown
         and does not own the columns behind it; they are repainted only when the character covering
         it has just been repainted *)
      let hid := is_ignored mk && is_char new in
      let anew := pos_is (p1_recov st) r c in
      let mark_new := fun m => if hid then (if anew then damage_extent o m new r c else m)
                               else fill_extent o m new r c MIgnored in
      if cell_eqb old new && negb (is_damaged mk)
      then mkp1 (mark_new (p1_marks st)) front' (p1_cmds st) (p1_imgs st) None
      else
        let m1 := fill_extent o (p1_marks st) old r c MDamaged in
        let cmds1 := match ckind old with
                     | KImg i => CImageErase i (Some (r, c)) :: p1_cmds st
                     | _ => p1_cmds st
                     end in
        let imgs := match ckind new with
                    | KImg i => (r, c, cface new, i) :: p1_imgs st
                    | _ => p1_imgs st
                    end in
        mkp1 (mark_new m1) front' cmds1 imgs
             (if negb hid && covers_next o new then Some (r, S c) else None)
  | _, _ => st
  end.

Definition pass1 (o : oracle) (s : rstate) : p1 :=
  fold_left (pass1_step o (back s)) (all_pos (rh s) (rw s))
            (mkp1 (marks s) (front s) [] [] None).

(* ---------- pass 2: what is painted ---------- *)
Inductive paint :=
| PChar (r c : nat) (f : face) (ch : N)        (* one character of width cw ch *)
| PBlanks (r c : nat) (f : face) (n : nat)     (* n blank cells of face f *)
| PErase (r c : nat) (f : face) (n : nat).     (* n cells erased under face f (pass 3; never produced by pass 2) *)

(* number of following cells that continue a run of blanks started by [x] *)
Fixpoint blank_run (x : cell) (news : list cell) (ms : list mark) : nat :=
  match news, ms with
  | y :: news', m :: ms' =>
      if cell_eqb y x && negb (mark_eqb m MIgnored) then S (blank_run x news' ms') else O
  | _, _ => O
  end.

Fixpoint paints_row (o : oracle) (r c skip : nat) (news olds : list cell) (ms : list mark) : list paint :=
  match news, olds, ms with
  | new :: news', old :: olds', m :: ms' =>
      match skip with
      | S k => paints_row o r (S c) k news' olds' ms'
      | O =>
          if negb (mark_eqb m MDamaged) && (mark_eqb m MIgnored || cell_eqb old new)
          then paints_row o r (S c) 0 news' olds' ms'
          else
            match ckind new with
            | KChar ch =>
                match cw o ch with
                | O => paints_row o r (S c) 0 news' olds' ms'
                | S k =>
                    if N.eqb ch space
                    then let n := S (blank_run new news' ms') in
                         PBlanks r c (cface new) n :: paints_row o r (S c) (n - 1) news' olds' ms'
                    else PChar r c (cface new) ch :: paints_row o r (S c) k news' olds' ms'
                end
            | _ => paints_row o r (S c) 0 news' olds' ms'
            end
      end
  | _, _, _ => []
  end.

Fixpoint paints_rows (o : oracle) (r : nat) (news olds : grid cell) (ms : grid mark) : list paint :=
  match news, olds, ms with
  | n :: news', ol :: olds', m :: ms' =>
      paints_row o r 0 0 n ol m ++ paints_rows o (S r) news' olds' ms'
  | _, _, _ => []
  end.

(* ---------- pass 2: cursor and face tracking ---------- *)
(* None = the code's sentinel "nothing known yet" *)
Record tracked := mktracked { tface : option face; tcur : option (nat * nat) }.

Definition face_known (t : tracked) (f : face) : bool :=
  match tface t with Some g => N.eqb g f | None => false end.
Definition cur_known (t : tracked) (r c : nat) : bool :=
  match tcur t with Some (r', c') => Nat.eqb r r' && Nat.eqb c c' | None => false end.

Definition emit (o : oracle) (t : tracked) (p : paint) : list cmd * tracked :=
  let '(r, c, f) := match p with PChar r c f _ | PBlanks r c f _ | PErase r c f _ => (r, c, f) end in
  let pre := (if face_known t f then [] else [CFace f])
             ++ (if cur_known t r c then [] else [CCursorTo r c]) in
  match p with
  | PChar _ _ _ ch => (pre ++ [CChar ch], mktracked (Some f) (Some (r, c + cw o ch)))
  | PBlanks _ _ _ n =>
      if (4 <? n) && erasable o f
      then (pre ++ [CEraseChars n], mktracked (Some f) (Some (r, c)))
      else (pre ++ repeat (CChar space) n, mktracked (Some f) (Some (r, c + n)))
  | PErase _ _ _ n => (pre ++ [CEraseChars n], mktracked (Some f) (Some (r, c)))
  end.

Fixpoint emit_all (o : oracle) (t : tracked) (ps : list paint) : list cmd :=
  match ps with
  | [] => []
  | p :: ps' => let '(cs, t') := emit o t p in cs ++ emit_all o t' ps'
  end.

(* ---------- pass 3 ---------- *)
(* render.rs "Render images": Face, for every row of the image CursorTo + EraseChars(width),
   then CursorTo + Image.  (Written out here, not shared with the naive painter of Screen.v;
   ExecProofs.image_cmds_paint_image shows that the two coincide.) *)
Definition image_cmds (o : oracle) (r c : nat) (f : face) (i : N) : list cmd :=
  CFace f
  :: flat_map (fun row => [CCursorTo row c; CEraseChars (snd (isz o i))]) (seq r (fst (isz o i)))
  ++ [CCursorTo r c; CImage i r c].

Definition pass3 (o : oracle) (imgs : list (nat * nat * face * N)) : list cmd :=
  flat_map (fun '(r, c, f, i) => image_cmds o r c f i) imgs.

(* ---------- frame / clear / surface reset ---------- *)
Definition frame (o : oracle) (s : rstate) : list cmd * rstate :=
  let st := pass1 o s in
  let ps := paints_rows o 0 (p1_front st) (back s) (p1_marks st) in
  (rev (p1_cmds st) ++ emit_all o (mktracked None None) ps ++ pass3 o (rev (p1_imgs st)),
   mkrstate (rh s) (rw s) (gmake (rh s) (rw s) cell_default) (p1_front st)
            (gmake (rh s) (rw s) MEmpty)).

Definition erase_images_row (r : nat) (cells : list cell) : list cmd :=
  concat (mapi (fun c x => match ckind x with
                           | KImg i => [CImageErase i (Some (r, c))]
                           | _ => []
                           end) cells).

(* clear(): erase the images the terminal shows, forget the terminal state (back buffer), reset the
   surface being drawn and mark everything Damaged (it is to be called before the next frame is
   drawn: run_render does so, right after the poll) *)
Definition rclear (s : rstate) : list cmd * rstate :=
  (concat (mapi erase_images_row (back s)),
   mkrstate (rh s) (rw s) (gmake (rh s) (rw s) cell_default) (gmake (rh s) (rw s) cell_default)
            (gmake (rh s) (rw s) MDamaged)).

(* renderer.surface().clear(): the application dropped the frame it was drawing *)
Definition rskip (s : rstate) : rstate :=
  mkrstate (rh s) (rw s) (gmake (rh s) (rw s) cell_default) (back s) (marks s).

(* the application draws a whole surface into the (reset) front buffer *)
Definition rdraw (s : rstate) (x : grid cell) : rstate :=
  if grid_dims x (rh s) (rw s) then mkrstate (rh s) (rw s) x (back s) (marks s) else s.

(* ---------- histories ---------- *)
Inductive op :=
| Draw (s : grid cell)   (* fill the front surface *)
| Frame                  (* renderer.frame(term) *)
| SkipFrame              (* renderer.surface().clear(), no frame *)
| Clear                  (* renderer.clear(term) *)
| Renew                  (* renderer.clear(term); renderer = TerminalRenderer::new(term, true)  (terminal.rs, resize path) *)
| Resize (h w : nat) (g : grid scell)
                         (* the same after the terminal was resized to h x w and now shows g (an arbitrary screen:
                            what a terminal shows after a resize is its own business) *)
| FailFrame (k : nat).   (* renderer.frame(term) on a terminal whose execute() fails at command k+1: the first k commands
                            were issued, frame() returned Err; buffers are not flipped, the surface is not reset, the
                            repaint stays forced (render.rs: force_repaint is cleared only at the end of frame()).
                            Not a rendered frame: outside the theorems, inside the correspondence run *)

Definition rstep (o : oracle) (s : rstate) (x : op) : list cmd * rstate :=
  match x with
  | Draw g => ([], rdraw s g)
  | Frame => frame o s
  | SkipFrame => ([], rskip s)
  | Clear => rclear s
  | Renew => (fst (rclear s), rnew (rh s) (rw s) true)
  | Resize h w _ => (fst (rclear s), rnew h w true)
  | FailFrame k => (firstn k (fst (frame o s)),
                    mkrstate (rh s) (rw s) (front s) (back s) (gmake (rh s) (rw s) MDamaged))
  end.

(* the command lists issued op by op *)
Fixpoint rrun (o : oracle) (s : rstate) (ops : list op) : list (list cmd) :=
  match ops with
  | [] => []
  | x :: ops' => let '(cs, s') := rstep o s x in cs :: rrun o s' ops'
  end.
