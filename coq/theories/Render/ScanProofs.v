(* Render/ScanProofs.v — what the left-to-right scan of pass 2 paints.

   For one row: every paint in the list is owned by a column that was not
   skipped and holds a character of positive width (soundness); the paints are
   ordered left to right and do not intersect (chain); every column that is not
   skipped and holds a character of positive width lies inside some paint
   (coverage). *)
From Coq Require Import List NArith Bool Arith Lia.
From SNT Require Import Render.Cell Render.Screen Render.Frame Render.GridLemmas.
Import ListNotations.

Definition skipcond (m : mark) (old new : cell) : bool :=
  negb (mark_eqb m MDamaged) && (mark_eqb m MIgnored || cell_eqb old new).

Definition pstart (p : paint) : nat := match p with PChar _ c _ _ | PBlanks _ c _ _ | PErase _ c _ _ => c end.
Definition plen (o : oracle) (p : paint) : nat :=
  match p with PChar _ _ _ ch => cw o ch | PBlanks _ _ _ n | PErase _ _ _ n => n end.
Definition prow (p : paint) : nat := match p with PChar r _ _ _ | PBlanks r _ _ _ | PErase r _ _ _ => r end.

(* paints are ordered and disjoint *)
Fixpoint chain (o : oracle) (c : nat) (ps : list paint) : Prop :=
  match ps with
  | [] => True
  | p :: ps' => c <= pstart p /\ chain o (pstart p + plen o p) ps'
  end.

Lemma chain_weaken : forall o ps c c', c' <= c -> chain o c ps -> chain o c' ps.
Proof. intros o [|p ps] c c' Hle H; simpl in *; auto. destruct H. split; auto. lia. Qed.

Lemma chain_lower : forall o ps c p, chain o c ps -> In p ps -> c <= pstart p.
Proof.
  intros o ps. induction ps as [|q ps IH]; intros c p Hc Hin; simpl in *. contradiction.
  destruct Hc as [Hle Hc]. destruct Hin as [->|Hin]; auto.
  apply IH with (p := p) in Hc; auto. lia.
Qed.

Lemma chain_disjoint : forall o ps c p q,
  chain o c ps -> In p ps -> In q ps -> pstart p < pstart q -> pstart p + plen o p <= pstart q.
Proof.
  intros o ps. induction ps as [|a ps IH]; intros c p q Hc Hp Hq Hlt; simpl in *. contradiction.
  destruct Hc as [Hle Hc].
  destruct Hp as [->|Hp]; destruct Hq as [->|Hq].
  - lia.
  - eapply chain_lower in Hc; eauto.
  - eapply chain_lower with (p := p) in Hc; eauto. lia.
  - eapply IH; eauto.
Qed.

(* ---------- blank runs ---------- *)
Lemma blank_run_spec : forall x news ms i,
  i < blank_run x news ms ->
  exists y m, nth_error news i = Some y /\ nth_error ms i = Some m
              /\ cell_eqb y x = true /\ mark_eqb m MIgnored = false.
Proof.
  intros x news. induction news as [|y news IH]; intros [|m ms] i Hi; simpl in Hi; try lia.
  destruct (cell_eqb y x && negb (mark_eqb m MIgnored)) eqn:E; [|lia].
  apply andb_true_iff in E. destruct E as [E1 E2]. apply negb_true_iff in E2.
  destruct i as [|i].
  - exists y, m. auto.
  - simpl. apply IH. lia.
Qed.

Lemma blank_run_le : forall x news ms, blank_run x news ms <= length news.
Proof.
  intros x news. induction news as [|y news IH]; intros [|m ms]; simpl; try lia.
  destruct (cell_eqb y x && negb (mark_eqb m MIgnored)); try lia. specialize (IH ms). lia.
Qed.

(* ---------- one row ---------- *)
Section Row.
  Variable o : oracle.
  Variable r : nat.

  (* what is known about the owner column j (relative to the current suffix) of a paint *)
  Definition owner_ok (news olds : list cell) (ms : list mark) (c0 j : nat) (p : paint) : Prop :=
    exists new old m ch,
      nth_error news j = Some new /\ nth_error olds j = Some old /\ nth_error ms j = Some m
      /\ skipcond m old new = false /\ ckind new = KChar ch /\ 1 <= cw o ch
      /\ ((N.eqb ch space = false /\ p = PChar r (c0 + j) (cface new) ch)
          \/ (ch = space /\ p = PBlanks r (c0 + j) (cface new)
                                 (S (blank_run new (skipn (S j) news) (skipn (S j) ms))))).

  Lemma paints_row_sound : forall news olds ms c0 sk p,
    In p (paints_row o r c0 sk news olds ms) ->
    exists j, sk <= j /\ owner_ok news olds ms c0 j p.
  Proof.
    induction news as [|new news IH]; intros olds ms c0 sk p Hin; simpl in Hin. contradiction.
    destruct olds as [|old olds]; [contradiction|]. destruct ms as [|m ms]; [contradiction|].
    assert (Hshift : forall sk', In p (paints_row o r (S c0) sk' news olds ms) ->
                                 exists j, S sk' <= j /\ owner_ok (new :: news) (old :: olds) (m :: ms) c0 j p).
    { intros sk' H. apply IH in H. destruct H as (j & Hj & new' & old' & m' & ch & H1 & H2 & H3 & H4 & H5 & H6 & H7).
      exists (S j). split. lia. exists new', old', m', ch. simpl.
      replace (c0 + S j) with (S c0 + j) by lia. repeat split; auto. }
    destruct sk as [|k].
    - fold (skipcond m old new) in Hin.
      destruct (skipcond m old new) eqn:Esk.
      { apply Hshift in Hin. destruct Hin as (j & Hj & H). exists j. split; [lia|auto]. }
      destruct (ckind new) as [ch| |] eqn:Ek.
      2,3: apply Hshift in Hin; destruct Hin as (j & Hj & H); exists j; (split; [lia|auto]).
      destruct (cw o ch) as [|k] eqn:Ew.
      { apply Hshift in Hin. destruct Hin as (j & Hj & H). exists j. split; [lia|auto]. }
      destruct (N.eqb ch space) eqn:Esp.
      + destruct Hin as [<-|Hin].
        * exists 0. split; auto. exists new, old, m, ch. simpl. rewrite Nat.add_0_r.
          apply N.eqb_eq in Esp. repeat split; auto; try lia.
        * apply Hshift in Hin. destruct Hin as (j & Hj & H). exists j. split; [lia|auto].
      + destruct Hin as [<-|Hin].
        * exists 0. split; auto. exists new, old, m, ch. simpl. rewrite Nat.add_0_r.
          repeat split; auto; try lia.
        * apply Hshift in Hin. destruct Hin as (j & Hj & H). exists j. split; [lia|auto].
    - apply Hshift in Hin. destruct Hin as (j & Hj & H). exists j. split; [lia|auto].
  Qed.

  Lemma paints_row_chain : forall news olds ms c0 sk,
    chain o (c0 + sk) (paints_row o r c0 sk news olds ms).
  Proof.
    induction news as [|new news IH]; intros olds ms c0 sk; simpl. exact I.
    destruct olds as [|old olds]; [exact I|]. destruct ms as [|m ms]; [exact I|].
    destruct sk as [|k].
    - fold (skipcond m old new).
      assert (Hnext : chain o (c0 + 0) (paints_row o r (S c0) 0 news olds ms)).
      { eapply chain_weaken; [|apply IH]. lia. }
      destruct (skipcond m old new); auto.
      destruct (ckind new) as [ch| |]; auto.
      destruct (cw o ch) as [|k] eqn:Ew; auto.
      destruct (N.eqb ch space).
      + simpl. split. lia.
        eapply chain_weaken; [|apply IH]. lia.
      + simpl. split. lia. rewrite Ew.
        eapply chain_weaken; [|apply IH]. lia.
    - eapply chain_weaken; [|apply IH]. lia.
  Qed.

  (* every column that must be painted lies inside some paint *)
  Lemma paints_row_cover : forall news olds ms c0 sk j new old m ch,
    sk <= j ->
    nth_error news j = Some new -> nth_error olds j = Some old -> nth_error ms j = Some m ->
    skipcond m old new = false -> ckind new = KChar ch -> 1 <= cw o ch ->
    exists p, In p (paints_row o r c0 sk news olds ms)
              /\ pstart p <= c0 + j < pstart p + plen o p.
  Proof.
    induction news as [|new0 news IH]; intros olds ms c0 sk j new old m ch Hsk Hn Ho Hm Hs Hk Hw.
    { destruct j; discriminate. }
    destruct olds as [|old0 olds]; [destruct j; discriminate|].
    destruct ms as [|m0 ms]; [destruct j; discriminate|].
    simpl.
    assert (Hshift : forall sk' j', j = S j' -> sk' <= j' ->
              exists p, In p (paints_row o r (S c0) sk' news olds ms)
                        /\ pstart p <= c0 + j < pstart p + plen o p).
    { intros sk' j' -> Hle. simpl in Hn, Ho, Hm.
      destruct (IH olds ms (S c0) sk' j' new old m ch Hle Hn Ho Hm Hs Hk Hw) as (p & Hin & Hr).
      exists p. split; auto. lia. }
    destruct sk as [|k].
    - fold (skipcond m0 old0 new0).
      destruct j as [|j'].
      + simpl in Hn, Ho, Hm. inversion Hn; inversion Ho; inversion Hm; subst.
        rewrite Hs, Hk. destruct (cw o ch) as [|k] eqn:Ew; [lia|].
        destruct (N.eqb ch space).
        * eexists. split. left. reflexivity. simpl. lia.
        * eexists. split. left. reflexivity. simpl. lia.
      + destruct (skipcond m0 old0 new0).
        { apply (Hshift 0 j'); auto. lia. }
        destruct (ckind new0) as [ch0| |] eqn:Ek0.
        2,3: apply (Hshift 0 j'); auto; lia.
        destruct (cw o ch0) as [|k] eqn:Ew0.
        { apply (Hshift 0 j'); auto. lia. }
        destruct (N.eqb ch0 space) eqn:Esp.
        * (* a run of blanks starting at this column *)
          set (n := blank_run new0 news ms).
          destruct (Nat.lt_ge_cases j' n) as [Hlt|Hge].
          -- eexists. split. left. reflexivity. simpl. fold n. lia.
          -- destruct (Hshift (S n - 1) j' eq_refl ltac:(lia)) as (p & Hin & Hr).
             exists p. split; auto. right. exact Hin.
        * (* a character of width S k *)
          destruct (Nat.lt_ge_cases j' k) as [Hlt|Hge].
          -- eexists. split. left. reflexivity. simpl. rewrite Ew0. lia.
          -- destruct (Hshift k j' eq_refl Hge) as (p & Hin & Hr).
             exists p. split; auto. right. exact Hin.
    - destruct j as [|j']; [lia|]. apply (Hshift k j'); auto. lia.
  Qed.
End Row.

(* ---------- all rows ---------- *)
Lemma in_paints_rows : forall o news olds ms r0 p,
  In p (paints_rows o r0 news olds ms) ->
  exists i rn ro rm, nth_error news i = Some rn /\ nth_error olds i = Some ro /\ nth_error ms i = Some rm
                     /\ In p (paints_row o (r0 + i) 0 0 rn ro rm).
Proof.
  intros o news. induction news as [|rn news IH]; intros olds ms r0 p Hin; simpl in Hin. contradiction.
  destruct olds as [|ro olds]; [contradiction|]. destruct ms as [|rm ms]; [contradiction|].
  apply in_app_or in Hin. destruct Hin as [Hin|Hin].
  - exists 0, rn, ro, rm. rewrite Nat.add_0_r. auto.
  - apply IH in Hin. destruct Hin as (i & a & b & c & H1 & H2 & H3 & H4).
    exists (S i), a, b, c. replace (r0 + S i) with (S r0 + i) by lia. auto.
Qed.

Lemma paints_rows_in : forall o news olds ms r0 i rn ro rm p,
  nth_error news i = Some rn -> nth_error olds i = Some ro -> nth_error ms i = Some rm ->
  In p (paints_row o (r0 + i) 0 0 rn ro rm) -> In p (paints_rows o r0 news olds ms).
Proof.
  intros o news. induction news as [|rn0 news IH]; intros olds ms r0 i rn ro rm p H1 H2 H3 Hin.
  { destruct i; discriminate. }
  destruct olds as [|ro0 olds]; [destruct i; discriminate|].
  destruct ms as [|rm0 ms]; [destruct i; discriminate|].
  simpl. apply in_or_app. destruct i as [|i].
  - simpl in *. inversion H1; inversion H2; inversion H3; subst. rewrite Nat.add_0_r in Hin. auto.
  - right. simpl in *. eapply IH; eauto. replace (S r0 + i) with (r0 + S i) by lia. exact Hin.
Qed.
