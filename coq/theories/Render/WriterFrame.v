(* Frame conditions of the surface writer: every operation of a client program leaves
   the backing slice unchanged outside the cells of the view it was given, never
   panics when the view's cells lie inside the slice, and keeps the shape / length. *)
From Coq Require Import List Arith Bool NArith ZArith Lia.
From SNT Require Import Base.Outcome Surface.Bounds Surface.Shape Render.CellLayout Render.Writer Render.TokFuel Render.WriterTty.
Import ListNotations.

(* ---------- list_upd ---------- *)
Lemma list_upd_length {A} (l : list A) k x : length (list_upd l k x) = length l.
Proof. revert k; induction l as [|h t IH]; intros [|k]; cbn; auto. Qed.

Lemma nth_error_list_upd_other {A} (l : list A) k j x : k <> j -> nth_error (list_upd l k x) j = nth_error l j.
Proof.
  revert k j; induction l as [|h t IH]; intros [|k] [|j] Hne; cbn; auto; try congruence.
Qed.

Lemma nth_error_list_upd_same {A} (l : list A) k x : k < length l -> nth_error (list_upd l k x) k = Some x.
Proof.
  revert k; induction l as [|h t IH]; intros [|k] Hk; cbn in *; try lia; auto. apply IH. lia.
Qed.

Lemma map_list_upd {A B} (f : A -> B) (l : list A) k x : map f (list_upd l k x) = list_upd (map f l) k (f x).
Proof. revert k; induction l as [|h t IH]; intros [|k]; cbn; auto. now rewrite IH. Qed.

Lemma list_upd_same_val {A} (l : list A) k x : nth_error l k = Some x -> list_upd l k x = l.
Proof.
  revert k; induction l as [|h t IH]; intros [|k] Hk; cbn in *; try congruence.
  f_equal. now apply IH.
Qed.

(* ---------- cells of a view, frames ---------- *)
Definition in_view (sh : shape) (k : nat) : Prop :=
  exists r c, r < sh_height sh /\ c < sh_width sh /\ offset sh r c = k.

(* d' differs from d at most on the cells of the view *)
Definition Frame (sh : shape) (d d' : list ccell) : Prop :=
  length d' = length d /\ forall k, ~ in_view sh k -> nth_error d' k = nth_error d k.

(* every cell of the view lies inside a slice of length len *)
Definition InBounds (sh : shape) (len : nat) : Prop :=
  forall r c, r < sh_height sh -> c < sh_width sh -> offset sh r c < len.

Lemma frame_refl sh d : Frame sh d d.
Proof. split; auto. Qed.

Lemma frame_trans sh d1 d2 d3 : Frame sh d1 d2 -> Frame sh d2 d3 -> Frame sh d1 d3.
Proof. intros [L1 F1] [L2 F2]. split; [congruence|]. intros k Hk. rewrite F2, F1; auto. Qed.

Lemma frame_upd sh d r c x : r < sh_height sh -> c < sh_width sh -> Frame sh d (list_upd d (offset sh r c) x).
Proof.
  intros Hr Hc. split; [apply list_upd_length|]. intros k Hk. apply nth_error_list_upd_other.
  intros E. apply Hk. exists r, c. auto.
Qed.

(* kinds are what the "no lost cell" statements talk about; the face fill never changes them *)
Definition kinds (d : list ccell) : list kind := map c_kind d.

(* ---------- the fill loop ---------- *)
Lemma fill_positions_in sh r0 r1 p : In p (fill_positions sh r0 r1) -> fst p < sh_height sh /\ snd p < sh_width sh.
Proof.
  unfold fill_positions. intros H. apply in_flat_map in H as (r & Hr & Hp).
  apply in_map_iff in Hp as (c & <- & Hc). apply in_seq in Hr. apply in_seq in Hc. cbn. lia.
Qed.

Lemma fill_fold_notok sh lo hi f ps (x : outcome (list ccell)) :
  (forall d, x <> Ok d) -> fold_left (fill_cell sh lo hi f) ps x = x.
Proof.
  revert x; induction ps as [|p t IH]; intros x Hx; cbn; auto.
  rewrite IH; destruct x; cbn; auto; try congruence; exfalso; eapply Hx; eauto.
Qed.

Lemma fill_cell_ok sh lo hi f d p :
  fill_cell sh lo hi f (Ok d) p =
  if (lo <=? offset sh (fst p) (snd p)) && (offset sh (fst p) (snd p) <? hi) then
    match nth_error d (offset sh (fst p) (snd p)) with
    | None => Panic 900
    | Some old => Ok (list_upd d (offset sh (fst p) (snd p)) (mkCell (overlay (c_face old) f) (c_kind old)))
    end
  else Ok d.
Proof. reflexivity. Qed.

Lemma fill_fold_spec sh lo hi f ps : (forall p, In p ps -> fst p < sh_height sh /\ snd p < sh_width sh) ->
  forall d,
  (forall d', fold_left (fill_cell sh lo hi f) ps (Ok d) = Ok d' -> Frame sh d d' /\ kinds d' = kinds d) /\
  (InBounds sh (length d) -> exists d', fold_left (fill_cell sh lo hi f) ps (Ok d) = Ok d').
Proof.
  induction ps as [|p t IH]; intros Hin d.
  - cbn. split; [intros d' [= <-]; split; [apply frame_refl|reflexivity]|]. eauto.
  - assert (Hp : fst p < sh_height sh /\ snd p < sh_width sh) by (apply Hin; now left).
    assert (Ht : forall q, In q t -> fst q < sh_height sh /\ snd q < sh_width sh) by (intros; apply Hin; now right).
    specialize (IH Ht). cbn [fold_left]. rewrite fill_cell_ok.
    destruct ((lo <=? offset sh (fst p) (snd p)) && (offset sh (fst p) (snd p) <? hi)) eqn:Hrange.
    + destruct (nth_error d (offset sh (fst p) (snd p))) as [old|] eqn:Hold.
      * set (d1 := list_upd d (offset sh (fst p) (snd p)) (mkCell (overlay (c_face old) f) (c_kind old))).
        destruct (IH d1) as [IH1 IH2]. split.
        -- intros d' Hd'. destruct (IH1 d' Hd') as [F K]. split.
           ++ eapply frame_trans; [|exact F]. apply frame_upd; tauto.
           ++ rewrite K. unfold kinds, d1. rewrite map_list_upd. cbn [c_kind].
              apply list_upd_same_val. unfold kinds. rewrite nth_error_map, Hold. reflexivity.
        -- intros Hb. apply IH2. unfold d1. rewrite list_upd_length. exact Hb.
      * split.
        -- intros d' Hd'. rewrite fill_fold_notok in Hd' by congruence. discriminate.
        -- intros Hb. exfalso. apply nth_error_None in Hold.
           specialize (Hb (fst p) (snd p) (proj1 Hp) (proj2 Hp)). lia.
    + apply IH.
Qed.

Lemma face_fill_spec sh d f r0 c0 r1 c1 :
  (forall d', face_fill sh d f r0 c0 r1 c1 = Ok d' -> Frame sh d d' /\ kinds d' = kinds d) /\
  (InBounds sh (length d) -> exists d', face_fill sh d f r0 c0 r1 c1 = Ok d').
Proof. unfold face_fill. apply fill_fold_spec. intros p Hp. eapply fill_positions_in; eauto. Qed.

(* no cell is visited when the start row is below the view or the view has no column *)
Lemma fill_positions_nil sh r0 r1 : sh_width sh = 0 \/ sh_height sh <= r0 -> fill_positions sh r0 r1 = [].
Proof.
  unfold fill_positions. intros [Hw|Hh].
  - rewrite Hw. cbn. induction (seq r0 _); cbn; auto.
  - replace (Nat.min (r1 + 1) (sh_height sh) - r0) with 0 by lia. reflexivity.
Qed.

(* ---------- put_simple ---------- *)
(* what every operation preserves *)
Definition Keeps (st st' : wstate) : Prop :=
  w_sh st' = w_sh st /\ Frame (w_sh st) (w_data st) (w_data st').

Lemma keeps_refl st : Keeps st st.
Proof. split; auto. apply frame_refl. Qed.

Lemma keeps_same st st' : w_sh st' = w_sh st -> w_data st' = w_data st -> Keeps st st'.
Proof. intros H1 H2. split; auto. rewrite H2. apply frame_refl. Qed.

Lemma keeps_trans a b c : Keeps a b -> Keeps b c -> Keeps a c.
Proof.
  intros [S1 F1] [S2 F2]. split; [congruence|]. rewrite S1 in F2. eapply frame_trans; eauto.
Qed.

Lemma put_simple_keeps ctx st c st' b : put_simple ctx st c = Ok (st', b) -> Keeps st st'.
Proof.
  unfold put_simple.
  destruct (layout_step _ _ _ _) as [l' [[r cc]|]].
  - destruct ((sh_height (w_sh st) <=? r) || (sh_width (w_sh st) <=? cc)) eqn:Hout.
    + intros [= <- <-]. apply keeps_same; reflexivity.
    + destruct (nth_error _ _); intros [= <- <-]; [|(apply keeps_same; reflexivity)].
      apply orb_false_iff in Hout as [H1 H2]. apply Nat.leb_gt in H1, H2.
      split; cbn; auto. now apply frame_upd.
  - destruct (_ && _).
    + intros [= <- <-]. apply keeps_same; reflexivity.
    + destruct (face_fill _ _ _ _ _ _ _) as [d| | |] eqn:Hf; try discriminate.
      intros [= <- <-]. split; cbn; auto. now apply face_fill_spec in Hf.
Qed.

Lemma put_simple_total ctx st c : InBounds (w_sh st) (length (w_data st)) ->
  exists st' b, put_simple ctx st c = Ok (st', b).
Proof.
  intros Hb. unfold put_simple.
  destruct (layout_step _ _ _ _) as [l' [[r cc]|]].
  - destruct (_ || _); eauto. destruct (nth_error _ _); eauto.
  - destruct (_ && _); eauto.
    destruct (proj2 (face_fill_spec (w_sh st) (w_data st) (overlay (w_face st) (c_face c))
                       (l_r (w_l st)) (l_c (w_l st)) (l_r l') (l_c l')) Hb) as [d ->]. eauto.
Qed.

Lemma keeps_inbounds st st' : Keeps st st' -> InBounds (w_sh st) (length (w_data st)) ->
  InBounds (w_sh st') (length (w_data st')).
Proof. intros [-> [-> _]]; auto. Qed.

Lemma put_all_keeps ctx cs : forall st st' b, put_all ctx st cs = Ok (st', b) -> Keeps st st'.
Proof.
  induction cs as [|c t IH]; intros st st' b; cbn [put_all].
  - intros [= <- <-]. apply keeps_same; reflexivity.
  - destruct (put_simple ctx st c) as [[st1 [|]]| | |] eqn:H1; try discriminate.
    + intros H2. eapply keeps_trans; [eapply put_simple_keeps; eauto|eauto].
    + intros [= <- <-]. eapply put_simple_keeps; eauto.
Qed.

Lemma put_all_total ctx cs : forall st, InBounds (w_sh st) (length (w_data st)) ->
  exists st' b, put_all ctx st cs = Ok (st', b).
Proof.
  induction cs as [|c t IH]; intros st Hb; cbn [put_all]; eauto.
  destruct (put_simple_total ctx st c Hb) as (st1 & b & H1). rewrite H1.
  destruct b; eauto. apply IH. eapply keeps_inbounds; eauto. eapply put_simple_keeps; eauto.
Qed.

Lemma put_cell_keeps ctx st c st' b : put_cell ctx st c = Ok (st', b) -> Keeps st st'.
Proof.
  unfold put_cell. destruct (c_kind c); try apply put_simple_keeps.
  destruct (has_glyphs ctx); [apply put_simple_keeps|apply put_all_keeps].
Qed.

Lemma put_cell_total ctx st c : InBounds (w_sh st) (length (w_data st)) ->
  exists st' b, put_cell ctx st c = Ok (st', b).
Proof.
  intros Hb. unfold put_cell. destruct (c_kind c); try now apply put_simple_total.
  destruct (has_glyphs ctx); [now apply put_simple_total|now apply put_all_total].
Qed.

Lemma set_dec_keeps st u : Keeps st (set_dec st u).
Proof. apply keeps_same; reflexivity. Qed.

(* ---------- write adapters ---------- *)
Lemma write_bytes_keeps ctx bytes : forall st st' s, write_bytes ctx st bytes = Ok (st', s) -> Keeps st st'.
Proof.
  induction bytes as [|b t IH]; intros st st' s; cbn [write_bytes].
  - intros [= <- <-]. apply keeps_same; reflexivity.
  - destruct (utf8_feed (w_dec st) b) as [u [|ch|]].
    + intros H. eapply keeps_trans; [apply (set_dec_keeps st u)|]. eapply IH; eauto.
    + unfold put_char.
      destruct (put_cell ctx (set_dec st u) (mkCell (w_face (set_dec st u)) (KChar ch))) as [[st2 f]| | |] eqn:H1;
        try discriminate.
      intros H. eapply keeps_trans; [apply (set_dec_keeps st u)|].
      eapply keeps_trans; [eapply put_cell_keeps; exact H1|eapply IH; exact H].
    + intros [= <- <-]. apply set_dec_keeps.
Qed.

Lemma write_bytes_total ctx bytes : forall st, InBounds (w_sh st) (length (w_data st)) ->
  exists st' s, write_bytes ctx st bytes = Ok (st', s).
Proof.
  induction bytes as [|b t IH]; intros st Hb; cbn [write_bytes]; eauto.
  destruct (utf8_feed (w_dec st) b) as [u [|ch|]]; eauto.
  unfold put_char.
  destruct (put_cell_total ctx (set_dec st u) (mkCell (w_face (set_dec st u)) (KChar ch)) Hb) as (st2 & f & H2).
  rewrite H2. apply IH. eapply keeps_inbounds; [eapply put_cell_keeps; eauto|exact Hb].
Qed.

Lemma write_chunks_keeps ctx chunks : forall st st' b, write_chunks ctx st chunks = Ok (st', b) -> Keeps st st'.
Proof.
  induction chunks as [|c t IH]; intros st st' b; cbn [write_chunks].
  - intros [= <- <-]. apply keeps_same; reflexivity.
  - destruct (write_bytes ctx st c) as [[st1 s]| | |] eqn:H1; try discriminate.
    pose proof (write_bytes_keeps _ _ _ _ _ H1) as K1.
    destruct s.
    + intros H. eapply keeps_trans; eauto.
    + intros [= <- <-]. exact K1.
Qed.

Lemma write_chunks_total ctx chunks : forall st, InBounds (w_sh st) (length (w_data st)) ->
  exists st' b, write_chunks ctx st chunks = Ok (st', b).
Proof.
  induction chunks as [|c t IH]; intros st Hb; cbn [write_chunks]; eauto.
  destruct (write_bytes_total ctx c st Hb) as (st1 & s & H1). rewrite H1.
  pose proof (keeps_inbounds _ _ (write_bytes_keeps _ _ _ _ _ H1) Hb) as Hb1.
  destruct s; eauto.
Qed.

(* ---------- escape-sequence writer ---------- *)
Lemma put_char_keeps ctx st ch st' b : put_char ctx st ch = Ok (st', b) -> Keeps st st'.
Proof. apply put_cell_keeps. Qed.

Lemma tty_apply1_keeps ctx st it st' : tty_apply1 ctx st it = Ok st' -> Keeps st st'.
Proof.
  destruct it as [ch|seq|raw]; cbn [tty_apply1].
  - destruct (put_char ctx st ch) as [[st1 f]| | |] eqn:H1; try discriminate.
    intros [= <-]. eapply put_char_keeps; exact H1.
  - intros [= <-]. apply keeps_same; reflexivity.
  - intros [= <-]. apply keeps_refl.
Qed.

Lemma tty_apply1_total ctx st it : InBounds (w_sh st) (length (w_data st)) -> exists st', tty_apply1 ctx st it = Ok st'.
Proof.
  intros Hb. destruct it as [ch|seq|raw]; cbn [tty_apply1]; eauto.
  destruct (put_cell_total ctx st (mkCell (w_face st) (KChar ch)) Hb) as (st1 & f & H1).
  unfold put_char. rewrite H1. eauto.
Qed.

Lemma tty_apply_keeps ctx items : forall st st', tty_apply ctx st items = Ok st' -> Keeps st st'.
Proof.
  induction items as [|it t IH]; intros st st'; cbn [tty_apply].
  - intros [= <-]. apply keeps_refl.
  - destruct (tty_apply1 ctx st it) as [st1| | |] eqn:H1; try discriminate.
    intros H. eapply keeps_trans; [eapply tty_apply1_keeps; exact H1|apply IH, H].
Qed.

Lemma tty_apply_total ctx items : forall st, InBounds (w_sh st) (length (w_data st)) ->
  exists st', tty_apply ctx st items = Ok st'.
Proof.
  induction items as [|it t IH]; intros st Hb; cbn [tty_apply]; eauto.
  destruct (tty_apply1_total ctx st it Hb) as (st1 & H1). rewrite H1.
  apply IH. eapply keeps_inbounds; [eapply tty_apply1_keeps; exact H1|exact Hb].
Qed.

(* a tokenizer between two write calls: nothing rescheduled, candidate consistent *)
Definition TokOk (ts : tstate) : Prop := CandOk ts /\ t_resched ts = [].

Lemma t0_tokok d : TokOk (t0 d).
Proof. split; [exact I|reflexivity]. Qed.

Lemma tty_fold_keeps ctx bytes : forall st ts st' ts', tty_fold ctx st ts bytes = Ok (st', ts') -> Keeps st st'.
Proof.
  induction bytes as [|b t IH]; intros st ts st' ts'; cbn [tty_fold].
  - intros [= <- <-]. apply keeps_refl.
  - destruct (tok_feed (cmd_dfa ctx) ts b) as [[ts1 items]| | |]; try discriminate.
    destruct (tty_apply ctx st items) as [st1| | |] eqn:H1; try discriminate.
    intros H. eapply keeps_trans; [eapply tty_apply_keeps; exact H1|eapply IH; exact H].
Qed.

Lemma tty_fold_total ctx bytes : forall st ts, InBounds (w_sh st) (length (w_data st)) -> TokOk ts ->
  exists st' ts', tty_fold ctx st ts bytes = Ok (st', ts') /\ TokOk ts'.
Proof.
  induction bytes as [|b t IH]; intros st ts Hb Hc; cbn [tty_fold]; eauto.
  destruct (tok_feed_total (cmd_dfa ctx) ts b (proj1 Hc)) as (ts1 & items & -> & Hc1 & Hr1).
  destruct (tty_apply_total ctx items st Hb) as (st1 & H1). rewrite H1.
  apply IH; [|split; assumption]. eapply keeps_inbounds; [eapply tty_apply_keeps; exact H1|exact Hb].
Qed.

Lemma tty_write_loop_keeps ctx : forall fuel st ts input st' ts',
  tty_write_loop ctx fuel st ts input = Ok (st', ts') -> Keeps st st'.
Proof.
  induction fuel as [|f IH]; intros st ts input st' ts'; cbn [tty_write_loop]; [discriminate|].
  destruct (tok_decode (cmd_dfa ctx) ts input) as [[[ts1 [it|]] rest]| | |]; try discriminate.
  - destruct (tty_apply1 ctx st it) as [st1| | |] eqn:H1; try discriminate.
    intros H. eapply keeps_trans; [eapply tty_apply1_keeps; exact H1|eapply IH; exact H].
  - intros [= <- <-]. apply keeps_refl.
Qed.

Lemma tty_write_keeps ctx bytes st ts st' ts' : tty_write ctx st ts bytes = Ok (st', ts') -> Keeps st st'.
Proof. apply tty_write_loop_keeps. Qed.

Lemma tty_write_total ctx bytes st ts : InBounds (w_sh st) (length (w_data st)) -> TokOk ts ->
  exists st' ts', tty_write ctx st ts bytes = Ok (st', ts') /\ TokOk ts'.
Proof. intros Hb Hc. rewrite tty_write_fold by apply Hc. now apply tty_fold_total. Qed.

(* a sequence of writes is one fold over the concatenated bytes *)
Lemma tty_fold_app ctx b1 b2 : forall st ts,
  tty_fold ctx st ts (b1 ++ b2) =
  match tty_fold ctx st ts b1 with
  | Ok (st1, ts1) => tty_fold ctx st1 ts1 b2
  | other => other
  end.
Proof.
  induction b1 as [|b t IH]; intros st ts; cbn [app tty_fold]; [reflexivity|].
  destruct (tok_feed (cmd_dfa ctx) ts b) as [[ts1 items]| | |]; auto.
  destruct (tty_apply ctx st items) as [st1| | |]; auto.
Qed.

Lemma tty_chunks_concat ctx chunks : forall st ts, InBounds (w_sh st) (length (w_data st)) -> TokOk ts ->
  tty_chunks ctx st ts chunks = tty_fold ctx st ts (concat chunks).
Proof.
  induction chunks as [|c t IH]; intros st ts Hb Hc; cbn [tty_chunks concat]; [reflexivity|].
  rewrite tty_fold_app. rewrite tty_write_fold by apply Hc.
  destruct (tty_fold_total ctx c st ts Hb Hc) as (st1 & ts1 & E & Hc1). rewrite E.
  apply IH; [|exact Hc1]. eapply keeps_inbounds; [eapply tty_fold_keeps; exact E|exact Hb].
Qed.

Lemma tty_chunks_keeps ctx chunks : forall st ts st' ts', tty_chunks ctx st ts chunks = Ok (st', ts') -> Keeps st st'.
Proof.
  induction chunks as [|c t IH]; intros st ts st' ts'; cbn [tty_chunks].
  - intros [= <- <-]. apply keeps_refl.
  - destruct (tty_write ctx st ts c) as [[st1 ts1]| | |] eqn:H1; try discriminate.
    intros H. eapply keeps_trans; [eapply tty_write_keeps; exact H1|eapply IH; exact H].
Qed.

Lemma tty_chunks_total ctx chunks st ts : InBounds (w_sh st) (length (w_data st)) -> TokOk ts ->
  exists st' ts', tty_chunks ctx st ts chunks = Ok (st', ts') /\ TokOk ts'.
Proof. intros Hb Hc. rewrite tty_chunks_concat by assumption. now apply tty_fold_total. Qed.

(* ---------- client programs ---------- *)
Lemma put_cells_keeps ctx cells : forall st st', put_cells ctx st cells = Ok st' -> Keeps st st'.
Proof.
  induction cells as [|c t IH]; intros st st'; cbn [put_cells].
  - intros [= <-]. apply keeps_refl.
  - destruct (put_cell ctx st c) as [[st1 f]| | |] eqn:H1; try discriminate.
    intros H. eapply keeps_trans; [eapply put_cell_keeps; exact H1|eapply IH; exact H].
Qed.

Lemma put_cells_total ctx cells : forall st, InBounds (w_sh st) (length (w_data st)) -> exists st', put_cells ctx st cells = Ok st'.
Proof.
  induction cells as [|c t IH]; intros st Hb; cbn [put_cells]; eauto.
  destruct (put_cell_total ctx st c Hb) as (st1 & f & H1). rewrite H1.
  apply IH. eapply keeps_inbounds; [eapply put_cell_keeps; exact H1|exact Hb].
Qed.

Lemma simple_step_keeps ctx st o st' b : simple_step ctx st o = Ok (st', b) -> Keeps st st'.
Proof.
  destruct o; cbn [simple_step].
  - apply put_cell_keeps.
  - apply put_cell_keeps.
  - intros [= <- <-]. apply keeps_same; reflexivity.
  - intros [= <- <-]. apply keeps_same; reflexivity.
  - intros [= <- <-]. apply keeps_same; reflexivity.
  - destruct (put_cells ctx st cells) as [st1| | |] eqn:H1; try discriminate.
    intros [= <- <-]. eapply put_cells_keeps; exact H1.
Qed.

Lemma simple_step_total ctx st o : InBounds (w_sh st) (length (w_data st)) ->
  exists st' b, simple_step ctx st o = Ok (st', b).
Proof.
  intros Hb. destruct o; cbn [simple_step]; eauto.
  - now apply put_cell_total.
  - now apply put_cell_total.
  - destruct (put_cells_total ctx cells st Hb) as (st1 & ->). eauto.
Qed.

Lemma sess_u_keeps ctx items : forall st st' b, sess_u ctx st items = Ok (st', b) -> Keeps st st'.
Proof.
  induction items as [|[ch|o] t IH]; intros st st' b; cbn [sess_u].
  - intros [= <- <-]. apply keeps_refl.
  - destruct (write_bytes ctx st ch) as [[st1 [|]]| | |] eqn:H1; try discriminate.
    + intros H. eapply keeps_trans; [eapply write_bytes_keeps; exact H1|eapply IH; exact H].
    + intros [= <- <-]. eapply write_bytes_keeps; exact H1.
  - destruct (simple_step ctx st o) as [[st1 f]| | |] eqn:H1; try discriminate.
    intros H. eapply keeps_trans; [eapply simple_step_keeps; exact H1|eapply IH; exact H].
Qed.

Lemma sess_u_total ctx items : forall st, InBounds (w_sh st) (length (w_data st)) ->
  exists st' b, sess_u ctx st items = Ok (st', b).
Proof.
  induction items as [|[ch|o] t IH]; intros st Hb; cbn [sess_u]; eauto.
  - destruct (write_bytes_total ctx ch st Hb) as (st1 & s1 & H1). rewrite H1. destruct s1; eauto.
    apply IH. eapply keeps_inbounds; [eapply write_bytes_keeps; exact H1|exact Hb].
  - destruct (simple_step_total ctx st o Hb) as (st1 & f & H1). rewrite H1.
    apply IH. eapply keeps_inbounds; [eapply simple_step_keeps; exact H1|exact Hb].
Qed.

Lemma sess_t_keeps ctx items : forall st ts st' ts', sess_t ctx st ts items = Ok (st', ts') -> Keeps st st'.
Proof.
  induction items as [|[ch|o] t IH]; intros st ts st' ts'; cbn [sess_t].
  - intros [= <- <-]. apply keeps_refl.
  - destruct (tty_write ctx st ts ch) as [[st1 ts1]| | |] eqn:H1; try discriminate.
    intros H. eapply keeps_trans; [eapply tty_write_keeps; exact H1|eapply IH; exact H].
  - destruct (simple_step ctx st o) as [[st1 f]| | |] eqn:H1; try discriminate.
    intros H. eapply keeps_trans; [eapply simple_step_keeps; exact H1|eapply IH; exact H].
Qed.

Lemma sess_t_total ctx items : forall st ts, InBounds (w_sh st) (length (w_data st)) -> TokOk ts ->
  exists st' ts', sess_t ctx st ts items = Ok (st', ts') /\ TokOk ts'.
Proof.
  induction items as [|[ch|o] t IH]; intros st ts Hb Hc; cbn [sess_t]; eauto.
  - destruct (tty_write_total ctx ch st ts Hb Hc) as (st1 & ts1 & H1 & Hc1). rewrite H1.
    apply IH; [|exact Hc1]. eapply keeps_inbounds; [eapply tty_write_keeps; exact H1|exact Hb].
  - destruct (simple_step_total ctx st o Hb) as (st1 & f & H1). rewrite H1.
    apply IH; [|exact Hc]. eapply keeps_inbounds; [eapply simple_step_keeps; exact H1|exact Hb].
Qed.

Lemma wop_step_keeps ctx st o st' b : wop_step ctx st o = Ok (st', b) -> Keeps st st'.
Proof.
  destruct o; cbn [wop_step]; try apply simple_step_keeps.
  - apply write_chunks_keeps.
  - destruct (write_chunks ctx (set_dec st u0) chunks) as [[st1 f]| | |] eqn:H1; try discriminate.
    intros [= <- <-]. apply write_chunks_keeps in H1. exact H1.
  - destruct (tty_chunks ctx st (t0 (cmd_dfa ctx)) chunks) as [[st1 ts1]| | |] eqn:H1; try discriminate.
    intros [= <- <-]. eapply tty_chunks_keeps; exact H1.
  - destruct (sess_u ctx (set_dec st u0) items) as [[st1 f]| | |] eqn:H1; try discriminate.
    intros [= <- <-]. apply sess_u_keeps in H1. exact H1.
  - destruct (sess_t ctx st (t0 (cmd_dfa ctx)) items) as [[st1 ts1]| | |] eqn:H1; try discriminate.
    intros [= <- <-]. eapply sess_t_keeps; exact H1.
Qed.

Lemma wop_step_total ctx st o : InBounds (w_sh st) (length (w_data st)) ->
  exists st' b, wop_step ctx st o = Ok (st', b).
Proof.
  intros Hb. destruct o; cbn [wop_step]; try (now apply simple_step_total).
  - now apply write_chunks_total.
  - destruct (write_chunks_total ctx chunks (set_dec st u0) Hb) as (st1 & f & ->). eauto.
  - destruct (tty_chunks_total ctx chunks st (t0 (cmd_dfa ctx)) Hb (t0_tokok _)) as (st1 & ts1 & -> & _). eauto.
  - destruct (sess_u_total ctx items (set_dec st u0) Hb) as (st1 & f & ->). eauto.
  - destruct (sess_t_total ctx items st (t0 (cmd_dfa ctx)) Hb (t0_tokok _)) as (st1 & ts1 & -> & _). eauto.
Qed.

Lemma wops_run_keeps ctx ops : forall st st' bs, wops_run ctx st ops = Ok (st', bs) -> Keeps st st'.
Proof.
  induction ops as [|o t IH]; intros st st' bs; cbn [wops_run].
  - intros [= <- <-]. apply keeps_same; reflexivity.
  - destruct (wop_step ctx st o) as [[st1 b]| | |] eqn:H1; try discriminate.
    destruct (wops_run ctx st1 t) as [[st2 bs2]| | |] eqn:H2; try discriminate.
    intros [= <- <-]. eapply keeps_trans; [eapply wop_step_keeps; eauto|eauto].
Qed.

Lemma wops_run_total ctx ops : forall st, InBounds (w_sh st) (length (w_data st)) ->
  exists st' bs, wops_run ctx st ops = Ok (st', bs).
Proof.
  induction ops as [|o t IH]; intros st Hb; cbn [wops_run]; eauto.
  destruct (wop_step_total ctx st o Hb) as (st1 & b & H1). rewrite H1.
  destruct (IH st1) as (st2 & bs & H2); [eapply keeps_inbounds; eauto; eapply wop_step_keeps; eauto|].
  rewrite H2. eauto.
Qed.

(* ---------- the containment theorem ---------- *)
Theorem writer_contained ctx sh data ops :
  (forall st' bs, wops_run ctx (writer_new sh data) ops = Ok (st', bs) -> Frame sh data (w_data st')) /\
  (InBounds sh (length data) -> exists st' bs, wops_run ctx (writer_new sh data) ops = Ok (st', bs)).
Proof.
  split.
  - intros st' bs H. apply wops_run_keeps in H as [_ F]. exact F.
  - intros Hb. now apply wops_run_total.
Qed.
