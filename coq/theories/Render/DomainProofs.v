(* Render/DomainProofs.v — the decidable domain / overlap predicates imply the
   propositional [Good] used by the proofs. *)
From Coq Require Import List NArith Bool Arith Lia.
From SNT Require Import Render.Cell Render.Domain Render.GridLemmas Render.Den.
Import ListNotations.

Lemma list_sum_mapi_from_ge : forall {A} (f : nat -> A -> nat) l k i x,
  nth_error l i = Some x -> f (k + i) x <= list_sum (mapi_from f k l).
Proof.
  intros A f. induction l as [|a l IH]; intros k i x H. destruct i; discriminate.
  destruct i as [|i]; simpl in *.
  - inversion H; subst. rewrite Nat.add_0_r. lia.
  - specialize (IH (S k) i x H). replace (S k + i) with (k + S i) in IH by lia. lia.
Qed.

Lemma list_sum_mapi_from_two : forall {A} (f : nat -> A -> nat) l k i j x y,
  i <> j -> nth_error l i = Some x -> nth_error l j = Some y ->
  f (k + i) x + f (k + j) y <= list_sum (mapi_from f k l).
Proof.
  intros A f. induction l as [|a l IH]; intros k i j x y Hne Hi Hj. destruct i; discriminate.
  destruct i as [|i]; destruct j as [|j]; simpl in *; try lia.
  - inversion Hi; subst. pose proof (list_sum_mapi_from_ge f l (S k) j y Hj).
    rewrite Nat.add_0_r. replace (k + S j) with (S k + j) by lia. lia.
  - inversion Hj; subst. pose proof (list_sum_mapi_from_ge f l (S k) i x Hi).
    rewrite Nat.add_0_r. replace (k + S i) with (S k + i) by lia. lia.
  - assert (i <> j) by lia. specialize (IH (S k) i j x y H Hi Hj).
    replace (k + S i) with (S k + i) by lia. replace (k + S j) with (S k + j) by lia. lia.
Qed.

Lemma obj_covers_occupies : forall o x r0 c0 r c,
  occupies o (resolve o x) r0 c0 r c -> obj_covers o x r0 c0 r c = true.
Proof.
  intros o x r0 c0 r c H. unfold occupies, obj_covers in *.
  destruct (ckind (resolve o x)) as [ch|i|g].
  - destruct H as (H1 & H2 & H3). rewrite !andb_true_iff, !Nat.eqb_eq, in_range_true. auto.
  - unfold in_rect in H. destruct (isz o i). exact H.
  - contradiction.
Qed.

Lemma cover_count_two : forall o s r c r1 c1 r2 c2 x1 x2,
  gget s r1 c1 = Some x1 -> gget s r2 c2 = Some x2 ->
  obj_covers o x1 r1 c1 r c = true -> obj_covers o x2 r2 c2 r c = true ->
  (r1, c1) <> (r2, c2) -> 2 <= cover_count o s r c.
Proof.
  intros o s r c r1 c1 r2 c2 x1 x2 H1 H2 Hc1 Hc2 Hne. unfold cover_count, mapi.
  unfold gget in H1, H2.
  destruct (nth_error s r1) as [row1|] eqn:E1; [|discriminate].
  destruct (nth_error s r2) as [row2|] eqn:E2; [|discriminate].
  set (cellf := fun r0 c0 x => if obj_covers o x r0 c0 r c then 1 else 0).
  set (rowf := fun r0 row => list_sum (mapi_from (cellf r0) 0 row)).
  destruct (Nat.eq_dec r1 r2) as [->|Hr].
  - rewrite E1 in E2. inversion E2; subst row2.
    assert (Hc : c1 <> c2) by congruence.
    pose proof (list_sum_mapi_from_two (cellf r2) row1 0 c1 c2 x1 x2 Hc H1 H2) as Hrow.
    simpl in Hrow. unfold cellf in Hrow at 1 2. rewrite Hc1, Hc2 in Hrow.
    pose proof (list_sum_mapi_from_ge rowf s 0 r2 row1 E1) as Htot. simpl in Htot.
    unfold rowf in Htot at 1. fold rowf in Htot. unfold rowf, cellf in *. lia.
  - pose proof (list_sum_mapi_from_ge (cellf r1) row1 0 c1 x1 H1) as Ha. simpl in Ha.
    unfold cellf in Ha at 1. rewrite Hc1 in Ha.
    pose proof (list_sum_mapi_from_ge (cellf r2) row2 0 c2 x2 H2) as Hb. simpl in Hb.
    unfold cellf in Hb at 1. rewrite Hc2 in Hb.
    pose proof (list_sum_mapi_from_two rowf s 0 r1 r2 row1 row2 Hr E1 E2) as Htot. simpl in Htot.
    unfold rowf in Htot at 1 2. unfold rowf, cellf in *. lia.
Qed.

Theorem good_of_bool : forall o h w s,
  in_domain o h w s = true -> overlap_free o h w s = true -> Good o h w (gmap (resolve o) s).
Proof.
  intros o h w s Hdom Hov. unfold in_domain in Hdom. apply andb_true_iff in Hdom.
  destruct Hdom as [Hd Hcells]. apply grid_dims_true in Hd.
  assert (Hcell : forall r c x, gget s r c = Some x -> cell_in_domain o w c x = true).
  { intros r c x Hx. unfold gget in Hx. destruct (nth_error s r) as [row|] eqn:Er; [|discriminate].
    rewrite forallb_forall in Hcells. specialize (Hcells row (nth_error_In _ _ Er)).
    rewrite forallb_forall in Hcells. apply Hcells. apply in_mapi. exists c, x. auto. }
  constructor.
  - apply gdims_gmap. exact Hd.
  - intros r c x' Hx'. rewrite gget_gmap in Hx'.
    destruct (gget s r c) as [x|] eqn:Ex; [|discriminate]. simpl in Hx'. inversion Hx'; subst x'.
    specialize (Hcell r c x Ex). unfold cell_in_domain in Hcell. unfold cell_good.
    assert (Hrr : resolve o (resolve o x) = resolve o x) by (destruct x as [f [a|a|a]]; reflexivity).
    destruct (ckind (resolve o x)) as [ch|i|g] eqn:Ek.
    + rewrite orb_true_iff, andb_true_iff, !Nat.eqb_eq, Nat.leb_le in Hcell. lia.
    + destruct (isz o i) as [ih iw]. simpl. rewrite andb_true_iff, !Nat.leb_le in Hcell. lia.
    + discriminate.
  - intros r c r1 c1 r2 c2 x1' x2' Hr Hc H1 H2 Ho1 Ho2.
    rewrite gget_gmap in H1, H2.
    destruct (gget s r1 c1) as [x1|] eqn:E1; [|discriminate].
    destruct (gget s r2 c2) as [x2|] eqn:E2; [|discriminate].
    simpl in H1, H2. inversion H1; subst x1'. inversion H2; subst x2'.
    apply obj_covers_occupies in Ho1. apply obj_covers_occupies in Ho2.
    destruct (Nat.eq_dec r1 r2) as [->|Hne]; [destruct (Nat.eq_dec c1 c2) as [->|Hne]|]; auto; exfalso.
    + assert (Hp : (r2, c1) <> (r2, c2)) by congruence.
      pose proof (cover_count_two o s r c r2 c1 r2 c2 x1 x2 E1 E2 Ho1 Ho2 Hp) as H.
      unfold overlap_free in Hov. rewrite forallb_forall in Hov.
      specialize (Hov (r, c) ltac:(apply in_all_pos; auto)). simpl in Hov. apply Nat.leb_le in Hov. lia.
    + assert (Hp : (r1, c1) <> (r2, c2)) by congruence.
      pose proof (cover_count_two o s r c r1 c1 r2 c2 x1 x2 E1 E2 Ho1 Ho2 Hp) as H.
      unfold overlap_free in Hov. rewrite forallb_forall in Hov.
      specialize (Hov (r, c) ltac:(apply in_all_pos; auto)). simpl in Hov. apply Nat.leb_le in Hov. lia.
Qed.
