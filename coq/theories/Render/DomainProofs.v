(* Render/DomainProofs.v — the decidable domain / overlap predicates imply the
   propositional [Good] used by the proofs. *)
From Coq Require Import List NArith Bool Arith Lia.
From SNT Require Import Render.Cell Render.Domain Render.GridLemmas Render.Den.
Import ListNotations.

Lemma list_sum_mapi_from_ge : forall {A} (f : nat -> A -> nat) l k i x,
  nth_error l i = Some x -> f (k + i) x <= list_sum (mapi_from f k l).
Proof.
  intros A f. induction l as [|a l IH]; intros k i x H. destruct i; discriminate.
  destruct i as [|i]; simpl in *.
  - inversion H; subst. rewrite Nat.add_0_r. lia.
  - specialize (IH (S k) i x H). replace (S k + i) with (k + S i) in IH by lia. lia.
Qed.

Lemma list_sum_mapi_from_two : forall {A} (f : nat -> A -> nat) l k i j x y,
  i <> j -> nth_error l i = Some x -> nth_error l j = Some y ->
  f (k + i) x + f (k + j) y <= list_sum (mapi_from f k l).
Proof.
  intros A f. induction l as [|a l IH]; intros k i j x y Hne Hi Hj. destruct i; discriminate.
  destruct i as [|i]; destruct j as [|j]; simpl in *; try lia.
  - inversion Hi; subst. pose proof (list_sum_mapi_from_ge f l (S k) j y Hj).
    rewrite Nat.add_0_r. replace (k + S j) with (S k + j) by lia. lia.
  - inversion Hj; subst. pose proof (list_sum_mapi_from_ge f l (S k) i x Hi).
    rewrite Nat.add_0_r. replace (k + S i) with (S k + i) by lia. lia.
  - assert (i <> j) by lia. specialize (IH (S k) i j x y H Hi Hj).
    replace (k + S i) with (S k + i) by lia. replace (k + S j) with (S k + j) by lia. lia.
Qed.

Lemma obj_covers_occupies : forall o x r0 c0 r c,
  occupies o (resolve o x) r0 c0 r c -> obj_covers o x r0 c0 r c = true.
Proof.
  intros o x r0 c0 r c H. unfold occupies, obj_covers in *.
  destruct (ckind (resolve o x)) as [ch|i|g].
  - destruct H as (H1 & H2 & H3). rewrite !andb_true_iff, !Nat.eqb_eq, in_range_true. auto.
  - unfold in_rect in H. destruct (isz o i). exact H.
  - contradiction.
Qed.

Lemma cover_count_two : forall o s r c r1 c1 r2 c2 x1 x2,
  gget s r1 c1 = Some x1 -> gget s r2 c2 = Some x2 ->
  obj_covers o x1 r1 c1 r c = true -> obj_covers o x2 r2 c2 r c = true ->
  (r1, c1) <> (r2, c2) -> 2 <= cover_count o s r c.
Proof.
  intros o s r c r1 c1 r2 c2 x1 x2 H1 H2 Hc1 Hc2 Hne. unfold cover_count, mapi.
  unfold gget in H1, H2.
  destruct (nth_error s r1) as [row1|] eqn:E1; [|discriminate].
  destruct (nth_error s r2) as [row2|] eqn:E2; [|discriminate].
  set (cellf := fun r0 c0 x => if obj_covers o x r0 c0 r c then 1 else 0).
  set (rowf := fun r0 row => list_sum (mapi_from (cellf r0) 0 row)).
  destruct (Nat.eq_dec r1 r2) as [->|Hr].
  - rewrite E1 in E2. inversion E2; subst row2.
    assert (Hc : c1 <> c2) by congruence.
    pose proof (list_sum_mapi_from_two (cellf r2) row1 0 c1 c2 x1 x2 Hc H1 H2) as Hrow.
    simpl in Hrow. unfold cellf in Hrow at 1 2. rewrite Hc1, Hc2 in Hrow.
    pose proof (list_sum_mapi_from_ge rowf s 0 r2 row1 E1) as Htot. simpl in Htot.
    unfold rowf in Htot at 1. fold rowf in Htot. unfold rowf, cellf in *. lia.
  - pose proof (list_sum_mapi_from_ge (cellf r1) row1 0 c1 x1 H1) as Ha. simpl in Ha.
    unfold cellf in Ha at 1. rewrite Hc1 in Ha.
    pose proof (list_sum_mapi_from_ge (cellf r2) row2 0 c2 x2 H2) as Hb. simpl in Hb.
    unfold cellf in Hb at 1. rewrite Hc2 in Hb.
    pose proof (list_sum_mapi_from_two rowf s 0 r1 r2 row1 row2 Hr E1 E2) as Htot. simpl in Htot.
    unfold rowf in Htot at 1 2. unfold rowf, cellf in *. lia.
Qed.

Lemma count_by_one : forall o img s r c r1 c1 x1,
  gget s r1 c1 = Some x1 -> is_image_cell o x1 = img -> obj_covers o x1 r1 c1 r c = true ->
  1 <= cover_count_by o img s r c.
Proof.
  intros o img s r c r1 c1 x1 H1 Hi Hc. unfold cover_count_by, mapi. unfold gget in H1.
  destruct (nth_error s r1) as [row1|] eqn:E1; [|discriminate].
  set (cellf := fun r0 c0 x => if Bool.eqb (is_image_cell o x) img && obj_covers o x r0 c0 r c then 1 else 0).
  set (rowf := fun r0 row => list_sum (mapi_from (cellf r0) 0 row)).
  pose proof (list_sum_mapi_from_ge (cellf r1) row1 0 c1 x1 H1) as Ha. simpl in Ha.
  unfold cellf in Ha at 1. rewrite Hi, Bool.eqb_reflx, Hc in Ha. simpl in Ha.
  pose proof (list_sum_mapi_from_ge rowf s 0 r1 row1 E1) as Htot. simpl in Htot.
  unfold rowf in Htot at 1. unfold rowf, cellf in *. lia.
Qed.

Lemma count_by_two : forall o img s r c r1 c1 r2 c2 x1 x2,
  gget s r1 c1 = Some x1 -> gget s r2 c2 = Some x2 ->
  is_image_cell o x1 = img -> is_image_cell o x2 = img ->
  obj_covers o x1 r1 c1 r c = true -> obj_covers o x2 r2 c2 r c = true ->
  (r1, c1) <> (r2, c2) -> 2 <= cover_count_by o img s r c.
Proof.
  intros o img s r c r1 c1 r2 c2 x1 x2 H1 H2 Hi1 Hi2 Hc1 Hc2 Hne. unfold cover_count_by, mapi.
  unfold gget in H1, H2.
  destruct (nth_error s r1) as [row1|] eqn:E1; [|discriminate].
  destruct (nth_error s r2) as [row2|] eqn:E2; [|discriminate].
  set (cellf := fun r0 c0 x => if Bool.eqb (is_image_cell o x) img && obj_covers o x r0 c0 r c then 1 else 0).
  set (rowf := fun r0 row => list_sum (mapi_from (cellf r0) 0 row)).
  destruct (Nat.eq_dec r1 r2) as [->|Hr].
  - rewrite E1 in E2. inversion E2; subst row2.
    assert (Hc : c1 <> c2) by congruence.
    pose proof (list_sum_mapi_from_two (cellf r2) row1 0 c1 c2 x1 x2 Hc H1 H2) as Hrow.
    simpl in Hrow. unfold cellf in Hrow at 1 2. rewrite Hi1, Hi2, Bool.eqb_reflx, Hc1, Hc2 in Hrow. simpl in Hrow.
    pose proof (list_sum_mapi_from_ge rowf s 0 r2 row1 E1) as Htot. simpl in Htot.
    unfold rowf in Htot at 1. unfold rowf, cellf in *. lia.
  - pose proof (list_sum_mapi_from_ge (cellf r1) row1 0 c1 x1 H1) as Ha. simpl in Ha.
    unfold cellf in Ha at 1. rewrite Hi1, Bool.eqb_reflx, Hc1 in Ha. simpl in Ha.
    pose proof (list_sum_mapi_from_ge (cellf r2) row2 0 c2 x2 H2) as Hb. simpl in Hb.
    unfold cellf in Hb at 1. rewrite Hi2, Bool.eqb_reflx, Hc2 in Hb. simpl in Hb.
    pose proof (list_sum_mapi_from_two rowf s 0 r1 r2 row1 row2 Hr E1 E2) as Htot. simpl in Htot.
    unfold rowf in Htot at 1 2. unfold rowf, cellf in *. lia.
Qed.

Lemma is_img_cell : forall o x, is_img (resolve o x) -> is_image_cell o x = true.
Proof. intros o x [i H]. unfold is_image_cell. rewrite H. reflexivity. Qed.

Lemma occupies_not_glyph : forall o x r0 c0 r c, occupies o (resolve o x) r0 c0 r c ->
  is_image_cell o x = true \/ (is_image_cell o x = false /\ exists ch, ckind (resolve o x) = KChar ch).
Proof.
  intros o x r0 c0 r c H. unfold occupies in H. unfold is_image_cell.
  destruct (ckind (resolve o x)) as [ch|i|g]; eauto; try contradiction.
Qed.

Theorem good_of_bool : forall o h w s,
  in_domain o h w s = true -> no_image_overlap o h w s = true -> Good o h w (gmap (resolve o) s).
Proof.
  intros o h w s Hdom Hov. unfold in_domain in Hdom. apply andb_true_iff in Hdom.
  destruct Hdom as [Hd Hcells]. apply grid_dims_true in Hd.
  assert (Hcell : forall r c x, gget s r c = Some x -> cell_in_domain o w c x = true).
  { intros r c x Hx. unfold gget in Hx. destruct (nth_error s r) as [row|] eqn:Er; [|discriminate].
    rewrite forallb_forall in Hcells. specialize (Hcells row (nth_error_In _ _ Er)).
    rewrite forallb_forall in Hcells. apply Hcells. apply in_mapi. exists c, x. auto. }
  unfold no_image_overlap, overlap_kinds in Hov.
  apply andb_true_iff in Hov. destruct Hov as [Hii Hwi].
  apply negb_true_iff in Hii. apply negb_true_iff in Hwi.
  assert (Hat : forall r c, r < h -> c < w ->
            cover_count_by o true s r c <= 1
            /\ (1 <= cover_count_by o true s r c -> cover_count_by o false s r c = 0)).
  { intros r c Hr Hc.
    assert (Hin : In (cover_count_by o true s r c, cover_count_by o false s r c)
                     (map (fun '(r, c) => (cover_count_by o true s r c, cover_count_by o false s r c)) (all_pos h w))).
    { apply in_map_iff. exists (r, c). split; auto. apply in_all_pos. auto. }
    split.
    - destruct (Nat.le_gt_cases (cover_count_by o true s r c) 1) as [H|H]; auto. exfalso.
      assert (E : existsb (fun '(ni, _) => 2 <=? ni)
                    (map (fun '(r, c) => (cover_count_by o true s r c, cover_count_by o false s r c)) (all_pos h w)) = true).
      { apply existsb_exists. exists (cover_count_by o true s r c, cover_count_by o false s r c).
        split; [exact Hin|]. apply Nat.leb_le. lia. }
      congruence.
    - intros H1. destruct (cover_count_by o false s r c) eqn:E0; auto. exfalso.
      assert (E : existsb (fun '(ni, nw) => (1 <=? ni) && (1 <=? nw))
                    (map (fun '(r, c) => (cover_count_by o true s r c, cover_count_by o false s r c)) (all_pos h w)) = true).
      { apply existsb_exists. exists (cover_count_by o true s r c, S n).
        split; [exact Hin|]. apply andb_true_iff. split; apply Nat.leb_le; lia. }
      congruence. }
  constructor.
  - apply gdims_gmap. exact Hd.
  - intros r c x' Hx'. rewrite gget_gmap in Hx'.
    destruct (gget s r c) as [x|] eqn:Ex; [|discriminate]. simpl in Hx'. inversion Hx'; subst x'.
    specialize (Hcell r c x Ex). unfold cell_in_domain in Hcell. unfold cell_good.
    assert (Hrr : resolve o (resolve o x) = resolve o x) by (destruct x as [f [a|a|a]]; reflexivity).
    destruct (ckind (resolve o x)) as [ch|i|g] eqn:Ek.
    + rewrite orb_true_iff, andb_true_iff, !Nat.eqb_eq, Nat.leb_le in Hcell. lia.
    + destruct (isz o i) as [ih iw]. simpl. rewrite andb_true_iff, !Nat.leb_le in Hcell. lia.
    + discriminate.
  - intros r c r1 c1 r2 c2 x1' x2' Hr Hc H1 H2 Ho1 Ho2 Himg.
    rewrite gget_gmap in H1, H2.
    destruct (gget s r1 c1) as [x1|] eqn:E1; [|discriminate].
    destruct (gget s r2 c2) as [x2|] eqn:E2; [|discriminate].
    simpl in H1, H2. inversion H1; subst x1'. inversion H2; subst x2'.
    pose proof (occupies_not_glyph o x1 r1 c1 r c Ho1) as K1.
    pose proof (occupies_not_glyph o x2 r2 c2 r c Ho2) as K2.
    apply obj_covers_occupies in Ho1. apply obj_covers_occupies in Ho2.
    destruct (Hat r c Hr Hc) as [Hle1 Hzero].
    destruct (Nat.eq_dec r1 r2) as [->|Hne]; [destruct (Nat.eq_dec c1 c2) as [->|Hne]|]; auto; exfalso.
    + assert (Hp : (r2, c1) <> (r2, c2)) by congruence.
      destruct K1 as [K1|[K1 _]]; destruct K2 as [K2|[K2 _]].
      * pose proof (count_by_two o true s r c r2 c1 r2 c2 x1 x2 E1 E2 K1 K2 Ho1 Ho2 Hp). lia.
      * pose proof (count_by_one o true s r c r2 c1 x1 E1 K1 Ho1) as Ha.
        pose proof (count_by_one o false s r c r2 c2 x2 E2 K2 Ho2) as Hb. rewrite (Hzero Ha) in Hb. lia.
      * pose proof (count_by_one o true s r c r2 c2 x2 E2 K2 Ho2) as Ha.
        pose proof (count_by_one o false s r c r2 c1 x1 E1 K1 Ho1) as Hb. rewrite (Hzero Ha) in Hb. lia.
      * destruct Himg as [Hi|Hi]; apply is_img_cell in Hi; congruence.
    + assert (Hp : (r1, c1) <> (r2, c2)) by congruence.
      destruct K1 as [K1|[K1 _]]; destruct K2 as [K2|[K2 _]].
      * pose proof (count_by_two o true s r c r1 c1 r2 c2 x1 x2 E1 E2 K1 K2 Ho1 Ho2 Hp). lia.
      * pose proof (count_by_one o true s r c r1 c1 x1 E1 K1 Ho1) as Ha.
        pose proof (count_by_one o false s r c r2 c2 x2 E2 K2 Ho2) as Hb. rewrite (Hzero Ha) in Hb. lia.
      * pose proof (count_by_one o true s r c r2 c2 x2 E2 K2 Ho2) as Ha.
        pose proof (count_by_one o false s r c r1 c1 x1 E1 K1 Ho1) as Hb. rewrite (Hzero Ha) in Hb. lia.
      * destruct Himg as [Hi|Hi]; apply is_img_cell in Hi; congruence.
Qed.
