(* Render/LoopProofs.v — the render loop with a queue that drops whole chunks: every delivered frame
   is displayed right, as long as no drop leaves a stale image (class DroppedImageErase). *)
From Coq Require Import List NArith Bool Arith Lia.
From SNT Require Import Render.Cell Render.Screen Render.Frame Render.Domain Render.GridLemmas
  Render.ScreenProofs Render.PaintProofs Render.ExecProofs Render.Den Render.FrameTheorem Render.ShowProofs
  Render.DomainProofs Render.Spec Render.HistoryProofs Render.Loop.
Import ListNotations.

(* ---------- executing commands keeps the screen a screen ---------- *)
Lemma exec_dims : forall o s c h w,
  sh s = h -> sw s = w -> gdims (sgrid s) h w ->
  sh (exec o s c) = h /\ sw (exec o s c) = w /\ gdims (sgrid (exec o s c)) h w.
Proof.
  intros o s c h w Hh Hw Hd. destruct c as [ch|f|r c|n|i r c|i [[r c]|]|b|]; simpl; auto.
  - destruct (cur s) as [r c].
    destruct (((cw o ch =? 1) || (cw o ch =? 2)) && (c + cw o ch <=? sw s) && (r <? sh s)); simpl; auto.
    split; [auto|split; [auto|]]. apply gdims_on_row; auto. intros. apply put_char_length.
  - destruct (c <? sw s); simpl; auto.
  - destruct (cur s) as [r c].
    destruct ((0 <? n) && (c <? sw s) && (r <? sh s)); simpl; auto.
    split; [auto|split; [auto|]]. apply gdims_on_row; auto. intros. apply erase_cells_length.
  - destruct (place_mem (i, r, c) (places s)); simpl; auto.
Qed.

Lemma exec_list_dims : forall o l s h w,
  sh s = h -> sw s = w -> gdims (sgrid s) h w ->
  sh (exec_list o s l) = h /\ sw (exec_list o s l) = w /\ gdims (sgrid (exec_list o s l)) h w.
Proof.
  intros o. induction l as [|c l IH]; intros s h w Hh Hw Hd.
  - rewrite exec_list_nil. auto.
  - rewrite exec_list_cons. destruct (exec_dims o s c h w Hh Hw Hd) as (H1 & H2 & H3). apply IH; auto.
Qed.

Lemma exec_list_scr_ok : forall o l s h w,
  scr_ok s h w -> err (exec_list o s l) = false -> scr_ok (exec_list o s l) h w.
Proof.
  intros o l s h w (Hh & Hw & _ & Hd) He.
  destruct (exec_list_dims o l s h w Hh Hw Hd) as (H1 & H2 & H3). unfold scr_ok. auto.
Qed.

Lemma exec_sync : forall o s cs, exec_list o s ([CSync true] ++ cs ++ [CSync false]) = exec_list o s cs.
Proof.
  intros. rewrite exec_list_app. rewrite exec_list_cons, exec_list_nil. cbn [exec].
  rewrite exec_list_app, exec_list_cons, exec_list_nil. reflexivity.
Qed.

(* ---------- delivering chunks ---------- *)
Lemma deliver_all_app : forall o h w q1 q2 scr,
  deliver_all o h w scr (q1 ++ q2) =
  (fst (deliver_all o h w (fst (deliver_all o h w scr q1)) q2),
   snd (deliver_all o h w scr q1) && snd (deliver_all o h w (fst (deliver_all o h w scr q1)) q2)).
Proof.
  intros o h w. induction q1 as [|c q1 IH]; intros q2 scr; cbn [app deliver_all].
  - simpl. destruct (deliver_all o h w scr q2). reflexivity.
  - destruct (deliver o h w scr c) as [scr1 ok1] eqn:E1. rewrite IH.
    destruct (deliver_all o h w scr1 q1) as [scr2 ok2]. cbn [fst snd].
    destruct (deliver_all o h w scr2 q2) as [scr3 ok3]. cbn [fst snd]. rewrite andb_assoc. reflexivity.
Qed.

Lemma deliver_all_split : forall o h w n q scr,
  deliver_all o h w scr q =
  (fst (deliver_all o h w (fst (deliver_all o h w scr (firstn n q))) (skipn n q)),
   snd (deliver_all o h w scr (firstn n q))
   && snd (deliver_all o h w (fst (deliver_all o h w scr (firstn n q))) (skipn n q))).
Proof. intros. rewrite <- deliver_all_app, firstn_skipn. reflexivity. Qed.

Lemma deliver_all_scr_ok : forall o h w q scr,
  scr_ok scr h w -> snd (deliver_all o h w scr q) = true -> scr_ok (fst (deliver_all o h w scr q)) h w.
Proof.
  intros o h w. induction q as [|c q IH]; intros scr Hs Hok; cbn [deliver_all] in *; auto.
  unfold deliver in *. destruct (deliver_all o h w (exec_list o scr (fst c)) q) as [s2 ok2] eqn:E.
  cbn [fst snd] in *. apply andb_true_iff in Hok. destruct Hok as [H1 H2].
  apply andb_true_iff in H1. destruct H1 as [H1 _]. apply negb_true_iff in H1.
  pose proof (IH (exec_list o scr (fst c)) (exec_list_scr_ok o _ scr h w Hs H1)) as IH'.
  rewrite E in IH'. apply IH'. exact H2.
Qed.

(* ---------- clear() on a terminal in any state whose placements the renderer knows ---------- *)
Lemma hinv_clear_any : forall o h w r v scr, oracle_ok o ->
  HInv o h w r v -> scr_ok scr h w ->
  (forall i rr cc, In (i, rr, cc) (places scr) -> img_cell (back r) i rr cc) ->
  let scr' := exec_list o scr (fst (rclear r)) in
  HInv o h w (snd (rclear r)) scr'.
Proof.
  intros o h w r v scr Hok HI Hs Hpl. pose proof Hok as (Hsp & Hfs & Hlaw). cbv zeta.
  destruct (rclear_cmds r) as [Hall Hiff].
  destruct (exec_image_erases o h w (fst (rclear r)) scr Hs Hall) as (Hs' & Hg & Hp).
  rewrite rclear_state, (hi_h _ _ _ _ _ HI), (hi_w _ _ _ _ _ HI).
  constructor; simpl; auto.
  - apply gdims_gmake.
  - fold (blank_surface h w). rewrite blank_resolved. apply good_blank. auto.
  - apply good_blank. auto.
  - exists MDamaged. split; auto.
  - intros i rr cc. rewrite Hp. split.
    + intros [Hin Hne]. exfalso. apply Hne. apply Hiff. apply Hpl. exact Hin.
    + intros H. exfalso. eapply img_cell_blank; eauto.
Qed.

Lemma is_img_at_cell : forall s i r c, is_img_at s (i, r, c) = true -> img_cell s i r c.
Proof.
  intros s i r c H. unfold is_img_at in H. unfold img_cell.
  destruct (gget s r c) as [x|] eqn:E; [|discriminate].
  destruct (ckind x) as [ch|j|g] eqn:K; try discriminate.
  apply N.eqb_eq in H. subst. eauto.
Qed.

(* ---------- the invariant of the loop ---------- *)
Record LInv (o : oracle) (h w : nat) (r : rstate) (npend : nat) (scr : screen) (q : list chunk)
       (last : grid cell) : Prop := {
  li_scr : scr_ok scr h w;
  li_len : npend = length q;
  li_chain : snd (deliver_all o h w scr q) = true;          (* every pending chunk will be displayed right *)
  li_sync : HInv o h w r (fst (deliver_all o h w scr q));   (* the renderer is in sync with the screen once
                                                               everything pending has been delivered *)
  li_back : back r = gmap (resolve o) last }.

Definition good_iters (o : oracle) (h w : nat) (its : list iter) : Prop :=
  Forall (fun it => good_surface o h w (it_draw it)) its.

Lemma frame_chunk : forall o h w r v cc, oracle_ok o ->
  HInv o h w r v ->
  let c := (cc ++ [CSync true] ++ fst (frame o r) ++ [CSync false], Some (front r)) in
  forall v0, exec_list o v0 cc = v ->
  snd (deliver o h w v0 c) = true
  /\ HInv o h w (snd (frame o r)) (fst (deliver o h w v0 c)).
Proof.
  intros o h w r v cc Hok HI c v0 Hv. unfold deliver, c. cbn [fst snd].
  rewrite exec_list_app, Hv, exec_sync.
  destruct (hinv_frame o h w r v Hok HI) as (HI' & _).
  split; auto. rewrite (frame_shows o h w r v Hok HI), andb_true_r.
  apply negb_true_iff. apply HI'.
Qed.

Theorem render_loop_correct : forall o h w its r npend scr q last, oracle_ok o ->
  LInv o h w r npend scr q last -> good_iters o h w its ->
  snd (loop_spec o h w scr q last its (loop_model o r npend its)) = false ->
  fst (loop_spec o h w scr q last its (loop_model o r npend its)) = true.
Proof.
  intros o h w. induction its as [|it its IH]; intros r npend scr q last Hok HL Hgood Hst.
  { simpl. apply HL. }
  inversion Hgood as [|? ? Hg Hgood']; subst.
  pose proof Hok as (Hsp & Hfs & Hlaw).
  cbn [loop_model loop_spec] in *.
  set (n := Nat.min (it_accept it) (length q)) in *.
  (* poll: the tty takes n chunks *)
  pose proof (deliver_all_split o h w n q scr) as Hsplit.
  destruct (deliver_all o h w scr (firstn n q)) as [scr1 ok1] eqn:E1. cbn [fst snd] in Hsplit.
  pose proof (li_chain _ _ _ _ _ _ _ _ HL) as Hchain. rewrite Hsplit in Hchain. cbn [snd] in Hchain.
  apply andb_true_iff in Hchain. destruct Hchain as [Hok1 Hchain1]. subst ok1.
  assert (Hs1 : scr_ok scr1 h w).
  { pose proof (deliver_all_scr_ok o h w (firstn n q) scr (li_scr _ _ _ _ _ _ _ _ HL)) as H.
    rewrite E1 in H. apply H. reflexivity. }
  set (q1 := skipn n q) in *.
  assert (HV : fst (deliver_all o h w scr1 q1) = fst (deliver_all o h w scr q)) by (rewrite Hsplit; reflexivity).
  assert (Hnp : npend - Nat.min (it_accept it) npend = length q1).
  { unfold q1, n. rewrite skipn_length, (li_len _ _ _ _ _ _ _ _ HL). reflexivity. }
  rewrite Hnp in *.
  pose proof (li_sync _ _ _ _ _ _ _ _ HL) as HI. rewrite <- HV in HI.
  set (fp := match it_pending it with Some k => k | None => length q1 end) in *.
  set (drop := terminal_frames_drop <? fp) in *.
  set (cc := if drop then fst (rclear r) else []) in *.
  set (r1 := if drop then snd (rclear r) else r) in *.
  set (q2 := if drop then firstn (it_keep it) q1 else q1) in *.
  set (last1 := if drop then gmake h w cell_default else last) in *.
  set (np2 := if drop then Nat.min (it_keep it) (length q1) else length q1) in *.
  set (stl := if drop then stale_after_drop o h w scr1 q2 last else false) in *.
  (* after the (possible) drop and clear *)
  assert (Hstl : stl = false).
  { destruct (it_action it);
      match type of Hst with snd (let '(_, _) := ?X in _) = false => destruct X end;
      cbn [snd] in Hst; apply orb_false_iff in Hst; tauto. }
  assert (Hphase : snd (deliver_all o h w scr1 q2) = true
                   /\ np2 = length q2
                   /\ HInv o h w r1 (exec_list o (fst (deliver_all o h w scr1 q2)) cc)
                   /\ back r1 = gmap (resolve o) last1).
  { unfold stl, q2, np2, r1, cc, last1 in *. destruct drop.
    - assert (Hc2 : snd (deliver_all o h w scr1 (firstn (it_keep it) q1)) = true).
      { pose proof (deliver_all_split o h w (it_keep it) q1 scr1) as H.
        rewrite H in Hchain1. cbn [snd] in Hchain1. apply andb_true_iff in Hchain1. tauto. }
      set (v' := fst (deliver_all o h w scr1 (firstn (it_keep it) q1))) in *.
      assert (Hsv : scr_ok v' h w) by (apply deliver_all_scr_ok; auto).
      assert (Hpl : forall i rr cc0, In (i, rr, cc0) (places v') -> img_cell (back r) i rr cc0).
      { intros i rr cc0 Hin. unfold stale_after_drop in Hstl. apply negb_false_iff in Hstl.
        rewrite forallb_forall in Hstl. fold v' in Hstl. rewrite (li_back _ _ _ _ _ _ _ _ HL).
        apply is_img_at_cell. apply Hstl. exact Hin. }
      split; [exact Hc2|]. split; [rewrite firstn_length; reflexivity|]. split.
      + exact (hinv_clear_any o h w r _ v' Hok HI Hsv Hpl).
      + rewrite rclear_state. cbn [rnew back]. rewrite (hi_h _ _ _ _ _ HI), (hi_w _ _ _ _ _ HI).
        fold (blank_surface h w). rewrite blank_resolved. reflexivity.
    - split; [exact Hchain1|]. split; [reflexivity|]. split.
      + rewrite exec_list_nil. exact HI.
      + apply HL. }
  destruct Hphase as (Hc2 & Hnp2 & HI1 & Hb1).
  set (v0 := fst (deliver_all o h w scr1 q2)) in *.
  destruct (hinv_draw o h w r1 _ (it_draw it) HI1 Hg) as [HI2 Hf2].
  set (r2 := rdraw r1 (it_draw it)) in *.
  assert (Hb2 : back r2 = gmap (resolve o) last1).
  { unfold r2, rdraw. destruct (grid_dims (it_draw it) (rh r1) (rw r1)); simpl; exact Hb1. }
  destruct (it_action it).
  - (* a frame *)
    destruct (frame_chunk o h w r2 _ cc Hok HI2 v0 eq_refl) as [Hck HIn]. rewrite Hf2 in Hck, HIn.
    match type of Hst with snd (let '(_, _) := ?X in _) = false => destruct X as [ok st] eqn:Erest end.
    cbn [fst snd] in *. cbn [andb].
    replace ok with (fst (ok, st)) by reflexivity. rewrite <- Erest.
    fold q2. fold q2 in Erest.
    apply IH; auto.
    + constructor.
      * exact Hs1.
      * rewrite app_length. cbn [length]. lia.
      * rewrite deliver_all_app. cbn [snd]. fold v0. rewrite Hc2. cbn [andb deliver_all].
        destruct (deliver o h w v0 _) as [s2 k2] eqn:Ed. cbn [snd] in *. rewrite Hck. reflexivity.
      * rewrite deliver_all_app. cbn [fst]. fold v0. cbn [deliver_all].
        destruct (deliver o h w v0 _) as [s2 k2] eqn:Ed. cbn [fst] in *. exact HIn.
      * destruct (hinv_frame o h w r2 _ Hok HI2) as (_ & _ & Hbk & _). rewrite Hbk, Hf2. reflexivity.
    + rewrite Erest. apply orb_false_iff in Hst. tauto.
  - (* WaitNoFrame: the drawing is dropped; the chunk holds at most the commands of clear() *)
    destruct (hinv_skip o h w r2 _ Hok HI2) as [HIs _].
    match type of Hst with snd (let '(_, _) := ?X in _) = false => destruct X as [ok st] eqn:Erest end.
    cbn [fst snd] in *. cbn [andb].
    replace ok with (fst (ok, st)) by reflexivity. rewrite <- Erest.
    fold q2. fold q2 in Erest. fold last1. fold last1 in Erest.
    apply IH; auto.
    + destruct cc as [|c0 cc'] eqn:Ecc; cbn [is_nil] in *.
      * rewrite exec_list_nil in HIs. constructor; auto.
      * constructor.
        -- exact Hs1.
        -- rewrite app_length. cbn [length]. lia.
        -- rewrite deliver_all_app. cbn [snd]. fold v0. rewrite Hc2. cbn [andb deliver_all].
           unfold deliver. cbn [fst snd]. rewrite !andb_true_r. apply negb_true_iff. apply HIs.
        -- rewrite deliver_all_app. cbn [fst]. fold v0. cbn [deliver_all]. unfold deliver. cbn [fst snd]. exact HIs.
        -- unfold rskip. cbn [back]. exact Hb2.
    + rewrite Erest. apply orb_false_iff in Hst. tauto.
Qed.

Lemma linv_init : forall o h w, oracle_ok o ->
  LInv o h w (rnew h w false) 0 (blank_screen h w) [] (blank_surface h w).
Proof.
  intros o h w Hok. constructor; simpl; auto.
  - unfold blank_screen. apply scr_ok_mk. apply gdims_gmake.
  - apply hinv_init. exact Hok.
  - fold (blank_surface h w). rewrite blank_resolved. reflexivity.
Qed.
