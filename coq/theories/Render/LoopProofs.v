(* Render/LoopProofs.v — the render loop with a queue that drops whole chunks: every delivered frame
   is displayed right, up to the placements a stale drop left behind (class DroppedImageErase);
   exactly, as long as no drop is stale. *)
From Coq Require Import List NArith Bool Arith Lia.
From SNT Require Import Render.Cell Render.Screen Render.Frame Render.Domain Render.GridLemmas
  Render.ScreenProofs Render.PaintProofs Render.ExecProofs Render.Den Render.FrameTheorem Render.ShowProofs
  Render.DomainProofs Render.Spec Render.HistoryProofs Render.ResumeProofs Render.Loop.
Import ListNotations.

Lemma exec_sync : forall o s cs, exec_list o s ([CSync true] ++ cs ++ [CSync false]) = exec_list o s cs.
Proof.
  intros. rewrite exec_list_app. rewrite exec_list_cons, exec_list_nil. cbn [exec].
  rewrite exec_list_app, exec_list_cons, exec_list_nil. reflexivity.
Qed.

(* ---------- delivering chunks ---------- *)
Lemma deliver_all_app : forall o h w q1 q2 scr,
  deliver_all o h w scr (q1 ++ q2) =
  (fst (deliver_all o h w (fst (deliver_all o h w scr q1)) q2),
   snd (deliver_all o h w scr q1) && snd (deliver_all o h w (fst (deliver_all o h w scr q1)) q2)).
Proof.
  intros o h w. induction q1 as [|c q1 IH]; intros q2 scr; cbn [app deliver_all].
  - simpl. destruct (deliver_all o h w scr q2). reflexivity.
  - destruct (deliver o h w scr c) as [scr1 ok1] eqn:E1. rewrite IH.
    destruct (deliver_all o h w scr1 q1) as [scr2 ok2]. cbn [fst snd].
    destruct (deliver_all o h w scr2 q2) as [scr3 ok3]. cbn [fst snd]. rewrite andb_assoc. reflexivity.
Qed.

Lemma deliver_all_split : forall o h w n q scr,
  deliver_all o h w scr q =
  (fst (deliver_all o h w (fst (deliver_all o h w scr (firstn n q))) (skipn n q)),
   snd (deliver_all o h w scr (firstn n q))
   && snd (deliver_all o h w (fst (deliver_all o h w scr (firstn n q))) (skipn n q))).
Proof. intros. rewrite <- deliver_all_app, firstn_skipn. reflexivity. Qed.

Lemma deliver_all_scr_ok : forall o h w q scr,
  scr_ok scr h w -> snd (deliver_all o h w scr q) = true -> scr_ok (fst (deliver_all o h w scr q)) h w.
Proof.
  intros o h w. induction q as [|c q IH]; intros scr Hs Hok; cbn [deliver_all] in *; auto.
  unfold deliver in *. destruct (deliver_all o h w (exec_list o scr (fst c)) q) as [s2 ok2] eqn:E.
  cbn [fst snd] in *. apply andb_true_iff in Hok. destruct Hok as [H1 H2].
  apply andb_true_iff in H1. destruct H1 as [H1 _]. apply negb_true_iff in H1.
  pose proof (IH (exec_list o scr (fst c)) (exec_list_scr_ok o _ scr h w Hs H1)) as IH'.
  rewrite E in IH'. apply IH'. exact H2.
Qed.

(* ---------- clear() on a terminal in any state ---------- *)
Lemma is_img_at_cell : forall s i r c, is_img_at s (i, r, c) = true <-> img_cell s i r c.
Proof.
  intros s i r c. unfold is_img_at, img_cell. split.
  - intros H. destruct (gget s r c) as [x|] eqn:E; [|discriminate].
    destruct (ckind x) as [ch|j|g] eqn:K; try discriminate.
    apply N.eqb_eq in H. subst. eauto.
  - intros (x & -> & ->). apply N.eqb_refl.
Qed.

Lemma hinv_weaken : forall o h w r v E E',
  (forall p, In p E -> In p E') -> HInv o h w r v E -> HInv o h w r v E'.
Proof.
  intros o h w r v E E' Hsub HI. pose proof (hi_pl_hi _ _ _ _ _ _ HI) as Hhi. destruct HI. constructor; auto.
  intros i rr cc Hin. destruct (Hhi i rr cc Hin); auto.
Qed.

(* what the terminal still places after the commands of clear(): nothing of the back buffer *)
Lemma hinv_clear_any : forall o h w r scr E, oracle_ok o ->
  rh r = h -> rw r = w -> scr_ok scr h w ->
  (forall i rr cc, In (i, rr, cc) (places scr) -> ~ img_cell (back r) i rr cc -> In (i, rr, cc) E) ->
  let scr' := exec_list o scr (fst (rclear r)) in
  HInv o h w (snd (rclear r)) scr' E.
Proof.
  intros o h w r scr E Hok Hh Hw Hs Hpl. cbv zeta.
  destruct (rclear_cmds r) as [Hall Hiff].
  destruct (exec_image_erases o h w (fst (rclear r)) scr Hs Hall) as (Hs' & Hg & Hp).
  rewrite rclear_state, Hh, Hw.
  apply (hinv_weaken o h w _ _ (places (exec_list o scr (fst (rclear r))))).
  - intros [[i rr] cc] Hin. apply Hp in Hin. destruct Hin as [Hin Hne].
    apply Hpl; auto. intros Hb. apply Hne. apply Hiff. exact Hb.
  - apply hinv_fresh; auto.
Qed.

(* ---------- the invariant of the loop ---------- *)
Record LInv (o : oracle) (h w : nat) (r : rstate) (npend : nat) (scr : screen) (q : list chunk)
       (E : list placement) (last : grid cell) : Prop := {
  li_scr : scr_ok scr h w;
  li_len : npend = length q;
  li_chain : snd (deliver_all o h w scr q) = true;          (* every pending chunk will be displayed right *)
  li_sync : HInv o h w r (fst (deliver_all o h w scr q)) E; (* the renderer is in sync with the screen once
                                                               everything pending has been delivered, up to
                                                               the leftovers E of the last stale drop *)
  li_back : back r = gmap (resolve o) last }.

Definition good_iters (o : oracle) (h w : nat) (its : list iter) : Prop :=
  Forall (fun it => good_surface o h w (it_draw it)) its.

Lemma frame_chunk : forall o h w r v E cc, oracle_ok o ->
  HInv o h w r v E ->
  let c := (cc ++ [CSync true] ++ fst (frame o r) ++ [CSync false], Some (front r, E)) in
  forall v0, exec_list o v0 cc = v ->
  snd (deliver o h w v0 c) = true
  /\ HInv o h w (snd (frame o r)) (fst (deliver o h w v0 c)) E.
Proof.
  intros o h w r v E cc Hok HI c v0 Hv. unfold deliver, c. cbn [fst snd].
  rewrite exec_list_app, Hv, exec_sync.
  destruct (hinv_frame o h w r v E Hok HI) as (HI' & _).
  split; auto. rewrite (frame_shows_upto o h w r v E Hok HI), andb_true_r.
  apply negb_true_iff. apply HI'.
Qed.

Theorem render_loop_correct : forall o h w its r npend scr q E last, oracle_ok o ->
  LInv o h w r npend scr q E last -> good_iters o h w its ->
  fst (loop_spec o h w false scr q E last its (loop_model o r npend its)) = true.
Proof.
  intros o h w. induction its as [|it its IH]; intros r npend scr q E last Hok HL Hgood.
  { simpl. apply HL. }
  inversion Hgood as [|? ? Hg Hgood']; subst.
  pose proof Hok as (Hsp & Hfs & Hlaw).
  cbn [loop_model loop_spec] in *.
  set (n := Nat.min (it_accept it) (length q)) in *.
  (* poll: the tty takes n chunks *)
  pose proof (deliver_all_split o h w n q scr) as Hsplit.
  destruct (deliver_all o h w scr (firstn n q)) as [scr1 ok1] eqn:E1. cbn [fst snd] in Hsplit.
  pose proof (li_chain _ _ _ _ _ _ _ _ _ HL) as Hchain. rewrite Hsplit in Hchain. cbn [snd] in Hchain.
  apply andb_true_iff in Hchain. destruct Hchain as [Hok1 Hchain1]. subst ok1.
  assert (Hs1 : scr_ok scr1 h w).
  { pose proof (deliver_all_scr_ok o h w (firstn n q) scr (li_scr _ _ _ _ _ _ _ _ _ HL)) as H.
    rewrite E1 in H. apply H. reflexivity. }
  set (q1 := skipn n q) in *.
  assert (HV : fst (deliver_all o h w scr1 q1) = fst (deliver_all o h w scr q)) by (rewrite Hsplit; reflexivity).
  assert (Hnp : npend - Nat.min (it_accept it) npend = length q1).
  { unfold q1, n. rewrite skipn_length, (li_len _ _ _ _ _ _ _ _ _ HL). reflexivity. }
  rewrite Hnp in *.
  pose proof (li_sync _ _ _ _ _ _ _ _ _ HL) as HI. rewrite <- HV in HI.
  set (fp := match it_pending it with Some k => k | None => length q1 end) in *.
  set (drop := terminal_frames_drop <? fp) in *.
  set (cc := if drop then fst (rclear r) else []) in *.
  set (r1 := if drop then snd (rclear r) else r) in *.
  set (q2 := if drop then firstn (it_keep it) q1 else q1) in *.
  set (last0 := if drop then gmake h w cell_default else last).
  set (last1 := if drop || it_resize it then gmake h w cell_default else last) in *.
  set (np2 := if drop then Nat.min (it_keep it) (length q1) else length q1) in *.
  set (sp := if drop then stale_places o h w scr1 q2 last else []) in *.
  set (E2 := if drop then sp else E) in *.
  (* after the (possible) drop and clear *)
  assert (Hphase : snd (deliver_all o h w scr1 q2) = true
                   /\ np2 = length q2
                   /\ HInv o h w r1 (exec_list o (fst (deliver_all o h w scr1 q2)) cc) E2
                   /\ back r1 = gmap (resolve o) last0).
  { unfold sp, E2, q2, np2, r1, cc, last0 in *. destruct drop.
    - assert (Hc2 : snd (deliver_all o h w scr1 (firstn (it_keep it) q1)) = true).
      { pose proof (deliver_all_split o h w (it_keep it) q1 scr1) as H.
        rewrite H in Hchain1. cbn [snd] in Hchain1. apply andb_true_iff in Hchain1. tauto. }
      set (v' := fst (deliver_all o h w scr1 (firstn (it_keep it) q1))) in *.
      assert (Hsv : scr_ok v' h w) by (apply deliver_all_scr_ok; auto).
      split; [exact Hc2|]. split; [rewrite firstn_length; reflexivity|]. split.
      + apply (hinv_clear_any o h w r v'); auto.
        * apply HI.
        * apply HI.
        * intros i rr cc0 Hin Hne. unfold stale_places. fold v'. apply filter_In. split; [exact Hin|].
          apply negb_true_iff. destruct (is_img_at (gmap (resolve o) last) (i, rr, cc0)) eqn:Ei; auto.
          exfalso. apply Hne. rewrite (li_back _ _ _ _ _ _ _ _ _ HL). apply is_img_at_cell. exact Ei.
      + rewrite rclear_state. cbn [rnew back]. rewrite (hi_h _ _ _ _ _ _ HI), (hi_w _ _ _ _ _ _ HI).
        fold (blank_surface h w). rewrite blank_resolved. reflexivity.
    - split; [exact Hchain1|]. split; [reflexivity|]. split.
      + rewrite exec_list_nil. exact HI.
      + apply HL. }
  destruct Hphase as (Hc2 & Hnp2 & HI0 & Hb0).
  set (v0 := fst (deliver_all o h w scr1 q2)) in *.
  (* a Resize event: clear() once more, a new renderer that repaints everything *)
  set (cc2 := if it_resize it then cc ++ fst (rclear r1) else cc) in *.
  set (r1b := if it_resize it then rnew (rh r1) (rw r1) true else r1) in *.
  assert (Hres : HInv o h w r1b (exec_list o v0 cc2) E2 /\ back r1b = gmap (resolve o) last1).
  { unfold cc2, r1b, last1. destruct (it_resize it).
    - rewrite orb_true_r. split.
      + pose proof (hinv_step o h w r1 _ E2 Renew Hok HI0 I) as H. cbn [step_size fst snd rstep screen_step] in H.
        rewrite exec_list_app. exact H.
      + cbn [rnew back]. rewrite (hi_h _ _ _ _ _ _ HI0), (hi_w _ _ _ _ _ _ HI0).
        fold (blank_surface h w). rewrite blank_resolved. reflexivity.
    - rewrite orb_false_r. split; [exact HI0|]. exact Hb0. }
  destruct Hres as [HI1 Hb1].
  destruct (hinv_draw o h w r1b _ E2 (it_draw it) HI1 Hg) as [HI2 Hf2].
  set (r2 := rdraw r1b (it_draw it)) in *.
  assert (Hb2 : back r2 = gmap (resolve o) last1).
  { unfold r2, rdraw. destruct (grid_dims (it_draw it) (rh r1b) (rw r1b)); simpl; exact Hb1. }
  destruct (it_action it).
  - (* a frame *)
    destruct (frame_chunk o h w r2 _ E2 cc2 Hok HI2 v0 eq_refl) as [Hck HIn]. rewrite Hf2 in Hck, HIn.
    fold q2. fold sp. fold E2.
    match goal with |- fst (let '(_, _) := ?X in _) = true => destruct X as [ok st] eqn:Erest end.
    cbn [fst snd] in *. cbn [andb].
    replace ok with (fst (ok, st)) by reflexivity. rewrite <- Erest.
    apply IH; auto.
    constructor.
    + exact Hs1.
    + rewrite app_length. cbn [length]. lia.
    + rewrite deliver_all_app. cbn [snd]. fold v0. rewrite Hc2. cbn [andb deliver_all].
      destruct (deliver o h w v0 _) as [s2 k2] eqn:Ed. cbn [snd] in *. rewrite Hck. reflexivity.
    + rewrite deliver_all_app. cbn [fst]. fold v0. cbn [deliver_all].
      destruct (deliver o h w v0 _) as [s2 k2] eqn:Ed. cbn [fst] in *. exact HIn.
    + destruct (hinv_frame o h w r2 _ E2 Hok HI2) as (_ & _ & Hbk & _). rewrite Hbk, Hf2. reflexivity.
  - (* WaitNoFrame: the drawing is dropped; the chunk holds at most the commands of clear() *)
    destruct (hinv_skip o h w r2 _ E2 Hok HI2) as [HIs _].
    fold q2. fold sp. fold E2. fold last1.
    match goal with |- fst (let '(_, _) := ?X in _) = true => destruct X as [ok st] eqn:Erest end.
    cbn [fst snd] in *. cbn [andb].
    replace ok with (fst (ok, st)) by reflexivity. rewrite <- Erest.
    apply IH; auto.
    destruct cc2 as [|c0 cc'] eqn:Ecc; cbn [is_nil] in *.
    + rewrite exec_list_nil in HIs. constructor; auto.
    + constructor.
      * exact Hs1.
      * rewrite app_length. cbn [length]. lia.
      * rewrite deliver_all_app. cbn [snd]. fold v0. rewrite Hc2. cbn [andb deliver_all].
        unfold deliver. cbn [fst snd]. rewrite !andb_true_r. apply negb_true_iff. apply HIs.
      * rewrite deliver_all_app. cbn [fst]. fold v0. cbn [deliver_all]. unfold deliver. cbn [fst snd]. exact HIs.
      * unfold rskip. cbn [back]. exact Hb2.
Qed.

Lemma linv_init : forall o h w, oracle_ok o ->
  LInv o h w (rnew h w false) 0 (blank_screen h w) [] [] (blank_surface h w).
Proof.
  intros o h w Hok. constructor; simpl; auto.
  - unfold blank_screen. apply scr_ok_mk. apply gdims_gmake.
  - apply hinv_init. exact Hok.
  - fold (blank_surface h w). rewrite blank_resolved. reflexivity.
Qed.

(* ---------- without a stale drop nothing is tolerated: the strict verdict is the tolerant one ---------- *)
Lemma loop_spec_strict : forall o h w its out scr q last,
  snd (loop_spec o h w true scr q [] last its out) = false ->
  loop_spec o h w true scr q [] last its out = loop_spec o h w false scr q [] last its out.
Proof.
  intros o h w. induction its as [|it its IH]; intros out scr q last Hst; destruct out as [|[dropped cs] out];
    try reflexivity.
  cbn [loop_spec] in *.
  destruct (deliver_all o h w scr (firstn (Nat.min (it_accept it) (length q)) q)) as [scr1 ok1].
  set (q1 := skipn (Nat.min (it_accept it) (length q)) q) in *.
  set (q2 := if dropped then firstn (it_keep it) q1 else q1) in *.
  set (sp := if dropped then stale_places o h w scr1 q2 last else []) in *.
  assert (Hsp : sp = []).
  { destruct (it_action it);
      match type of Hst with snd (let '(_, _) := ?X in _) = false => destruct X end;
      cbn [snd] in Hst; apply orb_false_iff in Hst; destruct Hst as [Hs _];
      apply negb_false_iff in Hs; destruct sp; [reflexivity|discriminate|reflexivity|discriminate]. }
  rewrite Hsp in *. cbn [is_nil negb orb] in *.
  assert (HE : (if dropped then [] else []) = (@nil placement)) by (destruct dropped; reflexivity).
  rewrite HE in *.
  destruct (it_action it).
  - rewrite IH; [reflexivity|].
    match type of Hst with snd (let '(_, _) := ?X in _) = false => destruct X end. exact Hst.
  - rewrite IH; [reflexivity|].
    match type of Hst with snd (let '(_, _) := ?X in _) = false => destruct X end. exact Hst.
Qed.
