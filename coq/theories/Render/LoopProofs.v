(* Render/LoopProofs.v — the render loop with a queue that drops whole chunks: every delivered frame
   is displayed right, as long as no drop leaves a stale image (class DroppedImageErase). *)
From Coq Require Import List NArith Bool Arith Lia.
From SNT Require Import Render.Cell Render.Screen Render.Frame Render.Domain Render.GridLemmas
  Render.ScreenProofs Render.PaintProofs Render.ExecProofs Render.Den Render.FrameTheorem Render.ShowProofs
  Render.DomainProofs Render.Spec Render.HistoryProofs Render.Loop.
Import ListNotations.

(* ---------- executing commands keeps the screen a screen ---------- *)
Lemma exec_dims : forall o s c h w,
  sh s = h -> sw s = w -> gdims (sgrid s) h w ->
  sh (exec o s c) = h /\ sw (exec o s c) = w /\ gdims (sgrid (exec o s c)) h w.
Proof.
  intros o s c h w Hh Hw Hd. destruct c as [ch|f|r c|n|i r c|i [[r c]|]|b|]; simpl; auto.
  - destruct (cur s) as [r c].
    destruct (((cw o ch =? 1) || (cw o ch =? 2)) && (c + cw o ch <=? sw s) && (r <? sh s)); simpl; auto.
    split; [auto|split; [auto|]]. apply gdims_on_row; auto. intros. apply put_char_length.
  - destruct (c <? sw s); simpl; auto.
  - destruct (cur s) as [r c].
    destruct ((0 <? n) && (c <? sw s) && (r <? sh s)); simpl; auto.
    split; [auto|split; [auto|]]. apply gdims_on_row; auto. intros. apply erase_cells_length.
  - destruct (place_mem (i, r, c) (places s)); simpl; auto.
Qed.

Lemma exec_list_dims : forall o l s h w,
  sh s = h -> sw s = w -> gdims (sgrid s) h w ->
  sh (exec_list o s l) = h /\ sw (exec_list o s l) = w /\ gdims (sgrid (exec_list o s l)) h w.
Proof.
  intros o. induction l as [|c l IH]; intros s h w Hh Hw Hd.
  - rewrite exec_list_nil. auto.
  - rewrite exec_list_cons. destruct (exec_dims o s c h w Hh Hw Hd) as (H1 & H2 & H3). apply IH; auto.
Qed.

Lemma exec_list_scr_ok : forall o l s h w,
  scr_ok s h w -> err (exec_list o s l) = false -> scr_ok (exec_list o s l) h w.
Proof.
  intros o l s h w (Hh & Hw & _ & Hd) He.
  destruct (exec_list_dims o l s h w Hh Hw Hd) as (H1 & H2 & H3). unfold scr_ok. auto.
Qed.

Lemma exec_sync : forall o s cs, exec_list o s ([CSync true] ++ cs ++ [CSync false]) = exec_list o s cs.
Proof.
  intros. rewrite exec_list_app. rewrite exec_list_cons, exec_list_nil. cbn [exec].
  rewrite exec_list_app, exec_list_cons, exec_list_nil. reflexivity.
Qed.

(* ---------- delivering chunks ---------- *)
Lemma deliver_all_app : forall o h w q1 q2 scr,
  deliver_all o h w scr (q1 ++ q2) =
  (fst (deliver_all o h w (fst (deliver_all o h w scr q1)) q2),
   snd (deliver_all o h w scr q1) && snd (deliver_all o h w (fst (deliver_all o h w scr q1)) q2)).
Proof.
  intros o h w. induction q1 as [|c q1 IH]; intros q2 scr; cbn [app deliver_all].
  - simpl. destruct (deliver_all o h w scr q2). reflexivity.
  - destruct (deliver o h w scr c) as [scr1 ok1] eqn:E1. rewrite IH.
    destruct (deliver_all o h w scr1 q1) as [scr2 ok2]. cbn [fst snd].
    destruct (deliver_all o h w scr2 q2) as [scr3 ok3]. cbn [fst snd]. rewrite andb_assoc. reflexivity.
Qed.

Lemma deliver_all_split : forall o h w n q scr,
  deliver_all o h w scr q =
  (fst (deliver_all o h w (fst (deliver_all o h w scr (firstn n q))) (skipn n q)),
   snd (deliver_all o h w scr (firstn n q))
   && snd (deliver_all o h w (fst (deliver_all o h w scr (firstn n q))) (skipn n q))).
Proof. intros. rewrite <- deliver_all_app, firstn_skipn. reflexivity. Qed.

Lemma deliver_all_scr_ok : forall o h w q scr,
  scr_ok scr h w -> snd (deliver_all o h w scr q) = true -> scr_ok (fst (deliver_all o h w scr q)) h w.
Proof.
  intros o h w. induction q as [|c q IH]; intros scr Hs Hok; cbn [deliver_all] in *; auto.
  unfold deliver in *. destruct (deliver_all o h w (exec_list o scr (fst c)) q) as [s2 ok2] eqn:E.
  cbn [fst snd] in *. apply andb_true_iff in Hok. destruct Hok as [H1 H2].
  apply andb_true_iff in H1. destruct H1 as [H1 _]. apply negb_true_iff in H1.
  pose proof (IH (exec_list o scr (fst c)) (exec_list_scr_ok o _ scr h w Hs H1)) as IH'.
  rewrite E in IH'. apply IH'. exact H2.
Qed.

(* ---------- clear() on a terminal in any state whose placements the renderer knows ---------- *)
Lemma hinv_clear_any : forall o h w r v scr, oracle_ok o ->
  HInv o h w r v -> scr_ok scr h w ->
  (forall i rr cc, In (i, rr, cc) (places scr) -> img_cell (back r) i rr cc) ->
  let scr' := exec_list o scr (fst (rclear r)) in
  HInv o h w (snd (rclear r)) scr'.
Proof.
  intros o h w r v scr Hok HI Hs Hpl. pose proof Hok as (Hsp & Hfs & Hlaw). cbv zeta.
  destruct (rclear_cmds r) as [Hall Hiff].
  destruct (exec_image_erases o h w (fst (rclear r)) scr Hs Hall) as (Hs' & Hg & Hp).
  rewrite rclear_state, (hi_h _ _ _ _ _ HI), (hi_w _ _ _ _ _ HI).
  constructor; simpl; auto.
  - apply HI.
  - apply HI.
  - apply good_blank. auto.
  - exists MDamaged. split; auto.
  - intros i rr cc. rewrite Hp. split.
    + intros [Hin Hne]. exfalso. apply Hne. apply Hiff. apply Hpl. exact Hin.
    + intros H. exfalso. eapply img_cell_blank; eauto.
Qed.

Lemma is_img_at_cell : forall s i r c, is_img_at s (i, r, c) = true -> img_cell s i r c.
Proof.
  intros s i r c H. unfold is_img_at in H. unfold img_cell.
  destruct (gget s r c) as [x|] eqn:E; [|discriminate].
  destruct (ckind x) as [ch|j|g] eqn:K; try discriminate.
  apply N.eqb_eq in H. subst. eauto.
Qed.

(* ---------- the invariant of the loop ---------- *)
Record LInv (o : oracle) (h w : nat) (r : rstate) (npend : nat) (scr : screen) (q : list chunk)
       (last : grid cell) : Prop := {
  li_scr : scr_ok scr h w;
  li_len : npend = length q;
  li_chain : snd (deliver_all o h w scr q) = true;          (* every pending chunk will be displayed right *)
  li_sync : HInv o h w r (fst (deliver_all o h w scr q));   (* the renderer is in sync with the screen once
                                                               everything pending has been delivered *)
  li_back : back r = gmap (resolve o) last }.

Definition good_iters (o : oracle) (h w : nat) (its : list iter) : Prop :=
  Forall (fun it => good_surface o h w (it_draw it)) its.

Lemma frame_chunk : forall o h w r v cc, oracle_ok o ->
  HInv o h w r v ->
  let c := (cc ++ [CSync true] ++ fst (frame o r) ++ [CSync false], front r) in
  forall v0, exec_list o v0 cc = v ->
  snd (deliver o h w v0 c) = true
  /\ HInv o h w (snd (frame o r)) (fst (deliver o h w v0 c)).
Proof.
  intros o h w r v cc Hok HI c v0 Hv. unfold deliver, c. cbn [fst snd].
  rewrite exec_list_app, Hv, exec_sync.
  destruct (hinv_frame o h w r v Hok HI) as (HI' & _).
  split; auto. rewrite (frame_shows o h w r v Hok HI), andb_true_r.
  apply negb_true_iff. apply HI'.
Qed.

Theorem render_loop_correct : forall o h w its r npend scr q last, oracle_ok o ->
  LInv o h w r npend scr q last -> good_iters o h w its ->
  snd (loop_spec o h w scr q last its (loop_model o r npend its)) = false ->
  fst (loop_spec o h w scr q last its (loop_model o r npend its)) = true.
Proof.
  intros o h w. induction its as [|it its IH]; intros r npend scr q last Hok HL Hgood Hst.
  { simpl. apply HL. }
  inversion Hgood as [|? ? Hg Hgood']; subst.
  pose proof Hok as (Hsp & Hfs & Hlaw).
  cbn [loop_model loop_spec] in *.
  set (n := Nat.min (it_accept it) (length q)) in *.
  (* poll: the tty takes n chunks *)
  pose proof (deliver_all_split o h w n q scr) as Hsplit.
  destruct (deliver_all o h w scr (firstn n q)) as [scr1 ok1] eqn:E1. cbn [fst snd] in Hsplit.
  pose proof (li_chain _ _ _ _ _ _ _ _ HL) as Hchain. rewrite Hsplit in Hchain. cbn [snd] in Hchain.
  apply andb_true_iff in Hchain. destruct Hchain as [Hok1 Hchain1]. subst ok1.
  assert (Hs1 : scr_ok scr1 h w).
  { pose proof (deliver_all_scr_ok o h w (firstn n q) scr (li_scr _ _ _ _ _ _ _ _ HL)) as H.
    rewrite E1 in H. apply H. reflexivity. }
  set (q1 := skipn n q) in *.
  assert (HV : fst (deliver_all o h w scr1 q1) = fst (deliver_all o h w scr q)) by (rewrite Hsplit; reflexivity).
  assert (Hnp : npend - Nat.min (it_accept it) npend = length q1).
  { unfold q1, n. rewrite skipn_length, (li_len _ _ _ _ _ _ _ _ HL). reflexivity. }
  rewrite Hnp in *.
  pose proof (li_sync _ _ _ _ _ _ _ _ HL) as HI. rewrite <- HV in HI.
  destruct (hinv_draw o h w r _ (it_draw it) HI Hg) as [HI0 Hf0].
  set (r0 := rdraw r (it_draw it)) in *.
  assert (Hb0 : back r0 = gmap (resolve o) last).
  { unfold r0, rdraw. destruct (grid_dims (it_draw it) (rh r) (rw r)); simpl; apply HL. }
  destruct (it_action it).
  - (* a frame *)
    set (fp := match it_pending it with Some k => k | None => length q1 end) in *.
    destruct (terminal_frames_drop <? fp) eqn:Edrop.
    + (* frames_drop; clear; frame *)
      set (q2 := firstn (it_keep it) q1) in *.
      destruct (loop_spec o h w scr1 (q2 ++ [(fst (rclear r0) ++ [CSync true] ++ fst (frame o (snd (rclear r0))) ++ [CSync false], it_draw it)])
                          (it_draw it) its
                          (loop_model o (snd (frame o (snd (rclear r0)))) (S (Nat.min (it_keep it) (length q1))) its))
        as [ok st] eqn:Erest.
      cbn [fst snd] in *. apply orb_false_iff in Hst. destruct Hst as [Hstale Hst].
      assert (Hc2 : snd (deliver_all o h w scr1 q2) = true).
      { pose proof (deliver_all_split o h w (it_keep it) q1 scr1) as H. fold q2 in H.
        rewrite H in Hchain1. cbn [snd] in Hchain1. apply andb_true_iff in Hchain1. tauto. }
      set (v' := fst (deliver_all o h w scr1 q2)) in *.
      assert (Hsv : scr_ok v' h w) by (apply deliver_all_scr_ok; auto).
      assert (Hpl : forall i rr cc, In (i, rr, cc) (places v') -> img_cell (back r0) i rr cc).
      { intros i rr cc Hin. unfold stale_after_drop in Hstale. apply negb_false_iff in Hstale.
        rewrite forallb_forall in Hstale. fold v' in Hstale. rewrite Hb0.
        apply is_img_at_cell. apply Hstale. exact Hin. }
      pose proof (hinv_clear_any o h w r0 _ v' Hok HI0 Hsv Hpl) as HIc.
      assert (Hfc : front (snd (rclear r0)) = it_draw it) by (rewrite rclear_state; exact Hf0).
      destruct (frame_chunk o h w (snd (rclear r0)) _ (fst (rclear r0)) Hok HIc v' eq_refl) as [Hck HIn].
      rewrite Hfc in Hck, HIn.
      cbn [andb].
      replace ok with (fst (ok, st)) by reflexivity. rewrite <- Erest.
      apply IH; auto.
      * constructor.
        -- exact Hs1.
        -- rewrite app_length. unfold q2. rewrite firstn_length. simpl. lia.
        -- rewrite deliver_all_app. cbn [snd]. fold v'. rewrite Hc2. cbn [andb deliver_all].
           destruct (deliver o h w v' _) as [s2 k2] eqn:Ed. cbn [snd] in *. rewrite Hck. reflexivity.
        -- rewrite deliver_all_app. cbn [fst]. fold v'. cbn [deliver_all].
           destruct (deliver o h w v' _) as [s2 k2] eqn:Ed. cbn [fst] in *. exact HIn.
        -- destruct (hinv_frame o h w (snd (rclear r0)) _ Hok HIc) as (_ & _ & Hbk & _). rewrite Hbk, Hfc. reflexivity.
      * rewrite Erest. exact Hst.
    + (* a plain frame *)
      destruct (loop_spec o h w scr1 (q1 ++ [([] ++ [CSync true] ++ fst (frame o r0) ++ [CSync false], it_draw it)])
                          (it_draw it) its (loop_model o (snd (frame o r0)) (S (length q1)) its))
        as [ok st] eqn:Erest.
      cbn [fst snd orb] in *.
      set (v := fst (deliver_all o h w scr1 q1)) in *.
      destruct (frame_chunk o h w r0 v [] Hok HI0 v eq_refl) as [Hck HIn].
      rewrite Hf0 in Hck, HIn.
      cbn [andb].
      replace ok with (fst (ok, st)) by reflexivity. rewrite <- Erest.
      apply IH; auto.
      * constructor.
        -- exact Hs1.
        -- rewrite app_length. simpl. lia.
        -- rewrite deliver_all_app. cbn [snd]. fold v. rewrite Hchain1. cbn [andb deliver_all].
           destruct (deliver o h w v _) as [s2 k2] eqn:Ed. cbn [snd] in *. rewrite Hck. reflexivity.
        -- rewrite deliver_all_app. cbn [fst]. fold v. cbn [deliver_all].
           destruct (deliver o h w v _) as [s2 k2] eqn:Ed. cbn [fst] in *. exact HIn.
        -- destruct (hinv_frame o h w r0 v Hok HI0) as (_ & _ & Hbk & _). rewrite Hbk, Hf0. reflexivity.
      * rewrite Erest. exact Hst.
  - (* WaitNoFrame: the drawing is dropped *)
    destruct (loop_spec o h w scr1 q1 last its (loop_model o (rskip r0) (length q1) its)) as [ok st] eqn:Erest.
    cbn [fst snd] in *. cbn [andb negb].
    replace ok with (fst (ok, st)) by reflexivity. rewrite <- Erest.
    apply IH; auto.
    + destruct (hinv_skip o h w r0 _ Hok HI0) as [HIs _]. constructor; auto.
    + rewrite Erest. exact Hst.
Qed.

Lemma linv_init : forall o h w, oracle_ok o ->
  LInv o h w (rnew h w false) 0 (blank_screen h w) [] (blank_surface h w).
Proof.
  intros o h w Hok. constructor; simpl; auto.
  - unfold blank_screen. apply scr_ok_mk. apply gdims_gmake.
  - apply hinv_init. exact Hok.
  - fold (blank_surface h w). rewrite blank_resolved. reflexivity.
Qed.
