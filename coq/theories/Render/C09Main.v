(* The statements of C09 in their final form, assembled from WriterFrame (containment),
   WriterChunks (chunk independence), LayoutRender (no lost cell) and the C07 surface layer. *)
From Coq Require Import List Arith Bool NArith ZArith Lia Sorting.Sorted.
From SNT Require Import Base.Outcome Surface.Bounds Surface.BoundsProofs Surface.Shape Surface.ShapeProofs
  Render.CellLayout Render.Writer Render.TokFuel Render.WriterTty Render.WriterFrame Render.WriterChunks Render.LayoutFacts Render.LayoutRender
  Render.TextView.
Import ListNotations.
Local Arguments Nat.modulo : simpl never.
Local Arguments Nat.sub : simpl never.
Local Arguments Nat.min : simpl never.
Local Arguments Nat.max : simpl never.
Local Arguments Nat.add : simpl never.

(* ---------- containment ---------- *)
Theorem contained_window ctx H W sh w data ops :
  Rep H W sh w -> H * W <= length data ->
  exists st' flags, wops_run ctx (writer_new sh data) ops = Ok (st', flags) /\
    length (w_data st') = length data /\
    forall k, (forall r c, r < w_h w -> c < w_w w -> root_index W (win_coord w r c) <> k) ->
      nth_error (w_data st') k = nth_error data k.
Proof.
  intros Hrep Hlen. destruct (writer_contained ctx sh data ops) as [Hf Ht].
  destruct (Ht (rep_inbounds _ _ _ _ _ Hrep Hlen)) as (st' & flags & Hrun).
  exists st', flags. split; [exact Hrun|]. destruct (Hf _ _ Hrun) as [Hl Hk]. split; [exact Hl|].
  intros k Hout. apply Hk. intros Hin. destruct (rep_in_view _ _ _ _ _ Hrep Hin) as (r & c & Hr & Hc & E).
  exact (Hout r c Hr Hc E).
Qed.

(* ---------- chunk independence ---------- *)
Theorem chunking_programs ctx sh data ops1 ops2 :
  InBounds sh (length data) -> map merge_op ops1 = map merge_op ops2 ->
  wops_run ctx (writer_new sh data) ops1 = wops_run ctx (writer_new sh data) ops2.
Proof. intros Hb Hm. now apply program_chunking. Qed.

Theorem chunking_midstream ctx st chunks1 chunks2 :
  concat chunks1 = concat chunks2 -> write_chunks ctx st chunks1 = write_chunks ctx st chunks2.
Proof. apply write_chunks_partition. Qed.

(* ---------- no lost cell ---------- *)
(* where the measuring run of Text::layout puts the cells it gives a position to *)
Definition text_places (ctx : rctx) (cells : list ccell) (wraps : bool) (maxw : nat) : list ((nat * nat) * ccell) :=
  placements (snd (lrun maxw wraps l0 (lcells ctx (expand ctx cells)))) (expand ctx cells).

(* what "the cells appear on the surface exactly once, in reading order" means for a list of
   placements pl, a view sh and the slice before / after *)
Definition Appear (sh : shape) (h w : nat) (pl : list ((nat * nat) * ccell)) (before after : list ccell) : Prop :=
  StronglySorted lt_pos (map fst pl) /\
  Forall (fun p => fst p < h /\ snd p < w) (map fst pl) /\
  (forall p c, In (p, c) pl -> nth_error (kinds after) (offset sh (fst p) (snd p)) = Some (c_kind c)) /\
  (forall r c, r < sh_height sh -> c < sh_width sh -> ~ In (r, c) (map fst pl) ->
     nth_error (kinds after) (offset sh r c) = nth_error (kinds before) (offset sh r c)).

Theorem layout_render ctx cells wraps maxw sh data :
  1 <= maxw -> no_cr ctx cells = true ->
  fst (text_size ctx cells wraps maxw) <= sh_height sh ->
  snd (text_size ctx cells wraps maxw) <= sh_width sh -> sh_width sh <= maxw ->
  Good sh (length data) ->
  exists st', put_cells ctx (set_wraps (writer_new sh data) wraps) cells = Ok st' /\
    Frame sh data (w_data st') /\
    Appear sh (fst (text_size ctx cells wraps maxw)) (snd (text_size ctx cells wraps maxw))
           (text_places ctx cells wraps maxw) data (w_data st') /\
    (wraps = true -> map snd (text_places ctx cells wraps maxw) = printables ctx cells) /\
    (wraps = false ->
       map snd (text_places ctx cells wraps maxw) =
         keep_placed (printables ctx cells) (nowrap_place (sh_width sh) (lcells ctx (expand ctx cells)) 0 0) /\
       map fst (text_places ctx cells wraps maxw) =
         somes (nowrap_place (sh_width sh) (lcells ctx (expand ctx cells)) 0 0)).
Proof.
  intros Hm Hcr Hh Hw1 Hw2 Hg.
  destruct (render_follows_layout ctx cells wraps maxw Hm Hcr sh data Hh Hw1 Hw2 Hg)
    as (st' & P & _ & F & S & A & K & O).
  exists st'. split; [exact P|]. split; [exact F|]. split; [repeat split; assumption|]. split.
  - intros Hwr. apply placed_all_when_wrapping. exact Hwr.
  - intros Hwr. split.
    + apply (placed_cells_nowrap ctx cells wraps maxw sh Hw1 Hw2 Hwr).
    + apply (placed_as_nowrap ctx cells wraps maxw sh Hw1 Hw2 Hwr).
Qed.

(* the measured width never exceeds the available width *)
Lemma step_width_bound maxw wr s c s' p : layout_step maxw wr s c = (s', p) ->
  l_c s <= maxw -> l_w s <= maxw -> l_c s' <= maxw /\ l_w s' <= maxw.
Proof.
  unfold layout_step. destruct c as [| | |h w].
  - intros [= <- _]; cbn; lia.
  - intros [= <- _]; cbn; lia.
  - intros [= <- _]; cbn; lia.
  - destruct ((h =? 0) || (w =? 0)); [intros [= <- _]; lia|].
    destruct (l_c s + w <=? maxw) eqn:Hfit; [apply Nat.leb_le in Hfit; intros [= <- _]; cbn; lia|].
    destruct (negb wr); intros [= <- _]; cbn; lia.
Qed.

Lemma lrun_width_bound maxw wr cs : forall s, l_c s <= maxw -> l_w s <= maxw ->
  l_w (fst (lrun maxw wr s cs)) <= maxw.
Proof.
  induction cs as [|c t IH]; intros s Hc Hw; [exact Hw|]. rewrite lrun_cons. cbn [fst].
  destruct (layout_step maxw wr s c) as [s1 p] eqn:H1. cbn [fst].
  destruct (step_width_bound _ _ _ _ _ _ H1 Hc Hw). now apply IH.
Qed.

Lemma text_size_width_le ctx cells wraps maxw : snd (text_size ctx cells wraps maxw) <= maxw.
Proof. unfold text_size. cbn [snd]. apply lrun_width_bound; cbn; lia. Qed.

Lemma clamp_nat_spec v lo hi : lo <= hi -> lo <= clamp_nat v lo hi <= hi /\ (v <= hi -> v <= clamp_nat v lo hi).
Proof.
  intros H. unfold clamp_nat. destruct (v <? lo) eqn:E1; [apply Nat.ltb_lt in E1; lia|].
  apply Nat.ltb_ge in E1. destruct (hi <? v) eqn:E2; [apply Nat.ltb_lt in E2|apply Nat.ltb_ge in E2]; lia.
Qed.

(* Text::layout followed by Text::render, on a view cut out of a canvas by any chain of
   view / transpose operations (plain, offset, strided, transposed), the layout placed at any
   position (pr, pc) by its parent such that the reported rectangle lies inside the view *)
Theorem text_view_layout_render ctx cells wraps minh minw maxh maxw H W sh w data pr pc :
  1 <= maxw -> minh <= maxh -> minw <= maxw -> no_cr ctx cells = true ->
  (Z.of_nat (Nat.max H W) <= i64_max)%Z -> Rep H W sh w -> H * W <= length data ->
  let lay := text_layout ctx cells wraps minh minw maxh maxw in
  fst (text_size ctx cells wraps maxw) <= maxh ->
  0 < fst lay -> pr + fst lay <= sh_height sh -> 0 < snd lay -> pc + snd lay <= sh_width sh ->
  exists st', text_render ctx sh data pr pc (fst lay) (snd lay) cells wraps = Ok st' /\
    Frame sh data (w_data st') /\
    Appear (rect_view sh pr pc (fst lay) (snd lay)) (fst lay) (snd lay) (text_places ctx cells wraps maxw) data (w_data st') /\
    (wraps = true -> map snd (text_places ctx cells wraps maxw) = printables ctx cells) /\
    (wraps = false ->
       map snd (text_places ctx cells wraps maxw) =
         keep_placed (printables ctx cells) (nowrap_place (snd lay) (lcells ctx (expand ctx cells)) 0 0) /\
       map fst (text_places ctx cells wraps maxw) =
         somes (nowrap_place (snd lay) (lcells ctx (expand ctx cells)) 0 0)).
Proof.
  intros Hm Hhh Hww Hcr Hmax Hrep Hlen lay Hfit Hlh0 Hlh Hlw0 Hlw.
  assert (Elay : lay = (clamp_nat (fst (text_size ctx cells wraps maxw)) minh maxh,
                        clamp_nat (snd (text_size ctx cells wraps maxw)) minw maxw)).
  { unfold lay, text_layout. destruct (text_size ctx cells wraps maxw); reflexivity. }
  pose proof (clamp_nat_spec (fst (text_size ctx cells wraps maxw)) minh maxh Hhh) as [_ Hch].
  pose proof (clamp_nat_spec (snd (text_size ctx cells wraps maxw)) minw maxw Hww) as [Hcw1 Hcw2].
  pose proof (text_size_width_le ctx cells wraps maxw) as Hwle.
  set (sub := rect_view sh pr pc (fst lay) (snd lay)).
  destruct (rect_view_dims sh pr pc (fst lay) (snd lay)) as [Eh Ew]. fold sub in Eh, Ew.
  assert (Hgood : Good sub (length data)).
  { apply rect_view_good; [eapply rep_is_good; eauto|lia|lia]. }
  destruct (layout_render ctx cells wraps maxw sub data Hm Hcr) as (st' & P & F & (S & A & K & O) & Wt & Wf).
  { rewrite Eh, Elay. cbn [fst]. apply Hch, Hfit. }
  { rewrite Ew, Elay. cbn [snd]. apply Hcw2, Hwle. }
  { rewrite Ew, Elay. cbn [snd]. lia. }
  { exact Hgood. }
  exists st'. unfold text_render. rewrite (apply_layout_rect H W sh w _ _ _ _ Hmax Hrep Hlh0 Hlh Hlw0 Hlw). fold sub.
  split; [exact P|]. split.
  { eapply frame_weaken; [|exact F]. intros k. apply rect_view_in_view; lia. }
  split.
  { split; [exact S|]. split; [|split; [exact K|exact O]].
    eapply Forall_impl; [|exact A]. intros p [Hp1 Hp2].
    rewrite Elay. cbn [fst snd]. split; [specialize (Hch Hfit)|specialize (Hcw2 Hwle)]; lia. }
  rewrite Ew in Wf. split; assumption.
Qed.
