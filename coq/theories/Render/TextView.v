(* Bridges between the writer theorems and the surface layer of C07/C08: views obtained by
   any chain of view/transpose from a canvas are Good; Layout::apply_to at the origin with
   a size that fits cuts out a Good view of exactly that size lying inside its parent. *)
From Coq Require Import List Arith Bool NArith ZArith Lia Sorting.Sorted.
From SNT Require Import Base.Outcome Surface.Bounds Surface.BoundsProofs Surface.Shape Surface.ShapeProofs
  Render.CellLayout Render.Writer Render.WriterFrame Render.WriterChunks Render.LayoutFacts Render.LayoutRender.
Import ListNotations.

Lemma rep_inbounds H W sh w len : Rep H W sh w -> H * W <= len -> InBounds sh len.
Proof.
  intros Hrep Hlen r c Hr Hc. destruct (rep_good _ _ _ _ Hrep) as [Hb _]. specialize (Hb r c Hr Hc). lia.
Qed.

Lemma rep_is_good H W sh w len : Rep H W sh w -> H * W <= len -> Good sh len.
Proof.
  intros Hrep Hlen. split; [eapply rep_inbounds; eauto|].
  destruct (rep_good _ _ _ _ Hrep) as [_ Hi]. exact Hi.
Qed.

(* a cell of the backing slice that is not a window coordinate is not a cell of the view *)
Lemma rep_in_view H W sh w k : Rep H W sh w -> in_view sh k ->
  exists r c, r < w_h w /\ c < w_w w /\ root_index W (win_coord w r c) = k.
Proof.
  intros Hrep (r & c & Hr & Hc & E). pose proof Hrep as (Hh & Hw & _). rewrite Hh in Hr. rewrite Hw in Hc.
  exists r, c. repeat split; auto. destruct (rep_offset _ _ _ _ r c Hrep Hr Hc) as (<- & _). exact E.
Qed.

(* ---------- Layout::apply_to ---------- *)
Lemma py_resolve_prefix dim n : 0 < n <= dim -> py_resolve dim (Rng 0 (Z.of_nat n)) = Some (0, n).
Proof.
  intros Hn. unfold py_resolve, py_slice, py_bound.
  replace (0 <? 0)%Z with false by reflexivity.
  destruct (Z.of_nat n <? 0)%Z eqn:E1; [apply Z.ltb_lt in E1; lia|].
  replace (Z.min 0 (Z.of_nat dim)) with 0%Z by lia.
  replace (Z.min (Z.of_nat n) (Z.of_nat dim)) with (Z.of_nat n) by lia.
  destruct (0 <? Z.of_nat n)%Z eqn:E2; [|apply Z.ltb_ge in E2; lia].
  rewrite Nat2Z.id. reflexivity.
Qed.

Lemma py_resolve_range dim a n : 0 < n -> a + n <= dim ->
  py_resolve dim (Rng (Z.of_nat a) (Z.of_nat (a + n))) = Some (a, a + n).
Proof.
  intros Hn Hd. unfold py_resolve, py_slice, py_bound.
  destruct (Z.of_nat a <? 0)%Z eqn:E0; [apply Z.ltb_lt in E0; lia|].
  destruct (Z.of_nat (a + n) <? 0)%Z eqn:E1; [apply Z.ltb_lt in E1; lia|].
  replace (Z.min (Z.of_nat a) (Z.of_nat dim)) with (Z.of_nat a) by lia.
  replace (Z.min (Z.of_nat (a + n)) (Z.of_nat dim)) with (Z.of_nat (a + n)) by lia.
  destruct (Z.of_nat a <? Z.of_nat (a + n))%Z eqn:E2; [|apply Z.ltb_ge in E2; lia].
  rewrite !Nat2Z.id. reflexivity.
Qed.

(* the rectangle (pr, pc, lh, lw) of a surface, when it lies inside *)
Definition rect_view (sh : shape) (pr pc lh lw : nat) : shape := view sh (Some (pr, pr + lh)) (Some (pc, pc + lw)).

Lemma apply_layout_rect H W sh w pr pc lh lw :
  (Z.of_nat (Nat.max H W) <= i64_max)%Z -> Rep H W sh w ->
  0 < lh -> pr + lh <= sh_height sh -> 0 < lw -> pc + lw <= sh_width sh ->
  apply_layout sh pr pc lh lw = rect_view sh pr pc lh lw.
Proof.
  intros Hmax Hrep Hh0 Hh Hw0 Hw. unfold apply_layout, rect_view.
  pose proof (rep_dims _ _ _ _ Hrep) as [Hdh Hdw]. pose proof Hrep as (Eh & Ew & _).
  rewrite !resolve_py; try (rewrite ?Eh, ?Ew; lia).
  - rewrite !py_resolve_range by lia. reflexivity.
  - cbn. unfold in_ity. cbn. apply andb_true_iff; split; apply andb_true_iff; split; apply Z.leb_le; unfold i64_max in *; lia.
  - cbn. unfold in_ity. cbn. apply andb_true_iff; split; apply andb_true_iff; split; apply Z.leb_le; unfold i64_max in *; lia.
Qed.

Lemma rect_view_dims sh pr pc lh lw :
  sh_height (rect_view sh pr pc lh lw) = lh /\ sh_width (rect_view sh pr pc lh lw) = lw.
Proof. cbn. lia. Qed.

Lemma rect_view_offset sh pr pc lh lw r c :
  offset (rect_view sh pr pc lh lw) r c = offset sh (pr + r) (pc + c).
Proof. unfold rect_view, offset. cbn. unfold offset. lia. Qed.

Lemma rect_view_in_view sh pr pc lh lw k : pr + lh <= sh_height sh -> pc + lw <= sh_width sh ->
  in_view (rect_view sh pr pc lh lw) k -> in_view sh k.
Proof.
  intros Hh Hw (r & c & Hr & Hc & E). destruct (rect_view_dims sh pr pc lh lw) as [Eh Ew].
  rewrite Eh in Hr. rewrite Ew in Hc. rewrite rect_view_offset in E.
  exists (pr + r), (pc + c). repeat split; auto; lia.
Qed.

Lemma rect_view_good sh pr pc lh lw len : Good sh len -> pr + lh <= sh_height sh -> pc + lw <= sh_width sh ->
  Good (rect_view sh pr pc lh lw) len.
Proof.
  intros [Hb Hi] Hh Hw. destruct (rect_view_dims sh pr pc lh lw) as [Eh Ew]. split.
  - intros r c Hr Hc. rewrite Eh in Hr. rewrite Ew in Hc. rewrite rect_view_offset. apply Hb; lia.
  - intros r c r' c' Hr Hc Hr' Hc' E. rewrite Eh in Hr, Hr'. rewrite Ew in Hc, Hc'.
    rewrite !rect_view_offset in E. destruct (Hi (pr + r) (pc + c) (pr + r') (pc + c')); try lia.
Qed.

Lemma frame_weaken sh sh' d d' : (forall k, in_view sh' k -> in_view sh k) -> Frame sh' d d' -> Frame sh d d'.
Proof. intros Hsub [Hl Hf]. split; auto. Qed.
