(* Render/ShowProofs.v — the naive painter's screen [show] is the cell-by-cell
   denotation [den] of the (glyph-resolved) surface, its placements are the
   surface's images, and it never makes a protocol error. *)
From Coq Require Import List NArith Bool Arith Lia.
From SNT Require Import Render.Cell Render.Screen Render.Frame Render.Domain Render.GridLemmas
  Render.ScreenProofs Render.PaintProofs Render.ExecProofs Render.Den Render.ScanProofs
  Render.FrameSpec Render.FrameProofs.
Import ListNotations.

(* ---------- the painter as a list of paints ---------- *)
Fixpoint naive_row (o : oracle) (r c skip : nat) (cells : list cell) : list paint :=
  match cells with
  | [] => []
  | x :: rest =>
      match skip with
      | S k => naive_row o r (S c) k rest
      | O =>
          match ckind x with
          | KChar ch =>
              match cw o ch with
              | O => naive_row o r (S c) 0 rest
              | S k => PChar r c (cface x) ch :: naive_row o r (S c) k rest
              end
          | _ => naive_row o r (S c) 0 rest
          end
      end
  end.

Definition t0 : tracked := mktracked None None.

Lemma paint_row_naive : forall o cells r c sk,
  paint_row o r c sk cells = flat_map (fun p => fst (emit o t0 p)) (naive_row o r c sk cells).
Proof.
  intros o. induction cells as [|x rest IH]; intros r c sk; simpl; auto.
  destruct sk as [|k]; auto.
  destruct (ckind x) as [ch|i|g]; auto.
  destruct (cw o ch) as [|k]; auto.
  cbn [flat_map]. rewrite IH. reflexivity.
Qed.

Lemma paint_row_resolve : forall o cells r c sk,
  paint_row o r c sk (map (resolve o) cells) = paint_row o r c sk cells.
Proof.
  intros o. induction cells as [|x rest IH]; intros r c sk; simpl; auto.
  destruct sk as [|k]; auto.
  destruct x as [f [ch|i|g]]; simpl; rewrite ?IH; auto.
  destruct (cw o ch); rewrite ?IH; auto.
Qed.

Lemma exec_emit_each : forall o ps s h w,
  cw o space = 1 -> erase_law o -> scr_ok s h w -> Forall (paint_valid o h w) ps ->
  let s' := exec_list o s (flat_map (fun p => fst (emit o t0 p)) ps) in
  scr_ok s' h w /\ sgrid s' = apply_paints o (sgrid s) ps /\ places s' = places s.
Proof.
  intros o. induction ps as [|p ps IH]; intros s h w Hsp Hlaw Hs Hv; cbn [flat_map].
  - rewrite exec_list_nil. auto.
  - inversion Hv; subst. rewrite exec_list_app.
    assert (Hc : consistent t0 s) by (split; simpl; intros; discriminate).
    destruct (exec_emit o s h w t0 p Hsp Hlaw Hs Hc H1) as (Hs1 & Hg1 & Hp1 & _).
    destruct (IH _ h w Hsp Hlaw Hs1 H2) as (Hs2 & Hg2 & Hp2).
    split; auto. split.
    + rewrite Hg2, Hg1. reflexivity.
    + rewrite Hp2, Hp1. reflexivity.
Qed.

(* ---------- the scan of the naive painter ---------- *)
Section NaiveRow.
  Variable o : oracle.
  Variable r : nat.

  Lemma naive_sound : forall cells c0 sk p,
    In p (naive_row o r c0 sk cells) ->
    exists j x ch, sk <= j /\ nth_error cells j = Some x /\ ckind x = KChar ch /\ 1 <= cw o ch
                   /\ p = PChar r (c0 + j) (cface x) ch.
  Proof.
    induction cells as [|x cells IH]; intros c0 sk p Hin; simpl in Hin. contradiction.
    assert (Hshift : forall sk', In p (naive_row o r (S c0) sk' cells) ->
              exists j x' ch, S sk' <= j /\ nth_error (x :: cells) j = Some x' /\ ckind x' = KChar ch
                              /\ 1 <= cw o ch /\ p = PChar r (c0 + j) (cface x') ch).
    { intros sk' H. apply IH in H. destruct H as (j & x' & ch & H1 & H2 & H3 & H4 & H5).
      exists (S j), x', ch. simpl. replace (c0 + S j) with (S c0 + j) by lia. repeat split; auto. lia. }
    destruct sk as [|k].
    - destruct (ckind x) as [ch|i|g] eqn:Ek.
      2,3: apply Hshift in Hin; destruct Hin as (j & x' & ch' & H1 & H2); exists j, x', ch'; (split; [lia|exact H2]).
      destruct (cw o ch) as [|k] eqn:Ew.
      { apply Hshift in Hin. destruct Hin as (j & x' & ch' & H1 & H2). exists j, x', ch'. split; [lia|exact H2]. }
      destruct Hin as [<-|Hin].
      + exists 0, x, ch. simpl. rewrite Nat.add_0_r. repeat split; auto; lia.
      + apply Hshift in Hin. destruct Hin as (j & x' & ch' & H1 & H2). exists j, x', ch'. split; [lia|exact H2].
    - apply Hshift in Hin. destruct Hin as (j & x' & ch' & H1 & H2). exists j, x', ch'. split; [lia|exact H2].
  Qed.

  Lemma naive_chain : forall cells c0 sk, chain o (c0 + sk) (naive_row o r c0 sk cells).
  Proof.
    induction cells as [|x cells IH]; intros c0 sk; simpl. exact I.
    destruct sk as [|k].
    - assert (Hnext : chain o (c0 + 0) (naive_row o r (S c0) 0 cells)).
      { eapply chain_weaken; [|apply IH]. lia. }
      destruct (ckind x) as [ch|i|g]; auto.
      destruct (cw o ch) as [|k] eqn:Ew; auto.
      simpl. split. lia. rewrite Ew. eapply chain_weaken; [|apply IH]. lia.
    - eapply chain_weaken; [|apply IH]. lia.
  Qed.

  Lemma naive_cover : forall cells c0 sk j x ch,
    sk <= j -> nth_error cells j = Some x -> ckind x = KChar ch -> 1 <= cw o ch ->
    exists p, In p (naive_row o r c0 sk cells) /\ pstart p <= c0 + j < pstart p + plen o p.
  Proof.
    induction cells as [|x0 cells IH]; intros c0 sk j x ch Hsk Hn Hk Hw.
    { destruct j; discriminate. }
    simpl.
    assert (Hshift : forall sk' j', j = S j' -> sk' <= j' ->
              exists p, In p (naive_row o r (S c0) sk' cells) /\ pstart p <= c0 + j < pstart p + plen o p).
    { intros sk' j' -> Hle. simpl in Hn.
      destruct (IH (S c0) sk' j' x ch Hle Hn Hk Hw) as (p & Hin & Hr). exists p. split; auto. lia. }
    destruct sk as [|k].
    - destruct j as [|j'].
      + simpl in Hn. inversion Hn; subst. rewrite Hk.
        destruct (cw o ch) as [|k] eqn:Ew; [lia|].
        eexists. split. left. reflexivity. simpl. lia.
      + destruct (ckind x0) as [ch0|i|g] eqn:Ek0.
        2,3: apply (Hshift 0 j'); auto; lia.
        destruct (cw o ch0) as [|k] eqn:Ew0.
        { apply (Hshift 0 j'); auto. lia. }
        destruct (Nat.lt_ge_cases j' k) as [Hlt|Hge].
        * eexists. split. left. reflexivity. simpl. rewrite Ew0. lia.
        * destruct (Hshift k j' eq_refl Hge) as (p & Hin & Hr). exists p. split; auto. right. exact Hin.
    - destruct j as [|j']; [lia|]. apply (Hshift k j'); auto. lia.
  Qed.
End NaiveRow.

(* ---------- all rows ---------- *)
Fixpoint naive_rows (o : oracle) (r : nat) (rows : grid cell) : list paint :=
  match rows with
  | [] => []
  | row :: rest => naive_row o r 0 0 row ++ naive_rows o (S r) rest
  end.

Lemma chars_naive : forall o rows k,
  concat (mapi_from (fun r row => paint_row o r 0 0 row) k rows)
  = flat_map (fun p => fst (emit o t0 p)) (naive_rows o k rows).
Proof.
  intros o. induction rows as [|row rows IH]; intros k; simpl; auto.
  rewrite flat_map_app, IH, paint_row_naive. reflexivity.
Qed.

Lemma in_naive_rows : forall o rows k p,
  In p (naive_rows o k rows) <->
  exists i row, nth_error rows i = Some row /\ In p (naive_row o (k + i) 0 0 row).
Proof.
  intros o. induction rows as [|row rows IH]; intros k p; simpl.
  - split; [tauto|]. intros (i & row & H & _). destruct i; discriminate.
  - rewrite in_app_iff, IH. split.
    + intros [H|(i & row' & H1 & H2)].
      * exists 0, row. rewrite Nat.add_0_r. auto.
      * exists (S i), row'. replace (k + S i) with (S k + i) by lia. auto.
    + intros ([|i] & row' & H1 & H2); simpl in H1.
      * inversion H1; subst. rewrite Nat.add_0_r in H2. auto.
      * right. exists i, row'. replace (S k + i) with (k + S i) by lia. auto.
Qed.

Definition images_row (o : oracle) (r : nat) (cells : list cell) : list (nat * nat * face * N) :=
  concat (mapi (fun c x => match ckind (resolve o x) with
                           | KImg i => [(r, c, cface x, i)]
                           | _ => []
                           end) cells).
Definition images_of (o : oracle) (s : grid cell) : list (nat * nat * face * N) :=
  concat (mapi (images_row o) s).

Lemma flat_map_concat_mapi : forall {A B C} (f : B -> list C) (g : nat -> A -> list B) l k,
  flat_map f (concat (mapi_from g k l)) = concat (mapi_from (fun i x => flat_map f (g i x)) k l).
Proof.
  intros A B C f g. induction l as [|x l IH]; intros k; simpl; auto.
  rewrite flat_map_app, IH. reflexivity.
Qed.

Lemma mapi_from_ext : forall {A B} (f g : nat -> A -> B) l k,
  (forall i x, f i x = g i x) -> mapi_from f k l = mapi_from g k l.
Proof. induction l; intros; simpl; auto. rewrite H, IHl; auto. Qed.

Lemma images_pass3 : forall o s,
  concat (mapi (fun r row => paint_images_row o r row) s) = pass3 o (images_of o s).
Proof.
  intros. unfold pass3, images_of, mapi. rewrite flat_map_concat_mapi. f_equal.
  apply mapi_from_ext. intros r row. unfold paint_images_row, images_row, mapi.
  rewrite flat_map_concat_mapi. f_equal. apply mapi_from_ext. intros c x.
  destruct (ckind (resolve o x)); simpl; auto. rewrite app_nil_r. symmetry. apply image_cmds_paint_image.
Qed.

Lemma in_images_of : forall o s r c f i,
  In (r, c, f, i) (images_of o s) <->
  exists x, gget s r c = Some x /\ ckind (resolve o x) = KImg i /\ cface x = f.
Proof.
  intros. unfold images_of. rewrite in_concat. split.
  - intros (l & Hl & Hin). apply in_mapi in Hl. destruct Hl as (r' & row & Hrow & ->).
    unfold images_row in Hin. apply in_concat in Hin. destruct Hin as (l' & Hl' & Hin).
    apply in_mapi in Hl'. destruct Hl' as (c' & x & Hx & ->).
    destruct (ckind (resolve o x)) as [ch|j|g] eqn:Ek; simpl in Hin; try contradiction.
    destruct Hin as [Heq|[]]. inversion Heq; subst.
    exists x. unfold gget. rewrite Hrow. auto.
  - intros (x & Hx & Hk & Hf). unfold gget in Hx.
    destruct (nth_error s r) as [row|] eqn:Erow; [|discriminate].
    exists (images_row o r row). split.
    + apply in_mapi. exists r, row. auto.
    + unfold images_row. apply in_concat.
      exists (match ckind (resolve o x) with KImg i0 => [(r, c, cface x, i0)] | _ => [] end). split.
      * apply in_mapi. exists c, x. auto.
      * rewrite Hk. subst. left. reflexivity.
Qed.

Lemma resolve_face : forall o x, cface (resolve o x) = cface x.
Proof. intros o [f [ch|i|g]]; reflexivity. Qed.

Lemma resolve_char : forall o x ch, ckind x = KChar ch -> resolve o x = x.
Proof. intros o [f k] ch H. simpl in H. subst. reflexivity. Qed.

Section Show.
  Variable o : oracle.
  Variables h w : nat.
  Variable s : grid cell.
  Let nw := gmap (resolve o) s.
  Hypothesis Hsp : cw o space = 1.
  Hypothesis Hlaw : erase_law o.
  Hypothesis Hsd : gdims s h w.
  Hypothesis GN : Good o h w nw.

  Let T := den o h w nw.
  Definition covered (r c : nat) : bool :=
    match cover_img o h w nw r c with Some _ => true | None => false end.

  Lemma covered_nonwide : forall r c, covered r c = true -> nonwide (fst (T r c)).
  Proof.
    intros r c H. unfold covered in H. unfold T, den.
    destruct (cover_img o h w nw r c) as [[r0 c0]|]; [|discriminate].
    destruct (img_at nw r0 c0) as [[f i]|]; simpl; auto.
  Qed.

  Lemma nw_bounds' : forall r c x, gget nw r c = Some x -> r < h /\ c < w.
  Proof. intros r c x H. exact (gget_some_bounds nw h w r c x (good_dims _ _ _ _ GN) H). Qed.

  Lemma nw_char : forall r row j x ch,
    nth_error s r = Some row -> nth_error row j = Some x -> ckind x = KChar ch ->
    gget nw r j = Some x.
  Proof.
    intros. unfold nw. rewrite gget_gmap. unfold gget. rewrite H, H0. simpl.
    f_equal. eapply resolve_char; eauto.
  Qed.

  Section OneRow.
    Variable r : nat.
    Variable row : list cell.
    Hypothesis Hr : r < h.
    Hypothesis Hrow : nth_error s r = Some row.
    Let ps := naive_row o r 0 0 row.

    Lemma row_of_nw : forall c y ch, gget nw r c = Some y -> ckind y = KChar ch -> nth_error row c = Some y.
    Proof.
      intros c y ch Ey Eky. unfold nw in Ey. rewrite gget_gmap in Ey. unfold gget in Ey. rewrite Hrow in Ey.
      destruct (nth_error row c) as [y0|] eqn:E0; [|discriminate]. simpl in Ey. inversion Ey; subst y.
      destruct y0 as [f0 [c0|i0|g0]]; simpl in *; try discriminate. reflexivity.
    Qed.

    Lemma naive_cover_of_wide : forall c' y ch q,
      gget nw r c' = Some y -> ckind y = KChar ch -> cw o ch = 2 -> hidden o nw r c' = false ->
      In q ps -> pstart q <= c' < pstart q + plen o q -> hidden o nw r (pstart q) = false ->
      q = PChar r c' (cface y) ch.
    Proof.
      intros c' y ch q Hy Hk Hw2 Hh Hin Hrange Hhq.
      destruct (naive_sound o r row 0 0 q Hin) as (j & x & chj & _ & Hx & Hkx & Hwx & ->).
      cbn [pstart plen Nat.add] in Hrange, Hhq.
      pose proof (nw_char r row j x chj Hrow Hx Hkx) as Hgx.
      destruct (Nat.eq_dec j c') as [->|Hne].
      - rewrite Hgx in Hy. inversion Hy; subst y. rewrite Hkx in Hk. inversion Hk; subst. reflexivity.
      - exfalso.
        pose proof (good_cells _ _ _ _ GN r j x Hgx) as Hg. unfold cell_good in Hg. rewrite Hkx in Hg.
        assert (Hw2j : cw o chj = 2) by lia. assert (c' = S j) by lia. subst c'.
        assert (Hwd : is_wide o x = true) by (unfold is_wide; rewrite Hkx, Hw2j; reflexivity).
        destruct (hidden_S o nw r j x Hgx Hwd Hhq) as [Hh' _]. congruence.
    Qed.

    (* the painter never paints a hidden cell *)
    Lemma naive_owner_shown : forall j p, In p ps -> pstart p = j -> hidden o nw r j = false.
    Proof.
      induction j as [j IH] using lt_wf_ind. intros p Hin Hst.
      destruct (hidden o nw r j) eqn:Ehid; auto. exfalso.
      assert (Hlw : left_wide o nw r j <> None) by (intros H; apply left_wide_hidden in H; congruence).
      destruct (left_wide o nw r j) as [f|] eqn:El; [|congruence].
      apply left_wide_some in El. destruct El as (j' & y & -> & Hy & Hwd & Hh & _).
      destruct (is_wide_char o y Hwd) as (chy & Eky & Ew).
      pose proof (row_of_nw j' y chy Hy Eky) as Hyrow.
      destruct (naive_cover o r row 0 0 j' y chy ltac:(lia) Hyrow Eky ltac:(lia)) as (q & Hq & Hrange).
      cbn [Nat.add] in Hrange.
      assert (Hhq : hidden o nw r (pstart q) = false) by (apply (IH (pstart q) ltac:(lia) q Hq eq_refl)).
      assert (Hqe : q = PChar r j' (cface y) chy) by (eapply naive_cover_of_wide; eauto).
      pose proof (naive_chain o r row 0 0) as Hch.
      pose proof (chain_disjoint o _ _ q p Hch Hq Hin) as Hd.
      subst q. simpl in Hd. rewrite Hst, Ew in Hd. lia.
    Qed.

    Lemma naive_conform : forall p, In p ps ->
      conform o T covered p /\ paint_valid o h w p /\ prow p = r.
    Proof.
      intros p Hin.
      pose proof (naive_owner_shown (pstart p) p Hin eq_refl) as Hshown.
      destruct (naive_sound o r row 0 0 p Hin) as (j & x & ch & _ & Hx & Hk & Hw & ->).
      cbn [Nat.add pstart] in *.
      pose proof (nw_char r row j x ch Hrow Hx Hk) as Hgx.
      assert (Hb : r < h /\ j < w) by (eapply nw_bounds'; eauto).
      pose proof (good_cells _ _ _ _ GN r j x Hgx) as Hg. unfold cell_good in Hg. rewrite Hk in Hg.
      split; [|split]; [| |reflexivity].
      - simpl. destruct Hg as [Hw1|[Hw2 Hfit]].
        + left. split; auto. destruct (covered r j) eqn:Ecov; auto. right.
          unfold T. apply den_narrow; auto.
          * unfold covered in Ecov. destruct (cover_img o h w nw r j); auto. discriminate.
          * apply left_wide_hidden. exact Hshown.
        + right. split; auto. right. unfold T. eapply den_wide; eauto.
      - simpl. lia.
    Qed.

    Lemma naive_cover_row : forall c, c < w -> covered r c = false ->
      exists p, In p ps /\ footprint o p r c.
    Proof.
      intros c Hc Hcov.
      assert (Ecov : cover_img o h w nw r c = None).
      { unfold covered in Hcov. destruct (cover_img o h w nw r c); auto. discriminate. }
      destruct (gget_in_bounds nw h w r c (good_dims _ _ _ _ GN) Hr Hc) as (x & Hx).
      assert (Hrowlen : length row = w) by (eapply gdims_row; eauto).
      destruct (left_wide o nw r c) as [fw|] eqn:Elw.
      - apply left_wide_some in Elw. destruct Elw as (c' & y & -> & Ey & Ewd & Ehid & _).
        destruct (is_wide_char o y Ewd) as (chy & Eky & Ew).
        pose proof (row_of_nw c' y chy Ey Eky) as Hyrow.
        destruct (naive_cover o r row 0 0 c' y chy ltac:(lia) Hyrow Eky ltac:(lia)) as (q & Hq & Hrange).
        cbn [Nat.add] in Hrange.
        assert (Hqe : q = PChar r c' (cface y) chy).
        { eapply naive_cover_of_wide; eauto. eapply naive_owner_shown; eauto. }
        exists q. split; auto. subst q. simpl. lia.
      - pose proof (good_cells _ _ _ _ GN r c x Hx) as Hg. unfold cell_good in Hg.
        destruct (ckind x) as [ch|i|g] eqn:Ek.
        + pose proof (row_of_nw c x ch Hx Ek) as Hxrow.
          destruct (naive_cover o r row 0 0 c x ch ltac:(lia) Hxrow Ek ltac:(lia)) as (q & Hq & Hrange).
          exists q. split; auto.
          destruct (naive_conform q Hq) as (_ & _ & Hrw).
          destruct q; simpl in *; subst; split; auto; lia.
        + exfalso.
          assert (Hin : in_rect o r c i r c = true).
          { unfold in_rect. apply andb_true_iff. rewrite !in_range_true. lia. }
          rewrite (cover_img_none o h w nw r c r c (cface x) i Ecov Hr Hc) in Hin; [discriminate|].
          apply img_at_some. eauto.
        + contradiction.
    Qed.
  End OneRow.

  Theorem show_den :
    let sc := show o h w s in
    scr_ok sc h w
    /\ (forall r c, r < h -> c < w -> gget (sgrid sc) r c = Some (den o h w nw r c))
    /\ (forall i r c, In (i, r, c) (places sc) <->
                      exists x, gget nw r c = Some x /\ ckind x = KImg i).
  Proof.
    cbv zeta.
    assert (Heq : show o h w s =
                  exec_list o (exec_list o (blank_screen h w)
                                 (flat_map (fun p => fst (emit o t0 p)) (naive_rows o 0 s)))
                            (pass3 o (images_of o s))).
    { unfold show, paint_cmds. rewrite exec_list_app.
      unfold mapi at 1. rewrite chars_naive. rewrite images_pass3. reflexivity. }
    rewrite Heq. clear Heq.
    assert (Hs0 : scr_ok (blank_screen h w) h w).
    { unfold blank_screen. apply scr_ok_mk. apply gdims_gmake. }
    assert (Hall : forall p, In p (naive_rows o 0 s) ->
                             conform o T covered p /\ paint_valid o h w p).
    { intros p Hp. apply in_naive_rows in Hp. destruct Hp as (r & row & Hrow & Hin). simpl in Hin.
      assert (Hr : r < h).
      { destruct Hsd as [Hh _]. rewrite <- Hh. apply nth_error_Some. congruence. }
      destruct (naive_conform r row Hr Hrow p Hin) as (H1 & H2 & _). auto. }
    assert (Hvalid : Forall (paint_valid o h w) (naive_rows o 0 s)).
    { apply Forall_forall. intros p Hp. apply Hall. auto. }
    destruct (exec_emit_each o (naive_rows o 0 s) (blank_screen h w) h w Hsp Hlaw Hs0 Hvalid) as (Hs1 & Hg1 & Hp1).
    set (s1 := exec_list o (blank_screen h w) _) in *.
    assert (Hok1 : forall r c, r < h -> c < w -> covered r c = false -> okc T (sgrid s1) r c).
    { intros r c Hr Hc Hcov. rewrite Hg1.
      apply (apply_paints_ok o T covered) with (h := h) (w := w); auto.
      - intros. unfold T. eapply den_wl; eauto.
      - intros. unfold T. eapply den_wr; eauto.
      - intros. eapply covered_nonwide; eauto.
      - apply Hs0.
      - apply Forall_forall. intros p Hp. apply Hall. auto.
      - apply Forall_forall. intros p Hp. apply valid_inside. apply Hall. auto.
      - right. destruct (row_exists h w s r Hsd Hr) as (row & Hrow & _).
        destruct (naive_cover_row r row Hr Hrow c Hc Hcov) as (p & Hp & Hf).
        exists p. split; auto. apply in_naive_rows. exists r, row. auto. }
    assert (Himg_mem : forall r c f i, In (r, c, f, i) (images_of o s) <->
                        exists x, gget nw r c = Some x /\ ckind x = KImg i /\ cface x = f).
    { intros. rewrite in_images_of. unfold nw. split.
      - intros (x & Hx & Hk & Hf). exists (resolve o x). rewrite gget_gmap, Hx. simpl.
        rewrite resolve_face. auto.
      - intros (x' & Hx & Hk & Hf). rewrite gget_gmap in Hx.
        destruct (gget s r c) as [x|]; [|discriminate]. simpl in Hx. inversion Hx; subst x'.
        exists x. rewrite resolve_face in Hf. auto. }
    assert (Himgs : forall r c f i, In (r, c, f, i) (images_of o s) -> r < h /\ c < w /\ 1 <= snd (isz o i)).
    { intros r c f i Hin. apply Himg_mem in Hin. destruct Hin as (x & Hx & Hk & _).
      pose proof (good_cells _ _ _ _ GN r c x Hx) as Hg. unfold cell_good in Hg. rewrite Hk in Hg.
      destruct (gget_some_bounds nw h w r c x (good_dims _ _ _ _ GN) Hx). lia. }
    destruct (exec_pass3 o h w (images_of o s) s1 Hs1 Himgs) as (Hs2 & Hg2 & Hp2).
    set (s2 := exec_list o s1 _) in *.
    split; [exact Hs2|]. split.
    - intros r c Hr Hc. rewrite Hg2.
      apply (apply_paints_ok o T (fun _ _ => false)) with (h := h) (w := w); auto.
      + intros. unfold T. eapply den_wl; eauto.
      + intros. unfold T. eapply den_wr; eauto.
      + intros. discriminate.
      + apply Hs1.
      + apply Forall_forall. intros p Hp. unfold imgs_paints in Hp. apply in_flat_map in Hp.
        destruct Hp as ([[[r0 c0] f] i] & Hin & Hp). apply Himg_mem in Hin.
        destruct Hin as (x & Hx & Hk & Hf). eapply (img_paints_conform o h w nw); eauto.
      + apply Forall_forall. intros p Hp. unfold imgs_paints in Hp. apply in_flat_map in Hp.
        destruct Hp as ([[[r0 c0] f] i] & Hin & Hp). apply Himg_mem in Hin.
        destruct Hin as (x & Hx & Hk & Hf). eapply (img_paints_conform o h w nw); eauto.
      + destruct (covered r c) eqn:Ecov.
        * right. unfold covered in Ecov.
          destruct (cover_img o h w nw r c) as [[r0 c0]|] eqn:Ec; [|discriminate].
          apply cover_img_some in Ec. destruct Ec as (Hr0 & Hc0 & f & i & Hi & Hin).
          pose proof Hi as Hi2. apply img_at_some in Hi2. destruct Hi2 as (x & Hx & Hk & Hf).
          assert (Hmem : In (r0, c0, f, i) (images_of o s)) by (apply Himg_mem; eauto).
          unfold in_rect in Hin. apply andb_true_iff in Hin. rewrite !in_range_true in Hin.
          exists (PErase (Nat.min r (h - 1)) c0 f (Nat.min (snd (isz o i)) (w - c0))). split.
          -- unfold imgs_paints. apply in_flat_map. exists (r0, c0, f, i). split; auto.
             unfold img_paints. apply in_map_iff. exists r. split; auto. apply in_seq. lia.
          -- simpl. rewrite Nat.min_l by lia. split; auto. lia.
        * left. apply Hok1; auto.
    - intros i r c. rewrite Hp2, Hp1. simpl. split.
      + intros [[]|[f Hin]]. apply Himg_mem in Hin. destruct Hin as (x & Hx & Hk & _). eauto.
      + intros (x & Hx & Hk). right. exists (cface x). apply Himg_mem. eauto.
  Qed.
End Show.
