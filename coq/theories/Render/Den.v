(* Render/Den.v — cell-by-cell denotation of an overlap-free surface, and the
   geometric facts that follow from overlap-freeness.

   [den o h w s r c] is what the terminal must show in cell (r, c) for the
   (glyph-resolved) surface s: under the rectangle of an image a blank in the
   image's face; behind a wide character its right half; otherwise the cell's
   own character.  ShowProofs.v proves that the naive painter's screen
   [show] is exactly this. *)
From Coq Require Import List NArith Bool Arith Lia.
From SNT Require Import Render.Cell Render.Screen Render.Domain Render.GridLemmas.
Import ListNotations.

Definition gmap {A B} (f : A -> B) (g : grid A) : grid B := map (map f) g.

Lemma gget_gmap : forall {A B} (f : A -> B) g r c, gget (gmap f g) r c = option_map f (gget g r c).
Proof.
  intros. unfold gget, gmap. rewrite nth_error_map.
  destruct (nth_error g r) as [row|]; simpl; auto. apply nth_error_map.
Qed.

Lemma gdims_gmap : forall {A B} (f : A -> B) g h w, gdims g h w -> gdims (gmap f g) h w.
Proof.
  intros A B f g h w [Hh Hw]. unfold gmap. split. rewrite map_length; auto.
  intros row Hin. apply in_map_iff in Hin. destruct Hin as (row' & <- & Hin').
  rewrite map_length. auto.
Qed.

Definition is_wide (o : oracle) (x : cell) : bool :=
  match ckind x with KChar ch => cw o ch =? 2 | _ => false end.

(* the image owned by cell (r, c), if any *)
Definition img_at (s : grid cell) (r c : nat) : option (face * N) :=
  match gget s r c with
  | Some x => match ckind x with KImg i => Some (cface x, i) | _ => None end
  | None => None
  end.

Definition in_rect (o : oracle) (r0 c0 : nat) (i : N) (r c : nat) : bool :=
  in_range r0 (r0 + fst (isz o i)) r && in_range c0 (c0 + snd (isz o i)) c.

Definition covers_here (o : oracle) (s : grid cell) (r c : nat) (q : nat * nat) : bool :=
  match img_at s (fst q) (snd q) with
  | Some (_, i) => in_rect o (fst q) (snd q) i r c
  | None => false
  end.

(* the (first, in scan order) image whose rectangle contains (r, c) *)
Definition cover_img (o : oracle) (h w : nat) (s : grid cell) (r c : nat) : option (nat * nat) :=
  find (covers_here o s r c) (all_pos h w).

Definition own_glyph (o : oracle) (s : grid cell) (r c : nat) : scell :=
  match gget s r c with
  | Some x =>
      match ckind x with
      | KChar ch => if cw o ch =? 2 then (WL ch, cface x) else cell_of o ch (cface x)
      | _ => (Blank, cface x)
      end
  | None => (Blank, face_default)
  end.

(* a cell is hidden when the cell on its left holds a wide character that is itself shown
   (a wide character directly behind a shown wide character is not shown, and then does not hide
   its own right-hand neighbour): the left-to-right rule of any painter *)
Fixpoint hidden (o : oracle) (s : grid cell) (r c : nat) : bool :=
  match c with
  | O => false
  | S c' => match gget s r c' with
            | Some x => is_wide o x && negb (hidden o s r c')
            | None => false
            end
  end.

(* the face of the shown wide character on the left, if there is one *)
Definition left_wide (o : oracle) (s : grid cell) (r c : nat) : option face :=
  match c with
  | S c' => match gget s r c' with
            | Some x => if is_wide o x && negb (hidden o s r c') then Some (cface x) else None
            | None => None
            end
  | O => None
  end.

Lemma left_wide_hidden : forall o s r c, left_wide o s r c = None <-> hidden o s r c = false.
Proof.
  intros o s r [|c']; simpl. tauto.
  destruct (gget s r c') as [x|]; [|tauto].
  destruct (is_wide o x && negb (hidden o s r c')); split; intro; congruence.
Qed.

Lemma left_wide_some : forall o s r c f, left_wide o s r c = Some f ->
  exists c' x, c = S c' /\ gget s r c' = Some x /\ is_wide o x = true /\ hidden o s r c' = false /\ cface x = f.
Proof.
  intros o s r [|c'] f H; simpl in H. discriminate.
  destruct (gget s r c') as [x|] eqn:Ex; [|discriminate].
  destruct (is_wide o x) eqn:Ew; simpl in H; [|discriminate].
  destruct (hidden o s r c') eqn:Eh; simpl in H; [discriminate|].
  inversion H. exists c', x. auto.
Qed.

Lemma hidden_S : forall o s r c x, gget s r c = Some x -> is_wide o x = true -> hidden o s r c = false ->
  hidden o s r (S c) = true /\ left_wide o s r (S c) = Some (cface x).
Proof. intros o s r c x Hx Hw Hh. simpl. rewrite Hx, Hw, Hh. auto. Qed.

Definition den (o : oracle) (h w : nat) (s : grid cell) (r c : nat) : scell :=
  match cover_img o h w s r c with
  | Some (r0, c0) =>
      match img_at s r0 c0 with Some (f, _) => (Blank, ferase o f) | None => (Blank, face_default) end
  | None =>
      match left_wide o s r c with
      | Some f => (WR, f)
      | None => own_glyph o s r c
      end
  end.

Definition den_grid (o : oracle) (h w : nat) (s : grid cell) : grid scell :=
  map (fun r => map (fun c => den o h w s r c) (seq 0 w)) (seq 0 h).

Lemma gdims_den_grid : forall o h w s, gdims (den_grid o h w s) h w.
Proof.
  intros. unfold den_grid. split. rewrite map_length, seq_length. reflexivity.
  intros row Hin. apply in_map_iff in Hin. destruct Hin as (r & <- & _).
  rewrite map_length, seq_length. reflexivity.
Qed.

Lemma gget_den_grid : forall o h w s r c, r < h -> c < w ->
  gget (den_grid o h w s) r c = Some (den o h w s r c).
Proof.
  intros. unfold den_grid, gget.
  rewrite nth_error_map. rewrite nth_error_nth' with (d := 0) by (rewrite seq_length; lia).
  rewrite seq_nth by lia. simpl.
  rewrite nth_error_map. rewrite nth_error_nth' with (d := 0) by (rewrite seq_length; lia).
  rewrite seq_nth by lia. reflexivity.
Qed.

(* ---------- good surfaces ---------- *)
Definition cell_good (o : oracle) (w c : nat) (x : cell) : Prop :=
  match ckind x with
  | KChar ch => cw o ch = 1 \/ (cw o ch = 2 /\ c + 2 <= w)
  | KImg i => 1 <= fst (isz o i) /\ 1 <= snd (isz o i)
  | KGlyph _ => False
  end.

(* the multi-cell object owned by x at (r0, c0) occupies (r, c) *)
Definition is_img (x : cell) : Prop := exists i, ckind x = KImg i.

Definition occupies (o : oracle) (x : cell) (r0 c0 r c : nat) : Prop :=
  match ckind x with
  | KChar ch => cw o ch = 2 /\ r = r0 /\ c0 <= c < c0 + 2
  | KImg i => in_rect o r0 c0 i r c = true
  | KGlyph _ => False
  end.

Record Good (o : oracle) (h w : nat) (s : grid cell) : Prop := {
  good_dims : gdims s h w;
  good_cells : forall r c x, gget s r c = Some x -> cell_good o w c x;
  good_disjoint : forall r c r1 c1 r2 c2 x1 x2,
      r < h -> c < w ->
      gget s r1 c1 = Some x1 -> gget s r2 c2 = Some x2 ->
      occupies o x1 r1 c1 r c -> occupies o x2 r2 c2 r c ->
      (* images share cells with nothing; wide characters may hide one another *)
      is_img x1 \/ is_img x2 -> r1 = r2 /\ c1 = c2 }.

(* ---------- cover_img ---------- *)
Lemma cover_img_some : forall o h w s r c r0 c0,
  cover_img o h w s r c = Some (r0, c0) ->
  r0 < h /\ c0 < w /\ exists f i, img_at s r0 c0 = Some (f, i) /\ in_rect o r0 c0 i r c = true.
Proof.
  intros o h w s r c r0 c0 H. unfold cover_img in H. apply find_some in H.
  destruct H as [Hin Hc]. apply in_all_pos in Hin. destruct Hin.
  unfold covers_here in Hc. simpl in Hc.
  destruct (img_at s r0 c0) as [[f i]|] eqn:E; [|discriminate].
  repeat split; auto. eauto.
Qed.

Lemma cover_img_none : forall o h w s r c r0 c0 f i,
  cover_img o h w s r c = None -> r0 < h -> c0 < w ->
  img_at s r0 c0 = Some (f, i) -> in_rect o r0 c0 i r c = false.
Proof.
  intros o h w s r c r0 c0 f i H Hr Hc Hi. unfold cover_img in H.
  pose proof (find_none _ _ H (r0, c0)) as Hn. unfold covers_here in Hn. simpl in Hn.
  rewrite Hi in Hn. apply Hn. apply in_all_pos. auto.
Qed.

Lemma img_at_some : forall s r c f i,
  img_at s r c = Some (f, i) <-> exists x, gget s r c = Some x /\ ckind x = KImg i /\ cface x = f.
Proof.
  intros. unfold img_at. split.
  - destruct (gget s r c) as [x|]; [|discriminate]. destruct (ckind x) eqn:E; try discriminate.
    intros H. inversion H; subst. eauto.
  - intros (x & -> & Hk & Hf). rewrite Hk. subst. reflexivity.
Qed.

Section GoodFacts.
  Variable o : oracle.
  Variables h w : nat.
  Variable s : grid cell.
  Hypothesis HG : Good o h w s.

  Lemma img_occupies : forall r0 c0 i x r c,
    gget s r0 c0 = Some x -> ckind x = KImg i -> in_rect o r0 c0 i r c = true ->
    occupies o x r0 c0 r c.
  Proof. intros. unfold occupies. rewrite H0. auto. Qed.

  (* under an image: the covering image is unique, so den shows its face *)
  Lemma den_under_img : forall r0 c0 f i r c,
    img_at s r0 c0 = Some (f, i) -> in_rect o r0 c0 i r c = true -> r < h -> c < w ->
    den o h w s r c = (Blank, ferase o f).
  Proof.
    intros r0 c0 f i r c Hi Hin Hr Hc. unfold den.
    destruct (cover_img o h w s r c) as [[r1 c1]|] eqn:E.
    - apply cover_img_some in E. destruct E as (Hr1 & Hc1 & f1 & i1 & Hi1 & Hin1).
      apply img_at_some in Hi. destruct Hi as (x & Hx & Hk & Hf).
      pose proof Hi1 as Hi1'. apply img_at_some in Hi1'. destruct Hi1' as (x1 & Hx1 & Hk1 & Hf1).
      destruct (good_disjoint _ _ _ _ HG r c r0 c0 r1 c1 x x1 Hr Hc Hx Hx1) as [-> ->].
      + unfold occupies. rewrite Hk. exact Hin.
      + unfold occupies. rewrite Hk1. exact Hin1.
      + left. exists i. exact Hk.
      + rewrite Hi1. rewrite Hx in Hx1. inversion Hx1; subst. reflexivity.
    - exfalso.
      assert (Hb : r0 < h /\ c0 < w).
      { apply img_at_some in Hi. destruct Hi as (x & Hx & _). eapply gget_some_bounds; eauto. apply HG. }
      rewrite (cover_img_none o h w s r c r0 c0 f i E) in Hin by tauto. discriminate.
  Qed.

  (* a wide character (shown or not): neither of the cells it would occupy is under an image *)
  Lemma wide_not_covered : forall r c x ch k,
    gget s r c = Some x -> ckind x = KChar ch -> cw o ch = 2 -> c <= k < c + 2 ->
    cover_img o h w s r k = None.
  Proof.
    intros r c x ch k Hx Hk Hw2 Hrange.
    assert (Hb : r < h /\ c < w) by (eapply gget_some_bounds; eauto; apply HG).
    assert (Hfit : c + 2 <= w).
    { pose proof (good_cells _ _ _ _ HG r c x Hx) as Hc. unfold cell_good in Hc. rewrite Hk in Hc. lia. }
    destruct (cover_img o h w s r k) as [[r1 c1]|] eqn:E; auto. exfalso.
    apply cover_img_some in E. destruct E as (Hr1 & Hc1 & f1 & i1 & Hi1 & Hin1).
    apply img_at_some in Hi1. destruct Hi1 as (x1 & Hx1 & Hk1 & Hf1).
    destruct (good_disjoint _ _ _ _ HG r k r c r1 c1 x x1) as [-> ->]; auto; try lia.
    - unfold occupies. rewrite Hk. lia.
    - unfold occupies. rewrite Hk1. exact Hin1.
    - right. exists i1. exact Hk1.
    - rewrite Hx in Hx1. inversion Hx1; subst. congruence.
  Qed.

  (* a wide character that is shown *)
  Lemma den_wide : forall r c x ch,
    gget s r c = Some x -> ckind x = KChar ch -> cw o ch = 2 -> hidden o s r c = false ->
    den o h w s r c = (WL ch, cface x) /\ den o h w s r (S c) = (WR, cface x).
  Proof.
    intros r c x ch Hx Hk Hw2 Hh. unfold den.
    rewrite (wide_not_covered r c x ch c Hx Hk Hw2) by lia.
    rewrite (wide_not_covered r c x ch (S c) Hx Hk Hw2) by lia.
    assert (Hwd : is_wide o x = true) by (unfold is_wide; rewrite Hk, Hw2; reflexivity).
    rewrite (proj2 (left_wide_hidden o s r c) Hh).
    rewrite (proj2 (hidden_S o s r c x Hx Hwd Hh)). split; auto.
    unfold own_glyph. rewrite Hx, Hk, Hw2. reflexivity.
  Qed.

  Lemma den_narrow : forall r c x ch,
    gget s r c = Some x -> ckind x = KChar ch -> cw o ch = 1 ->
    cover_img o h w s r c = None -> left_wide o s r c = None ->
    den o h w s r c = cell_of o ch (cface x).
  Proof.
    intros r c x ch Hx Hk Hw1 Hc Hl. unfold den. rewrite Hc, Hl.
    unfold own_glyph. rewrite Hx, Hk, Hw1. reflexivity.
  Qed.

  Lemma is_wide_char : forall y, is_wide o y = true -> exists ch, ckind y = KChar ch /\ cw o ch = 2.
  Proof.
    intros y H. unfold is_wide in H. destruct (ckind y) as [ch| |]; try discriminate.
    apply Nat.eqb_eq in H. eauto.
  Qed.

  (* wide halves of the denotation are properly paired *)
  Lemma den_wl : forall r k ch, fst (den o h w s r k) = WL ch -> fst (den o h w s r (S k)) = WR.
  Proof.
    intros r k ch H. unfold den in H.
    destruct (cover_img o h w s r k) as [[r0 c0]|] eqn:Ec.
    { destruct (img_at s r0 c0) as [[f i]|]; discriminate. }
    destruct (left_wide o s r k) as [f|] eqn:El; [discriminate|].
    apply left_wide_hidden in El.
    unfold own_glyph in H. destruct (gget s r k) as [x|] eqn:Ex; [|discriminate].
    destruct (ckind x) as [ch'| |] eqn:Ek; try discriminate.
    destruct (cw o ch' =? 2) eqn:Ew.
    - apply Nat.eqb_eq in Ew. destruct (den_wide r k x ch' Ex Ek Ew El) as [_ H2]. rewrite H2. reflexivity.
    - unfold cell_of in H. destruct (N.eqb ch' space); discriminate.
  Qed.

  Lemma den_wr : forall r k, fst (den o h w s r k) = WR ->
    exists k' ch, k = S k' /\ fst (den o h w s r k') = WL ch.
  Proof.
    intros r k H. unfold den in H.
    destruct (cover_img o h w s r k) as [[r0 c0]|] eqn:Ec.
    { destruct (img_at s r0 c0) as [[f i]|]; discriminate. }
    destruct (left_wide o s r k) as [f|] eqn:El.
    - apply left_wide_some in El. destruct El as (k' & y & -> & Ey & Ew & Eh & _).
      destruct (is_wide_char y Ew) as (ch & Eky & Ew2).
      exists k', ch. split; auto.
      destruct (den_wide r k' y ch Ey Eky Ew2 Eh) as [H1 _]. rewrite H1. reflexivity.
    - exfalso. unfold own_glyph in H. destruct (gget s r k) as [x|] eqn:Ex; [|discriminate].
      destruct (ckind x) as [ch'| |] eqn:Ek; try discriminate.
      destruct (cw o ch' =? 2); simpl in H; try discriminate.
      unfold cell_of in H. destruct (N.eqb ch' space); discriminate.
  Qed.
End GoodFacts.
