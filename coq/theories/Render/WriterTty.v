(* TTYCellWriter::write as coded -- one MatcherDecoder::decode per loop iteration, rescheduled
   bytes re-parsed lazily at the start of the next decode, the loop ending when a decode yields
   nothing -- computes the same writer and tokenizer state as the plain fold over the bytes
   (tty_fold).  Since the fold does not know about calls, the result of a sequence of writes
   depends on the concatenated bytes only. *)
From Coq Require Import List Arith Bool NArith Lia.
From SNT Require Import Base.Outcome Render.CellLayout Render.Writer Render.TokFuel.
Import ListNotations.

(* ---------- more fuel never changes a result ---------- *)
Lemma drain_mono d : forall f st r, drain d f st = Ok r -> forall f', f <= f' -> drain d f' st = Ok r.
Proof.
  induction f as [|f IH]; intros st r E f' Hf.
  - destruct st as [q buf [|b rs] cand]; cbn in E; [|discriminate].
    destruct f'; cbn; exact E.
  - destruct f' as [|f']; [lia|]. destruct st as [q buf [|b rs] cand]; cbn [drain t_resched t_q t_buf t_cand] in *; [exact E|].
    destruct (decode_byte d (mkT q buf rs cand) b) as [st1 o].
    destruct (drain d f st1) as [[st2 os]| | |] eqn:E1; try discriminate.
    rewrite (IH st1 _ E1 f') by lia. exact E.
Qed.

(* ---------- the lazy drain of one decode call against the full drain ---------- *)
Definition wsum (st : tstate) : nat := length (t_resched st) + length (t_buf st).

Lemma drain_lazy_spec d : forall f st, CandOk st -> phi st <= f ->
  exists st1 o, drain_lazy d f st = Ok (st1, o) /\ CandOk st1 /\
    match o with
    | None => t_resched st1 = [] /\ wsum st1 = wsum st /\ drain d f st = Ok (st1, [])
    | Some it =>
        wsum st1 < wsum st /\
        exists st2 items, drain d f st1 = Ok (st2, items) /\ drain d f st = Ok (st2, it :: items)
    end.
Proof.
  induction f as [|f IH]; intros st Hc Hphi.
  - destruct st as [q buf [|b rs] cand].
    + exists (mkT q buf [] cand), None. cbn. auto.
    + unfold phi in Hphi. cbn in Hphi. lia.
  - destruct st as [q buf [|b rs] cand].
    + exists (mkT q buf [] cand), None. cbn. auto.
    + assert (EL : drain_lazy d (S f) (mkT q buf (b :: rs) cand) =
                   let '(st1, o) := decode_byte d (mkT q buf rs cand) b in
                   match o with Some it => Ok (st1, Some it) | None => drain_lazy d f st1 end) by reflexivity.
      assert (ED : drain d (S f) (mkT q buf (b :: rs) cand) =
                   let '(st1, o) := decode_byte d (mkT q buf rs cand) b in
                   match drain d f st1 with Ok (st2, os) => Ok (st2, olist o ++ os) | other => other end) by reflexivity.
      destruct (decode_byte d (mkT q buf rs cand) b) as [st1 o] eqn:H1.
      destruct (decode_byte_measure d (mkT q buf rs cand) b st1 o Hc H1) as [Hc1 Hm].
      assert (Hphi1 : phi st1 <= f).
      { unfold phi in *. cbn [t_resched t_buf] in *. cbn [length] in Hphi.
        destruct Hm as [(_ & E1 & E2)|(_ & Hlt)]; [rewrite E1, E2; nia|nia]. }
      destruct o as [it|].
      * (* the byte completed an item: the call returns it, the rest stays rescheduled *)
        exists st1, (Some it). split; [exact EL|]. split; [exact Hc1|].
        destruct Hm as [(Hn & _)|(_ & Hlt)]; [discriminate|].
        split; [unfold wsum; cbn [t_resched t_buf length] in *; lia|].
        destruct (drain_total d f st1 Hc1 Hphi1) as (st2 & items & E2 & _).
        exists st2, items. split; [apply (drain_mono d f st1 _ E2); lia|]. rewrite ED, E2. reflexivity.
      * destruct (IH st1 Hc1 Hphi1) as (st2 & o2 & E2 & Hc2 & Hspec).
        exists st2, o2. split; [rewrite EL; exact E2|]. split; [exact Hc2|].
        destruct Hm as [(_ & E1 & E3)|(Hn & _)]; [|congruence].
        assert (Hw : wsum st1 = wsum (mkT q buf (b :: rs) cand)).
        { unfold wsum. cbn [t_resched t_buf length] in *. lia. }
        destruct o2 as [it|].
        -- destruct Hspec as (Hlt & st3 & items & E3' & E4). split; [lia|].
           exists st3, items. split; [apply (drain_mono d f st2 _ E3'); lia|]. rewrite ED, E4. reflexivity.
        -- destruct Hspec as (Hr & Hw2 & E4). split; [exact Hr|]. split; [lia|]. rewrite ED, E4. reflexivity.
Qed.

(* fuel bounds used by the model *)
Lemma phi_le_weight st : phi st <= tok_weight st.
Proof. unfold phi, tok_weight. lia. Qed.

(* any fuel above phi gives the drain the model computes with tok_weight *)
Lemma drain_any_fuel d st f r : CandOk st -> phi st <= f -> drain d f st = Ok r -> drain d (tok_weight st) st = Ok r.
Proof.
  intros Hc Hf E. destruct (drain_total d (tok_weight st) st Hc (phi_le_weight st)) as (st' & items & E' & _).
  pose proof (drain_mono d _ st _ E (Nat.max f (tok_weight st)) (Nat.le_max_l _ _)) as A.
  pose proof (drain_mono d _ st _ E' (Nat.max f (tok_weight st)) (Nat.le_max_r _ _)) as B.
  congruence.
Qed.

Section Tty.
  Variable ctx : rctx.
  Let d := cmd_dfa ctx.

  Lemma tty_apply_cons st it items :
    tty_apply ctx st (it :: items) = match tty_apply1 ctx st it with Ok st' => tty_apply ctx st' items | other => other end.
  Proof. reflexivity. Qed.

  Lemma tty_apply_app items1 : forall st items2,
    tty_apply ctx st (items1 ++ items2) =
    match tty_apply ctx st items1 with Ok st' => tty_apply ctx st' items2 | other => other end.
  Proof.
    induction items1 as [|it t IH]; intros st items2; cbn [app tty_apply]; [reflexivity|].
    destruct (tty_apply1 ctx st it); auto.
  Qed.

  (* what remains to be done from a tokenizer state with rescheduled bytes: re-parse them all,
     apply the items, then fold over the input *)
  Definition resume (st : wstate) (ts : tstate) (input : list N) : outcome (wstate * tstate) :=
    match drain d (tok_weight ts) ts with
    | Ok (ts1, items) =>
        match tty_apply ctx st items with
        | Ok st1 => tty_fold ctx st1 ts1 input
        | Err e => Err e
        | Panic s => Panic s
        | OutOfFuel => OutOfFuel
        end
    | Err e => Err e
    | Panic s => Panic s
    | OutOfFuel => OutOfFuel
    end.

  Lemma resume_drained st ts input : t_resched ts = [] -> resume st ts input = tty_fold ctx st ts input.
  Proof.
    intros Hr. unfold resume. destruct ts as [q buf rs cand]. cbn in Hr. subst rs.
    destruct (tok_weight _); cbn; reflexivity.
  Qed.

  (* the input part of one decode call *)
  Lemma feed_until_spec : forall input ts st, CandOk ts -> t_resched ts = [] ->
    match feed_until d ts input with
    | (ts2, None, _) => CandOk ts2 /\ t_resched ts2 = [] /\ tty_fold ctx st ts input = Ok (st, ts2)
    | (ts2, Some it, rest) =>
        CandOk ts2 /\ wsum ts2 + length rest < wsum ts + length input /\
        tty_fold ctx st ts input =
          bind (tty_apply1 ctx st it) (fun st1 => resume st1 ts2 rest)
    end.
  Proof.
    induction input as [|b rest IH]; intros ts st Hc Hr; cbn [feed_until tty_fold].
    - auto.
    - unfold tok_feed. fold d. destruct (decode_byte d ts b) as [ts1 o] eqn:H1.
      destruct (decode_byte_measure d ts b ts1 o Hc H1) as [Hc1 Hm].
      destruct o as [it|].
      + destruct Hm as [(Hn & _)|(_ & Hlt)]; [discriminate|].
        split; [exact Hc1|]. split; [unfold wsum; cbn [length]; lia|].
        unfold resume, bind. fold d.
        destruct (drain_total d (tok_weight ts1) ts1 Hc1 (phi_le_weight ts1)) as (ts2 & os & Ed & _).
        rewrite Ed. cbn [olist app].
        rewrite tty_apply_cons. destruct (tty_apply1 ctx st it); reflexivity.
      + destruct Hm as [(_ & E1 & E2)|(Hn & _)]; [|congruence].
        assert (Hr1 : t_resched ts1 = []) by (rewrite Hr in E1; destruct (t_resched ts1); [reflexivity|discriminate]).
        assert (Ed : drain d (tok_weight ts1) ts1 = Ok (ts1, [])).
        { destruct ts1 as [q buf rs cand]. cbn in Hr1. subst rs. destruct (tok_weight _); reflexivity. }
        rewrite Ed. cbn [olist app tty_apply].
        specialize (IH ts1 st Hc1 Hr1).
        destruct (feed_until d ts1 rest) as [[ts2 [it|]] rest'].
        * destruct IH as (Hc2 & Hlt & E). split; [exact Hc2|]. split; [|exact E].
          unfold wsum in *. rewrite Hr, Hr1 in *. cbn [length] in *. lia.
        * exact IH.
  Qed.

  (* the loop of TTYCellWriter::write is `resume` *)
  Lemma tty_write_loop_resume : forall fuel st ts input, CandOk ts ->
    S (wsum ts + length input) <= fuel ->
    tty_write_loop ctx fuel st ts input = resume st ts input.
  Proof.
    induction fuel as [|f IH]; intros st ts input Hc Hf; [lia|].
    cbn [tty_write_loop]. unfold tok_decode. fold d.
    destruct (drain_lazy_spec d (tok_weight ts) ts Hc (phi_le_weight ts)) as (ts1 & o & E1 & Hc1 & Hspec).
    rewrite E1. destruct o as [it|].
    - destruct Hspec as (Hlt & ts2 & items & E2 & E3).
      unfold resume at 1. fold d. rewrite E3. rewrite tty_apply_cons.
      destruct (tty_apply1 ctx st it) as [st1| | |]; try reflexivity.
      rewrite (IH st1 ts1 input Hc1) by lia.
      unfold resume. fold d.
      assert (Hphi1 : phi ts1 <= tok_weight ts).
      { unfold phi, tok_weight, wsum in *. nia. }
      rewrite (drain_any_fuel d ts1 (tok_weight ts) _ Hc1 Hphi1 E2). reflexivity.
    - destruct Hspec as (Hr & Hw & E3).
      unfold resume. fold d. rewrite E3. cbn [tty_apply].
      pose proof (feed_until_spec input ts1 st Hc1 Hr) as Hfeed.
      destruct (feed_until d ts1 input) as [[ts2 [it|]] rest].
      + destruct Hfeed as (Hc2 & Hlt & E). rewrite E. unfold bind.
        destruct (tty_apply1 ctx st it) as [st1| | |]; try reflexivity.
        apply IH; [exact Hc2|lia].
      + destruct Hfeed as (_ & _ & E). rewrite E. reflexivity.
  Qed.

  Theorem tty_write_fold st ts input : CandOk ts -> t_resched ts = [] ->
    tty_write ctx st ts input = tty_fold ctx st ts input.
  Proof.
    intros Hc Hr. unfold tty_write. rewrite tty_write_loop_resume; [apply resume_drained; exact Hr|exact Hc|].
    unfold wsum. lia.
  Qed.
End Tty.
