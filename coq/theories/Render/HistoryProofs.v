(* Render/HistoryProofs.v — the invariant linking renderer state and terminal
   screen over arbitrary histories, and the C01 theorems. *)
From Coq Require Import List NArith Bool Arith Lia.
From SNT Require Import Render.Cell Render.Screen Render.Frame Render.Domain Render.GridLemmas
  Render.ScreenProofs Render.PaintProofs Render.ExecProofs Render.Den Render.ScanProofs
  Render.FrameSpec Render.FrameProofs Render.Pass1Proofs Render.FrameTheorem Render.ShowProofs
  Render.DomainProofs Render.Spec.
Import ListNotations.

Definition blank_surface (h w : nat) : grid cell := gmake h w cell_default.

(* in the domain, and no image shares a cell with another image or with a wide character
   (wide characters may hide one another, narrow characters may be anywhere) *)
Definition good_surface (o : oracle) (h w : nat) (s : grid cell) : Prop :=
  in_domain o h w s = true /\ no_image_overlap o h w s = true.

(* every surface drawn is good for the size the terminal has at that moment; a resize supplies a
   screen of the new size *)
Fixpoint good_ops (o : oracle) (h w : nat) (ops : list op) : Prop :=
  match ops with
  | [] => True
  | Draw g :: ops' => good_surface o h w g /\ good_ops o h w ops'
  | Resize h' w' g :: ops' => gdims g h' w' /\ good_ops o h' w' ops'
  | FailFrame _ :: _ => False      (* every frame is rendered: the terminal accepts every command *)
  | _ :: ops' => good_ops o h w ops'
  end.

(* the size after a list of operations *)
Fixpoint size_after (h w : nat) (ops : list op) : nat * nat :=
  match ops with
  | [] => (h, w)
  | Resize h' w' _ :: ops' => size_after h' w' ops'
  | _ :: ops' => size_after h w ops'
  end.

(* ---------- blank surfaces ---------- *)
Lemma map_repeat' : forall {A B} (f : A -> B) v n, map f (repeat v n) = repeat (f v) n.
Proof. induction n; simpl; auto. rewrite IHn. reflexivity. Qed.

Lemma gmap_gmake : forall {A B} (f : A -> B) h w v, gmap f (gmake h w v) = gmake h w (f v).
Proof. intros. unfold gmap, gmake. rewrite map_repeat'. f_equal. apply map_repeat'. Qed.

Lemma blank_resolved : forall o h w, gmap (resolve o) (blank_surface h w) = blank_surface h w.
Proof. intros. unfold blank_surface. rewrite gmap_gmake. reflexivity. Qed.

Lemma good_blank : forall o h w, cw o space = 1 -> Good o h w (blank_surface h w).
Proof.
  intros o h w Hsp. constructor.
  - apply gdims_gmake.
  - intros r c x Hx. apply gget_gmake_inv in Hx. subst. unfold cell_good. simpl. auto.
  - intros r c r1 c1 r2 c2 x1 x2 _ _ H1 _ Ho _. apply gget_gmake_inv in H1. subst.
    unfold occupies in Ho. simpl in Ho. rewrite Hsp in Ho. destruct Ho. discriminate.
Qed.

Lemma img_cell_blank : forall h w i r c, ~ img_cell (blank_surface h w) i r c.
Proof. intros h w i r c (x & Hx & Hk). apply gget_gmake_inv in Hx. subst. discriminate. Qed.

Lemma den_blank : forall o h w r c, cw o space = 1 -> fspace o face_default = face_default ->
  den o h w (blank_surface h w) r c = (Blank, face_default).
Proof.
  intros o h w r c Hsp Hfs. unfold den.
  assert (Hc : cover_img o h w (blank_surface h w) r c = None).
  { unfold cover_img. destruct (find _ _) as [[r0 c0]|] eqn:E; auto.
    apply find_some in E. destruct E as [_ E]. unfold covers_here, img_at in E. simpl in E.
    destruct (gget (blank_surface h w) r0 c0) as [x|] eqn:Ex; [|discriminate].
    apply gget_gmake_inv in Ex. subst. discriminate. }
  rewrite Hc.
  assert (Hl : left_wide o (blank_surface h w) r c = None).
  { unfold left_wide. destruct c as [|c']; auto.
    destruct (gget (blank_surface h w) r c') as [x|] eqn:Ex; auto.
    apply gget_gmake_inv in Ex. subst. unfold is_wide. simpl. rewrite Hsp. reflexivity. }
  rewrite Hl. unfold own_glyph.
  destruct (gget (blank_surface h w) r c) as [x|] eqn:Ex; auto.
  apply gget_gmake_inv in Ex. subst. simpl. rewrite Hsp. simpl. unfold cell_of. rewrite N.eqb_refl.
  simpl. rewrite Hfs. reflexivity.
Qed.

(* ---------- clear ---------- *)
Lemma rclear_cmds : forall s,
  Forall is_erase_at (fst (rclear s))
  /\ forall i r c, In (CImageErase i (Some (r, c))) (fst (rclear s)) <-> img_cell (back s) i r c.
Proof.
  intros s. unfold rclear. cbn [fst]. split.
  - apply Forall_forall. intros x Hx. apply in_concat in Hx. destruct Hx as (l & Hl & Hx).
    apply in_mapi in Hl. destruct Hl as (r & row & _ & ->).
    unfold erase_images_row in Hx. apply in_concat in Hx. destruct Hx as (l' & Hl' & Hx).
    apply in_mapi in Hl'. destruct Hl' as (c & y & _ & ->).
    destruct (ckind y); simpl in Hx; try contradiction. destruct Hx as [<-|[]].
    exists i, r, c. reflexivity.
  - intros i r c. rewrite in_concat. unfold img_cell. split.
    + intros (l & Hl & Hx). apply in_mapi in Hl. destruct Hl as (r' & row & Hrow & ->).
      unfold erase_images_row in Hx. apply in_concat in Hx. destruct Hx as (l' & Hl' & Hx).
      apply in_mapi in Hl'. destruct Hl' as (c' & y & Hy & ->).
      destruct (ckind y) eqn:Ek; simpl in Hx; try contradiction. destruct Hx as [Heq|[]].
      inversion Heq; subst. exists y. unfold gget. rewrite Hrow. auto.
    + intros (y & Hy & Hk). unfold gget in Hy. destruct (nth_error (back s) r) as [row|] eqn:Er; [|discriminate].
      exists (erase_images_row r row). split.
      * apply in_mapi. exists r, row. auto.
      * unfold erase_images_row. apply in_concat.
        exists (match ckind y with KImg i0 => [CImageErase i0 (Some (r, c))] | _ => [] end). split.
        -- apply in_mapi. exists c, y. auto.
        -- rewrite Hk. left. reflexivity.
Qed.

Lemma rclear_state : forall s,
  snd (rclear s) = rnew (rh s) (rw s) true.
Proof. reflexivity. Qed.

(* ---------- the invariant ---------- *)
(* [E]: placements the terminal may show besides the renderer's own (left by a recorded defect: class
   OverlapImages / OverlapWideImage / DroppedImageErase); [] in the theorems about good histories *)
Record HInv (o : oracle) (h w : nat) (st : rstate) (scr : screen) (E : list placement) : Prop := {
  hi_h : rh st = h;
  hi_w : rw st = w;
  hi_scr : scr_ok scr h w;
  hi_front_dims : gdims (front st) h w;
  hi_front : Good o h w (gmap (resolve o) (front st));
  hi_back : Good o h w (back st);
  hi_marks : exists u, marks st = gmake h w u
             /\ ((u = MEmpty /\ forall r c, r < h -> c < w ->
                                 gget (sgrid scr) r c = Some (den o h w (back st) r c))
                 \/ (u = MDamaged /\ back st = blank_surface h w));
  hi_pl_lo : forall i r c, img_cell (back st) i r c -> In (i, r, c) (places scr);
  hi_pl_hi : forall i r c, In (i, r, c) (places scr) -> img_cell (back st) i r c \/ In (i, r, c) E }.

Lemma hinv_init : forall o h w b E, oracle_ok o -> HInv o h w (rnew h w b) (blank_screen h w) E.
Proof.
  intros o h w b E Hok. pose proof Hok as (Hsp & Hfs & Hlaw). constructor; simpl; auto.
  - unfold blank_screen. apply scr_ok_mk. apply gdims_gmake.
  - apply gdims_gmake.
  - fold (blank_surface h w). rewrite blank_resolved. apply good_blank. auto.
  - apply good_blank. auto.
  - exists (if b then MDamaged else MEmpty). split; auto. destruct b.
    + right. auto.
    + left. split; auto. intros r c Hr Hc. rewrite gget_gmake by auto.
      fold (blank_surface h w). rewrite den_blank; auto.
  - intros i r c H. exfalso. eapply img_cell_blank; eauto.
  - intros i r c H. contradiction.
Qed.

Lemma hinv_draw : forall o h w st scr E g,
  HInv o h w st scr E -> good_surface o h w g ->
  HInv o h w (rdraw st g) scr E /\ front (rdraw st g) = g.
Proof.
  intros o h w st scr E g HI [Hd Ho].
  assert (Hdims : grid_dims g (rh st) (rw st) = true).
  { rewrite (hi_h _ _ _ _ _ _ HI), (hi_w _ _ _ _ _ _ HI). unfold in_domain in Hd.
    apply andb_true_iff in Hd. tauto. }
  unfold rdraw. rewrite Hdims. split; [|reflexivity].
  destruct HI. constructor; simpl; auto.
  - apply grid_dims_true. rewrite <- hi_h0, <- hi_w0. exact Hdims.
  - apply good_of_bool; auto.
Qed.

Lemma hinv_skip : forall o h w st scr E, oracle_ok o ->
  HInv o h w st scr E -> HInv o h w (rskip st) scr E /\ front (rskip st) = blank_surface h w.
Proof.
  intros o h w st scr E Hok HI. pose proof Hok as (Hsp & Hfs & Hlaw). destruct HI. unfold rskip. split.
  - constructor; simpl; auto.
    + rewrite hi_h0, hi_w0. apply gdims_gmake.
    + rewrite hi_h0, hi_w0. fold (blank_surface h w). rewrite blank_resolved. apply good_blank. auto.
  - simpl. rewrite hi_h0, hi_w0. reflexivity.
Qed.

(* after the commands of clear(): any front buffer [fr], blank back buffer, everything Damaged *)
Lemma hinv_clear : forall o h w st scr E fr, oracle_ok o ->
  HInv o h w st scr E -> gdims fr h w -> Good o h w (gmap (resolve o) fr) ->
  let scr' := exec_list o scr (fst (rclear st)) in
  HInv o h w (mkrstate h w fr (gmake h w cell_default) (gmake h w MDamaged)) scr' E /\ err scr' = false.
Proof.
  intros o h w st scr E fr Hok HI Hfd Hfg. pose proof Hok as (Hsp & Hfs & Hlaw). cbv zeta.
  destruct (rclear_cmds st) as [Hall Hiff].
  destruct (exec_image_erases o h w (fst (rclear st)) scr (hi_scr _ _ _ _ _ _ HI) Hall) as (Hs' & Hg & Hp).
  split; [|apply Hs'].
  constructor; simpl; auto.
  - apply good_blank. auto.
  - exists MDamaged. split; auto.
  - intros i r c H. exfalso. eapply img_cell_blank; eauto.
  - intros i r c Hin. apply Hp in Hin. destruct Hin as [Hin Hne].
    destruct (hi_pl_hi _ _ _ _ _ _ HI i r c Hin) as [Hb|He]; [|right; exact He].
    exfalso. apply Hne. apply Hiff. exact Hb.
Qed.

Lemma rstate_eta : forall st, st = mkrstate (rh st) (rw st) (front st) (back st) (marks st).
Proof. intros []. reflexivity. Qed.

Lemma hinv_frame : forall o h w st scr E, oracle_ok o ->
  HInv o h w st scr E ->
  let nw := gmap (resolve o) (front st) in
  let scr' := exec_list o scr (fst (frame o st)) in
  HInv o h w (snd (frame o st)) scr' E
  /\ front (snd (frame o st)) = blank_surface h w
  /\ back (snd (frame o st)) = nw
  /\ (forall r c, r < h -> c < w -> gget (sgrid scr') r c = Some (den o h w nw r c))
  /\ (forall i r c, img_cell nw i r c -> In (i, r, c) (places scr'))
  /\ (forall i r c, In (i, r, c) (places scr') -> img_cell nw i r c \/ In (i, r, c) E).
Proof.
  intros o h w st scr E Hok HI. pose proof Hok as (Hsp & Hfs & Hlaw). cbv zeta.
  destruct (hi_marks _ _ _ _ _ _ HI) as (u & Hm & Hmode).
  rewrite (rstate_eta st). rewrite (hi_h _ _ _ _ _ _ HI), (hi_w _ _ _ _ _ _ HI), Hm.
  assert (Hu : u = MEmpty \/ (u = MDamaged /\ back st = gmake h w cell_default)).
  { destruct Hmode as [[H _]|[H1 H2]]; auto. }
  assert (Hsync : u = MEmpty -> forall r c, r < h -> c < w ->
                                gget (sgrid scr) r c = Some (den o h w (back st) r c)).
  { intros Hue. destruct Hmode as [[_ H]|[H _]]; auto. congruence. }
  assert (Himgs : forall i r c, img_cell (back st) i r c -> In (i, r, c) (places scr)).
  { intros i r c H. apply (hi_pl_lo _ _ _ _ _ _ HI). exact H. }
  destruct (frame_correct o h w u (back st) (front st) scr Hsp Hlaw (hi_back _ _ _ _ _ _ HI)
                          (hi_front _ _ _ _ _ _ HI) (hi_front_dims _ _ _ _ _ _ HI) Hu
                          (hi_scr _ _ _ _ _ _ HI) Hsync Himgs) as (Hst & Hs' & Hg & Hp).
  rewrite Hst.
  assert (Hlo : forall i r c, img_cell (gmap (resolve o) (front st)) i r c ->
                  In (i, r, c) (places (exec_list o scr (fst (frame o (mkrstate h w (front st) (back st) (gmake h w u))))))).
  { intros i r c H. apply Hp. right. exact H. }
  assert (Hhi : forall i r c, In (i, r, c)
                  (places (exec_list o scr (fst (frame o (mkrstate h w (front st) (back st) (gmake h w u))))))
                -> img_cell (gmap (resolve o) (front st)) i r c \/ In (i, r, c) E).
  { intros i r c H. apply Hp in H. destruct H as [[Hin Hne]|H]; auto.
    destruct (hi_pl_hi _ _ _ _ _ _ HI i r c Hin) as [Hb|He]; auto. contradiction. }
  split; [|split; [reflexivity|split; [reflexivity|split; [exact Hg|split; [exact Hlo|exact Hhi]]]]].
  constructor; simpl; auto.
  - apply gdims_gmake.
  - fold (blank_surface h w). rewrite blank_resolved. apply good_blank. auto.
  - apply (hi_front _ _ _ _ _ _ HI).
  - exists MEmpty. split; auto.
Qed.

(* ---------- comparing displays ---------- *)
Lemma glyph_eqb_refl : forall g, glyph_eqb g g = true.
Proof. intros [| c | c | |]; simpl; auto; apply N.eqb_refl. Qed.

Lemma row_eqb_refl : forall row, row_eqb row row = true.
Proof.
  induction row as [|[g f] row IH]; simpl; auto.
  unfold scell_eqb. simpl. rewrite glyph_eqb_refl, N.eqb_refl, IH. reflexivity.
Qed.

Lemma sgrid_eqb_refl : forall g, sgrid_eqb g g = true.
Proof. induction g as [|row g IH]; simpl; auto. rewrite row_eqb_refl, IH. reflexivity. Qed.

Lemma display_same : forall a b h w,
  scr_ok a h w -> scr_ok b h w ->
  (forall r c, r < h -> c < w -> gget (sgrid a) r c = gget (sgrid b) r c) ->
  (forall i r c, In (i, r, c) (places a) <-> In (i, r, c) (places b)) ->
  same_display a b = true.
Proof.
  intros a b h w (_ & _ & Hea & Hda) (_ & _ & Heb & Hdb) Hg Hp. unfold same_display.
  rewrite (grid_ext (sgrid a) (sgrid b) h w Hda Hdb Hg), sgrid_eqb_refl, Hea, Heb. simpl.
  unfold places_eqb, places_subset. rewrite !andb_true_r. apply andb_true_iff. split.
  - apply forallb_forall. intros [[i r] c] Hin. apply place_mem_in. apply Hp. exact Hin.
  - apply forallb_forall. intros [[i r] c] Hin. apply place_mem_in. apply Hp. exact Hin.
Qed.

Lemma display_upto_ok : forall E a b h w,
  scr_ok a h w -> scr_ok b h w ->
  (forall r c, r < h -> c < w -> gget (sgrid a) r c = gget (sgrid b) r c) ->
  (forall i r c, In (i, r, c) (places b) -> In (i, r, c) (places a)) ->
  (forall i r c, In (i, r, c) (places a) -> In (i, r, c) (places b) \/ In (i, r, c) E) ->
  display_upto E a b = true.
Proof.
  intros E a b h w (_ & _ & Hea & Hda) (_ & _ & Heb & Hdb) Hg Hlo Hhi. unfold display_upto.
  rewrite (grid_ext (sgrid a) (sgrid b) h w Hda Hdb Hg), sgrid_eqb_refl, Hea, Heb. simpl.
  unfold places_subset. rewrite !andb_true_r. apply andb_true_iff. split.
  - apply forallb_forall. intros [[i r] c] Hin. apply place_mem_in. apply in_or_app. apply Hhi. exact Hin.
  - apply forallb_forall. intros [[i r] c] Hin. apply place_mem_in. apply Hlo. exact Hin.
Qed.

(* with no leftovers this is [same_display] *)
Lemma display_upto_nil : forall a b, display_upto [] a b = same_display a b.
Proof. intros. unfold display_upto, same_display, places_eqb. rewrite app_nil_r. reflexivity. Qed.

Lemma frame_shows_upto : forall o h w st scr E, oracle_ok o ->
  HInv o h w st scr E ->
  display_upto E (exec_list o scr (fst (frame o st))) (show o h w (front st)) = true.
Proof.
  intros o h w st scr E Hok HI. pose proof Hok as (Hsp & Hfs & Hlaw).
  destruct (hinv_frame o h w st scr E Hok HI) as (HI' & _ & _ & Hg & Hlo & Hhi).
  destruct (show_den o h w (front st) Hsp Hlaw (hi_front_dims _ _ _ _ _ _ HI) (hi_front _ _ _ _ _ _ HI))
    as (Hs2 & Hg2 & Hp2).
  apply (display_upto_ok E _ _ h w).
  - apply HI'.
  - exact Hs2.
  - intros r c Hr Hc. rewrite Hg, Hg2; auto.
  - intros i r c H. apply Hlo. apply Hp2. exact H.
  - intros i r c H. destruct (Hhi i r c H) as [H1|H1]; [left; apply Hp2; exact H1|right; exact H1].
Qed.

Lemma frame_shows : forall o h w st scr, oracle_ok o ->
  HInv o h w st scr [] ->
  same_display (exec_list o scr (fst (frame o st))) (show o h w (front st)) = true.
Proof. intros. rewrite <- display_upto_nil. eapply frame_shows_upto; eauto. Qed.

(* ---------- histories ---------- *)
Fixpoint run (o : oracle) (st : rstate) (scr : screen) (ops : list op) : rstate * screen :=
  match ops with
  | [] => (st, scr)
  | x :: ops' => run o (snd (rstep o st x)) (screen_step o scr x (fst (rstep o st x))) ops'
  end.

Definition step_size (h w : nat) (x : op) : nat * nat :=
  match x with Resize h' w' _ => (h', w') | _ => (h, w) end.

Definition good_op (o : oracle) (h w : nat) (x : op) : Prop :=
  match x with
  | Draw g => good_surface o h w g
  | Resize h' w' g => gdims g h' w'
  | FailFrame _ => False
  | _ => True
  end.

Lemma hinv_step : forall o h w st scr E x, oracle_ok o ->
  HInv o h w st scr E -> good_op o h w x ->
  HInv o (fst (step_size h w x)) (snd (step_size h w x))
       (snd (rstep o st x)) (screen_step o scr x (fst (rstep o st x))) E.
Proof.
  intros o h w st scr E x Hok HI Hgood. pose proof Hok as (Hsp & Hfs & Hlaw).
  destruct x as [g| | | | |h' w' g|k]; unfold screen_step; cbn [rstep fst snd step_size]; [| | | | | |contradiction].
  - apply hinv_draw; auto.
  - apply hinv_frame; auto.
  - apply hinv_skip; auto.
  - rewrite rclear_state, (hi_h _ _ _ _ _ _ HI), (hi_w _ _ _ _ _ _ HI).
    apply (hinv_clear o h w st scr E (gmake h w cell_default)); auto.
    + apply gdims_gmake.
    + fold (blank_surface h w). rewrite blank_resolved. apply good_blank. auto.
  - rewrite (hi_h _ _ _ _ _ _ HI), (hi_w _ _ _ _ _ _ HI).
    apply (hinv_clear o h w st scr E (gmake h w cell_default)); auto.
    + apply gdims_gmake.
    + fold (blank_surface h w). rewrite blank_resolved. apply good_blank. auto.
  - (* resize: the renderer's own placements were erased by clear(); the new screen is arbitrary *)
    destruct (hinv_clear o h w st scr E (gmake h w cell_default) Hok HI (gdims_gmake _ _ _)) as [HI1 He].
    { fold (blank_surface h w). rewrite blank_resolved. apply good_blank. auto. }
    simpl in Hgood.
    constructor; cbn [rnew rh rw front back marks sgrid places]; auto.
    + apply scr_ok_mk'. exact He. exact Hgood.
    + apply gdims_gmake.
    + fold (blank_surface h' w'). rewrite blank_resolved. apply good_blank. auto.
    + apply good_blank. auto.
    + exists MDamaged. split; auto.
    + intros i r c H. exfalso. eapply img_cell_blank; eauto.
    + intros i r c H. destruct (hi_pl_hi _ _ _ _ _ _ HI1 i r c H) as [Hb|Hx]; [|right; exact Hx].
      exfalso. cbn [back] in Hb. eapply img_cell_blank; eauto.
Qed.

Lemma good_ops_head : forall o h w x ops,
  good_ops o h w (x :: ops) ->
  good_op o h w x /\ good_ops o (fst (step_size h w x)) (snd (step_size h w x)) ops.
Proof. intros o h w [g| | | | |h' w' g|k] ops H; simpl in *; tauto. Qed.

Lemma run_inv : forall o ops h w st scr E, oracle_ok o ->
  HInv o h w st scr E -> good_ops o h w ops ->
  HInv o (fst (size_after h w ops)) (snd (size_after h w ops))
       (fst (run o st scr ops)) (snd (run o st scr ops)) E.
Proof.
  intros o. induction ops as [|x ops IH]; intros h w st scr E Hok HI Hgood; simpl; auto.
  apply good_ops_head in Hgood. destruct Hgood as [Hx Hrest].
  pose proof (hinv_step o h w st scr E x Hok HI Hx) as HI'.
  specialize (IH _ _ _ _ _ Hok HI' Hrest).
  destruct x; exact IH.
Qed.

Lemma run_app : forall o ops1 ops2 st scr,
  run o st scr (ops1 ++ ops2) = run o (fst (run o st scr ops1)) (snd (run o st scr ops1)) ops2.
Proof. intros o. induction ops1; intros; simpl; auto. Qed.

Lemma good_ops_app : forall o ops1 ops2 h w,
  good_ops o h w (ops1 ++ ops2) <->
  good_ops o h w ops1 /\ good_ops o (fst (size_after h w ops1)) (snd (size_after h w ops1)) ops2.
Proof.
  intros o. induction ops1 as [|x ops1 IH]; intros ops2 h w; simpl.
  - tauto.
  - destruct x; simpl; rewrite ?IH; tauto.
Qed.

(* the screen after every frame of every history is the denotation of the surface drawn for it *)
Theorem history_spec_run : forall o ops h w st scr, oracle_ok o ->
  HInv o h w st scr [] -> good_ops o h w ops ->
  spec_run o h w scr (front st) ops (rrun o st ops) = true.
Proof.
  intros o. induction ops as [|x ops IH]; intros h w st scr Hok HI Hgood; [reflexivity|].
  pose proof Hok as (Hsp & Hfs & Hlaw).
  apply good_ops_head in Hgood. destruct Hgood as [Hx Hgood'].
  pose proof (hinv_step o h w st scr [] x Hok HI Hx) as HI'.
  assert (Herr : err (screen_step o scr x (fst (rstep o st x))) = false) by apply HI'.
  pose proof (IH _ _ _ _ Hok HI' Hgood') as Hrest.
  cbn [rrun]. rewrite (surjective_pairing (rstep o st x)). cbn [spec_run].
  rewrite Herr. cbn [negb andb].
  destruct x as [g| | | | |h' w' g|k]; [| | | | | |contradiction].
  - cbn [rstep fst snd step_size] in *. destruct (hinv_draw o h w st scr [] g HI Hx) as [_ Hf].
    rewrite Hf in Hrest. exact Hrest.
  - cbn [rstep step_size fst snd] in *. unfold screen_step in *.
    rewrite (frame_shows o h w st scr Hok HI). cbn [andb].
    destruct (hinv_frame o h w st scr [] Hok HI) as (_ & Hf & _). unfold blank_surface in Hf.
    rewrite Hf in Hrest. exact Hrest.
  - cbn [rstep fst snd step_size] in *. destruct (hinv_skip o h w st scr [] Hok HI) as [_ Hf]. unfold blank_surface in Hf.
    rewrite Hf in Hrest. exact Hrest.
  - cbn [rstep step_size fst snd] in *. rewrite rclear_state in *.
    rewrite (hi_h _ _ _ _ _ _ HI), (hi_w _ _ _ _ _ _ HI) in *. exact Hrest.
  - cbn [rstep fst snd step_size] in *.
    rewrite (hi_h _ _ _ _ _ _ HI), (hi_w _ _ _ _ _ _ HI) in *. exact Hrest.
  - cbn [rstep fst snd step_size] in *. exact Hrest.
Qed.

Theorem history_final : forall o h w ops s, oracle_ok o ->
  good_ops o h w ops ->
  good_surface o (fst (size_after h w ops)) (snd (size_after h w ops)) s ->
  same_display (snd (run o (rnew h w false) (blank_screen h w) (ops ++ [Draw s; Frame])))
               (show o (fst (size_after h w ops)) (snd (size_after h w ops)) s) = true.
Proof.
  intros o h w ops s Hok Hgood Hs. pose proof Hok as (Hsp & Hfs & Hlaw). rewrite run_app.
  pose proof (run_inv o ops h w _ _ [] Hok (hinv_init o h w false [] Hok) Hgood) as HI.
  set (st := fst (run o (rnew h w false) (blank_screen h w) ops)) in *.
  set (scr := snd (run o (rnew h w false) (blank_screen h w) ops)) in *.
  set (h1 := fst (size_after h w ops)) in *. set (w1 := snd (size_after h w ops)) in *.
  cbn [run rstep fst snd]. unfold screen_step.
  destruct (hinv_draw o h1 w1 st scr [] s HI Hs) as [HI1 Hf].
  cbn [exec_list fold_left].
  pose proof (frame_shows o h1 w1 (rdraw st s) scr Hok HI1) as H. rewrite Hf in H. exact H.
Qed.

Theorem forced_repaint : forall o h w s scr, oracle_ok o ->
  good_surface o h w s -> scr_ok scr h w ->
  let scr' := exec_list o scr (fst (frame o (rdraw (rnew h w true) s))) in
  sgrid scr' = sgrid (show o h w s) /\ err scr' = false
  /\ forall i r c, In (i, r, c) (places scr') <->
                    (In (i, r, c) (places scr) \/ In (i, r, c) (places (show o h w s))).
Proof.
  intros o h w s scr Hok [Hd Ho] Hs. pose proof Hok as (Hsp & Hfs & Hlaw). cbv zeta.
  assert (Hdims : gdims s h w).
  { unfold in_domain in Hd. apply andb_true_iff in Hd. apply grid_dims_true. tauto. }
  assert (Hdb : grid_dims s h w = true) by (apply grid_dims_true; exact Hdims).
  unfold rdraw. cbn [rnew rh rw front back marks]. rewrite Hdb.
  pose proof (good_of_bool o h w s Hd Ho) as GN.
  destruct (frame_correct o h w MDamaged (gmake h w cell_default) s scr Hsp Hlaw (good_blank o h w Hsp) GN Hdims
                          (or_intror (conj eq_refl eq_refl)) Hs) as (_ & Hs' & Hg & Hp).
  { intros H. discriminate. }
  { intros i r c H. exfalso. eapply img_cell_blank; eauto. }
  destruct (show_den o h w s Hsp Hlaw Hdims GN) as (Hs2 & Hg2 & Hp2).
  split; [|split].
  - apply (grid_ext _ _ h w). apply Hs'. apply Hs2. intros r c Hr Hc. rewrite Hg, Hg2; auto.
  - apply Hs'.
  - intros i r c. rewrite Hp, Hp2. unfold img_cell. split.
    + intros [[H _]|H]; auto.
    + intros [H|H]; auto. left. split; auto. intros Hb. eapply img_cell_blank; eauto.
Qed.

(* clear() on a terminal in an arbitrary state, then the application draws, then frame() *)
Theorem clear_then_frame : forall o h w st scr s, oracle_ok o ->
  rh st = h -> rw st = w -> good_surface o h w s -> scr_ok scr h w ->
  let scr1 := exec_list o scr (fst (rclear st)) in
  let scr' := exec_list o scr1 (fst (frame o (rdraw (snd (rclear st)) s))) in
  sgrid scr' = sgrid (show o h w s) /\ err scr' = false.
Proof.
  intros o h w st scr s Hok Hh Hw Hs Hscr. cbv zeta.
  destruct (rclear_cmds st) as [Hall _].
  destruct (exec_image_erases o h w (fst (rclear st)) scr Hscr Hall) as (Hs1 & _ & _).
  rewrite rclear_state, Hh, Hw.
  destruct (forced_repaint o h w s _ Hok Hs Hs1) as (Hg & He & _). auto.
Qed.
