(* Model of Cell::layout (src/render.rs:120-178), the single routine shared by
   measuring (Text::layout, str::layout) and writing (TerminalWriter::put_cell).
   Executable definitions only.

   Positions and sizes are `nat` (unbounded): the additions `cursor.col +
   cell_size.width`, `cursor.row + 1`, `cursor.row + cell_size.height` are the
   only machine additions in the routine; they overflow only for cell sizes
   or texts of more than 2^63 cells, which is outside the model (stated in
   design/C09.md). *)
From Coq Require Import List Arith Bool NArith.
Import ListNotations.

(* tracked total size (height, width) and cursor (row, col) *)
Record lst := mkL { l_h : nat; l_w : nat; l_r : nat; l_c : nat }.

Definition l0 : lst := mkL 0 0 0 0.

(* what Cell::layout distinguishes: the three special characters, and everything
   else by its size in cells (Cell::size) *)
Inductive lcell := LNl | LCr | LTab | LSized (h w : nat).

Definition layout_step (maxw : nat) (wraps : bool) (s : lst) (c : lcell) : lst * option (nat * nat) :=
  match c with
  | LNl =>
      (mkL (Nat.max (l_h s) (l_r s + 1)) (Nat.max (l_w s) (l_c s)) (l_r s + 1) 0, None)
  | LCr => (mkL (l_h s) (l_w s) (l_r s) 0, None)
  | LTab =>
      (* cursor.col += (8 - cursor.col % 8).min(max_width.saturating_sub(cursor.col)) *)
      let col := l_c s + Nat.min (8 - l_c s mod 8) (maxw - l_c s) in
      (mkL (l_h s) (Nat.max (l_w s) col) (l_r s) col, None)
  | LSized h w =>
      if (h =? 0) || (w =? 0) then (s, None)
      else if l_c s + w <=? maxw then
        (mkL (Nat.max (l_h s) (l_r s + h)) (Nat.max (l_w s) (l_c s + w)) (l_r s) (l_c s + w),
         Some (l_r s, l_c s))
      else if negb wraps then (s, None)
      else
        let r := l_r s + 1 in
        let col := Nat.min w maxw in
        (mkL (Nat.max (Nat.max (l_h s) r) (r + h)) (Nat.max (l_w s) col) r col, Some (r, 0))
  end.

(* a whole sequence: final state and the position (if any) handed out per cell *)
Fixpoint lrun (maxw : nat) (wraps : bool) (s : lst) (cs : list lcell) : lst * list (option (nat * nat)) :=
  match cs with
  | [] => (s, [])
  | c :: t =>
      let '(s1, p) := layout_step maxw wraps s c in
      let '(s2, ps) := lrun maxw wraps s1 t in
      (s2, p :: ps)
  end.

(* ---------- cells ---------- *)
(* Face with colours as opaque N codes.  The harness only uses opaque colours (alpha 255),
   for which RGBA::blend_over returns the source colour. *)
Record face := mkFace { f_fg : option N; f_bg : option N; f_attrs : N }.

Definition face0 : face := mkFace None None 0%N.

Definition ov_color (dst src : option N) : option N :=
  match dst, src with
  | Some _, Some s => Some s
  | d, None => d
  | None, s => s
  end.

(* Face::overlay (src/face.rs:273) *)
Definition overlay (self other : face) : face :=
  mkFace (ov_color (f_fg self) (f_fg other)) (ov_color (f_bg self) (f_bg other))
         (if N.eqb (f_attrs other) 0%N then f_attrs self else f_attrs other).

(* CellKind: a character; a glyph (identity, size in cells, fallback text); an image
   (identity, size in cells as computed by Image::size_cells for the context) *)
Inductive kind :=
| KChar (ch : N)
| KGlyph (id : N) (h w : nat) (fb : list N)
| KImage (id : N) (h w : nat).

Record ccell := mkCell { c_face : face; c_kind : kind }.

(* a compiled automaton as dumped from the crate: start state, transitions as
   (from, lowest symbol, highest symbol, to), per state (accepting, terminal, first tag) *)
Record dfa := mkDfa {
  d_start : nat;
  d_trans : list (nat * N * N * nat);
  d_info : list (bool * bool * nat) }.

Definition dfa0 : dfa := mkDfa 0 [] [].

(* rendering context: glyph support; the char-width oracle (unicode-width), given as a table
   of the characters whose width is not 1; for the escape-sequence writer the automaton of
   TTYCommandDecoder and the effect of each SGR sequence on a face (FaceModify::apply after
   sgr_face, the subject of C06), given as a table ((sequence bytes, face before), face after) *)
Record rctx := mkCtx {
  has_glyphs : bool;
  cw_tab : list (N * nat);
  cmd_dfa : dfa;
  sgr_tab : list (list N * face * face) }.

Fixpoint cw_lookup (tab : list (N * nat)) (ch : N) : nat :=
  match tab with
  | [] => 1
  | (k, w) :: t => if N.eqb k ch then w else cw_lookup t ch
  end.

Definition cw (ctx : rctx) (ch : N) : nat := cw_lookup (cw_tab ctx) ch.

Definition sum_widths (ctx : rctx) (fb : list N) : nat := fold_right (fun ch a => cw ctx ch + a) 0 fb.

(* the view Cell::layout takes of a cell (special characters first, then Cell::size) *)
Definition classify (ctx : rctx) (k : kind) : lcell :=
  match k with
  | KChar ch =>
      if N.eqb ch 10 then LNl else if N.eqb ch 13 then LCr else if N.eqb ch 9 then LTab
      else LSized 1 (cw ctx ch)
  | KGlyph _ h w fb => if has_glyphs ctx then LSized h w else LSized 1 (sum_widths ctx fb)
  | KImage _ h w => LSized h w
  end.

(* what TerminalWriter::put_cell does first: without glyph support a glyph is replaced
   by the characters of its fallback string carrying the glyph cell's face *)
Definition expand1 (ctx : rctx) (c : ccell) : list ccell :=
  match c_kind c with
  | KGlyph _ _ _ fb => if has_glyphs ctx then [c] else map (fun ch => mkCell (c_face c) (KChar ch)) fb
  | _ => [c]
  end.

Definition expand (ctx : rctx) (cs : list ccell) : list ccell := flat_map (expand1 ctx) cs.

(* ---------- Text::layout (src/view/text.rs:185) ---------- *)
(* the tracked size after measuring every cell, before the clamp to the constraint.
   As repaired (fix: commit): a glyph on a terminal without glyph support is measured
   through its fallback characters, one by one, exactly as put_cell writes them. *)
Definition text_size (ctx : rctx) (cells : list ccell) (wraps : bool) (maxw : nat) : nat * nat :=
  let s := fst (lrun maxw wraps l0 (map (fun c => classify ctx (c_kind c)) (expand ctx cells))) in
  (l_h s, l_w s).

(* the code before the repair: every cell, glyph or not, measured as one unit *)
Definition text_size_unit (ctx : rctx) (cells : list ccell) (wraps : bool) (maxw : nat) : nat * nat :=
  let s := fst (lrun maxw wraps l0 (map (fun c => classify ctx (c_kind c)) cells)) in
  (l_h s, l_w s).

(* BoxConstraint::clamp / Size::clamp = Ord::clamp per axis (asserts lo <= hi; callers
   of this model only use it under that hypothesis) *)
Definition clamp_nat (v lo hi : nat) : nat := if v <? lo then lo else if hi <? v then hi else v.

(* ---------- specification vocabulary ---------- *)
(* printable = takes part in the layout as a sized cell with non-zero extent *)
Definition printable (ctx : rctx) (c : ccell) : bool :=
  match classify ctx (c_kind c) with
  | LSized h w => negb ((h =? 0) || (w =? 0))
  | _ => false
  end.

(* the printable cells of a text, glyphs replaced by their fallback characters when the
   terminal has no glyph support *)
Definition printables (ctx : rctx) (cells : list ccell) : list ccell := filter (printable ctx) (expand ctx cells).

Definition is_cr (ctx : rctx) (c : ccell) : bool :=
  match classify ctx (c_kind c) with LCr => true | _ => false end.

(* no carriage return among the cells that get written (a CR deliberately moves back over
   cells already written on the line) *)
Definition no_cr (ctx : rctx) (cells : list ccell) : bool := forallb (fun c => negb (is_cr ctx c)) (expand ctx cells).

(* Reference semantics of writing WITHOUT wrapping on lines of width w: cells are placed left
   to right; a cell whose right end would lie beyond the right edge is dropped and leaves the
   column unchanged; newline starts the next row, tab advances to the next multiple of 8 but
   not beyond the edge.  One entry per printable cell: its position, or None if dropped. *)
Fixpoint nowrap_place (w : nat) (cs : list lcell) (row col : nat) : list (option (nat * nat)) :=
  match cs with
  | [] => []
  | LNl :: t => nowrap_place w t (row + 1) 0
  | LCr :: t => nowrap_place w t row 0
  | LTab :: t => nowrap_place w t row (col + Nat.min (8 - col mod 8) (w - col))
  | LSized h cw :: t =>
      if (h =? 0) || (cw =? 0) then nowrap_place w t row col
      else if col + cw <=? w then Some (row, col) :: nowrap_place w t row (col + cw)
      else None :: nowrap_place w t row col
  end.

(* the cells (aligned with the entries) that a placement keeps *)
Fixpoint keep_placed {A} (xs : list A) (ps : list (option (nat * nat))) : list A :=
  match xs, ps with
  | x :: xt, Some _ :: pt => x :: keep_placed xt pt
  | _ :: xt, None :: pt => keep_placed xt pt
  | _, _ => []
  end.
