(* Model of the surface writer (src/render.rs): TerminalWriter::put_cell with the
   glyph fallback expansion, the overlay of the placed cell, the face fill of cells
   skipped by tab / newline; the stateful UTF-8 decoder (src/decoder.rs:75-142) inside
   the io::Write adapters; Text (src/view/text.rs) as a cell accumulator and as a view.
   Executable definitions only. *)
From Coq Require Import List Arith Bool NArith ZArith.
From SNT Require Import Base.Outcome Surface.Bounds Surface.Shape Render.CellLayout.
Import ListNotations.

(* ---------- Utf8Decoder ---------- *)
(* state of the DFA of utf8_nfa(Canonical) = number of continuation bytes still expected,
   plus the bytes buffered so far *)
Record ustate := mkU { u_need : nat; u_buf : list N }.
Definition u0 : ustate := mkU 0 [].

Inductive ures := UNone | UChar (ch : N) | UErr.

(* utf8_decode (src/decoder.rs:1326) on a validated buffer *)
Definition utf8_value (buf : list N) : N :=
  match buf with
  | [] => 0%N
  | first :: rest =>
      let mask := match length rest with O => 127%N | 1 => 31%N | 2 => 15%N | _ => 7%N end in
      fold_left (fun code b => N.lor (N.shiftl code 6) (N.land b 63)) rest (N.land first mask)
  end.

(* char::from_u32: surrogates and values above U+10FFFF are not characters *)
Definition scalar_ok (v : N) : bool := (v <? 55296)%N || ((57343 <? v)%N && (v <? 1114112)%N).

(* utf8_decode returns None for such values: Utf8Decoder::decode then fails like on a malformed byte *)
Definition utf8_char (buf : list N) : ures :=
  let v := utf8_value buf in if scalar_ok v then UChar v else UErr.

(* one byte through Utf8Decoder::decode: a failed transition resets the decoder and is an
   error (the offending byte is consumed); an accepting state yields the character and resets *)
Definition utf8_feed (s : ustate) (b : N) : ustate * ures :=
  match u_need s with
  | O =>
      if (b <? 128)%N then (u0, utf8_char [b])
      else if (N.shiftr b 5 =? 6)%N then (mkU 1 [b], UNone)
      else if (N.shiftr b 4 =? 14)%N then (mkU 2 [b], UNone)
      else if (N.shiftr b 3 =? 30)%N then (mkU 3 [b], UNone)
      else (u0, UErr)
  | S k =>
      if (N.shiftr b 6 =? 2)%N then
        match k with
        | O => (u0, utf8_char (u_buf s ++ [b]))
        | S _ => (mkU k (u_buf s ++ [b]), UNone)
        end
      else (u0, UErr)
  end.

(* ---------- TerminalWriter ---------- *)
Record wstate := mkW {
  w_wraps : bool;           (* wraps flag *)
  w_face : face;            (* face underlaid over all cells *)
  w_l : lst;                (* actual used size + cursor *)
  w_sh : shape;             (* shape of the view being written *)
  w_data : list ccell;      (* the whole backing slice (data_mut) *)
  w_dec : ustate }.         (* Utf8Decoder of the io::Write impl *)

Definition writer_new (sh : shape) (data : list ccell) : wstate := mkW true face0 l0 sh data u0.

Definition set_l (st : wstate) (l : lst) : wstate :=
  mkW (w_wraps st) (w_face st) l (w_sh st) (w_data st) (w_dec st).
Definition set_data (st : wstate) (d : list ccell) : wstate :=
  mkW (w_wraps st) (w_face st) (w_l st) (w_sh st) d (w_dec st).
Definition set_dec (st : wstate) (u : ustate) : wstate :=
  mkW (w_wraps st) (w_face st) (w_l st) (w_sh st) (w_data st) u.
Definition set_face (st : wstate) (f : face) : wstate :=
  mkW (w_wraps st) f (w_l st) (w_sh st) (w_data st) (w_dec st).
Definition set_wraps (st : wstate) (b : bool) : wstate :=
  mkW b (w_face st) (w_l st) (w_sh st) (w_data st) (w_dec st).

(* replace element k (no effect when k is out of range; callers test the index first) *)
Fixpoint list_upd {A} (l : list A) (k : nat) (x : A) : list A :=
  match l, k with
  | [], _ => []
  | _ :: t, O => x :: t
  | h :: t, S k' => h :: list_upd t k' x
  end.

(* Cell::overlay *)
Definition cell_overlay (old new : ccell) : ccell :=
  mkCell (overlay (c_face old) (c_face new)) (c_kind new).

(* the fill loop of put_cell (src/render.rs:887-905):
     for row in cursor_start.row..min(cursor.row + 1, shape.height)
       for col in 0..shape.width
         offset = shape.offset(row, col)
         if (start..end).contains(&offset) { data[offset].face = data[offset].face.overlay(&face) }
   data[offset] panics when the offset is outside the slice *)
Definition fill_cell (sh : shape) (lo hi : nat) (f : face) (acc : outcome (list ccell)) (p : nat * nat)
  : outcome (list ccell) :=
  match acc with
  | Ok d =>
      let off := offset sh (fst p) (snd p) in
      if (lo <=? off) && (off <? hi) then
        match nth_error d off with
        | None => Panic 900
        | Some old => Ok (list_upd d off (mkCell (overlay (c_face old) f) (c_kind old)))
        end
      else Ok d
  | other => other
  end.

Definition fill_positions (sh : shape) (r0 r1 : nat) : list (nat * nat) :=
  let rend := Nat.min (r1 + 1) (sh_height sh) in
  flat_map (fun r => map (fun c => (r, c)) (seq 0 (sh_width sh))) (seq r0 (rend - r0)).

Definition face_fill (sh : shape) (data : list ccell) (f : face) (r0 c0 r1 c1 : nat) : outcome (list ccell) :=
  fold_left (fill_cell sh (offset sh r0 c0) (offset sh r1 c1) f) (fill_positions sh r0 r1) (Ok data).

(* put_cell below the glyph fallback: layout, then overlay at the position iff it exists in
   the view, or face fill if a special character moved the cursor *)
Definition put_simple (ctx : rctx) (st : wstate) (c : ccell) : outcome (wstate * bool) :=
  let sh := w_sh st in
  let f := overlay (w_face st) (c_face c) in
  let l := w_l st in
  let '(l', pos) := layout_step (sh_width sh) (w_wraps st) l (classify ctx (c_kind c)) in
  match pos with
  | Some (r, cc) =>
      if (sh_height sh <=? r) || (sh_width sh <=? cc) then Ok (set_l st l', false)
      else
        match nth_error (w_data st) (offset sh r cc) with
        | None => Ok (set_l st l', false)
        | Some old =>
            Ok (set_data (set_l st l') (list_upd (w_data st) (offset sh r cc) (cell_overlay old (mkCell f (c_kind c)))),
                true)
        end
  | None =>
      if (l_r l =? l_r l') && (l_c l =? l_c l') then Ok (set_l st l', true)
      else
        match face_fill sh (w_data st) f (l_r l) (l_c l) (l_r l') (l_c l') with
        | Ok d => Ok (set_data (set_l st l') d, true)
        | Err e => Err e
        | Panic s => Panic s
        | OutOfFuel => OutOfFuel
        end
  end.

(* Iterator::all over the fallback characters: stops at the first `false` *)
Fixpoint put_all (ctx : rctx) (st : wstate) (cs : list ccell) : outcome (wstate * bool) :=
  match cs with
  | [] => Ok (st, true)
  | c :: t =>
      match put_simple ctx st c with
      | Ok (st', true) => put_all ctx st' t
      | other => other
      end
  end.

(* TerminalWriter::put_cell *)
Definition put_cell (ctx : rctx) (st : wstate) (c : ccell) : outcome (wstate * bool) :=
  match c_kind c with
  | KGlyph _ _ _ fb =>
      if has_glyphs ctx then put_simple ctx st c
      else put_all ctx st (map (fun ch => mkCell (c_face c) (KChar ch)) fb)
  | _ => put_simple ctx st c
  end.

(* CellWrite::put_char / put_glyph / put_image: the cell is built with the writer's
   current face (images with the default face) *)
Definition put_char (ctx : rctx) (st : wstate) (ch : N) : outcome (wstate * bool) :=
  put_cell ctx st (mkCell (w_face st) (KChar ch)).

(* impl io::Write for TerminalWriter (as repaired: no early return after a put that reported
   "out of space"): bytes through the decoder; every decoded character is put, the result of
   the put ignored; a decoding error is returned to the caller (WErr) and ends the call;
   otherwise the whole buffer was processed (WDone). *)
Inductive wstat := WDone | WErr.

Definition wstat_ok (s : wstat) : bool := match s with WErr => false | _ => true end.

Fixpoint write_bytes (ctx : rctx) (st : wstate) (bytes : list N) : outcome (wstate * wstat) :=
  match bytes with
  | [] => Ok (st, WDone)
  | b :: rest =>
      let '(u, r) := utf8_feed (w_dec st) b in
      let st1 := set_dec st u in
      match r with
      | UNone => write_bytes ctx st1 rest
      | UErr => Ok (st1, WErr)
      | UChar ch =>
          match put_char ctx st1 ch with
          | Ok (st2, _) => write_bytes ctx st2 rest
          | Err e => Err e
          | Panic s => Panic s
          | OutOfFuel => OutOfFuel
          end
      end
  end.

(* a caller issuing one write per chunk and giving up at the first error (write_all / `?`);
   the flag says whether every call returned Ok *)
Fixpoint write_chunks (ctx : rctx) (st : wstate) (chunks : list (list N)) : outcome (wstate * bool) :=
  match chunks with
  | [] => Ok (st, true)
  | ch :: rest =>
      match write_bytes ctx st ch with
      | Ok (st', WErr) => Ok (st', false)
      | Ok (st', WDone) => write_chunks ctx st' rest
      | Err e => Err e
      | Panic s => Panic s
      | OutOfFuel => OutOfFuel
      end
  end.

(* ---------- TTYCommandDecoder (MatcherDecoder, src/decoder.rs:190-301) ---------- *)
Fixpoint d_delta_in (tr : list (nat * N * N * nat)) (q : nat) (b : N) : option nat :=
  match tr with
  | [] => None
  | (f, lo, hi, t) :: rest =>
      if (f =? q) && (lo <=? b)%N && (b <=? hi)%N then Some t else d_delta_in rest q b
  end.

Definition d_delta (d : dfa) (q : nat) (b : N) : option nat := d_delta_in (d_trans d) q b.
Definition d_inf (d : dfa) (q : nat) : bool * bool * nat := nth q (d_info d) (false, false, 0).

(* what the writer distinguishes among decoded commands *)
Inductive titem :=
| TChar (ch : N)           (* TerminalCommand::Char *)
| TFace (seq : list N)     (* TerminalCommand::FaceModify(sgr_face(..)), identified by the matched bytes *)
| TRaw (bytes : list N).   (* unrecognised bytes: TerminalCommand::Raw, ignored by the writer *)

Record tstate := mkT {
  t_q : nat;                          (* automata_state *)
  t_buf : list N;                     (* bytes consumed since the automaton was last reset *)
  t_resched : list N;                 (* rescheduled bytes, next to be re-parsed first *)
  t_cand : option (titem * nat) }.    (* item_candidate: item and buffer length at that point *)

Definition t0 (d : dfa) : tstate := mkT (d_start d) [] [] None.

(* matchers of TTY_COMMAND_AUTOMATA: 0 = SGR, 1 = UTF-8 character *)
Definition decode_item (tag : nat) (buf : list N) : titem :=
  match tag with
  | O => TFace buf
  | 1 => if scalar_ok (utf8_value buf) then TChar (utf8_value buf) else TRaw buf
  | _ => TRaw buf
  end.

(* take_candidate: bytes consumed after the candidate go back, in order, in front of the
   bytes already waiting *)
Definition take_candidate (d : dfa) (st : tstate) : option (tstate * titem) :=
  match t_cand st with
  | Some (item, size) => Some (mkT (d_start d) [] (skipn size (t_buf st) ++ t_resched st) None, item)
  | None => None
  end.

(* decode_byte *)
Definition decode_byte (d : dfa) (st : tstate) (b : N) : tstate * option titem :=
  let buf := t_buf st ++ [b] in
  match d_delta d (t_q st) b with
  | Some q' =>
      let '(acc, term, tag) := d_inf d q' in
      if acc then
        let st1 := mkT q' buf (t_resched st) (Some (decode_item tag buf, length buf)) in
        if term then
          match take_candidate d st1 with
          | Some (st2, item) => (st2, Some item)
          | None => (st1, None)
          end
        else (st1, None)
      else (mkT q' buf (t_resched st) (t_cand st), None)
  | None =>
      match take_candidate d (mkT (t_q st) buf (t_resched st) (t_cand st)) with
      | Some (st2, item) => (st2, Some item)
      | None =>
          if 1 <? length buf then (mkT (d_start d) [] (b :: t_resched st) None, Some (TRaw (t_buf st)))
          else (mkT (d_start d) [] (t_resched st) None, Some (TRaw buf))
      end
  end.

Definition olist {A} (o : option A) : list A := match o with Some x => [x] | None => [] end.

(* rescheduled bytes are parsed again before any new input *)
Fixpoint drain (d : dfa) (fuel : nat) (st : tstate) : outcome (tstate * list titem) :=
  match t_resched st with
  | [] => Ok (st, [])
  | b :: r =>
      match fuel with
      | O => OutOfFuel
      | S f =>
          let '(st1, o) := decode_byte d (mkT (t_q st) (t_buf st) r (t_cand st)) b in
          match drain d f st1 with
          | Ok (st2, os) => Ok (st2, olist o ++ os)
          | other => other
          end
      end
  end.

Definition tok_weight (st : tstate) : nat :=
  let t := length (t_resched st) + length (t_buf st) in t * (t + 1) + length (t_resched st) + 1.

(* one input byte: decode_byte, then everything that was rescheduled *)
Definition tok_feed (d : dfa) (st : tstate) (b : N) : outcome (tstate * list titem) :=
  let '(st1, o) := decode_byte d st b in
  match drain d (tok_weight st1) st1 with
  | Ok (st2, os) => Ok (st2, olist o ++ os)
  | other => other
  end.

(* FaceModify::apply(face) for the SGR sequence `seq`, looked up in the table of the context *)
Definition face_eqb (a b : face) : bool :=
  let oeq := fun x y => match x, y with
                        | Some p, Some q => N.eqb p q | None, None => true | _, _ => false end in
  oeq (f_fg a) (f_fg b) && oeq (f_bg a) (f_bg b) && N.eqb (f_attrs a) (f_attrs b).

Fixpoint bytes_eqb (x y : list N) : bool :=
  match x, y with
  | [], [] => true
  | a :: x', b :: y' => N.eqb a b && bytes_eqb x' y'
  | _, _ => false
  end.

Fixpoint sgr_lookup (tab : list (list N * face * face)) (seq : list N) (f : face) : face :=
  match tab with
  | [] => f
  | (s, before, after) :: rest =>
      if bytes_eqb s seq && face_eqb before f then after else sgr_lookup rest seq f
  end.

(* MatcherDecoder::decode (src/decoder.rs:216-238), one call: rescheduled bytes are re-parsed
   first, until one of them completes an item; only if none does, bytes are taken from the
   input, until one completes an item or the input is exhausted.  Rescheduled bytes that are
   left stay for the next call. *)
Fixpoint drain_lazy (d : dfa) (fuel : nat) (st : tstate) : outcome (tstate * option titem) :=
  match t_resched st with
  | [] => Ok (st, None)
  | b :: r =>
      match fuel with
      | O => OutOfFuel
      | S f =>
          let '(st1, o) := decode_byte d (mkT (t_q st) (t_buf st) r (t_cand st)) b in
          match o with
          | Some it => Ok (st1, Some it)
          | None => drain_lazy d f st1
          end
      end
  end.

Fixpoint feed_until (d : dfa) (st : tstate) (input : list N) : tstate * option titem * list N :=
  match input with
  | [] => (st, None, [])
  | b :: rest =>
      let '(st1, o) := decode_byte d st b in
      match o with
      | Some it => (st1, Some it, rest)
      | None => feed_until d st1 rest
      end
  end.

Definition tok_decode (d : dfa) (st : tstate) (input : list N) : outcome (tstate * option titem * list N) :=
  match drain_lazy d (tok_weight st) st with
  | Ok (st1, Some it) => Ok (st1, Some it, input)
  | Ok (st1, None) => Ok (feed_until d st1 input)
  | Err e => Err e
  | Panic s => Panic s
  | OutOfFuel => OutOfFuel
  end.

(* TTYCellWriter::write: commands applied to the parent writer as they are decoded;
   the result of put_char is ignored, the call always returns Ok *)
Definition tty_apply1 (ctx : rctx) (st : wstate) (it : titem) : outcome wstate :=
  match it with
  | TChar ch =>
      match put_char ctx st ch with
      | Ok (st', _) => Ok st'
      | Err e => Err e
      | Panic s => Panic s
      | OutOfFuel => OutOfFuel
      end
  | TFace seq => Ok (set_face st (sgr_lookup (sgr_tab ctx) seq (w_face st)))
  | TRaw _ => Ok st
  end.

Fixpoint tty_apply (ctx : rctx) (st : wstate) (items : list titem) : outcome wstate :=
  match items with
  | [] => Ok st
  | it :: t =>
      match tty_apply1 ctx st it with
      | Ok st' => tty_apply ctx st' t
      | other => other
      end
  end.

(* `while let Some(cmd) = self.decoder.decode(&mut cur)? { apply cmd }`: one decode per
   iteration on what is left of the buffer; ends when a decode yields nothing *)
Fixpoint tty_write_loop (ctx : rctx) (fuel : nat) (st : wstate) (ts : tstate) (input : list N)
  : outcome (wstate * tstate) :=
  match fuel with
  | O => OutOfFuel
  | S f =>
      match tok_decode (cmd_dfa ctx) ts input with
      | Ok (ts1, Some it, rest) =>
          match tty_apply1 ctx st it with
          | Ok st1 => tty_write_loop ctx f st1 ts1 rest
          | Err e => Err e
          | Panic s => Panic s
          | OutOfFuel => OutOfFuel
          end
      | Ok (ts1, None, _) => Ok (st, ts1)
      | Err e => Err e
      | Panic s => Panic s
      | OutOfFuel => OutOfFuel
      end
  end.

(* every iteration but the last consumes at least one byte for good *)
Definition tty_write (ctx : rctx) (st : wstate) (ts : tstate) (input : list N) : outcome (wstate * tstate) :=
  tty_write_loop ctx (S (length (t_resched ts) + length (t_buf ts) + length input)) st ts input.

(* the same as a fold over the bytes of the stream, whatever the calls they arrive in: after each
   byte everything that was rescheduled is re-parsed.  WriterTty.v proves tty_write = tty_fold. *)
Fixpoint tty_fold (ctx : rctx) (st : wstate) (ts : tstate) (bytes : list N) : outcome (wstate * tstate) :=
  match bytes with
  | [] => Ok (st, ts)
  | b :: rest =>
      match tok_feed (cmd_dfa ctx) ts b with
      | Ok (ts', items) =>
          match tty_apply ctx st items with
          | Ok st' => tty_fold ctx st' ts' rest
          | Err e => Err e
          | Panic s => Panic s
          | OutOfFuel => OutOfFuel
          end
      | Err e => Err e
      | Panic s => Panic s
      | OutOfFuel => OutOfFuel
      end
  end.

Fixpoint tty_chunks (ctx : rctx) (st : wstate) (ts : tstate) (chunks : list (list N)) : outcome (wstate * tstate) :=
  match chunks with
  | [] => Ok (st, ts)
  | c :: rest =>
      match tty_write ctx st ts c with
      | Ok (st', ts') => tty_chunks ctx st' ts' rest
      | other => other
      end
  end.

(* ---------- operations offered to a client of the writer ---------- *)
(* the puts of Text::render; results of the individual puts are ignored by the code *)
Fixpoint put_cells (ctx : rctx) (st : wstate) (cells : list ccell) : outcome wstate :=
  match cells with
  | [] => Ok st
  | c :: t =>
      match put_cell ctx st c with
      | Ok (st', _) => put_cells ctx st' t
      | Err e => Err e
      | Panic s => Panic s
      | OutOfFuel => OutOfFuel
      end
  end.

(* what a client can do with the writer itself -- also through `adapter.parent()` between two
   writes of one Utf8CellWriter / TTYCellWriter *)
Inductive pop :=
| PChar (ch : N)                     (* put_char *)
| PCell (c : ccell)                  (* put_cell (char with its own face, glyph, image) *)
| PFace (f : face)                   (* set_face *)
| PWraps (b : bool)                  (* set_wraps *)
| PCursor (r c : nat)                (* TerminalWriter::set_cursor *)
| PText (cells : list ccell).        (* put_text: every cell of a Text put, results ignored *)

Definition simple_step (ctx : rctx) (st : wstate) (o : pop) : outcome (wstate * bool) :=
  match o with
  | PChar ch => put_char ctx st ch
  | PCell c => put_cell ctx st c
  | PFace f => Ok (set_face st f, true)
  | PWraps b => Ok (set_wraps st b, true)
  | PCursor r c =>
      let l := w_l st in
      Ok (set_l st (mkL (l_h l) (l_w l) (Nat.min r (sh_height (w_sh st))) (Nat.min c (sh_width (w_sh st)))), true)
  | PText cells =>
      match put_cells ctx st cells with
      | Ok st' => Ok (st', true)
      | Err e => Err e
      | Panic s => Panic s
      | OutOfFuel => OutOfFuel
      end
  end.

(* one adapter kept over several writes: byte chunks handed to adapter.write, and operations on
   adapter.parent() in between.  The adapter's decoder lives as long as the adapter; operations on
   the parent do not touch it (a character split around a parent operation is completed by the
   bytes that follow and put after whatever the parent operation did). *)
Inductive sitem := SBytes (chunk : list N) | SParent (o : pop).

(* Utf8CellWriter; the caller gives up at the first Err (the rest of the session is not run) *)
Fixpoint sess_u (ctx : rctx) (st : wstate) (items : list sitem) : outcome (wstate * bool) :=
  match items with
  | [] => Ok (st, true)
  | SBytes ch :: rest =>
      match write_bytes ctx st ch with
      | Ok (st', WErr) => Ok (st', false)
      | Ok (st', WDone) => sess_u ctx st' rest
      | Err e => Err e
      | Panic s => Panic s
      | OutOfFuel => OutOfFuel
      end
  | SParent o :: rest =>
      match simple_step ctx st o with
      | Ok (st', _) => sess_u ctx st' rest
      | Err e => Err e
      | Panic s => Panic s
      | OutOfFuel => OutOfFuel
      end
  end.

(* TTYCellWriter *)
Fixpoint sess_t (ctx : rctx) (st : wstate) (ts : tstate) (items : list sitem) : outcome (wstate * tstate) :=
  match items with
  | [] => Ok (st, ts)
  | SBytes ch :: rest =>
      match tty_write ctx st ts ch with
      | Ok (st', ts') => sess_t ctx st' ts' rest
      | other => other
      end
  | SParent o :: rest =>
      match simple_step ctx st o with
      | Ok (st', _) => sess_t ctx st' ts rest
      | Err e => Err e
      | Panic s => Panic s
      | OutOfFuel => OutOfFuel
      end
  end.

(* adjacent byte chunks joined: what is left of a session when one forgets how the bytes between
   two parent operations were split across write calls *)
Fixpoint merge_items (items : list sitem) : list sitem :=
  match items with
  | [] => []
  | SBytes a :: rest =>
      match merge_items rest with
      | SBytes b :: r' => SBytes (a ++ b) :: r'
      | r' => SBytes a :: r'
      end
  | SParent o :: rest => SParent o :: merge_items rest
  end.

Inductive wop :=
| OChar (ch : N)                     (* put_char *)
| OCell (c : ccell)                  (* put_cell (char with its own face, glyph, image) *)
| OFace (f : face)                   (* set_face *)
| OWraps (b : bool)                  (* set_wraps *)
| OCursor (r c : nat)                (* TerminalWriter::set_cursor *)
| OWrite (chunks : list (list N))    (* io::Write::write once per chunk, stop at the first Err *)
| OWriteU (chunks : list (list N))   (* the same through writer.by_ref().utf8_writer(): Utf8CellWriter
                                        with a decoder of its own, dropped afterwards *)
| OWriteT (chunks : list (list N))   (* through writer.by_ref().tty_writer(): TTYCellWriter decoding
                                        characters and SGR escape sequences *)
| OText (cells : list ccell)         (* put_text *)
| OSessU (items : list sitem)        (* one utf8_writer() used for several writes, parent() in between *)
| OSessT (items : list sitem).       (* one tty_writer() used for several writes, parent() in between *)

(* the same operation with all its bytes passed in one call: two programs with equal images
   differ only in how the bytes of each write are split across calls *)
Definition merge_op (o : wop) : wop :=
  match o with
  | OWrite chunks => OWrite [concat chunks]
  | OWriteU chunks => OWriteU [concat chunks]
  | OWriteT chunks => OWriteT [concat chunks]
  | OSessU items => OSessU (merge_items items)
  | OSessT items => OSessT (merge_items items)
  | other => other
  end.

Definition wop_step (ctx : rctx) (st : wstate) (o : wop) : outcome (wstate * bool) :=
  match o with
  | OChar ch => simple_step ctx st (PChar ch)
  | OCell c => simple_step ctx st (PCell c)
  | OFace f => simple_step ctx st (PFace f)
  | OWraps b => simple_step ctx st (PWraps b)
  | OCursor r c => simple_step ctx st (PCursor r c)
  | OText cells => simple_step ctx st (PText cells)
  | OWrite chunks => write_chunks ctx st chunks
  | OWriteU chunks =>
      match write_chunks ctx (set_dec st u0) chunks with
      | Ok (st', b) => Ok (set_dec st' (w_dec st), b)
      | other => other
      end
  | OWriteT chunks =>
      match tty_chunks ctx st (t0 (cmd_dfa ctx)) chunks with
      | Ok (st', _) => Ok (st', true)
      | Err e => Err e
      | Panic s => Panic s
      | OutOfFuel => OutOfFuel
      end
  | OSessU items =>
      (* the adapter's decoder is not the TerminalWriter's own *)
      match sess_u ctx (set_dec st u0) items with
      | Ok (st', b) => Ok (set_dec st' (w_dec st), b)
      | other => other
      end
  | OSessT items =>
      match sess_t ctx st (t0 (cmd_dfa ctx)) items with
      | Ok (st', _) => Ok (st', true)
      | Err e => Err e
      | Panic s => Panic s
      | OutOfFuel => OutOfFuel
      end
  end.

(* run a client program; the flags returned by the individual calls are collected *)
Fixpoint wops_run (ctx : rctx) (st : wstate) (ops : list wop) : outcome (wstate * list bool) :=
  match ops with
  | [] => Ok (st, [])
  | o :: t =>
      match wop_step ctx st o with
      | Ok (st', b) =>
          match wops_run ctx st' t with
          | Ok (st'', bs) => Ok (st'', b :: bs)
          | other => other
          end
      | Err e => Err e
      | Panic s => Panic s
      | OutOfFuel => OutOfFuel
      end
  end.

(* ---------- Text ---------- *)
(* Text as a CellWrite: cells are appended with the text's current face underlaid *)
Definition text_put (tface : face) (cells : list ccell) (c : ccell) : list ccell :=
  cells ++ [mkCell (overlay tface (c_face c)) (c_kind c)].

(* ---------- TextDeserializer (src/view/text.rs:219-284) ---------- *)
(* Text = String | [Text] | { face, wraps, glyph | text }.  Faces arrive parsed (FaceDeserializer is
   C14 matter); a glyph is the cell kind it becomes. *)
Inductive jtext :=
| TxStr (chars : list N)
| TxArr (items : list jtext)
| TxObj (f : option face) (wr : option bool) (body : jbody)
with jbody :=
| JBGlyph (k : kind) (ignored : option jtext)   (* "glyph", and the "text" the same object may carry: not visited *)
| JBText (t : jtext)
| JBNone.

(* Text as a CellWrite target: cells, wraps flag, current face *)
Record jstate := mkJ { j_cells : list ccell; j_wraps : bool; j_face : face }.

Definition j0 : jstate := mkJ [] true face0.

(* Text::put_cell through put_char / put_glyph: the new cell carries the current face, overlaid on
   itself by Text::put_cell *)
Definition j_put (st : jstate) (k : kind) : jstate :=
  mkJ (text_put (j_face st) (j_cells st) (mkCell (j_face st) k)) (j_wraps st) (j_face st).

Fixpoint jt_collect (st : jstate) (t : jtext) {struct t} : jstate :=
  match t with
  | TxStr chars => fold_left (fun a ch => j_put a (KChar ch)) chars st
  | TxArr items => (fix go (l : list jtext) (a : jstate) {struct l} : jstate :=
                     match l with [] => a | x :: r => go r (jt_collect a x) end) items st
  | TxObj f wr body =>
      let face := match f with Some x => x | None => face0 end in
      let st1 := match wr with Some b => mkJ (j_cells st) b (j_face st) | None => st end in
      let old := j_face st1 in
      let st2 := mkJ (j_cells st1) (j_wraps st1) (overlay old face) in
      let st3 := match body with
                 | JBGlyph k _ => j_put st2 k
                 | JBText t' => jt_collect st2 t'
                 | JBNone => st2
                 end in
      mkJ (j_cells st3) (j_wraps st3) old
  end.

(* what the document says, independently of any state: the characters and glyphs in document order,
   each under the faces of the objects around it (outermost first) *)
Fixpoint jt_emit (cur : face) (t : jtext) {struct t} : list ccell :=
  match t with
  | TxStr chars => map (fun ch => mkCell (overlay cur cur) (KChar ch)) chars
  | TxArr items => (fix go (l : list jtext) : list ccell :=
                     match l with [] => [] | x :: r => jt_emit cur x ++ go r end) items
  | TxObj f _ body =>
      let cur' := overlay cur (match f with Some x => x | None => face0 end) in
      match body with
      | JBGlyph k _ => [mkCell (overlay cur' cur') k]
      | JBText t' => jt_emit cur' t'
      | JBNone => []
      end
  end.

(* the wraps flag after the document: the last "wraps" met in document order (a glyph object's
   "text" is not visited) *)
Fixpoint jt_wraps (w : bool) (t : jtext) {struct t} : bool :=
  match t with
  | TxStr _ => w
  | TxArr items => (fix go (l : list jtext) (a : bool) {struct l} : bool :=
                     match l with [] => a | x :: r => go r (jt_wraps a x) end) items w
  | TxObj _ wr body =>
      let w1 := match wr with Some b => b | None => w end in
      match body with JBText t' => jt_wraps w1 t' | _ => w1 end
  end.

(* Layout::apply_to: the sub-view rows pos.row..pos.row+h, cols pos.col..pos.col+w, selectors
   resolved by ViewBounds for Range<usize> *)
Definition apply_layout (sh : shape) (pr pc h w : nat) : shape :=
  view sh (resolve (sh_height sh) (Rng (Z.of_nat pr) (Z.of_nat (pr + h))))
          (resolve (sh_width sh) (Rng (Z.of_nat pc) (Z.of_nat (pc + w)))).

(* Text::render (src/view/text.rs:171): writer over layout.apply_to(surf) -- the layout's position
   (set by the parent view) and size -- with the text's wraps flag *)
Definition text_render (ctx : rctx) (sh : shape) (data : list ccell) (pr pc lay_h lay_w : nat)
           (cells : list ccell) (wraps : bool) : outcome wstate :=
  put_cells ctx (set_wraps (writer_new (apply_layout sh pr pc lay_h lay_w) data) wraps) cells.

(* Text::layout: measured size clamped to the constraint (min <= max per axis) *)
Definition text_layout (ctx : rctx) (cells : list ccell) (wraps : bool)
           (minh minw maxh maxw : nat) : nat * nat :=
  let '(h, w) := text_size ctx cells wraps maxw in
  (clamp_nat h minh maxh, clamp_nat w minw maxw).
