(* Render/FrameSpec.v — what pass 2 and pass 3 need to know about the outcome
   of pass 1 ([P1Spec]), and the cell-by-cell analysis that follows from it:
   every paint of pass 2 conforms to the denotation of the new surface, and
   every cell outside the rectangles of redrawn images either already shows its
   target or is painted. *)
From Coq Require Import List NArith Bool Arith Lia.
From SNT Require Import Render.Cell Render.Screen Render.Frame Render.Domain Render.GridLemmas
  Render.ScreenProofs Render.PaintProofs Render.ExecProofs Render.Den Render.ScanProofs.
Import ListNotations.

(* ---------- small decidable equalities ---------- *)
Lemma kind_eqb_eq : forall a b, kind_eqb a b = true <-> a = b.
Proof.
  intros [x|x|x] [y|y|y]; simpl; split; intro H; try discriminate; try (inversion H; fail).
  all: try (apply N.eqb_eq in H; congruence).
  all: inversion H; apply N.eqb_refl.
Qed.

Lemma cell_eqb_eq : forall a b, cell_eqb a b = true <-> a = b.
Proof.
  intros [fa ka] [fb kb]. unfold cell_eqb. simpl. rewrite andb_true_iff, N.eqb_eq, kind_eqb_eq.
  split. intros [-> ->]; auto. intros H; inversion H; auto.
Qed.

Lemma skipcond_true : forall m old new,
  skipcond m old new = true <-> m <> MDamaged /\ (m = MIgnored \/ old = new).
Proof.
  intros. unfold skipcond. rewrite andb_true_iff, negb_true_iff, orb_true_iff, cell_eqb_eq.
  destruct m; simpl; split; intros [H1 H2]; split; auto; try congruence; try tauto.
  all: destruct H2 as [H2|H2]; auto; discriminate.
Qed.

Lemma skipcond_false : forall m old new,
  skipcond m old new = false <-> m = MDamaged \/ (m <> MIgnored /\ old <> new).
Proof.
  intros. destruct (skipcond m old new) eqn:E.
  - apply skipcond_true in E. split; [discriminate|]. intros [H|[H1 H2]]; destruct E as [E1 [E2|E2]]; congruence.
  - split; auto. intros _.
    destruct m.
    + right. split; [discriminate|]. intros ->.
      assert (skipcond MEmpty new new = true) by (apply skipcond_true; split; [discriminate|auto]). congruence.
    + assert (skipcond MIgnored old new = true) by (apply skipcond_true; split; [discriminate|auto]). congruence.
    + auto.
Qed.

(* ---------- extents ---------- *)
Definition ext_covers (o : oracle) (x : cell) (r0 c0 r c : nat) : bool :=
  let '(a, b, c1, d) := extent o x r0 c0 in in_range a b r && in_range c1 d c.

Lemma ext_covers_img : forall o x i r0 c0 r c,
  ckind x = KImg i -> ext_covers o x r0 c0 r c = in_rect o r0 c0 i r c.
Proof.
  intros. unfold ext_covers, extent, in_rect. rewrite H. destruct (isz o i). reflexivity.
Qed.

Lemma ext_covers_char : forall o x ch r0 c0 r c,
  ckind x = KChar ch ->
  ext_covers o x r0 c0 r c = true <-> r = r0 /\ c0 + 1 <= c < c0 + cw o ch.
Proof.
  intros. unfold ext_covers, extent. rewrite H.
  rewrite andb_true_iff, !in_range_true. lia.
Qed.

Lemma ext_covers_occupies : forall o w x r0 c0 r c,
  cell_good o w c0 x -> ext_covers o x r0 c0 r c = true -> occupies o x r0 c0 r c.
Proof.
  intros o w x r0 c0 r c Hg He. unfold occupies, cell_good in *.
  destruct (ckind x) as [ch|i|g] eqn:Ek.
  - apply (ext_covers_char o x ch) in He; auto. lia.
  - rewrite (ext_covers_img o x i) in He; auto.
  - contradiction.
Qed.

Lemma fill_extent_gget : forall o m x r0 c0 v r c,
  gget (fill_extent o m x r0 c0 v) r c =
  option_map (fun y => if ext_covers o x r0 c0 r c then v else y) (gget m r c).
Proof.
  intros. unfold fill_extent, ext_covers. destruct (extent o x r0 c0) as [[[a b] c1] d].
  apply gget_gfill.
Qed.

Lemma gdims_fill_extent : forall o m x r0 c0 v h w, gdims m h w -> gdims (fill_extent o m x r0 c0 v) h w.
Proof.
  intros. unfold fill_extent. destruct (extent o x r0 c0) as [[[a b] c1] d]. apply gdims_gfill. auto.
Qed.

(* ---------- the outcome of pass 1 ---------- *)
(* the object owned by cell y at (r1, c1) of the new surface is shown: an image always, a wide
   character unless it is hidden behind another one *)
Definition shown (o : oracle) (nw : grid cell) (y : cell) (r1 c1 : nat) : bool :=
  negb (is_wide o y) || negb (hidden o nw r1 c1).

Record P1Spec (o : oracle) (h w : nat) (u : mark) (old nw : grid cell) (M : grid mark)
       (dec : nat -> nat -> bool) (cmds : list cmd) (imgs : list (nat * nat * face * N)) : Prop := {
  sp_dims : gdims M h w;
  (* a cell treated as unchanged is unchanged *)
  sp_same : forall r c, r < h -> c < w -> dec r c = false -> gget old r c = gget nw r c;
  (* a cell treated as changed differs, or was damaged when pass 1 reached it (and then still is,
     unless something shown of the new surface covers it) *)
  sp_dec : forall r c, r < h -> c < w -> dec r c = true ->
           gget old r c <> gget nw r c \/ gget M r c = Some MDamaged
           \/ exists r1 c1 y, gget nw r1 c1 = Some y /\ shown o nw y r1 c1 = true
                               /\ ext_covers o y r1 c1 r c = true;
  sp_ign : forall r c, gget M r c = Some MIgnored ->
           exists r1 c1 y, gget nw r1 c1 = Some y /\ shown o nw y r1 c1 = true
                           /\ ext_covers o y r1 c1 r c = true;
  sp_new : forall r1 c1 y r c, gget nw r1 c1 = Some y -> shown o nw y r1 c1 = true ->
           ext_covers o y r1 c1 r c = true -> r < h -> c < w ->
           gget M r c = Some MIgnored \/ (gget M r c = Some MDamaged /\ dec r1 c1 = true);
  (* the column behind a hidden wide character is repainted *)
  sp_hid : forall r1 c1 y, gget nw r1 c1 = Some y -> is_wide o y = true -> hidden o nw r1 c1 = true ->
           S c1 < w -> gget M r1 (S c1) = Some MDamaged;
  sp_old : forall r1 c1 y r c, gget old r1 c1 = Some y -> dec r1 c1 = true ->
           ext_covers o y r1 c1 r c = true -> r < h -> c < w ->
           (forall r2 c2 z, gget nw r2 c2 = Some z -> shown o nw z r2 c2 = true ->
                            ext_covers o z r2 c2 r c = false) ->
           gget M r c = Some MDamaged;
  sp_forced : u = MDamaged -> forall r c, r < h -> c < w ->
              gget M r c = Some MDamaged \/ gget M r c = Some MIgnored;
  sp_cmds : Forall is_erase_at cmds
            /\ forall i r c, In (CImageErase i (Some (r, c))) cmds <->
                             (exists x, gget old r c = Some x /\ ckind x = KImg i /\ dec r c = true);
  sp_imgs : forall r c f i, In (r, c, f, i) imgs <->
                            (exists x, gget nw r c = Some x /\ ckind x = KImg i /\ cface x = f /\ dec r c = true) }.

(* ---------- rows ---------- *)
Lemma gget_row : forall {A} (g : grid A) r row c, nth_error g r = Some row -> gget g r c = nth_error row c.
Proof. intros. unfold gget. rewrite H. reflexivity. Qed.

Lemma row_exists : forall h w {A} (g : grid A) r, gdims g h w -> r < h ->
  exists row, nth_error g r = Some row /\ length row = w.
Proof.
  intros h w A g r Hd Hr. destruct (nth_error g r) as [row|] eqn:E.
  - exists row. split; auto. eapply gdims_row; eauto.
  - apply nth_error_None in E. destruct Hd. lia.
Qed.

Lemma nth_error_skipn' : forall {A} n (l : list A) i, nth_error (skipn n l) i = nth_error l (n + i).
Proof. induction n; intros [|x l] i; simpl; auto. destruct i; reflexivity. Qed.


Arguments sp_dims {o h w u old nw M dec cmds imgs}.
Arguments sp_same {o h w u old nw M dec cmds imgs}.
Arguments sp_dec {o h w u old nw M dec cmds imgs}.
Arguments sp_ign {o h w u old nw M dec cmds imgs}.
Arguments sp_new {o h w u old nw M dec cmds imgs}.
Arguments sp_hid {o h w u old nw M dec cmds imgs}.
Arguments sp_old {o h w u old nw M dec cmds imgs}.
Arguments sp_forced {o h w u old nw M dec cmds imgs}.
Arguments sp_cmds {o h w u old nw M dec cmds imgs}.
Arguments sp_imgs {o h w u old nw M dec cmds imgs}.

Section Analysis.
  Variable o : oracle.
  Variables h w : nat.
  Variable u : mark.
  Variables old nw : grid cell.
  Variable M : grid mark.
  Variable dec : nat -> nat -> bool.
  Variable cmds : list cmd.
  Variable imgs : list (nat * nat * face * N).
  Hypothesis Hsp : cw o space = 1.
  Hypothesis Gold : Good o h w old.
  Hypothesis GN : Good o h w nw.
  Hypothesis Hu : u = MEmpty \/ (u = MDamaged /\ old = gmake h w cell_default).
  Hypothesis HP : P1Spec o h w u old nw M dec cmds imgs.

  Let T := den o h w nw.
  (* cells under the rectangle of an image that pass 3 redraws: pass 2 may do anything there *)
  Definition redrawn (r c : nat) : bool :=
    match cover_img o h w nw r c with
    | Some (r0, c0) => dec r0 c0
    | None => false
    end.

  Lemma redrawn_nonwide : forall r c, redrawn r c = true -> nonwide (fst (T r c)).
  Proof.
    intros r c H. unfold redrawn in H. unfold T, den.
    destruct (cover_img o h w nw r c) as [[r0 c0]|]; [|discriminate].
    destruct (img_at nw r0 c0) as [[f i]|]; simpl; auto.
  Qed.

  Lemma nw_bounds : forall r c x, gget nw r c = Some x -> r < h /\ c < w.
  Proof. intros. eapply gget_some_bounds; eauto. apply GN. Qed.

  (* an image of N covers its own cell *)
  Lemma img_covers_self : forall r c x i,
    gget nw r c = Some x -> ckind x = KImg i -> in_rect o r c i r c = true.
  Proof.
    intros r c x i Hx Hk. pose proof (good_cells _ _ _ _ GN r c x Hx) as Hg.
    unfold cell_good in Hg. rewrite Hk in Hg.
    unfold in_rect. apply andb_true_iff. rewrite !in_range_true. lia.
  Qed.

  Lemma covered_by_img : forall r0 c0 x i r c,
    gget nw r0 c0 = Some x -> ckind x = KImg i -> in_rect o r0 c0 i r c = true ->
    cover_img o h w nw r c <> None.
  Proof.
    intros r0 c0 x i r c Hx Hk Hin Hnone.
    assert (Hb : r0 < h /\ c0 < w) by (eapply nw_bounds; eauto).
    rewrite (cover_img_none o h w nw r c r0 c0 (cface x) i Hnone) in Hin; try tauto. discriminate.
    apply img_at_some. eauto.
  Qed.

  (* anything shown of nw whose extent reaches (r, c) shows up in the denotation's case analysis *)
  Lemma ext_cover_cases : forall r1 c1 y r c,
    gget nw r1 c1 = Some y -> shown o nw y r1 c1 = true -> ext_covers o y r1 c1 r c = true ->
    cover_img o h w nw r c <> None \/ left_wide o nw r c <> None.
  Proof.
    intros r1 c1 y r c Hy Hsh He.
    pose proof (good_cells _ _ _ _ GN r1 c1 y Hy) as Hg. unfold cell_good in Hg.
    destruct (ckind y) as [ch|i|g] eqn:Ek.
    - right. apply (ext_covers_char o y ch) in He; auto.
      assert (Hw2 : cw o ch = 2) by lia. assert (c = S c1) by lia. destruct He as [-> _]. subst c.
      assert (Hwd : is_wide o y = true) by (unfold is_wide; rewrite Ek, Hw2; reflexivity).
      unfold shown in Hsh. rewrite Hwd in Hsh. simpl in Hsh. apply negb_true_iff in Hsh.
      rewrite (proj2 (hidden_S o nw r1 c1 y Hy Hwd Hsh)). discriminate.
    - left. rewrite (ext_covers_img o y i) in He; auto. exact (covered_by_img r1 c1 y i r c Hy Ek He).
    - contradiction.
  Qed.

  Lemma no_shown_cover : forall r c,
    cover_img o h w nw r c = None -> hidden o nw r c = false ->
    forall r2 c2 z, gget nw r2 c2 = Some z -> shown o nw z r2 c2 = true -> ext_covers o z r2 c2 r c = false.
  Proof.
    intros r c Hc Hh r2 c2 z Hz Hsh. destruct (ext_covers o z r2 c2 r c) eqn:E; auto.
    apply left_wide_hidden in Hh.
    destruct (ext_cover_cases r2 c2 z r c Hz Hsh E); congruence.
  Qed.

  Lemma den_plain : forall s r c,
    cover_img o h w s r c = None -> left_wide o s r c = None -> den o h w s r c = own_glyph o s r c.
  Proof. intros. unfold den. rewrite H, H0. reflexivity. Qed.

  Lemma wide_is_wide : forall x ch, ckind x = KChar ch -> cw o ch = 2 -> is_wide o x = true.
  Proof. intros. unfold is_wide. rewrite H, H0. reflexivity. Qed.

  (* a shown wide character of nw is never Ignored: nothing else shown of nw reaches its cell *)
  Lemma wide_owner_not_ignored : forall r c x ch,
    gget nw r c = Some x -> ckind x = KChar ch -> cw o ch = 2 -> hidden o nw r c = false ->
    gget M r c <> Some MIgnored.
  Proof.
    intros r c x ch Hx Hk Hw2 Hh Hm.
    destruct (sp_ign HP r c Hm) as (r1 & c1 & y & Hy & Hsh & He).
    destruct (ext_cover_cases r1 c1 y r c Hy Hsh He) as [H|H]; apply H.
    - eapply wide_not_covered; eauto. lia.
    - apply left_wide_hidden. exact Hh.
  Qed.

  Lemma u_empty_of_clean : forall r c, r < h -> c < w ->
    gget M r c <> Some MDamaged -> gget M r c <> Some MIgnored -> u = MEmpty.
  Proof.
    intros r c Hr Hc H1 H2. destruct Hu as [Hu'|[Hu' _]]; auto.
    destruct (sp_forced HP Hu' r c Hr Hc); contradiction.
  Qed.

  Lemma space_not_wide : forall x, ckind x = KChar space -> is_wide o x = false.
  Proof. intros. unfold is_wide. rewrite H, Hsp. reflexivity. Qed.

  (* cells not under a kept image *)
  Lemma no_kept_cover : forall r c m, r < h -> c < w ->
    gget M r c = Some m -> m <> MIgnored -> redrawn r c = false -> cover_img o h w nw r c = None.
  Proof.
    intros r c m Hr Hc Hm Hni Hred. unfold redrawn in Hred.
    destruct (cover_img o h w nw r c) as [[r0 c0]|] eqn:E; auto. exfalso.
    apply cover_img_some in E. destruct E as (Hr0 & Hc0 & f & i & Hi & Hin).
    apply img_at_some in Hi. destruct Hi as (x & Hx & Hk & Hf).
    destruct (sp_new HP r0 c0 x r c Hx) as [H|[_ H]]; auto; try congruence.
    - unfold shown, is_wide. rewrite Hk. reflexivity.
    - rewrite (ext_covers_img o x i); auto.
  Qed.

  (* the cell behind a shown wide character of nw is Ignored, or the wide character is not skipped *)
  Lemma behind_wide_cases : forall r c' y ch oldc m',
    r < h -> S c' < w ->
    gget nw r c' = Some y -> ckind y = KChar ch -> cw o ch = 2 -> hidden o nw r c' = false ->
    gget old r c' = Some oldc -> gget M r c' = Some m' ->
    gget M r (S c') = Some MIgnored \/ skipcond m' oldc y = false.
  Proof.
    intros r c' y ch oldc m' Hr Hc Hy Hk Hw2 Hh Ho Hm.
    assert (Hsh : shown o nw y r c' = true) by (unfold shown; rewrite Hh; apply orb_true_r).
    destruct (sp_new HP r c' y r (S c') Hy Hsh) as [H|[_ Hdec]]; auto.
    { apply (ext_covers_char o y ch); auto. lia. }
    right. apply skipcond_false.
    assert (Hni : m' <> MIgnored).
    { intros ->. eapply wide_owner_not_ignored; eauto. }
    destruct (sp_dec HP r c' Hr ltac:(lia) Hdec) as [Hne|[Hd|(r1 & c1 & y1 & Hy1 & Hsh1 & He)]].
    - right. split; auto. intros ->. congruence.
    - left. congruence.
    - exfalso. destruct (ext_cover_cases r1 c1 y1 r c' Hy1 Hsh1 He) as [H|H]; apply H.
      + eapply wide_not_covered; eauto. lia.
      + apply left_wide_hidden. exact Hh.
  Qed.

  (* a cell that was hidden and no longer is (and is not under an image) is Damaged *)
  Lemma unhidden_damaged : forall r c, r < h -> c < w ->
    hidden o old r c = true -> hidden o nw r c = false -> cover_img o h w nw r c = None ->
    gget M r c = Some MDamaged.
  Proof.
    intros r c Hr Hc Hho Hhn Hcov.
    destruct c as [|c0]; [discriminate|]. simpl in Hho.
    destruct (gget old r c0) as [yo|] eqn:Eyo; [|discriminate].
    apply andb_true_iff in Hho. destruct Hho as [Hwo Hho].
    destruct (dec r c0) eqn:Ed.
    - destruct (is_wide_char o yo Hwo) as (ch & Hk & Hw2).
      apply (sp_old HP r c0 yo r (S c0) Eyo Ed); auto.
      + apply (ext_covers_char o yo ch); auto. lia.
      + apply no_shown_cover; auto.
    - pose proof (sp_same HP r c0 Hr ltac:(lia) Ed) as Hsame. rewrite Eyo in Hsame.
      apply (sp_hid HP r c0 yo); auto.
      simpl in Hhn. rewrite <- Hsame, Hwo in Hhn. simpl in Hhn. apply negb_false_iff in Hhn. exact Hhn.
  Qed.

  Section OneRow.
    Variable r : nat.
    Variables rn ro : list cell.
    Variable rm : list mark.
    Hypothesis Hr : r < h.
    Hypothesis Hrn : nth_error nw r = Some rn.
    Hypothesis Hro : nth_error old r = Some ro.
    Hypothesis Hrm : nth_error M r = Some rm.
    Let ps := paints_row o r 0 0 rn ro rm.

    Lemma rn_len : length rn = w.
    Proof. eapply gdims_row; eauto. apply GN. Qed.

    (* a paint that reaches the column of a shown wide character, and whose own column is shown, is
       that character's paint *)
    Lemma cover_of_wide : forall c' y ch q,
      gget nw r c' = Some y -> ckind y = KChar ch -> cw o ch = 2 -> hidden o nw r c' = false ->
      In q ps -> pstart q <= c' < pstart q + plen o q -> hidden o nw r (pstart q) = false ->
      q = PChar r c' (cface y) ch.
    Proof.
      intros c' y ch q Hy Hk Hw2 Hh Hin Hrange Hhq.
      destruct (paints_row_sound o r rn ro rm 0 0 q Hin) as (j & _ & new & oldc & m & chj & Hn & Ho & Hm & Hs & Hkj & Hwj & Hq).
      pose proof Hy as Hyrow. rewrite (gget_row nw r rn) in Hyrow by auto.
      assert (Hgn : gget nw r j = Some new) by (rewrite (gget_row nw r rn); auto).
      destruct Hq as [[Hns ->]|[-> ->]]; cbn [pstart plen Nat.add] in Hrange, Hhq.
      - destruct (Nat.eq_dec j c') as [->|Hne].
        + rewrite Hn in Hyrow. inversion Hyrow; subst y. rewrite Hkj in Hk. inversion Hk; subst. reflexivity.
        + exfalso.
          pose proof (good_cells _ _ _ _ GN r j new Hgn) as Hg. unfold cell_good in Hg. rewrite Hkj in Hg.
          assert (Hw2j : cw o chj = 2) by lia. assert (c' = S j) by lia. subst c'.
          (* the wide character at j is shown, so column S j is hidden *)
          destruct (hidden_S o nw r j new Hgn (wide_is_wide new chj Hkj Hw2j) Hhq) as [Hh' _]. congruence.
      - exfalso. destruct (Nat.eq_dec j c') as [->|Hne].
        + rewrite Hn in Hyrow. inversion Hyrow; subst y. rewrite Hkj in Hk. inversion Hk; subst. rewrite Hsp in Hw2. discriminate.
        + destruct (blank_run_spec new (skipn (S j) rn) (skipn (S j) rm) (c' - j - 1) ltac:(lia))
            as (y' & m'' & Hy' & _ & Heq & _).
          rewrite nth_error_skipn' in Hy'. replace (S j + (c' - j - 1)) with c' in Hy' by lia.
          rewrite Hyrow in Hy'. inversion Hy'; subst y'. apply cell_eqb_eq in Heq. subst y.
          rewrite Hkj in Hk. inversion Hk; subst. rewrite Hsp in Hw2. discriminate.
    Qed.

    (* no paint is owned by a hidden cell *)
    Lemma owner_shown : forall j p, In p ps -> pstart p = j -> hidden o nw r j = false.
    Proof.
      induction j as [j IH] using lt_wf_ind. intros p Hin Hst.
      destruct (hidden o nw r j) eqn:Ehid; auto. exfalso.
      assert (Hlw : left_wide o nw r j <> None).
      { intros H. apply left_wide_hidden in H. congruence. }
      destruct (left_wide o nw r j) as [f|] eqn:El; [|congruence].
      apply left_wide_some in El. destruct El as (j' & y & -> & Hy & Hwd & Hh & _).
      destruct (is_wide_char o y Hwd) as (ch & Hk & Hw2).
      (* the owner's own mark is not Ignored *)
      destruct (paints_row_sound o r rn ro rm 0 0 p Hin) as (j0 & _ & new & oldc0 & m0 & ch0 & Hn0 & Ho0 & Hm0 & Hs0 & _ & _ & Hq0).
      assert (Hj0 : j0 = S j').
      { destruct Hq0 as [[_ ->]|[_ ->]]; cbn [pstart Nat.add] in Hst; auto. }
      subst j0.
      assert (Hni : m0 <> MIgnored).
      { apply skipcond_false in Hs0. destruct Hs0 as [->|[Hs0 _]]; auto. discriminate. }
      assert (Hb : r < h /\ j' < w) by (eapply nw_bounds; eauto).
      pose proof (good_cells _ _ _ _ GN r j' y Hy) as Hg. unfold cell_good in Hg. rewrite Hk in Hg.
      assert (Hfit : S j' < w) by lia.
      destruct (gget_in_bounds old h w r j' ltac:(apply Gold) Hr ltac:(lia)) as (oldc & Ho).
      destruct (gget_in_bounds M h w r j' (sp_dims HP) Hr ltac:(lia)) as (m' & Hm).
      destruct (behind_wide_cases r j' y ch oldc m' Hr Hfit Hy Hk Hw2 Hh Ho Hm) as [H|Hs].
      { rewrite (gget_row M r rm) in H by auto. congruence. }
      pose proof Hy as Hyrow. rewrite (gget_row nw r rn) in Hyrow by auto.
      rewrite (gget_row old r ro) in Ho by auto. rewrite (gget_row M r rm) in Hm by auto.
      destruct (paints_row_cover o r rn ro rm 0 0 j' y oldc m' ch ltac:(lia) Hyrow Ho Hm Hs Hk ltac:(lia))
        as (q & Hq & Hrange).
      cbn [Nat.add] in Hrange.
      assert (Hhq : hidden o nw r (pstart q) = false) by (apply (IH (pstart q) ltac:(lia) q Hq eq_refl)).
      assert (Hqe : q = PChar r j' (cface y) ch) by (eapply cover_of_wide; eauto).
      pose proof (paints_row_chain o r rn ro rm 0 0) as Hch.
      pose proof (chain_disjoint o _ _ q p Hch Hq Hin) as Hd.
      subst q. simpl in Hd. rewrite Hst, Hw2 in Hd. lia.
    Qed.

    Lemma wide_owner_paint : forall c' y ch q,
      gget nw r c' = Some y -> ckind y = KChar ch -> cw o ch = 2 -> hidden o nw r c' = false ->
      In q ps -> pstart q <= c' < pstart q + plen o q ->
      q = PChar r c' (cface y) ch.
    Proof.
      intros. eapply cover_of_wide; eauto. eapply owner_shown; eauto.
    Qed.

    (* the target of a narrow character that is painted *)
    Lemma narrow_owner_target : forall p j x ch m,
      In p ps -> pstart p = j ->
      gget nw r j = Some x -> ckind x = KChar ch -> cw o ch = 1 ->
      gget M r j = Some m -> m <> MIgnored -> redrawn r j = false ->
      T r j = cell_of o ch (cface x).
    Proof.
      intros p j x ch m Hin Hst Hx Hk Hw1 Hm Hni Hred.
      assert (Hb : r < h /\ j < w) by (eapply nw_bounds; eauto).
      unfold T. apply den_narrow; auto.
      - eapply no_kept_cover; eauto. tauto.
      - apply left_wide_hidden. eapply owner_shown; eauto.
    Qed.

    Lemma conform_row : forall p, In p ps ->
      conform o T redrawn p /\ paint_valid o h w p /\ prow p = r.
    Proof.
      intros p Hin.
      destruct (paints_row_sound o r rn ro rm 0 0 p Hin) as (j & _ & new & oldc & m & ch & Hn & Ho & Hm & Hs & Hk & Hw & Hq).
      assert (Hgn : gget nw r j = Some new) by (rewrite (gget_row nw r rn); auto).
      assert (Hgm : gget M r j = Some m) by (rewrite (gget_row M r rm); auto).
      assert (Hb : r < h /\ j < w) by (eapply nw_bounds; eauto).
      pose proof (good_cells _ _ _ _ GN r j new Hgn) as Hg. unfold cell_good in Hg. rewrite Hk in Hg.
      assert (Hni : m <> MIgnored).
      { apply skipcond_false in Hs. destruct Hs as [->|[Hs _]]; auto. discriminate. }
      cbn [Nat.add] in Hq. destruct Hq as [[Hns ->]|[-> ->]].
      - (* a character *)
        split; [|split]; [| |reflexivity].
        + simpl. destruct Hg as [Hw1|[Hw2 Hfit]].
          * left. split; auto.
            destruct (redrawn r j) eqn:Ered; auto. right.
            eapply (narrow_owner_target (PChar r j (cface new) ch)); eauto.
          * right. split; auto. right. unfold T. eapply den_wide; eauto.
            eapply (owner_shown j (PChar r j (cface new) ch)); eauto.
        + simpl. lia.
      - (* a run of blanks *)
        set (n := blank_run new (skipn (S j) rn) (skipn (S j) rm)).
        assert (Hnle : j + S n <= w).
        { pose proof (blank_run_le new (skipn (S j) rn) (skipn (S j) rm)) as Hle. fold n in Hle.
          rewrite skipn_length, rn_len in Hle. lia. }
        split; [|split]; [| |reflexivity].
        + simpl. intros k Hk'.
          destruct (redrawn r k) eqn:Ered; auto. right.
          destruct (Nat.eq_dec k j) as [->|Hne].
          * rewrite (narrow_owner_target (PBlanks r j (cface new) (S n)) j new space m); auto.
          * destruct (blank_run_spec new (skipn (S j) rn) (skipn (S j) rm) (k - j - 1) ltac:(fold n; lia))
              as (y & mk & Hy & Hmk & Heq & Hmi).
            rewrite nth_error_skipn' in Hy. rewrite nth_error_skipn' in Hmk. replace (S j + (k - j - 1)) with k in * by lia.
            apply cell_eqb_eq in Heq. subst y.
            assert (Hgk : gget nw r k = Some new) by (rewrite (gget_row nw r rn); auto).
            assert (Hgmk : gget M r k = Some mk) by (rewrite (gget_row M r rm); auto).
            assert (Hmk' : mk <> MIgnored) by (intros ->; discriminate).
            unfold T. rewrite (den_narrow o h w nw r k new space); auto.
            -- eapply no_kept_cover; eauto. lia.
            -- unfold left_wide. destruct k as [|k']; auto.
               assert (Hprev : gget nw r k' = Some new).
               { destruct (Nat.eq_dec k' j) as [->|Hne']; auto.
                 destruct (blank_run_spec new (skipn (S j) rn) (skipn (S j) rm) (k' - j - 1) ltac:(fold n; lia))
                   as (y & mk2 & Hy2 & _ & Heq2 & _).
                 rewrite nth_error_skipn' in Hy2. replace (S j + (k' - j - 1)) with k' in * by lia.
                 apply cell_eqb_eq in Heq2. subst y. rewrite (gget_row nw r rn); auto. }
               rewrite Hprev. rewrite space_not_wide; auto.
        + simpl. lia.
    Qed.

    (* every cell of the row outside redrawn rectangles shows its target already or is painted *)
    Lemma cover_row : forall (g : grid scell) c,
      c < w -> redrawn r c = false ->
      (u = MEmpty -> gget g r c = Some (den o h w old r c)) ->
      okc T g r c \/ exists p, In p ps /\ footprint o p r c.
    Proof.
      intros g c Hc Hred Hsync.
      destruct (gget_in_bounds nw h w r c ltac:(apply GN) Hr Hc) as (new & Hn).
      destruct (gget_in_bounds old h w r c ltac:(apply Gold) Hr Hc) as (oldc & Ho).
      destruct (gget_in_bounds M h w r c (sp_dims HP) Hr Hc) as (m & Hm).
      destruct (cover_img o h w nw r c) as [[r0 c0]|] eqn:Ecov.
      { (* under a kept image *)
        left. unfold redrawn in Hred. rewrite Ecov in Hred.
        apply cover_img_some in Ecov. destruct Ecov as (Hr0 & Hc0 & f & i & Hi & Hin).
        pose proof (sp_same HP r0 c0 Hr0 Hc0 Hred) as Hsame.
        assert (Hi' : img_at old r0 c0 = Some (f, i)) by (unfold img_at in *; rewrite Hsame; auto).
        assert (Hue : u = MEmpty).
        { destruct Hu as [H|[_ Hblank]]; auto. exfalso.
          apply img_at_some in Hi'. destruct Hi' as (x & Hx & Hkx & _).
          rewrite Hblank in Hx. apply gget_gmake_inv in Hx. subst x. discriminate. }
        unfold okc. rewrite (Hsync Hue). f_equal. unfold T.
        rewrite (den_under_img o h w old Gold r0 c0 f i r c); auto.
        rewrite (den_under_img o h w nw GN r0 c0 f i r c); auto. }
      destruct (left_wide o nw r c) as [fw|] eqn:Elw.
      { (* behind a shown wide character *)
        apply left_wide_some in Elw. destruct Elw as (c' & y & -> & Ey & Ewd & Ehid & _).
        destruct (is_wide_char o y Ewd) as (chy & Eky & Ew).
        destruct (gget_in_bounds old h w r c' ltac:(apply Gold) Hr ltac:(lia)) as (oldc' & Ho').
        destruct (gget_in_bounds M h w r c' (sp_dims HP) Hr ltac:(lia)) as (m' & Hm').
        destruct (skipcond m' oldc' y) eqn:Es.
        - (* the wide character is skipped: it is unchanged and was shown *)
          left. apply skipcond_true in Es. destruct Es as [Hnd [Hi|Heq]].
          { exfalso. subst m'. eapply wide_owner_not_ignored; eauto. }
          subst oldc'.
          assert (Hue : u = MEmpty).
          { apply (u_empty_of_clean r c'); auto; try lia; try congruence.
            eapply wide_owner_not_ignored; eauto. }
          assert (Hho : hidden o old r c' = false).
          { destruct (hidden o old r c') eqn:E; auto. exfalso.
            assert (gget M r c' = Some MDamaged).
            { apply unhidden_damaged; auto; try lia. eapply wide_not_covered; eauto. lia. }
            congruence. }
          unfold okc. rewrite (Hsync Hue). f_equal. unfold T.
          destruct (den_wide o h w old Gold r c' y chy Ho' Eky Ew Hho) as [_ H1].
          destruct (den_wide o h w nw GN r c' y chy Ey Eky Ew Ehid) as [_ H2]. congruence.
        - (* the wide character is painted *)
          right.
          pose proof Ey as Eyrow. rewrite (gget_row nw r rn) in Eyrow by auto.
          rewrite (gget_row old r ro) in Ho' by auto. rewrite (gget_row M r rm) in Hm' by auto.
          destruct (paints_row_cover o r rn ro rm 0 0 c' y oldc' m' chy ltac:(lia) Eyrow Ho' Hm' Es Eky ltac:(lia))
            as (q & Hq & Hrange).
          assert (Hqe : q = PChar r c' (cface y) chy) by (eapply wide_owner_paint; eauto).
          exists q. split; auto. subst q. simpl. lia. }
      (* a plain cell *)
      assert (Ehid : hidden o nw r c = false) by (apply left_wide_hidden; exact Elw).
      pose proof (good_cells _ _ _ _ GN r c new Hn) as Hg. unfold cell_good in Hg.
      destruct (ckind new) as [ch|i|gl] eqn:Ek.
      2:{ exfalso. apply (covered_by_img r c new i r c Hn Ek (img_covers_self r c new i Hn Ek) Ecov). }
      2:{ contradiction. }
      destruct (skipcond m oldc new) eqn:Es.
      - left. apply skipcond_true in Es. destruct Es as [Hnd Hcase].
        assert (Hnot_ign : gget M r c <> Some MIgnored).
        { intros Hi. destruct (sp_ign HP r c Hi) as (r1 & c1 & y & Hy & Hsh & He).
          rewrite (no_shown_cover r c Ecov Ehid r1 c1 y Hy Hsh) in He. discriminate. }
        destruct Hcase as [Hi|Heq]; [subst m; congruence|].
        subst oldc.
        assert (Hue : u = MEmpty) by (apply (u_empty_of_clean r c); auto; congruence).
        unfold okc. rewrite (Hsync Hue). f_equal. unfold T.
        rewrite (den_plain nw r c Ecov Elw).
        rewrite den_plain.
        + unfold own_glyph. rewrite Ho, Hn. reflexivity.
        + (* nothing of old covers the cell *)
          destruct (cover_img o h w old r c) as [[r0 c0]|] eqn:Eco; auto. exfalso.
          apply cover_img_some in Eco. destruct Eco as (Hr0 & Hc0 & f & i & Hi & Hin).
          pose proof Hi as Hi2. apply img_at_some in Hi2. destruct Hi2 as (x & Hx & Hkx & Hfx).
          destruct (dec r0 c0) eqn:Ed.
          * assert (gget M r c = Some MDamaged).
            { apply (sp_old HP r0 c0 x r c Hx Ed); auto. rewrite (ext_covers_img o x i); auto.
              apply no_shown_cover; auto. }
            congruence.
          * pose proof (sp_same HP r0 c0 Hr0 Hc0 Ed) as Hsame. rewrite Hsame in Hx.
            apply (covered_by_img r0 c0 x i r c Hx Hkx Hin Ecov).
        + apply left_wide_hidden. destruct (hidden o old r c) eqn:E; auto. exfalso.
          assert (gget M r c = Some MDamaged) by (apply unhidden_damaged; auto).
          congruence.
      - right.
        rewrite (gget_row nw r rn) in Hn by auto.
        rewrite (gget_row old r ro) in Ho by auto. rewrite (gget_row M r rm) in Hm by auto.
        destruct (paints_row_cover o r rn ro rm 0 0 c new oldc m ch ltac:(lia) Hn Ho Hm Es Ek ltac:(lia))
          as (q & Hq & Hrange).
        exists q. split; auto.
        destruct (conform_row q Hq) as (_ & _ & Hrow).
        destruct q; simpl in *; subst; split; auto; lia.
    Qed.
  End OneRow.
End Analysis.
