(* The cells produced by the io::Write adapters do not depend on how the bytes are split
   across write calls.  The only way a split can be observed at all is the early return
   of `write` after a put that reported "out of space"; at that point the cursor is below
   the last row of the view (or the view has no column) and nothing can be written any
   more, so the backing slice is the same whatever happens to the dropped bytes. *)
From Coq Require Import List Arith Bool NArith ZArith Lia.
From SNT Require Import Base.Outcome Surface.Bounds Surface.Shape Render.CellLayout Render.Writer Render.WriterFrame.
Import ListNotations.

(* nothing can be written any more *)
Definition Dead (st : wstate) : Prop :=
  sh_width (w_sh st) = 0 \/ sh_height (w_sh st) <= l_r (w_l st).

(* same slice, and the same writer unless both are dead *)
Definition Sim (a b : wstate) : Prop :=
  a = b \/ (Dead a /\ Dead b /\ w_data a = w_data b /\ w_sh a = w_sh b).

Lemma sim_refl a : Sim a a.
Proof. now left. Qed.

Lemma sim_data a b : Sim a b -> w_data a = w_data b.
Proof. intros [->|(_ & _ & H & _)]; auto. Qed.

Lemma sim_alive a b : Sim a b -> ~ Dead a -> a = b.
Proof. intros [->|(H & _)]; tauto. Qed.

(* ---------- Cell::layout: rows never decrease; a handed-out position is on the new
   cursor row and left of the right edge (or in column 0) ---------- *)
Lemma layout_step_rows maxw wr s c s' p : layout_step maxw wr s c = (s', p) -> l_r s <= l_r s'.
Proof.
  unfold layout_step. destruct c as [| | |h w].
  - intros [= <- _]. cbn. lia.
  - intros [= <- _]. cbn. lia.
  - intros [= <- _]. cbn. lia.
  - destruct ((h =? 0) || (w =? 0)); [intros [= <- _]; lia|].
    destruct (l_c s + w <=? maxw); [intros [= <- _]; cbn; lia|].
    destruct (negb wr); intros [= <- _]; cbn; lia.
Qed.

Lemma layout_step_pos maxw wr s c s' r cc : layout_step maxw wr s c = (s', Some (r, cc)) ->
  r = l_r s' /\ (cc < maxw \/ cc = 0).
Proof.
  unfold layout_step. destruct c as [| | |h w]; try discriminate.
  destruct ((h =? 0) || (w =? 0)) eqn:Hz; [discriminate|].
  apply orb_false_iff in Hz as [_ Hw]. apply Nat.eqb_neq in Hw.
  destruct (l_c s + w <=? maxw) eqn:Hfit.
  - intros [= <- <- <-]. cbn. apply Nat.leb_le in Hfit. split; auto. left. lia.
  - destruct (negb wr); [discriminate|]. intros [= <- <- <-]. cbn. auto.
Qed.

(* ---------- dead writers stay dead and leave the slice alone ---------- *)
Definition Frozen (st st' : wstate) : Prop :=
  Dead st' /\ w_data st' = w_data st /\ w_sh st' = w_sh st.

Lemma frozen_trans a b c : Frozen a b -> Frozen b c -> Frozen a c.
Proof. intros (D1 & E1 & S1) (D2 & E2 & S2). repeat split; auto; congruence. Qed.

Lemma put_simple_dead ctx st c st' b : Dead st -> put_simple ctx st c = Ok (st', b) -> Frozen st st'.
Proof.
  intros Hd. unfold put_simple.
  destruct (layout_step _ _ _ _) as [l' pos] eqn:Hl.
  pose proof (layout_step_rows _ _ _ _ _ _ Hl) as Hrows.
  assert (Hd' : forall d, Dead (set_data (set_l st l') d)).
  { intros d. destruct Hd as [Hw|Hh]; [left; exact Hw|right; cbn; lia]. }
  assert (Hd'' : Dead (set_l st l')).
  { destruct Hd as [Hw|Hh]; [left; exact Hw|right; cbn; lia]. }
  destruct pos as [[r cc]|].
  - destruct (layout_step_pos _ _ _ _ _ _ _ Hl) as [-> Hcc].
    assert (Hout : (sh_height (w_sh st) <=? l_r l') || (sh_width (w_sh st) <=? cc) = true).
    { apply orb_true_iff. destruct Hd as [Hw|Hh]; [right|left]; apply Nat.leb_le; lia. }
    rewrite Hout. intros [= <- <-]. repeat split; auto.
  - destruct (_ && _).
    + intros [= <- <-]. repeat split; auto.
    + unfold face_fill. rewrite fill_positions_nil by exact Hd. cbn [fold_left].
      intros [= <- <-]. repeat split; auto.
Qed.

Lemma put_simple_false ctx st c st' : InBounds (w_sh st) (length (w_data st)) ->
  put_simple ctx st c = Ok (st', false) -> Dead st'.
Proof.
  intros Hb. unfold put_simple.
  destruct (layout_step _ _ _ _) as [l' pos] eqn:Hl.
  destruct pos as [[r cc]|].
  - destruct (layout_step_pos _ _ _ _ _ _ _ Hl) as [-> Hcc].
    destruct ((sh_height (w_sh st) <=? l_r l') || (sh_width (w_sh st) <=? cc)) eqn:Hout.
    + intros [= <-]. apply orb_true_iff in Hout as [H|H]; apply Nat.leb_le in H.
      * right. cbn. exact H.
      * left. cbn. lia.
    + apply orb_false_iff in Hout as [H1 H2]. apply Nat.leb_gt in H1, H2.
      destruct (nth_error _ _) eqn:Hn; [discriminate|].
      apply nth_error_None in Hn. specialize (Hb _ _ H1 H2). lia.
  - destruct (_ && _); [discriminate|]. destruct (face_fill _ _ _ _ _ _ _); discriminate.
Qed.

Lemma put_all_dead ctx cs : forall st st' b, Dead st -> put_all ctx st cs = Ok (st', b) -> Frozen st st'.
Proof.
  induction cs as [|c t IH]; intros st st' b Hd; cbn [put_all].
  - intros [= <- <-]. repeat split; auto.
  - destruct (put_simple ctx st c) as [[st1 [|]]| | |] eqn:H1; try discriminate.
    + intros H2. pose proof (put_simple_dead _ _ _ _ _ Hd H1) as F1.
      eapply frozen_trans; [exact F1|]. eapply IH; [apply F1|exact H2].
    + intros [= <- <-]. eapply put_simple_dead; eauto.
Qed.

Lemma put_all_false ctx cs : forall st st', InBounds (w_sh st) (length (w_data st)) ->
  put_all ctx st cs = Ok (st', false) -> Dead st'.
Proof.
  induction cs as [|c t IH]; intros st st' Hb; cbn [put_all]; [discriminate|].
  destruct (put_simple ctx st c) as [[st1 [|]]| | |] eqn:H1; try discriminate.
  - apply IH. eapply keeps_inbounds; [eapply put_simple_keeps; exact H1|exact Hb].
  - intros [= <-]. eapply put_simple_false; eauto.
Qed.

Lemma put_cell_dead ctx st c st' b : Dead st -> put_cell ctx st c = Ok (st', b) -> Frozen st st'.
Proof.
  unfold put_cell. destruct (c_kind c); try apply put_simple_dead.
  destruct (has_glyphs ctx); [apply put_simple_dead|apply put_all_dead].
Qed.

Lemma put_cell_false ctx st c st' : InBounds (w_sh st) (length (w_data st)) ->
  put_cell ctx st c = Ok (st', false) -> Dead st'.
Proof.
  unfold put_cell. destruct (c_kind c); try apply put_simple_false.
  destruct (has_glyphs ctx); [apply put_simple_false|apply put_all_false].
Qed.

(* ---------- write ---------- *)
Lemma write_bytes_dead ctx bytes : forall st st' s, Dead st -> write_bytes ctx st bytes = Ok (st', s) -> Frozen st st'.
Proof.
  induction bytes as [|b t IH]; intros st st' s Hd; cbn [write_bytes].
  - intros [= <- <-]. repeat split; auto.
  - destruct (utf8_feed (w_dec st) b) as [u [|ch|]].
    + intros H. apply (IH (set_dec st u)) in H; [|exact Hd]. exact H.
    + unfold put_char.
      destruct (put_cell ctx (set_dec st u) (mkCell (w_face (set_dec st u)) (KChar ch))) as [[st2 [|]]| | |] eqn:H1;
        try discriminate.
      * intros H. pose proof (put_cell_dead _ _ _ _ _ (Hd : Dead (set_dec st u)) H1) as F1.
        eapply (frozen_trans st st2 st'); [exact F1|]. eapply IH; [apply F1|exact H].
      * intros [= <- <-]. exact (put_cell_dead _ _ _ _ _ (Hd : Dead (set_dec st u)) H1).
    + intros [= <- <-]. repeat split; auto.
Qed.

Lemma write_bytes_full ctx bytes : forall st st', InBounds (w_sh st) (length (w_data st)) ->
  write_bytes ctx st bytes = Ok (st', WFull) -> Dead st'.
Proof.
  induction bytes as [|b t IH]; intros st st' Hb; cbn [write_bytes]; [discriminate|].
  destruct (utf8_feed (w_dec st) b) as [u [|ch|]].
  - apply (IH (set_dec st u)). exact Hb.
  - unfold put_char.
    destruct (put_cell ctx (set_dec st u) (mkCell (w_face (set_dec st u)) (KChar ch))) as [[st2 [|]]| | |] eqn:H1;
      try discriminate.
    + apply IH. eapply keeps_inbounds; [eapply put_cell_keeps; exact H1|exact Hb].
    + intros [= <-]. eapply put_cell_false; [|exact H1]. exact Hb.
  - discriminate.
Qed.

(* one write of b1 ++ b2 continues exactly where a write of b1 stopped, unless that
   write ended early *)
Lemma write_bytes_app ctx b1 b2 : forall st,
  write_bytes ctx st (b1 ++ b2) =
  match write_bytes ctx st b1 with
  | Ok (st1, WDone) => write_bytes ctx st1 b2
  | other => other
  end.
Proof.
  induction b1 as [|b t IH]; intros st; cbn [app write_bytes]; [reflexivity|].
  destruct (utf8_feed (w_dec st) b) as [u [|ch|]].
  - apply IH.
  - destruct (put_char ctx (set_dec st u) ch) as [[st2 [|]]| | |]; auto.
  - reflexivity.
Qed.

Lemma write_chunks_dead ctx chunks : forall st st' f, Dead st -> write_chunks ctx st chunks = Ok (st', f) -> Frozen st st'.
Proof.
  induction chunks as [|c t IH]; intros st st' f Hd; cbn [write_chunks].
  - intros [= <- <-]. repeat split; auto.
  - destruct (write_bytes ctx st c) as [[st1 s]| | |] eqn:H1; try discriminate.
    pose proof (write_bytes_dead _ _ _ _ _ Hd H1) as F1.
    destruct s.
    + intros H. eapply frozen_trans; [exact F1|]. eapply IH; [apply F1|exact H].
    + intros H. eapply frozen_trans; [exact F1|]. eapply IH; [apply F1|exact H].
    + intros [= <- <-]. exact F1.
Qed.

(* any partition against the single write of the concatenation *)
Lemma chunks_vs_single ctx chunks : forall st a fa, InBounds (w_sh st) (length (w_data st)) ->
  write_chunks ctx st chunks = Ok (a, fa) ->
  exists b sb, write_bytes ctx st (concat chunks) = Ok (b, sb) /\ Sim a b /\ (~ Dead a -> fa = wstat_ok sb).
Proof.
  induction chunks as [|c t IH]; intros st a fa Hb; cbn [write_chunks concat].
  - intros [= <- <-]. exists st, WDone. cbn. split; [reflexivity|]. split; [apply sim_refl|reflexivity].
  - rewrite write_bytes_app.
    destruct (write_bytes ctx st c) as [[st1 s]| | |] eqn:H1; try discriminate.
    pose proof (keeps_inbounds _ _ (write_bytes_keeps _ _ _ _ _ H1) Hb) as Hb1.
    destruct s.
    + intros H. exact (IH st1 a fa Hb1 H).
    + intros H. pose proof (write_bytes_full _ _ _ _ Hb H1) as Hd1.
      pose proof (write_chunks_dead _ _ _ _ _ Hd1 H) as (Da & Ea & Sa).
      exists st1, WFull. split; [reflexivity|]. split.
      * right. repeat split; auto.
      * intros Hna. tauto.
    + intros [= <- <-]. exists st1, WErr. split; [reflexivity|]. split; [apply sim_refl|reflexivity].
Qed.

(* two partitions of the same bytes *)
Theorem write_chunks_partition ctx st chunks1 chunks2 :
  InBounds (w_sh st) (length (w_data st)) -> concat chunks1 = concat chunks2 ->
  exists a fa b fb, write_chunks ctx st chunks1 = Ok (a, fa) /\ write_chunks ctx st chunks2 = Ok (b, fb) /\
    Sim a b /\ (~ Dead a -> fa = fb).
Proof.
  intros Hb Hc.
  destruct (write_chunks_total ctx chunks1 st Hb) as (a & fa & H1).
  destruct (write_chunks_total ctx chunks2 st Hb) as (b & fb & H2).
  exists a, fa, b, fb. split; [exact H1|]. split; [exact H2|].
  destruct (chunks_vs_single _ _ _ _ _ Hb H1) as (x & sx & Hx & Sax & Fa).
  destruct (chunks_vs_single _ _ _ _ _ Hb H2) as (y & sy & Hy & Sby & Fb).
  rewrite Hc in Hx. rewrite Hx in Hy. injection Hy as <- <-.
  split.
  - destruct Sax as [->|(Da & Dx & Ea & Sa)]; destruct Sby as [->|(Db & Dx' & Eb & Sb)].
    + apply sim_refl.
    + right. repeat split; auto.
    + right. repeat split; auto.
    + right. repeat split; auto; congruence.
  - intros Hna. rewrite (Fa Hna). destruct Sax as [->|(Da & _)]; [|tauto].
    destruct Sby as [->|(Db & Dx' & _)]; [|tauto]. rewrite (Fb Hna). reflexivity.
Qed.

(* ---------- the escape-sequence writer is a fold over bytes ---------- *)
Lemma tty_write_app ctx b1 b2 : forall st ts,
  tty_write ctx st ts (b1 ++ b2) =
  match tty_write ctx st ts b1 with
  | Ok (st1, ts1) => tty_write ctx st1 ts1 b2
  | other => other
  end.
Proof.
  induction b1 as [|b t IH]; intros st ts; cbn [app tty_write]; [reflexivity|].
  destruct (tok_feed (cmd_dfa ctx) ts b) as [[ts1 items]| | |]; auto.
  destruct (tty_apply ctx st items) as [st1| | |]; auto.
Qed.

Lemma tty_chunks_concat ctx chunks : forall st ts,
  tty_chunks ctx st ts chunks = tty_write ctx st ts (concat chunks).
Proof.
  induction chunks as [|c t IH]; intros st ts; cbn [tty_chunks concat]; [reflexivity|].
  rewrite tty_write_app. destruct (tty_write ctx st ts c) as [[st1 ts1]| | |]; auto.
Qed.

Lemma tty_apply_dead ctx items : forall st st', Dead st -> tty_apply ctx st items = Ok st' -> Frozen st st'.
Proof.
  induction items as [|it t IH]; intros st st' Hd; cbn [tty_apply].
  - intros [= <-]. repeat split; auto.
  - destruct it as [ch|seq|raw].
    + destruct (put_char ctx st ch) as [[st1 f]| | |] eqn:H1; try discriminate.
      intros H. pose proof (put_cell_dead _ _ _ _ _ Hd H1) as F1.
      eapply frozen_trans; [exact F1|]. eapply IH; [apply F1|exact H].
    + intros H. apply (IH (set_face st (sgr_lookup (sgr_tab ctx) seq (w_face st))) st' Hd H).
    + apply IH, Hd.
Qed.

Lemma tty_write_dead ctx bytes : forall st ts st' ts', Dead st -> tty_write ctx st ts bytes = Ok (st', ts') -> Frozen st st'.
Proof.
  induction bytes as [|b t IH]; intros st ts st' ts' Hd; cbn [tty_write].
  - intros [= <- <-]. repeat split; auto.
  - destruct (tok_feed (cmd_dfa ctx) ts b) as [[ts1 items]| | |]; try discriminate.
    destruct (tty_apply ctx st items) as [st1| | |] eqn:H1; try discriminate.
    intros H. pose proof (tty_apply_dead _ _ _ _ Hd H1) as F1.
    eapply frozen_trans; [exact F1|]. eapply IH; [apply F1|exact H].
Qed.

(* ---------- whole client programs: partitions of every write may differ ---------- *)
Lemma wop_step_dead ctx st o st' b : Dead st -> wop_step ctx st o = Ok (st', b) -> Frozen st st'.
Proof.
  intros Hd. destruct o; cbn [wop_step].
  - apply put_cell_dead. exact Hd.
  - apply put_cell_dead. exact Hd.
  - intros [= <- <-]. repeat split; auto.
  - intros [= <- <-]. repeat split; auto.
  - apply write_chunks_dead. exact Hd.
  - destruct (write_chunks ctx (set_dec st u0) chunks) as [[st1 f]| | |] eqn:H1; try discriminate.
    intros [= <- <-]. exact (write_chunks_dead _ _ _ _ _ (Hd : Dead (set_dec st u0)) H1).
  - rewrite tty_chunks_concat.
    destruct (tty_write ctx st (t0 (cmd_dfa ctx)) (concat chunks)) as [[st1 ts1]| | |] eqn:H1; try discriminate.
    intros [= <- <-]. eapply tty_write_dead; [exact Hd|exact H1].
Qed.

Lemma wops_run_dead ctx ops : forall st st' bs, Dead st -> wops_run ctx st ops = Ok (st', bs) -> Frozen st st'.
Proof.
  induction ops as [|o t IH]; intros st st' bs Hd; cbn [wops_run].
  - intros [= <- <-]. repeat split; auto.
  - destruct (wop_step ctx st o) as [[st1 b]| | |] eqn:H1; try discriminate.
    destruct (wops_run ctx st1 t) as [[st2 bs2]| | |] eqn:H2; try discriminate.
    intros [= <- <-]. pose proof (wop_step_dead _ _ _ _ _ Hd H1) as F1.
    eapply frozen_trans; [exact F1|]. eapply IH; [apply F1|exact H2].
Qed.

Lemma frozen_sim a b a' b' : Sim a b -> Dead a -> Frozen a a' -> Frozen b b' -> Sim a' b'.
Proof.
  intros S Da (Da' & Ea & Sa) (Db' & Eb & Sb). right. repeat split; auto.
  - rewrite Ea, Eb. apply sim_data, S.
  - rewrite Sa, Sb. destruct S as [->|(_ & _ & _ & ->)]; reflexivity.
Qed.

Lemma sim_dead a b : Sim a b -> Dead a -> Dead b.
Proof. intros [->|(_ & H & _)]; auto. Qed.

Lemma sim_set_dec a b u : Sim a b -> Sim (set_dec a u) (set_dec b u).
Proof. intros [->|(Da & Db & E & Sh)]; [apply sim_refl|]. right. repeat split; auto. Qed.

(* one step of two programs that differ only in how writes are partitioned *)
Lemma wop_step_sim ctx o1 o2 : merge_op o1 = merge_op o2 -> forall s1 s2 a fa b fb,
  InBounds (w_sh s1) (length (w_data s1)) -> Sim s1 s2 ->
  wop_step ctx s1 o1 = Ok (a, fa) -> wop_step ctx s2 o2 = Ok (b, fb) ->
  Sim a b /\ (~ Dead a -> fa = fb).
Proof.
  intros Hm s1 s2 a fa b fb Hb S H1 H2.
  destruct S as [<-|S].
  2:{ destruct S as (D1 & D2 & E & Sh). split.
      - eapply (frozen_sim s1 s2); [right; repeat split; auto|exact D1| |].
        + eapply wop_step_dead; eauto.
        + eapply wop_step_dead; eauto.
      - intros Hna. exfalso. apply Hna. exact (proj1 (wop_step_dead _ _ _ _ _ D1 H1)). }
  destruct o1, o2; cbn [merge_op] in Hm; try discriminate;
    try (injection Hm as <-; rewrite H1 in H2; injection H2 as <- <-; split; [apply sim_refl|reflexivity]).
  - (* OWrite / OWrite *)
    injection Hm as Hc. cbn [wop_step] in H1, H2.
    destruct (write_chunks_partition ctx s1 chunks chunks0 Hb Hc) as (x & fx & y & fy & Hx & Hy & Sxy & Al).
    rewrite Hx in H1. rewrite Hy in H2. injection H1 as <- <-. injection H2 as <- <-. split; assumption.
  - (* OWriteU / OWriteU *)
    injection Hm as Hc. cbn [wop_step] in H1, H2.
    destruct (write_chunks_partition ctx (set_dec s1 u0) chunks chunks0 Hb Hc) as (x & fx & y & fy & Hx & Hy & Sxy & Al).
    rewrite Hx in H1. rewrite Hy in H2. injection H1 as <- <-. injection H2 as <- <-. split.
    + apply sim_set_dec, Sxy.
    + exact Al.
  - (* OWriteT / OWriteT *)
    injection Hm as Hc. cbn [wop_step] in H1, H2. rewrite !tty_chunks_concat in H1, H2. rewrite Hc in H1.
    rewrite H1 in H2. injection H2 as <- <-. split; [apply sim_refl|reflexivity].
Qed.

Theorem program_chunking ctx ops1 : forall ops2 s1 s2,
  InBounds (w_sh s1) (length (w_data s1)) -> InBounds (w_sh s2) (length (w_data s2)) -> Sim s1 s2 ->
  map merge_op ops1 = map merge_op ops2 ->
  exists a fa b fb, wops_run ctx s1 ops1 = Ok (a, fa) /\ wops_run ctx s2 ops2 = Ok (b, fb) /\
    Sim a b /\ (~ Dead a -> fa = fb).
Proof.
  induction ops1 as [|o1 t1 IH]; intros [|o2 t2] s1 s2 Hb1 Hb2 S Hm; cbn [map] in Hm; try discriminate.
  - exists s1, [], s2, []. cbn. repeat split; auto.
  - injection Hm as Ho Ht. cbn [wops_run].
    destruct (wop_step_total ctx s1 o1 Hb1) as (x & fx & Hx).
    destruct (wop_step_total ctx s2 o2 Hb2) as (y & fy & Hy).
    rewrite Hx, Hy.
    destruct (wop_step_sim ctx o1 o2 Ho _ _ _ _ _ _ Hb1 S Hx Hy) as [Sxy Fxy].
    pose proof (keeps_inbounds _ _ (wop_step_keeps _ _ _ _ _ Hx) Hb1) as Hbx.
    pose proof (keeps_inbounds _ _ (wop_step_keeps _ _ _ _ _ Hy) Hb2) as Hby.
    destruct (IH t2 x y Hbx Hby Sxy Ht) as (a & fa & b & fb & Ha & Hb' & Sab & Fab).
    rewrite Ha, Hb'. exists a, (fx :: fa), b, (fy :: fb). repeat split; auto.
    intros Hna.
    assert (Hnx : ~ Dead x). { intros Dx. apply Hna. exact (proj1 (wops_run_dead _ _ _ _ _ Dx Ha)). }
    rewrite (Fxy Hnx), (Fab Hna). reflexivity.
Qed.
