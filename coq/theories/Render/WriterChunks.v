(* The io::Write adapters do not depend on how the bytes are split across write calls: a
   sequence of writes (by a caller that gives up at the first Err) is the single write of the
   concatenated bytes -- same slice, same writer state (cursor, size, face, decoder), same
   result.  For the UTF-8 adapters this is write_bytes_app; for the escape-sequence adapter it
   rests on WriterTty.tty_write_fold (the per-call decode loop with its lazily re-parsed
   rescheduled bytes is a fold over the bytes). *)
From Coq Require Import List Arith Bool NArith ZArith Lia.
From SNT Require Import Base.Outcome Surface.Bounds Surface.Shape Render.CellLayout Render.Writer Render.TokFuel
  Render.WriterTty Render.WriterFrame.
Import ListNotations.

(* one write of b1 ++ b2 continues exactly where a write of b1 stopped, unless that write failed *)
Lemma write_bytes_app ctx b1 b2 : forall st,
  write_bytes ctx st (b1 ++ b2) =
  match write_bytes ctx st b1 with
  | Ok (st1, WDone) => write_bytes ctx st1 b2
  | other => other
  end.
Proof.
  induction b1 as [|b t IH]; intros st; cbn [app write_bytes]; [reflexivity|].
  destruct (utf8_feed (w_dec st) b) as [u [|ch|]].
  - apply IH.
  - destruct (put_char ctx (set_dec st u) ch) as [[st2 f]| | |]; auto.
  - reflexivity.
Qed.

(* the result of a caller that stops at the first Err, in terms of one write *)
Definition one_write (ctx : rctx) (st : wstate) (bytes : list N) : outcome (wstate * bool) :=
  match write_bytes ctx st bytes with
  | Ok (st', s) => Ok (st', wstat_ok s)
  | Err e => Err e
  | Panic s => Panic s
  | OutOfFuel => OutOfFuel
  end.

Lemma write_chunks_concat ctx chunks : forall st, write_chunks ctx st chunks = one_write ctx st (concat chunks).
Proof.
  induction chunks as [|c t IH]; intros st; cbn [write_chunks concat]; [reflexivity|].
  unfold one_write. rewrite write_bytes_app.
  destruct (write_bytes ctx st c) as [[st1 [|]]| | |]; try reflexivity.
  rewrite IH. reflexivity.
Qed.

(* two partitions of the same bytes, from any writer state (decoder possibly in the middle
   of a character): same outcome, state and flag included *)
Theorem write_chunks_partition ctx st chunks1 chunks2 :
  concat chunks1 = concat chunks2 -> write_chunks ctx st chunks1 = write_chunks ctx st chunks2.
Proof. intros E. rewrite !write_chunks_concat, E. reflexivity. Qed.

Theorem tty_chunks_partition ctx st ts chunks1 chunks2 :
  InBounds (w_sh st) (length (w_data st)) -> TokOk ts -> concat chunks1 = concat chunks2 ->
  tty_chunks ctx st ts chunks1 = tty_chunks ctx st ts chunks2.
Proof. intros Hb Hc E. rewrite !tty_chunks_concat by assumption. rewrite E. reflexivity. Qed.

(* ---------- one adapter used for several writes, with parent() in between ---------- *)
Lemma sess_u_merge ctx items : forall st, sess_u ctx st (merge_items items) = sess_u ctx st items.
Proof.
  induction items as [|[a|o] rest IH]; intros st; cbn [merge_items]; [reflexivity| |].
  - destruct (merge_items rest) as [|[b|o] r'] eqn:Em.
    + cbn [sess_u]. destruct (write_bytes ctx st a) as [[st1 [|]]| | |]; try reflexivity.
      rewrite <- IH. reflexivity.
    + cbn [sess_u]. rewrite write_bytes_app.
      destruct (write_bytes ctx st a) as [[st1 [|]]| | |]; try reflexivity.
      rewrite <- IH. reflexivity.
    + cbn [sess_u]. destruct (write_bytes ctx st a) as [[st1 [|]]| | |]; try reflexivity.
      rewrite <- IH. reflexivity.
  - cbn [sess_u]. destruct (simple_step ctx st o) as [[st1 f]| | |]; try reflexivity. apply IH.
Qed.

Lemma tty_write_app ctx st ts a b : InBounds (w_sh st) (length (w_data st)) -> TokOk ts ->
  tty_write ctx st ts (a ++ b) =
  match tty_write ctx st ts a with
  | Ok (st1, ts1) => tty_write ctx st1 ts1 b
  | other => other
  end.
Proof.
  intros Hb Hc. rewrite !tty_write_fold by apply Hc. rewrite tty_fold_app.
  destruct (tty_fold_total ctx a st ts Hb Hc) as (st1 & ts1 & E & Hc1). rewrite E.
  rewrite tty_write_fold by apply Hc1. reflexivity.
Qed.

Lemma sess_t_merge ctx items : forall st ts, InBounds (w_sh st) (length (w_data st)) -> TokOk ts ->
  sess_t ctx st ts (merge_items items) = sess_t ctx st ts items.
Proof.
  induction items as [|[a|o] rest IH]; intros st ts Hb Hc; cbn [merge_items]; [reflexivity| |].
  - destruct (tty_write_total ctx a st ts Hb Hc) as (st1 & ts1 & E & Hc1).
    assert (Hb1 : InBounds (w_sh st1) (length (w_data st1))).
    { eapply keeps_inbounds; [eapply tty_write_keeps; exact E|exact Hb]. }
    specialize (IH st1 ts1 Hb1 Hc1).
    destruct (merge_items rest) as [|[b|o] r'] eqn:Em.
    + cbn [sess_t]. rewrite E. rewrite <- IH. reflexivity.
    + cbn [sess_t]. rewrite tty_write_app by assumption. rewrite E. rewrite <- IH. reflexivity.
    + cbn [sess_t]. rewrite E. rewrite <- IH. reflexivity.
  - cbn [sess_t]. destruct (simple_step ctx st o) as [[st1 f]| | |] eqn:E; try reflexivity.
    apply IH; [|exact Hc]. eapply keeps_inbounds; [eapply simple_step_keeps; exact E|exact Hb].
Qed.

(* ---------- whole client programs ---------- *)
Lemma wop_step_merge ctx st o : InBounds (w_sh st) (length (w_data st)) ->
  wop_step ctx st o = wop_step ctx st (merge_op o).
Proof.
  intros Hb. destruct o; cbn [merge_op wop_step]; try reflexivity.
  - apply write_chunks_partition. cbn. now rewrite app_nil_r.
  - rewrite (write_chunks_partition ctx (set_dec st u0) chunks [concat chunks]); [reflexivity|].
    cbn. now rewrite app_nil_r.
  - rewrite (tty_chunks_partition ctx st (t0 (cmd_dfa ctx)) chunks [concat chunks] Hb (t0_tokok _)); [reflexivity|].
    cbn. now rewrite app_nil_r.
  - rewrite sess_u_merge. reflexivity.
  - rewrite (sess_t_merge ctx items st (t0 (cmd_dfa ctx)) Hb (t0_tokok _)). reflexivity.
Qed.

Lemma wops_run_merge ctx ops : forall st, InBounds (w_sh st) (length (w_data st)) ->
  wops_run ctx st ops = wops_run ctx st (map merge_op ops).
Proof.
  induction ops as [|o t IH]; intros st Hb; cbn [map wops_run]; [reflexivity|].
  rewrite <- wop_step_merge by exact Hb.
  destruct (wop_step ctx st o) as [[st1 b]| | |] eqn:H1; try reflexivity.
  rewrite IH; [reflexivity|]. eapply keeps_inbounds; [eapply wop_step_keeps; exact H1|exact Hb].
Qed.

(* two programs that differ only in how the bytes of each write are split across calls *)
Theorem program_chunking ctx st ops1 ops2 :
  InBounds (w_sh st) (length (w_data st)) -> map merge_op ops1 = map merge_op ops2 ->
  wops_run ctx st ops1 = wops_run ctx st ops2.
Proof. intros Hb E. rewrite (wops_run_merge ctx ops1 st Hb), (wops_run_merge ctx ops2 st Hb), E. reflexivity. Qed.

(* ---------- a caller that carries on after an Err ---------- *)
(* io::Write gives no way to learn how much of a buffer was consumed before an Err; a caller that
   ignores the error and issues the next write anyway sees partition-dependent results: the
   rest of the failing buffer is lost, the next buffer is not *)
Fixpoint write_chunks_ignoring_errors (ctx : rctx) (st : wstate) (chunks : list (list N)) : outcome wstate :=
  match chunks with
  | [] => Ok st
  | c :: rest =>
      match write_bytes ctx st c with
      | Ok (st', _) => write_chunks_ignoring_errors ctx st' rest
      | Err e => Err e
      | Panic s => Panic s
      | OutOfFuel => OutOfFuel
      end
  end.
