(* Render/PaintProofs.v — painting relative to a target screen.

   A paint (Frame.v: one character, or a run of blanks) is applied to the grid
   by [apply_paint]; when every paint of a list conforms to the target T
   (outside the don't-care set D it writes exactly what T prescribes) then,
   outside D, every cell that showed its target before or that is touched by
   some paint shows its target afterwards. *)
From Coq Require Import List NArith Bool Arith Lia.
From SNT Require Import Render.Cell Render.Screen Render.Frame Render.GridLemmas Render.ScreenProofs.
Import ListNotations.

Definition apply_paint (o : oracle) (g : grid scell) (p : paint) : grid scell :=
  match p with
  | PChar r c f ch => on_row g r (fun row => put_char o row c ch f)
  | PBlanks r c f n => on_row g r (fun row => erase_cells row c n (Blank, fspace o f))
  | PErase r c f n => on_row g r (fun row => erase_cells row c n (Blank, ferase o f))
  end.

Definition apply_paints (o : oracle) (g : grid scell) (ps : list paint) : grid scell :=
  fold_left (apply_paint o) ps g.

Lemma gdims_apply_paint : forall o g h w p, gdims g h w -> gdims (apply_paint o g p) h w.
Proof.
  intros o g h w [r c f ch|r c f n|r c f n] Hd; simpl; apply gdims_on_row; auto; intros.
  apply put_char_length. apply erase_cells_length. apply erase_cells_length.
Qed.

Lemma gdims_apply_paints : forall o ps g h w, gdims g h w -> gdims (apply_paints o g ps) h w.
Proof.
  induction ps as [|p ps IH]; intros; simpl; auto. apply IH. apply gdims_apply_paint; auto.
Qed.

Lemma cell_of_nonwide : forall o ch f, nonwide (fst (cell_of o ch f)).
Proof. intros. unfold cell_of. destruct (N.eqb ch space); simpl; auto. Qed.

Section Target.
  Variable o : oracle.
  Variable T : nat -> nat -> scell.
  Variable D : nat -> nat -> bool.
  Hypothesis T_wl : forall r k ch, fst (T r k) = WL ch -> fst (T r (S k)) = WR.
  Hypothesis T_wr : forall r k, fst (T r k) = WR -> exists k' ch, k = S k' /\ fst (T r k') = WL ch.
  Hypothesis D_nonwide : forall r k, D r k = true -> nonwide (fst (T r k)).

  Definition okc (g : grid scell) (r c : nat) : Prop := gget g r c = Some (T r c).

  Definition conform (p : paint) : Prop :=
    match p with
    | PChar r c f ch =>
        (cw o ch = 1 /\ (D r c = true \/ T r c = cell_of o ch f))
        \/ (cw o ch = 2 /\ ((D r c = true /\ D r (S c) = true)
                            \/ (T r c = (WL ch, f) /\ T r (S c) = (WR, f))))
    | PBlanks r c f n => forall j, c <= j < c + n -> D r j = true \/ T r j = (Blank, fspace o f)
    | PErase r c f n => forall j, c <= j < c + n -> D r j = true \/ T r j = (Blank, ferase o f)
    end.

  Definition footprint (p : paint) (r c : nat) : Prop :=
    match p with
    | PChar r0 c0 _ ch => r = r0 /\ c0 <= c < c0 + cw o ch
    | PBlanks r0 c0 _ n | PErase r0 c0 _ n => r = r0 /\ c0 <= c < c0 + n
    end.

  Definition paint_inside (h w : nat) (p : paint) : Prop :=
    match p with
    | PChar r0 c0 _ ch => r0 < h /\ c0 + cw o ch <= w
    | PBlanks r0 c0 _ n | PErase r0 c0 _ n => r0 < h /\ c0 + n <= w
    end.

  Lemma apply_paint_ok : forall g h w p r c,
    gdims g h w -> conform p -> paint_inside h w p -> D r c = false ->
    (okc g r c \/ footprint p r c) -> okc (apply_paint o g p) r c.
  Proof.
    intros g h w p r c Hd Hc Hin Dk H. unfold okc in *.
    assert (Hblank : forall r0 c0 n x, nonwide (fst x) -> r0 < h /\ c0 + n <= w ->
              (forall j, c0 <= j < c0 + n -> D r0 j = true \/ T r0 j = x) ->
              (gget g r c = Some (T r c) \/ (r = r0 /\ c0 <= c < c0 + n)) ->
              gget (on_row g r0 (fun row => erase_cells row c0 n x)) r c = Some (T r c)).
    { intros r0 c0 n x Hx [Hr0 Hw] Hcf H'.
      rewrite gget_on_row. destruct (Nat.eqb_spec r r0) as [->|Hr].
      2:{ destruct H' as [H'|[H' _]]; auto. contradiction. }
      destruct (nth_error g r0) as [row|] eqn:Er.
      2:{ apply nth_error_None in Er. destruct Hd. lia. }
      assert (Hl : length row = w) by (eapply gdims_row; eauto).
      assert (Hg : gget g r0 c = nth_error row c) by (unfold gget; rewrite Er; reflexivity).
      rewrite Hg in H'.
      apply (erase_cells_ok (T r0) (D r0) (T_wl r0) (T_wr r0) (D_nonwide r0)); auto.
      destruct H' as [H'|[_ H']]; auto. right. lia. }
    destruct p as [r0 c0 f ch|r0 c0 f n|r0 c0 f n]; simpl in *;
      [|apply Hblank; simpl; auto|apply Hblank; simpl; auto].
    - (* one character *)
      rewrite gget_on_row. destruct (Nat.eqb_spec r r0) as [->|Hr].
      2:{ destruct H as [H|[H _]]; auto. contradiction. }
      destruct Hin as [Hr0 Hw].
      destruct (nth_error g r0) as [row|] eqn:Er.
      2:{ apply nth_error_None in Er. destruct Hd. lia. }
      assert (Hl : length row = w) by (eapply gdims_row; eauto).
      assert (Hg : gget g r0 c = nth_error row c) by (unfold gget; rewrite Er; reflexivity).
      rewrite Hg in H. unfold put_char.
      destruct Hc as [[Hw1 Hc]|[Hw2 Hc]].
      + rewrite Hw1 in *. destruct (Nat.eq_dec c c0) as [->|Hne].
        * rewrite put_hits by lia. destruct Hc as [Hc|Hc]; congruence.
        * destruct H as [H|[_ H]]; [|lia].
          apply (put_keeps (T r0) (D r0) (T_wl r0) (T_wr r0) (D_nonwide r0)); auto.
          -- apply cell_of_nonwide.
          -- destruct Hc as [Hc|Hc]; auto.
      + rewrite Hw2 in *.
        destruct (put2_hits row c0 (WL ch, f) (WR, f) ltac:(lia)) as [H1 H2].
        destruct (Nat.eq_dec c c0) as [->|Hne1].
        { rewrite H1. destruct Hc as [[Hc _]|[Hc _]]; congruence. }
        destruct (Nat.eq_dec c (S c0)) as [->|Hne2].
        { rewrite H2. destruct Hc as [[_ Hc]|[_ Hc]]; congruence. }
        destruct H as [H|[_ H]]; [|lia].
        apply (put2_keeps (T r0) (D r0) (T_wl r0) (T_wr r0) (D_nonwide r0)); auto.
  Qed.

  Lemma apply_paints_ok : forall ps g h w r c,
    gdims g h w -> Forall conform ps -> Forall (paint_inside h w) ps -> D r c = false ->
    (okc g r c \/ exists p, In p ps /\ footprint p r c) -> okc (apply_paints o g ps) r c.
  Proof.
    induction ps as [|p ps IH]; intros g h w r c Hd Hc Hin Dk H; simpl.
    - destruct H as [H|(p & [] & _)]; auto.
    - inversion Hc; subst. inversion Hin; subst.
      apply (IH _ h w); auto. apply gdims_apply_paint; auto.
      destruct H as [H|(p' & [<-|Hp] & Hf)].
      + left. eapply apply_paint_ok; eauto.
      + left. eapply apply_paint_ok; eauto.
      + right. eauto.
  Qed.
End Target.
