(* Model of src/face.rs: UnderlineStyle, FaceAttrs (u16 bit set with the
   underline style packed into the low three bits), Face, FaceModify and
   FaceModify::apply.  Constants come from Gen/C06Tables.v (regenerated from the
   source on every run).

   A colour is the four u8 channels of rasterize::RGBA.  `f_attrs` is the raw
   `bits: u16` of FaceAttrs. *)
From Coq Require Import List NArith Bool.
From SNT Require Export Gen.C06Tables.
Import ListNotations.
Local Open Scope N_scope.

Inductive rgba := RGBA (r g b a : N).

Definition rgba_eqb (x y : rgba) : bool :=
  match x, y with
  | RGBA r g b a, RGBA r' g' b' a' => (r =? r') && (g =? g') && (b =? b') && (a =? a')
  end.

Definition opt_eqb {A} (eqb : A -> A -> bool) (x y : option A) : bool :=
  match x, y with
  | None, None => true
  | Some a, Some b => eqb a b
  | _, _ => false
  end.

Inductive ustyle := UNone | UStraight | UDouble | UCurly | UDotted | UDashed.

Definition ustyle_eqb (x y : ustyle) : bool :=
  match x, y with
  | UNone, UNone | UStraight, UStraight | UDouble, UDouble
  | UCurly, UCurly | UDotted, UDotted | UDashed, UDashed => true
  | _, _ => false
  end.

(* ---- FaceAttrs (face.rs:33-223) ---- *)

Definition u16 (n : N) : N := n mod 65536.

(* FaceAttrs::underline: `match 0b111 & self.bits` *)
Definition fa_underline (bits : N) : ustyle :=
  let k := N.land 7 bits in
  if k =? FA_UNDERLINE then UStraight
  else if k =? FA_UNDERLINE_DOUBLE then UDouble
  else if k =? FA_UNDERLINE_CURLY then UCurly
  else if k =? FA_UNDERLINE_DOTTED then UDotted
  else if k =? FA_UNDERLINE_DASHED then UDashed
  else UNone.

(* FaceAttrs::unpack: (self.underline(), self.bits >> 3) *)
Definition fa_unpack (bits : N) : ustyle * N := (fa_underline bits, N.shiftr bits 3).

Definition ustyle_bits (u : ustyle) : N :=
  match u with
  | UNone => 0 | UStraight => 1 | UDouble => 2 | UCurly => 3 | UDotted => 4 | UDashed => 5
  end.

(* FaceAttrs::pack: underline_bits | (flags << 3), in u16 *)
Definition fa_pack (u : ustyle) (flags : N) : N :=
  N.lor (ustyle_bits u) (u16 (N.shiftl flags 3)).

(* From<UnderlineStyle> for FaceAttrs *)
Definition fa_of_ustyle (u : ustyle) : N := fa_pack u 0.

Definition fa_is_empty (bits : N) : bool := bits =? 0.

Definition fa_contains (self other : N) : bool :=
  let '(su, sf) := fa_unpack self in
  let '(ou, of) := fa_unpack other in
  if negb (ustyle_eqb ou UNone) && negb (ustyle_eqb su ou) then false
  else N.land sf of =? of.

Definition fa_insert (self other : N) : N :=
  let '(su, sf) := fa_unpack self in
  let '(ou, of) := fa_unpack other in
  let under := if negb (ustyle_eqb ou UNone) then ou else su in
  fa_pack under (N.lor sf of).

Definition fa_remove (self other : N) : N :=
  let '(su, sf) := fa_unpack self in
  let '(ou, of) := fa_unpack other in
  let under := if negb (ustyle_eqb ou UNone) then UNone else su in
  fa_pack under (N.land sf (N.lxor of FA_ALL_FLAGS)).

(* impl BitOr (structured) and impl BitOrAssign (raw) *)
Definition fa_bitor (lhs rhs : N) : N :=
  let '(lu, lf) := fa_unpack lhs in
  let '(ru, rf) := fa_unpack rhs in
  let under := if ustyle_eqb ru UNone then lu else ru in
  fa_pack under (N.lor lf rf).
Definition fa_bitor_assign (lhs rhs : N) : N := N.lor lhs rhs.

(* ---- Face, FaceModify (face.rs:231-460) ---- *)

Record face := mkFace { f_fg : option rgba; f_bg : option rgba; f_attrs : N }.
Definition face_default : face := mkFace None None 0.

Definition face_eqb (x y : face) : bool :=
  opt_eqb rgba_eqb (f_fg x) (f_fg y) && opt_eqb rgba_eqb (f_bg x) (f_bg y) && (f_attrs x =? f_attrs y).

Record face_modify := mkFM {
  m_reset : bool;
  m_fg : option rgba;
  m_bg : option rgba;
  m_underline : option ustyle;
  m_ucolor : option rgba;
  m_bold : option bool;
  m_italic : option bool;
  m_blink : option bool;
  m_strike : option bool
}.
Definition fm_default : face_modify := mkFM false None None None None None None None None.
Definition fm_reset : face_modify := mkFM true None None None None None None None None.

Definition face_modify_eqb (x y : face_modify) : bool :=
  Bool.eqb (m_reset x) (m_reset y)
  && opt_eqb rgba_eqb (m_fg x) (m_fg y) && opt_eqb rgba_eqb (m_bg x) (m_bg y)
  && opt_eqb ustyle_eqb (m_underline x) (m_underline y)
  && opt_eqb rgba_eqb (m_ucolor x) (m_ucolor y)
  && opt_eqb Bool.eqb (m_bold x) (m_bold y) && opt_eqb Bool.eqb (m_italic x) (m_italic y)
  && opt_eqb Bool.eqb (m_blink x) (m_blink y) && opt_eqb Bool.eqb (m_strike x) (m_strike y).

Definition apply_flag (update : option bool) (flag : N) (attrs : N) : N :=
  match update with
  | Some true => fa_insert attrs flag
  | Some false => fa_remove attrs flag
  | None => attrs
  end.

(* FaceModify::apply *)
Definition fm_apply (m : face_modify) (f : face) : face :=
  let f := if m_reset m then face_default else f in
  let fg := match m_fg m with Some c => Some c | None => f_fg f end in
  let bg := match m_bg m with Some c => Some c | None => f_bg f end in
  let attrs := f_attrs f in
  let attrs := match m_underline m with
               | Some u => fa_pack u (snd (fa_unpack attrs))   (* let (_, flags) = attrs.unpack(); attrs = pack(underline, flags) *)
               | None => attrs
               end in
  (* TODO in the source: underline_color is not applied (Face has no such field) *)
  let attrs := apply_flag (m_bold m) FA_BOLD attrs in
  let attrs := apply_flag (m_italic m) FA_ITALIC attrs in
  let attrs := apply_flag (m_blink m) FA_BLINK attrs in
  let attrs := apply_flag (m_strike m) FA_STRIKE attrs in
  mkFace fg bg attrs.
