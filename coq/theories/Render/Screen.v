(* Render/Screen.v — the reference terminal and the independent denotation of
   a surface.

   The reference terminal is a grid of (glyph, face) cells, a set of image
   placements, a cursor and the current rendition ("pen").  [exec] gives the
   commands the renderer uses their terminal (xterm/kitty) meaning:

   * printing a narrow character writes one cell, a wide character writes a
     left and a right half; overwriting one half of a wide character destroys
     the character: the other half becomes [Orphan], a content no surface ever
     denotes (real terminals show a blank there; the theorems prove that the
     renderer never leaves such a cell behind, so they do not depend on what
     exactly a terminal shows in it);
   * a printed space is stored as [Blank] in the face [fspace pen] (what of the rendition a
     blank cell shows); EraseChars n blanks [c, c+n) clipped to the row, does not move the
     cursor, and leaves [Blank] in the face [ferase pen] — the background only: an erased
     cell is NOT a printed space when the rendition underlines, strikes or reverses;
   * CursorTo beyond the last row clamps to the last row (CUP); a column beyond
     the width, printing beyond the width, EraseChars 0, a zero-width
     character and every command the renderer has no business issuing set the
     sticky [err] flag (the theorems show it is never set);
   * an image placement is keyed by (image, position) and does not alter cells.

   [show] is the denotation of a surface: the screen a deliberately naive
   painter produces on a blank terminal (no diffing, no marks, no run-length
   erase, no cursor/face tracking). *)
From Coq Require Import List NArith Bool Arith.
From SNT Require Export Render.Cell.
Import ListNotations.

Inductive glyph := Blank | Ch (c : N) | WL (c : N) | WR | Orphan.
Definition scell := (glyph * face)%type.

Inductive cmd :=
| CChar (c : N)
| CFace (f : face)
| CCursorTo (r c : nat)
| CEraseChars (n : nat)
| CImage (i : N) (r c : nat)
| CImageErase (i : N) (p : option (nat * nat))
| CSync (on : bool)     (* DECSET/DECRST 2026 synchronized output around a frame: no effect on what is displayed *)
| COther.

Definition placement := (N * nat * nat)%type.

Record screen := mkscreen {
  sh : nat; sw : nat;
  sgrid : grid scell;
  places : list placement;
  cur : nat * nat;
  pen : face;
  err : bool }.

Definition glyph_eqb (a b : glyph) : bool :=
  match a, b with
  | Blank, Blank => true
  | Ch x, Ch y => N.eqb x y
  | WL x, WL y => N.eqb x y
  | WR, WR => true
  | Orphan, Orphan => true
  | _, _ => false
  end.
Definition scell_eqb (a b : scell) : bool := glyph_eqb (fst a) (fst b) && N.eqb (snd a) (snd b).

Definition placement_eqb (a b : placement) : bool :=
  let '(i, r, c) := a in let '(j, r', c') := b in N.eqb i j && Nat.eqb r r' && Nat.eqb c c'.

Definition glyph_of (ch : N) : glyph := if N.eqb ch space then Blank else Ch ch.
(* the cell a narrow character printed in face f leaves *)
Definition cell_of (o : oracle) (ch : N) (f : face) : scell :=
  if N.eqb ch space then (Blank, fspace o f) else (Ch ch, f).

(* ---------- writing one cell ---------- *)
Definition orphan (row : list scell) (k : nat) : list scell :=
  match nth_error row k with
  | Some (_, f) => upd row k (Orphan, f)
  | None => row
  end.

(* cell k is about to be overwritten: if it is half of a wide character the
   other half is left orphaned *)
Definition unpair (row : list scell) (k : nat) : list scell :=
  match nth_error row k with
  | Some (WL _, _) =>
      match nth_error row (S k) with
      | Some (WR, _) => orphan row (S k)
      | _ => row
      end
  | Some (WR, _) =>
      match k with
      | S k' => match nth_error row k' with
                | Some (WL _, _) => orphan row k'
                | _ => row
                end
      | O => row
      end
  | _ => row
  end.

Definition put (row : list scell) (k : nat) (x : scell) : list scell :=
  upd (unpair row k) k x.

Fixpoint erase_cells (row : list scell) (c n : nat) (x : scell) : list scell :=
  match n with
  | O => row
  | S n' => erase_cells (put row c x) (S c) n' x
  end.

(* a wide character is written atomically: both cells it will occupy are freed first *)
Definition put2 (row : list scell) (k : nat) (x y : scell) : list scell :=
  upd (upd (unpair (unpair row k) (S k)) k x) (S k) y.

Definition put_char (o : oracle) (row : list scell) (c : nat) (ch : N) (f : face) : list scell :=
  match cw o ch with
  | 1 => put row c (cell_of o ch f)
  | 2 => put2 row c (WL ch, f) (WR, f)
  | _ => row
  end.

(* ---------- commands ---------- *)
Definition set_err (s : screen) : screen :=
  mkscreen (sh s) (sw s) (sgrid s) (places s) (cur s) (pen s) true.
Definition set_grid (s : screen) (g : grid scell) (cu : nat * nat) : screen :=
  mkscreen (sh s) (sw s) g (places s) cu (pen s) (err s).
Definition set_places (s : screen) (p : list placement) : screen :=
  mkscreen (sh s) (sw s) (sgrid s) p (cur s) (pen s) (err s).

Definition on_row (g : grid scell) (r : nat) (f : list scell -> list scell) : grid scell :=
  match nth_error g r with
  | Some row => upd g r (f row)
  | None => g
  end.

Definition place_mem (p : placement) (l : list placement) : bool := existsb (placement_eqb p) l.

Definition exec (o : oracle) (s : screen) (c : cmd) : screen :=
  match c with
  | CFace f => mkscreen (sh s) (sw s) (sgrid s) (places s) (cur s) f (err s)
  | CCursorTo r c =>
      if c <? sw s
      then mkscreen (sh s) (sw s) (sgrid s) (places s) (Nat.min r (sh s - 1), c) (pen s) (err s)
      else set_err s
  | CChar ch =>
      let '(r, c) := cur s in
      let w := cw o ch in
      if ((w =? 1) || (w =? 2)) && (c + w <=? sw s) && (r <? sh s)
      then set_grid s (on_row (sgrid s) r (fun row => put_char o row c ch (pen s))) (r, c + w)
      else set_err s
  | CEraseChars n =>
      let '(r, c) := cur s in
      if (0 <? n) && (c <? sw s) && (r <? sh s)
      then set_grid s (on_row (sgrid s) r (fun row => erase_cells row c n (Blank, ferase o (pen s)))) (r, c)
      else set_err s
  | CImage i r c =>
      if place_mem (i, r, c) (places s) then s else set_places s ((i, r, c) :: places s)
  | CImageErase i (Some (r, c)) =>
      set_places s (filter (fun p => negb (placement_eqb p (i, r, c))) (places s))
  | CImageErase i None =>
      set_places s (filter (fun p => negb (N.eqb (fst (fst p)) i)) (places s))
  | CSync _ => s
  | COther => set_err s
  end.

Definition exec_list (o : oracle) (s : screen) (l : list cmd) : screen := fold_left (exec o) l s.

Definition blank_screen (h w : nat) : screen :=
  mkscreen h w (gmake h w (Blank, face_default)) [] (0, 0) face_default false.

(* ---------- the naive painter ---------- *)
(* characters of one row, left to right; [skip] columns are hidden behind the
   wide character just painted *)
Fixpoint paint_row (o : oracle) (r c skip : nat) (cells : list cell) : list cmd :=
  match cells with
  | [] => []
  | x :: rest =>
      match skip with
      | S k => paint_row o r (S c) k rest
      | O =>
          match ckind x with
          | KChar ch =>
              match cw o ch with
              | O => paint_row o r (S c) 0 rest
              | S k => [CFace (cface x); CCursorTo r c; CChar ch] ++ paint_row o r (S c) k rest
              end
          | _ => paint_row o r (S c) 0 rest
          end
      end
  end.

Definition paint_image (o : oracle) (r c : nat) (f : face) (i : N) : list cmd :=
  let '(h, w) := isz o i in
  [CFace f]
  ++ flat_map (fun row => [CCursorTo row c; CEraseChars w]) (seq r h)
  ++ [CCursorTo r c; CImage i r c].

Definition paint_images_row (o : oracle) (r : nat) (cells : list cell) : list cmd :=
  concat (mapi (fun c x =>
                  match ckind (resolve o x) with
                  | KImg i => paint_image o r c (cface x) i
                  | _ => []
                  end) cells).

Definition paint_cmds (o : oracle) (s : grid cell) : list cmd :=
  concat (mapi (fun r row => paint_row o r 0 0 row) s)
  ++ concat (mapi (fun r row => paint_images_row o r row) s).

Definition show (o : oracle) (h w : nat) (s : grid cell) : screen :=
  exec_list o (blank_screen h w) (paint_cmds o s).

(* ---------- comparing what two screens display ---------- *)
Fixpoint row_eqb (a b : list scell) : bool :=
  match a, b with
  | [], [] => true
  | x :: a', y :: b' => scell_eqb x y && row_eqb a' b'
  | _, _ => false
  end.
Fixpoint sgrid_eqb (a b : grid scell) : bool :=
  match a, b with
  | [], [] => true
  | x :: a', y :: b' => row_eqb x y && sgrid_eqb a' b'
  | _, _ => false
  end.
Definition places_subset (a b : list placement) : bool := forallb (fun p => place_mem p b) a.
Definition places_eqb (a b : list placement) : bool := places_subset a b && places_subset b a.

(* same cells (character and face) and same image placements, no protocol error *)
Definition same_display (a b : screen) : bool :=
  sgrid_eqb (sgrid a) (sgrid b) && places_eqb (places a) (places b)
  && negb (err a) && negb (err b).

(* the same up to leftover placements: same cells, no protocol error, every placement of [b] is on
   [a], and [a] has no placement besides those of [b] and the listed ones [E] (what a recorded defect
   left on the terminal).  [display_upto [] a b = same_display a b] (ShowProofs... HistoryProofs) *)
Definition display_upto (E : list placement) (a b : screen) : bool :=
  sgrid_eqb (sgrid a) (sgrid b)
  && (places_subset (places a) (places b ++ E) && places_subset (places b) (places a))
  && negb (err a) && negb (err b).
