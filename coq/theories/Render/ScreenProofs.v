(* Render/ScreenProofs.v — the reference terminal: what writing cells does to a
   row relative to a target row.

   Central fact ("a cell that is right stays right"): let t be a target row
   whose wide halves are properly paired, and D a set of columns we do not
   care about (their target is not half of a wide character).  Writing
   target content (or anything at all inside D) never spoils a cell outside D
   that already shows its target — in particular it never orphans half of a
   wide character that is supposed to be there. *)
From Coq Require Import List NArith Bool Arith Lia.
From SNT Require Import Render.Cell Render.Screen Render.GridLemmas.
Import ListNotations.

Definition nonwide (g : glyph) : Prop := match g with WL _ | WR => False | _ => True end.

(* ---------- lengths ---------- *)
Lemma orphan_length : forall row k, length (orphan row k) = length row.
Proof. intros. unfold orphan. destruct (nth_error row k) as [[g f]|]; auto. apply upd_length. Qed.

Lemma unpair_length : forall row k, length (unpair row k) = length row.
Proof.
  intros. unfold unpair.
  destruct (nth_error row k) as [[[| | | |] f]|]; auto.
  - destruct (nth_error row (S k)) as [[[| | | |] f']|]; auto. apply orphan_length.
  - destruct k; auto. destruct (nth_error row k) as [[[| | | |] f']|]; auto. apply orphan_length.
Qed.

Lemma put_length : forall row k x, length (put row k x) = length row.
Proof. intros. unfold put. rewrite upd_length. apply unpair_length. Qed.

Lemma put2_length : forall row k x y, length (put2 row k x y) = length row.
Proof. intros. unfold put2. rewrite !upd_length, !unpair_length. reflexivity. Qed.

Lemma erase_cells_length : forall n row c f, length (erase_cells row c n f) = length row.
Proof. induction n; intros; simpl; auto. rewrite IHn. apply put_length. Qed.

Lemma put_char_length : forall o row c ch f, length (put_char o row c ch f) = length row.
Proof.
  intros. unfold put_char. destruct (cw o ch) as [|[|[|n]]]; auto.
  apply put_length. apply put2_length.
Qed.

(* ---------- unpair ---------- *)
Lemma nth_error_orphan : forall row k j,
  nth_error (orphan row k) j =
  if Nat.eqb j k then option_map (fun x => (Orphan, snd x)) (nth_error row k) else nth_error row j.
Proof.
  intros. unfold orphan. destruct (nth_error row k) as [[g f]|] eqn:E.
  - rewrite nth_error_upd. destruct (Nat.eqb_spec j k) as [->|]; auto.
    assert (k < length row) by (apply nth_error_Some; congruence).
    destruct (Nat.ltb_spec k (length row)); try lia. reflexivity.
  - destruct (Nat.eqb_spec j k) as [->|]; auto.
Qed.

Lemma unpair_spec : forall row j k,
  nth_error (unpair row j) k = nth_error row k
  \/ (exists ch f f', k = S j /\ nth_error row j = Some (WL ch, f) /\ nth_error row k = Some (WR, f'))
  \/ (exists ch f f', j = S k /\ nth_error row j = Some (WR, f) /\ nth_error row k = Some (WL ch, f')).
Proof.
  intros. unfold unpair.
  destruct (nth_error row j) as [[[| |ch| |] f]|] eqn:Ej; auto.
  - destruct (nth_error row (S j)) as [[[| | | |] f']|] eqn:Es; auto.
    rewrite nth_error_orphan. destruct (Nat.eqb_spec k (S j)) as [->|]; auto.
    right. left. exists ch, f, f'. auto.
  - destruct j as [|j']; auto.
    destruct (nth_error row j') as [[[| |ch| |] f']|] eqn:Es; auto.
    rewrite nth_error_orphan. destruct (Nat.eqb_spec k j') as [->|]; auto.
    right. right. exists ch, f, f'. auto.
Qed.

Lemma unpair_self : forall row j, nth_error (unpair row j) j = nth_error row j.
Proof.
  intros. destruct (unpair_spec row j j) as [H|[(ch & f & f' & H & _)|(ch & f & f' & H & _)]]; auto; lia.
Qed.

Lemma unpair_far : forall row j k, k <> S j -> j <> S k -> nth_error (unpair row j) k = nth_error row k.
Proof.
  intros. destruct (unpair_spec row j k) as [H1|[(ch & f & f' & H1 & _)|(ch & f & f' & H1 & _)]]; auto; lia.
Qed.

(* ---------- the target of a row ---------- *)
Section Row.
  Variable t : nat -> scell.
  Variable D : nat -> bool.
  Hypothesis t_wl : forall k ch, fst (t k) = WL ch -> fst (t (S k)) = WR.
  Hypothesis t_wr : forall k, fst (t k) = WR -> exists k' ch, k = S k' /\ fst (t k') = WL ch.
  Hypothesis D_nonwide : forall k, D k = true -> nonwide (fst (t k)).

  Definition okr (row : list scell) (k : nat) : Prop := nth_error row k = Some (t k).

  Lemma unpair_keeps : forall row j k,
    (D j = true \/ nonwide (fst (t j))) -> D k = false -> k <> j ->
    okr row k -> okr (unpair row j) k.
  Proof.
    intros row j k Hj Dk Hne Hok. unfold okr in *.
    destruct (unpair_spec row j k) as [H|[(ch & f & f' & -> & Hrj & Hrk)|(ch & f & f' & -> & Hrj & Hrk)]].
    - congruence.
    - exfalso. rewrite Hrk in Hok. inversion Hok as [Ht].
      destruct (t_wr (S j)) as (k' & ch' & Hk & Hwl). rewrite <- Ht. reflexivity.
      inversion Hk; subst k'.
      destruct Hj as [Hj|Hj]; [apply D_nonwide in Hj|]; rewrite Hwl in Hj; exact Hj.
    - exfalso. rewrite Hrk in Hok. inversion Hok as [Ht].
      assert (Hwr : fst (t (S k)) = WR) by (apply (t_wl k ch); rewrite <- Ht; reflexivity).
      destruct Hj as [Hj|Hj]; [apply D_nonwide in Hj|]; rewrite Hwr in Hj; exact Hj.
  Qed.

  (* writing one narrow cell *)
  Lemma put_keeps : forall row j x k,
    nonwide (fst x) -> (D j = true \/ x = t j) -> D k = false -> k <> j ->
    okr row k -> okr (put row j x) k.
  Proof.
    intros row j x k Hx Hj Dk Hne Hok. unfold okr, put.
    rewrite nth_error_upd_neq by auto. apply unpair_keeps; auto.
    destruct Hj as [Hj|Hj]; auto. right. rewrite <- Hj. exact Hx.
  Qed.

  Lemma put_hits : forall row j x, j < length row -> nth_error (put row j x) j = Some x.
  Proof. intros. unfold put. apply nth_error_upd_eq. rewrite unpair_length. auto. Qed.

  (* writing a wide character *)
  Lemma put2_keeps : forall row j ch f k,
    ((D j = true /\ D (S j) = true) \/ (t j = (WL ch, f) /\ t (S j) = (WR, f))) ->
    D k = false -> k <> j -> k <> S j ->
    okr row k -> okr (put2 row j (WL ch, f) (WR, f)) k.
  Proof.
    intros row j ch f k Hj Dk Hne1 Hne2 Hok. unfold okr, put2.
    rewrite nth_error_upd_neq by auto. rewrite nth_error_upd_neq by auto.
    unfold okr in Hok.
    destruct (unpair_spec (unpair row j) (S j) k)
      as [H|[(ch' & f1 & f2 & -> & Hrj & Hrk)|(ch' & f1 & f2 & Hk & _)]].
    - rewrite H.
      destruct (unpair_spec row j k) as [H'|[(ch' & f1 & f2 & -> & _)|(ch' & f1 & f2 & -> & Hrj & Hrk)]].
      + congruence.
      + congruence.
      + exfalso. rewrite Hrk in Hok. inversion Hok as [Ht].
        assert (Hwr : fst (t (S k)) = WR) by (apply (t_wl k ch'); rewrite <- Ht; reflexivity).
        destruct Hj as [[Hj _]|[Hj _]]; [apply D_nonwide in Hj|]; rewrite ?Hwr in Hj.
        exact Hj. rewrite Hj in Hwr. discriminate.
    - exfalso. rewrite unpair_far in Hrk by lia. rewrite Hrk in Hok. inversion Hok as [Ht].
      destruct (t_wr (S (S j))) as (k' & ch2 & Hk & Hwl). rewrite <- Ht. reflexivity.
      inversion Hk; subst k'.
      destruct Hj as [[_ Hj]|[_ Hj]]; [apply D_nonwide in Hj|]; rewrite ?Hwl in Hj.
      exact Hj. rewrite Hj in Hwl. discriminate.
    - exfalso. inversion Hk. congruence.
  Qed.

  Lemma put2_hits : forall row j x y,
    S j < length row ->
    nth_error (put2 row j x y) j = Some x /\ nth_error (put2 row j x y) (S j) = Some y.
  Proof.
    intros. unfold put2. split.
    - rewrite nth_error_upd_neq by lia. apply nth_error_upd_eq. rewrite !unpair_length. lia.
    - apply nth_error_upd_eq. rewrite upd_length, !unpair_length. lia.
  Qed.

  (* erasing a run of cells *)
  Lemma erase_cells_ok : forall n row c x k,
    nonwide (fst x) ->
    (forall j, c <= j < c + n -> D j = true \/ t j = x) ->
    D k = false ->
    (okr row k \/ (c <= k < c + n /\ k < length row)) ->
    okr (erase_cells row c n x) k.
  Proof.
    induction n as [|n IH]; intros row c x k Hx Hall Dk H; simpl.
    - destruct H as [H|H]; auto. lia.
    - apply IH.
      + exact Hx.
      + intros j Hj. apply Hall. lia.
      + exact Dk.
      + destruct (Nat.eq_dec k c) as [->|Hne].
        * left. unfold okr. rewrite put_hits.
          -- destruct (Hall c ltac:(lia)) as [Hd|Ht]; congruence.
          -- destruct H as [H|H]; [|lia]. apply nth_error_Some. unfold okr in H. congruence.
        * destruct H as [H|H].
          -- left. apply put_keeps; simpl; auto.
             destruct (Hall c ltac:(lia)) as [Hd|Ht]; auto.
          -- right. rewrite put_length. lia.
  Qed.
End Row.

(* ---------- grids ---------- *)
Lemma gget_on_row : forall (g : grid scell) r f r' c,
  gget (on_row g r f) r' c =
  if Nat.eqb r' r
  then match nth_error g r with Some row => nth_error (f row) c | None => None end
  else gget g r' c.
Proof.
  intros. unfold on_row, gget. destruct (nth_error g r) as [row|] eqn:E.
  - rewrite nth_error_upd. destruct (Nat.eqb_spec r' r) as [->|]; auto.
    assert (Hl : r < length g) by (apply nth_error_Some; congruence).
    apply Nat.ltb_lt in Hl. rewrite Hl. reflexivity.
  - destruct (Nat.eqb_spec r' r) as [->|]; auto. rewrite E. reflexivity.
Qed.

Lemma gdims_on_row : forall (g : grid scell) h w r f,
  gdims g h w -> (forall row, length (f row) = length row) -> gdims (on_row g r f) h w.
Proof.
  intros g h w r f Hd Hf. unfold on_row. destruct (nth_error g r) as [row|] eqn:E; auto.
  apply gdims_upd_row; auto. rewrite Hf. eapply gdims_row; eauto.
Qed.
