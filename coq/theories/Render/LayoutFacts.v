(* Facts about Cell::layout as a measuring routine: sizes only grow; the run at the
   available width and the run at any width between the measured width and the available
   width coincide step by step; handed-out positions lie inside the measured size, and
   (without carriage returns) are strictly increasing in reading order. *)
From Coq Require Import List Arith Bool NArith Lia Sorting.Sorted.
From SNT Require Import Render.CellLayout.
Import ListNotations.
Local Arguments Nat.modulo : simpl never.
Local Arguments Nat.sub : simpl never.
Local Arguments Nat.min : simpl never.
Local Arguments Nat.max : simpl never.
Local Arguments Nat.add : simpl never.

Definition lt_pos (p q : nat * nat) : Prop := fst p < fst q \/ (fst p = fst q /\ snd p < snd q).
Definition le_pos (p q : nat * nat) : Prop := fst p < fst q \/ (fst p = fst q /\ snd p <= snd q).

Lemma le_lt_pos p q r : le_pos p q -> lt_pos q r -> lt_pos p r.
Proof. unfold le_pos, lt_pos. lia. Qed.
Lemma lt_le_pos p q r : lt_pos p q -> le_pos q r -> lt_pos p r.
Proof. unfold le_pos, lt_pos. lia. Qed.
Lemma le_le_pos p q r : le_pos p q -> le_pos q r -> le_pos p r.
Proof. unfold le_pos. lia. Qed.
Lemma le_pos_refl p : le_pos p p.
Proof. unfold le_pos. lia. Qed.
Lemma lt_pos_irrefl p : ~ lt_pos p p.
Proof. unfold lt_pos. lia. Qed.

Definition cur (s : lst) : nat * nat := (l_r s, l_c s).

Fixpoint somes {A} (l : list (option A)) : list A :=
  match l with
  | [] => []
  | Some x :: t => x :: somes t
  | None :: t => somes t
  end.

Definition is_lcr (c : lcell) : bool := match c with LCr => true | _ => false end.

Definition lsized_nz (c : lcell) : bool :=
  match c with LSized h w => negb ((h =? 0) || (w =? 0)) | _ => false end.

(* ---------- one step ---------- *)
Lemma step_mono maxw wr s c s' p : layout_step maxw wr s c = (s', p) -> l_h s <= l_h s' /\ l_w s <= l_w s'.
Proof.
  unfold layout_step. destruct c as [| | |h w].
  - intros [= <- _]; cbn; lia.
  - intros [= <- _]; cbn; lia.
  - intros [= <- _]; cbn; lia.
  - destruct ((h =? 0) || (w =? 0)); [intros [= <- _]; lia|].
    destruct (l_c s + w <=? maxw); [intros [= <- _]; cbn; lia|].
    destruct (negb wr); intros [= <- _]; cbn; lia.
Qed.

(* the step taken at the available width is also the step taken at any width w' that the
   measured width after the step does not exceed *)
Lemma step_stable maxw w' wr s c s1 p :
  w' <= maxw -> layout_step maxw wr s c = (s1, p) -> l_w s1 <= w' -> layout_step w' wr s c = (s1, p).
Proof.
  intros Hle. unfold layout_step. destruct c as [| | |h w]; auto.
  - intros [= <- <-]. cbn [l_w]. intros Hw.
    remember (l_c s mod 8) as m.
    assert (E : Nat.min (8 - m) (w' - l_c s) = Nat.min (8 - m) (maxw - l_c s)) by lia.
    rewrite E. reflexivity.
  - destruct ((h =? 0) || (w =? 0)); auto.
    destruct (l_c s + w <=? maxw) eqn:Hfit.
    + intros [= <- <-]. cbn [l_w]. intros Hw.
      apply Nat.leb_le in Hfit. assert (Hfit' : l_c s + w <=? w' = true) by (apply Nat.leb_le; lia).
      rewrite Hfit'. reflexivity.
    + apply Nat.leb_gt in Hfit. assert (Hfit' : l_c s + w <=? w' = false) by (apply Nat.leb_gt; lia).
      rewrite Hfit'. destruct (negb wr); auto.
      intros [= <- <-]. cbn [l_w]. intros Hw.
      assert (E : Nat.min w w' = Nat.min w maxw) by lia. rewrite E. reflexivity.
Qed.

(* a handed-out position lies inside the size tracked after the step *)
Lemma step_pos_in maxw wr s c s' r cc : 1 <= maxw ->
  layout_step maxw wr s c = (s', Some (r, cc)) -> r < l_h s' /\ cc < l_w s'.
Proof.
  intros Hm. unfold layout_step. destruct c as [| | |h w]; try discriminate.
  destruct ((h =? 0) || (w =? 0)) eqn:Hz; [discriminate|].
  apply orb_false_iff in Hz as [Hh Hw]. apply Nat.eqb_neq in Hh, Hw.
  destruct (l_c s + w <=? maxw); [intros [= <- <- <-]; cbn; lia|].
  destruct (negb wr); [discriminate|]. intros [= <- <- <-]. cbn. lia.
Qed.

(* reading order: the cursor never moves back (no CR), a position is at or after the cursor
   and strictly before the cursor after the step *)
Lemma step_order maxw wr s c s' p : 1 <= maxw -> is_lcr c = false ->
  layout_step maxw wr s c = (s', p) ->
  le_pos (cur s) (cur s') /\ (forall q, p = Some q -> le_pos (cur s) q /\ lt_pos q (cur s')).
Proof.
  intros Hm Hc. unfold layout_step, cur, le_pos, lt_pos. destruct c as [| | |h w]; try discriminate.
  - intros [= <- <-]. cbn. split; [lia|]. discriminate.
  - intros [= <- <-]. cbn. split; [lia|]. discriminate.
  - destruct ((h =? 0) || (w =? 0)) eqn:Hz; [intros [= <- <-]; split; [lia|discriminate]|].
    apply orb_false_iff in Hz as [Hh Hw]. apply Nat.eqb_neq in Hh, Hw.
    destruct (l_c s + w <=? maxw).
    + intros [= <- <-]. cbn. split; [lia|]. intros q [= <-]. cbn. lia.
    + destruct (negb wr); [intros [= <- <-]; split; [lia|discriminate]|].
      intros [= <- <-]. cbn. split; [lia|]. intros q [= <-]. cbn. lia.
Qed.

(* with wrapping every sized cell of non-zero extent gets a position; nothing else does *)
Lemma step_some_iff maxw wr s c s' p : layout_step maxw wr s c = (s', p) ->
  (p <> None -> lsized_nz c = true) /\ (wr = true -> lsized_nz c = true -> p <> None).
Proof.
  unfold layout_step, lsized_nz. destruct c as [| | |h w]; try (intros [= <- <-]; split; congruence).
  destruct ((h =? 0) || (w =? 0)); [intros [= <- <-]; split; cbn; congruence|].
  destruct (l_c s + w <=? maxw); [intros [= <- <-]; split; cbn; congruence|].
  destruct wr; cbn; intros [= <- <-]; split; congruence.
Qed.

(* ---------- runs ---------- *)
Lemma lrun_cons maxw wr s c t :
  lrun maxw wr s (c :: t) =
  (fst (lrun maxw wr (fst (layout_step maxw wr s c)) t),
   snd (layout_step maxw wr s c) :: snd (lrun maxw wr (fst (layout_step maxw wr s c)) t)).
Proof.
  cbn [lrun]. destruct (layout_step maxw wr s c) as [s1 p]. cbn [fst snd].
  destruct (lrun maxw wr s1 t) as [s2 ps]. reflexivity.
Qed.

Lemma lrun_length maxw wr cs : forall s, length (snd (lrun maxw wr s cs)) = length cs.
Proof.
  induction cs as [|c t IH]; intros s; [reflexivity|]. rewrite lrun_cons. cbn. now rewrite IH.
Qed.

Lemma lrun_mono maxw wr cs : forall s, l_h s <= l_h (fst (lrun maxw wr s cs)) /\ l_w s <= l_w (fst (lrun maxw wr s cs)).
Proof.
  induction cs as [|c t IH]; intros s; [cbn; lia|]. rewrite lrun_cons. cbn [fst].
  destruct (layout_step maxw wr s c) as [s1 p] eqn:H1. cbn [fst].
  pose proof (step_mono _ _ _ _ _ _ H1). pose proof (IH s1). lia.
Qed.

Lemma lrun_stable maxw w' wr cs : w' <= maxw -> forall s,
  l_w (fst (lrun maxw wr s cs)) <= w' -> lrun w' wr s cs = lrun maxw wr s cs.
Proof.
  intros Hle. induction cs as [|c t IH]; intros s Hw; [reflexivity|].
  rewrite lrun_cons in Hw. cbn [fst] in Hw.
  destruct (layout_step maxw wr s c) as [s1 p] eqn:H1. cbn [fst] in Hw.
  pose proof (lrun_mono maxw wr t s1) as [_ Hm].
  assert (H1' : layout_step w' wr s c = (s1, p)) by (eapply step_stable; eauto; lia).
  cbn [lrun]. rewrite H1, H1'. rewrite (IH s1 Hw). reflexivity.
Qed.

Lemma lrun_pos_in maxw wr cs : 1 <= maxw -> forall s r cc,
  In (Some (r, cc)) (snd (lrun maxw wr s cs)) ->
  r < l_h (fst (lrun maxw wr s cs)) /\ cc < l_w (fst (lrun maxw wr s cs)).
Proof.
  intros Hm. induction cs as [|c t IH]; intros s r cc; [cbn; tauto|].
  rewrite lrun_cons. cbn [fst snd].
  destruct (layout_step maxw wr s c) as [s1 p] eqn:H1. cbn [fst snd].
  intros [->|Hin].
  - pose proof (step_pos_in _ _ _ _ _ _ _ Hm H1). pose proof (lrun_mono maxw wr t s1). lia.
  - now apply IH.
Qed.

Lemma lrun_order maxw wr cs : 1 <= maxw -> forallb (fun c => negb (is_lcr c)) cs = true -> forall s,
  le_pos (cur s) (cur (fst (lrun maxw wr s cs))) /\
  Forall (le_pos (cur s)) (somes (snd (lrun maxw wr s cs))) /\
  StronglySorted lt_pos (somes (snd (lrun maxw wr s cs))).
Proof.
  intros Hm. induction cs as [|c t IH]; intros Hcr s.
  - cbn. split; [apply le_pos_refl|]. split; constructor.
  - cbn [forallb] in Hcr. apply andb_true_iff in Hcr as [Hc Ht]. apply negb_true_iff in Hc.
    rewrite lrun_cons. cbn [fst snd].
    destruct (layout_step maxw wr s c) as [s1 p] eqn:H1. cbn [fst snd].
    destruct (step_order _ _ _ _ _ _ Hm Hc H1) as [Hcur Hp].
    destruct (IH Ht s1) as (Hend & Hall & Hsorted).
    split; [eapply le_le_pos; eauto|].
    assert (Hall' : Forall (le_pos (cur s)) (somes (snd (lrun maxw wr s1 t)))).
    { eapply Forall_impl; [|exact Hall]. intros q Hq. eapply le_le_pos; eauto. }
    destruct p as [q|]; cbn [somes]; [|split; assumption].
    destruct (Hp q eq_refl) as [Hq1 Hq2]. split.
    + constructor; assumption.
    + constructor; [assumption|]. eapply Forall_impl; [|exact Hall].
      intros q' Hq'. eapply lt_le_pos; eauto.
Qed.

(* without wrapping, the positions of the sized cells of non-zero extent are those of the
   reference no-wrap placement *)
Fixpoint sized_positions (cs : list lcell) (ps : list (option (nat * nat))) : list (option (nat * nat)) :=
  match cs, ps with
  | c :: ct, p :: pt => if lsized_nz c then p :: sized_positions ct pt else sized_positions ct pt
  | _, _ => []
  end.

Lemma lrun_nowrap w cs : forall s,
  sized_positions cs (snd (lrun w false s cs)) = nowrap_place w cs (l_r s) (l_c s).
Proof.
  induction cs as [|c t IH]; intros s; [reflexivity|].
  rewrite lrun_cons. cbn [snd fst sized_positions nowrap_place].
  destruct c as [| | |h cw]; cbn [lsized_nz layout_step fst snd].
  - rewrite IH. reflexivity.
  - rewrite IH. reflexivity.
  - rewrite IH. reflexivity.
  - destruct ((h =? 0) || (cw =? 0)); cbn [negb fst snd]; [apply IH|].
    destruct (l_c s + cw <=? w); cbn [negb fst snd]; rewrite IH; reflexivity.
Qed.

Lemma lrun_wrap_some maxw cs : forall s,
  Forall (fun p => p <> None) (sized_positions cs (snd (lrun maxw true s cs))).
Proof.
  induction cs as [|c t IH]; intros s; [constructor|].
  rewrite lrun_cons. cbn [snd sized_positions].
  destruct (layout_step maxw true s c) as [s1 p] eqn:H1. cbn [fst snd].
  destruct (lsized_nz c) eqn:Hc; [|apply IH].
  constructor; [|apply IH]. apply (proj2 (step_some_iff _ _ _ _ _ _ H1)); auto.
Qed.

(* positions are only handed to sized cells of non-zero extent *)
Lemma lrun_some_sized maxw wr cs : forall s,
  somes (sized_positions cs (snd (lrun maxw wr s cs))) = somes (snd (lrun maxw wr s cs)).
Proof.
  induction cs as [|c t IH]; intros s; [reflexivity|].
  rewrite lrun_cons. cbn [snd sized_positions].
  destruct (layout_step maxw wr s c) as [s1 p] eqn:H1. cbn [fst snd].
  destruct (lsized_nz c) eqn:Hc.
  - destruct p; cbn [somes]; rewrite IH; reflexivity.
  - destruct p as [q|]; cbn [somes]; [|apply IH].
    exfalso. pose proof (proj1 (step_some_iff _ _ _ _ _ _ H1)) as H. rewrite Hc in H.
    assert (Some q <> None) by discriminate. specialize (H H0). discriminate.
Qed.
