(* Render/Loop.v — the render loop of Terminal::run_render (src/terminal.rs) with its output queue.

   One iteration, as coded:
       event = self.poll(timeout)            flush: the commands issued since the last poll form one
                                             chunk of the output queue; the tty takes some chunks
       action = handler(self, event, renderer.surface())      the application draws
       if action != WaitNoFrame {
           if self.frames_pending() > TERMINAL_FRAMES_DROP {  (constant regenerated: Gen/C01Const.v)
               self.frames_drop(); renderer.clear(self)?; }
           DecModeSet(SynchronizedOutput, on); renderer.frame(self)?; DecModeSet(.., off)
       } else { renderer.surface().clear() }

   The terminal executes only what is delivered.  Interface to the queue (proved for IOQueue /
   UnixTerminal in Props/C16.v: C16_frames, C16_frames_flush_delimited, C16_render_loop_schema):
   chunks are delimited by flush/poll only, are delivered in order, and frames_drop discards only
   whole chunks none of whose bytes reached the tty.  Here: a chunk is either executed whole or not
   at all, and a drop keeps a prefix of the pending chunks ([it_keep]; IOQueue::clear_but_last keeps
   exactly the front chunk). *)
From Coq Require Import List NArith Bool Arith.
From SNT Require Export Render.Cell Render.Screen Render.Frame Render.Den Gen.C01Const.
Import ListNotations.

Inductive action := AWait | AWaitNoFrame.

Record iter := mkiter {
  it_accept : nat;           (* chunks the tty takes during this poll *)
  it_draw : grid cell;       (* what the handler draws *)
  it_action : action;
  it_pending : option nat;   (* the answer of frames_pending(); None: the number of pending chunks *)
  it_keep : nat }.           (* chunks at the front of the queue that survive frames_drop() *)

(* ---------- the code side: what is issued in each iteration ---------- *)
(* (frames_drop was called, commands issued between this poll and the next) *)
Fixpoint loop_model (o : oracle) (r : rstate) (npend : nat) (its : list iter) : list (bool * list cmd) :=
  match its with
  | [] => []
  | it :: its' =>
      let npend1 := npend - Nat.min (it_accept it) npend in
      let r0 := rdraw r (it_draw it) in
      match it_action it with
      | AWaitNoFrame => (false, []) :: loop_model o (rskip r0) npend1 its'
      | AWait =>
          let fp := match it_pending it with Some n => n | None => npend1 end in
          let drop := terminal_frames_drop <? fp in
          let cc := if drop then fst (rclear r0) else [] in
          let r1 := if drop then snd (rclear r0) else r0 in
          let npend2 := if drop then Nat.min (it_keep it) npend1 else npend1 in
          (drop, cc ++ [CSync true] ++ fst (frame o r1) ++ [CSync false])
          :: loop_model o (snd (frame o r1)) (S npend2) its'
      end
  end.

(* ---------- the terminal side: the property predicate ---------- *)
(* a pending chunk: its commands and (ghost) the surface the application drew for it *)
Definition chunk := (list cmd * grid cell)%type.

(* the terminal executes a chunk; afterwards it must display the surface drawn for that frame *)
Definition deliver (o : oracle) (h w : nat) (scr : screen) (c : chunk) : screen * bool :=
  let scr' := exec_list o scr (fst c) in
  (scr', negb (err scr') && same_display scr' (show o h w (snd c))).

Fixpoint deliver_all (o : oracle) (h w : nat) (scr : screen) (q : list chunk) : screen * bool :=
  match q with
  | [] => (scr, true)
  | c :: q' => let '(scr1, ok1) := deliver o h w scr c in
               let '(scr2, ok2) := deliver_all o h w scr1 q' in (scr2, ok1 && ok2)
  end.

Definition is_img_at (s : grid cell) (pl : placement) : bool :=
  let '(i, r, c) := pl in
  match gget s r c with
  | Some x => match ckind x with KImg j => N.eqb i j | _ => false end
  | None => false
  end.

(* class DroppedImageErase: when frames are dropped, the terminal (once it has executed what
   survives) shows an image that the last issued frame no longer has: its ImageErase was in a
   dropped chunk, and clear() only erases the images of the back buffer *)
Definition stale_after_drop (o : oracle) (h w : nat) (scr : screen) (kept : list chunk) (last : grid cell) : bool :=
  negb (forallb (is_img_at (gmap (resolve o) last)) (places (fst (deliver_all o h w scr kept)))).

(* returns (every delivered frame was displayed right, some drop left a stale image) *)
Fixpoint loop_spec (o : oracle) (h w : nat) (scr : screen) (q : list chunk) (last : grid cell)
         (its : list iter) (out : list (bool * list cmd)) : bool * bool :=
  match its, out with
  | [], [] => (snd (deliver_all o h w scr q), false)      (* finally everything pending is delivered *)
  | it :: its', (dropped, cs) :: out' =>
      let n := Nat.min (it_accept it) (length q) in
      let '(scr1, ok1) := deliver_all o h w scr (firstn n q) in
      let q1 := skipn n q in
      match it_action it with
      | AWaitNoFrame =>
          let '(ok, st) := loop_spec o h w scr1 q1 last its' out' in
          (ok1 && negb dropped && (match cs with [] => true | _ => false end) && ok, st)
      | AWait =>
          let q2 := if dropped then firstn (it_keep it) q1 else q1 in
          let st1 := if dropped then stale_after_drop o h w scr1 q2 last else false in
          let '(ok, st) := loop_spec o h w scr1 (q2 ++ [(cs, it_draw it)]) (it_draw it) its' out' in
          (ok1 && ok, st1 || st)
      end
  | _, _ => (false, false)
  end.
