(* Render/Loop.v — the render loop of Terminal::run_render (src/terminal.rs) with its output queue.

   One iteration, as coded:
       event = self.poll(timeout)            flush: the commands issued since the last poll form one
                                             chunk of the output queue; the tty takes some chunks
       if self.frames_pending() > TERMINAL_FRAMES_DROP {      (constant regenerated: Gen/C01Const.v)
           self.frames_drop(); renderer.clear(self)?; }       before the handler draws
       if event is Resize {                                   AFTER the drop: what clear() issues here
           renderer.clear(self)?;                             must not be dropped (REVIEW5 B4)
           renderer = TerminalRenderer::new(self, true)?; }
       action = handler(self, event, renderer.surface())      the application draws
       if action != WaitNoFrame {
           DecModeSet(SynchronizedOutput, on); renderer.frame(self)?; DecModeSet(.., off)
       } else { renderer.surface().clear() }

   The terminal executes only what is delivered.  Interface to the queue (proved for IOQueue /
   UnixTerminal in Props/C16.v: C16_frames, C16_frames_flush_delimited, C16_render_loop_schema):
   chunks are delimited by flush/poll only, are delivered in order, and frames_drop discards only
   whole chunks none of whose bytes reached the tty.  Here: a chunk is either executed whole or not
   at all, and a drop keeps a prefix of the pending chunks ([it_keep]; IOQueue::clear_but_last keeps
   exactly the front chunk). *)
From Coq Require Import List NArith Bool Arith.
From SNT Require Export Render.Cell Render.Screen Render.Frame Render.Den Gen.C01Const.
Import ListNotations.

Inductive action := AWait | AWaitNoFrame.

Record iter := mkiter {
  it_accept : nat;           (* chunks the tty takes during this poll *)
  it_draw : grid cell;       (* what the handler draws *)
  it_action : action;
  it_pending : option nat;   (* the answer of frames_pending(); None: the number of pending chunks *)
  it_keep : nat;             (* chunks at the front of the queue that survive frames_drop() *)
  it_resize : bool }.        (* the poll delivers a Resize event; the size is the same and the terminal
                                keeps its contents (a resize to another size: histories, op Resize) *)

(* ---------- the code side: what is issued in each iteration ---------- *)
Definition is_nil {A} (l : list A) : bool := match l with [] => true | _ => false end.

(* (frames_drop was called, commands issued between this poll and the next) *)
Fixpoint loop_model (o : oracle) (r : rstate) (npend : nat) (its : list iter) : list (bool * list cmd) :=
  match its with
  | [] => []
  | it :: its' =>
      let npend1 := npend - Nat.min (it_accept it) npend in
      let fp := match it_pending it with Some n => n | None => npend1 end in
      let drop := terminal_frames_drop <? fp in
      let cc := if drop then fst (rclear r) else [] in
      let r1 := if drop then snd (rclear r) else r in
      let npend2 := if drop then Nat.min (it_keep it) npend1 else npend1 in
      let cc2 := if it_resize it then cc ++ fst (rclear r1) else cc in
      let r1b := if it_resize it then rnew (rh r1) (rw r1) true else r1 in
      let r2 := rdraw r1b (it_draw it) in
      match it_action it with
      | AWaitNoFrame =>
          (drop, cc2) :: loop_model o (rskip r2) (if is_nil cc2 then npend2 else S npend2) its'
      | AWait =>
          (drop, cc2 ++ [CSync true] ++ fst (frame o r2) ++ [CSync false])
          :: loop_model o (snd (frame o r2)) (S npend2) its'
      end
  end.

(* ---------- the terminal side: the property predicate ---------- *)
(* a pending chunk: its commands and (ghost) the surface the application drew for the frame it
   contains, if it contains one, with the placements that may be left over besides that surface's
   (E: what stale drops left on the terminal before the frame was issued; [] = none) *)
Definition chunk := (list cmd * option (grid cell * list placement))%type.

(* the terminal executes a chunk; afterwards it must display the surface drawn for that frame: same
   cells, no error, its placements and none besides them and E ([display_upto]; E = []: same_display) *)
Definition deliver (o : oracle) (h w : nat) (scr : screen) (c : chunk) : screen * bool :=
  let scr' := exec_list o scr (fst c) in
  (scr', negb (err scr')
         && match snd c with Some (s, E) => display_upto E scr' (show o h w s) | None => true end).

Fixpoint deliver_all (o : oracle) (h w : nat) (scr : screen) (q : list chunk) : screen * bool :=
  match q with
  | [] => (scr, true)
  | c :: q' => let '(scr1, ok1) := deliver o h w scr c in
               let '(scr2, ok2) := deliver_all o h w scr1 q' in (scr2, ok1 && ok2)
  end.

Definition is_img_at (s : grid cell) (pl : placement) : bool :=
  let '(i, r, c) := pl in
  match gget s r c with
  | Some x => match ckind x with KImg j => N.eqb i j | _ => false end
  | None => false
  end.

(* class DroppedImageErase: when frames are dropped, the terminal (once it has executed what
   survives) shows images that the last issued frame no longer has: their ImageErase was in a
   dropped chunk, and clear() only erases the images of the back buffer.  These placements: *)
Definition stale_places (o : oracle) (h w : nat) (scr : screen) (kept : list chunk) (last : grid cell)
  : list placement :=
  filter (fun p => negb (is_img_at (gmap (resolve o) last) p)) (places (fst (deliver_all o h w scr kept))).

(* returns (every delivered frame was displayed right, some drop left a stale image).
   Every delivery is judged, also after a stale drop: from the forced repaint that follows the drop
   on, the stale placements of THAT drop are the only ones tolerated besides the drawn ones (cells,
   errors and the drawn placements are judged as ever).  [strict]: tolerate nothing (the plain
   statement of the property; fails exactly inside the class). *)
Fixpoint loop_spec (o : oracle) (h w : nat) (strict : bool) (scr : screen) (q : list chunk)
         (E : list placement) (last : grid cell)
         (its : list iter) (out : list (bool * list cmd)) : bool * bool :=
  match its, out with
  | [], [] => (snd (deliver_all o h w scr q), false)      (* finally everything pending is delivered *)
  | it :: its', (dropped, cs) :: out' =>
      let n := Nat.min (it_accept it) (length q) in
      let '(scr1, ok1) := deliver_all o h w scr (firstn n q) in
      let q1 := skipn n q in
      let q2 := if dropped then firstn (it_keep it) q1 else q1 in
      let sp := if dropped then stale_places o h w scr1 q2 last else [] in
      let E1 := if dropped then (if strict then [] else sp) else E in
      let last1 := if dropped || it_resize it then gmake h w cell_default else last in
      let '(ok, st) :=
        match it_action it with
        | AWaitNoFrame =>
            loop_spec o h w strict scr1 (if is_nil cs then q2 else q2 ++ [(cs, None)]) E1 last1 its' out'
        | AWait =>
            loop_spec o h w strict scr1 (q2 ++ [(cs, Some (it_draw it, E1))]) E1 (it_draw it) its' out'
        end in
      (ok1 && ok, negb (is_nil sp) || st)
  | _, _ => (false, false)
  end.
