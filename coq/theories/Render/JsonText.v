(* TextDeserializer: the Text built from a JSON document is the list of the document's characters and
   glyphs in document order, each under the faces of the objects around it; the face the text writes
   with is restored after every object; nothing the text already held is touched. *)
From Coq Require Import List Arith Bool NArith Lia.
From SNT Require Import Base.Outcome Surface.Shape Render.CellLayout Render.Writer.
Import ListNotations.

Section Ind.
  Variable P : jtext -> Prop.
  Hypothesis HStr : forall chars, P (TxStr chars).
  Hypothesis HArr : forall items, Forall P items -> P (TxArr items).
  Hypothesis HObjG : forall f wr k d, P (TxObj f wr (JBGlyph k d)).
  Hypothesis HObjT : forall f wr t, P t -> P (TxObj f wr (JBText t)).
  Hypothesis HObjN : forall f wr, P (TxObj f wr JBNone).

  Fixpoint jtext_induction (t : jtext) : P t :=
    match t with
    | TxStr c => HStr c
    | TxArr items =>
        HArr items ((fix go (l : list jtext) : Forall P l :=
                       match l with
                       | [] => Forall_nil _
                       | x :: r => Forall_cons x (jtext_induction x) (go r)
                       end) items)
    | TxObj f wr (JBGlyph k d) => HObjG f wr k d
    | TxObj f wr (JBText t') => HObjT f wr t' (jtext_induction t')
    | TxObj f wr JBNone => HObjN f wr
    end.
End Ind.

Lemma j_put_eq cs w f k : j_put (mkJ cs w f) k = mkJ (cs ++ [mkCell (overlay f f) k]) w f.
Proof. reflexivity. Qed.

Lemma collect_str chars : forall cs w f,
  fold_left (fun a ch => j_put a (KChar ch)) chars (mkJ cs w f) =
  mkJ (cs ++ map (fun ch => mkCell (overlay f f) (KChar ch)) chars) w f.
Proof.
  induction chars as [|ch t IH]; intros cs w f; cbn [fold_left map].
  - now rewrite app_nil_r.
  - rewrite j_put_eq, IH, <- app_assoc. reflexivity.
Qed.

(* the deserialiser in one equation *)
Theorem jt_collect_spec t : forall cs w cur,
  jt_collect (mkJ cs w cur) t = mkJ (cs ++ jt_emit cur t) (jt_wraps w t) cur.
Proof.
  induction t using jtext_induction; intros cs w cur.
  - cbn [jt_collect jt_emit jt_wraps]. apply collect_str.
  - cbn [jt_collect jt_emit jt_wraps]. revert cs w. induction H as [|x r Hx Hr IH]; intros cs w.
    + now rewrite app_nil_r.
    + rewrite Hx. rewrite IH. rewrite <- app_assoc. reflexivity.
  - cbn [jt_collect jt_emit jt_wraps]. destruct wr; cbn [j_cells j_wraps j_face]; rewrite j_put_eq; reflexivity.
  - cbn [jt_collect jt_emit jt_wraps]. destruct wr; cbn [j_cells j_wraps j_face]; rewrite IHt; reflexivity.
  - cbn [jt_collect jt_emit jt_wraps]. destruct wr; cbn [j_cells j_wraps j_face]; now rewrite app_nil_r.
Qed.

(* the characters and glyphs of the document in document order *)
Fixpoint jt_kinds (t : jtext) {struct t} : list kind :=
  match t with
  | TxStr chars => map KChar chars
  | TxArr items => (fix go (l : list jtext) : list kind :=
                     match l with [] => [] | x :: r => jt_kinds x ++ go r end) items
  | TxObj _ _ (JBGlyph k _) => [k]
  | TxObj _ _ (JBText t') => jt_kinds t'
  | TxObj _ _ JBNone => []
  end.

Theorem jt_emit_kinds t : forall f, map c_kind (jt_emit f t) = jt_kinds t.
Proof.
  induction t using jtext_induction; intros cur; cbn [jt_emit jt_kinds].
  - rewrite map_map. reflexivity.
  - induction H as [|x r Hx Hr IH]; [reflexivity|]. rewrite map_app, Hx, IH. reflexivity.
  - reflexivity.
  - apply IHt.
  - reflexivity.
Qed.

(* a document deserialised into a fresh Text: no character or glyph lost, none invented, order kept;
   the writing face is the default one again *)
Corollary jt_deserialize t :
  j_cells (jt_collect j0 t) = jt_emit face0 t /\
  map c_kind (j_cells (jt_collect j0 t)) = jt_kinds t /\
  j_wraps (jt_collect j0 t) = jt_wraps true t /\
  j_face (jt_collect j0 t) = face0.
Proof.
  unfold j0. rewrite jt_collect_spec. cbn [j_cells j_wraps j_face app]. repeat split. apply jt_emit_kinds.
Qed.

Corollary jt_deserialize_kinds t :
  map c_kind (j_cells (jt_collect j0 t)) = jt_kinds t /\ j_face (jt_collect j0 t) = face0.
Proof. destruct (jt_deserialize t) as (_ & K & _ & F). split; assumption. Qed.
