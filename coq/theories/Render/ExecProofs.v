(* Render/ExecProofs.v — executing the renderer's command groups on the
   reference terminal: the commands emitted for a paint (with cursor/face
   tracking) have exactly the effect [apply_paint]; an image group erases the
   rows of its rectangle and adds the placement. *)
From Coq Require Import List NArith Bool Arith Lia.
From SNT Require Import Render.Cell Render.Screen Render.Frame Render.GridLemmas
  Render.ScreenProofs Render.PaintProofs.
Import ListNotations.

Lemma exec_list_app : forall o s l1 l2, exec_list o s (l1 ++ l2) = exec_list o (exec_list o s l1) l2.
Proof. intros. unfold exec_list. apply fold_left_app. Qed.

Lemma exec_list_cons : forall o s c l, exec_list o s (c :: l) = exec_list o (exec o s c) l.
Proof. reflexivity. Qed.
Lemma exec_list_nil : forall o s, exec_list o s [] = s.
Proof. reflexivity. Qed.

Lemma upd_upd : forall {A} (l : list A) k x y, upd (upd l k x) k y = upd l k y.
Proof. induction l as [|a t IH]; intros [|k] x y; simpl; auto. rewrite IH. reflexivity. Qed.

Lemma on_row_on_row : forall (g : grid scell) r f1 f2,
  on_row (on_row g r f1) r f2 = on_row g r (fun row => f2 (f1 row)).
Proof.
  intros. unfold on_row. destruct (nth_error g r) as [row|] eqn:E.
  - rewrite nth_error_upd_eq by (apply nth_error_Some; congruence). apply upd_upd.
  - rewrite E. reflexivity.
Qed.

Lemma on_row_ext : forall (g : grid scell) r f1 f2,
  (forall row, f1 row = f2 row) -> on_row g r f1 = on_row g r f2.
Proof. intros. unfold on_row. destruct (nth_error g r); auto. rewrite H. reflexivity. Qed.

(* ---------- erase_cells ---------- *)
Lemma put_beyond : forall row k x, length row <= k -> put row k x = row.
Proof.
  intros. unfold put.
  assert (Hu : unpair row k = row).
  { unfold unpair. assert (E : nth_error row k = None) by (apply nth_error_None; lia).
    rewrite E. reflexivity. }
  rewrite Hu. apply upd_beyond. auto.
Qed.

Lemma erase_cells_beyond : forall n row c f, length row <= c -> erase_cells row c n f = row.
Proof.
  induction n; intros; simpl; auto. rewrite put_beyond by auto. apply IHn. lia.
Qed.

Lemma erase_cells_app : forall a b row c f,
  erase_cells row c (a + b) f = erase_cells (erase_cells row c a f) (c + a) b f.
Proof.
  induction a; intros; simpl.
  - rewrite Nat.add_0_r. reflexivity.
  - rewrite IHa. replace (S c + a) with (c + S a) by lia. reflexivity.
Qed.

Lemma erase_cells_clip : forall row c n f w,
  length row = w -> erase_cells row c n f = erase_cells row c (Nat.min n (w - c)) f.
Proof.
  intros row c n f w Hl. destruct (Nat.le_gt_cases n (w - c)) as [H|H].
  - rewrite Nat.min_l by auto. reflexivity.
  - rewrite Nat.min_r by lia.
    replace n with ((w - c) + (n - (w - c))) at 1 by lia.
    rewrite erase_cells_app. apply erase_cells_beyond. rewrite erase_cells_length. lia.
Qed.

(* ---------- single commands ---------- *)
Definition scr_ok (s : screen) (h w : nat) : Prop :=
  sh s = h /\ sw s = w /\ err s = false /\ gdims (sgrid s) h w.

Lemma scr_ok_mk : forall h w g pl cu f, gdims g h w -> scr_ok (mkscreen h w g pl cu f false) h w.
Proof. intros. unfold scr_ok. simpl. auto. Qed.

Lemma scr_ok_mk' : forall h w g pl cu f e, e = false -> gdims g h w -> scr_ok (mkscreen h w g pl cu f e) h w.
Proof. intros. subst. unfold scr_ok. simpl. auto. Qed.

Lemma exec_char_at : forall o s h w r c ch,
  scr_ok s h w -> cur s = (r, c) -> r < h -> (cw o ch = 1 \/ cw o ch = 2) -> c + cw o ch <= w ->
  exec o s (CChar ch) =
  mkscreen h w (on_row (sgrid s) r (fun row => put_char o row c ch (pen s))) (places s)
           (r, c + cw o ch) (pen s) false.
Proof.
  intros o s h w r c ch (Hh & Hw & He & _) Hc Hr Hcw Hfit. unfold exec. rewrite Hc.
  assert (Hb : ((cw o ch =? 1) || (cw o ch =? 2)) && (c + cw o ch <=? sw s) && (r <? sh s) = true).
  { rewrite !andb_true_iff, orb_true_iff, !Nat.eqb_eq, Nat.leb_le, Nat.ltb_lt. lia. }
  rewrite Hb. unfold set_grid. rewrite Hh, Hw, He. reflexivity.
Qed.

Lemma exec_erase_at : forall o s h w r c n,
  scr_ok s h w -> cur s = (r, c) -> r < h -> c < w -> 0 < n ->
  exec o s (CEraseChars n) =
  mkscreen h w (on_row (sgrid s) r (fun row => erase_cells row c n (Blank, ferase o (pen s)))) (places s)
           (r, c) (pen s) false.
Proof.
  intros o s h w r c n (Hh & Hw & He & _) Hc Hr Hcw Hn. unfold exec. rewrite Hc.
  assert (Hb : (0 <? n) && (c <? sw s) && (r <? sh s) = true).
  { rewrite !andb_true_iff, !Nat.ltb_lt. lia. }
  rewrite Hb. unfold set_grid. rewrite Hh, Hw, He. reflexivity.
Qed.

Lemma exec_cursor_to : forall o s h w r c,
  scr_ok s h w -> c < w -> 0 < h ->
  exec o s (CCursorTo r c) =
  mkscreen h w (sgrid s) (places s) (Nat.min r (h - 1), c) (pen s) false.
Proof.
  intros o s h w r c (Hh & Hw & He & _) Hc Hpos. unfold exec.
  assert (Hb : (c <? sw s) = true) by (apply Nat.ltb_lt; lia).
  rewrite Hb, Hh, Hw, He. reflexivity.
Qed.

Lemma exec_face : forall o s h w f,
  scr_ok s h w -> exec o s (CFace f) = mkscreen h w (sgrid s) (places s) (cur s) f false.
Proof. intros o s h w f (Hh & Hw & He & _). unfold exec. rewrite Hh, Hw, He. reflexivity. Qed.

(* ---------- tracked cursor and face ---------- *)
Definition consistent (t : tracked) (s : screen) : Prop :=
  (forall f, tface t = Some f -> pen s = f) /\ (forall p, tcur t = Some p -> cur s = p).

Definition paint_valid (o : oracle) (h w : nat) (p : paint) : Prop :=
  match p with
  | PChar r c _ ch => r < h /\ (cw o ch = 1 \/ cw o ch = 2) /\ c + cw o ch <= w
  | PBlanks r c _ n | PErase r c _ n => r < h /\ 1 <= n /\ c + n <= w
  end.

(* Face / CursorTo as needed *)
Definition pre_cmds (t : tracked) (r c : nat) (f : face) : list cmd :=
  (if face_known t f then [] else [CFace f]) ++ (if cur_known t r c then [] else [CCursorTo r c]).

Lemma exec_pre : forall o s h w t r c f,
  scr_ok s h w -> consistent t s -> r < h -> c < w ->
  exec_list o s (pre_cmds t r c f) = mkscreen h w (sgrid s) (places s) (r, c) f false.
Proof.
  intros o s h w t r c f Hs [Hf Hc] Hr Hcw. unfold pre_cmds. rewrite exec_list_app.
  assert (H1 : exec_list o s (if face_known t f then [] else [CFace f])
               = mkscreen h w (sgrid s) (places s) (cur s) f false).
  { assert (Hgo : exec_list o s [CFace f] = mkscreen h w (sgrid s) (places s) (cur s) f false).
    { change (exec_list o s [CFace f]) with (exec o s (CFace f)). apply exec_face. exact Hs. }
    unfold face_known. destruct (tface t) as [g|] eqn:E; auto.
    destruct (N.eqb_spec g f) as [->|Hne]; auto.
    change (exec_list o s []) with s.
    specialize (Hf f eq_refl). destruct Hs as (Hh & Hw & He & _).
    destruct s; simpl in *. subst. reflexivity. }
  rewrite H1. set (s1 := mkscreen h w (sgrid s) (places s) (cur s) f false).
  assert (Hs1 : scr_ok s1 h w) by (apply scr_ok_mk; apply Hs).
  assert (Hgo : exec_list o s1 [CCursorTo r c] = mkscreen h w (sgrid s) (places s) (r, c) f false).
  { change (exec_list o s1 [CCursorTo r c]) with (exec o s1 (CCursorTo r c)).
    rewrite (exec_cursor_to o s1 h w r c Hs1) by lia. unfold s1. cbn [sgrid places pen].
    rewrite Nat.min_l by lia. reflexivity. }
  unfold cur_known. destruct (tcur t) as [[r' c']|] eqn:E; auto.
  destruct (Nat.eqb_spec r r') as [<-|Hne]; cbn [andb]; auto.
  destruct (Nat.eqb_spec c c') as [<-|Hne]; auto.
  specialize (Hc (r, c) eq_refl). change (exec_list o s1 []) with s1. unfold s1. rewrite Hc. reflexivity.
Qed.

Lemma exec_spaces : forall o n s h w r c,
  cw o space = 1 -> scr_ok s h w -> cur s = (r, c) -> r < h -> c + n <= w ->
  exec_list o s (repeat (CChar space) n) =
  mkscreen h w (on_row (sgrid s) r (fun row => erase_cells row c n (Blank, fspace o (pen s)))) (places s)
           (r, c + n) (pen s) false.
Proof.
  induction n as [|n IH]; intros s h w r c Hsp Hs Hc Hr Hfit; cbn [repeat];
    rewrite ?exec_list_cons, ?exec_list_nil.
  - destruct Hs as (Hh & Hw & He & Hd). rewrite Nat.add_0_r.
    assert (Hid : on_row (sgrid s) r (fun row => row) = sgrid s).
    { unfold on_row. destruct (nth_error (sgrid s) r) eqn:E; auto.
      apply list_ext. apply upd_length. intros i Hi. rewrite nth_error_upd.
      destruct (Nat.eqb_spec i r) as [->|]; auto.
      rewrite upd_length in Hi. apply Nat.ltb_lt in Hi. rewrite Hi. auto. }
    cbn [erase_cells]. rewrite Hid. destruct s; simpl in *. subst. reflexivity.
  - rewrite (exec_char_at o s h w r c space Hs Hc Hr) by (rewrite ?Hsp; lia).
    set (s1 := mkscreen h w _ _ _ _ _).
    assert (Hs1 : scr_ok s1 h w).
    { apply scr_ok_mk. apply gdims_on_row. apply Hs. intros. apply put_char_length. }
    rewrite (IH s1 h w r (c + cw o space)); auto.
    + unfold s1. simpl. rewrite on_row_on_row. rewrite Hsp.
      replace (c + 1 + n) with (c + S n) by lia. f_equal.
      apply on_row_ext. intros row. unfold put_char. rewrite Hsp.
      unfold cell_of. rewrite N.eqb_refl. replace (c + 1) with (S c) by lia. reflexivity.
    + rewrite Hsp. lia.
Qed.

Lemma exec_emit : forall o s h w t p,
  cw o space = 1 -> erase_law o -> scr_ok s h w -> consistent t s -> paint_valid o h w p ->
  let s' := exec_list o s (fst (emit o t p)) in
  scr_ok s' h w /\ sgrid s' = apply_paint o (sgrid s) p /\ places s' = places s
  /\ consistent (snd (emit o t p)) s'.
Proof.
  intros o s h w t p Hsp Hlaw Hs Hcons Hv.
  destruct p as [r c f ch|r c f n|r c f n]; simpl in Hv.
  - destruct Hv as (Hr & Hcw & Hfit).
    cbn [emit fst snd]. fold (pre_cmds t r c f). cbv zeta.
    rewrite exec_list_app. rewrite (exec_pre o s h w t r c f) by (auto; lia).
    set (s1 := mkscreen h w _ _ _ _ _).
    assert (Hs1 : scr_ok s1 h w) by (apply scr_ok_mk; apply Hs).
    rewrite exec_list_cons, exec_list_nil. rewrite (exec_char_at o s1 h w r c ch Hs1) by (auto; lia).
    split; [|split; [|split]].
    + apply scr_ok_mk. apply gdims_on_row. apply Hs. intros. apply put_char_length.
    + reflexivity.
    + reflexivity.
    + split; cbn [tface tcur pen cur]. intros f' Hf; inversion Hf; subst; reflexivity.
      intros p' Hp; inversion Hp; subst; reflexivity.
  - destruct Hv as (Hr & Hn & Hfit).
    cbn [emit]. fold (pre_cmds t r c f).
    destruct ((4 <? n) && erasable o f) eqn:E4; cbn [fst snd]; cbv zeta;
      rewrite exec_list_app; rewrite (exec_pre o s h w t r c f) by (auto; lia);
      set (s1 := mkscreen h w _ _ _ _ _);
      assert (Hs1 : scr_ok s1 h w) by (apply scr_ok_mk; apply Hs).
    + rewrite exec_list_cons, exec_list_nil. rewrite (exec_erase_at o s1 h w r c n Hs1) by (auto; lia).
      split; [|split; [|split]].
      * apply scr_ok_mk. apply gdims_on_row. apply Hs. intros. apply erase_cells_length.
      * cbn [sgrid apply_paint pen s1]. apply andb_true_iff in E4. destruct E4 as [_ E4].
        rewrite (Hlaw f E4). reflexivity.
      * reflexivity.
      * split; cbn [tface tcur pen cur]. intros f' Hf; inversion Hf; subst; reflexivity.
        intros p' Hp; inversion Hp; subst; reflexivity.
    + rewrite (exec_spaces o n s1 h w r c) by (auto; lia).
      split; [|split; [|split]].
      * apply scr_ok_mk. apply gdims_on_row. apply Hs. intros. apply erase_cells_length.
      * reflexivity.
      * reflexivity.
      * split; cbn [tface tcur pen cur]. intros f' Hf; inversion Hf; subst; reflexivity.
        intros p' Hp; inversion Hp; subst; reflexivity.
  - destruct Hv as (Hr & Hn & Hfit).
    cbn [emit]. fold (pre_cmds t r c f). cbn [fst snd]. cbv zeta.
    rewrite exec_list_app. rewrite (exec_pre o s h w t r c f) by (auto; lia).
    set (s1 := mkscreen h w _ _ _ _ _).
    assert (Hs1 : scr_ok s1 h w) by (apply scr_ok_mk; apply Hs).
    rewrite exec_list_cons, exec_list_nil. rewrite (exec_erase_at o s1 h w r c n Hs1) by (auto; lia).
    split; [|split; [|split]].
    + apply scr_ok_mk. apply gdims_on_row. apply Hs. intros. apply erase_cells_length.
    + reflexivity.
    + reflexivity.
    + split; cbn [tface tcur pen cur]. intros f' Hf; inversion Hf; subst; reflexivity.
      intros p' Hp; inversion Hp; subst; reflexivity.
Qed.

Lemma exec_emit_all : forall o ps s h w t,
  cw o space = 1 -> erase_law o -> scr_ok s h w -> consistent t s -> Forall (paint_valid o h w) ps ->
  let s' := exec_list o s (emit_all o t ps) in
  scr_ok s' h w /\ sgrid s' = apply_paints o (sgrid s) ps /\ places s' = places s.
Proof.
  induction ps as [|p ps IH]; intros s h w t Hsp Hlaw Hs Hc Hv; simpl.
  - auto.
  - inversion Hv; subst.
    destruct (emit o t p) as [cs t'] eqn:E. rewrite exec_list_app.
    pose proof (exec_emit o s h w t p Hsp Hlaw Hs Hc H1) as Hstep. rewrite E in Hstep. simpl in Hstep.
    destruct Hstep as (Hs' & Hg & Hp & Hc').
    destruct (IH (exec_list o s cs) h w t' Hsp Hlaw Hs' Hc' H2) as (Hs'' & Hg' & Hp').
    repeat split; try apply Hs''.
    + rewrite Hg', Hg. reflexivity.
    + rewrite Hp', Hp. reflexivity.
Qed.

(* ---------- image groups ---------- *)
Lemma on_row_ext_in : forall (g : grid scell) r f1 f2,
  (forall row, nth_error g r = Some row -> f1 row = f2 row) -> on_row g r f1 = on_row g r f2.
Proof. intros. unfold on_row. destruct (nth_error g r) eqn:E; auto. rewrite (H _ eq_refl). reflexivity. Qed.

Definition img_paints (o : oracle) (h w r c : nat) (f : face) (i : N) : list paint :=
  map (fun row => PErase (Nat.min row (h - 1)) c f (Nat.min (snd (isz o i)) (w - c)))
      (seq r (fst (isz o i))).

Lemma exec_erase_rows : forall o h w c f iw rows s,
  scr_ok s h w -> pen s = f -> c < w -> 0 < h -> 1 <= iw ->
  let s' := exec_list o s (flat_map (fun row => [CCursorTo row c; CEraseChars iw]) rows) in
  scr_ok s' h w
  /\ sgrid s' = apply_paints o (sgrid s)
                  (map (fun row => PErase (Nat.min row (h - 1)) c f (Nat.min iw (w - c))) rows)
  /\ places s' = places s /\ pen s' = f.
Proof.
  intros o h w c f iw. induction rows as [|row rows IH]; intros s Hs Hp Hc Hh Hiw; cbn [flat_map map].
  - rewrite exec_list_nil. auto.
  - cbn [app]. rewrite !exec_list_cons.
    rewrite (exec_cursor_to o s h w row c Hs) by lia.
    set (s1 := mkscreen h w _ _ _ _ _).
    assert (Hs1 : scr_ok s1 h w) by (apply scr_ok_mk; apply Hs).
    rewrite (exec_erase_at o s1 h w (Nat.min row (h - 1)) c iw Hs1) by (auto; lia).
    set (s2 := mkscreen h w _ _ _ _ _).
    assert (Hs2 : scr_ok s2 h w).
    { apply scr_ok_mk. apply gdims_on_row. apply Hs. intros. apply erase_cells_length. }
    destruct (IH s2 Hs2) as (Hs' & Hg & Hpl & Hpen); auto.
    split; [exact Hs'|]. split; [|split]; auto.
    rewrite Hg. unfold apply_paints. cbn [fold_left apply_paint]. f_equal.
    unfold s2, s1. cbn [sgrid pen]. rewrite Hp.
    apply on_row_ext_in. intros rw Hrw.
    apply erase_cells_clip. destruct Hs as (_ & _ & _ & Hd). eapply gdims_row; eauto.
Qed.

Lemma image_cmds_paint_image : forall o r c f i, image_cmds o r c f i = paint_image o r c f i.
Proof. intros. unfold image_cmds, paint_image. destruct (isz o i). reflexivity. Qed.

Definition add_place (p : placement) (l : list placement) : list placement :=
  if place_mem p l then l else p :: l.

Lemma exec_paint_image : forall o h w r c f i s,
  scr_ok s h w -> r < h -> c < w -> 1 <= snd (isz o i) ->
  let s' := exec_list o s (paint_image o r c f i) in
  scr_ok s' h w
  /\ sgrid s' = apply_paints o (sgrid s) (img_paints o h w r c f i)
  /\ places s' = add_place (i, r, c) (places s).
Proof.
  intros o h w r c f i s Hs Hr Hc Hiw. unfold paint_image, img_paints.
  destruct (isz o i) as [ih iw] eqn:Ei. cbn [fst snd] in *.
  cbn [app]. rewrite exec_list_cons. rewrite (exec_face o s h w f Hs).
  set (s1 := mkscreen h w _ _ _ _ _).
  assert (Hs1 : scr_ok s1 h w) by (apply scr_ok_mk; apply Hs).
  rewrite exec_list_app.
  destruct (exec_erase_rows o h w c f iw (seq r ih) s1 Hs1) as (Hs2 & Hg & Hpl & Hpen); auto; try lia.
  set (s2 := exec_list o s1 _) in *.
  rewrite !exec_list_cons, exec_list_nil.
  rewrite (exec_cursor_to o s2 h w r c Hs2) by lia.
  set (s3 := mkscreen h w _ _ _ _ _).
  unfold exec, add_place. cbn [places s3].
  destruct (place_mem (i, r, c) (places s2)) eqn:Em.
  - split; [apply scr_ok_mk; apply Hs2|]. split.
    + unfold s3. cbn [sgrid]. rewrite Hg. reflexivity.
    + unfold s3. cbn [places]. rewrite Hpl in *. unfold s1 in Em. cbn [places] in Em. rewrite Em. reflexivity.
  - unfold set_places. cbn [sh sw sgrid places cur pen err s3].
    split; [apply scr_ok_mk; apply Hs2|]. split.
    + rewrite Hg. reflexivity.
    + rewrite Hpl in *. unfold s1 in Em. cbn [places] in *. rewrite Em. reflexivity.
Qed.

(* ---------- image erase ---------- *)
Lemma placement_eqb_eq : forall a b, placement_eqb a b = true <-> a = b.
Proof.
  intros [[i r] c] [[j r'] c']. unfold placement_eqb.
  rewrite !andb_true_iff, N.eqb_eq, !Nat.eqb_eq. split.
  - intros [[-> ->] ->]. reflexivity.
  - intros H. inversion H. auto.
Qed.

Lemma place_mem_in : forall p l, place_mem p l = true <-> In p l.
Proof.
  intros. unfold place_mem. rewrite existsb_exists. split.
  - intros (x & Hin & He). apply placement_eqb_eq in He. subst. auto.
  - intros H. exists p. split; auto. apply placement_eqb_eq. reflexivity.
Qed.

Lemma in_add_place : forall p q l, In q (add_place p l) <-> q = p \/ In q l.
Proof.
  intros. unfold add_place. destruct (place_mem p l) eqn:E.
  - apply place_mem_in in E. split; auto. intros [->|H]; auto.
  - simpl. split; intros [H|H]; auto.
Qed.

Definition is_erase_at (x : cmd) : Prop := exists i r c, x = CImageErase i (Some (r, c)).

Lemma exec_image_erases : forall o h w l s,
  scr_ok s h w -> Forall is_erase_at l ->
  let s' := exec_list o s l in
  scr_ok s' h w /\ sgrid s' = sgrid s
  /\ forall i r c, In (i, r, c) (places s') <->
                   (In (i, r, c) (places s) /\ ~ In (CImageErase i (Some (r, c))) l).
Proof.
  intros o h w. induction l as [|x l IH]; intros s Hs Hall.
  - rewrite exec_list_nil. split; auto. split; auto. intros. simpl. tauto.
  - inversion Hall as [|? ? (i0 & r0 & c0 & ->) Hall']; subst.
    rewrite exec_list_cons. cbn [exec].
    set (s1 := set_places s _).
    assert (Hs1 : scr_ok s1 h w).
    { destruct Hs as (?&?&?&?). unfold s1, set_places, scr_ok. simpl. auto. }
    destruct (IH s1 Hs1 Hall') as (Hs' & Hg & Hpl).
    split; auto. split. rewrite Hg. reflexivity.
    intros i r c. rewrite Hpl. unfold s1, set_places. cbn [places].
    rewrite filter_In. cbn [In].
    split.
    + intros [[Hin Hne] Hnot]. split; auto. intros [Heq|Hin']; auto.
      inversion Heq; subst.
      assert (Ht : placement_eqb (i, r, c) (i, r, c) = true) by (apply placement_eqb_eq; reflexivity).
      rewrite Ht in Hne. discriminate.
    + intros [Hin Hnot]. split; [split|]; auto.
      destruct (placement_eqb (i, r, c) (i0, r0, c0)) eqn:E; auto.
      apply placement_eqb_eq in E. inversion E; subst. exfalso. apply Hnot. left. reflexivity.
Qed.
