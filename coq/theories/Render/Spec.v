(* Render/Spec.v — the property predicate of C01 on a history, computed on the
   specification side only: the reference terminal executes the given command
   lists operation by operation; after every frame it must display exactly
   [show S] for the surface S drawn for that frame, and no command may be a
   protocol error.  (Used by the correspondence check on the IMPLEMENTATION's
   commands, and by theorem C01_history on the model's.) *)
From Coq Require Import List NArith Bool Arith.
From SNT Require Export Render.Cell Render.Screen Render.Frame.
Import ListNotations.

(* the terminal side of one operation: execute the commands; a resize then replaces the cells *)
Definition screen_step (o : oracle) (scr : screen) (x : op) (cs : list cmd) : screen :=
  let scr' := exec_list o scr cs in
  match x with
  | Resize h w g => mkscreen h w g (places scr') (cur scr') (pen scr') (err scr')
  | _ => scr'
  end.

Fixpoint spec_run (o : oracle) (h w : nat) (scr : screen) (drawn : grid cell)
         (ops : list op) (impl : list (list cmd)) : bool :=
  match ops, impl with
  | [], [] => true
  | x :: ops', cs :: impl' =>
      let scr' := screen_step o scr x cs in
      negb (err scr')
      && match x with
         | Draw g => spec_run o h w scr' g ops' impl'
         | Frame => same_display scr' (show o h w drawn)
                    && spec_run o h w scr' (gmake h w cell_default) ops' impl'
         | Clear => spec_run o h w scr' drawn ops' impl'
             (* clear() forces the next frame to repaint; what the application drew stays drawn *)
         | Resize h' w' _ => spec_run o h' w' scr' (gmake h' w' cell_default) ops' impl'
         | _ => spec_run o h w scr' (gmake h w cell_default) ops' impl'
         end
  | _, _ => false
  end.
