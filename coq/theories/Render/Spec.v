(* Render/Spec.v — the property predicate of C01 on a history, computed on the
   specification side only: the reference terminal executes the given command
   lists operation by operation; after every frame it must display exactly
   [show S] for the surface S drawn for that frame, and no command may be a
   protocol error.  (Used by the correspondence check on the IMPLEMENTATION's
   commands, and by theorem C01_history on the model's.) *)
From Coq Require Import List NArith Bool Arith.
From SNT Require Export Render.Cell Render.Screen Render.Frame Render.Domain.
Import ListNotations.

(* the terminal side of one operation: execute the commands; a resize then replaces the cells *)
Definition screen_step (o : oracle) (scr : screen) (x : op) (cs : list cmd) : screen :=
  let scr' := exec_list o scr cs in
  match x with
  | Resize h w g => mkscreen h w g (places scr') (cur scr') (pen scr') (err scr')
  | _ => scr'
  end.

Fixpoint spec_run (o : oracle) (h w : nat) (scr : screen) (drawn : grid cell)
         (ops : list op) (impl : list (list cmd)) : bool :=
  match ops, impl with
  | [], [] => true
  | x :: ops', cs :: impl' =>
      let scr' := screen_step o scr x cs in
      negb (err scr')
      && match x with
         | Draw g => spec_run o h w scr' g ops' impl'
         | Frame => same_display scr' (show o h w drawn)
                    && spec_run o h w scr' (gmake h w cell_default) ops' impl'
         | Resize h' w' _ => spec_run o h' w' scr' (gmake h' w' cell_default) ops' impl'
         | FailFrame _ => spec_run o h w scr' drawn ops' impl'
         | _ => spec_run o h w scr' (gmake h w cell_default) ops' impl'
         end
  | _, _ => false
  end.

(* ---------- the same with the known classes OverlapImages / OverlapWideImage cut to their extent ----------
   [spec_run] fails for good on a history that contains an overlapping surface.  [resume_run] judges
   every history whose surfaces are in the domain ([in_domain]; overlaps allowed):
     - mode [Some E]: judging.  Every frame of a surface without image overlap must display that
       surface: same cells, no error, all its placements, and no placement besides them and the
       leftovers E ([display_upto]; E = [] until an overlap happened: then this is [same_display]).
     - a Frame of a surface WITH an image overlap (an image shares a cell with another image or a wide
       character) suspends judging: mode [None].  Drawing such a surface without a frame (SkipFrame,
       or overdrawn before the frame) suspends nothing.
     - the next forced repaint - Clear, Renew or Resize - resumes judging, provided no command was a
       protocol error meanwhile; what the terminal still places after the commands of that clear()
       (images whose erase the overlap swallowed) becomes the leftover set E. *)
Definition overlapping (o : oracle) (h w : nat) (s : grid cell) : bool := negb (no_image_overlap o h w s).

Definition resumed (scr' : screen) (mode : option (list placement)) : option (list placement) :=
  match mode with
  | Some E => Some E
  | None => if err scr' then None else Some (places scr')
  end.

Definition mode_ok (mode : option (list placement)) (scr' : screen) : bool :=
  match mode with Some _ => negb (err scr') | None => true end.

Fixpoint resume_run (o : oracle) (h w : nat) (scr : screen) (drawn : grid cell)
         (mode : option (list placement)) (ops : list op) (impl : list (list cmd)) : bool :=
  match ops, impl with
  | [], [] => true
  | x :: ops', cs :: impl' =>
      let scr' := screen_step o scr x cs in
      let blank := gmake h w cell_default in
      match x with
      | Draw g => mode_ok mode scr' && resume_run o h w scr' g mode ops' impl'
      | Frame =>
          match mode with
          | Some E =>
              if overlapping o h w drawn then resume_run o h w scr' blank None ops' impl'
              else display_upto E scr' (show o h w drawn) && resume_run o h w scr' blank mode ops' impl'
          | None => resume_run o h w scr' blank None ops' impl'
          end
      | SkipFrame => mode_ok mode scr' && resume_run o h w scr' blank mode ops' impl'
      | Clear | Renew =>
          mode_ok mode scr' && resume_run o h w scr' blank (resumed scr' mode) ops' impl'
      | Resize h' w' _ =>
          mode_ok mode scr' && resume_run o h' w' scr' (gmake h' w' cell_default) (resumed scr' mode) ops' impl'
      | FailFrame _ =>
          (* an aborted frame is not a rendered frame and is not judged; the repaint stays forced, so the next
             rendered frame must show its surface; whatever the terminal places now (the aborted frame may
             have placed images nobody knows of) is tolerated from here on *)
          resume_run o h w scr' drawn
                     (match mode with
                      | Some E => if err scr' then None else Some (E ++ places scr')
                      | None => None
                      end) ops' impl'
      end
  | _, _ => false
  end.

(* ---------- idle frames ---------- *)
(* a frame for a surface that (glyphs resolved) equals the one the previous frame displayed, with no
   clear / re-creation / resize in between, issues no command at all *)
Fixpoint cgrid_eqb (a b : grid cell) : bool :=
  match a, b with
  | [], [] => true
  | x :: a', y :: b' =>
      (fix row (u v : list cell) : bool :=
         match u, v with
         | [], [] => true
         | p :: u', q :: v' => cell_eqb p q && row u' v'
         | _, _ => false
         end) x y && cgrid_eqb a' b'
  | _, _ => false
  end.

Definition cmds_nil (l : list cmd) : bool := match l with [] => true | _ => false end.

Fixpoint idle_ok (o : oracle) (h w : nat) (prev : option (grid cell)) (drawn : grid cell)
         (ops : list op) (impl : list (list cmd)) : bool :=
  match ops, impl with
  | x :: ops', cs :: impl' =>
      match x with
      | Draw g => idle_ok o h w prev g ops' impl'
      | Frame =>
          let now := map (map (resolve o)) drawn in
          (match prev with
           | Some p => if cgrid_eqb now p then cmds_nil cs else true
           | None => true
           end)
          && idle_ok o h w (Some now) (gmake h w cell_default) ops' impl'
      | SkipFrame => idle_ok o h w prev (gmake h w cell_default) ops' impl'
      | Clear | Renew => idle_ok o h w None (gmake h w cell_default) ops' impl'
      | FailFrame _ => idle_ok o h w None drawn ops' impl'
      | Resize h' w' _ => idle_ok o h' w' None (gmake h' w' cell_default) ops' impl'
      end
  | _, _ => true
  end.
