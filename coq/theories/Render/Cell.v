(* Render/Cell.v — cells, grids and oracles shared by the reference terminal
   (Screen.v) and the model of TerminalRenderer (Frame.v).

   Conventions: characters are scalar values (N), faces and images are opaque
   identifiers (N; face 0 is Face::default()), rows/columns/sizes are nat
   (terminal coordinates are small).  External behaviour the renderer leans on
   is passed as an explicit oracle record:
     cw   : display width of a character (unicode-width, via the harness)
     isz  : size in cells (height, width) of an image (Image::size_cells with the
            terminal's pixels-per-cell)
     gimg : the image a glyph cell is rasterised to; the renderer caches by
            (glyph, face) so the map is a function of both.
     fspace, ferase, erasable : how blank cells display (see the record). *)
From Coq Require Import List NArith Bool Arith.
Import ListNotations.

Definition face := N.
Definition face_default : face := 0%N.

Inductive kind := KChar (c : N) | KImg (i : N) | KGlyph (g : N).
Record cell := mkcell { cface : face; ckind : kind }.

Definition space : N := 32%N.
Definition cell_default : cell := mkcell face_default (KChar space).

Definition kind_eqb (a b : kind) : bool :=
  match a, b with
  | KChar x, KChar y => N.eqb x y
  | KImg x, KImg y => N.eqb x y
  | KGlyph x, KGlyph y => N.eqb x y
  | _, _ => false
  end.
Definition cell_eqb (a b : cell) : bool :=
  N.eqb (cface a) (cface b) && kind_eqb (ckind a) (ckind b).

Record oracle := mkoracle {
  cw : N -> nat;
  isz : N -> nat * nat;
  gimg : N -> face -> N;
  (* faces are opaque, but a blank cell does not show all of a face: [fspace f] is what a space
     printed in face f looks like (background, and the foreground/attributes only if the face
     underlines, strikes or reverses), [ferase f] what a cell erased under face f looks like
     (background only), [erasable f] the renderer's own test "f has no such attributes" *)
  fspace : face -> face;
  ferase : face -> face;
  erasable : face -> bool }.

Definition erase_law (o : oracle) : Prop := forall f, erasable o f = true -> ferase o f = fspace o f.

(* what the theorems assume about the oracle *)
Definition oracle_ok (o : oracle) : Prop :=
  cw o (32%N) = 1 /\ fspace o face_default = face_default /\ erase_law o.

(* ---------- grids: list of rows ---------- *)
Definition grid (A : Type) := list (list A).

Fixpoint upd {A} (l : list A) (k : nat) (v : A) : list A :=
  match l, k with
  | [], _ => []
  | _ :: t, O => v :: t
  | x :: t, S k' => x :: upd t k' v
  end.

Definition gget {A} (g : grid A) (r c : nat) : option A :=
  match nth_error g r with
  | Some row => nth_error row c
  | None => None
  end.

Definition gset {A} (g : grid A) (r c : nat) (v : A) : grid A :=
  match nth_error g r with
  | Some row => upd g r (upd row c v)
  | None => g
  end.

Fixpoint mapi_from {A B} (f : nat -> A -> B) (k : nat) (l : list A) : list B :=
  match l with
  | [] => []
  | x :: t => f k x :: mapi_from f (S k) t
  end.
Definition mapi {A B} (f : nat -> A -> B) (l : list A) : list B := mapi_from f 0 l.

Definition in_range (a b k : nat) : bool := (a <=? k) && (k <? b).

(* positions a <= k < b of the list are overwritten (clipped to the list) *)
Definition fill_range {A} (l : list A) (a b : nat) (v : A) : list A :=
  mapi (fun k x => if in_range a b k then v else x) l.

(* rows [r0, r1) x columns [c0, c1), clipped: SurfaceMut::view_mut(r0..r1, c0..c1).fill(v) *)
Definition gfill {A} (g : grid A) (r0 r1 c0 c1 : nat) (v : A) : grid A :=
  mapi (fun r row => if in_range r0 r1 r then fill_range row c0 c1 v else row) g.

Definition gmake {A} (h w : nat) (v : A) : grid A := repeat (repeat v w) h.

(* row-major list of all positions of an h x w surface *)
Definition all_pos (h w : nat) : list (nat * nat) :=
  flat_map (fun r => map (fun c => (r, c)) (seq 0 w)) (seq 0 h).

Definition grid_dims {A} (g : grid A) (h w : nat) : bool :=
  Nat.eqb (length g) h && forallb (fun row => Nat.eqb (length row) w) g.

(* a glyph cell is displayed through the image it is rasterised to *)
Definition resolve (o : oracle) (x : cell) : cell :=
  match ckind x with
  | KGlyph g => mkcell (cface x) (KImg (gimg o g (cface x)))
  | _ => x
  end.

(* The part of the terminal, as rows [r0,r1) x columns [c0,c1), that a cell
   placed at (r, c) occupies beyond what printing one narrow character there
   would touch: the whole rectangle of an image, the trailing columns of a
   wide character. *)
Definition extent (o : oracle) (x : cell) (r c : nat) : nat * nat * nat * nat :=
  match ckind x with
  | KImg i => let '(h, w) := isz o i in (r, r + h, c, c + w)
  | KChar ch => (r, r + 1, c + 1, c + cw o ch)
  | KGlyph _ => (r, r, c, c)
  end.
