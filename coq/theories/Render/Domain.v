(* Render/Domain.v — the domain of C01 and the decidable class Overlap.

   in_domain   : the surface has the terminal's size, every character has
                 display width 1 or 2, a wide character is not in the last
                 column, every image occupies at least one cell.
   overlap_free: no cell is occupied by two multi-cell objects, where the
                 objects are the wide characters (two cells) and the images
                 (their rectangle).  Narrow characters are never objects: they
                 may sit anywhere, in particular behind a wide character or
                 under an image. *)
From Coq Require Import List NArith Bool Arith.
From SNT Require Export Render.Cell.
Import ListNotations.

Definition cell_in_domain (o : oracle) (w c : nat) (x : cell) : bool :=
  match ckind (resolve o x) with
  | KChar ch => (cw o ch =? 1) || ((cw o ch =? 2) && (c + 2 <=? w))
  | KImg i => let '(ih, iw) := isz o i in (1 <=? ih) && (1 <=? iw)
  | KGlyph _ => false
  end.

Definition in_domain (o : oracle) (h w : nat) (s : grid cell) : bool :=
  grid_dims s h w
  && forallb (fun row => forallb (fun b => b) (mapi (cell_in_domain o w) row)) s.

(* the cell x placed at (r0, c0) is a multi-cell object that occupies (r, c) *)
Definition obj_covers (o : oracle) (x : cell) (r0 c0 r c : nat) : bool :=
  match ckind (resolve o x) with
  | KChar ch => (cw o ch =? 2) && (r =? r0) && in_range c0 (c0 + 2) c
  | KImg i => let '(ih, iw) := isz o i in in_range r0 (r0 + ih) r && in_range c0 (c0 + iw) c
  | KGlyph _ => false
  end.

Definition cover_count (o : oracle) (s : grid cell) (r c : nat) : nat :=
  list_sum (mapi (fun r0 row =>
                    list_sum (mapi (fun c0 x => if obj_covers o x r0 c0 r c then 1 else 0) row)) s).

Definition overlap_free (o : oracle) (h w : nat) (s : grid cell) : bool :=
  forallb (fun '(r, c) => cover_count o s r c <=? 1) (all_pos h w).

(* ---------- sub-classes of Overlap ---------- *)
Definition is_image_cell (o : oracle) (x : cell) : bool :=
  match ckind (resolve o x) with KImg _ => true | _ => false end.

(* number of images / of wide characters occupying (r, c) *)
Definition cover_count_by (o : oracle) (img : bool) (s : grid cell) (r c : nat) : nat :=
  list_sum (mapi (fun r0 row =>
                    list_sum (mapi (fun c0 x => if Bool.eqb (is_image_cell o x) img && obj_covers o x r0 c0 r c
                                                then 1 else 0) row)) s).

(* (two images, an image and a wide character, two wide characters) on a common cell *)
Definition overlap_kinds (o : oracle) (h w : nat) (s : grid cell) : bool * bool * bool :=
  let at_pos := fun '(r, c) => (cover_count_by o true s r c, cover_count_by o false s r c) in
  let l := map at_pos (all_pos h w) in
  (existsb (fun '(ni, nw) => 2 <=? ni) l,
   existsb (fun '(ni, nw) => (1 <=? ni) && (1 <=? nw)) l,
   existsb (fun '(ni, nw) => 2 <=? nw) l).

(* the domain of the theorems: images share cells with nothing (wide characters may hide one another) *)
Definition no_image_overlap (o : oracle) (h w : nat) (s : grid cell) : bool :=
  let '(ii, wi, _) := overlap_kinds o h w s in negb ii && negb wi.
