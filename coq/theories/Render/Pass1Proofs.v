(* Render/Pass1Proofs.v — the first pass of frame(): the marks, the image-erase
   commands and the list of images to draw satisfy [P1Spec].

   Pass 1 is a fold over all positions in row-major order in which the decision
   taken at a position reads the marks written so far, and marks are
   last-writer-wins.  The invariant below records, for the processed prefix,
   where every Ignored mark comes from, that everything an object of the new
   surface reaches is Ignored unless a changed object overwrote it, and that
   what a changed old object reached is Damaged unless something new covers it. *)
From Coq Require Import List NArith Bool Arith Lia FinFun.
From SNT Require Import Render.Cell Render.Screen Render.Frame Render.Domain Render.GridLemmas
  Render.ExecProofs Render.Den Render.FrameSpec.
Import ListNotations.

(* ---------- positions ---------- *)
Lemma nodup_app : forall {A} (l1 l2 : list A),
  NoDup l1 -> NoDup l2 -> (forall x, In x l1 -> ~ In x l2) -> NoDup (l1 ++ l2).
Proof.
  induction l1 as [|a l1 IH]; intros l2 H1 H2 Hd; simpl; auto.
  inversion H1; subst. constructor.
  - intros Hin. apply in_app_or in Hin. destruct Hin as [Hin|Hin]; auto. apply (Hd a); simpl; auto.
  - apply IH; auto. intros x Hx. apply Hd. simpl. auto.
Qed.

Lemma nodup_rows : forall w n a,
  NoDup (flat_map (fun r => map (fun c => (r, c)) (seq 0 w)) (seq a n)).
Proof.
  intros w. induction n as [|n IH]; intros a; simpl. constructor.
  apply nodup_app.
  - apply Injective_map_NoDup. intros x y H. inversion H. auto. apply seq_NoDup.
  - apply IH.
  - intros [r c] Hin Hin2. apply in_map_iff in Hin. destruct Hin as (c' & Heq & _). inversion Heq; subst.
    apply in_flat_map in Hin2. destruct Hin2 as (r' & Hr' & Hin2). apply in_seq in Hr'.
    apply in_map_iff in Hin2. destruct Hin2 as (c'' & Heq2 & _). inversion Heq2. lia.
Qed.

Lemma nodup_all_pos : forall h w, NoDup (all_pos h w).
Proof. intros. unfold all_pos. apply nodup_rows. Qed.

Definition pos_mem (l : list (nat * nat)) (r c : nat) : bool :=
  existsb (fun q => Nat.eqb (fst q) r && Nat.eqb (snd q) c) l.

Lemma pos_mem_in : forall l r c, pos_mem l r c = true <-> In (r, c) l.
Proof.
  intros. unfold pos_mem. rewrite existsb_exists. split.
  - intros ([r' c'] & Hin & He). simpl in He. apply andb_true_iff in He.
    rewrite !Nat.eqb_eq in He. destruct He; subst. auto.
  - intros H. exists (r, c). simpl. rewrite !Nat.eqb_refl. auto.
Qed.

Lemma pos_mem_false : forall l r c, pos_mem l r c = false <-> ~ In (r, c) l.
Proof.
  intros. rewrite <- pos_mem_in. destruct (pos_mem l r c); split; intro H; congruence.
Qed.

Lemma resolve_idem : forall o x, resolve o (resolve o x) = resolve o x.
Proof. intros o [f [ch|i|g]]; reflexivity. Qed.

Section Pass1.
  Variable o : oracle.
  Variables h w : nat.
  Variable u : mark.
  Variables old front : grid cell.
  Let nw := gmap (resolve o) front.
  Hypothesis Gold : Good o h w old.
  Hypothesis GN : Good o h w nw.
  Hypothesis Hfd : gdims front h w.
  Hypothesis Hu : u = MEmpty \/ u = MDamaged.

  Record Inv (done decs : list (nat * nat)) (st : p1) : Prop := {
    i_mdims : gdims (p1_marks st) h w;
    i_fdims : gdims (p1_front st) h w;
    i_front_done : forall r c, In (r, c) done -> gget (p1_front st) r c = gget nw r c;
    i_front_todo : forall r c, ~ In (r, c) done -> gget (p1_front st) r c = gget front r c;
    i_decs : forall q, In q decs -> In q done;
    i_same : forall r c, In (r, c) done -> ~ In (r, c) decs -> gget old r c = gget nw r c;
    i_dec : forall r c, In (r, c) decs ->
            gget old r c <> gget nw r c \/ gget (p1_marks st) r c = Some MDamaged
            \/ exists r1 c1 y, gget nw r1 c1 = Some y /\ ext_covers o y r1 c1 r c = true;
    i_ign : forall r c, gget (p1_marks st) r c = Some MIgnored ->
            exists r1 c1 y, gget nw r1 c1 = Some y /\ ext_covers o y r1 c1 r c = true;
    i_new : forall r1 c1 y r c, In (r1, c1) done -> gget nw r1 c1 = Some y ->
            ext_covers o y r1 c1 r c = true -> r < h -> c < w ->
            gget (p1_marks st) r c = Some MIgnored
            \/ (gget (p1_marks st) r c = Some MDamaged /\ In (r1, c1) decs);
    i_old : forall r1 c1 y r c, In (r1, c1) decs -> gget old r1 c1 = Some y ->
            ext_covers o y r1 c1 r c = true -> r < h -> c < w ->
            (forall r2 c2 z, gget nw r2 c2 = Some z -> ext_covers o z r2 c2 r c = false) ->
            gget (p1_marks st) r c = Some MDamaged;
    i_forced : u = MDamaged -> forall r c, r < h -> c < w ->
               gget (p1_marks st) r c = Some MDamaged \/ gget (p1_marks st) r c = Some MIgnored;
    i_cmds : Forall is_erase_at (p1_cmds st)
             /\ forall i r c, In (CImageErase i (Some (r, c))) (p1_cmds st) <->
                              (In (r, c) decs /\ exists x, gget old r c = Some x /\ ckind x = KImg i);
    i_imgs : forall r c f i, In (r, c, f, i) (p1_imgs st) <->
                             (In (r, c) decs
                              /\ exists x, gget nw r c = Some x /\ ckind x = KImg i /\ cface x = f) }.

  Lemma gget_nw : forall r c, gget nw r c = option_map (resolve o) (gget front r c).
  Proof. intros. unfold nw. apply gget_gmap. Qed.

  Lemma inv_init : Inv [] [] (mkp1 (gmake h w u) front [] []).
  Proof.
    constructor; simpl; try tauto.
    - apply gdims_gmake.
    - intros r c Hm. destruct (gget (gmake h w u) r c) eqn:E; [|discriminate].
      apply gget_gmake_inv in E. inversion Hm; subst. destruct Hu; discriminate.
    - intros Hd r c Hr Hc. left. rewrite gget_gmake; auto. congruence.
    - split. constructor. intros. tauto.
  Qed.

  (* the marks after one step, uniformly in the branch taken *)
  Definition step_mark (chg : bool) (oldc new : cell) (r0 c0 r c : nat) (v : mark) : mark :=
    if ext_covers o new r0 c0 r c then MIgnored
    else if chg && ext_covers o oldc r0 c0 r c then MDamaged else v.

  Lemma inv_step : forall done decs st r0 c0,
    Inv done decs st -> ~ In (r0, c0) done -> r0 < h -> c0 < w ->
    exists decs', Inv (done ++ [(r0, c0)]) decs' (pass1_step o old st (r0, c0)).
  Proof.
    intros done decs st r0 c0 HI Hnd Hr0 Hc0.
    destruct (gget_in_bounds old h w r0 c0 (good_dims _ _ _ _ Gold) Hr0 Hc0) as (oldc & Ho).
    destruct (gget_in_bounds front h w r0 c0 Hfd Hr0 Hc0) as (new0 & Hn0).
    assert (Hf0 : gget (p1_front st) r0 c0 = Some new0) by (rewrite (i_front_todo _ _ _ HI); auto).
    set (new := resolve o new0).
    assert (Hnw : gget nw r0 c0 = Some new) by (rewrite gget_nw, Hn0; reflexivity).
    assert (Hgo : cell_good o w c0 oldc) by (eapply (good_cells _ _ _ _ Gold); eauto).
    unfold pass1_step. rewrite Ho, Hf0. fold new.
    set (same := cell_eqb oldc new && negb (is_damaged (gget (p1_marks st) r0 c0))).
    set (chg := negb same).
    (* the resulting marks *)
    set (marks' := fill_extent o (if chg then fill_extent o (p1_marks st) oldc r0 c0 MDamaged else p1_marks st)
                               new r0 c0 MIgnored).
    assert (Hmarks : forall r c, gget marks' r c =
                                 option_map (step_mark chg oldc new r0 c0 r c) (gget (p1_marks st) r c)).
    { intros r c. unfold marks', step_mark. rewrite fill_extent_gget.
      destruct chg; simpl.
      - rewrite fill_extent_gget. destruct (gget (p1_marks st) r c); simpl; auto.
      - destruct (gget (p1_marks st) r c); simpl; auto. }
    assert (Hmd : gdims marks' h w).
    { unfold marks'. apply gdims_fill_extent. destruct chg; [apply gdims_fill_extent|]; apply HI. }
    set (front' := gset (p1_front st) r0 c0 new).
    assert (Hfront_q : gget front' r0 c0 = Some new).
    { unfold front'. rewrite gget_gset, !Nat.eqb_refl. simpl. rewrite Hf0. reflexivity. }
    assert (Hfront_o : forall r c, (r, c) <> (r0, c0) -> gget front' r c = gget (p1_front st) r c).
    { intros r c Hne. unfold front'. rewrite gget_gset.
      destruct (Nat.eqb_spec r r0); destruct (Nat.eqb_spec c c0); simpl; auto. subst. congruence. }
    (* when the step does not change the decision set of earlier cells *)
    assert (Hchg_true : chg = true -> oldc <> new \/ gget (p1_marks st) r0 c0 = Some MDamaged).
    { unfold chg, same. rewrite negb_true_iff, andb_false_iff, negb_false_iff.
      intros [H|H].
      - left. intros Heq. apply cell_eqb_eq in Heq. congruence.
      - right. unfold is_damaged in H. destruct (gget (p1_marks st) r0 c0) as [[| |]|]; try discriminate. reflexivity. }
    assert (Hchg_false : chg = false -> oldc = new).
    { unfold chg, same. rewrite negb_false_iff, andb_true_iff. intros [H _]. apply cell_eqb_eq. exact H. }
    set (decs' := if chg then (r0, c0) :: decs else decs).
    assert (Hdecs_mono : forall q, In q decs -> In q decs').
    { intros q Hq. unfold decs'. destruct chg; simpl; auto. }
    assert (Hdecs_inv : forall q, In q decs' -> In q decs \/ (chg = true /\ q = (r0, c0))).
    { intros q Hq. unfold decs' in Hq. destruct chg; simpl in *; auto. destruct Hq; auto. }
    set (cmds' := match ckind oldc with
                  | KImg i => CImageErase i (Some (r0, c0)) :: p1_cmds st
                  | _ => p1_cmds st end).
    set (imgs' := match ckind new with
                  | KImg i => (r0, c0, cface new, i) :: p1_imgs st
                  | _ => p1_imgs st end).
    set (st' := if chg then mkp1 marks' front' cmds' imgs'
                else mkp1 marks' front' (p1_cmds st) (p1_imgs st)).
    assert (Hst : (if same
                   then mkp1 (fill_extent o (p1_marks st) new r0 c0 MIgnored) front' (p1_cmds st) (p1_imgs st)
                   else mkp1 (fill_extent o (fill_extent o (p1_marks st) oldc r0 c0 MDamaged) new r0 c0 MIgnored)
                             front' cmds' imgs') = st').
    { unfold st', marks', chg. destruct same; reflexivity. }
    fold front'. fold cmds'. fold imgs'. rewrite Hst.
    assert (Hm' : p1_marks st' = marks') by (unfold st'; destruct chg; reflexivity).
    assert (Hf' : p1_front st' = front') by (unfold st'; destruct chg; reflexivity).
    exists decs'.
    assert (Hin_app : forall q, In q (done ++ [(r0, c0)]) <-> In q done \/ q = (r0, c0)).
    { intros q. rewrite in_app_iff. simpl. intuition. }
    constructor.
    - rewrite Hm'. exact Hmd.
    - rewrite Hf'. unfold front'. apply gdims_gset. apply HI.
    - intros r c Hin. rewrite Hf'. apply Hin_app in Hin. destruct Hin as [Hin|Heq].
      + rewrite Hfront_o by (intros Heq; inversion Heq; subst; contradiction).
        apply (i_front_done _ _ _ HI); auto.
      + inversion Heq; subst. rewrite Hfront_q. auto.
    - intros r c Hin. rewrite Hf'.
      assert (Hne : (r, c) <> (r0, c0)) by (intros Heq; apply Hin; apply Hin_app; auto).
      rewrite Hfront_o by auto. apply (i_front_todo _ _ _ HI).
      intros Hd. apply Hin. apply Hin_app. auto.
    - intros q Hq. apply Hin_app. apply Hdecs_inv in Hq. destruct Hq as [Hq|[_ ->]]; auto.
      left. apply (i_decs _ _ _ HI); auto.
    - intros r c Hin Hnd'. apply Hin_app in Hin. destruct Hin as [Hin|Heq].
      + apply (i_same _ _ _ HI); auto.
      + inversion Heq; subst. rewrite Ho, Hnw. f_equal. apply Hchg_false.
        destruct (Bool.bool_dec chg true) as [E|E]; [|apply not_true_is_false in E; auto]. exfalso. apply Hnd'. unfold decs'. rewrite E. left. reflexivity.
    - (* i_dec *)
      intros r c Hin. rewrite Hm', Hmarks.
      assert (Hcov : ext_covers o new r0 c0 r c = true ->
                     exists r1 c1 y, gget nw r1 c1 = Some y /\ ext_covers o y r1 c1 r c = true)
        by (intros; eauto).
      apply Hdecs_inv in Hin. destruct Hin as [Hin|[Hc Heq]].
      + destruct (i_dec _ _ _ HI r c Hin) as [H|[H|H]]; auto.
        rewrite H. simpl. unfold step_mark.
        destruct (ext_covers o new r0 c0 r c) eqn:E1; auto.
        destruct (chg && ext_covers o oldc r0 c0 r c); auto.
      + inversion Heq; subst r c. destruct (Hchg_true Hc) as [H|H].
        * left. rewrite Ho, Hnw. congruence.
        * rewrite H. simpl. unfold step_mark.
          destruct (ext_covers o new r0 c0 r0 c0) eqn:E1; auto.
          destruct (chg && ext_covers o oldc r0 c0 r0 c0); auto.
    - (* i_ign *)
      intros r c. rewrite Hm', Hmarks.
      destruct (gget (p1_marks st) r c) as [v|] eqn:Ev; [|discriminate]. simpl. unfold step_mark.
      destruct (ext_covers o new r0 c0 r c) eqn:E1; [eauto|].
      destruct (chg && ext_covers o oldc r0 c0 r c); [discriminate|].
      intros H. inversion H; subst. apply (i_ign _ _ _ HI); auto.
    - (* i_new *)
      intros r1 c1 y r c Hin Hy He Hr Hc. rewrite Hm', Hmarks.
      destruct (gget_in_bounds (p1_marks st) h w r c (i_mdims _ _ _ HI) Hr Hc) as (v & Hv).
      rewrite Hv. simpl. unfold step_mark.
      apply Hin_app in Hin. destruct Hin as [Hin|Heq].
      2:{ inversion Heq; subst r1 c1. rewrite Hnw in Hy. inversion Hy; subst y. rewrite He. auto. }
      destruct (ext_covers o new r0 c0 r c) eqn:E1; auto.
      destruct (i_new _ _ _ HI r1 c1 y r c Hin Hy He Hr Hc) as [H|[H1 H2]].
      + rewrite Hv in H. inversion H; subst v.
        destruct (chg && ext_covers o oldc r0 c0 r c) eqn:E2; auto.
        right. split; auto. apply andb_true_iff in E2. destruct E2 as [Ec Eo].
        (* an old object that changed overwrote the mark: the new object is not an unchanged old one *)
        destruct (pos_mem decs r1 c1) eqn:Em; [apply pos_mem_in in Em; auto|].
        apply pos_mem_false in Em. rename Em into Hnd1.
        exfalso.
        pose proof (i_same _ _ _ HI r1 c1 Hin Hnd1) as Hsame. rewrite Hy in Hsame.
        assert (Hgy : cell_good o w c1 y) by (eapply (good_cells _ _ _ _ Gold); eauto).
        destruct (good_disjoint _ _ _ _ Gold r c r1 c1 r0 c0 y oldc Hr Hc Hsame Ho) as [-> ->].
        * eapply ext_covers_occupies; eauto.
        * eapply ext_covers_occupies; eauto.
        * contradiction.
      + rewrite Hv in H1. inversion H1; subst v.
        destruct (chg && ext_covers o oldc r0 c0 r c); auto.
    - (* i_old *)
      intros r1 c1 y r c Hin Hy He Hr Hc Hnone. rewrite Hm', Hmarks.
      destruct (gget_in_bounds (p1_marks st) h w r c (i_mdims _ _ _ HI) Hr Hc) as (v & Hv).
      rewrite Hv. simpl. unfold step_mark. rewrite (Hnone r0 c0 new Hnw).
      apply Hdecs_inv in Hin. destruct Hin as [Hin|[Hc' Heq]].
      + pose proof (i_old _ _ _ HI r1 c1 y r c Hin Hy He Hr Hc Hnone) as H.
        rewrite Hv in H. inversion H; subst v.
        destruct (chg && ext_covers o oldc r0 c0 r c); auto.
      + inversion Heq; subst r1 c1. rewrite Ho in Hy. inversion Hy; subst y.
        rewrite Hc', He. reflexivity.
    - (* i_forced *)
      intros Hd r c Hr Hc. rewrite Hm', Hmarks.
      destruct (gget_in_bounds (p1_marks st) h w r c (i_mdims _ _ _ HI) Hr Hc) as (v & Hv).
      rewrite Hv. simpl. unfold step_mark.
      destruct (ext_covers o new r0 c0 r c); auto.
      destruct (chg && ext_covers o oldc r0 c0 r c); auto.
      destruct (i_forced _ _ _ HI Hd r c Hr Hc) as [H|H]; rewrite Hv in H; inversion H; auto.
    - (* i_cmds *)
      destruct (i_cmds _ _ _ HI) as [Hall Hiff].
      unfold st', decs'. destruct chg eqn:Ec; simpl; [|split; auto].
      assert (Hskip : forall i, ckind oldc <> KImg i ->
                forall r c, (In (r, c) decs /\ (exists x, gget old r c = Some x /\ ckind x = KImg i)) <->
                            (((r0, c0) = (r, c) \/ In (r, c) decs)
                             /\ (exists x, gget old r c = Some x /\ ckind x = KImg i))).
      { intros i Hk r c. split.
        - intros [H1 H2]. split; [right; exact H1|exact H2].
        - intros [[Heq|H1] H2]; [|split; assumption]. exfalso.
          inversion Heq; subst. destruct H2 as (x & Hx & Hkx). rewrite Ho in Hx. inversion Hx; subst. congruence. }
      unfold cmds'. destruct (ckind oldc) as [ch|i0|g] eqn:Ek.
      + split; auto. intros i r c. rewrite Hiff. apply Hskip. discriminate.
      + split.
        * constructor; auto. exists i0, r0, c0. reflexivity.
        * intros i r c. simpl. rewrite Hiff. split.
          -- intros [Heq|[H1 H2]]; [|split; [right; exact H1|exact H2]].
             inversion Heq; subst. split; [left; reflexivity|]. exists oldc. auto.
          -- intros [[Heq|H1] H2]; [|right; split; assumption].
             inversion Heq; subst. destruct H2 as (x & Hx & Hkx). rewrite Ho in Hx. inversion Hx; subst.
             rewrite Ek in Hkx. inversion Hkx; subst. left. reflexivity.
      + split; auto. intros i r c. rewrite Hiff. apply Hskip. discriminate.
    - (* i_imgs *)
      pose proof (i_imgs _ _ _ HI) as Hiff.
      unfold st', decs'. destruct chg eqn:Ec; simpl; auto.
      assert (Hskip : forall i f, ckind new <> KImg i ->
                forall r c, (In (r, c) decs /\ (exists x, gget nw r c = Some x /\ ckind x = KImg i /\ cface x = f)) <->
                            (((r0, c0) = (r, c) \/ In (r, c) decs)
                             /\ (exists x, gget nw r c = Some x /\ ckind x = KImg i /\ cface x = f))).
      { intros i f Hk r c. split.
        - intros [H1 H2]. split; [right; exact H1|exact H2].
        - intros [[Heq|H1] H2]; [|split; assumption]. exfalso.
          inversion Heq; subst. destruct H2 as (x & Hx & Hkx & _). rewrite Hnw in Hx. inversion Hx; subst. congruence. }
      unfold imgs'. destruct (ckind new) as [ch|i0|g] eqn:Ek.
      + intros r c f i. rewrite Hiff. apply Hskip. discriminate.
      + intros r c f i. simpl. rewrite Hiff. split.
        * intros [Heq|[H1 H2]]; [|split; [right; exact H1|exact H2]].
          inversion Heq; subst. split; [left; reflexivity|]. exists new. auto.
        * intros [[Heq|H1] H2]; [|right; split; assumption].
          inversion Heq; subst. destruct H2 as (x & Hx & Hkx & Hfx). rewrite Hnw in Hx. inversion Hx; subst.
          rewrite Ek in Hkx. inversion Hkx; subst. left. reflexivity.
      + intros r c f i. rewrite Hiff. apply Hskip. discriminate.
  Qed.

  Lemma inv_fold : forall todo done decs st,
    Inv done decs st -> NoDup (done ++ todo) ->
    (forall r c, In (r, c) todo -> r < h /\ c < w) ->
    exists decs', Inv (done ++ todo) decs' (fold_left (pass1_step o old) todo st).
  Proof.
    induction todo as [|[r0 c0] todo IH]; intros done decs st HI Hnd Hb.
    - rewrite app_nil_r. simpl. eauto.
    - simpl.
      assert (Hnin : ~ In (r0, c0) done).
      { apply NoDup_remove_2 in Hnd. intros Hin. apply Hnd. apply in_or_app. auto. }
      destruct (Hb r0 c0 (or_introl eq_refl)) as [Hr Hc].
      destruct (inv_step done decs st r0 c0 HI Hnin Hr Hc) as (decs1 & HI1).
      replace (done ++ (r0, c0) :: todo) with ((done ++ [(r0, c0)]) ++ todo) in *
        by (rewrite <- app_assoc; reflexivity).
      apply (IH _ decs1); auto. intros r c Hin. apply Hb. right. auto.
  Qed.

  Theorem pass1_spec :
    let st := pass1 o (mkrstate h w front old (gmake h w u)) in
    p1_front st = nw
    /\ exists dec, P1Spec o h w u old nw (p1_marks st) dec (rev (p1_cmds st)) (rev (p1_imgs st)).
  Proof.
    cbv zeta. unfold pass1. cbn [marks Frame.front back rh rw].
    destruct (inv_fold (all_pos h w) [] [] _ inv_init) as (decs & HI).
    { simpl. apply nodup_all_pos. }
    { intros r c Hin. apply in_all_pos. auto. }
    simpl in HI. set (st := fold_left _ _ _) in *.
    assert (Hdone : forall r c, r < h -> c < w -> In (r, c) (all_pos h w)) by (intros; apply in_all_pos; auto).
    split.
    - apply (grid_ext _ _ h w). apply HI. unfold nw. apply gdims_gmap. exact Hfd.
      intros r c Hr Hc. apply (i_front_done _ _ _ HI). auto.
    - exists (pos_mem decs). constructor.
      + apply HI.
      + intros r c Hr Hc Hd. apply pos_mem_false in Hd. apply (i_same _ _ _ HI); auto.
      + intros r c Hr Hc Hd. apply pos_mem_in in Hd. apply (i_dec _ _ _ HI); auto.
      + apply (i_ign _ _ _ HI).
      + intros r1 c1 y r c Hy He Hr Hc.
        assert (Hb : r1 < h /\ c1 < w) by (apply (gget_some_bounds nw h w r1 c1 y (good_dims _ _ _ _ GN) Hy)).
        destruct (i_new _ _ _ HI r1 c1 y r c (Hdone _ _ (proj1 Hb) (proj2 Hb)) Hy He Hr Hc) as [H|[H1 H2]]; auto.
        right. split; auto. apply pos_mem_in. auto.
      + intros r1 c1 y r c Hy Hd He Hr Hc Hnone. apply pos_mem_in in Hd.
        apply (i_old _ _ _ HI r1 c1 y r c); auto.
      + apply (i_forced _ _ _ HI).
      + destruct (i_cmds _ _ _ HI) as [Hall Hiff]. split.
        * apply Forall_rev. exact Hall.
        * intros i r c. rewrite <- in_rev, Hiff. split.
          -- intros [H1 (x & Hx & Hk)]. apply pos_mem_in in H1. eauto.
          -- intros (x & Hx & Hk & Hd). apply pos_mem_in in Hd. eauto.
      + intros r c f i. rewrite <- in_rev, (i_imgs _ _ _ HI). split.
        * intros [H1 (x & Hx & Hk & Hf)]. apply pos_mem_in in H1. eauto 6.
        * intros (x & Hx & Hk & Hf & Hd). apply pos_mem_in in Hd. eauto 6.
  Qed.
End Pass1.
