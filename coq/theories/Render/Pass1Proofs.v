(* Render/Pass1Proofs.v — the first pass of frame(): the marks, the image-erase
   commands and the list of images to draw satisfy [P1Spec].

   Pass 1 is a fold over all positions in row-major order in which the decision
   taken at a position reads the marks written so far, and marks are
   last-writer-wins.  The invariant below records, for the processed prefix,
   where every Ignored mark comes from, that everything an object of the new
   surface reaches is Ignored unless a changed object overwrote it, and that
   what a changed old object reached is Damaged unless something new covers it. *)
From Coq Require Import List NArith Bool Arith Lia FinFun Sorted.
From SNT Require Import Render.Cell Render.Screen Render.Frame Render.Domain Render.GridLemmas
  Render.ExecProofs Render.Den Render.FrameSpec.
Import ListNotations.

(* ---------- positions ---------- *)
Lemma nodup_app : forall {A} (l1 l2 : list A),
  NoDup l1 -> NoDup l2 -> (forall x, In x l1 -> ~ In x l2) -> NoDup (l1 ++ l2).
Proof.
  induction l1 as [|a l1 IH]; intros l2 H1 H2 Hd; simpl; auto.
  inversion H1; subst. constructor.
  - intros Hin. apply in_app_or in Hin. destruct Hin as [Hin|Hin]; auto. apply (Hd a); simpl; auto.
  - apply IH; auto. intros x Hx. apply Hd. simpl. auto.
Qed.

Lemma nodup_rows : forall w n a,
  NoDup (flat_map (fun r => map (fun c => (r, c)) (seq 0 w)) (seq a n)).
Proof.
  intros w. induction n as [|n IH]; intros a; simpl. constructor.
  apply nodup_app.
  - apply Injective_map_NoDup. intros x y H. inversion H. auto. apply seq_NoDup.
  - apply IH.
  - intros [r c] Hin Hin2. apply in_map_iff in Hin. destruct Hin as (c' & Heq & _). inversion Heq; subst.
    apply in_flat_map in Hin2. destruct Hin2 as (r' & Hr' & Hin2). apply in_seq in Hr'.
    apply in_map_iff in Hin2. destruct Hin2 as (c'' & Heq2 & _). inversion Heq2. lia.
Qed.

Lemma nodup_all_pos : forall h w, NoDup (all_pos h w).
Proof. intros. unfold all_pos. apply nodup_rows. Qed.

Definition pos_mem (l : list (nat * nat)) (r c : nat) : bool :=
  existsb (fun q => Nat.eqb (fst q) r && Nat.eqb (snd q) c) l.

Lemma pos_mem_in : forall l r c, pos_mem l r c = true <-> In (r, c) l.
Proof.
  intros. unfold pos_mem. rewrite existsb_exists. split.
  - intros ([r' c'] & Hin & He). simpl in He. apply andb_true_iff in He.
    rewrite !Nat.eqb_eq in He. destruct He; subst. auto.
  - intros H. exists (r, c). simpl. rewrite !Nat.eqb_refl. auto.
Qed.

Lemma pos_mem_false : forall l r c, pos_mem l r c = false <-> ~ In (r, c) l.
Proof.
  intros. rewrite <- pos_mem_in. destruct (pos_mem l r c); split; intro H; congruence.
Qed.

(* ---------- scan order ---------- *)
Definition before (p q : nat * nat) : Prop := fst p < fst q \/ (fst p = fst q /\ snd p < snd q).

Lemma ss_app : forall {A} (R : A -> A -> Prop) l1 l2,
  StronglySorted R l1 -> StronglySorted R l2 -> (forall x y, In x l1 -> In y l2 -> R x y) ->
  StronglySorted R (l1 ++ l2).
Proof.
  intros A R. induction l1 as [|a l1 IH]; intros l2 H1 H2 H; simpl; auto.
  inversion H1; subst. constructor.
  - apply IH; auto. intros x y Hx Hy. apply H; simpl; auto.
  - apply Forall_app. split; auto. apply Forall_forall. intros y Hy. apply H; simpl; auto.
Qed.

Lemma ss_row : forall r n s, StronglySorted before (map (fun c => (r, c)) (seq s n)).
Proof.
  intros r. induction n as [|n IH]; intros s; simpl; constructor; auto.
  apply Forall_forall. intros [r' c'] Hin. apply in_map_iff in Hin. destruct Hin as (c & Heq & Hc).
  inversion Heq; subst. apply in_seq in Hc. right. simpl. lia.
Qed.

Lemma ss_rows : forall w n a,
  StronglySorted before (flat_map (fun r => map (fun c => (r, c)) (seq 0 w)) (seq a n)).
Proof.
  intros w. induction n as [|n IH]; intros a; simpl. constructor.
  apply ss_app. apply ss_row. apply IH.
  intros [r c] [r' c'] Hx Hy. apply in_map_iff in Hx. destruct Hx as (c1 & Heq & _). inversion Heq; subst.
  apply in_flat_map in Hy. destruct Hy as (r2 & Hr2 & Hy). apply in_seq in Hr2.
  apply in_map_iff in Hy. destruct Hy as (c2 & Heq2 & _). inversion Heq2; subst. left. simpl. lia.
Qed.

Lemma ss_split : forall {A} (R : A -> A -> Prop) l1 q l2,
  StronglySorted R (l1 ++ q :: l2) -> (forall x, In x l1 -> R x q) /\ (forall y, In y l2 -> R q y).
Proof.
  intros A R. induction l1 as [|a l1 IH]; intros q l2 H; simpl in *.
  - inversion H; subst. split; [intros x []|]. intros y Hy. rewrite Forall_forall in H3. auto.
  - inversion H; subst. destruct (IH q l2 H2) as [H4 H5]. split; auto.
    intros x [<-|Hx]; auto. rewrite Forall_forall in H3. apply H3. apply in_or_app. right. left. reflexivity.
Qed.

(* the processed positions are exactly the positions before the one being processed *)
Lemma all_pos_frontier : forall h w l1 q l2,
  all_pos h w = l1 ++ q :: l2 ->
  forall r c, In (r, c) l1 <-> (r < h /\ c < w /\ before (r, c) q).
Proof.
  intros h w l1 q l2 Heq r c.
  pose proof (ss_rows w h 0) as Hss. fold (all_pos h w) in Hss. rewrite Heq in Hss.
  destruct (ss_split before l1 q l2 Hss) as [Hb Ha].
  split.
  - intros Hin. assert (Hall : In (r, c) (all_pos h w)) by (rewrite Heq; apply in_or_app; auto).
    apply in_all_pos in Hall. destruct Hall. auto.
  - intros (Hr & Hc & Hbef).
    assert (Hall : In (r, c) (all_pos h w)) by (apply in_all_pos; auto).
    rewrite Heq in Hall. apply in_app_or in Hall. destruct Hall as [H|[H|H]]; auto.
    + subst q. unfold before in Hbef. simpl in Hbef. lia.
    + apply Ha in H. unfold before in *. simpl in *. lia.
Qed.

Lemma resolve_idem : forall o x, resolve o (resolve o x) = resolve o x.
Proof. intros o [f [ch|i|g]]; reflexivity. Qed.

Section Pass1.
  Variable o : oracle.
  Variables h w : nat.
  Variable u : mark.
  Variables old front : grid cell.
  Let nw := gmap (resolve o) front.
  Hypothesis Gold : Good o h w old.
  Hypothesis GN : Good o h w nw.
  Hypothesis Hfd : gdims front h w.
  Hypothesis Hu : u = MEmpty \/ u = MDamaged.

  Record Inv (done decs : list (nat * nat)) (st : p1) : Prop := {
    i_mdims : gdims (p1_marks st) h w;
    i_fdims : gdims (p1_front st) h w;
    i_front_done : forall r c, In (r, c) done -> gget (p1_front st) r c = gget nw r c;
    i_front_todo : forall r c, ~ In (r, c) done -> gget (p1_front st) r c = gget front r c;
    i_decs : forall q, In q decs -> In q done;
    i_same : forall r c, In (r, c) done -> ~ In (r, c) decs -> gget old r c = gget nw r c;
    i_dec : forall r c, In (r, c) decs ->
            gget old r c <> gget nw r c \/ gget (p1_marks st) r c = Some MDamaged
            \/ exists r1 c1 y, gget nw r1 c1 = Some y /\ shown o nw y r1 c1 = true
                               /\ ext_covers o y r1 c1 r c = true;
    i_ign : forall r c, gget (p1_marks st) r c = Some MIgnored ->
            exists r1 c1 y, In (r1, c1) done /\ gget nw r1 c1 = Some y /\ shown o nw y r1 c1 = true
                            /\ ext_covers o y r1 c1 r c = true;
    i_new : forall r1 c1 y r c, In (r1, c1) done -> gget nw r1 c1 = Some y -> shown o nw y r1 c1 = true ->
            ext_covers o y r1 c1 r c = true -> r < h -> c < w ->
            gget (p1_marks st) r c = Some MIgnored
            \/ (gget (p1_marks st) r c = Some MDamaged /\ In (r1, c1) decs);
    i_hid : forall r1 c1 y, In (r1, c1) done -> gget nw r1 c1 = Some y -> is_wide o y = true ->
            hidden o nw r1 c1 = true -> S c1 < w -> gget (p1_marks st) r1 (S c1) = Some MDamaged;
    (* the cell right behind a shown wide character that has just been processed is Ignored when
       pass 1 reaches it *)
    i_next : forall r c' y, In (r, c') done -> ~ In (r, S c') done -> gget nw r c' = Some y ->
             is_wide o y = true -> hidden o nw r c' = false -> S c' < w ->
             gget (p1_marks st) r (S c') = Some MIgnored;
    i_old : forall r1 c1 y r c, In (r1, c1) decs -> gget old r1 c1 = Some y ->
            ext_covers o y r1 c1 r c = true -> r < h -> c < w ->
            (forall r2 c2 z, gget nw r2 c2 = Some z -> shown o nw z r2 c2 = true ->
                             ext_covers o z r2 c2 r c = false) ->
            gget (p1_marks st) r c = Some MDamaged;
    i_forced : u = MDamaged -> forall r c, r < h -> c < w ->
               gget (p1_marks st) r c = Some MDamaged \/ gget (p1_marks st) r c = Some MIgnored;
    i_cmds : Forall is_erase_at (p1_cmds st)
             /\ forall i r c, In (CImageErase i (Some (r, c))) (p1_cmds st) <->
                              (In (r, c) decs /\ exists x, gget old r c = Some x /\ ckind x = KImg i);
    i_imgs : forall r c f i, In (r, c, f, i) (p1_imgs st) <->
                             (In (r, c) decs
                              /\ exists x, gget nw r c = Some x /\ ckind x = KImg i /\ cface x = f) }.

  Lemma gget_nw : forall r c, gget nw r c = option_map (resolve o) (gget front r c).
  Proof. intros. unfold nw. apply gget_gmap. Qed.

  Lemma inv_init : Inv [] [] (mkp1 (gmake h w u) front [] []).
  Proof.
    constructor; simpl; try tauto.
    - apply gdims_gmake.
    - intros r c Hm. destruct (gget (gmake h w u) r c) eqn:E; [|discriminate].
      apply gget_gmake_inv in E. inversion Hm; subst. destruct Hu; discriminate.
    - intros Hd r c Hr Hc. left. rewrite gget_gmake; auto. congruence.
    - split. constructor. intros. tauto.
  Qed.

  (* two things of one good surface whose extents reach the same cell are the same thing *)
  Lemma ext_unique : forall s, Good o h w s -> forall r1 c1 y1 r2 c2 y2 r c,
    gget s r1 c1 = Some y1 -> gget s r2 c2 = Some y2 -> r < h -> c < w ->
    ext_covers o y1 r1 c1 r c = true -> ext_covers o y2 r2 c2 r c = true -> r1 = r2 /\ c1 = c2.
  Proof.
    intros s G r1 c1 y1 r2 c2 y2 r c H1 H2 Hr Hc E1 E2.
    pose proof (good_cells _ _ _ _ G r1 c1 y1 H1) as G1. pose proof (good_cells _ _ _ _ G r2 c2 y2 H2) as G2.
    destruct (ckind y1) as [ch1|i1|g1] eqn:K1; destruct (ckind y2) as [ch2|i2|g2] eqn:K2;
      try (unfold cell_good in *; rewrite ?K1, ?K2 in *; contradiction).
    - apply (ext_covers_char o y1 ch1) in E1; auto. apply (ext_covers_char o y2 ch2) in E2; auto.
      unfold cell_good in *. rewrite K1 in G1. rewrite K2 in G2. lia.
    - apply (good_disjoint _ _ _ _ G r c r1 c1 r2 c2 y1 y2); auto.
      + eapply ext_covers_occupies; eauto.
      + eapply ext_covers_occupies; eauto.
      + right. exists i2. auto.
    - apply (good_disjoint _ _ _ _ G r c r1 c1 r2 c2 y1 y2); auto.
      + eapply ext_covers_occupies; eauto.
      + eapply ext_covers_occupies; eauto.
      + left. exists i1. auto.
    - apply (good_disjoint _ _ _ _ G r c r1 c1 r2 c2 y1 y2); auto.
      + eapply ext_covers_occupies; eauto.
      + eapply ext_covers_occupies; eauto.
      + left. exists i1. auto.
  Qed.

  (* the cells a wide character of nw would occupy are not reached by the extent of anything else shown *)
  Lemma wide_cells_free : forall r1 c1 y k r2 c2 z,
    gget nw r1 c1 = Some y -> is_wide o y = true -> c1 <= k < c1 + 2 ->
    gget nw r2 c2 = Some z -> shown o nw z r2 c2 = true -> ext_covers o z r2 c2 r1 k = true ->
    r2 = r1 /\ S c2 = k /\ is_wide o z = true /\ hidden o nw r2 c2 = false.
  Proof.
    intros r1 c1 y k r2 c2 z Hy Hwd Hk Hz Hsh He.
    destruct (is_wide_char o y Hwd) as (ch & Ky & Wy).
    pose proof (good_cells _ _ _ _ GN r1 c1 y Hy) as Gy. unfold cell_good in Gy. rewrite Ky in Gy.
    pose proof (good_cells _ _ _ _ GN r2 c2 z Hz) as Gz.
    assert (Hb : r1 < h /\ c1 < w) by (exact (gget_some_bounds nw h w r1 c1 y (good_dims _ _ _ _ GN) Hy)).
    destruct (ckind z) as [chz|iz|gz] eqn:Kz.
    - apply (ext_covers_char o z chz) in He; auto. unfold cell_good in Gz. rewrite Kz in Gz.
      assert (Wz : cw o chz = 2) by lia.
      assert (Hwz : is_wide o z = true) by (unfold is_wide; rewrite Kz, Wz; reflexivity).
      unfold shown in Hsh. rewrite Hwz in Hsh. simpl in Hsh. apply negb_true_iff in Hsh.
      repeat split; auto; lia.
    - exfalso.
      destruct (good_disjoint _ _ _ _ GN r1 k r1 c1 r2 c2 y z) as [-> ->]; auto; try lia.
      + unfold occupies. rewrite Ky. lia.
      + eapply ext_covers_occupies; eauto.
      + right. exists iz. auto.
      + rewrite Hy in Hz. inversion Hz; subst. congruence.
    - unfold cell_good in Gz. rewrite Kz in Gz. contradiction.
  Qed.

  Definition step_mark (chg : bool) (nm : mark) (oldc new : cell) (r0 c0 r c : nat) (v : mark) : mark :=
    if ext_covers o new r0 c0 r c then nm
    else if chg && ext_covers o oldc r0 c0 r c then MDamaged else v.

  Lemma inv_step : forall done decs st r0 c0,
    Inv done decs st ->
    (forall r c, In (r, c) done <-> (r < h /\ c < w /\ before (r, c) (r0, c0))) ->
    r0 < h -> c0 < w ->
    exists decs', Inv (done ++ [(r0, c0)]) decs' (pass1_step o old st (r0, c0)).
  Proof.
    intros done decs st r0 c0 HI Hfront Hr0 Hc0.
    assert (Hnd : ~ In (r0, c0) done).
    { intros Hin. apply Hfront in Hin. destruct Hin as (_ & _ & Hb). unfold before in Hb. simpl in Hb. lia. }
    destruct (gget_in_bounds old h w r0 c0 (good_dims _ _ _ _ Gold) Hr0 Hc0) as (oldc & Ho).
    destruct (gget_in_bounds front h w r0 c0 Hfd Hr0 Hc0) as (new0 & Hn0).
    destruct (gget_in_bounds (p1_marks st) h w r0 c0 (i_mdims _ _ _ HI) Hr0 Hc0) as (mk & Hmk).
    assert (Hf0 : gget (p1_front st) r0 c0 = Some new0) by (rewrite (i_front_todo _ _ _ HI); auto).
    set (new := resolve o new0).
    assert (Hnw : gget nw r0 c0 = Some new) by (rewrite gget_nw, Hn0; reflexivity).
    assert (Hgo : cell_good o w c0 oldc) by (eapply (good_cells _ _ _ _ Gold); eauto).
    assert (Hgn : cell_good o w c0 new) by (eapply (good_cells _ _ _ _ GN); eauto).
    unfold pass1_step. rewrite Ho, Hf0. fold new. rewrite Hmk.
    set (hidq := is_ignored (Some mk) && is_char new).
    set (nm := if hidq then MDamaged else MIgnored).
    set (same := cell_eqb oldc new && negb (is_damaged (Some mk))).
    set (chg := negb same).
    (* the decision "hidden" taken from the mark is the semantic one *)
    assert (Hhid : is_wide o new = true -> hidq = hidden o nw r0 c0).
    { intros Hwd. destruct (is_wide_char o new Hwd) as (chn & Kn & Wn).
      assert (Hic : is_char new = true) by (unfold is_char; rewrite Kn; reflexivity).
      unfold hidq. rewrite Hic, andb_true_r.
      destruct (hidden o nw r0 c0) eqn:Eh.
      - (* hidden: the shown wide character on the left has just marked this cell *)
        assert (Hlw : left_wide o nw r0 c0 <> None) by (intros H; apply left_wide_hidden in H; congruence).
        destruct (left_wide o nw r0 c0) as [f|] eqn:El; [|congruence].
        apply left_wide_some in El. destruct El as (c' & y & -> & Hy & Hwy & Hhy & _).
        assert (Hdone : In (r0, c') done).
        { apply Hfront. repeat split; auto; try lia. right. simpl. lia. }
        rewrite (i_next _ _ _ HI r0 c' y Hdone Hnd Hy Hwy Hhy Hc0) in Hmk. inversion Hmk. reflexivity.
      - destruct mk; auto. exfalso.
        destruct (i_ign _ _ _ HI r0 c0 Hmk) as (r1 & c1 & z & _ & Hz & Hsh & He).
        destruct (wide_cells_free r0 c0 new c0 r1 c1 z Hnw Hwd ltac:(lia) Hz Hsh He) as (-> & <- & Hwz & Hhz).
        destruct (hidden_S o nw r0 c1 z Hz Hwz Hhz) as [Hh' _]. congruence. }
    assert (Hshown_nm : shown o nw new r0 c0 = true -> nm = MIgnored \/ forall r c, ext_covers o new r0 c0 r c = false).
    { intros Hsh. unfold shown in Hsh. destruct (is_wide o new) eqn:Ew.
      - left. simpl in Hsh. apply negb_true_iff in Hsh. unfold nm. rewrite (Hhid eq_refl), Hsh. reflexivity.
      - destruct (ckind new) as [ch|i|g] eqn:Kn.
        + right. intros r c. destruct (ext_covers o new r0 c0 r c) eqn:E; auto.
          apply (ext_covers_char o new ch) in E; auto. unfold cell_good in Hgn. rewrite Kn in Hgn.
          unfold is_wide in Ew. rewrite Kn in Ew. apply Nat.eqb_neq in Ew. lia.
        + left. unfold nm, hidq, is_char. rewrite Kn, andb_false_r. reflexivity.
        + unfold cell_good in Hgn. rewrite Kn in Hgn. contradiction. }
    assert (Hnm_ign : nm = MIgnored -> shown o nw new r0 c0 = true).
    { intros Hn. unfold shown. destruct (is_wide o new) eqn:Ew; auto. simpl.
      unfold nm in Hn. rewrite (Hhid eq_refl) in Hn. destruct (hidden o nw r0 c0); [discriminate|reflexivity]. }
    (* the resulting marks *)
    set (marks' := fill_extent o (if chg then fill_extent o (p1_marks st) oldc r0 c0 MDamaged else p1_marks st)
                               new r0 c0 nm).
    assert (Hmarks : forall r c, gget marks' r c =
                                 option_map (step_mark chg nm oldc new r0 c0 r c) (gget (p1_marks st) r c)).
    { intros r c. unfold marks', step_mark. rewrite fill_extent_gget.
      destruct chg; simpl.
      - rewrite fill_extent_gget. destruct (gget (p1_marks st) r c); simpl; auto.
      - destruct (gget (p1_marks st) r c); simpl; auto. }
    assert (Hmd : gdims marks' h w).
    { unfold marks'. apply gdims_fill_extent. destruct chg; [apply gdims_fill_extent|]; apply HI. }
    set (front' := gset (p1_front st) r0 c0 new).
    assert (Hfront_q : gget front' r0 c0 = Some new).
    { unfold front'. rewrite gget_gset, !Nat.eqb_refl. simpl. rewrite Hf0. reflexivity. }
    assert (Hfront_o : forall r c, (r, c) <> (r0, c0) -> gget front' r c = gget (p1_front st) r c).
    { intros r c Hne. unfold front'. rewrite gget_gset.
      destruct (Nat.eqb_spec r r0); destruct (Nat.eqb_spec c c0); simpl; auto. subst. congruence. }
    assert (Hchg_true : chg = true -> oldc <> new \/ mk = MDamaged).
    { unfold chg, same. rewrite negb_true_iff, andb_false_iff, negb_false_iff.
      intros [H|H].
      - left. intros Heq. apply cell_eqb_eq in Heq. congruence.
      - right. unfold is_damaged in H. destruct mk; try discriminate. reflexivity. }
    assert (Hchg_false : chg = false -> oldc = new).
    { unfold chg, same. rewrite negb_false_iff, andb_true_iff. intros [H _]. apply cell_eqb_eq. exact H. }
    set (decs' := if chg then (r0, c0) :: decs else decs).
    assert (Hdecs_mono : forall q, In q decs -> In q decs').
    { intros q Hq. unfold decs'. destruct chg; simpl; auto. }
    assert (Hdecs_inv : forall q, In q decs' -> In q decs \/ (chg = true /\ q = (r0, c0))).
    { intros q Hq. unfold decs' in Hq. destruct chg; simpl in *; auto. destruct Hq; auto. }
    set (cmds' := match ckind oldc with
                  | KImg i => CImageErase i (Some (r0, c0)) :: p1_cmds st
                  | _ => p1_cmds st end).
    set (imgs' := match ckind new with
                  | KImg i => (r0, c0, cface new, i) :: p1_imgs st
                  | _ => p1_imgs st end).
    set (st' := if chg then mkp1 marks' front' cmds' imgs'
                else mkp1 marks' front' (p1_cmds st) (p1_imgs st)).
    assert (Hst : (if same
                   then mkp1 (fill_extent o (p1_marks st) new r0 c0 nm) front' (p1_cmds st) (p1_imgs st)
                   else mkp1 (fill_extent o (fill_extent o (p1_marks st) oldc r0 c0 MDamaged) new r0 c0 nm)
                             front' cmds' imgs') = st').
    { unfold st', marks', chg. destruct same; reflexivity. }
    fold front'. fold cmds'. fold imgs'. fold hidq. fold nm. fold same. rewrite Hst.
    assert (Hm' : p1_marks st' = marks') by (unfold st'; destruct chg; reflexivity).
    assert (Hf' : p1_front st' = front') by (unfold st'; destruct chg; reflexivity).
    exists decs'.
    assert (Hin_app : forall q, In q (done ++ [(r0, c0)]) <-> In q done \/ q = (r0, c0)).
    { intros q. rewrite in_app_iff. simpl. intuition. }
    constructor.
    - rewrite Hm'. exact Hmd.
    - rewrite Hf'. unfold front'. apply gdims_gset. apply HI.
    - intros r c Hin. rewrite Hf'. apply Hin_app in Hin. destruct Hin as [Hin|Heq].
      + rewrite Hfront_o by (intros Heq; inversion Heq; subst; contradiction).
        apply (i_front_done _ _ _ HI); auto.
      + inversion Heq; subst. rewrite Hfront_q. auto.
    - intros r c Hin. rewrite Hf'.
      assert (Hne : (r, c) <> (r0, c0)) by (intros Heq; apply Hin; apply Hin_app; auto).
      rewrite Hfront_o by auto. apply (i_front_todo _ _ _ HI).
      intros Hd. apply Hin. apply Hin_app. auto.
    - intros q Hq. apply Hin_app. apply Hdecs_inv in Hq. destruct Hq as [Hq|[_ ->]]; auto.
      left. apply (i_decs _ _ _ HI); auto.
    - intros r c Hin Hnd'. apply Hin_app in Hin. destruct Hin as [Hin|Heq].
      + apply (i_same _ _ _ HI); auto.
      + inversion Heq; subst. rewrite Ho, Hnw. f_equal. apply Hchg_false.
        destruct (Bool.bool_dec chg true) as [E|E]; [|apply not_true_is_false in E; auto].
        exfalso. apply Hnd'. unfold decs'. rewrite E. left. reflexivity.
    - (* i_dec *)
      intros r c Hin. rewrite Hm', Hmarks.
      assert (Hkeep : forall v, v = MDamaged ->
                step_mark chg nm oldc new r0 c0 r c v = MDamaged
                \/ exists r1 c1 y, gget nw r1 c1 = Some y /\ shown o nw y r1 c1 = true
                                   /\ ext_covers o y r1 c1 r c = true).
      { intros v ->. unfold step_mark.
        destruct (ext_covers o new r0 c0 r c) eqn:E1.
        - destruct nm eqn:En; auto.
          + exfalso. unfold nm in En. destruct hidq; discriminate.
          + right. exists r0, c0, new. auto.
        - destruct (chg && ext_covers o oldc r0 c0 r c); auto. }
      apply Hdecs_inv in Hin. destruct Hin as [Hin|[Hc Heq]].
      + destruct (i_dec _ _ _ HI r c Hin) as [H|[H|H]]; auto.
        rewrite H. simpl. destruct (Hkeep MDamaged eq_refl) as [Hk|Hk]; [rewrite Hk|]; auto.
      + inversion Heq; subst r c. destruct (Hchg_true Hc) as [H|H].
        * left. rewrite Ho, Hnw. congruence.
        * subst mk. rewrite Hmk. simpl. destruct (Hkeep MDamaged eq_refl) as [Hk|Hk]; [rewrite Hk|]; auto.
    - (* i_ign *)
      intros r c. rewrite Hm', Hmarks.
      destruct (gget (p1_marks st) r c) as [v|] eqn:Ev; [|discriminate]. simpl. unfold step_mark.
      destruct (ext_covers o new r0 c0 r c) eqn:E1.
      + intros H. inversion H as [Hn]. exists r0, c0, new. split; [apply Hin_app; auto|]. auto.
      + destruct (chg && ext_covers o oldc r0 c0 r c); [discriminate|].
        intros H. inversion H; subst.
        destruct (i_ign _ _ _ HI r c Ev) as (r1 & c1 & y & Hd & Hy & Hsh & He).
        exists r1, c1, y. split; [apply Hin_app; auto|]. auto.
    - (* i_new *)
      intros r1 c1 y r c Hin Hy Hsh He Hr Hc. rewrite Hm', Hmarks.
      destruct (gget_in_bounds (p1_marks st) h w r c (i_mdims _ _ _ HI) Hr Hc) as (v & Hv).
      rewrite Hv. simpl. unfold step_mark.
      apply Hin_app in Hin. destruct Hin as [Hin|Heq].
      2:{ inversion Heq; subst r1 c1. rewrite Hnw in Hy. inversion Hy; subst y. rewrite He.
          destruct (Hshown_nm Hsh) as [->|Hno]; auto. rewrite Hno in He. discriminate. }
      destruct (ext_covers o new r0 c0 r c) eqn:E1.
      { (* the new cell reaches the same cell as an earlier shown object: impossible unless it is Ignored *)
        destruct nm eqn:En; auto.
        - exfalso. unfold nm in En. destruct hidq; discriminate.
        - exfalso.
          destruct (ext_unique nw GN r1 c1 y r0 c0 new r c Hy Hnw Hr Hc He E1) as [-> ->]. contradiction. }
      destruct (i_new _ _ _ HI r1 c1 y r c Hin Hy Hsh He Hr Hc) as [H|[H1 H2]].
      + rewrite Hv in H. inversion H; subst v.
        destruct (chg && ext_covers o oldc r0 c0 r c) eqn:E2; auto.
        right. split; auto. apply andb_true_iff in E2. destruct E2 as [Ec Eo].
        destruct (pos_mem decs r1 c1) eqn:Em; [apply pos_mem_in in Em; auto|].
        apply pos_mem_false in Em. exfalso.
        pose proof (i_same _ _ _ HI r1 c1 Hin Em) as Hsame. rewrite Hy in Hsame.
        destruct (ext_unique old Gold r1 c1 y r0 c0 oldc r c Hsame Ho Hr Hc He Eo) as [-> ->]. contradiction.
      + rewrite Hv in H1. inversion H1; subst v.
        destruct (chg && ext_covers o oldc r0 c0 r c); auto.
    - (* i_hid *)
      intros r1 c1 y Hin Hy Hwy Hhy Hfit. rewrite Hm', Hmarks.
      assert (Hb1 : r1 < h /\ c1 < w) by (exact (gget_some_bounds nw h w r1 c1 y (good_dims _ _ _ _ GN) Hy)).
      destruct (gget_in_bounds (p1_marks st) h w r1 (S c1) (i_mdims _ _ _ HI) (proj1 Hb1) Hfit) as (v & Hv).
      rewrite Hv. simpl. unfold step_mark.
      apply Hin_app in Hin. destruct Hin as [Hin|Heq].
      + pose proof (i_hid _ _ _ HI r1 c1 y Hin Hy Hwy Hhy Hfit) as H. rewrite Hv in H. inversion H; subst v.
        destruct (ext_covers o new r0 c0 r1 (S c1)) eqn:E1.
        * destruct nm eqn:En; auto.
          -- exfalso. unfold nm in En. destruct hidq; discriminate.
          -- exfalso. pose proof (Hnm_ign eq_refl) as Hshn.
             destruct (wide_cells_free r1 c1 y (S c1) r0 c0 new Hy Hwy ltac:(lia) Hnw Hshn E1) as (-> & Hc' & _ & _).
             inversion Hc'; subst. contradiction.
        * destruct (chg && ext_covers o oldc r0 c0 r1 (S c1)); auto.
      + inversion Heq; subst r1 c1. rewrite Hnw in Hy. inversion Hy; subst y.
        destruct (is_wide_char o new Hwy) as (chn & Kn & Wn).
        assert (E1 : ext_covers o new r0 c0 r0 (S c0) = true) by (apply (ext_covers_char o new chn); auto; lia).
        rewrite E1. unfold nm. rewrite (Hhid Hwy), Hhy. reflexivity.
    - (* i_next *)
      intros r c' y Hin Hnin Hy Hwy Hhy Hfit. rewrite Hm', Hmarks.
      assert (Hb1 : r < h /\ c' < w) by (exact (gget_some_bounds nw h w r c' y (good_dims _ _ _ _ GN) Hy)).
      assert (Hq : (r, c') = (r0, c0)).
      { apply Hin_app in Hin. destruct Hin as [Hin|Heq]; auto. exfalso.
        apply Hfront in Hin. destruct Hin as (_ & _ & Hbef). unfold before in Hbef. simpl in Hbef.
        apply Hnin. apply Hin_app.
        destruct (Nat.eq_dec r r0) as [->|Hne].
        - destruct (Nat.eq_dec (S c') c0) as [<-|Hne2]; auto.
          left. apply Hfront. repeat split; auto; try lia. right. simpl. lia.
        - left. apply Hfront. repeat split; auto; try lia. left. simpl. lia. }
      inversion Hq; subst r c'. rewrite Hnw in Hy. inversion Hy; subst y.
      destruct (gget_in_bounds (p1_marks st) h w r0 (S c0) (i_mdims _ _ _ HI) Hr0 Hfit) as (v & Hv).
      rewrite Hv. simpl. unfold step_mark.
      destruct (is_wide_char o new Hwy) as (chn & Kn & Wn).
      assert (E1 : ext_covers o new r0 c0 r0 (S c0) = true) by (apply (ext_covers_char o new chn); auto; lia).
      rewrite E1. unfold nm. rewrite (Hhid Hwy), Hhy. reflexivity.
    - (* i_old *)
      intros r1 c1 y r c Hin Hy He Hr Hc Hnone. rewrite Hm', Hmarks.
      destruct (gget_in_bounds (p1_marks st) h w r c (i_mdims _ _ _ HI) Hr Hc) as (v & Hv).
      rewrite Hv. simpl. unfold step_mark.
      assert (Hnew : ext_covers o new r0 c0 r c = true -> nm = MDamaged).
      { intros E. destruct nm eqn:En; auto.
        - exfalso. unfold nm in En. destruct hidq; discriminate.
        - exfalso. rewrite (Hnone r0 c0 new Hnw (Hnm_ign eq_refl)) in E. discriminate. }
      apply Hdecs_inv in Hin. destruct Hin as [Hin|[Hc' Heq]].
      + pose proof (i_old _ _ _ HI r1 c1 y r c Hin Hy He Hr Hc Hnone) as H.
        rewrite Hv in H. inversion H; subst v.
        destruct (ext_covers o new r0 c0 r c) eqn:E1; [rewrite (Hnew eq_refl); reflexivity|].
        destruct (chg && ext_covers o oldc r0 c0 r c); auto.
      + inversion Heq; subst r1 c1. rewrite Ho in Hy. inversion Hy; subst y.
        destruct (ext_covers o new r0 c0 r c) eqn:E1; [rewrite (Hnew eq_refl); reflexivity|].
        rewrite Hc', He. reflexivity.
    - (* i_forced *)
      intros Hd r c Hr Hc. rewrite Hm', Hmarks.
      destruct (gget_in_bounds (p1_marks st) h w r c (i_mdims _ _ _ HI) Hr Hc) as (v & Hv).
      rewrite Hv. simpl. unfold step_mark.
      destruct (ext_covers o new r0 c0 r c).
      { unfold nm. destruct hidq; auto. }
      destruct (chg && ext_covers o oldc r0 c0 r c); auto.
      destruct (i_forced _ _ _ HI Hd r c Hr Hc) as [H|H]; rewrite Hv in H; inversion H; auto.
    - (* i_cmds *)
      destruct (i_cmds _ _ _ HI) as [Hall Hiff].
      unfold st', decs'. destruct chg eqn:Ec; simpl; [|split; auto].
      assert (Hskip : forall i, ckind oldc <> KImg i ->
                forall r c, (In (r, c) decs /\ (exists x, gget old r c = Some x /\ ckind x = KImg i)) <->
                            (((r0, c0) = (r, c) \/ In (r, c) decs)
                             /\ (exists x, gget old r c = Some x /\ ckind x = KImg i))).
      { intros i Hk r c. split.
        - intros [H1 H2]. split; [right; exact H1|exact H2].
        - intros [[Heq|H1] H2]; [|split; assumption]. exfalso.
          inversion Heq; subst. destruct H2 as (x & Hx & Hkx). rewrite Ho in Hx. inversion Hx; subst. congruence. }
      unfold cmds'. destruct (ckind oldc) as [ch|i0|g] eqn:Ek.
      + split; auto. intros i r c. rewrite Hiff. apply Hskip. discriminate.
      + split.
        * constructor; auto. exists i0, r0, c0. reflexivity.
        * intros i r c. simpl. rewrite Hiff. split.
          -- intros [Heq|[H1 H2]]; [|split; [right; exact H1|exact H2]].
             inversion Heq; subst. split; [left; reflexivity|]. exists oldc. auto.
          -- intros [[Heq|H1] H2]; [|right; split; assumption].
             inversion Heq; subst. destruct H2 as (x & Hx & Hkx). rewrite Ho in Hx. inversion Hx; subst.
             rewrite Ek in Hkx. inversion Hkx; subst. left. reflexivity.
      + split; auto. intros i r c. rewrite Hiff. apply Hskip. discriminate.
    - (* i_imgs *)
      pose proof (i_imgs _ _ _ HI) as Hiff.
      unfold st', decs'. destruct chg eqn:Ec; simpl; auto.
      assert (Hskip : forall i f, ckind new <> KImg i ->
                forall r c, (In (r, c) decs /\ (exists x, gget nw r c = Some x /\ ckind x = KImg i /\ cface x = f)) <->
                            (((r0, c0) = (r, c) \/ In (r, c) decs)
                             /\ (exists x, gget nw r c = Some x /\ ckind x = KImg i /\ cface x = f))).
      { intros i f Hk r c. split.
        - intros [H1 H2]. split; [right; exact H1|exact H2].
        - intros [[Heq|H1] H2]; [|split; assumption]. exfalso.
          inversion Heq; subst. destruct H2 as (x & Hx & Hkx & _). rewrite Hnw in Hx. inversion Hx; subst. congruence. }
      unfold imgs'. destruct (ckind new) as [ch|i0|g] eqn:Ek.
      + intros r c f i. rewrite Hiff. apply Hskip. discriminate.
      + intros r c f i. simpl. rewrite Hiff. split.
        * intros [Heq|[H1 H2]]; [|split; [right; exact H1|exact H2]].
          inversion Heq; subst. split; [left; reflexivity|]. exists new. auto.
        * intros [[Heq|H1] H2]; [|right; split; assumption].
          inversion Heq; subst. destruct H2 as (x & Hx & Hkx & Hfx). rewrite Hnw in Hx. inversion Hx; subst.
          rewrite Ek in Hkx. inversion Hkx; subst. left. reflexivity.
      + intros r c f i. rewrite Hiff. apply Hskip. discriminate.
  Qed.

  Lemma inv_fold : forall todo done decs st,
    Inv done decs st -> all_pos h w = done ++ todo ->
    exists decs', Inv (done ++ todo) decs' (fold_left (pass1_step o old) todo st).
  Proof.
    induction todo as [|[r0 c0] todo IH]; intros done decs st HI Heq.
    - rewrite app_nil_r. simpl. eauto.
    - simpl.
      assert (Hb : r0 < h /\ c0 < w).
      { apply in_all_pos. rewrite Heq. apply in_or_app. right. left. reflexivity. }
      destruct (inv_step done decs st r0 c0 HI (all_pos_frontier h w done (r0, c0) todo Heq) (proj1 Hb) (proj2 Hb))
        as (decs1 & HI1).
      replace (done ++ (r0, c0) :: todo) with ((done ++ [(r0, c0)]) ++ todo) in *
        by (rewrite <- app_assoc; reflexivity).
      apply (IH _ decs1); auto.
  Qed.

  Theorem pass1_spec :
    let st := pass1 o (mkrstate h w front old (gmake h w u)) in
    p1_front st = nw
    /\ exists dec, P1Spec o h w u old nw (p1_marks st) dec (rev (p1_cmds st)) (rev (p1_imgs st)).
  Proof.
    cbv zeta. unfold pass1. cbn [marks Frame.front back rh rw].
    destruct (inv_fold (all_pos h w) [] [] _ inv_init eq_refl) as (decs & HI).
    simpl in HI. set (st := fold_left _ _ _) in *.
    assert (Hdone : forall r c, r < h -> c < w -> In (r, c) (all_pos h w)) by (intros; apply in_all_pos; auto).
    assert (Hbn : forall r c y, gget nw r c = Some y -> In (r, c) (all_pos h w)).
    { intros r c y Hy. destruct (gget_some_bounds nw h w r c y (good_dims _ _ _ _ GN) Hy). auto. }
    split.
    - apply (grid_ext _ _ h w). apply HI. unfold nw. apply gdims_gmap. exact Hfd.
      intros r c Hr Hc. apply (i_front_done _ _ _ HI). auto.
    - exists (pos_mem decs). constructor.
      + apply HI.
      + intros r c Hr Hc Hd. apply pos_mem_false in Hd. apply (i_same _ _ _ HI); auto.
      + intros r c Hr Hc Hd. apply pos_mem_in in Hd. apply (i_dec _ _ _ HI); auto.
      + intros r c Hm. destruct (i_ign _ _ _ HI r c Hm) as (r1 & c1 & y & _ & H). eauto.
      + intros r1 c1 y r c Hy Hsh He Hr Hc.
        destruct (i_new _ _ _ HI r1 c1 y r c (Hbn _ _ _ Hy) Hy Hsh He Hr Hc) as [H|[H1 H2]]; auto.
        right. split; auto. apply pos_mem_in. auto.
      + intros r1 c1 y Hy Hwy Hhy Hfit. apply (i_hid _ _ _ HI r1 c1 y); auto. eapply Hbn; eauto.
      + intros r1 c1 y r c Hy Hd He Hr Hc Hnone. apply pos_mem_in in Hd.
        apply (i_old _ _ _ HI r1 c1 y r c); auto.
      + apply (i_forced _ _ _ HI).
      + destruct (i_cmds _ _ _ HI) as [Hall Hiff]. split.
        * apply Forall_rev. exact Hall.
        * intros i r c. rewrite <- in_rev, Hiff. split.
          -- intros [H1 (x & Hx & Hk)]. apply pos_mem_in in H1. eauto.
          -- intros (x & Hx & Hk & Hd). apply pos_mem_in in Hd. eauto.
      + intros r c f i. rewrite <- in_rev, (i_imgs _ _ _ HI). split.
        * intros [H1 (x & Hx & Hk & Hf)]. apply pos_mem_in in H1. eauto 6.
        * intros (x & Hx & Hk & Hf & Hd). apply pos_mem_in in Hd. eauto 6.
  Qed.
End Pass1.
