(* Text::layout and Text::render agree: rendering into a surface of the measured size (or
   any width between the measured width and the available width, any height at least the
   measured height) places every cell the measuring run gave a position to, at that
   position; positions are pairwise distinct and increase in reading order, so no cell is
   overwritten, and nothing else in the window changes its kind. *)
From Coq Require Import List Arith Bool NArith ZArith Lia Sorting.Sorted.
From SNT Require Import Base.Outcome Surface.Bounds Surface.Shape Render.CellLayout Render.Writer
  Render.WriterFrame Render.LayoutFacts.
Import ListNotations.
Local Arguments Nat.modulo : simpl never.
Local Arguments Nat.sub : simpl never.
Local Arguments Nat.min : simpl never.
Local Arguments Nat.max : simpl never.
Local Arguments Nat.add : simpl never.

Definition lcells (ctx : rctx) (cs : list ccell) : list lcell := map (fun c => classify ctx (c_kind c)) cs.

(* offsets of distinct cells of the view are distinct *)
Definition Injective (sh : shape) : Prop :=
  forall r c r' c', r < sh_height sh -> c < sh_width sh -> r' < sh_height sh -> c' < sh_width sh ->
    offset sh r c = offset sh r' c' -> r = r' /\ c = c'.

(* ---------- kinds written by a sequence of placements ---------- *)
Definition kupd (sh : shape) (ks : list kind) (p : option (nat * nat)) (k : kind) : list kind :=
  match p with Some (r, c) => list_upd ks (offset sh r c) k | None => ks end.

Fixpoint kapply (sh : shape) (ks : list kind) (ps : list (option (nat * nat))) (cs : list ccell) : list kind :=
  match ps, cs with
  | p :: pt, c :: ct => kapply sh (kupd sh ks p (c_kind c)) pt ct
  | _, _ => ks
  end.

Lemma kupd_length sh ks p k : length (kupd sh ks p k) = length ks.
Proof. destruct p as [[r c]|]; cbn; [apply list_upd_length|reflexivity]. Qed.

Lemma kapply_length sh ps : forall ks cs, length (kapply sh ks ps cs) = length ks.
Proof.
  induction ps as [|p pt IH]; intros ks [|c ct]; cbn [kapply]; auto. rewrite IH. apply kupd_length.
Qed.

Lemma kapply_other sh k ps : forall ks cs,
  (forall r c, In (Some (r, c)) ps -> offset sh r c <> k) ->
  nth_error (kapply sh ks ps cs) k = nth_error ks k.
Proof.
  induction ps as [|p pt IH]; intros ks [|c ct] Hne; cbn [kapply]; auto.
  rewrite IH by (intros; apply Hne; now right).
  destruct p as [[r cc]|]; cbn [kupd]; auto.
  apply nth_error_list_upd_other. apply Hne. now left.
Qed.

(* the placements as a list of (position, cell) *)
Fixpoint placements (ps : list (option (nat * nat))) (cs : list ccell) : list ((nat * nat) * ccell) :=
  match ps, cs with
  | Some p :: pt, c :: ct => (p, c) :: placements pt ct
  | None :: pt, _ :: ct => placements pt ct
  | _, _ => []
  end.

Lemma placements_fst ps : forall cs, length ps = length cs -> map fst (placements ps cs) = somes ps.
Proof.
  induction ps as [|p pt IH]; intros [|c ct] Hl; cbn in *; try discriminate; auto.
  destruct p; cbn; rewrite IH by lia; reflexivity.
Qed.

Lemma kapply_at sh ps : forall ks cs p c,
  length ps = length cs ->
  NoDup (map (fun q => offset sh (fst q) (snd q)) (somes ps)) ->
  (forall q, In q (somes ps) -> offset sh (fst q) (snd q) < length ks) ->
  In (p, c) (placements ps cs) ->
  nth_error (kapply sh ks ps cs) (offset sh (fst p) (snd p)) = Some (c_kind c).
Proof.
  induction ps as [|p0 pt IH]; intros ks [|c0 ct] p c Hl Hnd Hlt Hin; cbn in *; try contradiction; try discriminate.
  destruct p0 as [[r0 cc0]|].
  - cbn [somes map] in Hnd. apply NoDup_cons_iff in Hnd as [Hnotin Hnd].
    destruct Hin as [[= <- <-]|Hin].
    + cbn [fst snd]. rewrite kapply_other.
      * cbn [kupd]. apply nth_error_list_upd_same. apply (Hlt (r0, cc0)). now left.
      * intros r c Hrc E. apply Hnotin. apply in_map_iff. exists (r, c). split; [exact E|].
        clear -Hrc. induction pt as [|[q|] t IHt]; cbn in *; [contradiction| |].
        -- destruct Hrc as [[= ->]|H]; [now left|right; auto].
        -- destruct Hrc as [H|H]; [discriminate|auto].
    + apply IH; auto; try lia.
      intros q Hq. rewrite kupd_length. apply Hlt. now right.
  - apply IH; auto; try lia.
Qed.

(* ---------- one put follows one layout step ---------- *)
Lemma put_simple_placed ctx st c l' pos :
  InBounds (w_sh st) (length (w_data st)) ->
  layout_step (sh_width (w_sh st)) (w_wraps st) (w_l st) (classify ctx (c_kind c)) = (l', pos) ->
  (forall r cc, pos = Some (r, cc) -> r < sh_height (w_sh st) /\ cc < sh_width (w_sh st)) ->
  exists st', put_simple ctx st c = Ok (st', true) /\ w_l st' = l' /\ w_sh st' = w_sh st /\
    w_wraps st' = w_wraps st /\ length (w_data st') = length (w_data st) /\
    kinds (w_data st') = kupd (w_sh st) (kinds (w_data st)) pos (c_kind c).
Proof.
  intros Hb Hl Hin. unfold put_simple. rewrite Hl.
  destruct pos as [[r cc]|].
  - destruct (Hin r cc eq_refl) as [Hr Hc].
    assert (Hout : (sh_height (w_sh st) <=? r) || (sh_width (w_sh st) <=? cc) = false).
    { apply orb_false_iff. split; apply Nat.leb_gt; assumption. }
    rewrite Hout.
    destruct (nth_error (w_data st) (offset (w_sh st) r cc)) as [old|] eqn:Hn.
    + eexists. split; [reflexivity|]. cbn. repeat split; auto.
      * apply list_upd_length.
      * unfold kinds. rewrite map_list_upd. reflexivity.
    + exfalso. apply nth_error_None in Hn. specialize (Hb r cc Hr Hc). lia.
  - destruct ((l_r (w_l st) =? l_r l') && (l_c (w_l st) =? l_c l')).
    + eexists. split; [reflexivity|]. cbn. repeat split; auto.
    + destruct (face_fill_spec (w_sh st) (w_data st) (overlay (w_face st) (c_face c))
                  (l_r (w_l st)) (l_c (w_l st)) (l_r l') (l_c l')) as [F1 F2].
      destruct (F2 Hb) as [d Hd]. rewrite Hd. destruct (F1 d Hd) as [[Hlen _] Hk].
      eexists. split; [reflexivity|]. cbn. repeat split; auto.
Qed.

(* ---------- a sequence of puts follows the run ---------- *)
Lemma put_all_placed ctx cs : forall st,
  InBounds (w_sh st) (length (w_data st)) ->
  (forall r cc, In (Some (r, cc)) (snd (lrun (sh_width (w_sh st)) (w_wraps st) (w_l st) (lcells ctx cs))) ->
     r < sh_height (w_sh st) /\ cc < sh_width (w_sh st)) ->
  exists st', put_all ctx st cs = Ok (st', true) /\
    w_l st' = fst (lrun (sh_width (w_sh st)) (w_wraps st) (w_l st) (lcells ctx cs)) /\
    w_sh st' = w_sh st /\ w_wraps st' = w_wraps st /\ length (w_data st') = length (w_data st) /\
    kinds (w_data st') =
      kapply (w_sh st) (kinds (w_data st)) (snd (lrun (sh_width (w_sh st)) (w_wraps st) (w_l st) (lcells ctx cs))) cs.
Proof.
  induction cs as [|c t IH]; intros st Hb Hin.
  - exists st. cbn. repeat split; auto.
  - unfold lcells in *. cbn [map] in *. rewrite lrun_cons in Hin. cbn [snd] in Hin. rewrite lrun_cons. cbn [fst snd].
    destruct (layout_step (sh_width (w_sh st)) (w_wraps st) (w_l st) (classify ctx (c_kind c))) as [l1 p] eqn:H1.
    cbn [fst snd] in *.
    destruct (put_simple_placed ctx st c l1 p Hb H1) as (st1 & P1 & L1 & S1 & W1 & N1 & K1).
    { intros r cc ->. apply Hin. now left. }
    assert (Hb1 : InBounds (w_sh st1) (length (w_data st1))) by (rewrite S1, N1; exact Hb).
    destruct (IH st1 Hb1) as (st2 & P2 & L2 & S2 & W2 & N2 & K2).
    { rewrite S1, W1, L1. intros r cc Hrc. apply Hin. now right. }
    exists st2. cbn [put_all]. rewrite P1. split; [exact P2|].
    rewrite S1, W1, L1 in *. repeat split; auto; try congruence.
    cbn [kapply]. rewrite K2, K1. reflexivity.
Qed.

(* put_cell is put_all over the expansion, as long as nothing reports "out of space" *)
Lemma put_all_app ctx a b : forall st,
  put_all ctx st (a ++ b) =
  match put_all ctx st a with
  | Ok (st1, true) => put_all ctx st1 b
  | other => other
  end.
Proof.
  induction a as [|c t IH]; intros st; cbn [app put_all]; [reflexivity|].
  destruct (put_simple ctx st c) as [[st1 [|]]| | |]; auto.
Qed.

Lemma put_cell_expand ctx st c st' : put_all ctx st (expand1 ctx c) = Ok (st', true) -> put_cell ctx st c = Ok (st', true).
Proof.
  unfold put_cell, expand1. destruct (c_kind c) as [ch|id h w fb|id h w].
  - cbn [put_all]. destruct (put_simple ctx st c) as [[st1 [|]]| | |]; try discriminate. auto.
  - destruct (has_glyphs ctx); auto.
    cbn [put_all]. destruct (put_simple ctx st c) as [[st1 [|]]| | |]; try discriminate. auto.
  - cbn [put_all]. destruct (put_simple ctx st c) as [[st1 [|]]| | |]; try discriminate. auto.
Qed.

Lemma put_cells_expand ctx cells : forall st st',
  put_all ctx st (expand ctx cells) = Ok (st', true) -> put_cells ctx st cells = Ok st'.
Proof.
  induction cells as [|c t IH]; intros st st'; cbn [expand flat_map put_cells put_all].
  - intros [= <-]. reflexivity.
  - fold (expand ctx t). rewrite put_all_app.
    destruct (put_all ctx st (expand1 ctx c)) as [[st1 [|]]| | |] eqn:H1; try discriminate.
    intros H2. rewrite (put_cell_expand _ _ _ _ H1). apply IH, H2.
Qed.

(* ---------- the agreement of measuring and writing ---------- *)
Definition Good (sh : shape) (len : nat) : Prop := InBounds sh len /\ Injective sh.

Lemma sorted_nodup (l : list (nat * nat)) : StronglySorted lt_pos l -> NoDup l.
Proof.
  induction 1 as [|q t Hs IH Hf]; constructor; auto.
  intros Hin. rewrite Forall_forall in Hf. exact (lt_pos_irrefl q (Hf q Hin)).
Qed.

Lemma offsets_nodup sh (l : list (nat * nat)) hn wn :
  Injective sh -> hn <= sh_height sh -> wn <= sh_width sh ->
  Forall (fun p => fst p < hn /\ snd p < wn) l -> NoDup l ->
  NoDup (map (fun q => offset sh (fst q) (snd q)) l).
Proof.
  intros Hinj Hh Hw. induction l as [|q t IHt]; intros Hf Hnd0; cbn; [constructor|].
  apply Forall_cons_iff in Hf as [Hq Hf]. apply NoDup_cons_iff in Hnd0 as [Hni Hnd0].
  constructor; [|apply IHt; assumption].
  intros Hin'. apply in_map_iff in Hin' as (q' & E & Hq'). apply Hni.
  rewrite Forall_forall in Hf. specialize (Hf q' Hq').
  destruct (Hinj (fst q') (snd q') (fst q) (snd q)) as [E1 E2]; try lia.
  destruct q, q'; cbn in *; subst; exact Hq'.
Qed.

Lemma in_somes {A} (x : A) (l : list (option A)) : In x (somes l) <-> In (Some x) l.
Proof.
  induction l as [|[y|] t IH]; cbn; [tauto| |].
  - rewrite IH. split; intros [H|H]; auto; left; congruence.
  - rewrite IH. split; [auto|intros [H|H]; [discriminate|auto]].
Qed.

Lemma no_cr_lcells ctx cells : no_cr ctx cells = true ->
  forallb (fun c => negb (is_lcr c)) (lcells ctx (expand ctx cells)) = true.
Proof.
  unfold no_cr, lcells. induction (expand ctx cells) as [|c t IH]; cbn [forallb map]; auto.
  intros H. apply andb_true_iff in H as [H1 H2]. rewrite (IH H2), andb_true_r.
  unfold is_cr in H1. destruct (classify ctx (c_kind c)); auto.
Qed.

Lemma placements_wrap_printables ctx maxw es : forall s,
  map snd (placements (snd (lrun maxw true s (lcells ctx es))) es) = filter (printable ctx) es.
Proof.
  induction es as [|c t IH]; intros s; [reflexivity|].
  unfold lcells in *. cbn [map]. rewrite lrun_cons. cbn [snd fst filter].
  destruct (layout_step maxw true s (classify ctx (c_kind c))) as [s1 p] eqn:H1. cbn [fst snd].
  pose proof (step_some_iff _ _ _ _ _ _ H1) as [Ha Hb].
  unfold printable. unfold lsized_nz in Ha, Hb.
  destruct p as [q|].
  - cbn [placements map snd]. rewrite IH.
    assert (Hs : Some q <> None) by discriminate. specialize (Ha Hs).
    destruct (classify ctx (c_kind c)); try discriminate. rewrite Ha. reflexivity.
  - cbn [placements]. rewrite IH.
    destruct (classify ctx (c_kind c)) as [| | |h w]; auto.
    destruct (negb ((h =? 0) || (w =? 0))) eqn:Hn; auto.
    exfalso. apply Hb; auto.
Qed.

Lemma placements_keep ctx w wr es : forall s,
  map snd (placements (snd (lrun w wr s (lcells ctx es))) es) =
  keep_placed (filter (printable ctx) es) (sized_positions (lcells ctx es) (snd (lrun w wr s (lcells ctx es)))).
Proof.
  induction es as [|c t IH]; intros s; [reflexivity|].
  unfold lcells in *. cbn [map]. rewrite lrun_cons. cbn [snd fst filter sized_positions].
  destruct (layout_step w wr s (classify ctx (c_kind c))) as [s1 p] eqn:H1. cbn [fst snd].
  pose proof (step_some_iff _ _ _ _ _ _ H1) as [Ha _].
  assert (Hpr : printable ctx c = lsized_nz (classify ctx (c_kind c))) by reflexivity.
  rewrite Hpr. destruct (lsized_nz (classify ctx (c_kind c))) eqn:Hs.
  - destruct p as [q|]; cbn [placements keep_placed map snd]; rewrite IH; reflexivity.
  - destruct p as [q|].
    + assert (Some q <> None) by discriminate. specialize (Ha H). discriminate.
    + cbn [placements]. apply IH.
Qed.

Section Agreement.
  Variables (ctx : rctx) (cells : list ccell) (wraps : bool) (maxw : nat).
  Hypothesis Hmaxw : 1 <= maxw.
  Hypothesis Hcr : no_cr ctx cells = true.

  Let ecs := expand ctx cells.
  Let run := lrun maxw wraps l0 (lcells ctx ecs).
  Let hn := l_h (fst run).
  Let wn := l_w (fst run).

  Variables (sh : shape) (data : list ccell).
  Hypothesis Hh : hn <= sh_height sh.
  Hypothesis Hw1 : wn <= sh_width sh.
  Hypothesis Hw2 : sh_width sh <= maxw.
  Hypothesis Hgood : Good sh (length data).

  Let st0 := set_wraps (writer_new sh data) wraps.
  Let pl := placements (snd run) ecs.

  Lemma run_at_surface_width : lrun (sh_width sh) wraps l0 (lcells ctx ecs) = run.
  Proof. apply lrun_stable; [exact Hw2|exact Hw1]. Qed.

  Lemma run_positions_in r c : In (Some (r, c)) (snd run) -> r < hn /\ c < wn.
  Proof. apply lrun_pos_in. exact Hmaxw. Qed.

  Theorem render_follows_layout :
    exists st', put_cells ctx st0 cells = Ok st' /\
      w_l st' = fst run /\
      Frame sh data (w_data st') /\
      StronglySorted lt_pos (map fst pl) /\
      Forall (fun p => fst p < hn /\ snd p < wn) (map fst pl) /\
      (forall p c, In (p, c) pl -> nth_error (kinds (w_data st')) (offset sh (fst p) (snd p)) = Some (c_kind c)) /\
      (forall r c, r < sh_height sh -> c < sh_width sh -> ~ In (r, c) (map fst pl) ->
         nth_error (kinds (w_data st')) (offset sh r c) = nth_error (kinds data) (offset sh r c)).
  Proof.
    destruct Hgood as [Hb Hinj].
    assert (Hlen : length (snd run) = length ecs).
    { unfold run. rewrite lrun_length. unfold lcells. apply map_length. }
    destruct (put_all_placed ctx ecs st0) as (st' & P & L & S & W & N & K).
    { exact Hb. }
    { cbn [st0 set_wraps writer_new w_sh w_wraps w_l]. rewrite run_at_surface_width.
      intros r c Hrc. apply run_positions_in in Hrc. lia. }
    cbn [st0 set_wraps writer_new w_sh w_wraps w_l w_data] in L, S, N, K.
    rewrite run_at_surface_width in L, K.
    assert (Hfst : map fst pl = somes (snd run)) by (apply placements_fst; exact Hlen).
    assert (Hall : Forall (fun p => fst p < hn /\ snd p < wn) (somes (snd run))).
    { apply Forall_forall. intros [r c] Hp. apply run_positions_in. apply in_somes. exact Hp. }
    assert (Hsorted : StronglySorted lt_pos (somes (snd run))).
    { apply (lrun_order maxw wraps _ Hmaxw (no_cr_lcells _ _ Hcr) l0). }
    assert (Hnd : NoDup (map (fun q => offset sh (fst q) (snd q)) (somes (snd run)))).
    { eapply offsets_nodup; eauto. apply sorted_nodup, Hsorted. }
    exists st'. split; [apply put_cells_expand; exact P|]. split; [exact L|].
    split; [apply put_all_keeps in P; destruct P as [_ F]; exact F|].
    split; [rewrite Hfst; exact Hsorted|].
    split; [rewrite Hfst; exact Hall|].
    split.
    - intros p c Hin. rewrite K. apply kapply_at; auto.
      intros q Hq. unfold kinds. rewrite map_length. rewrite Forall_forall in Hall.
      specialize (Hall q Hq). apply Hb; lia.
    - intros r c Hr Hc Hni. rewrite K. apply kapply_other.
      intros r' c' Hin E. apply Hni. rewrite Hfst. apply in_somes.
      assert (Hrc' : r' < hn /\ c' < wn) by (apply run_positions_in; exact Hin).
      destruct (Hinj r' c' r c) as [-> ->]; try lia. exact Hin.
  Qed.

  (* with wrapping: every printable cell is placed *)
  Lemma placed_all_when_wrapping : wraps = true -> map snd pl = printables ctx cells.
  Proof. intros Hwr. unfold pl, run. rewrite Hwr. apply placements_wrap_printables. Qed.

  (* without wrapping: exactly the cells the reference no-wrap placement keeps, where it puts them *)
  Lemma placed_as_nowrap : wraps = false ->
    map fst pl = somes (nowrap_place (sh_width sh) (lcells ctx ecs) 0 0).
  Proof.
    intros Hwr. unfold pl. rewrite placements_fst.
    - rewrite <- run_at_surface_width. rewrite Hwr. rewrite <- lrun_some_sized. rewrite lrun_nowrap. reflexivity.
    - unfold run. rewrite lrun_length. unfold lcells. apply map_length.
  Qed.

  Lemma placed_cells_nowrap : wraps = false ->
    map snd pl = keep_placed (printables ctx cells) (nowrap_place (sh_width sh) (lcells ctx ecs) 0 0).
  Proof.
    intros Hwr. unfold pl, run. rewrite <- (lrun_stable maxw (sh_width sh) wraps _ Hw2 l0 Hw1).
    rewrite placements_keep. rewrite Hwr, lrun_nowrap. reflexivity.
  Qed.
End Agreement.
