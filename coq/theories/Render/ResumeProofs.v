(* Render/ResumeProofs.v — histories whose surfaces may overlap (classes OverlapImages /
   OverlapWideImage): judging is suspended by the frame of an overlapping surface only, and the next
   forced repaint (Clear, Renew, Resize) puts renderer and terminal in sync again up to the
   placements the overlap left behind.  Theorem [history_resume_run]. *)
From Coq Require Import List NArith Bool Arith Lia.
From SNT Require Import Render.Cell Render.Screen Render.Frame Render.Domain Render.GridLemmas
  Render.ScreenProofs Render.PaintProofs Render.ExecProofs Render.Den Render.FrameTheorem Render.ShowProofs
  Render.DomainProofs Render.Spec Render.HistoryProofs.
Import ListNotations.

(* ---------- executing commands keeps the screen a screen ---------- *)
Lemma exec_dims : forall o s c h w,
  sh s = h -> sw s = w -> gdims (sgrid s) h w ->
  sh (exec o s c) = h /\ sw (exec o s c) = w /\ gdims (sgrid (exec o s c)) h w.
Proof.
  intros o s c h w Hh Hw Hd. destruct c as [ch|f|r c|n|i r c|i [[r c]|]|b|]; simpl; auto.
  - destruct (cur s) as [r c].
    destruct (((cw o ch =? 1) || (cw o ch =? 2)) && (c + cw o ch <=? sw s) && (r <? sh s)); simpl; auto.
    split; [auto|split; [auto|]]. apply gdims_on_row; auto. intros. apply put_char_length.
  - destruct (c <? sw s); simpl; auto.
  - destruct (cur s) as [r c].
    destruct ((0 <? n) && (c <? sw s) && (r <? sh s)); simpl; auto.
    split; [auto|split; [auto|]]. apply gdims_on_row; auto. intros. apply erase_cells_length.
  - destruct (place_mem (i, r, c) (places s)); simpl; auto.
Qed.

Lemma exec_list_dims : forall o l s h w,
  sh s = h -> sw s = w -> gdims (sgrid s) h w ->
  sh (exec_list o s l) = h /\ sw (exec_list o s l) = w /\ gdims (sgrid (exec_list o s l)) h w.
Proof.
  intros o. induction l as [|c l IH]; intros s h w Hh Hw Hd.
  - rewrite exec_list_nil. auto.
  - rewrite exec_list_cons. destruct (exec_dims o s c h w Hh Hw Hd) as (H1 & H2 & H3). apply IH; auto.
Qed.

Lemma exec_list_scr_ok : forall o l s h w,
  scr_ok s h w -> err (exec_list o s l) = false -> scr_ok (exec_list o s l) h w.
Proof.
  intros o l s h w (Hh & Hw & _ & Hd) He.
  destruct (exec_list_dims o l s h w Hh Hw Hd) as (H1 & H2 & H3). unfold scr_ok. auto.
Qed.

(* ---------- a renderer that forces a repaint is in sync with any screen, up to what that screen places ---------- *)
Lemma hinv_fresh : forall o h w scr, oracle_ok o -> scr_ok scr h w ->
  HInv o h w (rnew h w true) scr (places scr).
Proof.
  intros o h w scr (Hsp & Hfs & Hlaw) Hs. constructor; simpl; auto.
  - apply gdims_gmake.
  - fold (blank_surface h w). rewrite blank_resolved. apply good_blank. auto.
  - apply good_blank. auto.
  - exists MDamaged. split; auto.
  - intros i r c H. exfalso. eapply img_cell_blank; eauto.
Qed.

(* ---------- the front buffer between frames ---------- *)
Definition with_front (st : rstate) (f : grid cell) : rstate :=
  mkrstate (rh st) (rw st) f (back st) (marks st).

Lemma hinv_with_front : forall o h w st scr E f0 f,
  HInv o h w (with_front st f0) scr E -> gdims f h w -> Good o h w (gmap (resolve o) f) ->
  HInv o h w (with_front st f) scr E.
Proof. intros o h w st scr E f0 f HI Hd Hg. destruct HI. constructor; simpl in *; auto. Qed.

Lemma with_front_self : forall st, with_front st (front st) = st.
Proof. intros []. reflexivity. Qed.

(* every drawn surface is in the domain for the size of the moment (overlaps allowed) *)
Fixpoint dom_ops (o : oracle) (h w : nat) (ops : list op) : Prop :=
  match ops with
  | [] => True
  | Draw g :: ops' => in_domain o h w g = true /\ dom_ops o h w ops'
  | Resize h' w' g :: ops' => gdims g h' w' /\ dom_ops o h' w' ops'
  | FailFrame _ :: _ => False
  | _ :: ops' => dom_ops o h w ops'
  end.

Definition FrontOK (o : oracle) (h w : nat) (st : rstate) : Prop :=
  gdims (front st) h w
  /\ (no_image_overlap o h w (front st) = true -> Good o h w (gmap (resolve o) (front st))).

Definition Dims (h w : nat) (st : rstate) (scr : screen) : Prop :=
  rh st = h /\ rw st = w /\ sh scr = h /\ sw scr = w /\ gdims (sgrid scr) h w.

(* judging: in sync up to E, whatever is being drawn; suspended: only the sizes are known *)
Definition RInv (o : oracle) (h w : nat) (st : rstate) (scr : screen) (mode : option (list placement)) : Prop :=
  match mode with
  | Some E => HInv o h w (with_front st (blank_surface h w)) scr E /\ FrontOK o h w st
  | None => Dims h w st scr
  end.

Lemma rinv_dims : forall o h w st scr mode, RInv o h w st scr mode -> Dims h w st scr.
Proof.
  intros o h w st scr [E|] H; [|exact H]. destruct H as [HI _].
  pose proof (hi_scr _ _ _ _ _ _ HI) as (H1 & H2 & _ & H4).
  pose proof (hi_h _ _ _ _ _ _ HI) as Hh. pose proof (hi_w _ _ _ _ _ _ HI) as Hw.
  unfold Dims. simpl in Hh, Hw. auto.
Qed.

Lemma front_ok_blank : forall o h w st, cw o space = 1 -> front st = blank_surface h w -> FrontOK o h w st.
Proof.
  intros o h w st Hsp Hf. unfold FrontOK. rewrite Hf. split; [apply gdims_gmake|].
  intros _. rewrite blank_resolved. apply good_blank. exact Hsp.
Qed.

Lemma frame_state : forall o st,
  rh (snd (frame o st)) = rh st /\ rw (snd (frame o st)) = rw st
  /\ front (snd (frame o st)) = gmake (rh st) (rw st) cell_default.
Proof. intros. unfold frame. simpl. auto. Qed.

(* the state after Clear / Renew / Resize on a terminal about which only the sizes are known *)
Lemma rinv_resume : forall o h w h' w' st scr cs x, oracle_ok o ->
  Dims h w st scr ->
  (x = Clear \/ x = Renew) /\ h' = h /\ w' = w \/ (exists g, x = Resize h' w' g /\ gdims g h' w') ->
  cs = fst (rclear st) ->
  let scr' := screen_step o scr x cs in
  RInv o h' w' (snd (rstep o st x)) scr' (resumed scr' None)
  /\ front (snd (rstep o st x)) = blank_surface h' w'.
Proof.
  intros o h w h' w' st scr cs x Hok (Hh & Hw & Hsh & Hsw & Hd) Hx Hcs. cbv zeta.
  destruct (exec_list_dims o cs scr h w Hsh Hsw Hd) as (D1 & D2 & D3).
  unfold resumed.
  destruct Hx as [[Hx [-> ->]]|(g & -> & Hg)].
  - assert (Hst : snd (rstep o st x) = rnew h w true).
    { destruct Hx as [->| ->]; cbn [rstep snd]; rewrite ?rclear_state, Hh, Hw; reflexivity. }
    assert (Hscr : screen_step o scr x cs = exec_list o scr cs) by (destruct Hx as [->| ->]; reflexivity).
    rewrite Hst, Hscr. split; [|reflexivity].
    destruct (err (exec_list o scr cs)) eqn:Ee.
    + unfold RInv, Dims. simpl. auto.
    + unfold RInv. split.
      * apply hinv_fresh; auto. unfold scr_ok. auto.
      * apply front_ok_blank; [apply Hok|reflexivity].
  - cbn [rstep snd screen_step err places]. split; [|reflexivity].
    destruct (err (exec_list o scr cs)) eqn:Ee.
    + unfold RInv, Dims. simpl. auto.
    + unfold RInv. split.
      * apply (hinv_fresh o h' w' (mkscreen h' w' g (places (exec_list o scr cs)) (cur (exec_list o scr cs))
                                            (pen (exec_list o scr cs)) false)); auto.
        apply scr_ok_mk. exact Hg.
      * apply front_ok_blank; [apply Hok|reflexivity].
Qed.

Theorem history_resume_run : forall o ops h w st scr mode, oracle_ok o ->
  RInv o h w st scr mode -> dom_ops o h w ops ->
  resume_run o h w scr (front st) mode ops (rrun o st ops) = true.
Proof.
  intros o. induction ops as [|x ops IH]; intros h w st scr mode Hok HR Hdom; [reflexivity|].
  pose proof Hok as (Hsp & Hfs & Hlaw).
  pose proof (rinv_dims _ _ _ _ _ _ HR) as HD. pose proof HD as (Hh & Hw & Hsh & Hsw & Hsd).
  cbn [rrun]. rewrite (surjective_pairing (rstep o st x)). cbn [resume_run].
  destruct x as [g| | | | |h' w' g|k]; [| | | | | |contradiction].
  - (* Draw *)
    destruct Hdom as [Hg Hdom]. cbn [rstep fst snd]. unfold screen_step. rewrite exec_list_nil.
    assert (Hgd : grid_dims g (rh st) (rw st) = true).
    { rewrite Hh, Hw. unfold in_domain in Hg. apply andb_true_iff in Hg. tauto. }
    assert (Hrd : rdraw st g = with_front st g) by (unfold rdraw; rewrite Hgd; reflexivity).
    assert (Hm : mode_ok mode scr = true).
    { destruct mode as [E|]; [|reflexivity]. destruct HR as [HI _]. simpl. apply negb_true_iff. apply HI. }
    rewrite Hm. cbn [andb].
    replace g with (front (rdraw st g)) at 1 by (rewrite Hrd; reflexivity).
    apply IH; auto. rewrite Hrd. destruct mode as [E|].
    + destruct HR as [HI _]. split; [exact HI|]. unfold FrontOK. cbn [with_front front]. split.
      * apply grid_dims_true. rewrite <- Hh, <- Hw. exact Hgd.
      * intros Ho. apply good_of_bool; auto.
    + exact HD.
  - (* Frame *)
    cbn [rstep]. unfold screen_step.
    destruct (frame_state o st) as (F1 & F2 & F3). rewrite Hh, Hw in F3.
    assert (Hnone : resume_run o h w (exec_list o scr (fst (frame o st))) (gmake h w cell_default) None ops
                               (rrun o (snd (frame o st)) ops) = true).
    { rewrite <- F3. apply IH; auto. unfold RInv, Dims. rewrite F1, F2.
      destruct (exec_list_dims o (fst (frame o st)) scr h w Hsh Hsw Hsd) as (D1 & D2 & D3). auto. }
    destruct mode as [E|]; [|exact Hnone].
    unfold overlapping. destruct (no_image_overlap o h w (front st)) eqn:Eo; cbn [negb]; [|exact Hnone].
    destruct HR as [HI [Hfd Hfg]].
    assert (HI1 : HInv o h w st scr E).
    { rewrite <- (with_front_self st). eapply hinv_with_front; eauto. }
    rewrite (frame_shows_upto o h w st scr E Hok HI1). cbn [andb].
    destruct (hinv_frame o h w st scr E Hok HI1) as (HI2 & Hf2 & _).
    rewrite <- F3. apply IH; auto. split.
    + rewrite <- Hf2, with_front_self. exact HI2.
    + apply front_ok_blank; auto.
  - (* SkipFrame *)
    cbn [rstep fst snd]. unfold screen_step. rewrite exec_list_nil.
    assert (Hm : mode_ok mode scr = true).
    { destruct mode as [E|]; [|reflexivity]. destruct HR as [HI _]. simpl. apply negb_true_iff. apply HI. }
    rewrite Hm. cbn [andb].
    assert (Hf : front (rskip st) = gmake h w cell_default) by (unfold rskip; simpl; rewrite Hh, Hw; reflexivity).
    rewrite <- Hf. apply IH; auto. destruct mode as [E|].
    + destruct HR as [HI _]. split; [exact HI|]. apply front_ok_blank; auto.
    + exact HD.
  - (* Clear *)
    destruct mode as [E|].
    + destruct HR as [HI _].
      pose proof (hinv_step o h w _ scr E Clear Hok HI I) as HI'. cbn [step_size fst snd] in HI'.
      change (rstep o (with_front st (blank_surface h w)) Clear) with (rstep o st Clear) in HI'.
      assert (He : err (screen_step o scr Clear (fst (rstep o st Clear))) = false) by apply HI'.
      cbn [mode_ok resumed]. rewrite He. cbn [negb andb].
      assert (Hf : front (snd (rstep o st Clear)) = gmake h w cell_default)
        by (cbn [rstep]; rewrite rclear_state, Hh, Hw; reflexivity).
      rewrite <- Hf. apply IH; auto. split.
      * replace (with_front (snd (rstep o st Clear)) (blank_surface h w)) with (snd (rstep o st Clear)); [exact HI'|].
        unfold blank_surface. rewrite <- Hf. symmetry. apply with_front_self.
      * apply front_ok_blank; auto.
    + cbn [mode_ok andb].
      destruct (rinv_resume o h w h w st scr (fst (rstep o st Clear)) Clear Hok HD) as [HR' Hf'];
        [left; auto|reflexivity|].
      unfold blank_surface in Hf'. rewrite <- Hf'. apply IH; auto.
  - (* Renew *)
    destruct mode as [E|].
    + destruct HR as [HI _].
      pose proof (hinv_step o h w _ scr E Renew Hok HI I) as HI'. cbn [step_size fst snd] in HI'.
      change (rstep o (with_front st (blank_surface h w)) Renew) with (rstep o st Renew) in HI'.
      assert (He : err (screen_step o scr Renew (fst (rstep o st Renew))) = false) by apply HI'.
      cbn [mode_ok resumed]. rewrite He. cbn [negb andb].
      assert (Hf : front (snd (rstep o st Renew)) = gmake h w cell_default)
        by (cbn [rstep snd rnew front]; rewrite Hh, Hw; reflexivity).
      rewrite <- Hf. apply IH; auto. split.
      * replace (with_front (snd (rstep o st Renew)) (blank_surface h w)) with (snd (rstep o st Renew)); [exact HI'|].
        unfold blank_surface. rewrite <- Hf. symmetry. apply with_front_self.
      * apply front_ok_blank; auto.
    + cbn [mode_ok andb].
      destruct (rinv_resume o h w h w st scr (fst (rstep o st Renew)) Renew Hok HD) as [HR' Hf'];
        [left; auto|reflexivity|].
      unfold blank_surface in Hf'. rewrite <- Hf'. apply IH; auto.
  - (* Resize *)
    destruct Hdom as [Hg Hdom].
    destruct mode as [E|].
    + destruct HR as [HI _].
      pose proof (hinv_step o h w _ scr E (Resize h' w' g) Hok HI Hg) as HI'. cbn [step_size fst snd] in HI'.
      change (rstep o (with_front st (blank_surface h w)) (Resize h' w' g)) with (rstep o st (Resize h' w' g)) in HI'.
      assert (He : err (screen_step o scr (Resize h' w' g) (fst (rstep o st (Resize h' w' g)))) = false) by apply HI'.
      cbn [mode_ok resumed]. rewrite He. cbn [negb andb].
      assert (Hf : front (snd (rstep o st (Resize h' w' g))) = gmake h' w' cell_default) by reflexivity.
      rewrite <- Hf. apply IH; auto. split.
      * replace (with_front (snd (rstep o st (Resize h' w' g))) (blank_surface h' w'))
          with (snd (rstep o st (Resize h' w' g))); [exact HI'|reflexivity].
      * apply front_ok_blank; auto.
    + cbn [mode_ok andb].
      destruct (rinv_resume o h w h' w' st scr (fst (rstep o st (Resize h' w' g))) (Resize h' w' g) Hok HD)
        as [HR' Hf']; [right; eauto|reflexivity|].
      unfold blank_surface in Hf'. rewrite <- Hf'. apply IH; auto.
Qed.
