(* FaceModify::apply against the field-wise meaning of a modification record (rapply),
   for every attribute word below 256 (three underline bits + five flags: everything the
   public API can build).  The attribute arithmetic (land / lor / shifts, pack / unpack,
   insert / remove) is eliminated by one complete sweep over the 256 attribute words x the
   7 x 3^4 settings of the attribute fields of a record; the sweep is re-run whenever the
   regenerated constants (Gen/C06Tables.v) change. *)
From Coq Require Import List NArith Bool Lia.
From SNT Require Import Base.Sweep Render.FaceModel Decoder.SgrRef.
Import ListNotations.
Local Open Scope N_scope.

Definition attrs_pipeline (ul : option ustyle) (bo it bl st : option bool) (a : N) : N :=
  let a := match ul with Some u => fa_pack u (snd (fa_unpack a)) | None => a end in
  let a := apply_flag bo FA_BOLD a in
  let a := apply_flag it FA_ITALIC a in
  let a := apply_flag bl FA_BLINK a in
  apply_flag st FA_STRIKE a.

Lemma fm_apply_attrs m f :
  f_attrs (fm_apply m f) =
  attrs_pipeline (m_underline m) (m_bold m) (m_italic m) (m_blink m) (m_strike m)
                 (if m_reset m then 0 else f_attrs f).
Proof. unfold fm_apply, attrs_pipeline. destruct (m_reset m); reflexivity. Qed.

(* the attribute part of a rendition *)
Definition attr_view (a : N) : ustyle * (bool * bool * bool * bool * bool) :=
  (fa_underline a, (has_flag a FA_BOLD, has_flag a FA_ITALIC, has_flag a FA_BLINK, has_flag a FA_REVERSE, has_flag a FA_STRIKE)).

Definition view_eqb (x y : ustyle * (bool * bool * bool * bool * bool)) : bool :=
  let '(u, (a, b, c, d, e)) := x in
  let '(u', (a', b', c', d', e')) := y in
  ustyle_eqb u u' && Bool.eqb a a' && Bool.eqb b b' && Bool.eqb c c' && Bool.eqb d d' && Bool.eqb e e'.

Lemma view_eqb_eq x y : view_eqb x y = true -> x = y.
Proof.
  destruct x as [u [[[[a b] c] d] e]], y as [u' [[[[a' b'] c'] d'] e']]. cbn [view_eqb].
  rewrite !andb_true_iff. intros [[[[[H1 H2] H3] H4] H5] H6].
  apply eqb_prop in H2, H3, H4, H5, H6. subst.
  destruct u, u'; try discriminate; reflexivity.
Qed.

Definition expected_view (ul : option ustyle) (bo it bl st : option bool) (a : N) :=
  let '(u, (b, i, k, r, s)) := attr_view a in
  (or_keep ul u, (or_keep bo b, or_keep it i, or_keep bl k, r, or_keep st s)).

Definition all_ul : list (option ustyle) :=
  [None; Some UNone; Some UStraight; Some UDouble; Some UCurly; Some UDotted; Some UDashed].
Definition all_ob : list (option bool) := [None; Some true; Some false].

Definition pcheck1 (ul : option ustyle) (bo it bl st : option bool) (a : N) : bool :=
  view_eqb (attr_view (attrs_pipeline ul bo it bl st a)) (expected_view ul bo it bl st a)
  && (attrs_pipeline ul bo it bl st a <? 256).
Definition pcheck (ul : option ustyle) (bo it bl st : option bool) : bool :=
  sweep1 256 (pcheck1 ul bo it bl st).

Section Forallb5.
  Context {A B C D E : Type} (f : A -> B -> C -> D -> E -> bool).
  Definition forallb5 la lb lc ld le : bool :=
    forallb (fun a => forallb (fun b => forallb (fun c => forallb (fun d => forallb (fun e =>
      f a b c d e) le) ld) lc) lb) la.
  Lemma forallb5_sound la lb lc ld le :
    forallb5 la lb lc ld le = true ->
    forall a b c d e, In a la -> In b lb -> In c lc -> In d ld -> In e le -> f a b c d e = true.
  Proof.
    unfold forallb5. intros H a b c d e Ha Hb Hc Hd He.
    rewrite forallb_forall in H. specialize (H a Ha). cbv beta in H.
    rewrite forallb_forall in H. specialize (H b Hb). cbv beta in H.
    rewrite forallb_forall in H. specialize (H c Hc). cbv beta in H.
    rewrite forallb_forall in H. specialize (H d Hd). cbv beta in H.
    rewrite forallb_forall in H. exact (H e He).
  Qed.
End Forallb5.

(* stated without an intermediate constant: the kernel must never be asked to convert this
   closed boolean by lazy reduction (it would evaluate the whole sweep without the VM) *)
Lemma pipeline_check_ok : forallb5 pcheck all_ul all_ob all_ob all_ob all_ob = true.
Proof. vm_compute. reflexivity. Qed.

Lemma all_ul_in u : In u all_ul.
Proof. destruct u as [[]|]; cbn; tauto. Qed.
Lemma all_ob_in b : In b all_ob.
Proof. destruct b as [[]|]; cbn; tauto. Qed.

Lemma pcheck_all ul bo it bl st : pcheck ul bo it bl st = true.
Proof.
  exact (forallb5_sound pcheck all_ul all_ob all_ob all_ob all_ob pipeline_check_ok ul bo it bl st
           (all_ul_in ul) (all_ob_in bo) (all_ob_in it) (all_ob_in bl) (all_ob_in st)).
Qed.

Lemma pipeline_spec ul bo it bl st a :
  a < 256 ->
  attr_view (attrs_pipeline ul bo it bl st a) = expected_view ul bo it bl st a
  /\ attrs_pipeline ul bo it bl st a < 256.
Proof.
  intros Ha.
  assert (Hs : pcheck1 ul bo it bl st a = true).
  { apply (sweep1_sound 256 (pcheck1 ul bo it bl st) (pcheck_all ul bo it bl st) a). exact Ha. }
  unfold pcheck1 in Hs. apply andb_true_iff in Hs. destruct Hs as [H1 H2].
  split; [apply view_eqb_eq, H1 | apply N.ltb_lt, H2].
Qed.

Definition face_ok (f : face) : Prop := f_attrs f < 256.

Theorem fm_apply_ok m f : face_ok f -> face_ok (fm_apply m f).
Proof.
  unfold face_ok. intros Hf. rewrite fm_apply_attrs.
  apply pipeline_spec. destruct (m_reset m); [reflexivity | exact Hf].
Qed.

Lemma abs_face_view f :
  abs_face f =
  let '(u, (b, i, k, r, s)) := attr_view (f_attrs f) in mkR (f_fg f) (f_bg f) u b i k r s.
Proof. reflexivity. Qed.

(* FaceModify::apply means what the record says *)
Theorem abs_fm_apply m f : face_ok f -> abs_face (fm_apply m f) = rapply m (abs_face f).
Proof.
  intros Hf. rewrite abs_face_view, fm_apply_attrs.
  assert (Ha : (if m_reset m then 0 else f_attrs f) < 256) by (destruct (m_reset m); [reflexivity| exact Hf]).
  destruct (pipeline_spec (m_underline m) (m_bold m) (m_italic m) (m_blink m) (m_strike m) _ Ha) as [Hv _].
  rewrite Hv. unfold expected_view, rapply, fm_apply.
  destruct (m_reset m).
  - change (attr_view 0) with (UNone, (false, false, false, false, false)). cbn.
    destruct (m_fg m), (m_bg m); reflexivity.
  - unfold abs_face, attr_view. cbn.
    destruct (m_fg m), (m_bg m); reflexivity.
Qed.
