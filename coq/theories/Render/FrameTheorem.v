(* Render/FrameTheorem.v — TerminalRenderer::frame, all three passes: on a
   terminal in sync with the back buffer (marks all Empty), or on any terminal
   when the marks are all Damaged and the back buffer is blank, the commands
   of one frame leave exactly the denotation of the drawn surface. *)
From Coq Require Import List NArith Bool Arith Lia.
From SNT Require Import Render.Cell Render.Screen Render.Frame Render.Domain Render.GridLemmas
  Render.ScreenProofs Render.PaintProofs Render.ExecProofs Render.Den Render.ScanProofs
  Render.FrameSpec Render.FrameProofs Render.Pass1Proofs.
Import ListNotations.

Definition img_cell (s : grid cell) (i : N) (r c : nat) : Prop :=
  exists x, gget s r c = Some x /\ ckind x = KImg i.

Theorem frame_correct : forall o h w u old front scr,
  cw o space = 1 -> erase_law o ->
  Good o h w old -> Good o h w (gmap (resolve o) front) -> gdims front h w ->
  (u = MEmpty \/ (u = MDamaged /\ old = gmake h w cell_default)) ->
  scr_ok scr h w ->
  (u = MEmpty -> forall r c, r < h -> c < w -> gget (sgrid scr) r c = Some (den o h w old r c)) ->
  (forall i r c, img_cell old i r c -> In (i, r, c) (places scr)) ->
  let nw := gmap (resolve o) front in
  let scr' := exec_list o scr (fst (frame o (mkrstate h w front old (gmake h w u)))) in
  snd (frame o (mkrstate h w front old (gmake h w u)))
    = mkrstate h w (gmake h w cell_default) nw (gmake h w MEmpty)
  /\ scr_ok scr' h w
  /\ (forall r c, r < h -> c < w -> gget (sgrid scr') r c = Some (den o h w nw r c))
  /\ (forall i r c, In (i, r, c) (places scr') <->
                    ((In (i, r, c) (places scr) /\ ~ img_cell old i r c) \/ img_cell nw i r c)).
Proof.
  intros o h w u old front scr Hsp Hlaw Gold GN Hfd Hu Hs Hsync Himgs. cbv zeta.
  assert (Hu' : u = MEmpty \/ u = MDamaged) by tauto.
  destruct (pass1_spec o h w u old front Gold GN Hfd Hu') as (Hfront & dec & HP).
  unfold frame. cbn [fst snd rh rw back].
  set (st := pass1 o (mkrstate h w front old (gmake h w u))) in *.
  rewrite Hfront. split; [reflexivity|].
  destruct (frame_exec o h w u old (gmap (resolve o) front) (p1_marks st) dec (rev (p1_cmds st))
                       (rev (p1_imgs st)) Hsp Hlaw Gold GN Hu HP scr Hs Hsync) as (Hs' & Hg & Hp).
  split; [exact Hs'|]. split; [exact Hg|].
  intros i r c. rewrite Hp. unfold img_cell. split.
  - intros [[Hin Hne]|(x & Hx & Hk & Hd)].
    + destruct (gget old r c) as [x|] eqn:Ex.
      * destruct (ckind x) as [ch|j|g] eqn:Ek.
        -- left. split; auto. intros (y & Hy & Hky). inversion Hy; subst. congruence.
        -- destruct (N.eq_dec j i) as [->|Hji].
           ++ destruct (dec r c) eqn:Ed.
              ** exfalso. apply Hne. eauto.
              ** right. destruct (gget_some_bounds old h w r c x (good_dims _ _ _ _ Gold) Ex) as [Hr Hc].
                 pose proof (sp_same HP r c Hr Hc Ed) as Hsame. rewrite Ex in Hsame. eauto.
           ++ left. split; auto. intros (y & Hy & Hky). inversion Hy; subst. congruence.
        -- left. split; auto. intros (y & Hy & Hky). inversion Hy; subst. congruence.
      * left. split; auto. intros (y & Hy & _). discriminate.
    + right. eauto.
  - intros [[Hin Hne]|(x & Hx & Hk)].
    + left. split; auto. intros (y & Hy & Hky & _). apply Hne. eauto.
    + destruct (dec r c) eqn:Ed.
      * right. eauto.
      * left. destruct (gget_some_bounds _ h w r c x (good_dims _ _ _ _ GN) Hx) as [Hr Hc].
        pose proof (sp_same HP r c Hr Hc Ed) as Hsame. rewrite Hx in Hsame.
        split.
        -- apply Himgs. exists x. auto.
        -- intros (y & Hy & Hky & Hdy). congruence.
Qed.
