(* Render/IdleProofs.v — an idle frame issues nothing: when the drawn surface (glyphs resolved) is
   what the back buffer holds and no repaint is forced, frame() emits no command at all — for every
   surface, overlapping objects included. *)
From Coq Require Import List NArith Bool Arith Lia.
From SNT Require Import Render.Cell Render.Screen Render.Frame Render.GridLemmas Render.Den
  Render.ScanProofs Render.FrameSpec Render.Pass1Proofs.
Import ListNotations.

Lemma paints_row_all_skip : forall o r news olds ms c sk,
  (forall j new old m, nth_error news j = Some new -> nth_error olds j = Some old -> nth_error ms j = Some m ->
                       skipcond m old new = true) ->
  paints_row o r c sk news olds ms = [].
Proof.
  intros o r. induction news as [|new news IH]; intros olds ms c sk H; simpl; auto.
  destruct olds as [|old olds]; auto. destruct ms as [|m ms]; auto.
  assert (Hrest : forall c' sk', paints_row o r c' sk' news olds ms = []).
  { intros. apply IH. intros j n' o' m' H1 H2 H3. apply (H (S j)); auto. }
  destruct sk; auto.
  pose proof (H 0 new old m eq_refl eq_refl eq_refl) as Hs. unfold skipcond in Hs. rewrite Hs. apply Hrest.
Qed.

Lemma paints_rows_all_skip : forall o news olds ms r0,
  (forall i rn ro rm j new old m,
      nth_error news i = Some rn -> nth_error olds i = Some ro -> nth_error ms i = Some rm ->
      nth_error rn j = Some new -> nth_error ro j = Some old -> nth_error rm j = Some m ->
      skipcond m old new = true) ->
  paints_rows o r0 news olds ms = [].
Proof.
  intros o. induction news as [|rn news IH]; intros olds ms r0 H; simpl; auto.
  destruct olds as [|ro olds]; auto. destruct ms as [|rm ms]; auto.
  rewrite paints_row_all_skip.
  - simpl. apply IH. intros i a b c j n' o' m' H1 H2 H3. apply (H (S i)); auto.
  - intros j n' o' m'. apply (H 0); auto.
Qed.

Section Idle.
  Variable o : oracle.
  Variables h w : nat.
  Variables old front : grid cell.
  Hypothesis Hfd : gdims front h w.
  Hypothesis Hod : gdims old h w.
  Hypothesis Hsame : gmap (resolve o) front = old.

  Lemma old_cell : forall r c, gget old r c = option_map (resolve o) (gget front r c).
  Proof. intros. rewrite <- Hsame. apply gget_gmap. Qed.

  Record IInv (st : p1) : Prop := {
    ii_mdims : gdims (p1_marks st) h w;
    ii_fdims : gdims (p1_front st) h w;
    ii_front : forall r c, option_map (resolve o) (gget (p1_front st) r c) = gget old r c;
    ii_marks : forall r c, gget (p1_marks st) r c <> Some MDamaged;
    ii_cmds : p1_cmds st = [];
    ii_imgs : p1_imgs st = [];
    ii_recov : p1_recov st = None }.

  Lemma fill_ignored_no_damage : forall m x r0 c0 r c,
    gget m r c <> Some MDamaged -> gget (fill_extent o m x r0 c0 MIgnored) r c <> Some MDamaged.
  Proof.
    intros m x r0 c0 r c H. rewrite fill_extent_gget. destruct (gget m r c) as [v|]; simpl; [|discriminate].
    destruct (ext_covers o x r0 c0 r c); [discriminate|exact H].
  Qed.

  Lemma iinv_step : forall st r0 c0, IInv st -> r0 < h -> c0 < w ->
    IInv (pass1_step o old st (r0, c0))
    /\ gget (p1_front (pass1_step o old st (r0, c0))) r0 c0 = gget old r0 c0.
  Proof.
    intros st r0 c0 HI Hr Hc.
    destruct (gget_in_bounds old h w r0 c0 Hod Hr Hc) as (oldc & Ho).
    destruct (gget_in_bounds (p1_front st) h w r0 c0 (ii_fdims _ HI) Hr Hc) as (new0 & Hn0).
    pose proof (ii_front _ HI r0 c0) as Hf. rewrite Hn0, Ho in Hf. simpl in Hf. inversion Hf as [Heq].
    unfold pass1_step. rewrite Ho, Hn0.
    assert (E1 : cell_eqb oldc (resolve o new0) = true) by (apply cell_eqb_eq; congruence).
    assert (E2 : is_damaged (gget (p1_marks st) r0 c0) = false).
    { pose proof (ii_marks _ HI r0 c0) as Hm. unfold is_damaged.
      destruct (gget (p1_marks st) r0 c0) as [[| |]|]; auto. congruence. }
    rewrite E1, E2. cbn [negb andb]. rewrite (ii_recov _ HI). cbn [pos_is].
    split.
    - constructor; cbn [p1_marks p1_front p1_cmds p1_imgs p1_recov].
      + destruct (is_ignored (gget (p1_marks st) r0 c0) && is_char (resolve o new0)).
        * apply HI.
        * apply gdims_fill_extent. apply HI.
      + apply gdims_gset. apply HI.
      + intros r c. rewrite gget_gset.
        destruct (Nat.eqb_spec r r0) as [->|]; destruct (Nat.eqb_spec c c0) as [->|]; simpl; try apply HI.
        rewrite Hn0, Ho. simpl. rewrite resolve_idem. f_equal. exact Heq.
      + intros r c. destruct (is_ignored (gget (p1_marks st) r0 c0) && is_char (resolve o new0)).
        * apply HI.
        * apply fill_ignored_no_damage. apply HI.
      + apply HI.
      + apply HI.
      + reflexivity.
    - cbn [p1_front]. rewrite gget_gset, !Nat.eqb_refl. simpl. rewrite Hn0. simpl. congruence.
  Qed.

  Lemma iinv_fold : forall todo st,
    IInv st -> (forall r c, In (r, c) todo -> r < h /\ c < w) ->
    IInv (fold_left (pass1_step o old) todo st)
    /\ forall r c, In (r, c) todo \/ gget (p1_front st) r c = gget old r c ->
                   gget (p1_front (fold_left (pass1_step o old) todo st)) r c = gget old r c.
  Proof.
    induction todo as [|[r0 c0] todo IH]; intros st HI Hb; simpl.
    - split; auto. intros r c [[]|H]; auto.
    - destruct (Hb r0 c0 (or_introl eq_refl)) as [Hr Hc].
      destruct (iinv_step st r0 c0 HI Hr Hc) as [HI1 Hq].
      destruct (IH _ HI1 (fun r c Hin => Hb r c (or_intror Hin))) as [HI2 Hf].
      split; auto. intros r c [[Heq|Hin]|Hdone].
      + inversion Heq; subst. apply Hf. right. exact Hq.
      + apply Hf. left. exact Hin.
      + apply Hf. right.
        (* a cell that already equals the back buffer stays so *)
        unfold pass1_step.
        destruct (gget old r0 c0) as [oc|] eqn:Eo; auto.
        destruct (gget (p1_front st) r0 c0) as [n0|] eqn:En; auto.
        assert (Hg : forall m1 m2 c1 c2 i1 i2 rc1 rc2,
                  gget (p1_front (if cell_eqb oc (resolve o n0) && negb (is_damaged (gget (p1_marks st) r0 c0))
                                  then mkp1 m1 (gset (p1_front st) r0 c0 (resolve o n0)) c1 i1 rc1
                                  else mkp1 m2 (gset (p1_front st) r0 c0 (resolve o n0)) c2 i2 rc2)) r c
                  = gget (gset (p1_front st) r0 c0 (resolve o n0)) r c).
        { intros. destruct (cell_eqb oc (resolve o n0) && negb (is_damaged (gget (p1_marks st) r0 c0))); reflexivity. }
        rewrite Hg. rewrite gget_gset.
        destruct (Nat.eqb_spec r r0) as [->|]; destruct (Nat.eqb_spec c c0) as [->|]; simpl; auto.
        rewrite En. simpl. rewrite Eo.
        pose proof (ii_front _ HI r0 c0) as Hfr. rewrite En, Eo in Hfr. simpl in Hfr. exact Hfr.
  Qed.

  Theorem idle_frame : fst (frame o (mkrstate h w front old (gmake h w MEmpty))) = [].
  Proof.
    unfold frame, pass1. cbn [fst rh rw back marks Frame.front].
    assert (HI0 : IInv (mkp1 (gmake h w MEmpty) front [] [] None)).
    { constructor; simpl; auto.
      - apply gdims_gmake.
      - intros r c. symmetry. apply old_cell.
      - intros r c H. destruct (gget (gmake h w MEmpty) r c) eqn:E; [|discriminate].
        apply gget_gmake_inv in E. congruence. }
    destruct (iinv_fold (all_pos h w) _ HI0) as [HI Hf].
    { intros r c Hin. apply in_all_pos. exact Hin. }
    set (st := fold_left (pass1_step o old) (all_pos h w) (mkp1 (gmake h w MEmpty) front [] [] None)) in *.
    rewrite (ii_cmds _ HI), (ii_imgs _ HI). cbn [rev pass3 flat_map app].
    rewrite paints_rows_all_skip. reflexivity.
    intros i rn ro rm j new oldc m Hrn Hro Hrm Hn Ho Hm.
    apply skipcond_true. split.
    - intros ->. apply (ii_marks _ HI i j). unfold gget. rewrite Hrm. exact Hm.
    - right.
      assert (Hi : i < h).
      { destruct Hod as [Hh _]. rewrite <- Hh. apply nth_error_Some. congruence. }
      assert (Hj : j < w).
      { rewrite <- (gdims_row _ _ _ _ _ Hod Hro). apply nth_error_Some. congruence. }
      pose proof (Hf i j (or_introl (proj2 (in_all_pos h w i j) (conj Hi Hj)))) as Hc.
      unfold gget in Hc. rewrite Hrn, Hro, Hn, Ho in Hc. congruence.
  Qed.
End Idle.
