(* Render/FrameProofs.v — one frame, given the outcome of pass 1: executing the
   commands of the frame on a terminal that is in sync with the back buffer
   (or on any terminal when everything is marked Damaged) leaves exactly the
   denotation of the new surface on the screen. *)
From Coq Require Import List NArith Bool Arith Lia.
From SNT Require Import Render.Cell Render.Screen Render.Frame Render.Domain Render.GridLemmas
  Render.ScreenProofs Render.PaintProofs Render.ExecProofs Render.Den Render.ScanProofs Render.FrameSpec.
Import ListNotations.

(* ---------- pass 3 ---------- *)
Definition imgs_paints (o : oracle) (h w : nat) (imgs : list (nat * nat * face * N)) : list paint :=
  flat_map (fun '(r, c, f, i) => img_paints o h w r c f i) imgs.

Lemma apply_paints_app : forall o g l1 l2,
  apply_paints o g (l1 ++ l2) = apply_paints o (apply_paints o g l1) l2.
Proof. intros. unfold apply_paints. apply fold_left_app. Qed.

Lemma exec_pass3 : forall o h w imgs s,
  scr_ok s h w ->
  (forall r c f i, In (r, c, f, i) imgs -> r < h /\ c < w /\ 1 <= snd (isz o i)) ->
  let s' := exec_list o s (pass3 o imgs) in
  scr_ok s' h w
  /\ sgrid s' = apply_paints o (sgrid s) (imgs_paints o h w imgs)
  /\ forall i r c, In (i, r, c) (places s') <->
                   (In (i, r, c) (places s) \/ exists f, In (r, c, f, i) imgs).
Proof.
  intros o h w. induction imgs as [|[[[r0 c0] f0] i0] imgs IH]; intros s Hs Hall.
  - unfold pass3, imgs_paints. simpl. split; [exact Hs|]. split; [reflexivity|].
    intros i r c. split; [intros H; left; exact H|]. intros [H|[f []]]. exact H.
  - unfold pass3, imgs_paints in *. cbn [flat_map]. rewrite exec_list_app, image_cmds_paint_image.
    destruct (Hall r0 c0 f0 i0 (or_introl eq_refl)) as (Hr & Hc & Hw).
    destruct (exec_paint_image o h w r0 c0 f0 i0 s Hs Hr Hc Hw) as (Hs1 & Hg1 & Hp1).
    set (s1 := exec_list o s (paint_image o r0 c0 f0 i0)) in *.
    destruct (IH s1 Hs1) as (Hs2 & Hg2 & Hp2).
    { intros r c f i Hin. apply (Hall r c f i). right. exact Hin. }
    split; auto. split.
    + rewrite Hg2, Hg1, apply_paints_app. reflexivity.
    + intros i r c. rewrite Hp2, Hp1, in_add_place. split.
      * intros [[Heq|H]|[f H]]; auto.
        -- inversion Heq; subst. right. exists f0. left. reflexivity.
        -- right. exists f. right. exact H.
      * intros [H|[f [Heq|H]]]; auto.
        -- inversion Heq; subst. left. left. reflexivity.
        -- right. exists f. exact H.
Qed.

Lemma valid_inside : forall o h w p, paint_valid o h w p -> paint_inside o h w p.
Proof. intros o h w [r c f ch|r c f n|r c f n]; simpl; intros; lia. Qed.

Lemma img_paints_conform : forall o h w nw r0 c0 f i p,
  Good o h w nw ->
  (exists x, gget nw r0 c0 = Some x /\ ckind x = KImg i /\ cface x = f) ->
  In p (img_paints o h w r0 c0 f i) ->
  conform o (den o h w nw) (fun _ _ => false) p /\ paint_inside o h w p.
Proof.
  intros o h w nw r0 c0 f i p GN (x & Hx & Hk & Hf) Hin. unfold img_paints in Hin.
  apply in_map_iff in Hin. destruct Hin as (row & <- & Hrow). apply in_seq in Hrow.
  assert (Hb : r0 < h /\ c0 < w) by (exact (gget_some_bounds nw h w r0 c0 x (good_dims _ _ _ _ GN) Hx)).
  split.
  - simpl. intros j Hj. right.
    apply (den_under_img o h w nw GN r0 c0 f i); try lia.
    + apply img_at_some. eauto.
    + unfold in_rect. apply andb_true_iff. rewrite !in_range_true. lia.
  - simpl. lia.
Qed.

Section OneFrame.
  Variable o : oracle.
  Variables h w : nat.
  Variable u : mark.
  Variables old nw : grid cell.
  Variable M : grid mark.
  Variable dec : nat -> nat -> bool.
  Variable cmds : list cmd.
  Variable imgs : list (nat * nat * face * N).
  Hypothesis Hsp : cw o space = 1.
  Hypothesis Hlaw : erase_law o.
  Hypothesis Gold : Good o h w old.
  Hypothesis GN : Good o h w nw.
  Hypothesis Hu : u = MEmpty \/ (u = MDamaged /\ old = gmake h w cell_default).
  Hypothesis HP : P1Spec o h w u old nw M dec cmds imgs.

  Let T := den o h w nw.
  Let ps := paints_rows o 0 nw old M.

  Lemma ps_all : forall p, In p ps ->
    conform o T (redrawn o h w nw dec) p /\ paint_valid o h w p.
  Proof.
    intros p Hin. unfold ps in Hin. apply in_paints_rows in Hin.
    destruct Hin as (r & rn & ro & rm & Hrn & Hro & Hrm & Hin). simpl in Hin.
    assert (Hr : r < h).
    { destruct (good_dims _ _ _ _ GN) as [Hh _]. rewrite <- Hh. apply nth_error_Some. congruence. }
    destruct (conform_row o h w u old nw M dec cmds imgs Hsp Gold GN Hu HP r rn ro rm Hr Hrn Hro Hrm p Hin)
      as (H1 & H2 & _).
    split; [exact H1|exact H2].
  Qed.

  Theorem frame_exec : forall scr,
    scr_ok scr h w ->
    (u = MEmpty -> forall r c, r < h -> c < w -> gget (sgrid scr) r c = Some (den o h w old r c)) ->
    let scr' := exec_list o scr (cmds ++ emit_all o (mktracked None None) ps ++ pass3 o imgs) in
    scr_ok scr' h w
    /\ (forall r c, r < h -> c < w -> gget (sgrid scr') r c = Some (den o h w nw r c))
    /\ (forall i r c, In (i, r, c) (places scr') <->
          ((In (i, r, c) (places scr)
            /\ ~ (exists x, gget old r c = Some x /\ ckind x = KImg i /\ dec r c = true))
           \/ (exists x, gget nw r c = Some x /\ ckind x = KImg i /\ dec r c = true))).
  Proof.
    intros scr Hs Hsync. cbv zeta. rewrite !exec_list_app.
    (* pass 1 commands: image erases *)
    destruct (sp_cmds HP) as [Hce Hcm].
    destruct (exec_image_erases o h w cmds scr Hs Hce) as (Hs1 & Hg1 & Hp1).
    set (s1 := exec_list o scr cmds) in *.
    (* pass 2 *)
    assert (Hvalid : Forall (paint_valid o h w) ps).
    { apply Forall_forall. intros p Hp. apply ps_all. auto. }
    assert (Hcons : consistent (mktracked None None) s1).
    { split; simpl; intros; discriminate. }
    destruct (exec_emit_all o ps s1 h w (mktracked None None) Hsp Hlaw Hs1 Hcons Hvalid) as (Hs2 & Hg2 & Hp2).
    set (s2 := exec_list o s1 (emit_all o (mktracked None None) ps)) in *.
    assert (Hok2 : forall r c, r < h -> c < w -> redrawn o h w nw dec r c = false -> okc T (sgrid s2) r c).
    { intros r c Hr Hc Hred. rewrite Hg2.
      apply (apply_paints_ok o T (redrawn o h w nw dec)) with (h := h) (w := w); auto.
      - intros. unfold T. eapply den_wl; eauto.
      - intros. unfold T. eapply den_wr; eauto.
      - intros. eapply redrawn_nonwide; eauto.
      - apply Hs1.
      - apply Forall_forall. intros p Hp. apply ps_all. auto.
      - apply Forall_forall. intros p Hp. apply valid_inside. apply ps_all. auto.
      - destruct (row_exists h w nw r (good_dims _ _ _ _ GN) Hr) as (rn & Hrn & _).
        destruct (row_exists h w old r (good_dims _ _ _ _ Gold) Hr) as (ro & Hro & _).
        destruct (row_exists h w M r (sp_dims HP) Hr) as (rm & Hrm & _).
        assert (Hsy : u = MEmpty -> gget (sgrid s1) r c = Some (den o h w old r c)).
        { intros Hue. rewrite Hg1. apply Hsync; auto. }
        destruct (cover_row o h w u old nw M dec cmds imgs Hsp Gold GN Hu HP r rn ro rm Hr Hrn Hro Hrm
                            (sgrid s1) c Hc Hred Hsy) as [H|(p & Hp & Hf)]; [left; exact H|].
        right. exists p. split; eauto. unfold ps.
        eapply (paints_rows_in o nw old M 0 r); eauto. }
    (* pass 3 *)
    assert (Himgs : forall r c f i, In (r, c, f, i) imgs -> r < h /\ c < w /\ 1 <= snd (isz o i)).
    { intros r c f i Hin. apply (sp_imgs HP) in Hin. destruct Hin as (x & Hx & Hk & _ & _).
      pose proof (good_cells _ _ _ _ GN r c x Hx) as Hg. unfold cell_good in Hg. rewrite Hk in Hg.
      destruct (gget_some_bounds nw h w r c x (good_dims _ _ _ _ GN) Hx). lia. }
    destruct (exec_pass3 o h w imgs s2 Hs2 Himgs) as (Hs3 & Hg3 & Hp3).
    set (s3 := exec_list o s2 (pass3 o imgs)) in *.
    split; [exact Hs3|]. split.
    - intros r c Hr Hc. rewrite Hg3.
      apply (apply_paints_ok o T (fun _ _ => false)) with (h := h) (w := w); auto.
      + intros. unfold T. eapply den_wl; eauto.
      + intros. unfold T. eapply den_wr; eauto.
      + intros. discriminate.
      + apply Hs2.
      + apply Forall_forall. intros p Hp. unfold imgs_paints in Hp. apply in_flat_map in Hp.
        destruct Hp as ([[[r0 c0] f] i] & Hin & Hp). apply (sp_imgs HP) in Hin.
        destruct Hin as (x & Hx & Hk & Hf & _). eapply (img_paints_conform o h w nw); eauto.
      + apply Forall_forall. intros p Hp. unfold imgs_paints in Hp. apply in_flat_map in Hp.
        destruct Hp as ([[[r0 c0] f] i] & Hin & Hp). apply (sp_imgs HP) in Hin.
        destruct Hin as (x & Hx & Hk & Hf & _). eapply (img_paints_conform o h w nw); eauto.
      + destruct (redrawn o h w nw dec r c) eqn:Ered.
        * right. unfold redrawn in Ered.
          destruct (cover_img o h w nw r c) as [[r0 c0]|] eqn:Ecov; [|discriminate].
          apply cover_img_some in Ecov. destruct Ecov as (Hr0 & Hc0 & f & i & Hi & Hin).
          pose proof Hi as Hi2. apply img_at_some in Hi2. destruct Hi2 as (x & Hx & Hk & Hf).
          assert (Hmem : In (r0, c0, f, i) imgs) by (apply (sp_imgs HP); eauto).
          unfold in_rect in Hin. apply andb_true_iff in Hin. rewrite !in_range_true in Hin.
          exists (PErase (Nat.min r (h - 1)) c0 f (Nat.min (snd (isz o i)) (w - c0))). split.
          -- unfold imgs_paints. apply in_flat_map. exists (r0, c0, f, i). split; auto.
             unfold img_paints. apply in_map_iff. exists r. split; auto. apply in_seq. lia.
          -- simpl. rewrite Nat.min_l by lia. split; auto. lia.
        * left. apply Hok2; auto.
    - intros i r c. rewrite Hp3, Hp2, Hp1, Hcm. split.
      + intros [[H1 H2]|[f Hin]].
        * left. auto.
        * right. apply (sp_imgs HP) in Hin. destruct Hin as (x & Hx & Hk & _ & Hd). eauto.
      + intros [[H1 H2]|(x & Hx & Hk & Hd)].
        * left. auto.
        * right. exists (cface x). apply (sp_imgs HP). eauto.
  Qed.
End OneFrame.
