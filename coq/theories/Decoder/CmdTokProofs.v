(* The command tokeniser over the regenerated production automaton.

   Facts about the automaton are boolean checks evaluated on Gen/C06CmdDFA.v (so they are
   re-established on the crate's current automaton at every run).  The only structural fact
   the reasoning needs is that every accepting state is terminal: then a candidate item is
   always taken at once, at most one byte is ever rescheduled, and the two-phase
   decode / decode_into loops of the code compute a plain left-to-right fold (`run`) over
   the bytes -- whence independence of chunking. *)
From Coq Require Import List NArith Bool Lia Arith String ZifyBool ZifyNat ZifyN.
From SNT Require Import Base.Sweep Decoder.CmdTok Decoder.SgrRef.
Import ListNotations.
Local Open Scope N_scope.

(* ---- facts read off the dump ---- *)
Lemma cmd_matchers_ok :
  cmd_matchers = ["MappedMatcher { matcher: GraphicRenditionMatcher }";
                  "MappedMatcher { matcher: UTF8Matcher { mode: NotEscape } }"]%string.
Proof. reflexivity. Qed.

Lemma cmd_size_ok : List.length cmd_infos = N.to_nat cmd_size /\ List.length cmd_ranges = N.to_nat cmd_size.
Proof. split; reflexivity. Qed.

Definition acc_term_check : bool :=
  forallb (fun q => implb (cmd_accepting q) (cmd_terminal q)) (nrange (N.to_nat cmd_size)).
Lemma acc_term_check_ok : acc_term_check = true.
Proof. vm_compute. reflexivity. Qed.

Lemma acc_terminal q : cmd_accepting q = true -> cmd_terminal q = true.
Proof.
  intros Ha. destruct (N.ltb_spec q cmd_size) as [Hq|Hq].
  - pose proof acc_term_check_ok as H. unfold acc_term_check in H. rewrite forallb_forall in H.
    assert (Hin : In q (nrange (N.to_nat cmd_size))) by (apply nrange_In; lia).
    specialize (H q Hin). rewrite Ha in H. exact H.
  - unfold cmd_accepting, cmd_info in Ha. rewrite nth_overflow in Ha; [discriminate|].
    destruct cmd_size_ok as [-> _]. lia.
Qed.

(* ---- the fold ---- *)
Definition idle (s : st) : Prop := sres s = [] /\ scand s = None.

Lemma st_init_idle : idle st_init.
Proof. split; reflexivity. Qed.

Definition opt_list {A} (o : option A) : list A := match o with Some x => [x] | None => [] end.

(* one input byte, including the immediate re-parse of a byte that gets rescheduled *)
Definition bstep (s : st) (b : N) : st * list tok :=
  let '(s1, o) := decode_byte s b in
  match o with
  | None => (s1, [])
  | Some t =>
      match sres s1 with
      | [] => (s1, [t])
      | b' :: r =>
          let '(s2, o2) := decode_byte (mkst (sq s1) (sbuf s1) r (scand s1)) b' in
          (s2, t :: opt_list o2)
      end
  end.

Fixpoint run (s : st) (bytes : list N) : st * list tok :=
  match bytes with
  | [] => (s, [])
  | b :: r =>
      let '(s1, t1) := bstep s b in
      let '(s2, t2) := run s1 r in
      (s2, t1 ++ t2)
  end.

Definition cmds_of (toks : list tok) : list command :=
  flat_map (fun t => opt_list (cmd_of_tok t)) toks.

Lemma run_app s a b :
  run s (a ++ b) = let '(s1, t1) := run s a in let '(s2, t2) := run s1 b in (s2, t1 ++ t2).
Proof.
  revert s. induction a as [|x a IH]; intros s; cbn [app run].
  - destruct (run s b). reflexivity.
  - destruct (bstep s x) as [s1 t1]. rewrite IH.
    destruct (run s1 a) as [s2 t2]. destruct (run s2 b) as [s3 t3]. rewrite app_assoc. reflexivity.
Qed.

(* ---- decode_byte on an idle state ---- *)
Definition tok_ok (t : tok) : Prop := exists c, cmd_of_tok t = Some c.

Lemma decode_item_ok q buf : buf <> [] -> tok_ok (decode_item q buf).
Proof.
  intros Hb. unfold decode_item, tok_ok.
  assert (Hr : exists c, cmd_of_tok (TReject buf) = Some c) by (destruct buf; [contradiction| eexists; reflexivity]).
  destruct (cmd_tag q) as [[i|?]|]; try exact Hr.
  destruct i as [|p]; [destruct (sgr_face _); [eexists; reflexivity| exact Hr]|].
  destruct p; try exact Hr. destruct (utf8_decode buf); [eexists; reflexivity| exact Hr].
Qed.

Lemma app_one_nonempty {A} (l : list A) x : l ++ [x] <> [].
Proof. destruct l; discriminate. Qed.

Inductive byte_case (s : st) (b : N) : st * option tok -> Prop :=
| BC_continue q' :
    cmd_delta (sq s) b = Some q' -> cmd_accepting q' = false ->
    byte_case s b (mkst q' (sbuf s ++ [b]) [] None, None)
| BC_item q' :
    cmd_delta (sq s) b = Some q' -> cmd_accepting q' = true ->
    byte_case s b (st_init, Some (decode_item q' (sbuf s ++ [b])))
| BC_dead_resched :
    cmd_delta (sq s) b = None -> sbuf s <> [] ->
    byte_case s b (mkst cmd_start [] [b] None, Some (TReject (sbuf s)))
| BC_dead_single :
    cmd_delta (sq s) b = None -> sbuf s = [] ->
    byte_case s b (st_init, Some (TReject [b])).

Lemma decode_byte_idle s b : idle s -> byte_case s b (decode_byte s b).
Proof.
  destruct s as [q buf res cand]. intros [Hr Hc]. cbn [sres scand] in Hr, Hc. subst res cand.
  unfold decode_byte. cbn [sq sbuf sres scand].
  destruct (cmd_delta q b) as [q'|] eqn:Ed.
  - destruct (cmd_accepting q') eqn:Ea.
    + rewrite (acc_terminal q' Ea). unfold take_candidate. cbn [scand sbuf sres].
      rewrite skipn_all. cbn [app]. eapply (BC_item (mkst q buf [] None)); cbn [sq]; eassumption.
    + eapply (BC_continue (mkst q buf [] None)); cbn [sq]; eassumption.
  - unfold take_candidate. cbn [scand].
    destruct buf as [|x buf'].
    + cbn [app List.length Nat.ltb Nat.leb]. apply (BC_dead_single (mkst q [] [] None)); [exact Ed| reflexivity].
    + replace (Nat.ltb 1 (List.length ((x :: buf') ++ [b]))) with true.
      * apply (BC_dead_resched (mkst q (x :: buf') [] None)); [exact Ed| discriminate].
      * symmetry. apply Nat.ltb_lt. rewrite app_length. cbn. lia.
Qed.

(* after a reschedule the decoder is at the start with an empty buffer and one pending byte *)
Lemma bstep_spec s b :
  idle s ->
  idle (fst (bstep s b)) /\ Forall tok_ok (snd (bstep s b)).
Proof.
  intros Hs. unfold bstep. destruct (decode_byte_idle s b Hs) as [q' Hd Ha|q' Hd Ha|Hd Hb|Hd Hb]; cbn [sres fst snd].
  - split; [split; reflexivity| constructor].
  - split; [apply st_init_idle|]. constructor; [|constructor]. apply decode_item_ok, app_one_nonempty.
  - cbn [sq sbuf scand].
    destruct (decode_byte_idle (mkst cmd_start [] [] None) b st_init_idle) as [q2 Hd2 Ha2|q2 Hd2 Ha2|Hd2 Hb2|Hd2 Hb2];
      cbn [fst snd opt_list sbuf app] in *.
    + split; [split; reflexivity|]. constructor; [|constructor]. destruct (sbuf s); [contradiction| eexists; reflexivity].
    + split; [apply st_init_idle|]. constructor; [destruct (sbuf s); [contradiction| eexists; reflexivity]|].
      constructor; [|constructor]. apply decode_item_ok. discriminate.
    + contradiction.
    + split; [apply st_init_idle|]. constructor; [destruct (sbuf s); [contradiction| eexists; reflexivity]|].
      constructor; [eexists; reflexivity| constructor].
  - split; [apply st_init_idle|]. constructor; [eexists; reflexivity| constructor].
Qed.

Lemma run_spec : forall bytes s, idle s -> idle (fst (run s bytes)) /\ Forall tok_ok (snd (run s bytes)).
Proof.
  induction bytes as [|b r IH]; intros s Hs; cbn [run].
  - split; [exact Hs| constructor].
  - destruct (bstep_spec s b Hs) as [H1 H2]. destruct (bstep s b) as [s1 t1]. cbn [fst snd] in *.
    destruct (IH s1 H1) as [H3 H4]. destruct (run s1 r) as [s2 t2]. cbn [fst snd] in *.
    split; [exact H3| apply Forall_app; split; assumption].
Qed.

(* ---- the loops of the code compute the fold ---- *)
Lemma drain_idle fuel s : idle s -> drain (S fuel) s = Some (s, None).
Proof. intros [Hr _]. cbn [drain]. rewrite Hr. reflexivity. Qed.

Lemma tok_decode_idle s input : idle s -> tok_decode s input = Some (scan_input s input).
Proof. intros Hs. unfold tok_decode. rewrite drain_idle by exact Hs. reflexivity. Qed.

Lemma decode_into_run : forall input s fuel,
  idle s -> (2 * List.length input + 2 <= fuel)%nat ->
  decode_into fuel s input = Some (cmds_of (snd (run s input)), fst (run s input)).
Proof.
  induction input as [|b r IH]; intros s fuel Hs Hf.
  - destruct fuel as [|fuel]; [cbn in Hf; lia|]. cbn [decode_into].
    rewrite tok_decode_idle by exact Hs. reflexivity.
  - destruct fuel as [|fuel]; [cbn in Hf; lia|]. cbn [List.length] in Hf.
    cbn [decode_into run]. rewrite tok_decode_idle by exact Hs. cbn [scan_input].
    unfold bstep.
    destruct (decode_byte_idle s b Hs) as [q' Hd Ha|q' Hd Ha|Hd Hb|Hd Hb]; cbn [sres];
      try (change (sres st_init) with (@nil N); cbn iota).
    + (* no item yet: the same call goes on scanning *)
      set (s1 := mkst q' (sbuf s ++ [b]) [] None).
      assert (H1 : idle s1) by (split; reflexivity).
      specialize (IH s1 (S fuel) H1 ltac:(lia)). cbn [decode_into] in IH.
      rewrite tok_decode_idle in IH by exact H1.
      destruct (run s1 r) as [s2 t2]. cbn [fst snd app] in *. exact IH.
    + destruct (decode_item_ok q' (sbuf s ++ [b]) (app_one_nonempty _ _)) as [c Hc]. rewrite Hc.
      rewrite (IH st_init fuel st_init_idle ltac:(lia)).
      destruct (run st_init r) as [s2 t2]. cbn [fst snd app cmds_of flat_map opt_list]. rewrite Hc. reflexivity.
    + (* reject, one byte rescheduled: the next call re-parses it first *)
      assert (Hc : cmd_of_tok (TReject (sbuf s)) = Some (CmdRaw (sbuf s))) by (destruct (sbuf s); [contradiction| reflexivity]).
      rewrite Hc. cbn [sq sbuf scand].
      destruct fuel as [|fuel]; [lia|]. cbn [decode_into]. unfold tok_decode. cbn [sres List.length drain sq sbuf scand].
      destruct (decode_byte_idle (mkst cmd_start [] [] None) b st_init_idle) as [q2 Hd2 Ha2|q2 Hd2 Ha2|Hd2 Hb2|Hd2 Hb2];
        cbn [sbuf app sres] in *.
      * set (s2 := mkst q2 [b] [] None). assert (H2 : idle s2) by (split; reflexivity).
        specialize (IH s2 (S fuel) H2 ltac:(lia)). cbn [decode_into] in IH.
        rewrite tok_decode_idle in IH by exact H2.
        destruct (scan_input s2 r) as [[s3 o3] rest3].
        destruct (run s2 r) as [s4 t4]. cbn [fst snd opt_list app cmds_of flat_map] in *. rewrite Hc. cbn [opt_list app].
        destruct o3 as [t3|].
        -- destruct (cmd_of_tok t3) as [c3|].
           ++ destruct (decode_into fuel s3 rest3) as [[cs s5]|]; [|discriminate].
              inversion IH; subst. reflexivity.
           ++ inversion IH; subst. reflexivity.
        -- inversion IH; subst. reflexivity.
      * destruct (decode_item_ok q2 [b] ltac:(discriminate)) as [c2 Hc2]. rewrite Hc2.
        rewrite (IH st_init fuel st_init_idle ltac:(lia)).
        destruct (run st_init r) as [s2 t2]. cbn [fst snd app cmds_of flat_map opt_list]. rewrite Hc, Hc2. reflexivity.
      * contradiction.
      * rewrite (IH st_init fuel st_init_idle ltac:(lia)).
        destruct (run st_init r) as [s2 t2]. cbn [fst snd app cmds_of flat_map opt_list]. rewrite Hc. reflexivity.
    + rewrite (IH st_init fuel st_init_idle ltac:(lia)).
      destruct (run st_init r) as [s2 t2]. reflexivity.
Qed.

(* independence of chunking: one decode_into per chunk = the fold over the whole stream *)
Theorem decode_chunks_run : forall chunks s,
  idle s ->
  decode_chunks s chunks = Some (cmds_of (snd (run s (List.concat chunks))), fst (run s (List.concat chunks))).
Proof.
  induction chunks as [|c cs IH]; intros s Hs; cbn [decode_chunks List.concat].
  - reflexivity.
  - rewrite decode_into_run; [|exact Hs| unfold fuel_for; lia].
    rewrite run_app. destruct (run_spec c s Hs) as [H1 _].
    destruct (run s c) as [s1 t1]. cbn [fst snd] in *.
    rewrite (IH s1 H1). destruct (run s1 (List.concat cs)) as [s2 t2]. cbn [fst snd].
    unfold cmds_of. rewrite flat_map_app. reflexivity.
Qed.

Corollary decode_chunks_whole chunks :
  decode_chunks st_init chunks = decode_chunks st_init [List.concat chunks].
Proof.
  rewrite !decode_chunks_run by apply st_init_idle. cbn [List.concat]. rewrite app_nil_r. reflexivity.
Qed.

(* ---- single steps along a path of the automaton ---- *)
Lemma bstep_continue s b q' :
  idle s -> cmd_delta (sq s) b = Some q' -> cmd_accepting q' = false ->
  bstep s b = (mkst q' (sbuf s ++ [b]) [] None, []).
Proof.
  intros Hs Hd Ha. unfold bstep.
  destruct (decode_byte_idle s b Hs) as [q2 Hd2 Ha2|q2 Hd2 Ha2|Hd2 Hb|Hd2 Hb]; rewrite Hd in Hd2; try discriminate.
  - inversion Hd2; subst. reflexivity.
  - inversion Hd2; subst. rewrite Ha in Ha2. discriminate.
Qed.

Lemma bstep_accept s b q' :
  idle s -> cmd_delta (sq s) b = Some q' -> cmd_accepting q' = true ->
  bstep s b = (st_init, [decode_item q' (sbuf s ++ [b])]).
Proof.
  intros Hs Hd Ha. unfold bstep.
  destruct (decode_byte_idle s b Hs) as [q2 Hd2 Ha2|q2 Hd2 Ha2|Hd2 Hb|Hd2 Hb]; rewrite Hd in Hd2; try discriminate.
  - inversion Hd2; subst. rewrite Ha in Ha2. discriminate.
  - inversion Hd2; subst. reflexivity.
Qed.

(* ---- SGR sequences: ESC [ <parameter bytes> m ---- *)
Definition pbytes : list N := map (fun i => 48 + i) (nrange 12).

Lemma pbytes_in b : param_byte b = true -> In b pbytes.
Proof.
  unfold param_byte. intros H. unfold pbytes. apply in_map_iff. exists (b - 48). split; [lia|].
  apply nrange_In. lia.
Qed.

Definition tag_is (q : N) (i : N) : bool :=
  match cmd_tag q with Some (inl j) => j =? i | _ => false end.

Definition sgr_local (q : N) : bool :=
  negb (cmd_accepting q)
  && match cmd_delta q 109 with Some qf => cmd_accepting qf && tag_is qf 0 | None => false end.
Definition mem (q : N) (S : list N) : bool := existsb (N.eqb q) S.
Definition stays (S : list N) (q : N) : bool :=
  forallb (fun b => match cmd_delta q b with Some q' => mem q' S | None => false end) pbytes.
Fixpoint refine (fuel : nat) (S : list N) : list N :=
  match fuel with O => S | S f => refine f (filter (stays S) S) end.
(* the states in which the parameter bytes of an SGR sequence are read *)
Definition sgr_S : list N :=
  refine (N.to_nat cmd_size) (filter sgr_local (nrange (N.to_nat cmd_size))).

Definition sgr_check : bool :=
  forallb (fun q => sgr_local q && stays sgr_S q) sgr_S
  && match cmd_delta cmd_start 27 with
     | Some q1 => negb (cmd_accepting q1)
                  && match cmd_delta q1 91 with
                     | Some q2 => negb (cmd_accepting q2) && mem q2 sgr_S
                     | None => false
                     end
     | None => false
     end.
Lemma sgr_check_ok : sgr_check = true.
Proof. vm_compute. reflexivity. Qed.

Global Opaque sgr_S.

Lemma mem_In q S : mem q S = true -> In q S.
Proof. unfold mem. rewrite existsb_exists. intros (x & Hx & E). apply N.eqb_eq in E. subst. exact Hx. Qed.

Lemma sgr_S_step q b :
  In q sgr_S -> param_byte b = true ->
  exists q', cmd_delta q b = Some q' /\ In q' sgr_S /\ cmd_accepting q' = false.
Proof.
  intros Hq Hb. pose proof sgr_check_ok as H. unfold sgr_check in H. apply andb_true_iff in H. destruct H as [H _].
  rewrite forallb_forall in H. pose proof (H q Hq) as Hq1. apply andb_true_iff in Hq1. destruct Hq1 as [_ Hst].
  unfold stays in Hst. rewrite forallb_forall in Hst. specialize (Hst b (pbytes_in b Hb)).
  destruct (cmd_delta q b) as [q'|]; [|discriminate]. apply mem_In in Hst.
  exists q'. refine (conj eq_refl (conj Hst _)).
  specialize (H q' Hst). apply andb_true_iff in H. destruct H as [Hl _]. unfold sgr_local in Hl.
  apply andb_true_iff in Hl. destruct Hl as [Hl _]. apply negb_true_iff in Hl. exact Hl.
Qed.

Lemma sgr_S_final q :
  In q sgr_S -> exists qf, cmd_delta q 109 = Some qf /\ cmd_accepting qf = true /\ tag_is qf 0 = true.
Proof.
  intros Hq. pose proof sgr_check_ok as H. unfold sgr_check in H. apply andb_true_iff in H. destruct H as [H _].
  rewrite forallb_forall in H. specialize (H q Hq). apply andb_true_iff in H. destruct H as [Hl _].
  unfold sgr_local in Hl. apply andb_true_iff in Hl. destruct Hl as [_ Hl].
  destruct (cmd_delta q 109) as [qf|] eqn:Ef; [|discriminate]. apply andb_true_iff in Hl.
  destruct Hl as [Hl1 Hl2]. exists qf. exact (conj eq_refl (conj Hl1 Hl2)).
Qed.

Lemma sgr_entry :
  exists q1 q2, cmd_delta cmd_start 27 = Some q1 /\ cmd_accepting q1 = false
                /\ cmd_delta q1 91 = Some q2 /\ cmd_accepting q2 = false /\ In q2 sgr_S.
Proof.
  pose proof sgr_check_ok as H. unfold sgr_check in H. apply andb_true_iff in H. destruct H as [_ H].
  destruct (cmd_delta cmd_start 27) as [q1|] eqn:E1; [|discriminate]. apply andb_true_iff in H. destruct H as [H1 H].
  destruct (cmd_delta q1 91) as [q2|] eqn:E2; [|discriminate]. apply andb_true_iff in H. destruct H as [H2 H3].
  exists q1, q2. apply negb_true_iff in H1, H2. apply mem_In in H3.
  exact (conj eq_refl (conj H1 (conj E2 (conj H2 H3)))).
Qed.

Lemma run_params : forall ps q buf,
  In q sgr_S -> forallb param_byte ps = true ->
  exists qf, tag_is qf 0 = true
             /\ run (mkst q buf [] None) (ps ++ [109]) = (st_init, [decode_item qf (buf ++ ps ++ [109])]).
Proof.
  induction ps as [|b ps IH]; intros q buf Hq Hps.
  - destruct (sgr_S_final q Hq) as (qf & Hd & Ha & Ht). exists qf. split; [exact Ht|].
    cbn [app run]. rewrite (bstep_accept (mkst q buf [] None) 109 qf); [reflexivity| split; reflexivity| exact Hd| exact Ha].
  - cbn [forallb] in Hps. apply andb_true_iff in Hps. destruct Hps as [Hb Hps].
    destruct (sgr_S_step q b Hq Hb) as (q' & Hd & Hq' & Ha).
    destruct (IH q' (buf ++ [b]) Hq' Hps) as (qf & Ht & Hrun). exists qf. split; [exact Ht|].
    cbn [app run]. rewrite (bstep_continue (mkst q buf [] None) b q'); [|split; reflexivity| exact Hd| exact Ha].
    cbn [sbuf]. rewrite Hrun. rewrite <- app_assoc. reflexivity.
Qed.

Lemma sgr_payload_wrap ps : sgr_payload ([27; 91] ++ ps ++ [109]) = ps.
Proof. unfold sgr_payload. cbn [app skipn]. apply removelast_last. Qed.

Lemma decode_item_sgr qf w m :
  tag_is qf 0 = true -> sgr_face (sgr_payload w) = Some m -> decode_item qf w = TItem (CmdFaceModify m).
Proof.
  unfold decode_item, tag_is. intros Ht Hm.
  destruct (cmd_tag qf) as [[j|?]|]; try discriminate. apply N.eqb_eq in Ht. subst j. rewrite Hm. reflexivity.
Qed.

(* a complete SGR sequence read from the initial state is one FaceModify item *)
Theorem run_sgr ps m :
  forallb param_byte ps = true -> sgr_face ps = Some m ->
  run st_init ([27; 91] ++ ps ++ [109]) = (st_init, [TItem (CmdFaceModify m)]).
Proof.
  intros Hps Hm. destruct sgr_entry as (q1 & q2 & Hd1 & Ha1 & Hd2 & Ha2 & Hq2).
  destruct (run_params ps q2 [27; 91] Hq2 Hps) as (qf & Ht & Hrun). clear Hq2.
  change ([27; 91] ++ ps ++ [109]) with (27 :: 91 :: (ps ++ [109])).
  cbn [run].
  rewrite (bstep_continue st_init 27 q1 st_init_idle Hd1 Ha1).
  rewrite (bstep_continue (mkst q1 (sbuf st_init ++ [27]) [] None) 91 q2 (conj eq_refl eq_refl) Hd2 Ha2).
  change (sbuf (mkst q1 (sbuf st_init ++ [27]) [] None) ++ [91]) with [27; 91].
  rewrite Hrun.
  rewrite (decode_item_sgr qf ([27; 91] ++ ps ++ [109]) m Ht); [reflexivity|].
  rewrite sgr_payload_wrap. exact Hm.
Qed.
