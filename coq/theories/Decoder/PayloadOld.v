(* The payload decoders as they were BEFORE the `fix:` commits of C02 (crate
   worktree: 17cbbd3 number_decode, 74bf110 one-based coordinates, 909a23c CSI u,
   14616ff UTF-8 scalar values), kept to record how the property failed:
   Props/C02.v proves that each of them panicked on a string the production
   automaton accepts.  Only the bodies that changed are repeated here. *)
From Coq Require Import List NArith Arith Bool.
From SNT Require Import Base.Outcome Decoder.Payload.
Import ListNotations.
Local Open Scope N_scope.

Definition site_ub : N := 7.   (* char::from_u32_unchecked on a non-scalar value: abort (debug) / UB (release) *)

(* number_decode, old: from the right, `result += digit * mult; mult *= 10` in usize *)
Fixpoint number_decode_old_aux (rev_digits : list N) (result mult : N) : outcome (option N) :=
  match rev_digits with
  | [] => Ok (Some result)
  | b :: r =>
      if is_digit b then
        let p := (b - 48) * mult in
        if usize_max <? p then Panic site_arith
        else if usize_max <? result + p then Panic site_arith
        else if usize_max <? mult * 10 then Panic site_arith
        else number_decode_old_aux r (result + p) (mult * 10)
      else Ok None
  end.
Definition number_decode_old (l : list N) : outcome (option N) := number_decode_old_aux (rev l) 0 1.

(* numbers_decode(..).next(): pieces are decoded lazily, one `next()` at a time *)
Fixpoint next_number (pieces : list (list N)) : outcome (option (N * list (list N))) :=
  match pieces with
  | [] => Ok None
  | p :: r =>
      let* o := number_decode_old p in
      match o with
      | Some n => Ok (Some (n, r))
      | None => next_number r
      end
  end.

Definition sub1_old (n : N) : outcome N := if n =? 0 then Panic site_arith else Ok (n - 1).

(* CursorPositionMatcher::decode, old: `row: nums.next()? - 1, col: nums.next()? - 1` *)
Definition dec_cursor_old (data : list N) : outcome pres :=
  let* body := mid data 2 1 in
  let* a := next_number (split_on 59 body) in
  match a with
  | None => Ok RNone
  | Some (r, rest) =>
      let* row := sub1_old r in
      let* b := next_number rest in
      match b with
      | None => Ok RNone
      | Some (c, _) => let* col := sub1_old c in Ok (RSome (PCursor row col))
      end
  end.

(* MouseEventMatcher::decode, old: `let col = nums.next()? - 1; let row = nums.next()? - 1;` *)
Definition dec_mouse_old (data : list N) : outcome pres :=
  let* body := mid data 3 1 in
  let* a := next_number (split_on 59 body) in
  match a with
  | None => Ok RNone
  | Some (_, rest) =>
      let* b := next_number rest in
      match b with
      | None => Ok RNone
      | Some (c, rest2) =>
          let* _ := sub1_old c in
          let* r := next_number rest2 in
          match r with
          | None => Ok RNone
          | Some (r, _) => let* _ := sub1_old r in Ok (RSome PTermcap)   (* rest of the body irrelevant here *)
          end
      end
  end.

(* KittyKeyboardMatcher::decode, old: `if data[0] == b'?'` on the parameter slice *)
Definition dec_kitty_keyboard_old (data : list N) : outcome pres :=
  let* body := mid data 2 1 in
  let* _ := index body 0 in
  Ok RNone.                                                   (* rest of the body irrelevant here *)

(* utf8_decode, old: `unsafe { char::from_u32_unchecked(code) }` *)
Definition utf8_decode_old (slice : list N) : outcome N :=
  let* c := utf8_code slice in
  if scalar_ok c then Ok c else Panic site_ub.
