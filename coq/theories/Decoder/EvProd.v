(* TTYEventDecoder over the regenerated production automaton (Gen/ProdDFA.v), the regenerated
   key names (Gen/C04Keys.v) and the code lists of DecMode / DecModeStatus::from_usize. *)
From Coq Require Import List NArith Bool.
From SNT Require Import Base.Outcome Automata.DfaData Automata.Tokenizer Decoder.EvModel Decoder.KeyTable Decoder.Printer.
From SNT Require Import Gen.ProdDFA Gen.C04Keys.
Import ListNotations.
Local Open Scope N_scope.

Definition prod_item := ev_item event_dfa event_matcher_ids event_item_keys decmode_codes decstatus_codes.
Definition prod_munch := ev_munch event_dfa event_matcher_ids event_item_keys decmode_codes decstatus_codes.
Definition prod_decode := ev_decode event_dfa event_matcher_ids event_item_keys decmode_codes decstatus_codes.
Definition prod_run (w : list N) : option N := run N (d_start event_dfa) (d_delta event_dfa) w.

(* (byte sequence, literal item index) for every literal key of the automaton *)
Definition prod_literals : list (list N * N) := Eval vm_compute in literal_table event_dfa.

(* the library's naming table: sequence -> key (an item without a regenerated name would be
   dropped here and then fail the table theorems, never silently named Esc) *)
Definition prod_key_table : list (list N * (kname * N)) :=
  flat_map (fun e => match nth_error event_item_keys (N.to_nat (snd e)) with
                     | Some k => [(fst e, k)]
                     | None => []
                     end) prod_literals.

(* a sequence is self-delimiting when the automaton is in a terminal accepting state after it *)
Definition self_delimiting (w : list N) : bool :=
  match prod_run w with
  | Some q => d_accepting event_dfa q && d_terminal event_dfa q
  | None => false
  end.

(* well-formedness is decided on the specification side only *)
Definition prod_wf (r : report) : bool := wf decmode_all prod_key_table r.

Definition prod_denote := denote prod_key_table.

(* the same events computed by the incremental tokeniser itself (one read holding the whole
   stream): linear in the stream, used to evaluate the case files; equal to `prod_decode` by
   C03's theorem (C04_chunking / C04_fast_decode) *)
Definition prod_decode_fast (s : list N) : list tev :=
  match feed N tev (d_start event_dfa) (d_delta event_dfa) (d_accepting event_dfa) (d_terminal event_dfa) prod_item
             (length s + 3) (init (d_start event_dfa)) [s] with
  | Ok (ts, _) => map (tok_event) ts
  | _ => [ERaw [255; 255; 255; 255]]
  end.
