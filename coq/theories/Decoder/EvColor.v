(* C04: OSC 4 / 10 / 11 colour reports in the rgb: forms with 4, 8, 12 and 16 bits per channel
   and in the #rrggbb form, terminated by ST or BEL. *)
From Coq Require Import List NArith Bool Lia Arith ZifyBool ZifyNat ZifyN.
From SNT Require Import Base.Outcome Base.Sweep Base.Dec10 Base.Dec10Proofs Render.FaceModel.
From SNT Require Import Automata.DfaData Automata.PatReach Automata.PatReachProofs.
From SNT Require Import Decoder.Sgr Decoder.SgrProofs Decoder.EvModel Decoder.Printer Decoder.EvProd Decoder.EvProofs
  Decoder.EvFamilies Decoder.EvFamilies2.
From SNT Require Import Gen.ProdDFA Gen.C04Keys.
Import ListNotations.
Local Open Scope N_scope.

Definition OSCB : pat := PSet [(0, 6); (8, 26); (28, 255)].
Definition pat_osc : pat :=
  PSeq (PLit [27; 93]) (PSeq NUM (PSeq (PLit [59]) (PSeq (PPlus OSCB) (PAlt (PLit [27; 92]) (PLit [7]))))).
Lemma check_osc : family_check event_dfa pat_osc (fam_good 8) = true.
Proof. vm_compute. reflexivity. Qed.

(* bytes of a colour specification: ASCII, no ESC / BEL / ';' *)
Definition plain (b : N) : bool := (b <? 128) && negb (b =? 27) && negb (b =? 7) && negb (b =? 59).

Definition chan_ok (form : cform) (upper : bool) (v : N) : bool :=
  negb (v <? chan_bound form)
  || (forallb (fun b => plain b && negb (b =? 47)) (chan form upper v)
      && match form with
         | Hash2 => match hex_value (chan form upper v) 0 with Some x => (x =? v) && (scale8 Hash2 v =? v) | None => false end
                    && Nat.eqb (length (chan form upper v)) 2
         | _ => match parse_component (chan form upper v) with Some x => x =? scale8 form v | None => false end
         end).

(* every channel value of every width: 16 + 256 + 4096 + 65536 + 256 values, both letter cases *)
Lemma chan_sweep :
  forallb (fun form => forallb (fun upper => sweep_pow (4 * chan_digits form) 0 (chan_ok form upper)) [true; false])
          [Rgb1; Rgb2; Rgb3; Rgb4; Hash2] = true.
(* one evaluation only: the kernel checks the cast with the VM at Qed *)
Proof. vm_cast_no_check (@eq_refl bool true). Qed.

Lemma chan_bound_le form : chan_bound form <= 65536.
Proof. destruct form; vm_compute; discriminate. Qed.

Lemma chan_spec form upper v :
  v < chan_bound form ->
  forallb (fun b => plain b && negb (b =? 47)) (chan form upper v) = true
  /\ match form with
     | Hash2 => hex_value (chan form upper v) 0 = Some v /\ scale8 Hash2 v = v /\ length (chan form upper v) = 2%nat
     | _ => parse_component (chan form upper v) = Some (scale8 form v)
     end.
Proof.
  intros Hv. pose proof chan_sweep as H. rewrite forallb_forall in H.
  assert (Hf : In form [Rgb1; Rgb2; Rgb3; Rgb4; Hash2]) by (destruct form; cbn; tauto).
  specialize (H form Hf). cbv beta in H. rewrite forallb_forall in H.
  assert (Hu : In upper [true; false]) by (destruct upper; cbn; tauto). specialize (H upper Hu). cbv beta in H.
  assert (Hbits : 0 + 2 ^ N.of_nat (4 * chan_digits form) = chan_bound form) by (destruct form; reflexivity).
  pose proof (sweep_pow_sound (4 * chan_digits form) 0 _ H v ltac:(lia) ltac:(rewrite Hbits; exact Hv)) as Hs.
  unfold chan_ok in Hs. replace (v <? chan_bound form) with true in Hs by lia. cbn [negb orb] in Hs.
  apply andb_true_iff in Hs. destruct Hs as [H1 H2]. split; [exact H1|].
  destruct form.
  + destruct (parse_component _); [apply N.eqb_eq in H2; subst; reflexivity| discriminate].
  + destruct (parse_component _); [apply N.eqb_eq in H2; subst; reflexivity| discriminate].
  + destruct (parse_component _); [apply N.eqb_eq in H2; subst; reflexivity| discriminate].
  + destruct (parse_component _); [apply N.eqb_eq in H2; subst; reflexivity| discriminate].
  + apply andb_true_iff in H2. destruct H2 as [H2 H3]. apply Nat.eqb_eq in H3.
    destruct (hex_value _ 0); [|discriminate]. apply andb_true_iff in H2. destruct H2 as [H2 H4].
    apply N.eqb_eq in H2, H4. subst. auto.
Qed.

Lemma forallb_and {A} (f g : A -> bool) l :
  forallb (fun x => f x && g x) l = true -> forallb f l = true /\ forallb g l = true.
Proof.
  intros H. split; apply forallb_forall; intros x Hx; rewrite forallb_forall in H; specialize (H x Hx);
    apply andb_true_iff in H; tauto.
Qed.

Lemma not_in_of_forallb (c : N) l : forallb (fun b => negb (b =? c)) l = true -> ~ In c l.
Proof. intros H Hin. rewrite forallb_forall in H. specialize (H c Hin). rewrite N.eqb_refl in H. discriminate. Qed.

Lemma plain_no59 l : forallb plain l = true -> ~ In 59 l.
Proof.
  intros H Hin. rewrite forallb_forall in H. specialize (H 59 Hin). discriminate.
Qed.

(* ASCII text is valid UTF-8 *)
Lemma ascii_valid_aux : forall f l,
  (length l <= f)%nat -> forallb (fun b => b <? 128) l = true -> utf8_valid_aux f l = true.
Proof.
  induction f as [|f IH]; intros l Hl Ha.
  - destruct l; [reflexivity| cbn in Hl; lia].
  - destruct l as [|b r]; [reflexivity|]. cbn [forallb] in Ha. apply andb_true_iff in Ha. destruct Ha as [Hb Hr].
    cbn [utf8_valid_aux]. rewrite Hb. apply IH; [cbn in Hl; lia| exact Hr].
Qed.
Lemma ascii_valid l : forallb (fun b => b <? 128) l = true -> utf8_valid l = true.
Proof. intros H. apply ascii_valid_aux; [apply Nat.le_refl| exact H]. Qed.

Lemma plain_ascii l : forallb plain l = true -> forallb (fun b => b <? 128) l = true.
Proof.
  intros H. apply forallb_forall. intros b Hb. rewrite forallb_forall in H. specialize (H b Hb).
  unfold plain in H. lia.
Qed.
Lemma plain_oscb l : forallb plain l = true -> forallb (in_ranges [(0, 6); (8, 26); (28, 255)]) l = true.
Proof.
  intros H. apply forallb_forall. intros b Hb. rewrite forallb_forall in H. specialize (H b Hb).
  unfold plain in H. unfold in_ranges. cbn. lia.
Qed.

Lemma forallb_app_intro {A} (f : A -> bool) a b : forallb f a = true -> forallb f b = true -> forallb f (a ++ b) = true.
Proof. intros. rewrite forallb_app. rewrite H, H0. reflexivity. Qed.

(* the colour specification: plain bytes, and parse_color gives the scaled colour *)
Lemma color_spec_ok r g b form upper :
  r < chan_bound form -> g < chan_bound form -> b < chan_bound form ->
  forallb plain (color_spec r g b form upper) = true
  /\ color_spec r g b form upper <> []
  /\ parse_color (color_spec r g b form upper) = Some (RGBA (scale8 form r) (scale8 form g) (scale8 form b) 255).
Proof.
  intros Hr Hg Hb.
  destruct (chan_spec form upper r Hr) as [Pr Vr].
  destruct (chan_spec form upper g Hg) as [Pg Vg].
  destruct (chan_spec form upper b Hb) as [Pb Vb].
  destruct (forallb_and _ _ _ Pr) as [Pr1 Pr2]. destruct (forallb_and _ _ _ Pg) as [Pg1 Pg2].
  destruct (forallb_and _ _ _ Pb) as [Pb1 Pb2].
  pose proof (not_in_of_forallb 47 _ Pr2) as Nr. pose proof (not_in_of_forallb 47 _ Pg2) as Ng.
  pose proof (not_in_of_forallb 47 _ Pb2) as Nb.
  unfold color_spec.
  assert (Hrgb : form <> Hash2 ->
    forallb plain ([114; 103; 98; 58] ++ chan form upper r ++ [47] ++ chan form upper g ++ [47] ++ chan form upper b) = true
    /\ parse_color ([114; 103; 98; 58] ++ chan form upper r ++ [47] ++ chan form upper g ++ [47] ++ chan form upper b)
       = Some (RGBA (scale8 form r) (scale8 form g) (scale8 form b) 255)).
  { intros Hf. split.
    - repeat apply forallb_app_intro; try assumption; reflexivity.
    - unfold parse_color.
      replace (existsb (N.eqb 47) ([114; 103; 98; 58] ++ chan form upper r ++ [47] ++ chan form upper g ++ [47] ++ chan form upper b)) with true.
      2:{ symmetry. apply existsb_exists. exists 47. split; [|reflexivity].
          apply in_or_app. right. apply in_or_app. right. left. reflexivity. }
      cbn [app]. rewrite (split_on_app 47 (chan form upper r)) by exact Nr.
      rewrite (split_on_app 47 (chan form upper g)) by exact Ng.
      rewrite (split_on_nosep 47 (chan form upper b)) by exact Nb.
      destruct form; try (exfalso; apply Hf; reflexivity); rewrite Vr, Vg, Vb; reflexivity. }
  destruct form; try (destruct (Hrgb ltac:(discriminate)) as [H1 H2]; split; [exact H1| split; [discriminate| exact H2]]).
  (* #rrggbb *)
  destruct Vr as (Vr & Sr & Lr), Vg as (Vg & Sg & Lg), Vb as (Vb & Sb & Lb). rewrite Sr, Sg, Sb.
  destruct (chan Hash2 upper r) as [|r1 [|r2 [|? ?]]] eqn:Er; try discriminate.
  destruct (chan Hash2 upper g) as [|g1 [|g2 [|? ?]]] eqn:Eg; try discriminate.
  destruct (chan Hash2 upper b) as [|b1 [|b2 [|? ?]]] eqn:Eb; try discriminate.
  split; [|split; [discriminate|]].
  - cbn [app]. cbn [forallb] in *. rewrite !andb_true_iff in *. tauto.
  - unfold parse_color. cbn [app].
    replace (existsb (N.eqb 47) [35; r1; r2; g1; g2; b1; b2]) with false.
    2:{ symmetry. cbn [existsb]. cbn [forallb] in Pr2, Pg2, Pb2. rewrite !andb_true_iff, !negb_true_iff in *.
        destruct Pr2 as [? [? _]], Pg2 as [? [? _]], Pb2 as [? [? _]].
        rewrite (N.eqb_sym 47 r1), (N.eqb_sym 47 r2), (N.eqb_sym 47 g1), (N.eqb_sym 47 g2), (N.eqb_sym 47 b1), (N.eqb_sym 47 b2).
        repeat match goal with H : (_ =? 47) = false |- _ => rewrite H; clear H end. reflexivity. }
    unfold parse_hash. rewrite Vr, Vg, Vb. reflexivity.
Qed.

Theorem single_color name r g b form upper e :
  wf decmode_all prod_key_table (RColor name r g b form upper e) = true -> single (RColor name r g b form upper e).
Proof.
  cbn [wf]. intros Hwf. rewrite !andb_true_iff in Hwf.
  destruct Hwf as [[[Hr Hg] Hb] Hname].
  destruct (color_spec_ok r g b form upper ltac:(lia) ltac:(lia) ltac:(lia)) as (Hplain & Hne & Hparse).
  set (spec := color_spec r g b form upper) in *.
  set (endb := match e with EndST => ST | EndBEL => [7] end).
  (* the name field and what follows the first ';' *)
  set (idb := match name with TFg => [49; 48] | TBg => [49; 49] | TPalette _ => [52] end).
  set (tail := match name with TPalette i => digits i ++ [59] ++ spec | _ => spec end).
  unfold single, prod_denote, denote. cbn [print].
  replace ([27; 93] ++ match name with TFg => [49; 48] | TBg => [49; 49] | TPalette i => [52; 59] ++ digits i end
           ++ [59] ++ color_spec r g b form upper ++ match e with EndST => ST | EndBEL => [7] end)
    with ([27; 93] ++ (idb ++ [59] ++ tail) ++ endb)
    by (unfold idb, tail, endb, spec; destruct name; list_eq).
  assert (Htail : forallb (fun x => plain x || (x =? 59)) tail = true /\ tail <> []).
  { unfold tail. destruct name as [| |i].
    - split; [|exact Hne]. apply forallb_forall. intros x Hx. rewrite forallb_forall in Hplain. rewrite (Hplain x Hx). reflexivity.
    - split; [|exact Hne]. apply forallb_forall. intros x Hx. rewrite forallb_forall in Hplain. rewrite (Hplain x Hx). reflexivity.
    - split; [|intros E; apply app_eq_nil in E; destruct E as [E _]; exact (digits_nonempty i E)].
      apply forallb_forall. intros x Hx. apply in_app_or in Hx. destruct Hx as [Hx|Hx].
      + pose proof (digits_all_digits i) as Hd. rewrite forallb_forall in Hd. specialize (Hd x Hx).
        unfold is_digit in Hd. unfold plain. lia.
      + cbn [app] in Hx. destruct Hx as [<-|Hx]; [reflexivity|].
        rewrite forallb_forall in Hplain. rewrite (Hplain x Hx). reflexivity. }
  destruct Htail as [Htail Htne].
  assert (Hid : idb = digits (match name with TFg => 10 | TBg => 11 | TPalette _ => 4 end))
    by (unfold idb; destruct name; reflexivity).
  fam_tac check_osc; [| discriminate |].
  - unfold pat_osc. apply matches_seq_lit. rewrite <- !app_assoc. rewrite Hid.
    apply MSeq; [apply matches_num|]. apply matches_seq_lit.
    apply MSeq.
    + apply matches_plus_set; [exact Htne|]. apply forallb_forall. intros x Hx. rewrite forallb_forall in Htail.
      specialize (Htail x Hx). unfold plain in Htail. unfold in_ranges. cbn. lia.
    + unfold endb. destruct e; [apply MAltL, MLit| apply MAltR, MLit].
  - payload_unfold. unfold dec_osc.
    assert (Hbody : (if last_byte ([27; 93] ++ (idb ++ [59] ++ tail) ++ endb) =? 7
                     then sl 2 1 ([27; 93] ++ (idb ++ [59] ++ tail) ++ endb)
                     else sl 2 2 ([27; 93] ++ (idb ++ [59] ++ tail) ++ endb)) = idb ++ [59] ++ tail).
    { unfold endb. destruct e.
      - replace (last_byte ([27; 93] ++ (idb ++ [59] ++ tail) ++ ST)) with 92.
        + change (92 =? 7) with false. cbn iota. apply (sl_mid [27; 93] _ [27; 92]).
        + unfold ST. change [27; 92] with ([27] ++ [92]). rewrite !app_assoc. symmetry. apply last_byte_app.
      - rewrite app_assoc, last_byte_app. change (7 =? 7) with true. cbn iota. rewrite <- app_assoc. apply (sl_mid [27; 93] _ [7]). }
    rewrite Hbody. cbn [app].
    rewrite (split_on_app 59 idb) by (rewrite Hid; apply no59).
    rewrite Hid, number_decode_digits.
    unfold tail. destruct name as [| |i].
    + rewrite (split_on_nosep 59 spec) by (apply plain_no59, Hplain).
      change (10 =? 10) with true. cbn iota.
      rewrite (ascii_valid spec (plain_ascii _ Hplain)), Hparse. reflexivity.
    + rewrite (split_on_nosep 59 spec) by (apply plain_no59, Hplain).
      change (11 =? 10) with false. change (11 =? 11) with true. cbn iota.
      rewrite (ascii_valid spec (plain_ascii _ Hplain)), Hparse. reflexivity.
    + cbn [app]. rewrite (split_on_app 59 (digits i)) by apply no59.
      rewrite (split_on_nosep 59 spec) by (apply plain_no59, Hplain).
      change (4 =? 10) with false. change (4 =? 11) with false. change (4 =? 4) with true. cbn iota.
      rewrite number_decode_digits.
      rewrite (ascii_valid spec (plain_ascii _ Hplain)), Hparse. reflexivity.
Qed.
