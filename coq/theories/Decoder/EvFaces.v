(* C04: SGR sequences and DECRPSS face reports received as events; their meaning is the
   reference SGR machine of C06. *)
From Coq Require Import List NArith Bool Lia Arith ZifyBool ZifyNat ZifyN.
From SNT Require Import Base.Sweep Base.Dec10 Render.FaceModel Render.FaceModelProofs.
From SNT Require Import Automata.DfaData Automata.PatReach Automata.PatReachProofs.
From SNT Require Import Decoder.Sgr Decoder.SgrRef Decoder.SgrSemProofs Decoder.EvModel Decoder.Printer Decoder.EvProd
  Decoder.EvProofs Decoder.EvFamilies.
From SNT Require Import Gen.ProdDFA Gen.C04Keys.
Import ListNotations.
Local Open Scope N_scope.

Definition PB : pat := PSet [(48, 59)].
Definition pat_sgr : pat := PSeq (PLit [27; 91]) (PSeq (PStar PB) (PLit [109])).
Definition pat_facerep : pat := PSeq (PLit [27; 80; 49; 36; 114]) (PSeq (PStar PB) (PLit [109; 27; 92])).
Lemma check_sgr : family_check event_dfa pat_sgr (fam_good 4) = true.
Proof. vm_compute. reflexivity. Qed.
Lemma check_facerep : family_check event_dfa pat_facerep (fam_good 9) = true.
Proof. vm_compute. reflexivity. Qed.

Lemma params_match p : forallb param_byte p = true -> matches (PStar PB) p.
Proof.
  intros H. apply matches_star_set. apply forallb_forall. intros b Hb. rewrite forallb_forall in H.
  specialize (H b Hb). unfold param_byte in H. unfold in_ranges. cbn. lia.
Qed.

Lemma sgr_wf_bytes p : sgr_wf p = true -> forallb param_byte p = true.
Proof. unfold sgr_wf. rewrite !andb_true_iff. tauto. Qed.

(* an SGR sequence is decoded to a modification whose meaning is the reference machine *)
Theorem sgr_event_lib p :
  sgr_wf p = true ->
  exists m, single_bytes (print (RSgr p)) (EFaceModify m) /\ forall r, rapply m r = ref_sgr_lib p r.
Proof.
  intros Hwf. destruct (sgr_face_sem_lib p Hwf) as (m & Hm & Hsem). exists m. split; [|exact Hsem].
  cbn [print]. change (CSI ++ p ++ [109]) with ([27; 91] ++ p ++ [109]).
  fam_tac check_sgr; [| discriminate |].
  - unfold pat_sgr. apply matches_seq_lit. apply MSeq; [apply params_match, sgr_wf_bytes, Hwf| apply MLit].
  - payload_unfold. unfold dec_sgr. rewrite (sl_mid [27; 91] _ [109]), Hm. reflexivity.
Qed.

Theorem sgr_event p :
  sgr_wf p = true -> sgr_inexpressible p = false ->
  exists m, single_bytes (print (RSgr p)) (EFaceModify m) /\ forall r, rapply m r = ref_sgr p r.
Proof.
  intros Hwf Hx. destruct (sgr_event_lib p Hwf) as (m & Hs & Hsem). exists m. split; [exact Hs|].
  intros r. rewrite Hsem. apply ref_sgr_lib_eq, Hx.
Qed.

(* canonical attribute bits: applying any modification to the default face gives the packed
   form of the resulting rendition *)
Definition canon_bits (v : ustyle * (bool * bool * bool * bool * bool)) : N :=
  let '(u, (b, i, k, r, s)) := v in
  ustyle_bits u + (if b then FA_BOLD else 0) + (if i then FA_ITALIC else 0)
  + (if k then FA_BLINK else 0) + (if r then FA_REVERSE else 0) + (if s then FA_STRIKE else 0).

Definition canon_check (ul : option ustyle) (bo it bl st : option bool) : bool :=
  attrs_pipeline ul bo it bl st 0 =? canon_bits (expected_view ul bo it bl st 0).
Lemma canon_check_ok : forallb5 canon_check all_ul all_ob all_ob all_ob all_ob = true.
Proof. vm_compute. reflexivity. Qed.

Lemma apply_default_canonical m :
  fm_apply m face_default = face_of_rface (rapply m rface_default).
Proof.
  pose proof (forallb5_sound canon_check all_ul all_ob all_ob all_ob all_ob canon_check_ok
                (m_underline m) (m_bold m) (m_italic m) (m_blink m) (m_strike m)
                (all_ul_in _) (all_ob_in _) (all_ob_in _) (all_ob_in _) (all_ob_in _)) as H.
  unfold canon_check in H. apply N.eqb_eq in H.
  assert (Hattrs : f_attrs (fm_apply m face_default)
                   = attrs_pipeline (m_underline m) (m_bold m) (m_italic m) (m_blink m) (m_strike m) 0).
  { rewrite fm_apply_attrs. destruct (m_reset m); reflexivity. }
  destruct (fm_apply m face_default) as [fg bg at_] eqn:E. cbn [f_attrs] in Hattrs. subst at_. rewrite H.
  unfold fm_apply in E. unfold face_of_rface, rapply, expected_view.
  change (attr_view 0) with (UNone, (false, false, false, false, false)).
  destruct (m_reset m); cbn [f_fg f_bg face_default] in E; inversion E; subst;
    cbn [rface_default r_fg r_bg r_ul r_bold r_italic r_blink r_reverse r_strike canon_bits];
    destruct (m_fg m), (m_bg m); reflexivity.
Qed.

Theorem single_facerep_lib p :
  sgr_wf p = true -> single_bytes (print (RFaceReport p)) (face_report_recorded p).
Proof.
  intros Hwf. destruct (sgr_face_sem_lib p Hwf) as (m & Hm & Hsem).
  unfold face_report_recorded. cbn [print].
  replace ([27; 80; 49; 36; 114] ++ p ++ [109] ++ ST) with ([27; 80; 49; 36; 114] ++ (p ++ [109]) ++ [27; 92])
    by (unfold ST; rewrite <- app_assoc; reflexivity).
  fam_tac check_facerep; [| discriminate |].
  - unfold pat_facerep. apply matches_seq_lit. rewrite <- app_assoc.
    apply MSeq; [apply params_match, sgr_wf_bytes, Hwf| apply MLit].
  - payload_unfold. unfold dec_report.
    rewrite (sl_mid [27; 80; 49; 36; 114] _ [27; 92]). cbn [nth_error app].
    change (49 =? 49) with true. cbn [negb].
    rewrite last_last, N.eqb_refl. rewrite removelast_last.
    replace (match p ++ [109] with [] => true | _ :: _ => false end) with false by (destruct p; reflexivity).
    cbn [negb andb]. rewrite Hm. f_equal. f_equal.
    rewrite apply_default_canonical, Hsem. reflexivity.
Qed.

Theorem single_facerep p :
  sgr_wf p = true -> sgr_inexpressible p = false -> single (RFaceReport p).
Proof.
  intros Hwf Hx. pose proof (single_facerep_lib p Hwf) as H.
  unfold single, prod_denote, denote, face_report_recorded in *. rewrite (ref_sgr_lib_eq p _ Hx) in H. exact H.
Qed.
