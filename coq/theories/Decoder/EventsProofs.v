(* Totality and well-formedness of the public decoders (Decoder/Events.v):
   generic in the automaton `d`, the registered matcher list `ids` and two shape
   certificates (lengths, XTWINOPS pieces) that Props/C02.v obtains by reflection
   on the regenerated production tables. *)
From Coq Require Import List NArith Arith Bool Lia.
From SNT Require Import Base.Outcome Automata.DfaData Automata.DfaDataProofs Automata.Tokenizer
  Automata.TokenizerRun Automata.TokenizerMunch Automata.TokenizerTheorems Automata.Reach
  Automata.ReachProofs Decoder.Payload Decoder.PayloadProofs Decoder.TermSizeProofs Decoder.TermcapProofs Decoder.Events.
Import ListNotations.
Local Open Scope N_scope.

(* the length (capped at 12) each payload decoder needs to slice its input *)
Definition need_len (id m : N) : bool :=
  match id with
  | 0 => true
  | 1 => 3 <=? m
  | 2 => 5 <=? m
  | 3 => 4 <=? m
  | 4 => 3 <=? m
  | 5 => 5 <=? m
  | 6 => 3 <=? m
  | 7 => 4 <=? m
  | 8 => 4 <=? m
  | 9 => 7 <=? m
  | 10 => 7 <=? m
  | 11 => true
  | 12 => (1 <=? m) && (m <=? 4)
  | 13 => 12 <=? m
  | 14 => 3 <=? m
  | _ => false
  end.

Lemma need_len_nat (k : N) (data : list N) :
  k <= 12 -> k <=? N.min (N.of_nat (length data)) len_cap = true -> (N.to_nat k <= length data)%nat.
Proof. intros Hk H. apply N.leb_le in H. unfold len_cap in H. lia. Qed.

Ltac len_from H :=
  match type of H with
  | (?k <=? _) = true => pose proof (need_len_nat k _ ltac:(lia) H)
  end.

Theorem payload_by_id_total tb id data :
  tabs_ok tb = true ->
  need_len id (N.min (N.of_nat (length data)) len_cap) = true ->
  (id = 11 -> ts_good (fold_left ts_step data ts_m0) = true) ->
  (id = 10 -> tc_good (fold_left tc_step data 0) = true) ->
  exists r, payload_by_id tb id data = Ok r.
Proof.
  intros Htb HL HT HC.
  destruct id as [|p]; [eexists; reflexivity|].
  do 4 (try (destruct p as [p|p|])); try (cbn in HL; discriminate);
    cbn [payload_by_id need_len] in *.
  all: try (apply dec_termcap_total_cert; [len_from HL; lia|apply HC; reflexivity]).
  all: try (apply dec_termsize_total; apply HT; reflexivity).
  all: try (apply andb_prop in HL; destruct HL as [H1 H2];
            apply N.leb_le in H1, H2; unfold len_cap in *; apply dec_utf8_total; lia).
  all: len_from HL;
    first [ apply dec_paste_total | apply (dec_report_total _ Htb) | apply dec_kitty_image_total
          | apply dec_mouse_total | apply dec_devattrs_total | apply dec_kitty_keyboard_total
          | apply dec_decmode_total | apply dec_modkey_total | apply dec_osc_total | apply (dec_sgr_total _ Htb) | apply dec_cursor_total ];
    lia.
Qed.

(* ------------------------------------------------------------------ *)
Section Total.
  Variable d : dfa.
  Variable ids : list N.
  Variable tb : dtabs.
  Variables VL VT VC : cert.

  Notation payload := (payload_at ids tb).
  Notation item := (item_of payload d).
  Notation run := (run N (d_start d) (d_delta d)).

  Definition len_good (q m : N) : bool :=
    match d_tag d q with
    | None => false
    | Some (true, _) => true
    | Some (false, i) =>
        match nth_error ids (N.to_nat i) with
        | Some id => need_len id m
        | None => false
        end
    end.

  Definition ts_good_q (q m : N) : bool :=
    match d_tag d q with
    | Some (false, i) =>
        match nth_error ids (N.to_nat i) with
        | Some 11 => ts_good m
        | _ => true
        end
    | _ => true
    end.

  Definition tc_good_q (q m : N) : bool :=
    match d_tag d q with
    | Some (false, i) =>
        match nth_error ids (N.to_nat i) with
        | Some 10 => tc_good m
        | _ => true
        end
    | _ => true
    end.

  Definition certs_ok : bool :=
    closed d len_step 0 VL && accept_ok d VL len_good
    && closed d ts_step ts_m0 VT && accept_ok d VT ts_good_q
    && closed d tc_step 0 VC && accept_ok d VC tc_good_q
    && tabs_ok tb.

  Hypothesis Hcerts : certs_ok = true.

  (* no payload decoder panics on a string the automaton accepts *)
  Theorem item_no_panic w q :
    run w = Some q -> d_accepting d q = true ->
    forall site, item q w <> Some (IPanic site).
  Proof.
    intros Hq Ha site.
    pose proof Hcerts as Hc. unfold certs_ok in Hc.
    apply andb_prop in Hc. destruct Hc as [Hc Htb].
    apply andb_prop in Hc. destruct Hc as [Hc HC2]. apply andb_prop in Hc. destruct Hc as [Hc HC1].
    apply andb_prop in Hc. destruct Hc as [Hc HT2].
    apply andb_prop in Hc. destruct Hc as [Hc HT1]. apply andb_prop in Hc. destruct Hc as [HL1 HL2].
    pose proof (accept_sound d len_step 0 len_step_bound ltac:(reflexivity) VL len_good HL1 HL2 w q Hq Ha) as GL.
    pose proof (accept_sound d ts_step ts_m0 ts_step_bound ts_m0_bound VT ts_good_q HT1 HT2 w q Hq Ha) as GT.
    pose proof (accept_sound d tc_step 0 tc_step_bound ltac:(reflexivity) VC tc_good_q HC1 HC2 w q Hq Ha) as GC.
    rewrite len_mrun in GL. unfold Reach.mrun in GT, GC.
    unfold item_of, len_good, ts_good_q, tc_good_q in *.
    destruct (d_tag d q) as [[[|] i]|]; [discriminate| |discriminate].
    unfold payload_at.
    destruct (nth_error ids (N.to_nat i)) as [id|] eqn:En; [|discriminate].
    destruct (payload_by_id_total tb id w Htb GL) as [r ->].
    - intros ->. exact GT.
    - intros ->. exact GC.
    - destruct r; discriminate.
  Qed.

  (* ---------------------------------------------------------------- *)
  (* the wrapper adds nothing: raw tokens are never empty *)

  Notation tstate := (st N pitem).

  Definition cand_ok (s : tstate) : Prop :=
    match scand s with Some (t, _) => span t <> [] | None => True end.

  Lemma decode_byte_cand_ok (s s' : tstate) b o :
    decode_byte N pitem (d_start d) (d_delta d) (d_accepting d) (d_terminal d) item s b = (s', o) ->
    cand_ok s -> cand_ok s' /\ match o with Some t => span t <> [] | None => True end.
  Proof.
    unfold decode_byte, take_candidate, cand_ok. cbn [sq sbuf sres scand].
    assert (Hne : forall (x : list N) y, x ++ [y] <> []) by (intros x y E; destruct x; discriminate).
    assert (Hmk : forall q' (x : list N), span (mk_tok N pitem item q' x) = x).
    { intros q' x. unfold mk_tok. destruct (item q' x); reflexivity. }
    destruct (d_delta d (sq s) b) as [q'|].
    - destruct (d_accepting d q'); [destruct (d_terminal d q')|]; cbn [sq sbuf sres scand];
        intros H Hc; inversion H; subst; cbn [scand]; try (split; [exact I|]); try (split; [|exact I]);
        rewrite ?Hmk; try apply Hne; try exact Hc; try exact I.
    - destruct (scand s) as [[t n]|]; cbn [sq sbuf sres scand].
      + intros H Hc; inversion H; subst. cbn [scand]. split; [exact I|exact Hc].
      + destruct (1 <? length (sbuf s ++ [b]))%nat eqn:E; intros H _; inversion H; subst; cbn [scand span];
          (split; [exact I|]).
        * apply Nat.ltb_lt in E. rewrite app_length in E. cbn in E. destruct (sbuf s); [cbn in E; lia|discriminate].
        * apply Hne.
  Qed.
End Total.
