(* C04: kitty graphics protocol replies  APC G i=<id>[,p=<placement>] ; OK|<message> ST *)
From Coq Require Import List NArith Bool Lia Arith ZifyBool ZifyNat ZifyN.
From SNT Require Import Base.Outcome Base.Sweep Base.Dec10 Base.Dec10Proofs.
From SNT Require Import Automata.DfaData Automata.PatReach Automata.PatReachProofs.
From SNT Require Import Decoder.Sgr Decoder.SgrProofs Decoder.EvModel Decoder.Printer Decoder.EvProd Decoder.EvProofs
  Decoder.EvFamilies Decoder.EvFamilies2.
From SNT Require Import Gen.ProdDFA Gen.C04Keys.
Import ListNotations.
Local Open Scope N_scope.

Definition AN : pat := PSet [(48, 57); (65, 90); (97, 122)].
Definition KV : pat := PSeq (PPlus AN) (PSeq (PLit [61]) (PPlus AN)).
Definition pat_kimg : pat :=
  PSeq (PLit [27; 95; 71])
       (PSeq KV (PSeq (PStar (PSeq (PLit [44]) KV))
                      (PSeq (PLit [59]) (PSeq (PStar (PSet [(0, 26); (28, 255)])) (PLit [27; 92]))))).
Lemma check_kimg : family_check event_dfa pat_kimg (fam_good 5) = true.
Proof. vm_compute. reflexivity. Qed.

Lemma digits_an n : matches (PPlus AN) (digits n).
Proof.
  apply matches_plus_set; [apply digits_nonempty|]. apply forallb_forall. intros b Hb.
  pose proof (digits_all_digits n) as H. rewrite forallb_forall in H. specialize (H b Hb).
  unfold is_digit in H. unfold in_ranges. cbn. lia.
Qed.

Lemma kv_match k n : in_ranges [(48, 57); (65, 90); (97, 122)] k = true -> matches KV ([k] ++ [61] ++ digits n).
Proof.
  intros Hk. apply MSeq; [|apply matches_seq_lit, digits_an].
  rewrite <- (app_nil_r [k]). apply MSeq; [apply MSet, Hk| apply MStarN].
Qed.

Lemma split_first_app sep a b : ~ In sep a -> split_first sep (a ++ sep :: b) = (a, Some b).
Proof.
  induction a as [|x a IH]; intros Hn; cbn [app split_first].
  - rewrite N.eqb_refl. reflexivity.
  - destruct (x =? sep) eqn:E; [apply N.eqb_eq in E; subst; exfalso; apply Hn; left; reflexivity|].
    rewrite IH; [reflexivity|]. intros Hin. apply Hn. right. exact Hin.
Qed.

Lemma digits_no b n : is_digit b = false -> ~ In b (digits n).
Proof. apply digits_no_byte. Qed.

Lemma bytes_eqb_refl a : bytes_eqb a a = true.
Proof.
  unfold bytes_eqb. rewrite Nat.eqb_refl. cbn [andb]. induction a as [|x a IH]; [reflexivity|].
  cbn [combine forallb fst snd]. rewrite N.eqb_refl. exact IH.
Qed.

Lemma no_in_kv (c k : N) n : is_digit c = false -> c <> k -> c <> 61 -> ~ In c ([k; 61] ++ digits n).
Proof.
  intros Hc Hk H61 Hin. cbn [app] in Hin. destruct Hin as [E|[E|Hin]]; [congruence| congruence|].
  exact (digits_no_byte n c Hc Hin).
Qed.

Lemma kv_item k n : k <> 61 -> split_first 61 ([k; 61] ++ digits n) = ([k], Some (digits n)).
Proof.
  intros Hk. change ([k; 61] ++ digits n) with ([k] ++ 61 :: digits n). apply split_first_app.
  intros [E|[]]. congruence.
Qed.

Theorem single_kimg id placement error :
  wf decmode_all prod_key_table (RKittyImage id placement error) = true -> single (RKittyImage id placement error).
Proof.
  cbn [wf]. intros Hwf. rewrite !andb_true_iff in Hwf. destruct Hwf as [[_ _] Herr].
  set (A := [105; 61] ++ digits id).
  set (head := A ++ match placement with Some p => [44] ++ [112; 61] ++ digits p | None => [] end).
  set (msg := match error with None => [79; 75] | Some m => m end).
  unfold single, prod_denote, denote. cbn [print].
  replace ([27; 95; 71] ++ [105; 61] ++ digits id
           ++ match placement with Some p => [44; 112; 61] ++ digits p | None => [] end
           ++ [59] ++ match error with None => [79; 75] | Some m => m end ++ ST)
    with ([27; 95; 71] ++ (head ++ [59] ++ msg) ++ [27; 92])
    by (unfold head, A, msg, ST; destruct placement; list_eq).
  assert (Hmsg : forallb text_byte_ok msg = true).
  { unfold msg. destruct error as [m|]; [|reflexivity]. rewrite !andb_true_iff in Herr. tauto. }
  assert (HA59 : ~ In 59 A) by (apply no_in_kv; [reflexivity| discriminate| discriminate]).
  assert (HA44 : ~ In 44 A) by (apply no_in_kv; [reflexivity| discriminate| discriminate]).
  assert (Hhead59 : ~ In 59 head).
  { unfold head. destruct placement as [p|]; [|rewrite app_nil_r; exact HA59].
    apply not_in_app; [exact HA59|]. intros [E|Hin]; [discriminate|].
    revert Hin. apply no_in_kv; [reflexivity| discriminate| discriminate]. }
  fam_tac check_kimg; [| discriminate |].
  - unfold pat_kimg. apply matches_seq_lit. unfold head. rewrite <- !app_assoc.
    apply MSeq; [apply (kv_match 105 id); reflexivity|].
    destruct placement as [p|].
    + match goal with |- matches _ ?w =>
        replace w with (([44] ++ [112; 61] ++ digits p) ++ ([59] ++ msg ++ [27; 92])) by list_eq end.
      apply MSeq.
      * rewrite <- (app_nil_r ([44] ++ [112; 61] ++ digits p)).
        apply MStarS; [apply matches_seq_lit, (kv_match 112 p); reflexivity| apply MStarN].
      * apply matches_seq_lit. apply MSeq; [apply matches_star_set, text_in_ranges, Hmsg| apply MLit].
    + cbn [app]. change (59 :: msg ++ [27; 92]) with ([] ++ [59] ++ msg ++ [27; 92]).
      apply MSeq; [apply MStarN|]. apply matches_seq_lit. apply MSeq; [apply matches_star_set, text_in_ranges, Hmsg| apply MLit].
  - payload_unfold. unfold dec_kitty_image. rewrite (sl_mid [27; 95; 71] _ [27; 92]).
    cbn [app]. rewrite (split_first_app 59 head msg Hhead59).
    assert (Hfields : kitty_fields (key_value_decode 44 head) 0 None = Some (id, placement)).
    { unfold key_value_decode, head. destruct placement as [p|].
      - cbn [app]. rewrite (split_on_app 44 A) by exact HA44.
        change (112 :: 61 :: digits p) with ([112; 61] ++ digits p).
        rewrite (split_on_nosep 44 ([112; 61] ++ digits p)) by (apply no_in_kv; [reflexivity| discriminate| discriminate]).
        cbn [filter_map]. unfold A. rewrite (kv_item 105 id), (kv_item 112 p) by discriminate.
        cbn [kitty_fields]. change (bytes_eqb [105] [105]) with true. change (bytes_eqb [112] [105]) with false.
        change (bytes_eqb [112] [112]) with true. cbn iota. rewrite !number_decode_digits. reflexivity.
      - rewrite app_nil_r. rewrite (split_on_nosep 44 A) by exact HA44.
        cbn [filter_map]. unfold A. rewrite (kv_item 105 id) by discriminate.
        cbn [kitty_fields]. change (bytes_eqb [105] [105]) with true. cbn iota. rewrite number_decode_digits. reflexivity. }
    rewrite Hfields. unfold msg. destruct error as [m|].
    + rewrite !andb_true_iff in Herr. destruct Herr as [_ Hok]. apply negb_true_iff in Hok. rewrite Hok. reflexivity.
    + reflexivity.
Qed.
