(* C02 assembled: the public decoders over any automaton with valid shape certificates. *)
From Coq Require Import List NArith Arith Bool Lia.
From SNT Require Import Base.Outcome Automata.DfaData Automata.DfaDataProofs Automata.Tokenizer
  Automata.TokenizerRun Automata.TokenizerMunch Automata.TokenizerTheorems Automata.Reach
  Automata.ReachProofs Decoder.Payload Decoder.PayloadProofs Decoder.TermSizeProofs Decoder.TermcapProofs Decoder.Events
  Decoder.EventsProofs.
Import ListNotations.
Local Open Scope N_scope.

Section Wrapper.
  Variable d : dfa.
  Variable ids : list N.
  Variable tb : dtabs.
  Notation payload := (payload_at ids tb).

  Notation item := (item_of payload d).
  Notation tstate := (st N pitem).
  Notation ttok := (tok pitem).
  Notation dbyte := (decode_byte N pitem (d_start d) (d_delta d) (d_accepting d) (d_terminal d) item).
  Notation gdrain := (drain N pitem (d_start d) (d_delta d) (d_accepting d) (d_terminal d) item).
  Notation gscan := (scan_input N pitem (d_start d) (d_delta d) (d_accepting d) (d_terminal d) item).

  Definition tok_nonempty (o : option ttok) : Prop :=
    match o with Some t => span t <> [] | None => True end.

  Lemma drain_cand_ok fuel : forall (s s' : tstate) o,
    gdrain fuel s = Ok (s', o) -> cand_ok s -> cand_ok s' /\ tok_nonempty o.
  Proof.
    induction fuel as [|f IH]; intros s s' o H Hc; [discriminate|].
    cbn [drain] in H. destruct (sres s) as [|b r].
    - inversion H; subst. split; [exact Hc|exact I].
    - destruct (dbyte (set_res s r) b) as [s1 o1] eqn:Hb.
      destruct (decode_byte_cand_ok d ids tb _ _ _ _ Hb Hc) as [Hc1 Ho1].
      destruct o1 as [t|].
      + inversion H; subst. split; assumption.
      + apply (IH _ _ _ H Hc1).
  Qed.

  Lemma scan_cand_ok input : forall (s s' : tstate) o rest,
    gscan s input = (s', o, rest) -> cand_ok s -> cand_ok s' /\ tok_nonempty o.
  Proof.
    induction input as [|b r IH]; intros s s' o rest H Hc.
    - cbn in H. inversion H; subst. split; [exact Hc|exact I].
    - cbn [scan_input] in H. destruct (dbyte s b) as [s1 o1] eqn:Hb.
      destruct (decode_byte_cand_ok d ids tb _ _ _ _ Hb Hc) as [Hc1 Ho1].
      destruct o1 as [t|].
      + inversion H; subst. split; assumption.
      + apply (IH _ _ _ _ H Hc1).
  Qed.

  Lemma decode_cand_ok (s s' : tstate) input o rest :
    t_decode d payload s input = Ok (s', o, rest) -> cand_ok s -> cand_ok s' /\ tok_nonempty o.
  Proof.
    unfold t_decode, decode.
    destruct (gdrain (S (length (sres s))) s) as [[s1 o1]| | |] eqn:Hd; cbn [bind]; try discriminate.
    intros H Hc. destruct (drain_cand_ok _ _ _ _ Hd Hc) as [Hc1 Ho1].
    destruct o1 as [t|].
    - inversion H; subst. split; assumption.
    - inversion H as [Hs]. apply (scan_cand_ok _ _ _ _ _ Hs Hc1).
  Qed.

  (* on states whose candidate is not an empty raw (all reachable ones) the Raw wrapper is transparent *)
  Lemma tty_decode_eq (s : tstate) input :
    cand_ok s -> tty_decode d payload s input = t_decode d payload s input.
  Proof.
    intros Hc. unfold tty_decode.
    destruct (t_decode d payload s input) as [[[s' o] rest]| | |] eqn:E; cbn [bind]; try reflexivity.
    destruct (decode_cand_ok _ _ _ _ _ E Hc) as [_ Ho].
    destruct o as [[i sp|[|b sp]]|]; try reflexivity. cbn in Ho. contradiction.
  Qed.

  Lemma tty_decode_into_eq fuel : forall (s : tstate) input,
    cand_ok s -> tty_decode_into d payload fuel s input = t_decode_into d payload fuel s input.
  Proof.
    induction fuel as [|f IH]; intros s input Hc; [reflexivity|].
    cbn [tty_decode_into]. unfold t_decode_into. cbn [decode_into]. rewrite (tty_decode_eq _ _ Hc).
    fold (t_decode d payload s input).
    destruct (t_decode d payload s input) as [[[s1 o] rest]| | |] eqn:E; cbn [bind]; try reflexivity.
    destruct (decode_cand_ok _ _ _ _ _ E Hc) as [Hc1 _].
    destruct o as [t|]; [|reflexivity]. rewrite (IH _ _ Hc1). reflexivity.
  Qed.

  Lemma decode_into_cand_ok fuel : forall (s s' : tstate) input ts rest,
    t_decode_into d payload fuel s input = Ok (ts, s', rest) -> cand_ok s -> cand_ok s'.
  Proof.
    induction fuel as [|f IH]; intros s s' input ts rest H Hc; [discriminate|].
    unfold t_decode_into in H. cbn [decode_into] in H. fold (t_decode d payload s input) in H.
    destruct (t_decode d payload s input) as [[[s1 o] rest1]| | |] eqn:E; cbn [bind] in H; try discriminate.
    destruct (decode_cand_ok _ _ _ _ _ E Hc) as [Hc1 _].
    destruct o as [t|].
    - fold (t_decode_into d payload f s1 rest1) in H.
      destruct (t_decode_into d payload f s1 rest1) as [[[ts2 s2] rest2]| | |] eqn:E2; cbn [bind] in H; try discriminate.
      inversion H; subst. apply (IH _ _ _ _ _ E2 Hc1).
    - inversion H; subst. exact Hc1.
  Qed.

  Lemma tty_feed_eq fuel chunks : forall (s : tstate),
    cand_ok s -> tty_feed d payload fuel s chunks = t_feed d payload fuel s chunks.
  Proof.
    induction chunks as [|c cs IH]; intros s Hc; [reflexivity|].
    cbn [tty_feed]. unfold t_feed. cbn [feed]. rewrite (tty_decode_into_eq _ _ _ Hc).
    fold (t_decode_into d payload fuel s c).
    destruct (t_decode_into d payload fuel s c) as [[[t1 s1] r1]| | |] eqn:E; cbn [bind]; try reflexivity.
    rewrite (IH _ (decode_into_cand_ok _ _ _ _ _ _ E Hc)). reflexivity.
  Qed.

  (* an exhausted decoder reports that nothing more is available *)
  Lemma decode_exhausted (s : tstate) : sres s = [] -> t_decode d payload s [] = Ok (s, None, []).
  Proof. intros H. unfold t_decode, decode. rewrite H. cbn [length drain]. rewrite H. reflexivity. Qed.

  (* every decode_item call is made on a string the automaton accepts *)
  Lemma call_accepted (s : tstate) b q' w :
    Inv N pitem (d_start d) (d_delta d) (d_accepting d) (d_terminal d) item s ->
    call_of d s b = Some (q', w) ->
    run N (d_start d) (d_delta d) w = Some q' /\ d_accepting d q' = true.
  Proof.
    intros (Hrun & _ & _). unfold call_of.
    destruct (d_delta d (sq s) b) as [q1|] eqn:Hd; [|discriminate].
    destruct (d_accepting d q1) eqn:Ha; [|discriminate].
    intros H; inversion H; subst. split; [|exact Ha].
    rewrite (run_snoc N (d_start d) (d_delta d)), Hrun. exact Hd.
  Qed.
End Wrapper.

(* ------------------------------------------------------------------ *)
Section Main.
  Variable d : dfa.
  Variable ids : list N.
  Variable tb : dtabs.
  Variables VL VT VC : cert.
  Hypothesis Hcerts : certs_ok d ids tb VL VT VC = true.

  Notation payload := (payload_at ids tb).
  Notation item := (item_of payload d).
  Notation run := (run N (d_start d) (d_delta d)).

  Definition no_panic (it : pitem) : Prop :=
    match it with IPanic _ => False | _ => True end.

  (* the item of every token was computed on an accepted string; none is a panic *)
  Lemma munch_items_ok (s : list N) :
    Forall (fun t => match t with TItem it _ => no_panic it | TRaw _ => True end)
           (fst (t_munch d payload s)).
  Proof.
    pose proof (Munch_items N pitem (d_start d) (d_delta d) (d_accepting d) (d_terminal d) item _ _ _
                  (munch_Munch N pitem (d_start d) (d_delta d) (d_accepting d) (d_terminal d) item s)) as H.
    unfold t_munch. eapply Forall_impl; [|exact H]. intros t [(q & Hq & Ha & Ht)|Ht].
    - rewrite Ht. unfold mk_tok. destruct (item q (span t)) as [it|] eqn:E; [|exact I].
      destruct it as [e|e|site]; try exact I. cbn.
      apply (item_no_panic d ids tb VL VT VC Hcerts _ _ Hq Ha site E).
    - rewrite Ht. exact I.
  Qed.

  Theorem tty_total (chunks : list (list N)) (fuel : nat) :
    (length (concat chunks) + 3 <= fuel)%nat ->
    exists s',
      tty_feed d payload fuel (t_init d) chunks = Ok (fst (t_munch d payload (concat chunks)), s') /\
      sbuf s' = snd (t_munch d payload (concat chunks)) /\
      tty_decode d payload s' [] = Ok (s', None, []) /\
      Forall (fun t => match t with TItem it _ => no_panic it | TRaw sp => sp <> [] end)
             (fst (t_munch d payload (concat chunks))).
  Proof.
    intros Hf.
    destruct (feed_munch N pitem (d_start d) (d_delta d) (d_accepting d) (d_terminal d) item chunks fuel Hf)
      as (s' & HF & Hb & Hr & Hrun & Hc).
    exists s'. rewrite tty_feed_eq by exact I. split; [exact HF|]. split; [exact Hb|]. split.
    - rewrite tty_decode_eq.
      + apply decode_exhausted. exact Hr.
      + unfold cand_ok. rewrite Hc. unfold best.
        destruct (longest_acc N (d_start d) (d_delta d) (d_accepting d) (sbuf s') (length (sbuf s'))) as [k|] eqn:Hk; [|exact I].
        apply (longest_acc_some N (d_start d) (d_delta d) (d_accepting d)) in Hk. destruct Hk as (Hk & _ & _).
        rewrite (span_tok_at N pitem (d_start d) (d_delta d) item). intros E.
        apply (f_equal (@length N)) in E. rewrite firstn_length in E. cbn in E. lia.
    - pose proof (munch_items_ok (concat chunks)) as H1.
      pose proof (Munch_spans_nonempty N pitem (d_start d) (d_delta d) (d_accepting d) (d_terminal d) item _ _ _
                    (munch_Munch N pitem (d_start d) (d_delta d) (d_accepting d) (d_terminal d) item (concat chunks))) as H2.
      fold (t_munch d payload (concat chunks)) in H2.
      revert H1 H2. generalize (fst (t_munch d payload (concat chunks))). intros l H1 H2.
      induction l as [|t l IH]; constructor; inversion H1; inversion H2; subst.
      + destruct t as [it sp|sp]; [assumption|]. assumption.
      + apply IH; assumption.
  Qed.

  (* candidates that are later replaced were computed without a panic too *)
  Theorem calls_total (s : st N pitem) b q' w site :
    Inv N pitem (d_start d) (d_delta d) (d_accepting d) (d_terminal d) item s ->
    call_of d s b = Some (q', w) -> item q' w <> Some (IPanic site).
  Proof.
    intros HI Hc. destruct (call_accepted d ids tb s b q' w HI Hc) as [Hq Ha].
    apply (item_no_panic d ids tb VL VT VC Hcerts _ _ Hq Ha site).
  Qed.

  (* ---------------------------------------------------------------- *)
  (* run level: the decoder with panics propagated (Events.v, `_c` loops) never panics *)

  Notation tstate := (st N pitem).
  Notation TInv := (Inv N pitem (d_start d) (d_delta d) (d_accepting d) (d_terminal d) item).

  Lemma call_panic_none (s : tstate) b : TInv s -> call_panic d payload s b = None.
  Proof.
    intros HI. unfold call_panic. destruct (call_of d s b) as [[q' w]|] eqn:Hc; [|reflexivity].
    destruct (call_accepted d ids tb s b q' w HI Hc) as [Hq Ha].
    destruct (item q' w) as [[e|e|site]|] eqn:E; try reflexivity.
    exfalso. apply (item_no_panic d ids tb VL VT VC Hcerts _ _ Hq Ha site E).
  Qed.

  Lemma dbyte_c_ok (s : tstate) b : TInv s ->
    dbyte_c d payload s b = Ok (decode_byte N pitem (d_start d) (d_delta d) (d_accepting d) (d_terminal d) item s b).
  Proof. intros HI. unfold dbyte_c. rewrite (call_panic_none s b HI). reflexivity. Qed.

  Lemma drain_c_ok fuel : forall s : tstate, TInv s ->
    drain_c d payload fuel s = drain N pitem (d_start d) (d_delta d) (d_accepting d) (d_terminal d) item fuel s.
  Proof.
    induction fuel as [|f IH]; intros s HI; [reflexivity|].
    cbn [drain_c drain]. destruct (sres s) as [|b r]; [reflexivity|].
    assert (HI' : TInv (set_res s r)) by exact HI.
    rewrite (dbyte_c_ok _ b HI'). cbn [bind].
    destruct (decode_byte N pitem (d_start d) (d_delta d) (d_accepting d) (d_terminal d) item (set_res s r) b) as [s1 o1] eqn:Hb.
    destruct o1; [reflexivity|]. apply IH.
    apply (decode_byte_Inv N pitem (d_start d) (d_delta d) (d_accepting d) (d_terminal d) item _ _ _ _ Hb HI').
  Qed.

  Lemma scan_c_ok input : forall s : tstate, TInv s ->
    scan_c d payload s input = Ok (scan_input N pitem (d_start d) (d_delta d) (d_accepting d) (d_terminal d) item s input).
  Proof.
    induction input as [|b r IH]; intros s HI; [reflexivity|].
    cbn [scan_c scan_input]. rewrite (dbyte_c_ok _ b HI). cbn [bind].
    destruct (decode_byte N pitem (d_start d) (d_delta d) (d_accepting d) (d_terminal d) item s b) as [s1 o1] eqn:Hb.
    destruct o1; [reflexivity|]. apply IH.
    apply (decode_byte_Inv N pitem (d_start d) (d_delta d) (d_accepting d) (d_terminal d) item _ _ _ _ Hb HI).
  Qed.

  Lemma decode_c_ok (s : tstate) input : TInv s -> decode_c d payload s input = t_decode d payload s input.
  Proof.
    intros HI. unfold decode_c, t_decode, decode. rewrite (drain_c_ok _ s HI).
    destruct (drain N pitem (d_start d) (d_delta d) (d_accepting d) (d_terminal d) item (S (length (sres s))) s)
      as [[s1 o1]| | |] eqn:Hd; cbn [bind]; try reflexivity.
    destruct o1; [reflexivity|]. apply scan_c_ok.
    apply (drain_Inv N pitem (d_start d) (d_delta d) (d_accepting d) (d_terminal d) item _ _ _ _ Hd HI).
  Qed.

  Lemma tty_decode_into_c_ok fuel : forall (s : tstate) input, TInv s ->
    tty_decode_into_c d payload fuel s input = tty_decode_into d payload fuel s input /\
    forall ts s' rest, tty_decode_into d payload fuel s input = Ok (ts, s', rest) -> TInv s'.
  Proof.
    induction fuel as [|f IH]; intros s input HI; [split; [reflexivity|discriminate]|].
    cbn [tty_decode_into_c tty_decode_into]. unfold tty_decode_c, tty_decode. rewrite (decode_c_ok s input HI).
    destruct (t_decode d payload s input) as [[[s1 o] rest1]| | |] eqn:E; cbn [bind]; try (split; [reflexivity|discriminate]).
    assert (H1 : TInv s1)
      by exact (decode_Inv N pitem (d_start d) (d_delta d) (d_accepting d) (d_terminal d) item _ _ _ _ _ E HI).
    assert (Hnone : forall (ts : list (tok pitem)) (s' : tstate) (rest : list N), Ok (@nil (tok pitem), s1, rest1) = Ok (ts, s', rest) -> TInv s')
      by (intros ts s' rest H; inversion H; subst; exact H1).
    destruct o as [[it sp|[|b0 sp]]|]; cbn [bind]; try (split; [reflexivity|exact Hnone]).
    - destruct (IH s1 rest1 H1) as [-> Hinv]. split; [reflexivity|].
      destruct (tty_decode_into d payload f s1 rest1) as [[[ts2 s2] r2]| | |] eqn:E2; cbn [bind]; try discriminate.
      intros ts s' rest H; inversion H; subst. apply (Hinv _ _ _ eq_refl).
    - destruct (IH s1 rest1 H1) as [-> Hinv]. split; [reflexivity|].
      destruct (tty_decode_into d payload f s1 rest1) as [[[ts2 s2] r2]| | |] eqn:E2; cbn [bind]; try discriminate.
      intros ts s' rest H; inversion H; subst. apply (Hinv _ _ _ eq_refl).
  Qed.

  Lemma tty_feed_c_ok fuel chunks : forall s : tstate, TInv s ->
    tty_feed_c d payload fuel s chunks = tty_feed d payload fuel s chunks.
  Proof.
    induction chunks as [|c cs IH]; intros s HI; [reflexivity|].
    cbn [tty_feed_c tty_feed]. destruct (tty_decode_into_c_ok fuel s c HI) as [-> Hinv].
    destruct (tty_decode_into d payload fuel s c) as [[[t1 s1] r1]| | |] eqn:E; cbn [bind]; try reflexivity.
    rewrite (IH s1 (Hinv _ _ _ eq_refl)). reflexivity.
  Qed.

  (* every byte string, every partition into reads: no panic anywhere in the run (including in
     candidates that a longer match replaces), same events as tty_total *)
  Theorem tty_total_checked (chunks : list (list N)) (fuel : nat) :
    (length (concat chunks) + 3 <= fuel)%nat ->
    exists s',
      tty_feed_c d payload fuel (t_init d) chunks = Ok (fst (t_munch d payload (concat chunks)), s') /\
      tty_decode_c d payload s' [] = Ok (s', None, []).
  Proof.
    intros Hf. destruct (tty_total chunks fuel Hf) as (s' & HF & Hb & Hd & _).
    exists s'. rewrite tty_feed_c_ok by apply Inv_init. split; [exact HF|].
    assert (HI : TInv s').
    { destruct (feed_munch_inv N pitem (d_start d) (d_delta d) (d_accepting d) (d_terminal d) item chunks fuel Hf)
        as (s2 & HF2 & _ & HI2).
      rewrite tty_feed_eq in HF by exact I. unfold t_feed, t_init in HF. rewrite HF2 in HF.
      inversion HF; subst s2. exact HI2. }
    unfold tty_decode_c. rewrite (decode_c_ok s' [] HI).
    unfold tty_decode in Hd. exact Hd.
  Qed.
End Main.

(* ------------------------------------------------------------------ *)
(* Utf8Decoder *)
Section U8Total.
  Variable d : dfa.
  Variable V : cert.

  Definition u8_good (q m : N) : bool :=
    if d_accepting d q then (1 <=? m) && (m <=? 4) else m <=? 3.
  Definition u8_cert_ok : bool :=
    closed d len_step 0 V && states_ok V u8_good && negb (d_accepting d (d_start d)).
  Hypothesis Hcert : u8_cert_ok = true.

  Notation run := (run N (d_start d) (d_delta d)).

  Definition u8_inv (s : u8st) : Prop := run (ubuf s) = Some (uq s) /\ d_accepting d (uq s) = false.

  Lemma u8_init_inv : u8_inv (u8_init d).
  Proof.
    pose proof Hcert as H0. unfold u8_cert_ok in H0. apply andb_prop in H0. destruct H0 as [_ H].
    split; [reflexivity|]. cbn. destruct (d_accepting d (d_start d)); [discriminate|reflexivity].
  Qed.

  Lemma u8_decode_total input : forall s,
    u8_inv s ->
    exists s' o rest, u8_decode d s input = Ok (s', o, rest) /\ u8_inv s' /\
      (length rest <= length input)%nat /\
      match o with
      | None => rest = []
      | Some (UChar c) => scalar_ok c = true /\ (length rest < length input)%nat
      | Some UErr => (length rest < length input)%nat
      end.
  Proof.
    pose proof Hcert as H0. unfold u8_cert_ok in H0. apply andb_prop in H0. destruct H0 as [Hc _].
    apply andb_prop in Hc. destruct Hc as [HC HS].
    induction input as [|b r IH]; intros s [Hrun Hna].
    - exists s, None, []. cbn. repeat split; auto.
    - cbn [u8_decode]. destruct (d_delta d (uq s) b) as [q'|] eqn:Hd.
      + pose proof (all_sound d len_step 0 len_step_bound ltac:(reflexivity) V u8_good HC HS (ubuf s) (uq s) Hrun) as G0.
        assert (Hrun' : run (ubuf s ++ [b]) = Some q').
        { rewrite (run_snoc N (d_start d) (d_delta d)), Hrun. exact Hd. }
        pose proof (all_sound d len_step 0 len_step_bound ltac:(reflexivity) V u8_good HC HS _ _ Hrun') as G1.
        rewrite len_mrun in G0, G1. unfold u8_good in G0, G1. rewrite Hna in G0.
        apply N.leb_le in G0. unfold len_cap in *.
        destruct (Nat.leb_spec 4 (length (ubuf s))) as [Hge|Hlt]; [lia|].
        destruct (d_accepting d q') eqn:Ha.
        * apply andb_prop in G1. destruct G1 as [G1 G2]. apply N.leb_le in G1, G2.
          rewrite app_length in G1, G2. cbn [length] in G1, G2.
          destruct (utf8_code_total (ubuf s ++ [b])) as [code Hcode]; [rewrite app_length; cbn; lia|].
          unfold utf8_decode. rewrite Hcode. cbn [bind].
          destruct (char_from_u32 code) as [c|] eqn:Ec.
          -- exists (u8_init d), (Some (UChar c)), r. split; [reflexivity|]. split; [apply u8_init_inv|].
             cbn [length]. split; [lia|]. split; [eapply char_from_u32_scalar; exact Ec|lia].
          -- exists (u8_init d), (Some UErr), r. split; [reflexivity|]. split; [apply u8_init_inv|]. cbn [length]. split; lia.
        * destruct (IH (mk_u8 q' (ubuf s ++ [b]))) as (s' & o & rest & H1 & H2 & H3 & H4); [split; assumption|].
          exists s', o, rest. split; [exact H1|]. split; [exact H2|]. cbn [length]. split; [lia|].
          destruct o as [[c|]|]; [destruct H4; split; [assumption|lia]|lia|exact H4].
      + exists (u8_init d), (Some UErr), r. split; [reflexivity|]. split; [apply u8_init_inv|]. cbn [length]. split; lia.
  Qed.

  Lemma u8_drain_total fuel : forall s input,
    u8_inv s -> (length input < fuel)%nat ->
    exists xs s', u8_drain d fuel s input = Ok (xs, s') /\ u8_inv s' /\
                  Forall (fun x => match x with UChar c => scalar_ok c = true | UErr => True end) xs.
  Proof.
    induction fuel as [|f IH]; intros s input Hi Hf; [lia|].
    cbn [u8_drain]. destruct (u8_decode_total input s Hi) as (s1 & o & rest & H1 & H2 & H3 & H4).
    rewrite H1. cbn [bind]. destruct o as [x|].
    - destruct (IH s1 rest H2) as (xs & s2 & E & Hi2 & Hall); [destruct x; [destruct H4|]; lia|].
      rewrite E. cbn [bind]. exists (x :: xs), s2. split; [reflexivity|]. split; [exact Hi2|].
      constructor; [destruct x; [apply H4|exact I]|exact Hall].
    - exists [], s1. split; [reflexivity|]. split; [exact H2|constructor].
  Qed.

  (* Utf8Decoder: never panics (the 4-byte buffer is never overrun), terminates, and every
     character it yields is a Unicode scalar value — for all byte strings and all reads *)
  Theorem u8_feed_total chunks : forall s,
    u8_inv s ->
    exists xs s', u8_feed d s chunks = Ok (xs, s') /\
                  Forall (fun x => match x with UChar c => scalar_ok c = true | UErr => True end) xs.
  Proof.
    induction chunks as [|c cs IH]; intros s Hi.
    - exists [], s. split; [reflexivity|constructor].
    - cbn [u8_feed]. destruct (u8_drain_total (S (length c)) s c Hi) as (x1 & s1 & E1 & Hi1 & A1); [lia|].
      rewrite E1. cbn [bind]. destruct (IH s1 Hi1) as (x2 & s2 & E2 & A2). rewrite E2. cbn [bind].
      exists (x1 ++ x2), s2. split; [reflexivity|]. apply Forall_app. split; assumption.
  Qed.

  (* ---- chunking independence of Utf8Decoder ---- *)

  Lemma u8_drain_mono fuel : forall s input r fuel',
    u8_drain d fuel s input = Ok r -> (fuel <= fuel')%nat -> u8_drain d fuel' s input = Ok r.
  Proof.
    induction fuel as [|f IH]; intros s input r fuel' H Hle; [discriminate|].
    destruct fuel' as [|f']; [lia|]. cbn [u8_drain] in *.
    destruct (u8_decode d s input) as [[[s1 o] rest]| | |]; cbn [bind] in *; try discriminate.
    destruct o as [x|]; [|exact H].
    destruct (u8_drain d f s1 rest) as [[xs s2]| | |] eqn:E; cbn [bind] in H; try discriminate.
    rewrite (IH _ _ _ f' E ltac:(lia)). exact H.
  Qed.

  Lemma u8_decode_app a : forall s b,
    match u8_decode d s a with
    | Ok (s', Some x, rest) => u8_decode d s (a ++ b) = Ok (s', Some x, rest ++ b)
    | Ok (s', None, _) => u8_decode d s (a ++ b) = u8_decode d s' b
    | _ => True
    end.
  Proof.
    induction a as [|c a IH]; intros s b; [reflexivity|].
    cbn [app u8_decode]. destruct (d_delta d (uq s) c) as [q'|]; [|reflexivity].
    destruct (4 <=? length (ubuf s))%nat; [exact I|].
    destruct (d_accepting d q').
    - destruct (utf8_decode (ubuf s ++ [c])) as [[c'|]| | |]; cbn [bind]; try exact I; reflexivity.
    - apply IH.
  Qed.

  Lemma u8_drain_app fuel : forall s a x1 s1,
    u8_drain d fuel s a = Ok (x1, s1) ->
    forall b fuel2 x2 s2, u8_drain d fuel2 s1 b = Ok (x2, s2) ->
    u8_drain d (fuel + fuel2) s (a ++ b) = Ok (x1 ++ x2, s2).
  Proof.
    induction fuel as [|f IH]; intros s a x1 s1 H b fuel2 x2 s2 H2; [discriminate|].
    cbn [u8_drain] in H. pose proof (u8_decode_app a s b) as HA.
    destruct (u8_decode d s a) as [[[s' o] rest]| | |]; cbn [bind] in H; try discriminate.
    destruct o as [x|].
    - destruct (u8_drain d f s' rest) as [[xs s3]| | |] eqn:E; cbn [bind] in H; try discriminate.
      inversion H; subst. cbn [plus u8_drain]. rewrite HA. cbn [bind].
      rewrite (IH _ _ _ _ E _ _ _ _ H2). reflexivity.
    - inversion H; subst. cbn [app].
      apply (u8_drain_mono fuel2); [|lia].
      destruct fuel2 as [|f2]; [discriminate|]. cbn [u8_drain] in *. rewrite HA. exact H2.
  Qed.

  (* any partition into reads gives what one read of the whole stream gives *)
  Theorem u8_feed_chunking chunks : forall s,
    u8_inv s -> u8_feed d s chunks = u8_feed d s [concat chunks].
  Proof.
    induction chunks as [|c cs IH]; intros s Hi.
    - cbn [concat u8_feed u8_drain u8_decode length bind app]. reflexivity.
    - cbn [u8_feed concat].
      destruct (u8_drain_total (S (length c)) s c Hi) as (x1 & s1 & E1 & Hi1 & _); [lia|].
      rewrite E1. cbn [bind]. rewrite (IH s1 Hi1). cbn [u8_feed].
      destruct (u8_drain_total (S (length (concat cs))) s1 (concat cs) Hi1) as (x2 & s2 & E2 & _ & _); [lia|].
      rewrite E2. cbn [bind].
      pose proof (u8_drain_app _ _ _ _ _ E1 _ _ _ _ E2) as HA.
      destruct (u8_drain_total (S (length (c ++ concat cs))) s (c ++ concat cs) Hi) as (x3 & s3 & E3 & _ & _); [lia|].
      rewrite E3. cbn [bind].
      pose proof (u8_drain_mono _ _ _ _ (S (length c) + S (length (concat cs)) + S (length (c ++ concat cs))) HA ltac:(lia)) as M1.
      pose proof (u8_drain_mono _ _ _ _ (S (length c) + S (length (concat cs)) + S (length (c ++ concat cs))) E3 ltac:(lia)) as M2.
      rewrite M1 in M2. inversion M2; subst. rewrite !app_nil_r. reflexivity.
  Qed.
End U8Total.
