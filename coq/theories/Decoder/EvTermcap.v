(* C04: XTGETTCAP replies  DCS 1 + r hex(name)=hex(value) ; .. ST   and   DCS 0 + r hex(name) ; .. ST *)
From Coq Require Import List NArith Bool Lia Arith ZifyBool ZifyNat ZifyN.
From SNT Require Import Base.Outcome Base.Sweep Base.Dec10 Base.Dec10Proofs.
From SNT Require Import Automata.DfaData Automata.PatReach Automata.PatReachProofs.
From SNT Require Import Decoder.Sgr Decoder.SgrProofs Decoder.EvModel Decoder.Printer Decoder.EvProd Decoder.EvProofs
  Decoder.EvFamilies Decoder.EvFamilies2 Decoder.EvKitty.
From SNT Require Import Gen.ProdDFA Gen.C04Keys.
Import ListNotations.
Local Open Scope N_scope.

Definition HEX : pat := PSet [(48, 57); (65, 70); (97, 102)].
Definition HS : pat := PPlus (PSeq HEX HEX).
Definition KV2 : pat := PSeq HS (PSeq (PLit [61]) HS).
Definition pat_tc_ok : pat :=
  PSeq (PLit [27; 80; 49; 43; 114]) (PSeq (POpt (PSeq KV2 (PStar (PSeq (PLit [59]) KV2)))) (PLit [27; 92])).
Definition pat_tc_fail : pat :=
  PSeq (PLit [27; 80; 48; 43; 114]) (PSeq (POpt (PSeq HS (PStar (PSeq (PLit [59]) HS)))) (PLit [27; 92])).
Lemma check_tc_ok : family_check event_dfa pat_tc_ok (fam_good 10) = true.
Proof. vm_compute. reflexivity. Qed.
Lemma check_tc_fail : family_check event_dfa pat_tc_fail (fam_good 10) = true.
Proof. vm_compute. reflexivity. Qed.

(* ---- hex ---- *)
Definition hexbyte_ok (upper : bool) (b : N) : bool :=
  match hex2 upper b with
  | [x; y] =>
      in_ranges [(48, 57); (65, 70); (97, 102)] x && in_ranges [(48, 57); (65, 70); (97, 102)] y
      && match hex_val x, hex_val y with Some a, Some c => a * 16 + c =? b | _, _ => false end
  | _ => false
  end.
Lemma hexbyte_sweep : forallb (fun u => sweep1 256 (hexbyte_ok u)) [true; false] = true.
Proof. vm_compute. reflexivity. Qed.

Lemma hexbyte_spec upper b :
  b < 256 ->
  exists x y, hex2 upper b = [x; y]
              /\ in_ranges [(48, 57); (65, 70); (97, 102)] x = true /\ in_ranges [(48, 57); (65, 70); (97, 102)] y = true
              /\ exists a c, hex_val x = Some a /\ hex_val y = Some c /\ a * 16 + c = b.
Proof.
  intros Hb. pose proof hexbyte_sweep as H. rewrite forallb_forall in H.
  assert (Hu : In upper [true; false]) by (destruct upper; cbn; tauto). specialize (H upper Hu).
  pose proof (sweep1_sound 256 _ H b Hb) as Hs. unfold hexbyte_ok in Hs.
  destruct (hex2 upper b) as [|x [|y [|? ?]]]; try discriminate.
  rewrite !andb_true_iff in Hs. destruct Hs as [[Hx Hy] Hv].
  exists x, y. split; [reflexivity|]. split; [exact Hx|]. split; [exact Hy|].
  destruct (hex_val x) as [a|]; [|discriminate]. destruct (hex_val y) as [c|]; [|discriminate].
  exists a, c. apply N.eqb_eq in Hv. auto.
Qed.

Definition bytes_ok (s : list N) : Prop := forallb (fun b => b <? 256) s = true.

Lemma hex_decode_string upper s : bytes_ok s -> hex_decode (hex_string upper s) = s.
Proof.
  unfold bytes_ok. induction s as [|b s IH]; intros H; [reflexivity|].
  cbn [forallb] in H. apply andb_true_iff in H. destruct H as [Hb Hs].
  destruct (hexbyte_spec upper b ltac:(lia)) as (x & y & E & _ & _ & a & c & Ha & Hc & Hv).
  cbn [hex_string flat_map]. rewrite E. cbn [app hex_decode]. rewrite Ha, Hc, Hv. f_equal. apply IH, Hs.
Qed.

Lemma hex_string_ranges upper s :
  bytes_ok s -> forallb (in_ranges [(48, 57); (65, 70); (97, 102)]) (hex_string upper s) = true.
Proof.
  unfold bytes_ok. induction s as [|b s IH]; intros H; [reflexivity|].
  cbn [forallb] in H. apply andb_true_iff in H. destruct H as [Hb Hs].
  destruct (hexbyte_spec upper b ltac:(lia)) as (x & y & E & Hx & Hy & _).
  cbn [hex_string flat_map]. rewrite E. cbn [app forallb]. rewrite Hx, Hy. apply IH, Hs.
Qed.

Lemma hex_string_no upper s c :
  bytes_ok s -> in_ranges [(48, 57); (65, 70); (97, 102)] c = false -> ~ In c (hex_string upper s).
Proof.
  intros Hs Hc Hin. pose proof (hex_string_ranges upper s Hs) as H. rewrite forallb_forall in H.
  rewrite (H c Hin) in Hc. discriminate.
Qed.

Lemma matches_hs upper s : bytes_ok s -> s <> [] -> matches HS (hex_string upper s).
Proof.
  unfold bytes_ok. intros Hs Hne. destruct s as [|b s]; [contradiction|].
  cbn [forallb] in Hs. apply andb_true_iff in Hs. destruct Hs as [Hb Hs].
  assert (Hpair : forall b', b' < 256 -> matches (PSeq HEX HEX) (hex2 upper b')).
  { intros b' Hb'. destruct (hexbyte_spec upper b' Hb') as (x & y & E & Hx & Hy & _). rewrite E.
    change [x; y] with ([x] ++ [y]). apply MSeq; apply MSet; assumption. }
  cbn [hex_string flat_map]. apply MSeq; [apply Hpair; lia|]. clear Hne Hb.
  induction s as [|c s IH]; [apply MStarN|].
  cbn [forallb] in Hs. apply andb_true_iff in Hs. destruct Hs as [Hc Hs].
  cbn [flat_map]. apply MStarS; [apply Hpair; lia| apply IH, Hs].
Qed.

(* ---- ordered keys ---- *)
Lemma str_ltb_irrefl a : str_ltb a a = false.
Proof. induction a as [|x a IH]; [reflexivity|]. cbn [str_ltb]. rewrite N.ltb_irrefl. exact IH. Qed.

Lemma str_ltb_trans : forall a b c, str_ltb a b = true -> str_ltb b c = true -> str_ltb a c = true.
Proof.
  induction a as [|x a IH]; intros [|y b] [|z c] H1 H2; cbn [str_ltb] in *; try discriminate; try reflexivity.
  destruct (x <? y) eqn:Exy.
  - destruct (y <? z) eqn:Eyz.
    + replace (x <? z) with true by lia. reflexivity.
    + destruct (z <? y) eqn:Ezy; [discriminate|]. assert (y = z) by lia. subst. rewrite Exy. reflexivity.
  - destruct (y <? x) eqn:Eyx; [discriminate|]. assert (x = y) by lia. subst.
    destruct (y <? z) eqn:Eyz; [reflexivity|]. destruct (z <? y); [discriminate|]. eapply IH; eassumption.
Qed.

Lemma str_ltb_asym a b : str_ltb a b = true -> str_ltb b a = false.
Proof.
  intros H. destruct (str_ltb b a) eqn:E; [|reflexivity].
  pose proof (str_ltb_trans a b a H E) as Hc. rewrite str_ltb_irrefl in Hc. discriminate.
Qed.

Lemma map_insert_last k v m :
  (forall k', In k' (map fst m) -> str_ltb k' k = true) -> map_insert k v m = m ++ [(k, v)].
Proof.
  induction m as [|[k' v'] m IH]; intros H; [reflexivity|]. cbn [map_insert app].
  assert (Hk : str_ltb k' k = true) by (apply H; left; reflexivity).
  rewrite (str_ltb_asym k' k Hk), Hk. f_equal. apply IH. intros k2 Hk2. apply H. right. exact Hk2.
Qed.

Lemma keys_increasing_cons a l :
  keys_increasing (a :: l) = true -> (forall k, In k l -> str_ltb a k = true) /\ keys_increasing l = true.
Proof.
  revert a. induction l as [|b l IH]; intros a H; [split; [intros k []| reflexivity]|].
  cbn [keys_increasing] in H. apply andb_true_iff in H. destruct H as [Hab Hl].
  destruct (IH b Hl) as [Hb Hl']. split; [|exact Hl].
  intros k [->|Hk]; [exact Hab|]. eapply str_ltb_trans; [exact Hab| apply Hb, Hk].
Qed.

Lemma fold_map_insert : forall (l : list (list N * option (list N))) acc,
  keys_increasing (map fst l) = true ->
  (forall k k', In k (map fst acc) -> In k' (map fst l) -> str_ltb k k' = true) ->
  fold_left (fun m kv => map_insert (fst kv) (snd kv) m) l acc = acc ++ l.
Proof.
  induction l as [|[k v] l IH]; intros acc Hinc Hacc; cbn [fold_left]; [rewrite app_nil_r; reflexivity|].
  cbn [map fst] in Hinc. destruct (keys_increasing_cons k (map fst l) Hinc) as [Hk Hl].
  cbn [fst snd]. rewrite map_insert_last by (intros k' Hk'; apply Hacc; [exact Hk'| left; reflexivity]).
  rewrite IH; [rewrite <- app_assoc; reflexivity| exact Hl|].
  intros k1 k2 Hk1 Hk2. rewrite map_app in Hk1. apply in_app_or in Hk1. destruct Hk1 as [Hk1|[<-|[]]].
  - apply Hacc; [exact Hk1| right; exact Hk2].
  - apply Hk, Hk2.
Qed.

(* ---- splitting joined parts ---- *)
Lemma join_with_split_gen : forall parts, parts <> [] -> Forall (fun p => ~ In 59 p) parts ->
  split_on 59 (join_with [59] parts) = parts.
Proof.
  induction parts as [|a l IH]; intros Hne Hall; [contradiction|]. inversion Hall as [|? ? Ha Hl]; subst.
  destruct l as [|b l].
  - cbn [join_with]. apply split_on_nosep, Ha.
  - change (join_with [59] (a :: b :: l)) with (a ++ [59] ++ join_with [59] (b :: l)).
    cbn [app]. rewrite split_on_app by exact Ha. rewrite IH; [reflexivity| discriminate| exact Hl].
Qed.

Lemma join_with_tail : forall a l, join_with [59] (a :: l) = a ++ concat (map (fun p => [59] ++ p) l).
Proof.
  intros a l. revert a. induction l as [|b l IH]; intros a; [cbn; rewrite app_nil_r; reflexivity|].
  change (join_with [59] (a :: b :: l)) with (a ++ [59] ++ join_with [59] (b :: l)).
  rewrite IH. cbn [map concat]. rewrite <- !app_assoc. reflexivity.
Qed.

Lemma star_joined (P : pat) : forall l, Forall (matches P) l ->
  matches (PStar (PSeq (PLit [59]) P)) (concat (map (fun p => [59] ++ p) l)).
Proof.
  induction l as [|b l IH]; intros Hall; [apply MStarN|]. inversion Hall as [|? ? Hb Hl]; subst.
  cbn [map concat]. apply MStarS; [apply matches_seq_lit, Hb| apply IH, Hl].
Qed.

Lemma matches_joined (P : pat) : forall parts, parts <> [] -> Forall (matches P) parts ->
  matches (PSeq P (PStar (PSeq (PLit [59]) P))) (join_with [59] parts).
Proof.
  intros [|a l] Hne Hall; [contradiction|]. inversion Hall as [|? ? Ha Hl]; subst.
  rewrite join_with_tail. apply MSeq; [exact Ha| apply star_joined, Hl].
Qed.

Definition in_hex := in_ranges [(48, 57); (65, 70); (97, 102)].

Theorem single_tc_fail names upper :
  wf decmode_all prod_key_table (RTermcapFail names upper) = true -> single (RTermcapFail names upper).
Proof.
  cbn [wf]. intros Hwf. rewrite !andb_true_iff in Hwf. destruct Hwf as [[Hne Hnames] Hinc].
  assert (Hne' : names <> []) by (destruct names; [discriminate| discriminate]).
  assert (Hok : forall k, In k names -> bytes_ok k /\ k <> []).
  { intros k Hk. rewrite forallb_forall in Hnames. specialize (Hnames k Hk). unfold name_ok in Hnames.
    apply andb_true_iff in Hnames. destruct Hnames as [H1 H2]. split; [exact H2|]. destruct k; [discriminate| discriminate]. }
  set (parts := map (hex_string upper) names).
  assert (Hparts_ne : parts <> []) by (unfold parts; destruct names; [contradiction| discriminate]).
  assert (Hparts59 : Forall (fun p => ~ In 59 p) parts).
  { unfold parts. apply Forall_forall. intros p Hp. apply in_map_iff in Hp. destruct Hp as (k & <- & Hk).
    apply hex_string_no; [apply (Hok k Hk)| reflexivity]. }
  unfold single, prod_denote, denote. cbn [print].
  replace ([27; 80; 48; 43; 114] ++ join_with [59] (map (hex_string upper) names) ++ ST)
    with ([27; 80; 48; 43; 114] ++ join_with [59] parts ++ [27; 92]) by reflexivity.
  fam_tac check_tc_fail; [| discriminate |].
  - unfold pat_tc_fail. apply matches_seq_lit. apply MSeq; [|apply MLit]. apply MOptS.
    apply matches_joined; [exact Hparts_ne|]. unfold parts. apply Forall_forall. intros p Hp.
    apply in_map_iff in Hp. destruct Hp as (k & <- & Hk). destruct (Hok k Hk). apply matches_hs; assumption.
  - payload_unfold. unfold dec_termcap. rewrite (sl_mid [27; 80; 48; 43; 114] _ [27; 92]).
    cbn [nth_error app]. rewrite join_with_split_gen by assumption.
    assert (Hfold : forall l acc, fold_left (fun m k => map_insert (hex_decode k) None m) (map (hex_string upper) l) acc
                                  = fold_left (fun m kv => map_insert (fst kv) (snd kv) m) (map (fun k => (hex_decode (hex_string upper k), @None (list N))) l) acc).
    { induction l as [|k l IHl]; intros acc; [reflexivity|]. cbn [map fold_left fst snd]. apply IHl. }
    unfold parts. rewrite Hfold.
    assert (Hmap : map (fun k => (hex_decode (hex_string upper k), @None (list N))) names = map (fun k => (k, None)) names).
    { apply map_ext_in. intros k Hk. rewrite hex_decode_string by apply (Hok k Hk). reflexivity. }
    rewrite Hmap, fold_map_insert; [reflexivity| | intros k k' []].
    rewrite map_map. cbn [fst]. rewrite map_id. exact Hinc.
Qed.

Lemma matches_joined_opt (P : pat) parts :
  Forall (matches P) parts ->
  matches (POpt (PSeq P (PStar (PSeq (PLit [59]) P)))) (join_with [59] parts).
Proof.
  intros H. destruct parts as [|a l]; [apply MOptN|]. apply MOptS. apply matches_joined; [discriminate| exact H].
Qed.

Definition enc_kv (upper : bool) (kv : list N * list N) : list N :=
  hex_string upper (fst kv) ++ [61] ++ hex_string upper (snd kv).

Lemma filter_map_kv upper : forall caps,
  (forall kv, In kv caps -> bytes_ok (fst kv)) ->
  filter_map (fun kv => match split_first 61 kv with (k, Some v) => Some (k, v) | (_, None) => None end)
             (map (enc_kv upper) caps)
  = map (fun kv => (hex_string upper (fst kv), hex_string upper (snd kv))) caps.
Proof.
  induction caps as [|kv l IH]; intros Hok; [reflexivity|]. cbn [map filter_map]. unfold enc_kv at 1. cbn [app].
  rewrite (split_first_app 61 (hex_string upper (fst kv)) (hex_string upper (snd kv))).
  2:{ apply hex_string_no; [apply Hok; left; reflexivity| reflexivity]. }
  f_equal. apply IH. intros kv' Hkv'. apply Hok. right. exact Hkv'.
Qed.

Lemma kvd_caps upper caps :
  (forall kv, In kv caps -> bytes_ok (fst kv) /\ bytes_ok (snd kv)) ->
  key_value_decode 59 (join_with [59] (map (enc_kv upper) caps))
  = map (fun kv => (hex_string upper (fst kv), hex_string upper (snd kv))) caps.
Proof.
  intros Hok. unfold key_value_decode. destruct caps as [|kv0 l]; [reflexivity|].
  rewrite join_with_split_gen.
  - apply filter_map_kv. intros kv Hkv. apply (Hok kv Hkv).
  - discriminate.
  - apply Forall_forall. intros p Hp. apply in_map_iff in Hp. destruct Hp as (kv & <- & Hkv).
    destruct (Hok kv Hkv) as [H1 H3]. unfold enc_kv. apply not_in_app; [apply hex_string_no; [exact H1| reflexivity]|].
    intros [E|Hin]; [discriminate|]. revert Hin. apply hex_string_no; [exact H3| reflexivity].
Qed.

Theorem single_tc_ok caps upper :
  wf decmode_all prod_key_table (RTermcapOk caps upper) = true -> single (RTermcapOk caps upper).
Proof.
  cbn [wf]. intros Hwf. apply andb_true_iff in Hwf. destruct Hwf as [Hcaps Hinc].
  assert (Hok : forall kv, In kv caps -> bytes_ok (fst kv) /\ fst kv <> [] /\ bytes_ok (snd kv) /\ snd kv <> []).
  { intros kv Hkv. rewrite forallb_forall in Hcaps. specialize (Hcaps kv Hkv). unfold name_ok in Hcaps.
    rewrite !andb_true_iff in Hcaps. destruct Hcaps as [[H1 H2] [H3 H4]].
    repeat split; try assumption; [destruct (fst kv)| destruct (snd kv)]; discriminate. }
  unfold single, prod_denote, denote. cbn [print].
  replace ([27; 80; 49; 43; 114]
           ++ join_with [59] (map (fun kv => hex_string upper (fst kv) ++ [61] ++ hex_string upper (snd kv)) caps) ++ ST)
    with ([27; 80; 49; 43; 114] ++ join_with [59] (map (enc_kv upper) caps) ++ [27; 92]) by reflexivity.
  fam_tac check_tc_ok; [| discriminate |].
  - unfold pat_tc_ok. apply matches_seq_lit. apply MSeq; [|apply MLit].
    apply matches_joined_opt. apply Forall_forall. intros p Hp. apply in_map_iff in Hp. destruct Hp as (kv & <- & Hkv).
    destruct (Hok kv Hkv) as (H1 & H2 & H3 & H4). unfold enc_kv, KV2.
    apply MSeq; [apply matches_hs; assumption|]. apply matches_seq_lit. apply matches_hs; assumption.
  - payload_unfold. unfold dec_termcap. rewrite (sl_mid [27; 80; 49; 43; 114] _ [27; 92]).
    cbn [nth_error app].
    rewrite kvd_caps by (intros kv Hkv; destruct (Hok kv Hkv) as (H1 & _ & H3 & _); split; assumption).
    assert (Hfold : forall l acc,
      fold_left (fun m kv => map_insert (hex_decode (fst kv)) (Some (hex_decode (snd kv))) m)
                (map (fun kv => (hex_string upper (fst kv), hex_string upper (snd kv))) l) acc
      = fold_left (fun m kv => map_insert (fst kv) (snd kv) m)
                  (map (fun kv => (hex_decode (hex_string upper (fst kv)), Some (hex_decode (hex_string upper (snd kv))))) l) acc).
    { induction l as [|kv l IHl]; intros acc; [reflexivity|]. cbn [map fold_left fst snd]. apply IHl. }
    rewrite Hfold.
    assert (Hmap : map (fun kv => (hex_decode (hex_string upper (fst kv)), Some (hex_decode (hex_string upper (snd kv))))) caps
                   = map (fun kv => (fst kv, Some (snd kv))) caps).
    { apply map_ext_in. intros kv Hkv. destruct (Hok kv Hkv) as (H1 & _ & H3 & _). rewrite !hex_decode_string by assumption. reflexivity. }
    rewrite Hmap, fold_map_insert; [reflexivity| | intros k k' []].
    rewrite map_map. cbn [fst]. exact Hinc.
Qed.
