(* Properties of the model of sgr_face: splitting, fuel, and the effect of each kind of
   chunk the encoder writes ("units"). *)
From Coq Require Import List NArith Bool Lia Arith.
From SNT Require Import Base.Dec10 Base.Dec10Proofs Render.FaceModel Decoder.Sgr Encoder.FaceEnc.
Import ListNotations.
Local Open Scope N_scope.

(* ---- split_on ---- *)
Lemma split_on_nonempty sep s : split_on sep s <> [].
Proof.
  induction s as [|b r IH]; cbn [split_on]; [discriminate|].
  destruct (b =? sep); [discriminate|]. destruct (split_on sep r); [contradiction| discriminate].
Qed.

Lemma split_on_nosep sep s : ~ In sep s -> split_on sep s = [s].
Proof.
  induction s as [|b r IH]; intros Hn; cbn [split_on]; [reflexivity|].
  destruct (b =? sep) eqn:E.
  - apply N.eqb_eq in E. subst. exfalso. apply Hn. left. reflexivity.
  - rewrite IH; [reflexivity|]. intros Hin. apply Hn. right. exact Hin.
Qed.

Lemma split_on_app sep a b :
  ~ In sep a -> split_on sep (a ++ sep :: b) = a :: split_on sep b.
Proof.
  induction a as [|x a IH]; intros Hn; cbn [app split_on].
  - rewrite N.eqb_refl. reflexivity.
  - destruct (x =? sep) eqn:E.
    + apply N.eqb_eq in E. subst. exfalso. apply Hn. left. reflexivity.
    + rewrite IH; [reflexivity|]. intros Hin. apply Hn. right. exact Hin.
Qed.

Lemma split_on_join sep chunks :
  chunks <> [] -> Forall (fun c => ~ In sep c) chunks ->
  split_on sep (join [sep] chunks) = chunks.
Proof.
  induction chunks as [|c r IH]; intros Hne Hall; [contradiction|].
  inversion Hall as [|? ? Hc Hr]; subst.
  destruct r as [|c2 r'].
  - cbn [join]. apply split_on_nosep, Hc.
  - change (join [sep] (c :: c2 :: r')) with (c ++ [sep] ++ join [sep] (c2 :: r')).
    cbn [app]. rewrite split_on_app by exact Hc. rewrite IH; [reflexivity| discriminate | exact Hr].
Qed.

(* ---- fuel ---- *)
Lemma it_next_len {A} (it : list A) : (length (snd (it_next it)) <= length it)%nat.
Proof. destruct it; cbn; lia. Qed.

Lemma next_number_len it : (length (snd (next_number it)) <= length it)%nat.
Proof. unfold next_number. destruct it as [|x r]; cbn; lia. Qed.

Lemma sgr_color_len cmds sp : (length (snd (sgr_color cmds sp)) <= length cmds)%nat.
Proof.
  unfold sgr_color. destruct cmds as [|k r]; cbn [it_next]; [cbn; lia|].
  destruct (number_decode k) as [kind|]; [|cbn; lia].
  destruct (kind =? 5).
  - destruct r as [|i r1]; cbn [it_next]; [cbn; lia|].
    destruct (number_decode i); cbn; lia.
  - destruct (kind =? 2); [|cbn; lia].
    pose proof (next_number_len r) as H1.
    destruct (next_number r) as [c1 r1]. cbn [snd] in H1.
    pose proof (next_number_len r1) as H2.
    destruct (next_number r1) as [c2 r2]. cbn [snd] in H2.
    pose proof (next_number_len r2) as H3.
    destruct (next_number r2) as [c3 r3]. cbn [snd] in H3.
    assert (H4 : (length (snd (if sp then next_number r3 else (None, r3))) <= length r3)%nat).
    { destruct sp; [apply next_number_len| cbn; lia]. }
    destruct (if sp then next_number r3 else (None, r3)) as [c4 r4]. cbn [snd] in H4.
    destruct c1, c2, c3, c4; cbn [snd length]; lia.
Qed.

Lemma sgr_step_len group groups face :
  (length (fst (sgr_step group groups face)) <= length groups)%nat.
Proof.
  unfold sgr_step.
  set (args := tl (split_on 58 group)).
  set (cc := if match args with [] => true | _ :: _ => false end
             then sgr_color groups false else (fst (sgr_color args true), groups)).
  assert (Hc : (length (snd cc) <= length groups)%nat).
  { unfold cc. destruct args; [apply sgr_color_len| cbn; lia]. }
  destruct cc as [c gs]. cbn [snd] in Hc.
  destruct (number_decode _) as [v|]; [|cbn; lia].
  repeat match goal with
         | |- context [if ?c then _ else _] => destruct c
         end; cbn [fst]; lia.
Qed.

Lemma sgr_loop_fuel : forall n f1 f2 groups acc,
  (length groups < f1)%nat -> (length groups < f2)%nat -> (length groups <= n)%nat ->
  sgr_loop f1 groups acc = sgr_loop f2 groups acc.
Proof.
  induction n as [|n IH]; intros f1 f2 groups acc H1 H2 Hn.
  - destruct groups; [|cbn in Hn; lia]. destruct f1, f2; try lia. reflexivity.
  - destruct f1 as [|f1], f2 as [|f2]; try lia. cbn [sgr_loop].
    destruct groups as [|g rest]; [reflexivity|].
    pose proof (sgr_step_len g rest acc) as Hl.
    destruct (sgr_step g rest acc) as [rest' face']. cbn [fst] in Hl. cbn [length] in *.
    apply IH; lia.
Qed.

Lemma sgr_loop_S f g rest acc :
  sgr_loop (S f) (g :: rest) acc =
  let '(rest', face') := sgr_step g rest acc in sgr_loop f rest' face'.
Proof. reflexivity. Qed.

(* sgr_face never runs out of fuel *)
Lemma sgr_loop_total : forall n f groups acc,
  (length groups < f)%nat -> (length groups <= n)%nat -> exists m, sgr_loop f groups acc = Some m.
Proof.
  induction n as [|n IH]; intros f groups acc Hf Hn.
  - destruct groups; [|cbn in Hn; lia]. destruct f; [lia|]. eexists. reflexivity.
  - destruct f as [|f]; [lia|]. destruct groups as [|g rest]; [eexists; reflexivity|].
    rewrite sgr_loop_S. pose proof (sgr_step_len g rest acc) as Hl.
    destruct (sgr_step g rest acc) as [rest' face']. cbn [fst length] in *. apply IH; lia.
Qed.

Theorem sgr_face_total data : exists m, sgr_face data = Some m.
Proof. unfold sgr_face. eapply sgr_loop_total; [apply Nat.lt_succ_diag_r | apply Nat.le_refl]. Qed.

(* ---- units ---- *)
(* a list of groups that the loop consumes completely, whatever follows, with a fixed effect *)
Definition unit_eff (U : list (list N)) (E : face_modify -> face_modify) : Prop :=
  forall f rest acc, (length (U ++ rest) < f)%nat ->
    sgr_loop f (U ++ rest) acc = sgr_loop f rest (E acc).

Lemma unit_eff_nil : unit_eff [] (fun m => m).
Proof. intros f rest acc _. reflexivity. Qed.

Lemma unit_eff_app U1 E1 U2 E2 :
  unit_eff U1 E1 -> unit_eff U2 E2 -> unit_eff (U1 ++ U2) (fun m => E2 (E1 m)).
Proof.
  intros H1 H2 f rest acc Hf. rewrite <- app_assoc in *.
  rewrite H1 by exact Hf. apply H2. rewrite app_length in Hf. lia.
Qed.

(* a single group whose step does not touch the iterator *)
Lemma unit_eff_single g E :
  (forall rest acc, sgr_step g rest acc = (rest, E acc)) -> unit_eff [g] E.
Proof.
  intros Hs f rest acc Hf. destruct f as [|f]; [lia|].
  cbn [app]. rewrite sgr_loop_S, Hs. cbn [app length] in Hf.
  apply (sgr_loop_fuel (length rest)); lia.
Qed.

Lemma unit_eff_run U E f acc :
  unit_eff U E -> (length U < f)%nat -> sgr_loop f U acc = Some (E acc).
Proof.
  intros H Hf. specialize (H f [] acc). rewrite app_nil_r in H. rewrite H by exact Hf.
  destruct f; [lia| reflexivity].
Qed.

(* simple parameters *)
Ltac single_unit := apply unit_eff_single; intros rest acc; reflexivity.

Lemma unit_0 : unit_eff [[48]] (fun _ => fm_reset).           Proof. single_unit. Qed.
Lemma unit_1 : unit_eff [[49]] (set_bold (Some true)).         Proof. single_unit. Qed.
Lemma unit_22 : unit_eff [[50; 50]] (set_bold (Some false)).   Proof. single_unit. Qed.
Lemma unit_3 : unit_eff [[51]] (set_italic (Some true)).       Proof. single_unit. Qed.
Lemma unit_23 : unit_eff [[50; 51]] (set_italic (Some false)). Proof. single_unit. Qed.
Lemma unit_5 : unit_eff [[53]] (set_blink (Some true)).        Proof. single_unit. Qed.
Lemma unit_25 : unit_eff [[50; 53]] (set_blink (Some false)).  Proof. single_unit. Qed.
Lemma unit_7 : unit_eff [[55]] (fun m => m).                   Proof. single_unit. Qed.
Lemma unit_9 : unit_eff [[57]] (set_strike (Some true)).       Proof. single_unit. Qed.
Lemma unit_29 : unit_eff [[50; 57]] (set_strike (Some false)). Proof. single_unit. Qed.
Lemma unit_24 : unit_eff [[50; 52]] (set_underline (Some UNone)).     Proof. single_unit. Qed.
Lemma unit_4 : unit_eff [[52]] (set_underline (Some UStraight)).      Proof. single_unit. Qed.
Lemma unit_4_2 : unit_eff [[52; 58; 50]] (set_underline (Some UDouble)). Proof. single_unit. Qed.
Lemma unit_4_3 : unit_eff [[52; 58; 51]] (set_underline (Some UCurly)).  Proof. single_unit. Qed.
Lemma unit_4_4 : unit_eff [[52; 58; 52]] (set_underline (Some UDotted)). Proof. single_unit. Qed.
Lemma unit_4_5 : unit_eff [[52; 58; 53]] (set_underline (Some UDashed)). Proof. single_unit. Qed.

(* colours: code ; 2 ; r ; g ; b *)
Definition set_color (k : color_kind) (c : option rgba) : face_modify -> face_modify :=
  match k with Foreground => set_fg c | Background => set_bg c | Underline => set_ucolor c end.

Definition opaque_color (c : rgba) : Prop :=
  match c with RGBA r g b a => r < 256 /\ g < 256 /\ b < 256 /\ a = 255 end.

Lemma sgr_color_direct r g b rest :
  r < 256 -> g < 256 -> b < 256 ->
  sgr_color ([50] :: digits r :: digits g :: digits b :: rest) false = (Some (RGBA r g b 255), rest).
Proof.
  intros Hr Hg Hb. unfold sgr_color. cbn [it_next].
  change (number_decode [50]) with (Some 2). change (2 =? 5) with false. change (2 =? 2) with true.
  cbn iota. unfold next_number. cbn [it_next]. rewrite !number_decode_digits.
  unfold mk_rgb, channel_u8.
  apply N.ltb_lt in Hr, Hg, Hb. rewrite Hr, Hg, Hb. reflexivity.
Qed.

Lemma unit_color k c : opaque_color c -> unit_eff (color_chunks k c) (set_color k (Some c)).
Proof.
  destruct c as [r g b a]. intros (Hr & Hg & Hb & Ha). subst a.
  intros f rest acc Hf. destruct f as [|f]; [lia|].
  unfold color_chunks in *. cbn [app]. rewrite sgr_loop_S.
  assert (Hs : sgr_step (match k with Foreground => [51; 56] | Background => [52; 56] | Underline => [53; 56] end)
                        ([50] :: digits r :: digits g :: digits b :: rest) acc
               = (rest, set_color k (Some (RGBA r g b 255)) acc)).
  { destruct k; unfold sgr_step; cbn [split_on N.eqb Pos.eqb tl];
      match goal with |- context [number_decode ?l] => let v := eval vm_compute in (number_decode l) in
                                                       change (number_decode l) with v end;
      cbn iota; unfold in_range;
      repeat match goal with |- context [?a =? ?b] => let v := eval vm_compute in (a =? b) in change (a =? b) with v end;
      cbn iota; rewrite sgr_color_direct by assumption; reflexivity. }
  rewrite Hs. cbn [app length] in Hf. apply (sgr_loop_fuel (length rest)); lia.
Qed.

Lemma unit_opt_color k c :
  match c with Some c => opaque_color c | None => True end ->
  unit_eff (opt_color_chunks k c) (match c with Some c => set_color k (Some c) | None => fun m => m end).
Proof. destruct c as [c|]; intros H; [apply unit_color, H | apply unit_eff_nil]. Qed.

Lemma unit_onoff flag on off Eon Eoff :
  unit_eff [on] Eon -> unit_eff [off] Eoff ->
  unit_eff (onoff_chunk flag on off)
           (match flag with Some true => Eon | Some false => Eoff | None => fun m => m end).
Proof. intros H1 H2. destruct flag as [[]|]; cbn [onoff_chunk]; [exact H1 | exact H2 | apply unit_eff_nil]. Qed.

Lemma unit_face_underline u :
  unit_eff (face_underline_chunks u)
           (match u with UNone => fun m => m | _ => set_underline (Some u) end).
Proof.
  destruct u; cbn [face_underline_chunks];
    [apply unit_eff_nil | apply unit_4 | apply unit_4_2 | apply unit_4_3 | apply unit_4_4 | apply unit_4_5].
Qed.

Lemma unit_modify_underline u :
  unit_eff (modify_underline_chunks u)
           (match u with Some u => set_underline (Some u) | None => fun m => m end).
Proof.
  destruct u as [u|]; [|apply unit_eff_nil].
  destruct u; cbn [modify_underline_chunks face_underline_chunks];
    [apply unit_24 | apply unit_4 | apply unit_4_2 | apply unit_4_3 | apply unit_4_4 | apply unit_4_5].
Qed.

Lemma unit_flag attrs flag code E :
  unit_eff [code] E ->
  unit_eff (flag_chunk attrs flag code) (if fa_contains attrs flag then E else fun m => m).
Proof. intros H. unfold flag_chunk. destruct (fa_contains attrs flag); [exact H | apply unit_eff_nil]. Qed.
