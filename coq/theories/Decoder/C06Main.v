(* C06: end-to-end statements over the models of TTYEncoder (true colour),
   TTYCommandDecoder and TTYCellWriter, for every chunking of the written bytes. *)
From Coq Require Import List NArith Bool Lia Arith.
From SNT Require Import Base.Sweep Base.Dec10 Base.Dec10Proofs Render.FaceModel Render.FaceModelProofs
  Decoder.Sgr Decoder.SgrRef Encoder.FaceEnc Decoder.SgrProofs Decoder.SgrRoundtrip Decoder.SgrSemProofs
  Decoder.CmdTok Decoder.CmdTokProofs Decoder.CmdUtf8Proofs Decoder.History.
Import ListNotations.
Local Open Scope N_scope.

(* ---- the encoder writes parameter bytes only ---- *)
Definition pchunks (chunks : list (list N)) : Prop := Forall (fun c => forallb param_byte c = true) chunks.

Lemma pchunks_app a b : pchunks a -> pchunks b -> pchunks (a ++ b).
Proof. intros. apply Forall_app. split; assumption. Qed.
Lemma pchunks_lit c : forallb param_byte c = true -> pchunks [c].
Proof. intros H. constructor; [exact H| constructor]. Qed.

Lemma digit_param b : is_digit b = true -> param_byte b = true.
Proof. unfold is_digit, param_byte. lia. Qed.

Lemma pchunks_digits n : forallb param_byte (digits n) = true.
Proof.
  apply forallb_forall. intros b Hb. apply digit_param.
  pose proof (digits_all_digits n) as H. rewrite forallb_forall in H. exact (H b Hb).
Qed.

Lemma pchunks_color k c : pchunks (color_chunks k c).
Proof.
  destruct c as [r g b a]. unfold color_chunks.
  repeat constructor; try apply pchunks_digits. destruct k; reflexivity.
Qed.
Lemma pchunks_opt_color k c : pchunks (opt_color_chunks k c).
Proof. destruct c; [apply pchunks_color| constructor]. Qed.
Lemma pchunks_face_underline u : pchunks (face_underline_chunks u).
Proof. destruct u; cbn [face_underline_chunks]; repeat constructor. Qed.
Lemma pchunks_modify_underline u : pchunks (modify_underline_chunks u).
Proof. destruct u as [[]|]; cbn [modify_underline_chunks face_underline_chunks]; repeat constructor. Qed.
Lemma pchunks_onoff flag on off :
  forallb param_byte on = true -> forallb param_byte off = true -> pchunks (onoff_chunk flag on off).
Proof. intros. destruct flag as [[]|]; cbn [onoff_chunk]; [apply pchunks_lit| apply pchunks_lit| constructor]; assumption. Qed.
Lemma pchunks_flag attrs flag code : forallb param_byte code = true -> pchunks (flag_chunk attrs flag code).
Proof. intros. unfold flag_chunk. destruct (fa_contains attrs flag); [apply pchunks_lit; assumption| constructor]. Qed.

Lemma pchunks_modify m : pchunks (enc_modify_chunks m).
Proof.
  unfold enc_modify_chunks.
  repeat apply pchunks_app; try apply pchunks_opt_color; try apply pchunks_modify_underline;
    try (apply pchunks_onoff; reflexivity).
  destruct (m_reset m); [apply pchunks_lit; reflexivity| constructor].
Qed.
Lemma pchunks_face f : pchunks (enc_face_chunks f).
Proof.
  unfold enc_face_chunks.
  repeat apply pchunks_app; try apply pchunks_opt_color; try apply pchunks_face_underline;
    try (apply pchunks_lit; reflexivity).
  destruct (fa_is_empty (f_attrs f)); [constructor|].
  repeat apply pchunks_app; apply pchunks_flag; reflexivity.
Qed.

Lemma join_param chunks : pchunks chunks -> forallb param_byte (join [59] chunks) = true.
Proof.
  induction chunks as [|c r IH]; intros H; [reflexivity|].
  inversion H as [|? ? Hc Hr]; subst. destruct r as [|c2 r'].
  - exact Hc.
  - change (join [59] (c :: c2 :: r')) with (c ++ [59] ++ join [59] (c2 :: r')).
    rewrite !forallb_app, Hc, (IH Hr). reflexivity.
Qed.

(* ---- what each command reads back as ---- *)
Definition fm_is_default (m : face_modify) : bool :=
  match enc_modify_chunks m with [] => true | _ => false end.

Lemma fm_is_default_spec m : fm_is_default m = true <-> m = fm_default.
Proof.
  unfold fm_is_default. rewrite <- enc_modify_chunks_nil.
  destruct (enc_modify_chunks m); split; try reflexivity; try discriminate.
Qed.

Definition readback (cmd : command) : list command :=
  match cmd with
  | CmdFaceModify m => if fm_is_default m then [] else [CmdFaceModify m]
  | CmdFace f => [CmdFaceModify (face_as_modify f)]
  | CmdChar c => [CmdChar (char_out c)]
  | CmdRaw _ => []
  end.

Definition cmd_ok (cmd : command) : Prop :=
  match cmd with
  | CmdFaceModify m => fm_opaque m
  | CmdFace f => face_opaque f
  | CmdChar c => scalar_ok c = true
  | CmdRaw _ => False
  end.

Lemma char_out_ok c : scalar_ok c = true -> scalar_ok (char_out c) = true /\ char_out c <> 27.
Proof.
  intros Hs. unfold char_out, char_unsafe.
  destruct (c =? 27) eqn:E; cbn [orb]; [split; [reflexivity| discriminate]|].
  apply N.eqb_neq in E.
  destruct ((c =? 144) || (c =? 152) || (c =? 155) || (c =? 157) || (c =? 158) || (c =? 159));
    [split; [reflexivity| discriminate]| split; assumption].
Qed.

Lemma run_encode cmd :
  cmd_ok cmd -> exists toks, run st_init (encode cmd) = (st_init, toks) /\ cmds_of toks = readback cmd.
Proof.
  destruct cmd as [f|m|c|bs]; cbn [cmd_ok encode readback].
  - intros Ho. exists [TItem (CmdFaceModify (face_as_modify f))]. split; [|reflexivity].
    unfold enc_face, sgr_wrap. apply run_sgr; [apply join_param, pchunks_face| apply sgr_roundtrip_face, Ho].
  - intros Ho. unfold enc_modify, fm_is_default. destruct (enc_modify_chunks m) as [|c0 r] eqn:E.
    + exists []. split; reflexivity.
    + exists [TItem (CmdFaceModify m)]. split; [|reflexivity].
      unfold sgr_wrap. rewrite <- E. apply run_sgr; [apply join_param, pchunks_modify|].
      apply sgr_roundtrip_modify; [exact Ho| rewrite E; discriminate].
  - intros Hs. destruct (char_out_ok c Hs) as [Hs' Hn]. exists [TItem (CmdChar (char_out c))].
    split; [apply run_char; assumption| reflexivity].
  - intros [].
Qed.

Lemma run_stream cmds :
  Forall cmd_ok cmds ->
  exists toks, run st_init (concat (map encode cmds)) = (st_init, toks)
               /\ cmds_of toks = flat_map readback cmds.
Proof.
  induction cmds as [|cmd r IH]; intros H.
  - exists []. split; reflexivity.
  - inversion H as [|? ? Hc Hr]; subst. destruct (run_encode cmd Hc) as (t1 & H1 & E1).
    destruct (IH Hr) as (t2 & H2 & E2). exists (t1 ++ t2).
    cbn [map concat flat_map]. rewrite run_app, H1, H2. split; [reflexivity|].
    unfold cmds_of in *. rewrite flat_map_app, E1, E2. reflexivity.
Qed.

(* Round trip of any stream of Face / FaceModify / Char commands, under every chunking *)
Theorem stream_roundtrip cmds chunks :
  Forall cmd_ok cmds -> concat chunks = concat (map encode cmds) ->
  decode_chunks st_init chunks = Some (flat_map readback cmds, st_init).
Proof.
  intros Hok Hc. rewrite decode_chunks_run by apply st_init_idle. rewrite Hc.
  destruct (run_stream cmds Hok) as (toks & Hr & E). rewrite Hr. cbn [fst snd]. rewrite E. reflexivity.
Qed.

(* ---- the cell writer ---- *)
Definition item_wfp (h : hitem) : Prop := item_wf h = true.
Definition item_ok (h : hitem) : Prop := item_wf h = true /\ item_expressible h = true.

Definition item_cmds (h : hitem) : list command :=
  match h with
  | HSgr p => match sgr_face p with Some m => [CmdFaceModify m] | None => [] end
  | HText cs => map CmdChar cs
  end.

Lemma run_text cs :
  forallb char_ok cs = true ->
  exists toks, run st_init (concat (map utf8_encode cs)) = (st_init, toks) /\ cmds_of toks = map CmdChar cs.
Proof.
  induction cs as [|c r IH]; intros H.
  - exists []. split; reflexivity.
  - cbn [forallb] in H. apply andb_true_iff in H. destruct H as [Hc Hr].
    unfold char_ok in Hc. apply andb_true_iff in Hc. destruct Hc as [Hs Hn].
    apply negb_true_iff, N.eqb_neq in Hn.
    destruct (IH Hr) as (t2 & H2 & E2). exists (TItem (CmdChar c) :: t2).
    cbn [map concat]. rewrite run_app, (run_char c Hs Hn), H2. split; [reflexivity|].
    cbn [cmds_of flat_map cmd_of_tok opt_list app]. f_equal. exact E2.
Qed.

Lemma sgr_wf_bytes p : sgr_wf p = true -> forallb param_byte p = true.
Proof. unfold sgr_wf. rewrite !andb_true_iff. tauto. Qed.

Lemma run_hist hist :
  Forall item_wfp hist ->
  exists toks, run st_init (render hist) = (st_init, toks) /\ cmds_of toks = flat_map item_cmds hist.
Proof.
  induction hist as [|h r IH]; intros H.
  - exists []. split; reflexivity.
  - inversion H as [|? ? Hwf Hr]; subst. destruct (IH Hr) as (t2 & H2 & E2).
    unfold render in *. cbn [map concat flat_map].
    destruct h as [p|cs]; unfold item_wfp in Hwf; cbn [item_wf render_item item_cmds] in *.
    + destruct (sgr_face_sem_lib p Hwf) as (m & Hm & _).
      exists (TItem (CmdFaceModify m) :: t2). rewrite run_app, (run_sgr p m (sgr_wf_bytes p Hwf) Hm), H2.
      split; [reflexivity|]. rewrite Hm. cbn [cmds_of flat_map cmd_of_tok opt_list app]. f_equal. exact E2.
    + destruct (run_text cs Hwf) as (t1 & H1 & E1). exists (t1 ++ t2).
      rewrite run_app, H1, H2. split; [reflexivity|].
      unfold cmds_of in *. rewrite flat_map_app, E1, E2. reflexivity.
Qed.

Definition abs_cell (c : cell) : rcell := (fst c, abs_face (snd c)).

Lemma fold_chars cs cur cells :
  fold_left writer_step (map CmdChar cs) (cur, cells) = (cur, cells ++ map (fun c => (c, cur)) cs).
Proof.
  revert cells. induction cs as [|c r IH]; intros cells; cbn [map fold_left writer_step].
  - rewrite app_nil_r. reflexivity.
  - rewrite IH, <- app_assoc. reflexivity.
Qed.

Lemma fold_sem : forall hist cur cells,
  Forall item_wfp hist -> face_ok cur ->
  let '(cur', cells') := fold_left writer_step (flat_map item_cmds hist) (cur, cells) in
  let '(r', rcells') := fold_left ref_step_lib hist (abs_face cur, map abs_cell cells) in
  abs_face cur' = r' /\ map abs_cell cells' = rcells'.
Proof.
  induction hist as [|h rest IH]; intros cur cells H Hcur.
  - cbn. split; reflexivity.
  - inversion H as [|? ? Hwf Hr]; subst. cbn [flat_map]. rewrite fold_left_app. cbn [fold_left ref_step_lib].
    destruct h as [p|cs]; unfold item_wfp in Hwf; cbn [item_wf item_cmds] in *.
    + destruct (sgr_face_sem_lib p Hwf) as (m & Hm & Hsem).
      rewrite Hm. cbn [fold_left writer_step].
      rewrite <- Hsem, <- (abs_fm_apply m cur Hcur).
      apply IH; [exact Hr| apply fm_apply_ok, Hcur].
    + rewrite fold_chars.
      replace (map abs_cell cells ++ map (fun c => (c, abs_face cur)) cs)
        with (map abs_cell (cells ++ map (fun c => (c, cur)) cs)).
      * apply IH; assumption.
      * rewrite map_app, map_map. reflexivity.
Qed.

(* The cells carry the faces of the library's recorded SGR machine (the reference machine with
   7 / 27 / 39 / 49 as no-ops) for EVERY history of well-formed sequences and every chunking *)
Theorem writer_semantics_lib f0 hist chunks :
  face_ok f0 -> Forall item_wfp hist -> concat chunks = render hist ->
  exists cells, tty_write_chunks f0 chunks = Some cells
                /\ map abs_cell cells = ref_cells_lib (abs_face f0) hist.
Proof.
  intros Hf Hok Hc. unfold tty_write_chunks. rewrite decode_chunks_run by apply st_init_idle. rewrite Hc.
  destruct (run_hist hist Hok) as (toks & Hr & E). rewrite Hr. cbn [fst snd]. rewrite E.
  pose proof (fold_sem hist f0 [] Hok Hf) as H.
  destruct (fold_left writer_step (flat_map item_cmds hist) (f0, [])) as [cur' cells'].
  unfold ref_cells_lib. cbn [map] in H. destruct (fold_left ref_step_lib hist (abs_face f0, [])) as [r' rcells'].
  exists cells'. split; [reflexivity|]. cbn [snd]. apply H.
Qed.

Lemma ref_fold_lib_eq : forall hist st,
  Forall item_ok hist -> fold_left ref_step_lib hist st = fold_left ref_step hist st.
Proof.
  induction hist as [|h rest IH]; intros st H; [reflexivity|]. inversion H as [|? ? [Hwf Hex] Hr]; subst.
  cbn [fold_left]. rewrite <- (IH _ Hr). f_equal. destruct st as [r cells].
  destruct h as [p|cs]; cbn [ref_step ref_step_lib item_expressible] in *; [|reflexivity].
  apply negb_true_iff in Hex. rewrite (ref_sgr_lib_eq p r Hex). reflexivity.
Qed.

(* ANSI-coloured text through the escape-sequence cell writer follows SGR semantics, for every
   history of well-formed, expressible sequences and every chunking *)
Theorem writer_semantics f0 hist chunks :
  face_ok f0 -> Forall item_ok hist -> concat chunks = render hist ->
  exists cells, tty_write_chunks f0 chunks = Some cells
                /\ map abs_cell cells = ref_cells (abs_face f0) hist.
Proof.
  intros Hf Hok Hc.
  assert (Hwf : Forall item_wfp hist) by (eapply Forall_impl; [|exact Hok]; intros h [H _]; exact H).
  destruct (writer_semantics_lib f0 hist chunks Hf Hwf Hc) as (cells & H1 & H2). exists cells. split; [exact H1|].
  rewrite H2. unfold ref_cells_lib, ref_cells. rewrite ref_fold_lib_eq by exact Hok. reflexivity.
Qed.

Lemma roundtrip_modify : forall (m : face_modify) (chunks : list (list N)),
  fm_opaque m -> m <> fm_default ->
  concat chunks = encode (CmdFaceModify m) ->
  decode_chunks st_init chunks = Some ([CmdFaceModify m], st_init).
Proof.
  intros m chunks Ho Hne Hc.
  rewrite (stream_roundtrip [CmdFaceModify m] chunks); cbn [map concat flat_map readback].
  - destruct (fm_is_default m) eqn:E; [apply fm_is_default_spec in E; contradiction| reflexivity].
  - constructor; [exact Ho| constructor].
  - rewrite app_nil_r. exact Hc.
Qed.

Lemma roundtrip_empty_modify : forall m : face_modify,
  encode (CmdFaceModify m) = [] <-> m = fm_default.
Proof.
  intros m. cbn [encode]. unfold enc_modify. rewrite <- enc_modify_chunks_nil.
  destruct (enc_modify_chunks m); split; try reflexivity; try discriminate.
Qed.

Lemma roundtrip_face : forall (f : face) (chunks : list (list N)),
  face_opaque f -> face_ok f ->
  concat chunks = encode (CmdFace f) ->
  exists m', decode_chunks st_init chunks = Some ([CmdFaceModify m'], st_init)
             /\ forall g, face_ok g -> abs_face (fm_apply m' g) = expressible (abs_face f).
Proof.
  intros f chunks Ho Hf Hc. exists (face_as_modify f). split.
  - rewrite (stream_roundtrip [CmdFace f] chunks); cbn [map concat flat_map readback]; [reflexivity| |].
    + constructor; [exact Ho| constructor].
    + rewrite app_nil_r. exact Hc.
  - intros g Hg. rewrite abs_fm_apply by exact Hg. apply face_as_modify_meaning, Hf.
Qed.

Lemma roundtrip_text : forall (c : N) (chunks : list (list N)),
  scalar_ok c = true ->
  concat chunks = encode (CmdChar c) ->
  decode_chunks st_init chunks = Some ([CmdChar (char_out c)], st_init).
Proof.
  intros c chunks Hs Hc.
  rewrite (stream_roundtrip [CmdChar c] chunks); cbn [map concat flat_map readback]; [reflexivity| |].
  - constructor; [assumption| constructor].
  - rewrite app_nil_r. exact Hc.
Qed.

Lemma roundtrip_text_same : forall (c : N) (chunks : list (list N)),
  scalar_ok c = true -> char_unsafe c = false ->
  concat chunks = encode (CmdChar c) ->
  decode_chunks st_init chunks = Some ([CmdChar c], st_init).
Proof.
  intros c chunks Hs Hu Hc. rewrite (roundtrip_text c chunks Hs Hc). unfold char_out. rewrite Hu. reflexivity.
Qed.

Lemma apply_meaning : forall (m : face_modify) (f : face),
  face_ok f -> abs_face (fm_apply m f) = rapply m (abs_face f) /\ face_ok (fm_apply m f).
Proof. intros m f Hf. split; [apply abs_fm_apply, Hf| apply fm_apply_ok, Hf]. Qed.

Lemma palette_tables : (forall i, color256 i = palette256 i)
                      /\ map (fun '(r, g, b) => (r, g, b, 255)) ansi16 = SGR_COLORS.
Proof. split; [exact color256_palette| exact ansi16_is_library_table]. Qed.

Lemma inexpressible_refuted :
  exists hist, hist_wf hist = true /\ hist_expressible hist = false
    /\ option_map (map abs_cell) (tty_write_chunks face_default [render hist])
       <> Some (ref_cells (abs_face face_default) hist).
Proof.
  exists [HSgr [51; 49]; HSgr [51; 57]; HText [97]].
  split; [vm_compute; reflexivity|]. split; [vm_compute; reflexivity|].
  vm_compute. intros H. discriminate H.
Qed.
