(* C04: generic lemmas over the production event automaton -- a report whose printed form leads
   to an accepting terminal state is decoded first, whatever follows; sequences of such reports
   decode to the sequence of their events; the literal key table. *)
From Coq Require Import List NArith Bool Lia Arith.
From SNT Require Import Base.Outcome Base.Dec10 Base.Dec10Proofs.
From SNT Require Import Automata.DfaData Automata.DfaDataProofs Automata.Tokenizer Automata.TokenizerMunch
  Automata.TerminalToken Automata.PatReach Automata.PatReachProofs.
From SNT Require Import Decoder.EvModel Decoder.Printer Decoder.KeyTable Decoder.EvProd.
From SNT Require Import Gen.ProdDFA Gen.C04Keys.
Import ListNotations.
Local Open Scope N_scope.

Lemma event_terminal_ok : terminal_ok event_dfa = true.
Proof. vm_compute. reflexivity. Qed.

Lemma event_term_dead q b : d_terminal event_dfa q = true -> d_delta event_dfa q b = None.
Proof. apply terminal_ok_sound, event_terminal_ok. Qed.

Lemma prod_run_from w : prod_run w = run_from event_dfa (d_start event_dfa) w.
Proof. reflexivity. Qed.

(* a report is `single` when its bytes lead to an accepting terminal state whose item is the
   event it denotes *)
(* the event of an accepting state: the item, or Raw of the bytes when the payload decoder
   returns None (decoder.rs:264-269 and TTYEventDecoder::decode) *)
Definition item_event (o : option tev) (w : list N) : tev :=
  match o with Some e => e | None => ERaw w end.

Definition single_bytes (w : list N) (ev : tev) : Prop :=
  w <> [] /\ exists q, prod_run w = Some q /\ d_accepting event_dfa q = true
                       /\ d_terminal event_dfa q = true /\ item_event (prod_item q w) w = ev.

Theorem decode_single w ev rest :
  single_bytes w ev ->
  prod_decode (w ++ rest) = (ev :: fst (prod_decode rest), snd (prod_decode rest)).
Proof.
  intros (Hne & q & Hrun & Hacc & Hterm & Hitem).
  unfold prod_decode, ev_decode, ev_munch.
  rewrite (munch_terminal N tev (d_start event_dfa) (d_delta event_dfa) (d_accepting event_dfa)
             (d_terminal event_dfa) _ event_term_dead w q rest Hne Hrun Hacc Hterm).
  cbn [fst snd map]. unfold mk_tok. fold prod_item. rewrite <- Hitem.
  destruct (prod_item q w); reflexivity.
Qed.

Definition single (r : report) : Prop := single_bytes (print r) (prod_denote r).

(* concatenation: a sequence of single reports followed by anything *)
Theorem decode_reports : forall rs rest,
  Forall single rs ->
  prod_decode (concat (map print rs) ++ rest)
  = (map prod_denote rs ++ fst (prod_decode rest), snd (prod_decode rest)).
Proof.
  induction rs as [|r rs IH]; intros rest H; cbn [map concat app].
  - destruct (prod_decode rest). reflexivity.
  - inversion H as [|? ? Hr Hrs]; subst. rewrite <- app_assoc.
    rewrite (decode_single _ _ _ Hr), (IH rest Hrs). reflexivity.
Qed.

Lemma prod_decode_nil : prod_decode [] = ([], []).
Proof. reflexivity. Qed.

Corollary decode_reports_exact rs :
  Forall single rs -> prod_decode (concat (map print rs)) = (map prod_denote rs, []).
Proof.
  intros H. rewrite <- (app_nil_r (concat (map print rs))), (decode_reports rs [] H), prod_decode_nil.
  cbn [fst snd]. rewrite app_nil_r. reflexivity.
Qed.

(* ---- families: one reachability check + one payload lemma each ---- *)
Definition fam_good (id : N) (q : N) : bool :=
  d_accepting event_dfa q && d_terminal event_dfa q
  && match d_tag event_dfa q with
     | Some (false, i) => nth (N.to_nat i) event_matcher_ids 999 =? id
     | _ => false
     end.

Lemma fam_single p id w ev :
  family_check event_dfa p (fam_good id) = true -> matches p w -> w <> [] ->
  ev_payload decmode_codes decstatus_codes id w = Some ev ->
  single_bytes w ev.
Proof.
  intros Hc Hm Hne Hp. destruct (family_check_sound event_dfa p (fam_good id) w Hc Hm) as (q & Hr & Hg).
  split; [exact Hne|]. exists q. unfold fam_good in Hg. rewrite !andb_true_iff in Hg. destruct Hg as [[Ha Ht] Htag].
  split; [rewrite prod_run_from; exact Hr|]. split; [exact Ha|]. split; [exact Ht|].
  unfold prod_item, ev_item. destruct (d_tag event_dfa q) as [[[|] i]|]; try discriminate.
  apply N.eqb_eq in Htag. destruct (nth_error event_matcher_ids (N.to_nat i)) as [id'|] eqn:E.
  - rewrite (nth_error_nth _ _ 999 E) in Htag. subst id'. rewrite Hp. reflexivity.
  - rewrite (nth_overflow _ 999) in Htag by (apply nth_error_None, E).
    subst id. cbn in Hp. discriminate.
Qed.

Lemma fam_single_raw p id w :
  family_check event_dfa p (fam_good id) = true -> matches p w -> w <> [] ->
  ev_payload decmode_codes decstatus_codes id w = None ->
  single_bytes w (ERaw w).
Proof.
  intros Hc Hm Hne Hp. destruct (family_check_sound event_dfa p (fam_good id) w Hc Hm) as (q & Hr & Hg).
  split; [exact Hne|]. exists q. unfold fam_good in Hg. rewrite !andb_true_iff in Hg. destruct Hg as [[Ha Ht] Htag].
  split; [rewrite prod_run_from; exact Hr|]. split; [exact Ha|]. split; [exact Ht|].
  unfold prod_item, ev_item. destruct (d_tag event_dfa q) as [[[|] i]|]; try discriminate.
  apply N.eqb_eq in Htag. destruct (nth_error event_matcher_ids (N.to_nat i)) as [id'|] eqn:E; [|reflexivity].
  rewrite (nth_error_nth _ _ 999 E) in Htag. subst id'. rewrite Hp. reflexivity.
Qed.

(* ---- the literal key table ---- *)
Definition kname_eqb (a b : kname) : bool :=
  match a, b with
  | KF x, KF y | KChar x, KChar y => x =? y
  | KEsc, KEsc | KEnter, KEnter | KTab, KTab | KBackspace, KBackspace | KDelete, KDelete
  | KInsert, KInsert | KDown, KDown | KEnd, KEnd | KHome, KHome | KLeft, KLeft
  | KPageDown, KPageDown | KPageUp, KPageUp | KRight, KRight | KUp, KUp => true
  | _, _ => false
  end.
Lemma kname_eqb_eq a b : kname_eqb a b = true -> a = b.
Proof. destruct a, b; cbn; try discriminate; try reflexivity; intros H; apply N.eqb_eq in H; subst; reflexivity. Qed.

Definition lit_entry_ok (e : list N * (kname * N)) : bool :=
  let w := fst e in
  bare_prefix w
  || (negb (match w with [] => true | _ => false end)
      && self_delimiting w
      && match prod_run w with
         | Some q => match prod_item q w with
                     | Some (EKey k m) => kname_eqb k (fst (snd e)) && (m =? snd (snd e))
                     | _ => false
                     end
         | None => false
         end).

Lemma lit_table_ok : forallb lit_entry_ok prod_key_table = true.
Proof. vm_compute. reflexivity. Qed.

Lemma bytes_eqb_eq a b : bytes_eqb a b = true -> a = b.
Proof.
  unfold bytes_eqb. revert b. induction a as [|x a IH]; intros [|y b]; cbn; try discriminate; [reflexivity|].
  intros H. apply andb_true_iff in H. destruct H as [Hl H]. apply andb_true_iff in H. destruct H as [Hxy H].
  apply N.eqb_eq in Hxy. subst. f_equal. apply IH. rewrite Hl, H. reflexivity.
Qed.

Lemma lit_lookup_In tab w km : lit_lookup tab w = Some km -> In (w, km) tab.
Proof.
  induction tab as [|[w' k] r IH]; cbn [lit_lookup]; [discriminate|].
  destruct (bytes_eqb w' w) eqn:E.
  - intros H. inversion H; subst. apply bytes_eqb_eq in E. subst. left. reflexivity.
  - intros H. right. apply IH, H.
Qed.

(* every self-delimiting sequence of the library's key table decodes to the key the table names *)
Theorem single_literal w :
  lit_lookup prod_key_table w <> None -> bare_prefix w = false -> single (RLit w).
Proof.
  intros Hl Hbp. destruct (lit_lookup prod_key_table w) as [[k m]|] eqn:E; [|contradiction].
  pose proof (lit_lookup_In _ _ _ E) as Hin.
  pose proof lit_table_ok as H. rewrite forallb_forall in H. specialize (H _ Hin).
  unfold lit_entry_ok in H. cbn [fst snd] in H. rewrite Hbp in H. cbn [orb] in H.
  rewrite !andb_true_iff in H. destruct H as [[Hne Hsd] H].
  unfold single, single_bytes, prod_denote, denote. cbn [print]. rewrite E.
  split; [destruct w; [discriminate| discriminate]|].
  unfold self_delimiting in Hsd. destruct (prod_run w) as [q|]; [|discriminate].
  apply andb_true_iff in Hsd. destruct Hsd as [Ha Ht].
  exists q. split; [reflexivity|]. split; [exact Ha|]. split; [exact Ht|].
  destruct (prod_item q w) as [[k' m'| | | | | | | | | | | | | ]|]; try discriminate.
  apply andb_true_iff in H. destruct H as [Hk Hm]. apply kname_eqb_eq in Hk. apply N.eqb_eq in Hm. subst. reflexivity.
Qed.

(* a single report leaves the automaton in a terminal accepting state *)
Lemma single_self_delimiting r : single r -> self_delimiting (print r) = true.
Proof.
  intros (_ & q & Hr & Ha & Ht & _). unfold self_delimiting. rewrite Hr, Ha, Ht. reflexivity.
Qed.

(* xterm / fixterms modifier convention, checked on the whole table: CSI <n> ; <m> <final> names
   the same key as the unmodified entry with modifier mask m - 1 *)
Definition base_names (w : list N) (k : kname) : bool :=
  match lit_lookup prod_key_table w with
  | Some (k', 0) => kname_eqb k' k
  | _ => false
  end.
(* (byte tests instead of literal list patterns: those make the pattern-match compiler explode) *)
Definition mod_entry_ok (e : list N * (kname * N)) : bool :=
  let k := fst (snd e) in
  let mods := snd (snd e) in
  match fst e with
  | [a; b; c; d; m; f] =>
      if (a =? 27) && (b =? 91) && (d =? 59) then
        if f =? 126 then (mods =? m - 49) && base_names [27; 91; c; 126] k        (* CSI n ; m ~ *)
        else if c =? 49 then (mods =? m - 49) && base_names [27; 91; f] k          (* CSI 1 ; m X *)
        else true
      else true
  | [a; b; c1; c2; d; m; f] =>
      if (a =? 27) && (b =? 91) && (d =? 59) && (f =? 126)
      then (mods =? m - 49) && base_names [27; 91; c1; c2; 126] k                   (* CSI nn ; m ~ *)
      else true
  | _ => true
  end.
Lemma mod_table_ok : forallb mod_entry_ok prod_key_table = true.
Proof. vm_compute. reflexivity. Qed.

(* DecMode / DecModeStatus: from_usize knows every discriminant of the enum *)
Lemma decmode_table_ok :
  forallb (fun m => existsb (N.eqb m) decmode_codes) decmode_all = true
  /\ forallb (fun s => existsb (N.eqb s) decstatus_codes) decstatus_all = true.
Proof. split; vm_compute; reflexivity. Qed.

(* ... and the numbers are the documented ones, variant by variant *)
Lemma decmode_names_ok :
  named_tables_agree decmode_named xterm_decmodes = true
  /\ named_tables_agree decstatus_named decrpm_statuses = true.
Proof. split; vm_compute; reflexivity. Qed.
