(* Full-detail model of the payload decoders of TTY_EVENT_AUTOMATA (src/decoder.rs), one
   function per `Matcher::decode` body, and of TTYEventDecoder on top of the generic
   tokeniser specification `munch` (Automata/Tokenizer.v; C03 proves that feeding the real
   decode loops with ANY partition of the stream into reads yields exactly `munch`).

   This file does not depend on Decoder/Payload.v (the few shared notions -- UTF-8 validity and
   decoding -- are defined here).  Unlike Decoder/Payload.v (C02, which abstracts colours, faces, termcap strings away and
   tracks panics), this model keeps everything property C04 speaks about: key names and
   modifier masks, coordinates, numbers, colours, strings.  Slices are total here (`sl`):
   that the real slicing never panics on accepted strings is C02's theorem.

   Numbers: `number_decode` is the value model of Base/Dec10.v (strings of at most 19 digits;
   longer ones are clamped by the code, outside C04's domain). *)
From Coq Require Import List NArith Bool.
From SNT Require Import Base.Dec10 Render.FaceModel Decoder.Sgr.
From SNT Require Import Encoder.FaceEnc.
From SNT Require Export Base.Utf8Valid.
From SNT Require Import Automata.DfaData Automata.Tokenizer.
Import ListNotations.
Local Open Scope N_scope.

Inductive kname :=
| KEsc | KEnter | KTab | KBackspace | KF (n : N) | KChar (c : N)
| KDelete | KInsert | KDown | KEnd | KHome | KLeft | KPageDown | KPageUp | KRight | KUp.
Inductive mname := MLeft | MMiddle | MRight | MMove | MWheelDown | MWheelUp.
Inductive tcolor := TFg | TBg | TPalette (i : N).

Inductive tev :=
| EKey (k : kname) (mods : N)
| EMouse (m : mname) (mods : N) (row col : N)
| ECursor (row col : N)
| ESize (ch cw ph pw : N)
| EDecMode (mode status : N)
| EDevAttrs (attrs : list N)
| EKittyImage (id : N) (placement : option N) (error : option (list N))
| EKeyLevel (n : N)
| EColor (name : tcolor) (c : rgba)
| ETermcap (caps : list (list N * option (list N)))
| EFaceGet (f : face)
| EFaceModify (m : face_modify)
| EPaste (text : list N)
| ERaw (bs : list N).

(* KeyMod bits (keys.rs) *)
Definition MOD_ALL : N := 511.
Definition MOD_PRESS : N := 256.
Definition mod_from_bits (b : N) : N := N.land b MOD_ALL.

(* data[a .. data.len() - b] *)
Definition sl (a b : nat) (data : list N) : list N :=
  firstn (length data - b - a) (skipn a data).

Fixpoint filter_map {A B} (f : A -> option B) (l : list A) : list B :=
  match l with
  | [] => []
  | a :: r => match f a with Some b => b :: filter_map f r | None => filter_map f r end
  end.

(* utf8_decode (decoder.rs): the code point assembled from a matched 1..4 byte slice *)
Definition utf8_code (slice : list N) : option N :=
  match slice with
  | [] => None
  | first :: tail =>
      let start :=
        match length slice with
        | 1%nat => Some (N.land first 127)
        | 2%nat => Some (N.land first 31)
        | 3%nat => Some (N.land first 15)
        | 4%nat => Some (N.land first 7)
        | _ => None
        end in
      match start with
      | Some c => Some (fold_left (fun code b => N.lor (N.shiftl code 6) (N.land b 63)) tail c)
      | None => None
      end
  end.

Definition numbers_decode (data : list N) (sep : N) : list N :=
  filter_map Dec10.number_decode (Sgr.split_on sep data).

Definition checked_dec (n : N) : option N := if n =? 0 then None else Some (n - 1).

(* splitn(2, sep) *)
Fixpoint split_first (sep : N) (l : list N) : list N * option (list N) :=
  match l with
  | [] => ([], None)
  | b :: r => if b =? sep then ([], Some r)
              else let '(p, q) := split_first sep r in (b :: p, q)
  end.

Definition key_value_decode (sep : N) (data : list N) : list (list N * list N) :=
  filter_map (fun kv => match split_first 61 kv with (k, Some v) => Some (k, v) | (_, None) => None end)
             (Sgr.split_on sep data).

(* ---- 1 CursorPositionMatcher ---- *)
Definition dec_cursor (data : list N) : option tev :=
  match numbers_decode (sl 2 1 data) 59 with
  | r :: rest =>
      match checked_dec r with
      | None => None
      | Some row =>
          match rest with
          | c :: _ => match checked_dec c with Some col => Some (ECursor row col) | None => None end
          | [] => None
          end
      end
  | [] => None
  end.

(* ---- 2 DecModeMatcher ---- *)
Definition dec_decmode (modes statuses : list N) (data : list N) : option tev :=
  match numbers_decode (sl 3 2 data) 59 with
  | m :: rest =>
      if existsb (N.eqb m) modes then
        match rest with
        | s :: _ => if existsb (N.eqb s) statuses then Some (EDecMode m s) else None
        | [] => None
        end
      else None
  | [] => None
  end.

(* ---- 3 DeviceAttrsMatcher: BTreeSet<usize> of the non-zero numbers ---- *)
Fixpoint set_insert (x : N) (l : list N) : list N :=
  match l with
  | [] => [x]
  | y :: r => if x <? y then x :: l else if x =? y then l else y :: set_insert x r
  end.
Definition dec_devattrs (data : list N) : option tev :=
  Some (EDevAttrs (fold_left (fun s x => set_insert x s)
                             (filter (fun v => 0 <? v) (numbers_decode (sl 3 1 data) 59)) [])).

(* ---- 4 GraphicRenditionMatcher ---- *)
Definition dec_sgr (data : list N) : option tev :=
  match sgr_face (sl 2 1 data) with Some m => Some (EFaceModify m) | None => None end.

(* ---- 5 KittyImageMatcher ---- *)
Definition bytes_eqb (a b : list N) : bool :=
  Nat.eqb (length a) (length b) && forallb (fun p => fst p =? snd p) (combine a b).

Fixpoint kitty_fields (kvs : list (list N * list N)) (id : N) (pl : option N) : option (N * option N) :=
  match kvs with
  | [] => Some (id, pl)
  | (k, v) :: r =>
      if bytes_eqb k [105] then
        match Dec10.number_decode v with Some n => kitty_fields r n pl | None => None end
      else if bytes_eqb k [112] then
        match Dec10.number_decode v with Some n => kitty_fields r id (Some n) | None => None end
      else kitty_fields r id pl
  end.

Definition dec_kitty_image (data : list N) : option tev :=
  let '(head, msg) := split_first 59 (sl 3 2 data) in
  match kitty_fields (key_value_decode 44 head) 0 None with
  | None => None
  | Some (id, pl) =>
      match msg with
      | None => None
      | Some m => Some (EKittyImage id pl (if bytes_eqb m [79; 75] then None else Some m))
      end
  end.

(* ---- 6 KittyKeyboardMatcher ---- *)
Definition keyboard_key (code : N) : option kname :=
  if code =? 27 then Some KEsc
  else if code =? 13 then Some KEnter
  else if code =? 9 then Some KTab
  else if code =? 127 then Some KBackspace
  else if (57376 <=? code) && (code <=? 57398) then Some (KF (code - 57376 + 13))
  else if (code <=? 4294967295) && negb ((57344 <=? code) && (code <=? 63743)) then
    (if scalar_ok code then Some (KChar code) else None)
  else None.

(* the branch for `CSI unicode-key-code:alternates ; modifiers:event-type ; text u` *)
Definition kitty_key_fields (body : list N) : option tev :=
  match Sgr.split_on 59 body with
  | [] => None
  | codes :: rest =>
      match keyboard_key (match numbers_decode codes 58 with c :: _ => c | [] => 1 end) with
      | None => None
      | Some name =>
          match rest with
          | [] => Some (EKey name 0)
          | modes :: _ =>
              let ms := numbers_decode modes 58 in
              let mode := match ms with
                          | m :: _ => if 1 <? m then mod_from_bits (m - 1) else 0
                          | [] => 0
                          end in
              let event_type := match ms with _ :: e :: _ => e | _ => 0 end in
              if event_type =? 0 then Some (EKey name mode) else None
          end
      end
  end.

Definition dec_kitty_keyboard (data : list N) : option tev :=
  let body := sl 2 1 data in
  match body with
  | 63 :: level => match Dec10.number_decode level with Some n => Some (EKeyLevel n) | None => None end
  | _ => kitty_key_fields body
  end.

(* ---- 7 MouseEventMatcher ---- *)
Definition last_byte (data : list N) : N := last data 0.
(* button / modifier decoding of the first parameter; `press` = the final byte is 'M';
   None: a button the library has no name for (bit 7, horizontal wheel) *)
Definition mouse_fields (event : N) (press : bool) : option (mname * N) :=
  let mode := mod_from_bits (N.land (N.shiftr event 2) 7) in
  let mode := if press then N.lor mode MOD_PRESS else mode in
  let button := N.land event 3 in
  if negb (N.land event 128 =? 0) || (negb (N.land event 64 =? 0) && (1 <? button)) then None
  else
    let name :=
      if negb (N.land event 64 =? 0) then
        (if button =? 0 then MWheelDown else if button =? 1 then MWheelUp else MMove)
      else if button =? 0 then MLeft
      else if button =? 1 then MMiddle
      else if button =? 2 then MRight
      else MMove in
    Some (name, mode).

Definition dec_mouse (data : list N) : option tev :=
  match numbers_decode (sl 3 1 data) 59 with
  | event :: c :: r :: _ =>
      match checked_dec c, checked_dec r with
      | Some col, Some row =>
          match mouse_fields event (last_byte data =? 77) with
          | Some (name, mode) => Some (EMouse name mode row col)
          | None => None
          end
      | _, _ => None
      end
  | _ => None
  end.

(* ---- 8 OSControlMatcher ---- *)
Definition hex_val (b : N) : option N :=
  if (65 <=? b) && (b <=? 70) then Some (b - 65 + 10)
  else if (97 <=? b) && (b <=? 102) then Some (b - 97 + 10)
  else if (48 <=? b) && (b <=? 57) then Some (b - 48)
  else None.

Fixpoint hex_value (l : list N) (acc : N) : option N :=
  match l with
  | [] => Some acc
  | b :: r => match hex_val b with Some v => hex_value r (acc * 16 + v) | None => None end
  end.

(* usize::from_str_radix(s, 16): non-empty, hex digits (an optional leading '+' is accepted by
   Rust; not produced by any terminal and outside the model) *)
Definition parse_component (s : list N) : option N :=
  match s with
  | [] => None
  | _ =>
      match hex_value s 0 with
      | None => None
      | Some value =>
          match length s with
          | 4%nat => Some (N.min (value / 256) 255)
          | 3%nat => Some (N.min (value / 16) 255)
          | 2%nat => Some (N.min value 255)
          | 1%nat => Some (N.min (value * 17) 255)
          | _ => None
          end
      end
  end.

(* rasterize RGBA::from_str on a string without '/': #RRGGBB or #RRGGBBAA (colour names are
   not modelled: no terminal reports a name) *)
Definition parse_hash (s : list N) : option rgba :=
  match s with
  | 35 :: hex =>
      match hex with
      | [a; b; c; d; e; f] =>
          match hex_value [a; b] 0, hex_value [c; d] 0, hex_value [e; f] 0 with
          | Some r, Some g, Some bl => Some (RGBA r g bl 255)
          | _, _, _ => None
          end
      | [a; b; c; d; e; f; g; h] =>
          match hex_value [a; b] 0, hex_value [c; d] 0, hex_value [e; f] 0, hex_value [g; h] 0 with
          | Some r, Some gr, Some bl, Some al => Some (RGBA r gr bl al)
          | _, _, _, _ => None
          end
      | _ => None
      end
  | _ => None
  end.

Definition parse_color (s : list N) : option rgba :=
  if existsb (N.eqb 47) s then
    (* a '/' makes RGBA::from_str fail on anything of the form rgb:...; then strip_prefix("rgb:") *)
    match s with
    | 114 :: 103 :: 98 :: 58 :: rgb =>
        match Sgr.split_on 47 rgb with
        | r :: g :: b :: _ =>
            match parse_component r, parse_component g, parse_component b with
            | Some r, Some g, Some b => Some (RGBA r g b 255)
            | _, _, _ => None
            end
        | _ => None
        end
    | _ => None
    end
  else
    match parse_hash s with
    | Some c => Some c
    | None =>
        match s with
        | 114 :: 103 :: 98 :: 58 :: _ => None     (* rgb: with fewer than three components *)
        | _ => None
        end
    end.

Definition dec_osc (data : list N) : option tev :=
  let body := if last_byte data =? 7 then sl 2 1 data else sl 2 2 data in
  match Sgr.split_on 59 body with
  | idp :: args =>
      match Dec10.number_decode idp with
      | None => None
      | Some id =>
          let named (name : tcolor) (args : list (list N)) :=
            match args with
            | c :: _ => if utf8_valid c then
                          match parse_color c with Some col => Some (EColor name col) | None => None end
                        else None
            | [] => None
            end in
          if id =? 10 then named TFg args
          else if id =? 11 then named TBg args
          else if id =? 4 then
            match args with
            | i :: args' => match Dec10.number_decode i with Some idx => named (TPalette idx) args' | None => None end
            | [] => None
            end
          else None
      end
  | [] => None
  end.

(* ---- 9 ReportSettingMatcher ---- *)
Definition dec_report (data : list N) : option tev :=
  match nth_error data 2 with
  | Some code =>
      let payload := sl 5 2 data in
      if negb (code =? 49) then None
      else if (last payload 0 =? 109) && negb (match payload with [] => true | _ => false end) then
        match sgr_face (removelast payload) with
        | Some m => Some (EFaceGet (fm_apply m face_default))
        | None => None
        end
      else None
  | None => None
  end.

(* ---- 10 TermCapMatcher ---- *)
(* hex_decode: pairs while both digits are hex; a trailing single byte cannot occur on accepted strings *)
Fixpoint hex_decode (l : list N) : list N :=
  match l with
  | a :: b :: r =>
      match hex_val a, hex_val b with
      | Some x, Some y => (x * 16 + y) :: hex_decode r
      | _, _ => []
      end
  | _ => []
  end.

(* String collected from `u8 as char`: every byte below 256 is the scalar of the same value;
   the model keeps the code points *)
Fixpoint str_ltb (a b : list N) : bool :=
  match a, b with
  | [], [] => false
  | [], _ :: _ => true
  | _ :: _, [] => false
  | x :: a', y :: b' => if x <? y then true else if y <? x then false else str_ltb a' b'
  end.
Fixpoint map_insert (k : list N) (v : option (list N)) (m : list (list N * option (list N)))
  : list (list N * option (list N)) :=
  match m with
  | [] => [(k, v)]
  | (k', v') :: r =>
      if str_ltb k k' then (k, v) :: m
      else if str_ltb k' k then (k', v') :: map_insert k v r
      else (k, v) :: r
  end.

Definition dec_termcap (data : list N) : option tev :=
  let body := sl 5 2 data in
  match nth_error data 2 with
  | Some 49 =>
      Some (ETermcap (fold_left (fun m kv => map_insert (hex_decode (fst kv)) (Some (hex_decode (snd kv))) m)
                                (key_value_decode 59 body) []))
  | _ =>
      Some (ETermcap (fold_left (fun m k => map_insert (hex_decode k) None m) (Sgr.split_on 59 body) []))
  end.

(* ---- 11 TermSizeMatcher ---- *)
Definition dec_termsize (data : list N) : option tev :=
  match Sgr.split_on 27 data with
  | _ :: cell :: pixel :: _ =>
      match numbers_decode (sl 3 1 cell) 59, numbers_decode (sl 3 1 pixel) 59 with
      | ch :: cw :: _, ph :: pw :: _ => Some (ESize ch cw ph pw)
      | _, _ => None
      end
  | _ => None
  end.

(* ---- 12 UTF8Matcher(Printable) mapped to Key(Char c) ---- *)
Definition dec_utf8 (data : list N) : option tev :=
  match utf8_code data with
  | Some c => if scalar_ok c then Some (EKey (KChar c) 0) else None     (* char::from_u32 *)
  | None => None
  end.

(* ---- 13 BracketedPasteMatcher ---- *)
Definition dec_paste (data : list N) : option tev :=
  let text := sl 6 6 data in
  if utf8_valid text then Some (EPaste text) else None.

(* dispatch on the payload-decoder id (translate/dfa.py MATCHER_IDS); 0 = BasicEventsMatcher::decode *)
(* ---- 14 ModifiedKeyMatcher: CSI 1 ; m {A B C D F H P Q S} and CSI code ; m ~ ---- *)
(* TILDE_KEYS of decoder.rs *)
Definition tilde_key (code : N) : option kname :=
  if code =? 1 then Some KHome else if code =? 2 then Some KInsert else if code =? 3 then Some KDelete
  else if code =? 4 then Some KEnd else if code =? 5 then Some KPageUp else if code =? 6 then Some KPageDown
  else if code =? 7 then Some KInsert else if code =? 8 then Some KEnd
  else if (11 <=? code) && (code <=? 15) then Some (KF (code - 10))
  else if (17 <=? code) && (code <=? 21) then Some (KF (code - 11))
  else if (23 <=? code) && (code <=? 24) then Some (KF (code - 12))
  else None.

Definition final_key (f : N) : option kname :=
  if f =? 65 then Some KUp else if f =? 66 then Some KDown else if f =? 67 then Some KRight
  else if f =? 68 then Some KLeft else if f =? 70 then Some KEnd else if f =? 72 then Some KHome
  else if f =? 80 then Some (KF 1) else if f =? 81 then Some (KF 2) else if f =? 83 then Some (KF 4)
  else None.

Definition dec_modkey (data : list N) : option tev :=
  match numbers_decode (sl 2 1 data) 59 with
  | code :: p :: _ =>
      match checked_dec p with
      | None => None
      | Some mode =>
          if 255 <? mode then None
          else
            let f := last data 0 in
            match (if f =? 126 then tilde_key code else if code =? 1 then final_key f else None) with
            | Some k => Some (EKey k mode)
            | None => None
            end
      end
  | _ => None
  end.

Definition ev_payload (modes statuses : list N) (id : N) (data : list N) : option tev :=
  if id =? 1 then dec_cursor data
  else if id =? 2 then dec_decmode modes statuses data
  else if id =? 3 then dec_devattrs data
  else if id =? 4 then dec_sgr data
  else if id =? 5 then dec_kitty_image data
  else if id =? 6 then dec_kitty_keyboard data
  else if id =? 7 then dec_mouse data
  else if id =? 8 then dec_osc data
  else if id =? 9 then dec_report data
  else if id =? 10 then dec_termcap data
  else if id =? 11 then dec_termsize data
  else if id =? 12 then dec_utf8 data
  else if id =? 13 then dec_paste data
  else if id =? 14 then dec_modkey data
  else None.

(* ---- TTYEventDecoder over an explicit automaton ---- *)
Section Dec.
  Variable d : dfa.
  Variable matcher_ids : list N.            (* matcher index -> payload decoder id *)
  Variable item_keys : list (kname * N).    (* literal item index -> key *)
  Variables modes statuses : list N.

  Definition ev_item (q : N) (buf : list N) : option tev :=
    match d_tag d q with
    | Some (true, k) =>
        match nth_error item_keys (N.to_nat k) with
        | Some (name, mods) => Some (EKey name mods)
        | None => None
        end
    | Some (false, i) =>
        match nth_error matcher_ids (N.to_nat i) with
        | Some id => ev_payload modes statuses id buf
        | None => None
        end
    | None => None
    end.

  Definition ev_munch := munch N tev (d_start d) (d_delta d) (d_accepting d) (d_terminal d) ev_item.

  Definition tok_event (t : tok tev) : tev :=
    match t with TItem e _ => e | TRaw s => ERaw s end.

  (* the events of a stream (whatever the partition into reads) and the bytes still pending *)
  Definition ev_decode (s : list N) : list tev * list N :=
    (map tok_event (fst (ev_munch s)), snd (ev_munch s)).
End Dec.
