(* The public decoders of src/decoder.rs as instances of the generic tokeniser:
     TTYEventDecoder   = MatcherDecoder over TTY_EVENT_AUTOMATA  + Raw wrapper (decoder.rs:312-351)
     TTYCommandDecoder = MatcherDecoder over TTY_COMMAND_AUTOMATA + Raw wrapper (decoder.rs:353-392)
     Utf8Decoder       = its own little machine over UTF8DFA (decoder.rs:75-142)
   The automata are the regenerated tables of Gen/ProdDFA.v (any `dfa` can be plugged in). *)
From Coq Require Import List NArith Arith Bool.
From SNT Require Import Base.Outcome Automata.DfaData Automata.Tokenizer Decoder.Payload.
Import ListNotations.
Local Open Scope N_scope.

(* what the tokeniser stores as the event of an accepting state *)
Inductive pitem : Type :=
| ISure (e : pev)
| IMaybe (e : pev)       (* `e`, or unrecognised (Raw of the same bytes): external colour parser *)
| IPanic (site : N).     (* the real code panics while computing this candidate *)

(* decoder.rs:257-269: first tag of the state; literal items are cloned, matchers are called *)
Definition item_of (payload : N -> list N -> outcome pres) (d : dfa) (q : N) (buf : list N) : option pitem :=
  match d_tag d q with
  | None => Some (IPanic site_untagged)
  | Some (true, k) => Some (ISure (PLit k))
  | Some (false, i) =>
      match payload i buf with
      | Ok RNone => None
      | Ok (RSome e) => Some (ISure e)
      | Ok (RExt e) => Some (IMaybe e)
      | Panic s => Some (IPanic s)
      | Err _ => Some (IPanic 0)
      | OutOfFuel => Some (IPanic 0)
      end
  end.

Section Tty.
  Variable d : dfa.
  Variable payload : N -> list N -> outcome pres.

  Notation item := (item_of payload d).
  Notation tstate := (st N pitem).
  Notation ttok := (tok pitem).

  Definition t_init : tstate := init (d_start d).
  Definition t_decode := decode N pitem (d_start d) (d_delta d) (d_accepting d) (d_terminal d) item.
  Definition t_decode_into := decode_into N pitem (d_start d) (d_delta d) (d_accepting d) (d_terminal d) item.
  Definition t_feed := feed N pitem (d_start d) (d_delta d) (d_accepting d) (d_terminal d) item.
  Definition t_munch := munch N pitem (d_start d) (d_delta d) (d_accepting d) (d_terminal d) item.

  (* TTYEventDecoder::decode / TTYCommandDecoder::decode: Err(reject) becomes Raw(reject), but an
     EMPTY reject becomes `None` (which ends the caller's `while let Some(..)` loop) *)
  Definition tty_decode (s : tstate) (input : list N) : outcome (tstate * option ttok * list N) :=
    let* (s', o, rest) := t_decode s input in
    match o with
    | Some (TRaw []) => Ok (s', None, rest)
    | _ => Ok (s', o, rest)
    end.

  (* the trait's default decode_into over that wrapper *)
  Fixpoint tty_decode_into (fuel : nat) (s : tstate) (input : list N) : outcome (list ttok * tstate * list N) :=
    match fuel with
    | O => OutOfFuel
    | S fuel' =>
        let* (s1, o, rest) := tty_decode s input in
        match o with
        | None => Ok ([], s1, rest)
        | Some t =>
            let* (ts, s2, rest2) := tty_decode_into fuel' s1 rest in
            Ok (t :: ts, s2, rest2)
        end
    end.

  Fixpoint tty_feed (fuel : nat) (s : tstate) (chunks : list (list N)) : outcome (list ttok * tstate) :=
    match chunks with
    | [] => Ok ([], s)
    | c :: cs =>
        let* (t1, s1, _) := tty_decode_into fuel s c in
        let* (t2, s2) := tty_feed fuel s1 cs in
        Ok (t1 ++ t2, s2)
    end.

  (* the decode_item call made for byte b in state s, if any (decoder.rs:252-269) *)
  Definition call_of (s : tstate) (b : N) : option (N * list N) :=
    match d_delta d (sq s) b with
    | Some q' => if d_accepting d q' then Some (q', sbuf s ++ [b]) else None
    | None => None
    end.

  (* ---- the same decoder with panics propagated where the code raises them ----
     A payload decoder that panics does so inside decode_byte, at the byte that completes the
     accepted string, whether or not that candidate would later be replaced by a longer match.
     The `_c` functions are the loops above with that call checked first. *)
  Definition call_panic (s : tstate) (b : N) : option N :=
    match call_of s b with
    | Some (q', w) => match item q' w with Some (IPanic site) => Some site | _ => None end
    | None => None
    end.

  Definition dbyte_c (s : tstate) (b : N) : outcome (tstate * option ttok) :=
    match call_panic s b with
    | Some site => Panic site
    | None => Ok (decode_byte N pitem (d_start d) (d_delta d) (d_accepting d) (d_terminal d) item s b)
    end.

  Fixpoint drain_c (fuel : nat) (s : tstate) : outcome (tstate * option ttok) :=
    match fuel with
    | O => OutOfFuel
    | S fuel' =>
        match sres s with
        | [] => Ok (s, None)
        | b :: r =>
            let* (s', o) := dbyte_c (set_res s r) b in
            match o with
            | Some t => Ok (s', Some t)
            | None => drain_c fuel' s'
            end
        end
    end.

  Fixpoint scan_c (s : tstate) (input : list N) : outcome (tstate * option ttok * list N) :=
    match input with
    | [] => Ok (s, None, [])
    | b :: r =>
        let* (s', o) := dbyte_c s b in
        match o with
        | Some t => Ok (s', Some t, r)
        | None => scan_c s' r
        end
    end.

  Definition decode_c (s : tstate) (input : list N) : outcome (tstate * option ttok * list N) :=
    let* (s1, o) := drain_c (S (length (sres s))) s in
    match o with
    | Some t => Ok (s1, Some t, input)
    | None => scan_c s1 input
    end.

  Definition tty_decode_c (s : tstate) (input : list N) : outcome (tstate * option ttok * list N) :=
    let* (s', o, rest) := decode_c s input in
    match o with
    | Some (TRaw []) => Ok (s', None, rest)
    | _ => Ok (s', o, rest)
    end.

  Fixpoint tty_decode_into_c (fuel : nat) (s : tstate) (input : list N) : outcome (list ttok * tstate * list N) :=
    match fuel with
    | O => OutOfFuel
    | S fuel' =>
        let* (s1, o, rest) := tty_decode_c s input in
        match o with
        | None => Ok ([], s1, rest)
        | Some t =>
            let* (ts, s2, rest2) := tty_decode_into_c fuel' s1 rest in
            Ok (t :: ts, s2, rest2)
        end
    end.

  Fixpoint tty_feed_c (fuel : nat) (s : tstate) (chunks : list (list N)) : outcome (list ttok * tstate) :=
    match chunks with
    | [] => Ok ([], s)
    | c :: cs =>
        let* (t1, s1, _) := tty_decode_into_c fuel s c in
        let* (t2, s2) := tty_feed_c fuel s1 cs in
        Ok (t1 ++ t2, s2)
    end.
End Tty.

(* ------------------------------------------------------------------ *)
(* Utf8Decoder *)

Record u8st : Type := mk_u8 { uq : N; ubuf : list N }.   (* state, buffer[..offset] *)

Inductive uout : Type := UChar (c : N) | UErr.

Section U8.
  Variable d : dfa.

  Definition u8_init : u8st := mk_u8 (d_start d) [].

  (* one call of Utf8Decoder::decode: Ok(Some(c)) / Err(..) / Ok(None), and what the reader still holds *)
  Fixpoint u8_decode (s : u8st) (input : list N) : outcome (u8st * option uout * list N) :=
    match input with
    | [] => Ok (s, None, [])
    | b :: r =>
        match d_delta d (uq s) b with
        | None => Ok (u8_init, Some UErr, r)
        | Some q' =>
            (* push: self.buffer[self.offset] = byte with buffer: [u8; 4] *)
            if (4 <=? length (ubuf s))%nat then Panic site_slice
            else
              let buf' := ubuf s ++ [b] in
              if d_accepting d q' then
                let* c := utf8_decode buf' in
                match c with
                | Some c => Ok (u8_init, Some (UChar c), r)
                | None => Ok (u8_init, Some UErr, r)
                end
              else u8_decode (mk_u8 q' buf') r
        end
    end.

  (* a driver that keeps calling decode until Ok(None), noting errors and going on *)
  Fixpoint u8_drain (fuel : nat) (s : u8st) (input : list N) : outcome (list uout * u8st) :=
    match fuel with
    | O => OutOfFuel
    | S fuel' =>
        let* (s1, o, rest) := u8_decode s input in
        match o with
        | None => Ok ([], s1)
        | Some x => let* (xs, s2) := u8_drain fuel' s1 rest in Ok (x :: xs, s2)
        end
    end.

  Fixpoint u8_feed (s : u8st) (chunks : list (list N)) : outcome (list uout * u8st) :=
    match chunks with
    | [] => Ok ([], s)
    | c :: cs =>
        let* (x1, s1) := u8_drain (S (length c)) s c in
        let* (x2, s2) := u8_feed s1 cs in
        Ok (x1 ++ x2, s2)
    end.
End U8.
