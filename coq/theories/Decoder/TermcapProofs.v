(* dec_termcap (XTGETTCAP reply) calls hex_decode on the fields of data[5 .. len-2]; hex_decode
   indexes pair[1] of every two-byte chunk, which is out of range for a final one-byte chunk.
   It is panic-free when every field (between `;`, around the first `=` of a piece) has even
   length.  That shape is certified for the strings the automaton accepts by a monitor
   (Automata/Reach.v) whose state is an abstraction of the split of the bytes after the 5-byte
   prefix: all closed fields even so far, whether the current piece has seen its `=`, parity of
   the current field, and whether the last two bytes are separators (the decoder cuts the last
   two bytes off blindly). *)
From Coq Require Import List NArith Arith Bool Lia.
From SNT Require Import Base.Outcome Decoder.Payload Decoder.PayloadProofs Decoder.TermSizeProofs.
Import ListNotations.

(* ------------------------------------------------------------------ *)
(* hex_decode on fields of even length *)

Lemma hex_panics_even n : forall l, Nat.even (length l) = true -> hex_panics n l = false.
Proof.
  induction n as [|n IH]; intros l H; [reflexivity|].
  destruct l as [|b0 [|b1 r]]; cbn [hex_panics]; [reflexivity|discriminate|].
  destruct (is_hex b0 && is_hex b1); [|reflexivity]. apply IH. exact H.
Qed.

Lemma hex_panics_keq n : forall k v, Nat.even (length k) = true -> hex_panics n (k ++ 61%N :: v) = false.
Proof.
  induction n as [|n IH]; intros k v H; [reflexivity|].
  destruct k as [|b0 [|b1 r]]; [|discriminate|].
  - cbn [app hex_panics]. destruct v; reflexivity.
  - cbn [app hex_panics]. destruct (is_hex b0 && is_hex b1); [|reflexivity]. apply IH. exact H.
Qed.

Lemma split_first_some sep l : forall k v, split_first sep l = (k, Some v) -> l = k ++ sep :: v.
Proof.
  induction l as [|b r IH]; intros k v H; cbn [split_first] in H; [discriminate|].
  destruct (N.eqb_spec b sep) as [->|Hne].
  - inversion H; subst. reflexivity.
  - destruct (split_first sep r) as [p q]. inversion H; subst. cbn [app]. f_equal. apply IH. reflexivity.
Qed.

Lemma split_first_none sep l : forall k, split_first sep l = (k, None) -> l = k.
Proof.
  induction l as [|b r IH]; intros k H; cbn [split_first] in H; [inversion H; reflexivity|].
  destruct (b =? sep)%N; [discriminate|].
  destruct (split_first sep r) as [p q]. inversion H; subst. f_equal. apply IH. reflexivity.
Qed.

Lemma split_first_snoc sep l b :
  split_first sep (l ++ [b]) =
  match split_first sep l with
  | (k, Some v) => (k, Some (v ++ [b]))
  | (k, None) => if (b =? sep)%N then (k, Some []) else (k ++ [b], None)
  end.
Proof.
  induction l as [|a r IH].
  - cbn. destruct (b =? sep)%N; reflexivity.
  - cbn [app split_first]. destruct (a =? sep)%N; [reflexivity|].
    rewrite IH. destruct (split_first sep r) as [k [v|]]; [reflexivity|].
    destruct (b =? sep)%N; reflexivity.
Qed.

Definition piece_ok (p : list N) : bool :=
  let '(k, ov) := split_first 61 p in
  Nat.even (length k) && match ov with Some v => Nat.even (length v) | None => true end.

Lemma piece_ok_hex p : piece_ok p = true -> hex_decode_ok p = Ok tt.
Proof.
  unfold piece_ok, hex_decode_ok. destruct (split_first 61 p) as [k [v|]] eqn:E; intros H.
  - apply andb_prop in H. destruct H as [Hk _].
    rewrite (split_first_some _ _ _ _ E), (hex_panics_keq _ _ _ Hk). reflexivity.
  - apply andb_prop in H. destruct H as [Hk _].
    rewrite (split_first_none _ _ _ E), (hex_panics_even _ _ Hk). reflexivity.
Qed.

Lemma piece_ok_kv p k v :
  piece_ok p = true -> split_first 61 p = (k, Some v) ->
  hex_decode_ok k = Ok tt /\ hex_decode_ok v = Ok tt.
Proof.
  unfold piece_ok, hex_decode_ok. intros H E. rewrite E in H.
  apply andb_prop in H. destruct H as [Hk Hv].
  rewrite (hex_panics_even _ _ Hk), (hex_panics_even _ _ Hv). split; reflexivity.
Qed.

Lemma termcap_fields_total (pieces : list (list N)) :
  (forall p, In p pieces -> piece_ok p = true) ->
  Payload.all_ok (flat_map (fun kv => [hex_decode_ok (fst kv); hex_decode_ok (snd kv)])
                           (filter_map (fun kv => match split_first 61 kv with
                                                  | (k, Some v) => Some (k, v)
                                                  | (_, None) => None
                                                  end) pieces)) = Ok tt
  /\ Payload.all_ok (map hex_decode_ok pieces) = Ok tt.
Proof.
  induction pieces as [|p r IH]; intros H; [split; reflexivity|].
  destruct IH as [IH1 IH2]; [intros q Hq; apply H; right; exact Hq|].
  pose proof (H p (or_introl eq_refl)) as Hp. split.
  - cbn [filter_map]. destruct (split_first 61 p) as [k [v|]] eqn:E; [|exact IH1].
    destruct (piece_ok_kv _ _ _ Hp E) as [Hk Hv].
    cbn [flat_map app fst snd Payload.all_ok]. rewrite Hk, Hv. cbn [bind]. exact IH1.
  - cbn [map Payload.all_ok]. rewrite (piece_ok_hex _ Hp). cbn [bind]. exact IH2.
Qed.

(* the decoder is total when every piece of its body is well shaped *)
Theorem dec_termcap_shape_total data body :
  (7 <= length data)%nat -> mid data 5 2 = Ok body ->
  (forall p, In p (split_on 59 body) -> piece_ok p = true) ->
  exists r, dec_termcap data = Ok r.
Proof.
  intros Hl Hb Hp. unfold dec_termcap.
  destruct (index_ok data 2) as [code ->]; [lia|]. cbn [bind]. rewrite Hb. cbn [bind].
  destruct (termcap_fields_total _ Hp) as [H1 H2].
  destruct (code =? 49)%N.
  - unfold key_value_decode. rewrite H1. cbn [bind]. eexists; reflexivity.
  - rewrite H2. cbn [bind]. eexists; reflexivity.
Qed.

(* ------------------------------------------------------------------ *)
(* the abstraction of the bytes after the prefix *)

Definition is_sep (b : N) : bool := ((b =? 59) || (b =? 61))%N.

Definition abs_allok (t : list N) : bool :=
  let P := split_on 59 t in
  forallb piece_ok (removelast P)
  && match split_first 61 (last P []) with (k, Some _) => Nat.even (length k) | (_, None) => true end.
Definition abs_eq (t : list N) : bool :=
  match split_first 61 (last (split_on 59 t) []) with (_, Some _) => true | (_, None) => false end.
Definition abs_par (t : list N) : bool :=
  match split_first 61 (last (split_on 59 t) []) with
  | (_, Some v) => Nat.odd (length v)
  | (k, None) => Nat.odd (length k)
  end.
Definition abs_l1 (t : list N) : bool := match rev t with x :: _ => is_sep x | [] => false end.
Definition abs_l2 (t : list N) : bool := match rev t with _ :: y :: _ => is_sep y | _ => false end.

Definition b2n (b : bool) : N := if b then 1%N else 0%N.
Definition tc_enc (a e p l1 l2 : bool) : N :=
  (5 + b2n a + 2 * b2n e + 4 * b2n p + 8 * b2n l1 + 16 * b2n l2)%N.
Definition tc_dec (m : N) : bool * bool * bool * bool * bool :=
  let x := (m - 5)%N in (N.testbit x 0, N.testbit x 1, N.testbit x 2, N.testbit x 3, N.testbit x 4).

Lemma tc_dec_enc a e p l1 l2 : tc_dec (tc_enc a e p l1 l2) = (a, e, p, l1, l2).
Proof. destruct a, e, p, l1, l2; reflexivity. Qed.

Lemma tc_enc_bound a e p l1 l2 : (5 <= tc_enc a e p l1 l2 < 63)%N.
Proof. destruct a, e, p, l1, l2; cbv; split; congruence. Qed.

(* one byte of the body *)
Definition abs_step (s : bool * bool * bool * bool * bool) (b : N) : bool * bool * bool * bool * bool :=
  let '(a, e, p, l1, l2) := s in
  if (b =? 59)%N then (a && negb p, false, false, true, l1)
  else if (b =? 61)%N then
         if e then (a, true, negb p, true, l1) else (a && negb p, true, false, true, l1)
       else (a, e, negb p, false, l1).

Definition abs (t : list N) : bool * bool * bool * bool * bool :=
  (abs_allok t, abs_eq t, abs_par t, abs_l1 t, abs_l2 t).

Lemma removelast_snoc {A} (l : list A) x : removelast (l ++ [x]) = l.
Proof. apply removelast_last. Qed.

Lemma odd_snoc {A} (l : list A) x : Nat.odd (length (l ++ [x])) = negb (Nat.odd (length l)).
Proof. rewrite app_length. cbn [length]. rewrite Nat.add_1_r, Nat.odd_succ, <- Nat.negb_odd. reflexivity. Qed.

Lemma even_snoc {A} (l : list A) x : Nat.even (length (l ++ [x])) = negb (Nat.even (length l)).
Proof. rewrite app_length. cbn [length]. rewrite Nat.add_1_r, Nat.even_succ, <- Nat.negb_even. reflexivity. Qed.

Lemma abs_snoc t b : abs (t ++ [b]) = abs_step (abs t) b.
Proof.
  unfold abs, abs_step, abs_allok, abs_eq, abs_par, abs_l1, abs_l2.
  rewrite rev_app_distr. cbn [rev app].
  rewrite split_on_snoc. pose proof (split_on_nonempty 59 t) as Hne.
  set (P := split_on 59 t) in *.
  assert (HP : P = removelast P ++ [last P []]) by (apply app_removelast_last; exact Hne).
  destruct (N.eqb_spec b 59) as [->|H59].
  - (* a piece is closed *)
    rewrite removelast_snoc, last_snoc. cbn [split_first length Nat.even Nat.odd].
    rewrite HP at 1. rewrite forallb_app. cbn [forallb]. unfold piece_ok at 2.
    destruct (split_first 61 (last P [])) as [k [v|]];
      rewrite <- ?Nat.negb_even, ?negb_involutive, ?andb_true_r, <- ?andb_assoc; reflexivity.
  - rewrite removelast_snoc, last_snoc. rewrite split_first_snoc.
    unfold is_sep at 1. rewrite (proj2 (N.eqb_neq b 59) H59). cbn [orb].
    destruct (split_first 61 (last P [])) as [k [v|]].
    + destruct (N.eqb_spec b 61) as [->|H61]; rewrite odd_snoc; reflexivity.
    + destruct (N.eqb_spec b 61) as [->|H61].
      * cbn [length Nat.odd]. rewrite <- Nat.negb_odd. rewrite andb_true_r. reflexivity.
      * rewrite odd_snoc. reflexivity.
Qed.

(* ------------------------------------------------------------------ *)
(* the monitor over the whole string: five prefix bytes, then the abstraction *)

Definition tc_enc5 (s : bool * bool * bool * bool * bool) : N :=
  let '(a, e, p, l1, l2) := s in tc_enc a e p l1 l2.

Lemma tc_dec_enc5 s : tc_dec (tc_enc5 s) = s.
Proof. destruct s as [[[[a e] p] l1] l2]. apply tc_dec_enc. Qed.

Lemma tc_enc5_bound s : (5 <= tc_enc5 s < 63)%N.
Proof. destruct s as [[[[a e] p] l1] l2]. apply tc_enc_bound. Qed.

Definition tc_step (m b : N) : N :=
  if (m <? 4)%N then (m + 1)%N
  else if (m =? 4)%N then tc_enc true false false false false
       else tc_enc5 (abs_step (tc_dec m) b).

Definition tc_good (m : N) : bool :=
  (5 <=? m)%N && let '(a, e, p, l1, l2) := tc_dec m in a && negb p && negb l1 && negb l2.

Lemma tc_step_bound m b : (tc_step m b < 63)%N.
Proof.
  unfold tc_step. destruct (N.ltb_spec m 4); [lia|]. destruct (m =? 4)%N.
  - apply tc_enc_bound.
  - apply tc_enc5_bound.
Qed.

Definition tc_alpha (w : list N) : N :=
  if (length w <? 5)%nat then N.of_nat (length w) else tc_enc5 (abs (skipn 5 w)).

Lemma tc_alpha_snoc w b : tc_alpha (w ++ [b]) = tc_step (tc_alpha w) b.
Proof.
  unfold tc_alpha at 2. unfold tc_step.
  destruct (Nat.ltb_spec (length w) 5) as [Hlt|Hge].
  - destruct (N.ltb_spec (N.of_nat (length w)) 4) as [H4|H4].
    + unfold tc_alpha. rewrite app_length. cbn [length].
      destruct (Nat.ltb_spec (length w + 1) 5); [|lia]. lia.
    + assert (length w = 4)%nat by lia.
      replace (N.of_nat (length w) =? 4)%N with true by (symmetry; apply N.eqb_eq; lia).
      unfold tc_alpha. rewrite app_length. cbn [length].
      destruct (Nat.ltb_spec (length w + 1) 5); [lia|].
      rewrite skipn_all2 by (rewrite app_length; cbn; lia). reflexivity.
  - pose proof (tc_enc5_bound (abs (skipn 5 w))) as Hb.
    destruct (N.ltb_spec (tc_enc5 (abs (skipn 5 w))) 4); [lia|].
    replace (tc_enc5 (abs (skipn 5 w)) =? 4)%N with false by (symmetry; apply N.eqb_neq; lia).
    rewrite tc_dec_enc5. unfold tc_alpha. rewrite app_length. cbn [length].
    destruct (Nat.ltb_spec (length w + 1) 5); [lia|].
    rewrite skipn_app. replace (5 - length w)%nat with 0%nat by lia. cbn [skipn].
    rewrite abs_snoc. reflexivity.
Qed.

Theorem tc_mrun w : fold_left tc_step w 0%N = tc_alpha w.
Proof.
  induction w as [|b w IH] using rev_ind; [reflexivity|].
  rewrite fold_left_app. cbn [fold_left]. rewrite IH. symmetry. apply tc_alpha_snoc.
Qed.

(* ------------------------------------------------------------------ *)
(* what a good monitor state means *)

Lemma abs_good_pieces t :
  abs_allok t = true -> abs_par t = false ->
  forall p, In p (split_on 59 t) -> piece_ok p = true.
Proof.
  unfold abs_allok, abs_par. pose proof (split_on_nonempty 59 t) as Hne.
  set (P := split_on 59 t) in *. intros Ha Hp p Hin.
  rewrite (app_removelast_last [] Hne) in Hin. apply in_app_or in Hin.
  apply andb_prop in Ha. destruct Ha as [Hc Hk].
  destruct Hin as [Hin|[<-|[]]].
  - rewrite forallb_forall in Hc. apply Hc. exact Hin.
  - unfold piece_ok. destruct (split_first 61 (last P [])) as [k [v|]].
    + rewrite Hk. rewrite <- Nat.negb_odd, Hp. reflexivity.
    + rewrite <- Nat.negb_odd, Hp. reflexivity.
Qed.

Lemma piece_ok_strip2 q x y :
  is_sep x = false -> is_sep y = false -> piece_ok ((q ++ [x]) ++ [y]) = true -> piece_ok q = true.
Proof.
  unfold is_sep, piece_ok. intros Hx Hy. apply orb_false_elim in Hx, Hy.
  destruct Hx as [_ Hx], Hy as [_ Hy].
  rewrite !split_first_snoc. destruct (split_first 61 q) as [k [v|]].
  - rewrite !even_snoc, negb_involutive. intros H; exact H.
  - rewrite Hx, Hy. rewrite !even_snoc, negb_involutive. intros H; exact H.
Qed.

Lemma pieces_strip2 body x y :
  is_sep x = false -> is_sep y = false ->
  (forall p, In p (split_on 59 ((body ++ [x]) ++ [y])) -> piece_ok p = true) ->
  forall p, In p (split_on 59 body) -> piece_ok p = true.
Proof.
  intros Hx Hy H p Hin.
  assert (Hx59 : (x =? 59)%N = false) by (unfold is_sep in Hx; apply orb_false_elim in Hx; apply Hx).
  assert (Hy59 : (y =? 59)%N = false) by (unfold is_sep in Hy; apply orb_false_elim in Hy; apply Hy).
  rewrite (split_on_snoc 59 (body ++ [x]) y), Hy59 in H.
  rewrite (split_on_snoc 59 body x), Hx59 in H.
  rewrite removelast_snoc, last_snoc in H.
  pose proof (split_on_nonempty 59 body) as Hne.
  rewrite (app_removelast_last [] Hne) in Hin. apply in_app_or in Hin.
  destruct Hin as [Hin|[<-|[]]].
  - apply H. apply in_or_app. left. exact Hin.
  - apply (piece_ok_strip2 _ x y Hx Hy). apply H. apply in_or_app. right. left. reflexivity.
Qed.

Theorem dec_termcap_total_cert data :
  (7 <= length data)%nat -> tc_good (fold_left tc_step data 0%N) = true ->
  exists r, dec_termcap data = Ok r.
Proof.
  intros Hl Hg. rewrite tc_mrun in Hg. unfold tc_good, tc_alpha in Hg.
  destruct (Nat.ltb_spec (length data) 5) as [|_]; [lia|].
  set (t := skipn 5 data) in *.
  assert (Ht : (2 <= length t)%nat) by (subst t; rewrite skipn_length; lia).
  rewrite tc_dec_enc5 in Hg. unfold abs in Hg.
  apply andb_prop in Hg. destruct Hg as [_ Hg].
  apply andb_prop in Hg. destruct Hg as [Hg Hl2]. apply andb_prop in Hg. destruct Hg as [Hg Hl1].
  apply andb_prop in Hg. destruct Hg as [Ha Hp].
  apply negb_true_iff in Hp, Hl1, Hl2.
  (* the last two bytes *)
  unfold abs_l1 in Hl1. unfold abs_l2 in Hl2.
  pose proof (rev_length t) as Hrl.
  destruct (rev t) as [|y [|x r]] eqn:Er.
  - cbn [length] in Hrl. lia.
  - cbn [length] in Hrl. lia.
  - assert (Et : t = (rev r ++ [x]) ++ [y]).
    { rewrite <- (rev_involutive t), Er. cbn [rev]. reflexivity. }
    destruct (mid_ok data 5 2) as [body Hb]; [lia|].
    assert (Ebody : body = rev r).
    { unfold mid in Hb. destruct (Nat.leb_spec 2 (length data)); [|lia].
      destruct (Nat.leb_spec 5 (length data - 2)); [|lia].
      assert (Hb' : firstn (length data - 2 - 5) (skipn 5 data) = body) by congruence.
      rewrite <- Hb'. clear Hb Hb'.
      assert (Et' : skipn 5 data = (rev r ++ [x]) ++ [y]) by exact Et.
      rewrite Et'. rewrite <- app_assoc. cbn [app].
      assert (length data - 2 - 5 = length (rev r))%nat as ->.
      { apply (f_equal (@length N)) in Et'. rewrite !app_length in Et'. cbn [length] in Et'.
        rewrite skipn_length in Et'. lia. }
      rewrite firstn_app, Nat.sub_diag, firstn_all. cbn [firstn]. apply app_nil_r. }
    apply (dec_termcap_shape_total data body Hl Hb).
    rewrite Ebody. apply (pieces_strip2 _ x y Hl2 Hl1).
    rewrite <- Et. apply abs_good_pieces; assumption.
Qed.
