(* dec_termsize (XTWINOPS pair) slices the pieces of `data.split(ESC)`: it is panic-free when the
   second and third piece are at least 4 bytes long.  That shape is certified for the accepted
   strings by a monitor (Automata/Reach.v) whose state is an abstraction of `split_on 27 w`:
   number of pieces (capped), length of the last piece (capped), and whether the second piece
   was long enough when it was closed. *)
From Coq Require Import List NArith Arith Bool Lia.
From SNT Require Import Base.Outcome Decoder.Payload Decoder.PayloadProofs.
Import ListNotations.

(* ------------------------------------------------------------------ *)
(* split_on, from the right *)

Lemma split_on_nonempty sep l : split_on sep l <> [].
Proof.
  induction l as [|b r IH]; cbn [split_on]; [discriminate|].
  destruct (b =? sep)%N; [discriminate|]. destruct (split_on sep r); [contradiction|discriminate].
Qed.

Lemma removelast_cons {A} (x : A) l : l <> [] -> removelast (x :: l) = x :: removelast l.
Proof. destruct l; [contradiction|reflexivity]. Qed.

Lemma last_cons {A} (x : A) l d : l <> [] -> last (x :: l) d = last l d.
Proof. destruct l; [contradiction|reflexivity]. Qed.

Lemma split_on_snoc sep w b :
  split_on sep (w ++ [b]) =
  if (b =? sep)%N then split_on sep w ++ [[]]
  else removelast (split_on sep w) ++ [last (split_on sep w) [] ++ [b]].
Proof.
  induction w as [|a w IH].
  - cbn. destruct (b =? sep)%N; reflexivity.
  - cbn [app split_on]. rewrite IH. pose proof (split_on_nonempty sep w) as Hne.
    destruct (a =? sep)%N.
    + destruct (b =? sep)%N; [reflexivity|].
      rewrite removelast_cons, last_cons by exact Hne. reflexivity.
    + destruct (b =? sep)%N.
      * destruct (split_on sep w) as [|p ps]; [contradiction|]. reflexivity.
      * destruct (split_on sep w) as [|p ps] eqn:E; [contradiction|].
        destruct ps as [|p2 ps].
        -- cbn. reflexivity.
        -- cbn [removelast last app]. reflexivity.
Qed.

(* ------------------------------------------------------------------ *)
(* the monitor *)

Definition ts_enc (n c : nat) (ok : bool) : N := N.of_nat (n * 10 + c * 2 + (if ok then 1 else 0)).
Definition ts_dec (m : N) : nat * nat * bool :=
  let k := N.to_nat m in (Nat.min (k / 10) 4, Nat.min ((k mod 10) / 2) 4, Nat.odd k).

Definition ts_step (m b : N) : N :=
  let '(n, c, ok) := ts_dec m in
  if (b =? 27)%N then ts_enc (Nat.min (n + 1) 4) 0 (if Nat.eqb n 2 then (4 <=? c)%nat else ok)
  else ts_enc n (Nat.min (c + 1) 4) ok.

Definition ts_m0 : N := ts_enc 1 0 true.

Definition ts_good (m : N) : bool :=
  let '(n, c, ok) := ts_dec m in Nat.eqb n 3 && (4 <=? c)%nat && ok.

Lemma ts_dec_enc n c ok : (n <= 4)%nat -> (c <= 4)%nat -> ts_dec (ts_enc n c ok) = (n, c, ok).
Proof.
  intros Hn Hc. unfold ts_dec, ts_enc. rewrite Nat2N.id.
  destruct n as [|[|[|[|[|n]]]]]; try lia; destruct c as [|[|[|[|[|c]]]]]; try lia; destruct ok; reflexivity.
Qed.

Lemma ts_enc_bound n c ok : (n <= 4)%nat -> (c <= 4)%nat -> (ts_enc n c ok < 63)%N.
Proof. intros Hn Hc. unfold ts_enc. destruct ok; lia. Qed.

Lemma ts_step_bound m b : (ts_step m b < 63)%N.
Proof.
  unfold ts_step. destruct (ts_dec m) as [[n c] ok] eqn:E.
  assert (n <= 4)%nat by (unfold ts_dec in E; inversion E; lia).
  destruct (b =? 27)%N; apply ts_enc_bound; lia.
Qed.

Lemma ts_m0_bound : (ts_m0 < 63)%N.
Proof. reflexivity. Qed.

(* what the monitor state means *)
Definition ts_okf (pieces : list (list N)) : bool :=
  if (3 <=? length pieces)%nat then (4 <=? length (nth 1 pieces []))%nat else true.
Definition ts_alpha (pieces : list (list N)) : N :=
  ts_enc (Nat.min (length pieces) 4) (Nat.min (length (last pieces [])) 4) (ts_okf pieces).

Lemma last_snoc {A} (l : list A) x d : last (l ++ [x]) d = x.
Proof. induction l as [|a l IH]; [reflexivity|]. cbn [app]. rewrite last_cons; [exact IH|]. destruct l; discriminate. Qed.

Lemma removelast_len {A} (l : list A) (d : A) : l <> [] -> length l = S (length (removelast l)).
Proof.
  intros H. rewrite (app_removelast_last d H) at 1. rewrite app_length. cbn. lia.
Qed.

Lemma nth1_removelast_snoc (P : list (list N)) x :
  (3 <= length P)%nat -> nth 1 (removelast P ++ [x]) [] = nth 1 P [].
Proof.
  intros H. destruct P as [|p0 [|p1 [|p2 r]]]; cbn [length] in H; try lia.
  cbn [removelast]. destruct r; reflexivity.
Qed.

Lemma ts_alpha_snoc w b :
  ts_alpha (split_on 27 (w ++ [b])) = ts_step (ts_alpha (split_on 27 w)) b.
Proof.
  rewrite split_on_snoc. pose proof (split_on_nonempty 27 w) as Hne.
  set (P := split_on 27 w) in *.
  unfold ts_step. unfold ts_alpha at 2. rewrite ts_dec_enc by lia.
  destruct (b =? 27)%N.
  - unfold ts_alpha. rewrite app_length, last_snoc. cbn [length]. f_equal.
    + lia.
    + unfold ts_okf. rewrite app_length. cbn [length].
      destruct P as [|p0 [|p1 [|p2 r]]]; [contradiction| | |].
      * reflexivity.
      * cbn. destruct (length p1) as [|[|[|[|k]]]]; reflexivity.
      * cbn [length app nth]. replace (Nat.min (S (S (S (length r)))) 4 =? 2)%nat with false
          by (symmetry; apply Nat.eqb_neq; lia).
        replace (3 <=? S (S (S (length r))) + 1)%nat with true by (symmetry; apply Nat.leb_le; lia).
        reflexivity.
  - assert (HL : (length (removelast P) + 1 = length P)%nat) by (rewrite (removelast_len P [] Hne); lia).
    unfold ts_alpha. rewrite last_snoc. unfold ts_okf. rewrite !app_length. cbn [length]. rewrite !HL. f_equal.
    + lia.
    + destruct (3 <=? length P)%nat eqn:E; [|reflexivity].
      apply Nat.leb_le in E. rewrite nth1_removelast_snoc by exact E. reflexivity.
Qed.

Theorem ts_mrun w : fold_left ts_step w ts_m0 = ts_alpha (split_on 27 w).
Proof.
  induction w as [|b w IH] using rev_ind; [reflexivity|].
  rewrite fold_left_app. cbn [fold_left]. rewrite IH. symmetry. apply ts_alpha_snoc.
Qed.

(* a good monitor state means: exactly three pieces, the second and the third at least 4 bytes *)
Theorem ts_good_shape w :
  ts_good (fold_left ts_step w ts_m0) = true ->
  exists p0 cell pix, split_on 27 w = [p0; cell; pix] /\ (4 <= length cell)%nat /\ (4 <= length pix)%nat.
Proof.
  rewrite ts_mrun. unfold ts_good, ts_alpha. rewrite ts_dec_enc by lia.
  intros H. apply andb_prop in H. destruct H as [H Hok]. apply andb_prop in H. destruct H as [Hn Hc].
  apply Nat.eqb_eq in Hn. apply Nat.leb_le in Hc.
  destruct (split_on 27 w) as [|p0 [|cell [|pix [|x r]]]]; cbn [length] in Hn; try lia.
  exists p0, cell, pix. split; [reflexivity|].
  unfold ts_okf in Hok. cbn [length nth] in Hok.
  change (3 <=? 3)%nat with true in Hok. cbv iota in Hok. apply Nat.leb_le in Hok.
  cbn [last] in Hc. split; lia.
Qed.

Theorem dec_termsize_total data :
  ts_good (fold_left ts_step data ts_m0) = true -> exists r, dec_termsize data = Ok r.
Proof.
  intros H. destruct (ts_good_shape _ H) as (p0 & cell & pix & E & Hc & Hp).
  unfold dec_termsize. rewrite E.
  destruct (mid_ok cell 3 1) as [cb ->]; [lia|]. cbn [bind].
  destruct (numbers_decode cb 59) as [|ch [|cw rest]]; try (eexists; reflexivity).
  destruct (mid_ok pix 3 1) as [pb ->]; [lia|]. cbn [bind].
  destruct (numbers_decode pb 59) as [|ph [|pw rest2]]; eexists; reflexivity.
Qed.
