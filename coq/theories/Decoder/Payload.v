(* Payload decoders of src/decoder.rs: one function per `Matcher::decode` body,
   over `list N`, with CHECKED slicing / indexing / arithmetic: `Panic site`
   where (debug) Rust would panic.  Bytes are N below 256, numbers are unbounded
   N (usize values are compared against usize_max explicitly).

   What an event is abstracted to (pev): exactly the parts the property C02
   speaks about — which kind of event, its numeric fields, its characters — plus
   what decides item-vs-unrecognised.  sgr_face / sgr_color are modelled in full
   (every field of FaceModify, table indexings checked).  Payloads that are the
   business of external crates are opaque:
     - FaceModify::apply / FaceAttrs of a DECRPSS reply (FaceGet): only the
       colours of the face are modelled.
     - the colour text of an OSC reply is parsed by rasterize's `RGBA::from_str`
       first; a text starting with `rgb:` is never accepted by it (it is neither
       `#hex` nor an SVG colour name), so that form is modelled exactly
       (parse_color's own XParseColor branch); for any other text the result is
       `RExt ev` = "Some ev or None, decided by the external parser".
     - String::from_utf8_lossy (kitty error text) and the termcap strings.

   Line references are to src/decoder.rs of the crate worktree (after the C02
   `fix:` commits; Decoder/PayloadOld.v keeps the pre-fix bodies that panicked). *)
From Coq Require Import List NArith Arith Bool.
From SNT Require Import Base.Outcome.
Import ListNotations.
Local Open Scope N_scope.

Definition usize_max : N := 18446744073709551615.

(* panic sites *)
Definition site_slice : N := 1.      (* slice / index out of range, usize underflow in a range bound *)
Definition site_utf8_len : N := 2.   (* utf8_decode: panic!("invalid code point slice") / slice[0] *)
Definition site_hex_pair : N := 3.   (* hex_decode: pair[1] on a one-element chunk *)
Definition site_untagged : N := 4.   (* "[MatcherDecoder] found untagged accepting state" *)
Definition site_nomatcher : N := 5.  (* matchers[index] out of range *)
Definition site_arith : N := 6.      (* arithmetic overflow / underflow (debug profile) *)

(* ------------------------------------------------------------------ *)
(* events, abstracted *)

Definition rgb : Type := (N * N * N)%type.

(* FaceModify (src/face.rs): underline 0 None, 1 Straight, 2 Double, 3 Curly, 4 Dotted, 5 Dashed *)
Record facem : Type := mk_facem {
  f_reset : bool;
  f_fg : option rgb;
  f_bg : option rgb;
  f_ul : option N;
  f_ulc : option rgb;
  f_bold : option bool;
  f_italic : option bool;
  f_blink : option bool;
  f_strike : option bool
}.
Definition facem_default : facem := mk_facem false None None None None None None None None.

(* tables regenerated from the source: code lists of DecMode::from_usize / DecModeStatus::from_usize
   (src/terminal.rs) and the palette CUBE / GREYS / COLORS of src/decoder.rs *)
Record dtabs : Type := mk_dtabs {
  dt_modes : list N;
  dt_statuses : list N;
  dt_cube : list N;
  dt_greys : list N;
  dt_colors : list rgb
}.

Inductive pev : Type :=
| PLit (k : N)                                   (* MatcherTag::Item: k-th literal key event of the automaton *)
| PChar (c : N)                                  (* Key(Char c) / TerminalCommand::Char(c) from the UTF-8 matcher *)
| PKey (kind arg mode : N)                       (* Key { name, mode } decoded from parameters: kind 0 Esc, 1 Enter, 2 Tab, 3 Backspace,
                                                    4 F(arg), 5 Char(arg), 6 Delete, 7 Insert, 8 Down, 9 End, 10 Home, 11 Left,
                                                    12 PageDown, 13 PageUp, 14 Right, 15 Up *)
| PKeyLevel (n : N)
| PCursor (row col : N)
| PMouse (name mode row col : N)                 (* name 0 Left 1 Middle 2 Right 3 Move 4 WheelDown 5 WheelUp *)
| PSize (ch cw ph pw : N)
| PDecMode (mode status : N)
| PDevAttrs (l : list N)                         (* BTreeSet<usize>: increasing, distinct *)
| PKitty (id : N) (placement : option N) (err : bool)
| PColor (name idx : N) (c : option rgb)         (* name 0 Foreground, 1 Background, 2 Palette(idx); colour: Some for the `rgb:` form, None = decided by RGBA::from_str *)
| PFaceM (f : facem)                             (* Command(FaceModify(f)) / TerminalCommand::FaceModify(f) *)
| PFaceG (fg bg : option rgb)                    (* FaceGet(face): colours of the face; its attribute set is opaque (C06) *)
| PTermcap                                       (* Termcap(_): opaque *)
| PPaste (text : list N).                        (* the UTF-8 bytes of the pasted String *)

Inductive pres : Type :=
| RNone                 (* decode returned None: the bytes surface as Raw *)
| RSome (e : pev)
| RExt (e : pev).       (* Some e or None, decided by an external parser (RGBA::from_str) *)

(* ------------------------------------------------------------------ *)
(* slices *)

(* data[a .. data.len() - k] *)
Definition mid (data : list N) (a k : nat) : outcome (list N) :=
  if (k <=? length data)%nat then
    let b := (length data - k)%nat in
    if (a <=? b)%nat then Ok (firstn (b - a) (skipn a data)) else Panic site_slice
  else Panic site_slice.

(* data[i] *)
Definition index (data : list N) (i : nat) : outcome N :=
  match nth_error data i with Some b => Ok b | None => Panic site_slice end.

(* slice::split(|b| *b == sep): n separators give n + 1 pieces, never an empty list *)
Fixpoint split_on (sep : N) (l : list N) : list (list N) :=
  match l with
  | [] => [[]]
  | b :: r =>
      if b =? sep then [] :: split_on sep r
      else match split_on sep r with
           | p :: ps => (b :: p) :: ps
           | [] => [[b]]
           end
  end.

(* slice::splitn(2, |b| *b == sep): the piece before the first separator and, if there is one, the rest *)
Fixpoint split_first (sep : N) (l : list N) : list N * option (list N) :=
  match l with
  | [] => ([], None)
  | b :: r =>
      if b =? sep then ([], Some r)
      else let '(p, q) := split_first sep r in (b :: p, q)
  end.

Definition is_digit (b : N) : bool := (48 <=? b) && (b <=? 57).

(* number_decode (decoder.rs): saturating_mul(10).saturating_add(digit) from the left; None on a
   non-digit; the empty slice is 0; a value above usize::MAX is clamped to usize::MAX *)
Definition sat (n : N) : N := if n <=? usize_max then n else usize_max.
Fixpoint number_decode_acc (acc : N) (l : list N) : option N :=
  match l with
  | [] => Some acc
  | b :: r =>
      if is_digit b then number_decode_acc (sat (sat (acc * 10) + (b - 48))) r
      else None
  end.
Definition number_decode (l : list N) : option N := number_decode_acc 0 l.

Fixpoint filter_map {A B} (f : A -> option B) (l : list A) : list B :=
  match l with
  | [] => []
  | a :: r => match f a with Some b => b :: filter_map f r | None => filter_map f r end
  end.

(* numbers_decode: pieces that are not numbers are skipped *)
Definition numbers_decode (data : list N) (sep : N) : list N :=
  filter_map number_decode (split_on sep data).

(* key_value_decode: pieces without `=` are skipped *)
Definition key_value_decode (sep : N) (data : list N) : list (list N * list N) :=
  filter_map (fun kv => match split_first 61 kv with (k, Some v) => Some (k, v) | (_, None) => None end)
             (split_on sep data).

Definition checked_sub1 (n : N) : option N := if n =? 0 then None else Some (n - 1).

(* ------------------------------------------------------------------ *)
(* UTF-8 *)

Definition scalar_ok (c : N) : bool := (c <? 55296) || ((57344 <=? c) && (c <? 1114112)).
Definition char_from_u32 (c : N) : option N := if scalar_ok c then Some c else None.

(* the code point assembled by utf8_decode, before it is turned into a char *)
Definition utf8_code (slice : list N) : outcome N :=
  match slice with
  | [] => Panic site_utf8_len
  | first :: tail =>
      let start :=
        match length slice with
        | 1 => Ok (N.land first 127)
        | 2 => Ok (N.land first 31)
        | 3 => Ok (N.land first 15)
        | 4 => Ok (N.land first 7)
        | _ => Panic site_utf8_len
        end%nat in
      let* c := start in
      Ok (fold_left (fun code b => N.lor (N.shiftl code 6) (N.land b 63)) tail c)
  end.

(* utf8_decode: Option<char> via char::from_u32 *)
Definition utf8_decode (slice : list N) : outcome (option N) :=
  let* c := utf8_code slice in Ok (char_from_u32 c).

(* std::str::from_utf8(..).is_ok() *)
Definition cont (b : N) : bool := (128 <=? b) && (b <=? 191).
Fixpoint utf8_valid_aux (fuel : nat) (l : list N) : bool :=
  match fuel with
  | O => match l with [] => true | _ => false end
  | S f =>
      match l with
      | [] => true
      | b0 :: r0 =>
          if b0 <? 128 then utf8_valid_aux f r0
          else if (194 <=? b0) && (b0 <=? 223) then
            match r0 with b1 :: r1 => cont b1 && utf8_valid_aux f r1 | _ => false end
          else if (224 <=? b0) && (b0 <=? 239) then
            match r0 with
            | b1 :: b2 :: r2 =>
                (if b0 =? 224 then (160 <=? b1) && (b1 <=? 191)
                 else if b0 =? 237 then (128 <=? b1) && (b1 <=? 159)
                 else cont b1)
                && cont b2 && utf8_valid_aux f r2
            | _ => false
            end
          else if (240 <=? b0) && (b0 <=? 244) then
            match r0 with
            | b1 :: b2 :: b3 :: r3 =>
                (if b0 =? 240 then (144 <=? b1) && (b1 <=? 191)
                 else if b0 =? 244 then (128 <=? b1) && (b1 <=? 143)
                 else cont b1)
                && cont b2 && cont b3 && utf8_valid_aux f r3
            | _ => false
            end
          else false
      end
  end.
Definition utf8_valid (l : list N) : bool := utf8_valid_aux (length l) l.

(* ------------------------------------------------------------------ *)
(* the matchers; index = position in TTY_EVENT_AUTOMATA *)

(* 1 CursorPositionMatcher: "\x1b[{row};{col}R" *)
Definition dec_cursor (data : list N) : outcome pres :=
  let* body := mid data 2 1 in
  match numbers_decode body 59 with
  | r :: rest =>
      match checked_sub1 r with
      | None => Ok RNone
      | Some row =>
          match rest with
          | c :: _ => match checked_sub1 c with
                      | None => Ok RNone
                      | Some col => Ok (RSome (PCursor row col))
                      end
          | [] => Ok RNone
          end
      end
  | [] => Ok RNone
  end.

(* 2 DecModeMatcher: "\x1b[?{mode};{status}$y"; the code lists are those of DecMode::from_usize /
   DecModeStatus::from_usize, regenerated from src/terminal.rs *)
Definition dec_decmode (tb : dtabs) (data : list N) : outcome pres :=
  let* body := mid data 3 2 in
  match numbers_decode body 59 with
  | m :: rest =>
      if existsb (N.eqb m) (dt_modes tb) then
        match rest with
        | s :: _ => if existsb (N.eqb s) (dt_statuses tb) then Ok (RSome (PDecMode m s)) else Ok RNone
        | [] => Ok RNone
        end
      else Ok RNone
  | [] => Ok RNone
  end.

(* insertion into an increasing duplicate-free list *)
Fixpoint set_insert (x : N) (l : list N) : list N :=
  match l with
  | [] => [x]
  | y :: r => if x <? y then x :: l else if x =? y then l else y :: set_insert x r
  end.
Definition to_set (l : list N) : list N := fold_left (fun s x => set_insert x s) l [].

(* 3 DeviceAttrsMatcher: "\x1b[?<attr_1>;...<attr_n>c" *)
Definition dec_devattrs (data : list N) : outcome pres :=
  let* body := mid data 3 1 in
  Ok (RSome (PDevAttrs (to_set (filter (fun v => 0 <? v) (numbers_decode body 59))))).

(* ---- sgr_color / sgr_face (decoder.rs) ---- *)

(* table[i]: Panic where the Rust indexing would *)
Definition tab {A} (l : list A) (i : N) : outcome A :=
  match nth_error l (N.to_nat i) with Some a => Ok a | None => Panic site_slice end.

Definition take1 (l : list (list N)) : option (list N) * list (list N) :=
  match l with [] => (None, []) | x :: r => (Some x, r) end.
Definition onum (o : option (list N)) : option N :=
  match o with Some x => number_decode x | None => None end.
(* u8::try_from(value).ok() *)
Definition channel (v : N) : option N := if v <=? 255 then Some v else None.

(* sgr_color(cmds, sub_params): the colour and what is left of the iterator *)
Definition sgr_color (tb : dtabs) (cmds : list (list N)) (sub : bool)
  : outcome (option rgb * list (list N)) :=
  match cmds with
  | [] => Ok (None, [])
  | c0 :: r0 =>
      match number_decode c0 with
      | None => Ok (None, r0)
      | Some k =>
          if k =? 5 then
            match r0 with
            | [] => Ok (None, [])
            | c1 :: r1 =>
                match number_decode c1 with
                | None => Ok (None, r1)
                | Some index =>
                    if index <? 16 then
                      let* c := tab (dt_colors tb) index in Ok (Some c, r1)
                    else if index <? 232 then
                      let i := index - 16 in
                      let ri := i / 36 in
                      let i2 := i - ri * 36 in
                      let gi := i2 / 6 in
                      let bi := i2 - gi * 6 in
                      let* r := tab (dt_cube tb) ri in
                      let* g := tab (dt_cube tb) gi in
                      let* b := tab (dt_cube tb) bi in
                      Ok (Some (r, g, b), r1)
                    else if index <? 256 then
                      let* v := tab (dt_greys tb) (index - 232) in Ok (Some (v, v, v), r1)
                    else Ok (None, r1)
                end
            end
          else if k =? 2 then
            let '(a, r1) := take1 r0 in
            let '(b, r2) := take1 r1 in
            let '(c, r3) := take1 r2 in
            let '(d, r4) := if sub then take1 r3 else (None, r3) in
            let pick (r g b : N) :=
              match channel r, channel g, channel b with
              | Some r', Some g', Some b' => Some (r', g', b')
              | _, _, _ => None
              end in
            match onum a, onum b, onum c, onum d with
            | Some r, Some g, Some b, None => Ok (pick r g b, r4)
            | _, Some r, Some g, Some b => Ok (pick r g b, r4)
            | _, _, _, _ => Ok (None, r4)
            end
          else Ok (None, r0)
      end
  end.

Definition has_colon (g : list N) : bool := existsb (N.eqb 58) g.

(* SGR 4 / 4:n: underline style *)
Definition ul_of (o : option N) : N :=
  match o with
  | Some 0 => 0
  | Some 2 => 2
  | Some 3 => 3
  | Some 4 => 4
  | Some 5 => 5
  | _ => 1
  end.

(* one iteration of `while let Some(group) = groups.next()`: the face and the groups left *)
Definition sgr_group (tb : dtabs) (face : facem) (group : list N) (rest : list (list N))
  : outcome (facem * list (list N)) :=
  let args := split_on 58 group in
  let cmd := match args with a0 :: _ => number_decode a0 | [] => None end in
  let args1 := tl args in
  let args_empty := negb (has_colon group) in
  (* sgr_color_thunk: from the following groups (`;` form) or from the sub-parameters (`:` form) *)
  let color (k : option rgb -> facem) : outcome (facem * list (list N)) :=
    if args_empty then
      let* (c, rest') := sgr_color tb rest false in Ok (k c, rest')
    else
      let* (c, _) := sgr_color tb args1 true in Ok (k c, rest) in
  let set (f : facem) := Ok (f, rest) in
  let with_fg c := mk_facem (f_reset face) c (f_bg face) (f_ul face) (f_ulc face) (f_bold face) (f_italic face) (f_blink face) (f_strike face) in
  let with_bg c := mk_facem (f_reset face) (f_fg face) c (f_ul face) (f_ulc face) (f_bold face) (f_italic face) (f_blink face) (f_strike face) in
  let with_ulc c := mk_facem (f_reset face) (f_fg face) (f_bg face) (f_ul face) c (f_bold face) (f_italic face) (f_blink face) (f_strike face) in
  let with_ul u := mk_facem (f_reset face) (f_fg face) (f_bg face) (Some u) (f_ulc face) (f_bold face) (f_italic face) (f_blink face) (f_strike face) in
  let with_bold b := mk_facem (f_reset face) (f_fg face) (f_bg face) (f_ul face) (f_ulc face) (Some b) (f_italic face) (f_blink face) (f_strike face) in
  let with_italic b := mk_facem (f_reset face) (f_fg face) (f_bg face) (f_ul face) (f_ulc face) (f_bold face) (Some b) (f_blink face) (f_strike face) in
  let with_blink b := mk_facem (f_reset face) (f_fg face) (f_bg face) (f_ul face) (f_ulc face) (f_bold face) (f_italic face) (Some b) (f_strike face) in
  let with_strike b := mk_facem (f_reset face) (f_fg face) (f_bg face) (f_ul face) (f_ulc face) (f_bold face) (f_italic face) (f_blink face) (Some b) in
  match cmd with
  | None => set (mk_facem true None None None None None None None None)
  | Some v =>
      if v =? 0 then set (mk_facem true None None None None None None None None)
      else if v =? 1 then set (with_bold true)
      else if v =? 22 then set (with_bold false)
      else if v =? 3 then set (with_italic true)
      else if v =? 23 then set (with_italic false)
      else if v =? 4 then set (with_ul (ul_of (match args1 with a1 :: _ => number_decode a1 | [] => None end)))
      else if v =? 21 then set (with_ul 2)
      else if v =? 24 then set (with_ul 0)
      else if v =? 5 then set (with_blink true)
      else if v =? 25 then set (with_blink false)
      else if v =? 9 then set (with_strike true)
      else if v =? 29 then set (with_strike false)
      else if v =? 38 then color with_fg
      else if v =? 48 then color with_bg
      else if v =? 58 then color with_ulc
      else if (30 <=? v) && (v <=? 37) then let* c := tab (dt_colors tb) (v - 30) in set (with_fg (Some c))
      else if (90 <=? v) && (v <=? 97) then let* c := tab (dt_colors tb) (v - 82) in set (with_fg (Some c))
      else if (40 <=? v) && (v <=? 48) then let* c := tab (dt_colors tb) (v - 40) in set (with_bg (Some c))
      else if (100 <=? v) && (v <=? 107) then let* c := tab (dt_colors tb) (v - 92) in set (with_bg (Some c))
      else set face
  end.

(* the loop; every iteration consumes at least one group, `fuel` = number of groups suffices *)
Fixpoint sgr_loop (tb : dtabs) (fuel : nat) (face : facem) (groups : list (list N)) : outcome facem :=
  match groups with
  | [] => Ok face
  | g :: rest =>
      match fuel with
      | O => OutOfFuel
      | S fuel' =>
          let* (face', rest') := sgr_group tb face g rest in
          sgr_loop tb fuel' face' rest'
      end
  end.

Definition sgr_face (tb : dtabs) (data : list N) : outcome facem :=
  let groups := split_on 59 data in
  sgr_loop tb (length groups) facem_default groups.

(* 4 GraphicRenditionMatcher: Some(sgr_face(&data[2..data.len() - 1])) *)
Definition dec_sgr (tb : dtabs) (data : list N) : outcome pres :=
  let* body := mid data 2 1 in
  let* f := sgr_face tb body in
  Ok (RSome (PFaceM f)).

(* 5 KittyImageMatcher: "\x1b_Gkey=value(,key=value)*;response\x1b\\" *)
Fixpoint kitty_fields (kvs : list (list N * list N)) (id : N) (pl : option N) : option (N * option N) :=
  match kvs with
  | [] => Some (id, pl)
  | (k, v) :: r =>
      if match k with [105] => true | _ => false end then        (* b"i" *)
        match number_decode v with Some n => kitty_fields r n pl | None => None end
      else if match k with [112] => true | _ => false end then   (* b"p" *)
        match number_decode v with Some n => kitty_fields r id (Some n) | None => None end
      else kitty_fields r id pl
  end.
Definition dec_kitty_image (data : list N) : outcome pres :=
  let* body := mid data 3 2 in
  let '(head, msg) := split_first 59 body in
  match kitty_fields (key_value_decode 44 head) 0 None with
  | None => Ok RNone
  | Some (id, pl) =>
      match msg with
      | None => Ok RNone
      | Some m => Ok (RSome (PKitty id pl (negb (match m with [79; 75] => true | _ => false end))))
      end
  end.

(* keyboard_decode_key *)
Definition keyboard_key (code : N) : option (N * N) :=
  if code =? 27 then Some (0, 0)
  else if code =? 13 then Some (1, 0)
  else if code =? 9 then Some (2, 0)
  else if code =? 127 then Some (3, 0)
  else if (57376 <=? code) && (code <=? 57398) then Some (4, code - 57376 + 13)
  else if (code <=? 4294967295) && negb ((57344 <=? code) && (code <=? 63743)) then
    match char_from_u32 code with Some c => Some (5, c) | None => None end
  else None.

(* 6 KittyKeyboardMatcher *)
Definition dec_kitty_keyboard (data : list N) : outcome pres :=
  let* body := mid data 2 1 in
  match body with
  | 63 :: rest =>                                   (* data.first() == Some(&b'?') *)
      match number_decode rest with
      | Some level => Ok (RSome (PKeyLevel level))
      | None => Ok RNone
      end
  | _ =>
      match split_on 59 body with
      | [] => Ok RNone
      | codes :: fields =>
          let code := match numbers_decode codes 58 with c :: _ => c | [] => 1 end in
          match keyboard_key code with
          | None => Ok RNone
          | Some (kind, arg) =>
              match fields with
              | [] => Ok (RSome (PKey kind arg 0))
              | modes :: _ =>
                  let ms := numbers_decode modes 58 in
                  let mode := match ms with
                              | m :: _ => if 1 <? m then N.land (m - 1) 511 else 0
                              | [] => 0
                              end in
                  let event_type := match ms with _ :: t :: _ => t | _ => 0 end in
                  if event_type =? 0 then Ok (RSome (PKey kind arg mode)) else Ok RNone
              end
          end
      end
  end.

(* 7 MouseEventMatcher: "\x1b[<{event};{col};{row}(m|M)" *)
Definition dec_mouse (data : list N) : outcome pres :=
  let* body := mid data 3 1 in
  match numbers_decode body 59 with
  | event :: c :: r :: _ =>
      match checked_sub1 c, checked_sub1 r with
      | Some col, Some row =>
          let* last := index data (length data - 1) in
          let mode0 := N.land (N.land (N.shiftr event 2) 7) 511 in
          let mode := if last =? 77 then N.lor mode0 256 else mode0 in
          let button := N.land event 3 in
          (* buttons 8..11 (bit 7) and the horizontal wheel (66, 67) have no name: `return None` *)
          if negb (N.land event 128 =? 0) || (negb (N.land event 64 =? 0) && (1 <? button)) then Ok RNone
          else
          let name :=
            if negb (N.land event 64 =? 0) then
              (if button =? 0 then 4 else if button =? 1 then 5 else 3)
            else if button =? 0 then 0 else if button =? 1 then 1 else if button =? 2 then 2 else 3 in
          Ok (RSome (PMouse name mode row col))
      | _, _ => Ok RNone
      end
  | _ => Ok RNone
  end.

(* parse_color's XParseColor branch: "rgb:r{1-4}/g{1-4}/b{1-4}" (decoder.rs parse_component) *)
Definition hex_val (b : N) : option N :=
  if (48 <=? b) && (b <=? 57) then Some (b - 48)
  else if (65 <=? b) && (b <=? 70) then Some (b - 55)
  else if (97 <=? b) && (b <=? 102) then Some (b - 87)
  else None.
Fixpoint hex_acc (acc : N) (l : list N) : option N :=
  match l with
  | [] => Some acc
  | b :: r => match hex_val b with
              | Some v => if acc * 16 + v <=? usize_max then hex_acc (acc * 16 + v) r else None
              | None => None
              end
  end.
(* usize::from_str_radix(s, 16): an optional leading `+`, then at least one hex digit, no overflow *)
Definition from_str_radix16 (s : list N) : option N :=
  let digits := match s with 43 :: r => r | _ => s end in
  match digits with [] => None | _ => hex_acc 0 digits end.
Definition parse_component (s : list N) : option N :=
  match from_str_radix16 s with
  | None => None
  | Some value =>
      let n := N.of_nat (length s) in
      let scaled := if n =? 4 then Some (value / 256)
                    else if n =? 3 then Some (value / 16)
                    else if n =? 2 then Some value
                    else if n =? 1 then Some (value * 17)
                    else None in
      match scaled with
      | Some v => Some (if v <=? 255 then v else 255)     (* value.clamp(0, 255) as u8 *)
      | None => None
      end
  end.
Definition parse_rgb (text : list N) : option rgb :=
  match split_on 47 text with
  | a :: rest =>
      match parse_component a with
      | None => None
      | Some r =>
          match rest with
          | b :: rest2 =>
              match parse_component b with
              | None => None
              | Some g =>
                  match rest2 with
                  | c :: _ => match parse_component c with Some bl => Some (r, g, bl) | None => None end
                  | [] => None
                  end
              end
          | [] => None
          end
      end
  | [] => None
  end.

(* 8 OSControlMatcher: "\x1b]<number>;.*(\x1b\\|\x07)" *)
Definition dec_osc (data : list N) : outcome pres :=
  let* last := index data (length data - 1) in
  let* body := if last =? 7 then mid data 2 1 else mid data 2 2 in
  match split_on 59 body with
  | [] => Ok RNone
  | a0 :: args =>
      match number_decode a0 with
      | None => Ok RNone
      | Some id =>
          let finish (name idx : N) (rest : list (list N)) :=
            match rest with
            | [] => Ok RNone
            | text :: _ =>
                if utf8_valid text then
                  match text with
                  | 114 :: 103 :: 98 :: 58 :: comps =>        (* "rgb:": RGBA::from_str rejects it, parse_color's own branch decides *)
                      match parse_rgb comps with
                      | Some c => Ok (RSome (PColor name idx (Some c)))
                      | None => Ok RNone
                      end
                  | _ => Ok (RExt (PColor name idx None))
                  end
                else Ok RNone
            end in
          if id =? 10 then finish 0 0 args
          else if id =? 11 then finish 1 0 args
          else if id =? 4 then
            match args with
            | [] => Ok RNone
            | a1 :: rest => match number_decode a1 with
                            | Some idx => finish 2 idx rest
                            | None => Ok RNone
                            end
            end
          else Ok RNone
      end
  end.

Fixpoint ends_with_m (l : list N) : bool :=
  match l with [] => false | [b] => b =? 109 | _ :: r => ends_with_m r end.

(* 9 ReportSettingMatcher: DECRPSS "\x1bP{0|1}$r{data}\x1b\\" *)
Definition dec_report (tb : dtabs) (data : list N) : outcome pres :=
  let* code := index data 2 in
  let* payload := mid data 5 2 in
  if negb (code =? 49) then Ok RNone
  else if ends_with_m payload then
    (* sgr_face(&payload[..payload.len() - 1]).apply(Face::default()) *)
    let* f := sgr_face tb (removelast payload) in
    Ok (RSome (PFaceG (f_fg f) (f_bg f)))
  else Ok RNone.

(* hex_decode is lazy: chunks(2), stops at the first chunk that is not two hex digits;
   a final one-element chunk whose byte is a hex digit indexes pair[1] out of range *)
Definition is_hex (b : N) : bool :=
  ((48 <=? b) && (b <=? 57)) || ((65 <=? b) && (b <=? 70)) || ((97 <=? b) && (b <=? 102)).
Fixpoint hex_panics (fuel : nat) (l : list N) : bool :=
  match fuel with
  | O => false
  | S f =>
      match l with
      | [] => false
      | [b] => is_hex b
      | b0 :: b1 :: r => if is_hex b0 && is_hex b1 then hex_panics f r else false
      end
  end.
Definition hex_decode_ok (l : list N) : outcome unit :=
  if hex_panics (length l) l then Panic site_hex_pair else Ok tt.

Fixpoint all_ok (l : list (outcome unit)) : outcome unit :=
  match l with
  | [] => Ok tt
  | x :: r => let* _ := x in all_ok r
  end.

(* 10 TermCapMatcher *)
Definition dec_termcap (data : list N) : outcome pres :=
  let* code := index data 2 in
  let* body := mid data 5 2 in
  if code =? 49 then
    let* _ := all_ok (flat_map (fun kv => [hex_decode_ok (fst kv); hex_decode_ok (snd kv)])
                               (key_value_decode 59 body)) in
    Ok (RSome PTermcap)
  else
    let* _ := all_ok (map hex_decode_ok (split_on 59 body)) in
    Ok (RSome PTermcap).

(* 11 TermSizeMatcher: "\x1b[8;{ch};{cw}t\x1b[4;{ph};{pw}t" *)
Definition dec_termsize (data : list N) : outcome pres :=
  match split_on 27 data with
  | _ :: cell :: rest =>
      let* cbody := mid cell 3 1 in
      match numbers_decode cbody 59 with
      | ch :: cw :: _ =>
          match rest with
          | pix :: _ =>
              let* pbody := mid pix 3 1 in
              match numbers_decode pbody 59 with
              | ph :: pw :: _ => Ok (RSome (PSize ch cw ph pw))
              | _ => Ok RNone
              end
          | [] => Ok RNone
          end
      | _ => Ok RNone
      end
  | _ => Ok RNone
  end.

(* 12 UTF8Matcher *)
Definition dec_utf8 (data : list N) : outcome pres :=
  let* c := utf8_decode data in
  match c with Some c => Ok (RSome (PChar c)) | None => Ok RNone end.

(* 13 BracketedPasteMatcher: String::from_utf8(data[6..data.len() - 6].into()).ok()? *)
Definition dec_paste (data : list N) : outcome pres :=
  let* text := mid data 6 6 in
  if utf8_valid text then Ok (RSome (PPaste text)) else Ok RNone.

(* 14 ModifiedKeyMatcher: "\x1b[{code};{1 + modifiers}{final}", final in A B C D F H P Q S ~ *)
(* tilde_key: find_map over TILDE_KEYS (decoder.rs) *)
Definition tilde_key (code : N) : option (N * N) :=
  if code =? 1 then Some (10, 0) else if code =? 2 then Some (7, 0) else if code =? 3 then Some (6, 0)
  else if code =? 4 then Some (9, 0) else if code =? 5 then Some (13, 0) else if code =? 6 then Some (12, 0)
  else if code =? 7 then Some (7, 0) else if code =? 8 then Some (9, 0)
  else if (11 <=? code) && (code <=? 15) then Some (4, code - 10)
  else if (17 <=? code) && (code <=? 21) then Some (4, code - 11)
  else if (23 <=? code) && (code <=? 24) then Some (4, code - 12)
  else None.
(* the arms `(b'A', 1) => Up ...` *)
Definition final_key (f : N) : option (N * N) :=
  if f =? 65 then Some (15, 0) else if f =? 66 then Some (8, 0) else if f =? 67 then Some (14, 0)
  else if f =? 68 then Some (11, 0) else if f =? 70 then Some (9, 0) else if f =? 72 then Some (10, 0)
  else if f =? 80 then Some (4, 1) else if f =? 81 then Some (4, 2) else if f =? 83 then Some (4, 4)
  else None.

Definition dec_modkey (data : list N) : outcome pres :=
  let* body := mid data 2 1 in
  match numbers_decode body 59 with
  | code :: p :: _ =>
      match checked_sub1 p with
      | None => Ok RNone
      | Some mode =>
          if 255 <? mode then Ok RNone
          else
            let* f := index data (length data - 1) in
            match (if f =? 126 then tilde_key code else if code =? 1 then final_key f else None) with
            | Some (kind, arg) => Ok (RSome (PKey kind arg (N.land mode 511)))     (* KeyMod::from_bits(mode as u32) *)
            | None => Ok RNone
            end
      end
  | _ => Ok RNone
  end.

(* the payload decoders by identity (ids as assigned by translate/dfa.py from the Debug names of
   the registered matchers) *)
Definition payload_by_id (tb : dtabs) (id : N) (data : list N) : outcome pres :=
  match id with
  | 0 => Ok RNone                                (* BasicEventsMatcher::decode *)
  | 1 => dec_cursor data
  | 2 => dec_decmode tb data
  | 3 => dec_devattrs data
  | 4 => dec_sgr tb data
  | 5 => dec_kitty_image data
  | 6 => dec_kitty_keyboard data
  | 7 => dec_mouse data
  | 8 => dec_osc data
  | 9 => dec_report tb data
  | 10 => dec_termcap data
  | 11 => dec_termsize data
  | 12 => dec_utf8 data
  | 13 => dec_paste data
  | 14 => dec_modkey data
  | _ => Panic site_nomatcher
  end.

(* `self.automata.matchers[*index].decode(&self.buffer)` (decoder.rs:266): `ids` is the list of
   matchers registered in the automaton (TTY_EVENT_AUTOMATA decoder.rs:42-65, TTY_COMMAND_AUTOMATA
   :66-72), regenerated from the running code *)
Definition payload_at (ids : list N) (tb : dtabs) (i : N) (data : list N) : outcome pres :=
  match nth_error ids (N.to_nat i) with
  | Some id => payload_by_id tb id data
  | None => Panic site_nomatcher
  end.
