(* Histories: SGR sequences interleaved with text, and the bytes a program writes for them. *)
From Coq Require Import List NArith Bool.
From SNT Require Export Decoder.SgrRef Encoder.FaceEnc.
Import ListNotations.
Local Open Scope N_scope.

Definition render_item (h : hitem) : list N :=
  match h with
  | HSgr p => [27; 91] ++ p ++ [109]
  | HText cs => concat (map utf8_encode cs)
  end.
Definition render (hist : list hitem) : list N := concat (map render_item hist).

Definition char_ok (c : N) : bool := scalar_ok c && negb (c =? 27).

(* well-formed SGR parameter strings; text of scalar values other than ESC *)
Definition item_wf (h : hitem) : bool :=
  match h with
  | HSgr p => sgr_wf p
  | HText cs => forallb char_ok cs
  end.
Definition hist_wf (hist : list hitem) : bool := forallb item_wf hist.

(* no parameter of the known class (inverse video, default colours) *)
Definition item_expressible (h : hitem) : bool :=
  match h with HSgr p => negb (sgr_inexpressible p) | HText _ => true end.
Definition hist_expressible (hist : list hitem) : bool := forallb item_expressible hist.
