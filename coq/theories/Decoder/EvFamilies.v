(* C04: the sequence families with numeric parameters.  For each family: the grammar of the
   printed form as a pattern, one reachability check on the regenerated automaton (all parameter
   values at once), and the payload lemma `decoder (print r) = Some (denote r)`. *)
From Coq Require Import List NArith Bool Lia Arith ZifyBool ZifyNat ZifyN.
From SNT Require Import Base.Sweep Base.Dec10 Base.Dec10Proofs.
From SNT Require Import Automata.DfaData Automata.PatReach Automata.PatReachProofs.
From SNT Require Import Decoder.Sgr Decoder.SgrProofs Decoder.EvModel Decoder.Printer Decoder.EvProd Decoder.EvProofs.
From SNT Require Import Gen.ProdDFA Gen.C04Keys.
Import ListNotations.
Local Open Scope N_scope.

(* ---- common ---- *)
Definition D : pat := PSet [(48, 57)].
Definition NUM : pat := PPlus D.

Lemma digit_in_range b : is_digit b = true -> in_ranges [(48, 57)] b = true.
Proof. unfold is_digit, in_ranges. cbn. intros H. rewrite H. reflexivity. Qed.

Lemma matches_num n : matches NUM (digits n).
Proof.
  apply matches_plus_set; [apply digits_nonempty|].
  apply forallb_forall. intros b Hb. apply digit_in_range.
  pose proof (digits_all_digits n) as H. rewrite forallb_forall in H. exact (H b Hb).
Qed.

Lemma matches_seq_lit w p x : matches p x -> matches (PSeq (PLit w) p) (w ++ x).
Proof. intros H. apply MSeq; [apply MLit| exact H]. Qed.

Lemma sl_mid (pre mid post : list N) :
  sl (length pre) (length post) (pre ++ mid ++ post) = mid.
Proof.
  unfold sl. rewrite !app_length.
  replace (length pre + (length mid + length post) - length post - length pre)%nat with (length mid) by lia.
  rewrite skipn_app, skipn_all, Nat.sub_diag. cbn [skipn app].
  rewrite firstn_app, firstn_all, Nat.sub_diag. cbn [firstn]. apply app_nil_r.
Qed.

Lemma no59 n : ~ In 59 (digits n).
Proof. apply digits_no_byte. reflexivity. Qed.
Lemma no58 n : ~ In 58 (digits n).
Proof. apply digits_no_byte. reflexivity. Qed.
Lemma no27 n : ~ In 27 (digits n).
Proof. apply digits_no_byte. reflexivity. Qed.

Lemma split2 a b : split_on 59 (digits a ++ [59] ++ digits b) = [digits a; digits b].
Proof. cbn [app]. rewrite split_on_app by apply no59. rewrite split_on_nosep by apply no59. reflexivity. Qed.

Lemma split3 a b c :
  split_on 59 (digits a ++ [59] ++ digits b ++ [59] ++ digits c) = [digits a; digits b; digits c].
Proof. cbn [app]. rewrite split_on_app by apply no59. f_equal. apply split2. Qed.

Lemma numbers2 a b : numbers_decode (digits a ++ [59] ++ digits b) 59 = [a; b].
Proof. unfold numbers_decode. rewrite split2. cbn [filter_map]. rewrite !number_decode_digits. reflexivity. Qed.

Lemma numbers3 a b c : numbers_decode (digits a ++ [59] ++ digits b ++ [59] ++ digits c) 59 = [a; b; c].
Proof. unfold numbers_decode. rewrite split3. cbn [filter_map]. rewrite !number_decode_digits. reflexivity. Qed.

Lemma checked_dec_succ n : checked_dec (n + 1) = Some n.
Proof. unfold checked_dec. replace (n + 1 =? 0) with false by lia. f_equal. lia. Qed.

Ltac list_eq := unfold CSI; repeat (rewrite <- app_assoc || (progress cbn [app])); reflexivity.

Ltac payload_unfold :=
  unfold ev_payload;
  repeat match goal with
         | |- context [N.eqb ?a ?b] =>
             match a with N0 => idtac | Npos _ => idtac end;
             match b with N0 => idtac | Npos _ => idtac end;
             let v := eval vm_compute in (N.eqb a b) in change (N.eqb a b) with v
         end;
  cbn iota.

Ltac fam_tac check :=
  match goal with
  | |- single_bytes ?w ?ev => eapply (fam_single _ _ w ev check)
  end.

(* ---- cursor position report: CSI Pr ; Pc R ---- *)
(* digit strings other than "1" / other than "2" .. "8" (CSI 1 ; 2..8 R are modified F3 keys) *)
Definition NOT1 : pat :=
  PAlt (PSeq (PSet [(48, 48); (50, 57)]) (PStar D)) (PSeq (PLit [49]) NUM).
Definition NOT2_8 : pat :=
  PAlt (PSeq (PSet [(48, 49); (57, 57)]) (PStar D)) (PSeq (PSet [(50, 56)]) NUM).
Definition pat_cursor : pat :=
  PSeq (PLit [27; 91])
       (PSeq (PAlt (PSeq NOT1 (PSeq (PLit [59]) NUM)) (PSeq (PLit [49; 59]) NOT2_8)) (PLit [82])).

Lemma check_cursor : family_check event_dfa pat_cursor (fam_good 1) = true.
Proof. vm_compute. reflexivity. Qed.

Lemma digit_list_cases (l : list N) :
  l <> [] -> forallb is_digit l = true ->
  exists d r, l = d :: r /\ is_digit d = true /\ forallb is_digit r = true.
Proof.
  destruct l as [|d r]; [contradiction|]. intros _ H. cbn [forallb] in H. apply andb_true_iff in H.
  exists d, r. tauto.
Qed.

Lemma star_digits r : forallb is_digit r = true -> matches (PStar D) r.
Proof.
  intros H. apply matches_star_set. apply forallb_forall. intros b Hb. apply digit_in_range.
  rewrite forallb_forall in H. exact (H b Hb).
Qed.
Lemma plus_digits r : r <> [] -> forallb is_digit r = true -> matches NUM r.
Proof.
  intros Hne H. apply matches_plus_set; [exact Hne|]. apply forallb_forall. intros b Hb. apply digit_in_range.
  rewrite forallb_forall in H. exact (H b Hb).
Qed.

Lemma matches_not1 n : n <> 1 -> matches NOT1 (digits n).
Proof.
  intros Hn. destruct (digit_list_cases (digits n) (digits_nonempty n) (digits_all_digits n)) as (d & r & E & Hd & Hr).
  rewrite E. destruct (N.eq_dec d 49) as [->|Hne].
  - apply MAltR. change (49 :: r) with ([49] ++ r). apply MSeq; [apply MLit|].
    apply plus_digits; [|exact Hr]. intros ->. apply Hn.
    pose proof (dec_value_digits n) as Hv. rewrite E in Hv. unfold dec_value in Hv. cbn [fold_left] in Hv. unfold dec_step in Hv. lia.
  - apply MAltL. change (d :: r) with ([d] ++ r). apply MSeq; [|apply star_digits, Hr].
    apply MSet. unfold is_digit in Hd. unfold in_ranges. cbn. lia.
Qed.

Lemma matches_not2_8 n : ~ (2 <= n <= 8) -> matches NOT2_8 (digits n).
Proof.
  intros Hn. destruct (digit_list_cases (digits n) (digits_nonempty n) (digits_all_digits n)) as (d & r & E & Hd & Hr).
  rewrite E. destruct ((50 <=? d) && (d <=? 56)) eqn:Ed.
  - apply MAltR. change (d :: r) with ([d] ++ r). apply MSeq; [apply MSet; unfold in_ranges; cbn; lia|].
    apply plus_digits; [|exact Hr]. intros ->. apply Hn.
    pose proof (dec_value_digits n) as Hv. rewrite E in Hv. unfold dec_value in Hv. cbn [fold_left] in Hv. unfold dec_step in Hv. apply andb_true_iff in Ed. lia.
  - apply MAltL. change (d :: r) with ([d] ++ r). apply MSeq; [|apply star_digits, Hr].
    apply MSet. unfold is_digit in Hd. unfold in_ranges. cbn. lia.
Qed.

Lemma payload_cursor row col :
  dec_cursor ([27; 91] ++ (digits (row + 1) ++ [59] ++ digits (col + 1)) ++ [82]) = Some (ECursor row col).
Proof.
  unfold dec_cursor. rewrite (sl_mid [27; 91] _ [82]), numbers2, !checked_dec_succ. reflexivity.
Qed.

Theorem single_cursor row col :
  wf decmode_all prod_key_table (RCursor row col) = true -> single (RCursor row col).
Proof.
  cbn [wf]. intros Hwf. unfold single, prod_denote, denote. cbn [print].
  replace (CSI ++ digits (row + 1) ++ [59] ++ digits (col + 1) ++ [82])
    with ([27; 91] ++ (digits (row + 1) ++ [59] ++ digits (col + 1)) ++ [82])
    by list_eq.
  fam_tac check_cursor; [| discriminate | apply payload_cursor].
  unfold pat_cursor. apply matches_seq_lit. apply MSeq; [|apply MLit].
  destruct (N.eq_dec row 0) as [->|Hr].
  - apply MAltR. change (digits (0 + 1)) with [49]. change ([49] ++ [59] ++ digits (col + 1)) with ([49; 59] ++ digits (col + 1)).
    apply matches_seq_lit. apply matches_not2_8. lia.
  - apply MAltL. apply MSeq; [apply matches_not1; lia|]. apply matches_seq_lit, matches_num.
Qed.

(* ---- DECRPM: CSI ? Pd ; Ps $ y ---- *)
Definition pat_decmode : pat :=
  PSeq (PLit [27; 91; 63]) (PSeq NUM (PSeq (PLit [59]) (PSeq NUM (PLit [36; 121])))).
Lemma check_decmode : family_check event_dfa pat_decmode (fam_good 2) = true.
Proof. vm_compute. reflexivity. Qed.

Lemma existsb_in x l : existsb (N.eqb x) l = true -> In x l.
Proof. rewrite existsb_exists. intros (y & Hy & E). apply N.eqb_eq in E. subst. exact Hy. Qed.
Lemma in_existsb x l : In x l -> existsb (N.eqb x) l = true.
Proof. intros H. apply existsb_exists. exists x. split; [exact H| apply N.eqb_refl]. Qed.

Theorem single_decmode mode status :
  wf decmode_all prod_key_table (RDecMode mode status) = true -> single (RDecMode mode status).
Proof.
  cbn [wf]. intros Hwf. apply andb_true_iff in Hwf. destruct Hwf as [Hm Hs].
  unfold single, prod_denote, denote. cbn [print].
  replace (CSI ++ [63] ++ digits mode ++ [59] ++ digits status ++ [36; 121])
    with ([27; 91; 63] ++ (digits mode ++ [59] ++ digits status) ++ [36; 121])
    by list_eq.
  fam_tac check_decmode; [| discriminate |].
  - unfold pat_decmode. apply matches_seq_lit. rewrite <- !app_assoc.
    apply MSeq; [apply matches_num|]. apply matches_seq_lit. apply MSeq; [apply matches_num| apply MLit].
  - payload_unfold. unfold dec_decmode.
    rewrite (sl_mid [27; 91; 63] _ [36; 121]), numbers2.
    destruct decmode_table_ok as [Hmt Hst]. rewrite forallb_forall in Hmt, Hst.
    rewrite (Hmt mode (existsb_in _ _ Hm)).
    assert (Hin : In status decstatus_all).
    { apply existsb_in. apply (sweep1_sound 5 (fun s => existsb (N.eqb s) decstatus_all)); [vm_compute; reflexivity| lia]. }
    rewrite (Hst status Hin). reflexivity.
Qed.

(* ---- kitty keyboard level: CSI ? flags u ---- *)
Definition pat_level : pat := PSeq (PLit [27; 91; 63]) (PSeq NUM (PLit [117])).
Lemma check_level : family_check event_dfa pat_level (fam_good 6) = true.
Proof. vm_compute. reflexivity. Qed.

Theorem single_level flags : single (RKeyLevel flags).
Proof.
  unfold single, prod_denote, denote. cbn [print].
  replace (CSI ++ [63] ++ digits flags ++ [117]) with ([27; 91] ++ (63 :: digits flags) ++ [117])
    by list_eq.
  fam_tac check_level; [| discriminate |].
  - unfold pat_level. change ([27; 91] ++ (63 :: digits flags) ++ [117]) with ([27; 91; 63] ++ digits flags ++ [117]).
    apply matches_seq_lit. apply MSeq; [apply matches_num| apply MLit].
  - payload_unfold. unfold dec_kitty_keyboard. rewrite (sl_mid [27; 91] _ [117]).
    rewrite number_decode_digits. reflexivity.
Qed.

(* ---- kitty keys: CSI code u / CSI code ; 1+mods u ---- *)
Definition ALTS : pat := PStar (PSeq (PLit [58]) (PStar D)).
Definition pat_kitty : pat :=
  PSeq (PLit [27; 91]) (PSeq (PSeq NUM ALTS) (PSeq (POpt (PSeq (PLit [59]) NUM)) (PLit [117]))).
Lemma check_kitty : family_check event_dfa pat_kitty (fam_good 6) = true.
Proof. vm_compute. reflexivity. Qed.

Lemma digits_head_not63 n r : digits n <> 63 :: r.
Proof.
  intros E. pose proof (digits_all_digits n) as H. rewrite E in H. cbn in H. discriminate.
Qed.

Lemma kk_not_level body :
  (forall r, body <> 63 :: r) ->
  match body with
  | 63 :: level => match number_decode level with Some n => Some (EKeyLevel n) | None => None end
  | _ => kitty_key_fields body
  end = kitty_key_fields body.
Proof.
  intros H. destruct body as [|d r]; [reflexivity|].
  destruct (N.eq_dec d 63) as [->|Hd]; [exfalso; eapply H; reflexivity|].
  destruct d as [|p]; [reflexivity|]. repeat (destruct p as [p|p|]; try reflexivity). exfalso. apply Hd. reflexivity.
Qed.

Lemma keyboard_key_code k code :
  match k with
  | KEsc | KEnter | KTab | KBackspace => True
  | KF n => 13 <= n <= 35
  | KChar c => kitty_char_ok c = true
  | _ => False
  end ->
  kitty_code k = Some code -> keyboard_key code = Some k.
Proof.
  destruct k as [ | | | |n|c| | | | | | | | | | ]; cbn [kitty_code]; intros Hk E; try contradiction;
    try (inversion E; subst; reflexivity).
  - replace ((13 <=? n) && (n <=? 35)) with true in E by lia. inversion E; subst.
    unfold keyboard_key.
    replace (57376 + (n - 13) =? 27) with false by lia. replace (57376 + (n - 13) =? 13) with false by lia.
    replace (57376 + (n - 13) =? 9) with false by lia. replace (57376 + (n - 13) =? 127) with false by lia.
    replace ((57376 <=? 57376 + (n - 13)) && (57376 + (n - 13) <=? 57398)) with true by lia.
    f_equal. f_equal. lia.
  - inversion E; subst. unfold kitty_char_ok in Hk. unfold keyboard_key.
    rewrite !andb_true_iff, !negb_true_iff, !orb_false_iff in Hk.
    destruct Hk as [[Hs [[[H27 H13] H9] H127]] Hpua].
    rewrite H27, H13, H9, H127.
    replace ((57376 <=? code) && (code <=? 57398)) with false by lia.
    assert (code < 1114112) by (unfold SNT.Encoder.FaceEnc.scalar_ok in Hs; lia).
    replace ((code <=? 4294967295) && negb ((57344 <=? code) && (code <=? 63743))) with true by lia.
    rewrite Hs. reflexivity.
Qed.

Lemma mod_from_bits_small : sweep1 256 (fun m => mod_from_bits m =? m) = true.
Proof. vm_compute. reflexivity. Qed.

Lemma not_in_app {A} (x : A) a b : ~ In x a -> ~ In x b -> ~ In x (a ++ b).
Proof. intros Ha Hb H. apply in_app_or in H. tauto. Qed.

(* the key-code field with its alternates *)
Lemma alts_match alts : matches ALTS (kitty_alts alts).
Proof.
  unfold ALTS, kitty_alts. induction alts as [|a l IH]; [apply MStarN|]. cbn [flat_map].
  apply MStarS; [|exact IH].
  apply (matches_seq_lit [58]). destruct a as [x|]; [|apply MStarN].
  apply star_digits, digits_all_digits.
Qed.

Lemma alts_no59 alts : ~ In 59 (kitty_alts alts).
Proof.
  unfold kitty_alts. induction alts as [|a l IH]; [intros []|]. cbn [flat_map]. intros [E|Hin]; [discriminate|].
  apply in_app_or in Hin. destruct Hin as [Hin|Hin]; [|exact (IH Hin)].
  destruct a as [x|]; [exact (no59 x Hin)| exact Hin].
Qed.

Lemma alts_head alts : kitty_alts alts = [] \/ exists r, kitty_alts alts = 58 :: r.
Proof. destruct alts as [|a l]; [left; reflexivity| right; cbn [kitty_alts flat_map]; eexists; reflexivity]. Qed.

Lemma codes_first code alts :
  match numbers_decode (digits code ++ kitty_alts alts) 58 with c :: _ => c | [] => 1 end = code.
Proof.
  unfold numbers_decode. destruct (alts_head alts) as [->|[r ->]].
  - rewrite app_nil_r, split_on_nosep by apply no58. cbn [filter_map]. rewrite number_decode_digits. reflexivity.
  - rewrite split_on_app by apply no58. cbn [filter_map]. rewrite number_decode_digits. reflexivity.
Qed.

Lemma codes_not63 code alts r : digits code ++ kitty_alts alts <> 63 :: r.
Proof.
  destruct (digits code) as [|d l] eqn:Ed; [exfalso; eapply digits_nonempty; exact Ed|].
  cbn [app]. intros E. inversion E; subst. eapply digits_head_not63; exact Ed.
Qed.

Theorem single_kitty k mods alts :
  wf decmode_all prod_key_table (RKittyKey k mods alts) = true -> single (RKittyKey k mods alts).
Proof.
  cbn [wf]. intros Hwf. rewrite !andb_true_iff in Hwf. destruct Hwf as [[Hmods _] Hk].
  assert (Hk' : match k with
                | KEsc | KEnter | KTab | KBackspace => True
                | KF n => 13 <= n <= 35
                | KChar c => kitty_char_ok c = true
                | _ => False
                end).
  { destruct k; try exact I; try discriminate; [lia| exact Hk]. }
  assert (Hcode : exists code, kitty_code k = Some code).
  { destruct k; cbn [kitty_code]; try (eexists; reflexivity); try contradiction.
    replace ((13 <=? n) && (n <=? 35)) with true by lia. eexists; reflexivity. }
  destruct Hcode as [code Hcode]. pose proof (keyboard_key_code k code Hk' Hcode) as Hkey.
  unfold single, prod_denote, denote. cbn [print]. rewrite Hcode.
  set (codes := digits code ++ kitty_alts alts).
  assert (Hc59 : ~ In 59 codes) by (unfold codes; apply not_in_app; [apply no59| apply alts_no59]).
  assert (Hcm : matches (PSeq NUM ALTS) codes) by (unfold codes; apply MSeq; [apply matches_num| apply alts_match]).
  destruct (mods =? 0) eqn:Em.
  - apply N.eqb_eq in Em. subst mods.
    replace (CSI ++ codes ++ [] ++ [117]) with ([27; 91] ++ codes ++ [117]) by reflexivity.
    fam_tac check_kitty; [| discriminate |].
    + unfold pat_kitty. apply matches_seq_lit. apply MSeq; [exact Hcm|].
      change [117] with ([] ++ [117]). apply MSeq; [apply MOptN| apply MLit].
    + payload_unfold. unfold dec_kitty_keyboard. rewrite (sl_mid [27; 91] _ [117]).
      rewrite (kk_not_level codes) by (intros r0; apply codes_not63).
      unfold kitty_key_fields.
      rewrite split_on_nosep by exact Hc59.
      unfold codes. rewrite codes_first, Hkey. reflexivity.
  - replace (CSI ++ codes ++ ([59] ++ digits (mods + 1)) ++ [117])
      with ([27; 91] ++ (codes ++ [59] ++ digits (mods + 1)) ++ [117])
      by list_eq.
    fam_tac check_kitty; [| discriminate |].
    + unfold pat_kitty. apply matches_seq_lit. rewrite <- !app_assoc.
      apply MSeq; [exact Hcm|].
      rewrite app_assoc. apply MSeq; [apply MOptS, matches_seq_lit, matches_num| apply MLit].
    + payload_unfold. unfold dec_kitty_keyboard. rewrite (sl_mid [27; 91] _ [117]).
      rewrite (kk_not_level (codes ++ [59] ++ digits (mods + 1))).
      2:{ intros r0 E. unfold codes in E. rewrite <- app_assoc in E. revert E.
          destruct (digits code) as [|d r] eqn:Ed; [exfalso; eapply digits_nonempty; exact Ed|].
          cbn [app]. intros E. inversion E; subst. eapply digits_head_not63; exact Ed. }
      unfold kitty_key_fields. cbn [app].
      rewrite split_on_app by exact Hc59. rewrite split_on_nosep by apply no59.
      unfold codes at 1. rewrite codes_first, Hkey.
      unfold numbers_decode. rewrite split_on_nosep by apply no58. cbn [filter_map].
      rewrite number_decode_digits.
      replace (1 <? mods + 1) with true by lia. replace (mods + 1 - 1) with mods by lia.
      pose proof (sweep1_sound 256 _ mod_from_bits_small mods ltac:(lia)) as Hmb. cbv beta in Hmb.
      apply N.eqb_eq in Hmb. cbn zeta. rewrite Hmb. reflexivity.
Qed.
