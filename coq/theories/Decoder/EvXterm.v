(* C04: the library's key table contains the xterm PC-style / VT220-style encodings of the
   cursor, editing and function keys with every modifier mask, Alt+letter/digit and
   Ctrl+letter, under the names the protocol documents give them (a slip in the table is caught
   here, on the regenerated automaton). *)
From Coq Require Import List NArith Bool Lia Arith ZifyBool ZifyNat ZifyN.
From SNT Require Import Base.Sweep Base.Dec10.
From SNT Require Import Decoder.EvModel Decoder.Printer Decoder.EvProd Decoder.EvProofs.
From SNT Require Import Gen.ProdDFA Gen.C04Keys.
Import ListNotations.
Local Open Scope N_scope.

Definition xterm_keys : list kname :=
  [KBackspace; KDelete; KInsert; KDown; KEnd; KHome; KLeft; KPageDown; KPageUp; KRight; KUp]
  ++ map (fun i => KF (1 + i)) (nrange 12)
  ++ map (fun i => KChar (32 + i)) (nrange 95).

Definition xterm_entry_ok (k : kname) (mods : N) (a : bool) : bool :=
  match xterm_seq k mods a with
  | None => true
  | Some w =>
      negb (bare_prefix w)
      && match lit_lookup prod_key_table w with
         | Some (k', m') => kname_eqb k' k && (m' =? mods)
         | None => false
         end
  end.

Lemma xterm_table_ok :
  forallb (fun k => forallb (fun a => sweep1 8 (fun mods => xterm_entry_ok k mods a)) [true; false]) xterm_keys = true.
Proof. vm_compute. reflexivity. Qed.

Lemma xterm_key_in k mods a w : xterm_seq k mods a = Some w -> In k xterm_keys /\ mods < 256.
Proof.
  unfold xterm_seq. destruct (256 <=? mods) eqn:Em; [discriminate|]. intros H. split; [|lia].
  unfold xterm_keys.
  destruct k as [ | | | |n|c| | | | | | | | | | ]; cbn [final_byte tilde_code] in H;
    try (destruct a; discriminate); try (cbn; tauto).
  - (* KF n *)
    assert (Hn : 1 <= n <= 12).
    { destruct ((1 <=? n) && (n <=? 4)) eqn:E1; [lia|].
      destruct ((1 <=? n) && (n <=? 5)) eqn:E2; [lia|].
      destruct ((6 <=? n) && (n <=? 10)) eqn:E3; [lia|].
      destruct ((11 <=? n) && (n <=? 12)) eqn:E4; [lia|]. destruct a; discriminate. }
    apply in_or_app. right. apply in_or_app. left. apply in_map_iff. exists (n - 1). split; [f_equal; lia|].
    apply nrange_In. lia.
  - (* KChar c *)
    assert (Hc : 32 <= c <= 126).
    { repeat match type of H with
             | context [if ?b then _ else _] => let E := fresh "E" in destruct b eqn:E; [lia|]
             end. discriminate. }
    apply in_or_app. right. apply in_or_app. right.
    apply in_map_iff. exists (c - 32). split; [f_equal; lia| apply nrange_In; lia].
Qed.

(* masks 0..7 only: the library's table stops there (known finding C04-key-mask, see
   xterm_mask8_refuted) *)
Theorem single_xterm k mods a :
  mods < 8 ->
  wf decmode_all prod_key_table (RXterm k mods a) = true -> single (RXterm k mods a).
Proof.
  cbn [wf]. intros Hm Hwf. destruct (xterm_seq k mods a) as [w|] eqn:E; [|discriminate].
  destruct (xterm_key_in k mods a w E) as [Hin _].
  pose proof xterm_table_ok as H. rewrite forallb_forall in H. specialize (H k Hin). cbv beta in H.
  rewrite forallb_forall in H. assert (Ha : In a [true; false]) by (destruct a; cbn; tauto).
  specialize (H a Ha). cbv beta in H. pose proof (sweep1_sound 8 _ H mods Hm) as Hs. cbv beta in Hs.
  unfold xterm_entry_ok in Hs. rewrite E in Hs. apply andb_true_iff in Hs. destruct Hs as [Hbp Hl].
  destruct (lit_lookup prod_key_table w) as [[k' m']|] eqn:El; [|discriminate].
  apply andb_true_iff in Hl. destruct Hl as [Hk Hm']. apply kname_eqb_eq in Hk. apply N.eqb_eq in Hm'. subst k' m'.
  assert (Hs : single (RLit w)) by (apply single_literal; [rewrite El; discriminate| apply negb_true_iff, Hbp]).
  unfold single, prod_denote, denote in *. cbn [print] in *. rewrite E. rewrite El in Hs. exact Hs.
Qed.

(* known finding C04-key-mask: a cursor key with modifier mask 8 (xterm: meta, parameter 9; kitty:
   super) is not in the table; the sequence is torn into five key events *)
Lemma xterm_mask8_refuted :
  wf decmode_all prod_key_table (RXterm KUp 8 false) = true
  /\ print (RXterm KUp 8 false) = [27; 91; 49; 59; 57; 65]
  /\ fst (prod_decode (print (RXterm KUp 8 false)))
     = [EKey (KChar 91) 2; EKey (KChar 49) 0; EKey (KChar 59) 0; EKey (KChar 57) 0; EKey (KChar 65) 0].
Proof. split; [reflexivity|]. split; vm_compute; reflexivity. Qed.

(* coverage of the table by the reference encoding: every entry is pinned by C04_xterm_keys
   except an explicit remainder whose names are the library's own (trusted names) *)
Definition xterm_image : list (list N) :=
  flat_map (fun k => flat_map (fun a => flat_map (fun mods =>
    match xterm_seq k mods a with Some w => [w] | None => [] end) (nrange 8)) [true; false]) xterm_keys.

Definition trusted_names : list (list N) :=
  (* the six introducers read as Esc / Alt+O .. when nothing follows *)
  [[27]; [27; 79]; [27; 80]; [27; 91]; [27; 93]; [27; 95]]
  (* CSI P .. S as unmodified F1 .. F4 (xterm sends SS3 P .. S) *)
  ++ [[27; 91; 80]; [27; 91; 81]; [27; 91; 82]; [27; 91; 83]]
  (* rxvt's CSI 7 ~ / CSI 8 ~ (named Insert / End by the library; rxvt: Home / End) with masks 0..7 *)
  ++ flat_map (fun c => [27; 91; c; 126] :: map (fun m => [27; 91; c; 59; 49 + m; 126]) (map (fun i => 1 + i) (nrange 7))) [55; 56].

Definition mem_bytes (w : list N) (l : list (list N)) : bool := existsb (bytes_eqb w) l.

Lemma table_coverage :
  forallb (fun e => mem_bytes (fst e) xterm_image || mem_bytes (fst e) trusted_names) prod_key_table = true
  /\ length trusted_names = 26%nat.
Proof. split; vm_compute; reflexivity. Qed.
