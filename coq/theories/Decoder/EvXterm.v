(* C04: the library's key table contains the xterm PC-style / VT220-style encodings of the
   cursor, editing and function keys with every modifier mask, Alt+letter/digit and
   Ctrl+letter, under the names the protocol documents give them (a slip in the table is caught
   here, on the regenerated automaton). *)
From Coq Require Import List NArith Bool Lia Arith ZifyBool ZifyNat ZifyN.
From SNT Require Import Base.Sweep Base.Dec10 Automata.DfaData.
From SNT Require Import Decoder.EvModel Decoder.Printer Decoder.EvProd Decoder.EvProofs.
From SNT Require Import Gen.ProdDFA Gen.C04Keys.
Import ListNotations.
Local Open Scope N_scope.

Definition xterm_keys : list kname :=
  [KBackspace; KDelete; KInsert; KDown; KEnd; KHome; KLeft; KPageDown; KPageUp; KRight; KUp]
  ++ map (fun i => KF (1 + i)) (nrange 12)
  ++ map (fun i => KChar (32 + i)) (nrange 95).

(* the printed form leads to an accepting terminal state whose item is the key (a literal entry of the
   library's table or the parsed ModifiedKeyMatcher, whichever the automaton reaches) *)
Definition key_single_check (w : list N) (k : kname) (mods : N) : bool :=
  negb (match w with [] => true | _ => false end)
  && match prod_run w with
     | Some q =>
         d_accepting event_dfa q && d_terminal event_dfa q
         && match prod_item q w with
            | Some (EKey k' m') => kname_eqb k' k && (m' =? mods)
            | _ => false
            end
     | None => false
     end.

Lemma key_single_check_sound w k mods : key_single_check w k mods = true -> single_bytes w (EKey k mods).
Proof.
  unfold key_single_check. intros H. apply andb_true_iff in H. destruct H as [Hne H].
  split; [destruct w; [discriminate| discriminate]|].
  destruct (prod_run w) as [q|]; [|discriminate]. exists q.
  rewrite !andb_true_iff in H. destruct H as [[Ha Ht] Hi].
  split; [reflexivity|]. split; [exact Ha|]. split; [exact Ht|].
  destruct (prod_item q w) as [[k' m'| | | | | | | | | | | | | ]|]; try discriminate.
  apply andb_true_iff in Hi. destruct Hi as [Hk Hm]. apply kname_eqb_eq in Hk. apply N.eqb_eq in Hm. subst.
  reflexivity.
Qed.

Definition xterm_entry_ok (k : kname) (mods : N) (a : bool) : bool :=
  match xterm_seq k mods a with
  | None => true
  | Some w => key_single_check w k mods
  end.

(* every key, both forms, every one of the 256 modifier masks: run on the regenerated automaton *)
Lemma xterm_table_ok :
  forallb (fun k => forallb (fun a => sweep1 256 (fun mods => xterm_entry_ok k mods a)) [true; false]) xterm_keys = true.
(* one evaluation only: the kernel checks the cast with the VM at Qed *)
Proof. vm_cast_no_check (@eq_refl bool true). Qed.

Lemma xterm_key_in k mods a w : xterm_seq k mods a = Some w -> In k xterm_keys /\ mods < 256.
Proof.
  unfold xterm_seq. destruct (256 <=? mods) eqn:Em; [discriminate|]. intros H. split; [|lia].
  unfold xterm_keys.
  destruct k as [ | | | |n|c| | | | | | | | | | ]; cbn [final_byte tilde_code] in H;
    try (destruct a; discriminate); try (cbn; tauto).
  - (* KF n *)
    assert (Hn : 1 <= n <= 12).
    { destruct ((1 <=? n) && (n <=? 4)) eqn:E1; [lia|].
      destruct ((1 <=? n) && (n <=? 5)) eqn:E2; [lia|].
      destruct ((6 <=? n) && (n <=? 10)) eqn:E3; [lia|].
      destruct ((11 <=? n) && (n <=? 12)) eqn:E4; [lia|]. destruct a; discriminate. }
    apply in_or_app. right. apply in_or_app. left. apply in_map_iff. exists (n - 1). split; [f_equal; lia|].
    apply nrange_In. lia.
  - (* KChar c *)
    assert (Hc : 32 <= c <= 126).
    { repeat match type of H with
             | context [if ?b then _ else _] => let E := fresh "E" in destruct b eqn:E; [lia|]
             end. discriminate. }
    apply in_or_app. right. apply in_or_app. right.
    apply in_map_iff. exists (c - 32). split; [f_equal; lia| apply nrange_In; lia].
Qed.

(* every modifier mask 0..255 (crate fix 8f4107f: the modified forms are parsed, not enumerated);
   modified F3 in the PC-style form exists for masks 1..7 only, see Printer.xterm_seq *)
Theorem single_xterm k mods a :
  wf decmode_all prod_key_table (RXterm k mods a) = true -> single (RXterm k mods a).
Proof.
  cbn [wf]. intros Hwf. destruct (xterm_seq k mods a) as [w|] eqn:E; [|discriminate].
  destruct (xterm_key_in k mods a w E) as [Hin Hm].
  pose proof xterm_table_ok as H. rewrite forallb_forall in H. specialize (H k Hin). cbv beta in H.
  rewrite forallb_forall in H. assert (Ha : In a [true; false]) by (destruct a; cbn; tauto).
  specialize (H a Ha). cbv beta in H. pose proof (sweep1_sound 256 _ H mods Hm) as Hs. cbv beta in Hs.
  unfold xterm_entry_ok in Hs. rewrite E in Hs. apply key_single_check_sound in Hs.
  unfold single, prod_denote, denote. cbn [print]. rewrite E. exact Hs.
Qed.

(* regression of the former finding C04-key-mask: a cursor key with modifier mask 8 (xterm: meta,
   parameter 9; kitty: super) and one with NumLock (kitty mask 128) are one key event each *)
Lemma xterm_mask8_decodes :
  print (RXterm KUp 8 false) = [27; 91; 49; 59; 57; 65]
  /\ fst (prod_decode (print (RXterm KUp 8 false))) = [EKey KUp 8]
  /\ fst (prod_decode (print (RXterm KDelete 133 false))) = [EKey KDelete 133].
Proof. split; [reflexivity|]. split; vm_compute; reflexivity. Qed.

(* the modifier convention of the parsed matcher, on the regenerated automaton: CSI code ; m ~ and
   CSI 1 ; m X (X other than R) name the key of the unmodified table entry CSI code ~ / CSI X with
   modifier mask m - 1, for every code below 32 and every parameter 1..256; nothing else is a key *)
Definition base_key (w : list N) : option kname :=
  match lit_lookup prod_key_table w with
  | Some (k, 0) => Some k
  | _ => None
  end.
Definition modkey_finals : list N := [65; 66; 67; 68; 70; 72; 80; 81; 83].
Definition modkey_expect (code p f : N) : option tev :=
  match (if f =? 126 then base_key ([27; 91] ++ digits code ++ [126])
         else if code =? 1 then base_key [27; 91; f] else None) with
  | Some k => Some (EKey k (p - 1))
  | None => None
  end.
Definition opt_key_eqb (a b : option tev) : bool :=
  match a, b with
  | Some (EKey k m), Some (EKey k' m') => kname_eqb k k' && (m =? m')
  | None, None => true
  | _, _ => false
  end.
Definition modkey_ok (f code p : N) : bool :=
  let w := [27; 91] ++ digits code ++ [59] ++ digits (p + 1) ++ [f] in
  opt_key_eqb (ev_payload decmode_codes decstatus_codes 14 w) (modkey_expect code (p + 1) f).
Lemma modkey_convention_ok :
  forallb (fun f => sweep2 32 256 (modkey_ok f)) (126 :: modkey_finals) = true.
(* one evaluation only: the kernel checks the cast with the VM at Qed *)
Proof. vm_cast_no_check (@eq_refl bool true). Qed.

Lemma opt_key_eqb_eq a b : opt_key_eqb a b = true -> a = b.
Proof.
  destruct a as [[k m| | | | | | | | | | | | | ]|], b as [[k' m'| | | | | | | | | | | | | ]|]; cbn; try discriminate; try reflexivity.
  intros H. apply andb_true_iff in H. destruct H as [Hk Hm]. apply kname_eqb_eq in Hk. apply N.eqb_eq in Hm. subst. reflexivity.
Qed.

Theorem modkey_convention f code p :
  In f (126 :: modkey_finals) -> code < 32 -> 1 <= p <= 256 ->
  ev_payload decmode_codes decstatus_codes 14 ([27; 91] ++ digits code ++ [59] ++ digits p ++ [f])
  = modkey_expect code p f.
Proof.
  intros Hf Hc Hp. apply opt_key_eqb_eq. pose proof modkey_convention_ok as H. rewrite forallb_forall in H. specialize (H f Hf).
  pose proof (sweep2_sound 32 256 _ H code (p - 1) Hc ltac:(lia)) as Hs. unfold modkey_ok in Hs.
  replace (p - 1 + 1) with p in Hs by lia. exact Hs.
Qed.

Theorem key_modifiers :
  forallb mod_entry_ok prod_key_table = true
  /\ forall f code p : N,
       In f (126 :: modkey_finals) -> code < 32 -> 1 <= p <= 256 ->
       ev_payload decmode_codes decstatus_codes 14 ([27; 91] ++ digits code ++ [59] ++ digits p ++ [f])
       = modkey_expect code p f.
Proof. split; [exact mod_table_ok| exact modkey_convention]. Qed.

(* coverage of the table by the reference encoding: every entry is pinned by C04_xterm_keys
   except an explicit remainder whose names are the library's own (trusted names) *)
Definition xterm_image : list (list N) :=
  flat_map (fun k => flat_map (fun a => flat_map (fun mods =>
    match xterm_seq k mods a with Some w => [w] | None => [] end) (nrange 8)) [true; false]) xterm_keys.

Definition trusted_names : list (list N) :=
  (* the six introducers read as Esc / Alt+O .. when nothing follows *)
  [[27]; [27; 79]; [27; 80]; [27; 91]; [27; 93]; [27; 95]]
  (* CSI P .. S as unmodified F1 .. F4 (xterm sends SS3 P .. S) *)
  ++ [[27; 91; 80]; [27; 91; 81]; [27; 91; 82]; [27; 91; 83]]
  (* rxvt's CSI 7 ~ / CSI 8 ~ (named Insert / End by the library; rxvt: Home / End); their modified
     forms go through the parsed matcher (modkey_convention) *)
  ++ [[27; 91; 55; 126]; [27; 91; 56; 126]].

Definition mem_bytes (w : list N) (l : list (list N)) : bool := existsb (bytes_eqb w) l.

Lemma table_coverage :
  forallb (fun e => mem_bytes (fst e) xterm_image || mem_bytes (fst e) trusted_names) prod_key_table = true
  /\ length trusted_names = 12%nat.
Proof. split; vm_compute; reflexivity. Qed.
