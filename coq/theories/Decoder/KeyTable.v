(* The literal key table of the event automaton, recovered from the compiled automaton itself:
   every string that leads to a state whose first tag is a literal item (MatcherTag::Item sorts
   before MatcherTag::Matcher, decoder.rs:304-310).  A literal's stop state is reached by that
   literal only, so the strings are found by a depth-bounded search restricted to the states
   from which an item state is reachable. *)
From Coq Require Import List NArith Bool FMapPositive.
From SNT Require Import Automata.DfaData Automata.PatReach Decoder.EvModel.
Import ListNotations.
Local Open Scope N_scope.

Section Tab.
  Variable d : dfa.

  Definition item_of (q : N) : option N :=
    if d_accepting d q then match d_tag d q with Some (true, k) => Some k | _ => None end else None.
  Definition is_item_state (q : N) : bool := match item_of q with Some _ => true | None => false end.

  Definition row_of_state (q : N) : row :=
    match PositiveMap.find (N.succ_pos q) (d_rows d) with Some r => r | None => [] end.

  Definition states : list N := bytes_of 0 (N.to_nat (d_size d)).

  (* states with an edge into X *)
  Definition preds (X : list N) : list N :=
    filter (fun q => existsb (fun e : N * N * N => mem (snd e) X) (row_of_state q)) states.

  (* levels n = [R_0; R_1; ..; R_n], R_i = states from which an item state is reachable in <= i steps *)
  Fixpoint levels (n : nat) : list (list N) :=
    match n with
    | O => [filter is_item_state states]
    | S k => let ls := levels k in
             let top := last ls [] in
             ls ++ [union (preds top) top]
    end.

  Fixpoint enum (depth : nat) (lv : list (list N)) (q : N) (rev_prefix : list N) : list (list N * N) :=
    (match item_of q with Some k => [(rev rev_prefix, k)] | None => [] end)
    ++ match depth with
       | O => []
       | S dep =>
           let allowed := nth dep lv [] in
           flat_map (fun e : N * N * N =>
                       let '(lo, hi, t) := e in
                       if mem t allowed
                       then flat_map (fun b => enum dep lv t (b :: rev_prefix)) (range_bytes (lo, hi))
                       else [])
                    (row_of_state q)
       end.

  Definition max_literal : nat := 8.
  Definition literal_table : list (list N * N) := enum max_literal (levels max_literal) (d_start d) [].
End Tab.
