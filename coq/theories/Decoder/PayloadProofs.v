(* Facts about the payload decoders of Decoder/Payload.v:
   - number_decode is the unbounded decimal value, clamped to usize::MAX
   - every decoder is panic-free on every string that is long enough (the
     lengths are what the shape certificates of Decoder/EventsProofs.v establish
     for the strings the automaton accepts)
   - characters are Unicode scalar values, pasted text is valid UTF-8 *)
From Coq Require Import List NArith Arith Bool Lia.
From SNT Require Import Base.Outcome Decoder.Payload.
Import ListNotations.
Local Open Scope N_scope.

(* ------------------------------------------------------------------ *)
(* numbers *)

Fixpoint dec_acc (acc : N) (l : list N) : N :=
  match l with
  | [] => acc
  | b :: r => dec_acc (acc * 10 + (b - 48)) r
  end.
(* the unbounded decimal value of a digit string *)
Definition dec (l : list N) : N := dec_acc 0 l.

Lemma sat_step a d : sat (sat (N.min a usize_max * 10) + d) = N.min (a * 10 + d) usize_max.
Proof.
  unfold sat. set (M := usize_max). assert (HM : 0 < M) by (subst M; reflexivity).
  destruct (N.min_spec a M) as [[H E]|[H E]]; rewrite E; clear E;
    destruct (N.min_spec (a * 10 + d) M) as [[H2 E2]|[H2 E2]]; rewrite E2; clear E2.
  - destruct (N.leb_spec (a * 10) M); [|lia]. destruct (N.leb_spec (a * 10 + d) M); lia.
  - destruct (N.leb_spec (a * 10) M).
    + destruct (N.leb_spec (a * 10 + d) M); lia.
    + destruct (N.leb_spec (M + d) M); lia.
  - lia.
  - destruct (N.leb_spec (M * 10) M); [lia|]. destruct (N.leb_spec (M + d) M); lia.
Qed.

Lemma number_decode_acc_spec l : forall a,
  forallb is_digit l = true ->
  number_decode_acc (N.min a usize_max) l = Some (N.min (dec_acc a l) usize_max).
Proof.
  induction l as [|b r IH]; intros a H; cbn [number_decode_acc dec_acc]; [reflexivity|].
  cbn [forallb] in H. apply andb_prop in H. destruct H as [Hb Hr]. rewrite Hb.
  rewrite sat_step. apply IH. exact Hr.
Qed.

(* digits only: the value of the digits, clamped; anything else: None *)
Theorem number_decode_digits l :
  forallb is_digit l = true -> number_decode l = Some (N.min (dec l) usize_max).
Proof.
  intros H. unfold number_decode, dec.
  change 0 with (N.min 0 usize_max) at 1. apply number_decode_acc_spec. exact H.
Qed.

Lemma number_decode_acc_nondigit l : forall a,
  forallb is_digit l = false -> number_decode_acc a l = None.
Proof.
  induction l as [|b r IH]; intros a H; cbn [forallb] in H; [discriminate|].
  cbn [number_decode_acc]. destruct (is_digit b); [|reflexivity]. apply IH. exact H.
Qed.

Theorem number_decode_nondigit l : forallb is_digit l = false -> number_decode l = None.
Proof. apply number_decode_acc_nondigit. Qed.

Theorem number_decode_bounded l n : number_decode l = Some n -> n <= usize_max.
Proof.
  destruct (forallb is_digit l) eqn:E.
  - rewrite (number_decode_digits _ E). intros H; inversion H. lia.
  - rewrite (number_decode_nondigit _ E). discriminate.
Qed.

(* ------------------------------------------------------------------ *)
(* slices *)

Lemma mid_ok (data : list N) (a k : nat) :
  (a + k <= length data)%nat -> exists body, mid data a k = Ok body.
Proof.
  intros H. unfold mid.
  destruct (Nat.leb_spec k (length data)); [|lia].
  destruct (Nat.leb_spec a (length data - k)); [|lia].
  eexists; reflexivity.
Qed.

Lemma index_ok (data : list N) (i : nat) : (i < length data)%nat -> exists b, index data i = Ok b.
Proof.
  intros H. unfold index. destruct (nth_error data i) eqn:E; [eexists; reflexivity|].
  apply nth_error_None in E. lia.
Qed.

(* finish a totality goal once the slices are known to succeed *)
Ltac total_cases :=
  repeat match goal with
         | |- exists r, (let* _ := Ok _ in _) = Ok r => cbn [bind]
         | |- exists r, (let '(_, _) := ?x in _) = Ok r => destruct x
         | |- exists r, (if ?c then _ else _) = Ok r => destruct c
         | |- exists r, match ?x with _ => _ end = Ok r => destruct x
         | |- exists r, Ok _ = Ok r => eexists; reflexivity
         end.

Theorem dec_cursor_total data : (3 <= length data)%nat -> exists r, dec_cursor data = Ok r.
Proof.
  intros H. unfold dec_cursor. destruct (mid_ok data 2 1) as [body ->]; [lia|]. total_cases.
Qed.

Theorem dec_decmode_total ms ss data : (5 <= length data)%nat -> exists r, dec_decmode ms ss data = Ok r.
Proof.
  intros H. unfold dec_decmode. destruct (mid_ok data 3 2) as [body ->]; [lia|]. total_cases.
Qed.

Theorem dec_devattrs_total data : (4 <= length data)%nat -> exists r, dec_devattrs data = Ok r.
Proof.
  intros H. unfold dec_devattrs. destruct (mid_ok data 3 1) as [body ->]; [lia|]. total_cases.
Qed.

Theorem dec_sgr_total data : (3 <= length data)%nat -> exists r, dec_sgr data = Ok r.
Proof.
  intros H. unfold dec_sgr. destruct (mid_ok data 2 1) as [body ->]; [lia|]. total_cases.
Qed.

Theorem dec_kitty_image_total data : (5 <= length data)%nat -> exists r, dec_kitty_image data = Ok r.
Proof.
  intros H. unfold dec_kitty_image. destruct (mid_ok data 3 2) as [body ->]; [lia|]. total_cases.
Qed.

Theorem dec_kitty_keyboard_total data : (3 <= length data)%nat -> exists r, dec_kitty_keyboard data = Ok r.
Proof.
  intros H. unfold dec_kitty_keyboard. destruct (mid_ok data 2 1) as [body ->]; [lia|]. cbn [bind].
  destruct body as [|b0 rest].
  - total_cases.
  - destruct (N.eq_dec b0 63) as [->|Hne].
    + total_cases.
    + assert (forall (A : Type) (x y : A), match b0 with 63 => x | _ => y end = y) as E.
      { intros A x y. destruct b0 as [|p]; [reflexivity|].
        do 6 (destruct p as [p|p|]; try reflexivity). exfalso. apply Hne. reflexivity. }
      rewrite E. total_cases.
Qed.

Theorem dec_mouse_total data : (4 <= length data)%nat -> exists r, dec_mouse data = Ok r.
Proof.
  intros H. unfold dec_mouse. destruct (mid_ok data 3 1) as [body ->]; [lia|]. cbn [bind].
  destruct (index_ok data (length data - 1)) as [last Hl]; [lia|].
  destruct (numbers_decode body 59) as [|e [|c [|r rest]]]; try (eexists; reflexivity).
  destruct (checked_sub1 c), (checked_sub1 r); try (eexists; reflexivity).
  rewrite Hl. cbn [bind]. eexists; reflexivity.
Qed.

Theorem dec_osc_total data : (4 <= length data)%nat -> exists r, dec_osc data = Ok r.
Proof.
  intros H. unfold dec_osc.
  destruct (index_ok data (length data - 1)) as [last ->]; [lia|]. cbn [bind].
  destruct (mid_ok data 2 1) as [b1 E1]; [lia|]. destruct (mid_ok data 2 2) as [b2 E2]; [lia|].
  destruct (last =? 7); [rewrite E1|rewrite E2]; cbn [bind]; total_cases.
Qed.

Theorem dec_report_total data : (7 <= length data)%nat -> exists r, dec_report data = Ok r.
Proof.
  intros H. unfold dec_report.
  destruct (index_ok data 2) as [code ->]; [lia|]. cbn [bind].
  destruct (mid_ok data 5 2) as [body ->]; [lia|]. total_cases.
Qed.

Lemma utf8_code_total data : (1 <= length data <= 4)%nat -> exists c, utf8_code data = Ok c.
Proof.
  intros H. unfold utf8_code. destruct data as [|b0 [|b1 [|b2 [|b3 [|b4 r]]]]]; cbn [length] in *; try lia;
    cbn [bind]; eexists; reflexivity.
Qed.

Theorem dec_utf8_total data : (1 <= length data <= 4)%nat -> exists r, dec_utf8 data = Ok r.
Proof.
  intros H. unfold dec_utf8, utf8_decode. destruct (utf8_code_total data H) as [c ->]. cbn [bind]. total_cases.
Qed.

Theorem dec_paste_total data : (12 <= length data)%nat -> exists r, dec_paste data = Ok r.
Proof.
  intros H. unfold dec_paste. destruct (mid_ok data 6 6) as [body ->]; [lia|]. total_cases.
Qed.

(* ------------------------------------------------------------------ *)
(* well-formedness of what the decoders produce *)

Lemma char_from_u32_scalar c c' : char_from_u32 c = Some c' -> scalar_ok c' = true.
Proof. unfold char_from_u32. destruct (scalar_ok c) eqn:E; [|discriminate]. intros H; inversion H; subst. exact E. Qed.

Theorem dec_utf8_scalar data c : dec_utf8 data = Ok (RSome (PChar c)) -> scalar_ok c = true.
Proof.
  unfold dec_utf8, utf8_decode. destruct (utf8_code data) as [code| | |]; cbn [bind]; try discriminate.
  destruct (char_from_u32 code) as [c'|] eqn:E; [|discriminate].
  intros H; inversion H; subst. eapply char_from_u32_scalar; exact E.
Qed.

Lemma dec_utf8_shape data r : dec_utf8 data = Ok r -> r = RNone \/ exists c, r = RSome (PChar c) /\ scalar_ok c = true.
Proof.
  unfold dec_utf8, utf8_decode. destruct (utf8_code data) as [code| | |]; cbn [bind]; try discriminate.
  destruct (char_from_u32 code) as [c'|] eqn:E; intros H; inversion H; subst.
  - right. exists c'. split; [reflexivity|eapply char_from_u32_scalar; exact E].
  - left. reflexivity.
Qed.

Theorem keyboard_key_scalar code c : keyboard_key code = Some (5, c) -> scalar_ok c = true.
Proof.
  unfold keyboard_key.
  repeat match goal with |- context [if ?x then _ else _] => destruct x end; try discriminate.
  destruct (char_from_u32 code) as [c'|] eqn:E; [|discriminate].
  intros H; inversion H; subst. eapply char_from_u32_scalar; exact E.
Qed.

Theorem dec_paste_valid data text : dec_paste data = Ok (RSome (PPaste text)) -> utf8_valid text = true.
Proof.
  unfold dec_paste. destruct (mid data 6 6) as [body| | |]; cbn [bind]; try discriminate.
  destruct (utf8_valid body) eqn:E; [|discriminate]. intros H; inversion H; subst. exact E.
Qed.

(* one-based coordinates: the decoded value is the parameter minus one, and the parameter is not zero *)
Lemma checked_sub1_spec n m : checked_sub1 n = Some m <-> n = m + 1.
Proof.
  unfold checked_sub1. destruct (N.eqb_spec n 0); split; intros H; try discriminate; try lia.
  - inversion H. lia.
  - f_equal. lia.
Qed.

Theorem dec_cursor_spec data row col :
  dec_cursor data = Ok (RSome (PCursor row col)) ->
  exists body rest, mid data 2 1 = Ok body /\ numbers_decode body 59 = (row + 1) :: (col + 1) :: rest.
Proof.
  unfold dec_cursor. destruct (mid data 2 1) as [body| | |]; cbn [bind]; try discriminate.
  destruct (numbers_decode body 59) as [|r [|c rest]] eqn:En; try discriminate.
  - destruct (checked_sub1 r); discriminate.
  - destruct (checked_sub1 r) as [r'|] eqn:Er; [|discriminate].
    destruct (checked_sub1 c) as [c'|] eqn:Ec; [|discriminate].
    intros H; inversion H; subst. apply checked_sub1_spec in Er, Ec. subst.
    exists body, rest. split; [reflexivity|exact En].
Qed.

(* every element of numbers_decode is the clamped decimal value of a piece made of digits only *)
Lemma filter_map_In {A B} (f : A -> option B) l y :
  In y (filter_map f l) -> exists x, In x l /\ f x = Some y.
Proof.
  induction l as [|a l IH]; cbn [filter_map]; [intros []|].
  destruct (f a) as [b|] eqn:E.
  - intros [->|H]; [exists a; split; [left; reflexivity|exact E]|].
    destruct (IH H) as (x & Hx & Hf). exists x. split; [right; exact Hx|exact Hf].
  - intros H. destruct (IH H) as (x & Hx & Hf). exists x. split; [right; exact Hx|exact Hf].
Qed.

Theorem numbers_decode_values data sep n :
  In n (numbers_decode data sep) ->
  exists piece, In piece (split_on sep data) /\ forallb is_digit piece = true /\
                n = N.min (dec piece) usize_max.
Proof.
  unfold numbers_decode. intros H. destruct (filter_map_In _ _ _ H) as (piece & Hin & Hd).
  exists piece. split; [exact Hin|]. destruct (forallb is_digit piece) eqn:E.
  - split; [reflexivity|]. rewrite (number_decode_digits _ E) in Hd. inversion Hd. reflexivity.
  - rewrite (number_decode_nondigit _ E) in Hd. discriminate.
Qed.
