(* Facts about the payload decoders of Decoder/Payload.v:
   - number_decode is the unbounded decimal value, clamped to usize::MAX
   - every decoder is panic-free on every string that is long enough (the
     lengths are what the shape certificates of Decoder/EventsProofs.v establish
     for the strings the automaton accepts)
   - characters are Unicode scalar values, pasted text is valid UTF-8 *)
From Coq Require Import List NArith Arith Bool Lia.
From SNT Require Import Base.Outcome Decoder.Payload.
Import ListNotations.
Local Open Scope N_scope.

(* ------------------------------------------------------------------ *)
(* numbers *)

Fixpoint dec_acc (acc : N) (l : list N) : N :=
  match l with
  | [] => acc
  | b :: r => dec_acc (acc * 10 + (b - 48)) r
  end.
(* the unbounded decimal value of a digit string *)
Definition dec (l : list N) : N := dec_acc 0 l.

Lemma sat_step a d : sat (sat (N.min a usize_max * 10) + d) = N.min (a * 10 + d) usize_max.
Proof.
  unfold sat. set (M := usize_max). assert (HM : 0 < M) by (subst M; reflexivity).
  destruct (N.min_spec a M) as [[H E]|[H E]]; rewrite E; clear E;
    destruct (N.min_spec (a * 10 + d) M) as [[H2 E2]|[H2 E2]]; rewrite E2; clear E2.
  - destruct (N.leb_spec (a * 10) M); [|lia]. destruct (N.leb_spec (a * 10 + d) M); lia.
  - destruct (N.leb_spec (a * 10) M).
    + destruct (N.leb_spec (a * 10 + d) M); lia.
    + destruct (N.leb_spec (M + d) M); lia.
  - lia.
  - destruct (N.leb_spec (M * 10) M); [lia|]. destruct (N.leb_spec (M + d) M); lia.
Qed.

Lemma number_decode_acc_spec l : forall a,
  forallb is_digit l = true ->
  number_decode_acc (N.min a usize_max) l = Some (N.min (dec_acc a l) usize_max).
Proof.
  induction l as [|b r IH]; intros a H; cbn [number_decode_acc dec_acc]; [reflexivity|].
  cbn [forallb] in H. apply andb_prop in H. destruct H as [Hb Hr]. rewrite Hb.
  rewrite sat_step. apply IH. exact Hr.
Qed.

(* digits only: the value of the digits, clamped; anything else: None *)
Theorem number_decode_digits l :
  forallb is_digit l = true -> number_decode l = Some (N.min (dec l) usize_max).
Proof.
  intros H. unfold number_decode, dec.
  change 0 with (N.min 0 usize_max) at 1. apply number_decode_acc_spec. exact H.
Qed.

Lemma number_decode_acc_nondigit l : forall a,
  forallb is_digit l = false -> number_decode_acc a l = None.
Proof.
  induction l as [|b r IH]; intros a H; cbn [forallb] in H; [discriminate|].
  cbn [number_decode_acc]. destruct (is_digit b); [|reflexivity]. apply IH. exact H.
Qed.

Theorem number_decode_nondigit l : forallb is_digit l = false -> number_decode l = None.
Proof. apply number_decode_acc_nondigit. Qed.

Theorem number_decode_bounded l n : number_decode l = Some n -> n <= usize_max.
Proof.
  destruct (forallb is_digit l) eqn:E.
  - rewrite (number_decode_digits _ E). intros H; inversion H. lia.
  - rewrite (number_decode_nondigit _ E). discriminate.
Qed.

(* ------------------------------------------------------------------ *)
(* slices *)

Lemma mid_ok (data : list N) (a k : nat) :
  (a + k <= length data)%nat -> exists body, mid data a k = Ok body.
Proof.
  intros H. unfold mid.
  destruct (Nat.leb_spec k (length data)); [|lia].
  destruct (Nat.leb_spec a (length data - k)); [|lia].
  eexists; reflexivity.
Qed.

Lemma index_ok (data : list N) (i : nat) : (i < length data)%nat -> exists b, index data i = Ok b.
Proof.
  intros H. unfold index. destruct (nth_error data i) eqn:E; [eexists; reflexivity|].
  apply nth_error_None in E. lia.
Qed.

(* finish a totality goal once the slices are known to succeed *)
Ltac total_cases :=
  repeat match goal with
         | |- exists r, (let* _ := Ok _ in _) = Ok r => cbn [bind]
         | |- exists r, (let '(_, _) := ?x in _) = Ok r => destruct x
         | |- exists r, (if ?c then _ else _) = Ok r => destruct c
         | |- exists r, match ?x with _ => _ end = Ok r => destruct x
         | |- exists r, Ok _ = Ok r => eexists; reflexivity
         end.

Theorem dec_cursor_total data : (3 <= length data)%nat -> exists r, dec_cursor data = Ok r.
Proof.
  intros H. unfold dec_cursor. destruct (mid_ok data 2 1) as [body ->]; [lia|]. total_cases.
Qed.

Theorem dec_decmode_total tb data : (5 <= length data)%nat -> exists r, dec_decmode tb data = Ok r.
Proof.
  intros H. unfold dec_decmode. destruct (mid_ok data 3 2) as [body ->]; [lia|]. total_cases.
Qed.

Theorem dec_devattrs_total data : (4 <= length data)%nat -> exists r, dec_devattrs data = Ok r.
Proof.
  intros H. unfold dec_devattrs. destruct (mid_ok data 3 1) as [body ->]; [lia|]. total_cases.
Qed.

(* ---- sgr_color / sgr_face: total when the palette tables have the sizes the code indexes ---- *)

Definition tabs_ok (tb : dtabs) : bool :=
  Nat.eqb (length (dt_cube tb)) 6 && Nat.eqb (length (dt_greys tb)) 24 && Nat.eqb (length (dt_colors tb)) 16.

Lemma tab_ok {A} (l : list A) i : (N.to_nat i < length l)%nat -> exists a, tab l i = Ok a.
Proof.
  intros H. unfold tab. destruct (nth_error l (N.to_nat i)) eqn:E; [eexists; reflexivity|].
  apply nth_error_None in E. lia.
Qed.

Section SgrTotal.
  Variable tb : dtabs.
  Hypothesis Htabs : tabs_ok tb = true.

  Lemma tabs_lengths : length (dt_cube tb) = 6%nat /\ length (dt_greys tb) = 24%nat /\ length (dt_colors tb) = 16%nat.
  Proof.
    pose proof Htabs as H. unfold tabs_ok in H. apply andb_prop in H. destruct H as [H H3].
    apply andb_prop in H. destruct H as [H1 H2]. apply Nat.eqb_eq in H1, H2, H3. auto.
  Qed.

  Lemma take1_len l : (length (snd (take1 l)) <= length l)%nat.
  Proof. destruct l; cbn; lia. Qed.

  Lemma sgr_color_total cmds sub :
    exists c r, sgr_color tb cmds sub = Ok (c, r) /\ (length r <= length cmds)%nat.
  Proof.
    destruct tabs_lengths as (Hc & Hg & Hl).
    unfold sgr_color. destruct cmds as [|c0 r0]; [exists None, []; split; [reflexivity|cbn; lia]|].
    destruct (number_decode c0) as [k|]; [|exists None, r0; split; [reflexivity|cbn; lia]].
    destruct (k =? 5).
    - destruct r0 as [|c1 r1]; [exists None, []; split; [reflexivity|cbn; lia]|].
      destruct (number_decode c1) as [index|]; [|exists None, r1; split; [reflexivity|cbn; lia]].
      destruct (N.ltb_spec index 16).
      + destruct (tab_ok (dt_colors tb) index) as [c ->]; [lia|]. cbn [bind].
        eexists; eexists; split; [reflexivity|cbn; lia].
      + destruct (N.ltb_spec index 232).
        * set (i := index - 16). set (ri := i / 36). set (i2 := i - ri * 36). set (gi := i2 / 6).
          assert (Hi : i < 216) by (subst i; lia).
          assert (Hri : ri < 6) by (subst ri; apply N.div_lt_upper_bound; lia).
          assert (Hi2 : i2 < 36).
          { subst i2 ri. pose proof (N.mod_eq i 36 ltac:(lia)) as E.
            pose proof (N.mod_lt i 36 ltac:(lia)). lia. }
          assert (Hgi : gi < 6) by (subst gi; apply N.div_lt_upper_bound; lia).
          assert (Hbi : i2 - gi * 6 < 6).
          { subst gi. pose proof (N.mod_eq i2 6 ltac:(lia)) as E.
            pose proof (N.mod_lt i2 6 ltac:(lia)). lia. }
          destruct (tab_ok (dt_cube tb) ri) as [r ->]; [lia|]. cbn [bind].
          destruct (tab_ok (dt_cube tb) gi) as [g ->]; [lia|]. cbn [bind].
          destruct (tab_ok (dt_cube tb) (i2 - gi * 6)) as [b ->]; [lia|]. cbn [bind].
          eexists; eexists; split; [reflexivity|cbn; lia].
        * destruct (N.ltb_spec index 256).
          -- destruct (tab_ok (dt_greys tb) (index - 232)) as [v ->]; [lia|]. cbn [bind].
             eexists; eexists; split; [reflexivity|cbn; lia].
          -- eexists; eexists; split; [reflexivity|cbn; lia].
    - destruct (k =? 2); [|exists None, r0; split; [reflexivity|cbn; lia]].
      pose proof (take1_len r0) as L1. destruct (take1 r0) as [a r1]. cbn [snd] in L1.
      pose proof (take1_len r1) as L2. destruct (take1 r1) as [b r2]. cbn [snd] in L2.
      pose proof (take1_len r2) as L3. destruct (take1 r2) as [c r3]. cbn [snd] in L3.
      assert (L4 : (length (snd (if sub then take1 r3 else (None, r3))) <= length r3)%nat)
        by (destruct sub; [apply take1_len|cbn; lia]).
      destruct (if sub then take1 r3 else (None, r3)) as [d r4]. cbn [snd] in L4.
      destruct (onum a), (onum b), (onum c), (onum d); eexists; eexists; (split; [reflexivity|cbn [length]; lia]).
  Qed.

  Lemma sgr_group_total face g rest :
    exists f r, sgr_group tb face g rest = Ok (f, r) /\ (length r <= length rest)%nat.
  Proof.
    destruct tabs_lengths as (Hc & Hg & Hl).
    unfold sgr_group.
    destruct (match split_on 58 g with a0 :: _ => number_decode a0 | [] => None end) as [v|];
      [|eexists; eexists; split; [reflexivity|lia]].
    repeat match goal with
           | |- context [if ?v =? ?k then _ else _] => destruct (v =? k)
           end;
      try (eexists; eexists; split; [reflexivity|lia]).
    (* the three colour commands *)
    1-3: destruct (negb (has_colon g));
      [ destruct (sgr_color_total rest false) as (c & r & -> & Hr); cbn [bind];
        eexists; eexists; split; [reflexivity|exact Hr]
      | destruct (sgr_color_total (tl (split_on 58 g)) true) as (c & r & -> & Hr); cbn [bind];
        eexists; eexists; split; [reflexivity|lia] ].
    (* named colours *)
    destruct ((30 <=? v) && (v <=? 37)) eqn:E1.
    { apply andb_prop in E1. destruct E1 as [A B]. apply N.leb_le in A, B.
      destruct (tab_ok (dt_colors tb) (v - 30)) as [c ->]; [lia|]. cbn [bind].
      eexists; eexists; split; [reflexivity|lia]. }
    destruct ((90 <=? v) && (v <=? 97)) eqn:E2.
    { apply andb_prop in E2. destruct E2 as [A B]. apply N.leb_le in A, B.
      destruct (tab_ok (dt_colors tb) (v - 82)) as [c ->]; [lia|]. cbn [bind].
      eexists; eexists; split; [reflexivity|lia]. }
    destruct ((40 <=? v) && (v <=? 48)) eqn:E3.
    { apply andb_prop in E3. destruct E3 as [A B]. apply N.leb_le in A, B.
      destruct (tab_ok (dt_colors tb) (v - 40)) as [c ->]; [lia|]. cbn [bind].
      eexists; eexists; split; [reflexivity|lia]. }
    destruct ((100 <=? v) && (v <=? 107)) eqn:E4.
    { apply andb_prop in E4. destruct E4 as [A B]. apply N.leb_le in A, B.
      destruct (tab_ok (dt_colors tb) (v - 92)) as [c ->]; [lia|]. cbn [bind].
      eexists; eexists; split; [reflexivity|lia]. }
    eexists; eexists; split; [reflexivity|lia].
  Qed.

  Lemma sgr_loop_total fuel : forall face groups,
    (length groups <= fuel)%nat -> exists f, sgr_loop tb fuel face groups = Ok f.
  Proof.
    induction fuel as [|n IH]; intros face groups H.
    - destruct groups; [eexists; reflexivity|cbn in H; lia].
    - destruct groups as [|g rest]; [eexists; reflexivity|]. cbn [sgr_loop].
      destruct (sgr_group_total face g rest) as (f & r & -> & Hr). cbn [bind].
      apply IH. cbn in H. lia.
  Qed.

  Theorem sgr_face_total data : exists f, sgr_face tb data = Ok f.
  Proof. unfold sgr_face. apply sgr_loop_total. lia. Qed.

  Theorem dec_sgr_total data : (3 <= length data)%nat -> exists r, dec_sgr tb data = Ok r.
  Proof.
    intros H. unfold dec_sgr. destruct (mid_ok data 2 1) as [body ->]; [lia|]. cbn [bind].
    destruct (sgr_face_total body) as [f ->]. cbn [bind]. eexists; reflexivity.
  Qed.

  Theorem dec_report_total data : (7 <= length data)%nat -> exists r, dec_report tb data = Ok r.
  Proof.
    intros H. unfold dec_report.
    destruct (index_ok data 2) as [code ->]; [lia|]. cbn [bind].
    destruct (mid_ok data 5 2) as [body ->]; [lia|]. cbn [bind].
    destruct (negb (code =? 49)); [eexists; reflexivity|].
    destruct (ends_with_m body); [|eexists; reflexivity].
    destruct (sgr_face_total (removelast body)) as [f ->]. cbn [bind]. eexists; reflexivity.
  Qed.
End SgrTotal.

Theorem dec_kitty_image_total data : (5 <= length data)%nat -> exists r, dec_kitty_image data = Ok r.
Proof.
  intros H. unfold dec_kitty_image. destruct (mid_ok data 3 2) as [body ->]; [lia|]. total_cases.
Qed.

Theorem dec_kitty_keyboard_total data : (3 <= length data)%nat -> exists r, dec_kitty_keyboard data = Ok r.
Proof.
  intros H. unfold dec_kitty_keyboard. destruct (mid_ok data 2 1) as [body ->]; [lia|]. cbn [bind].
  destruct body as [|b0 rest].
  - total_cases.
  - destruct (N.eq_dec b0 63) as [->|Hne].
    + total_cases.
    + assert (forall (A : Type) (x y : A), match b0 with 63 => x | _ => y end = y) as E.
      { intros A x y. destruct b0 as [|p]; [reflexivity|].
        do 6 (destruct p as [p|p|]; try reflexivity). exfalso. apply Hne. reflexivity. }
      rewrite E. total_cases.
Qed.

Theorem dec_mouse_total data : (4 <= length data)%nat -> exists r, dec_mouse data = Ok r.
Proof.
  intros H. unfold dec_mouse. destruct (mid_ok data 3 1) as [body ->]; [lia|]. cbn [bind].
  destruct (index_ok data (length data - 1)) as [last Hl]; [lia|].
  destruct (numbers_decode body 59) as [|e [|c [|r rest]]]; try (eexists; reflexivity).
  destruct (checked_sub1 c), (checked_sub1 r); try (eexists; reflexivity).
  rewrite Hl. cbn [bind]. cbv zeta.
  destruct (negb (N.land e 128 =? 0) || negb (N.land e 64 =? 0) && (1 <? N.land e 3)); eexists; reflexivity.
Qed.

Theorem dec_modkey_total data : (3 <= length data)%nat -> exists r, dec_modkey data = Ok r.
Proof.
  intros H. unfold dec_modkey. destruct (mid_ok data 2 1) as [body ->]; [lia|]. cbn [bind].
  destruct (index_ok data (length data - 1)) as [last Hl]; [lia|].
  destruct (numbers_decode body 59) as [|code [|p rest]]; try (eexists; reflexivity).
  destruct (checked_sub1 p) as [mode|]; [|eexists; reflexivity].
  destruct (255 <? mode); [eexists; reflexivity|]. rewrite Hl. cbn [bind].
  destruct (if last =? 126 then tilde_key code else if code =? 1 then final_key last else None) as [[k a]|];
    eexists; reflexivity.
Qed.

Theorem dec_osc_total data : (4 <= length data)%nat -> exists r, dec_osc data = Ok r.
Proof.
  intros H. unfold dec_osc.
  destruct (index_ok data (length data - 1)) as [last ->]; [lia|]. cbn [bind].
  destruct (mid_ok data 2 1) as [b1 E1]; [lia|]. destruct (mid_ok data 2 2) as [b2 E2]; [lia|].
  destruct (last =? 7); [rewrite E1|rewrite E2]; cbn [bind]; total_cases.
Qed.

Lemma utf8_code_total data : (1 <= length data <= 4)%nat -> exists c, utf8_code data = Ok c.
Proof.
  intros H. unfold utf8_code. destruct data as [|b0 [|b1 [|b2 [|b3 [|b4 r]]]]]; cbn [length] in *; try lia;
    cbn [bind]; eexists; reflexivity.
Qed.

Theorem dec_utf8_total data : (1 <= length data <= 4)%nat -> exists r, dec_utf8 data = Ok r.
Proof.
  intros H. unfold dec_utf8, utf8_decode. destruct (utf8_code_total data H) as [c ->]. cbn [bind]. total_cases.
Qed.

Theorem dec_paste_total data : (12 <= length data)%nat -> exists r, dec_paste data = Ok r.
Proof.
  intros H. unfold dec_paste. destruct (mid_ok data 6 6) as [body ->]; [lia|]. total_cases.
Qed.

(* ------------------------------------------------------------------ *)
(* well-formedness of what the decoders produce *)

Lemma char_from_u32_scalar c c' : char_from_u32 c = Some c' -> scalar_ok c' = true.
Proof. unfold char_from_u32. destruct (scalar_ok c) eqn:E; [|discriminate]. intros H; inversion H; subst. exact E. Qed.

Theorem dec_utf8_scalar data c : dec_utf8 data = Ok (RSome (PChar c)) -> scalar_ok c = true.
Proof.
  unfold dec_utf8, utf8_decode. destruct (utf8_code data) as [code| | |]; cbn [bind]; try discriminate.
  destruct (char_from_u32 code) as [c'|] eqn:E; [|discriminate].
  intros H; inversion H; subst. eapply char_from_u32_scalar; exact E.
Qed.

Lemma dec_utf8_shape data r : dec_utf8 data = Ok r -> r = RNone \/ exists c, r = RSome (PChar c) /\ scalar_ok c = true.
Proof.
  unfold dec_utf8, utf8_decode. destruct (utf8_code data) as [code| | |]; cbn [bind]; try discriminate.
  destruct (char_from_u32 code) as [c'|] eqn:E; intros H; inversion H; subst.
  - right. exists c'. split; [reflexivity|eapply char_from_u32_scalar; exact E].
  - left. reflexivity.
Qed.

Theorem keyboard_key_scalar code c : keyboard_key code = Some (5, c) -> scalar_ok c = true.
Proof.
  unfold keyboard_key.
  repeat match goal with |- context [if ?x then _ else _] => destruct x end; try discriminate.
  destruct (char_from_u32 code) as [c'|] eqn:E; [|discriminate].
  intros H; inversion H; subst. eapply char_from_u32_scalar; exact E.
Qed.

Theorem dec_paste_valid data text : dec_paste data = Ok (RSome (PPaste text)) -> utf8_valid text = true.
Proof.
  unfold dec_paste. destruct (mid data 6 6) as [body| | |]; cbn [bind]; try discriminate.
  destruct (utf8_valid body) eqn:E; [|discriminate]. intros H; inversion H; subst. exact E.
Qed.

(* one-based coordinates: the decoded value is the parameter minus one, and the parameter is not zero *)
Lemma checked_sub1_spec n m : checked_sub1 n = Some m <-> n = m + 1.
Proof.
  unfold checked_sub1. destruct (N.eqb_spec n 0); split; intros H; try discriminate; try lia.
  - inversion H. lia.
  - f_equal. lia.
Qed.

Theorem dec_cursor_spec data row col :
  dec_cursor data = Ok (RSome (PCursor row col)) ->
  exists body rest, mid data 2 1 = Ok body /\ numbers_decode body 59 = (row + 1) :: (col + 1) :: rest.
Proof.
  unfold dec_cursor. destruct (mid data 2 1) as [body| | |]; cbn [bind]; try discriminate.
  destruct (numbers_decode body 59) as [|r [|c rest]] eqn:En; try discriminate.
  - destruct (checked_sub1 r); discriminate.
  - destruct (checked_sub1 r) as [r'|] eqn:Er; [|discriminate].
    destruct (checked_sub1 c) as [c'|] eqn:Ec; [|discriminate].
    intros H; inversion H; subst. apply checked_sub1_spec in Er, Ec. subst.
    exists body, rest. split; [reflexivity|exact En].
Qed.

(* every element of numbers_decode is the clamped decimal value of a piece made of digits only *)
Lemma filter_map_In {A B} (f : A -> option B) l y :
  In y (filter_map f l) -> exists x, In x l /\ f x = Some y.
Proof.
  induction l as [|a l IH]; cbn [filter_map]; [intros []|].
  destruct (f a) as [b|] eqn:E.
  - intros [->|H]; [exists a; split; [left; reflexivity|exact E]|].
    destruct (IH H) as (x & Hx & Hf). exists x. split; [right; exact Hx|exact Hf].
  - intros H. destruct (IH H) as (x & Hx & Hf). exists x. split; [right; exact Hx|exact Hf].
Qed.

Theorem numbers_decode_values data sep n :
  In n (numbers_decode data sep) ->
  exists piece, In piece (split_on sep data) /\ forallb is_digit piece = true /\
                n = N.min (dec piece) usize_max.
Proof.
  unfold numbers_decode. intros H. destruct (filter_map_In _ _ _ H) as (piece & Hin & Hd).
  exists piece. split; [exact Hin|]. destruct (forallb is_digit piece) eqn:E.
  - split; [reflexivity|]. rewrite (number_decode_digits _ E) in Hd. inversion Hd. reflexivity.
  - rewrite (number_decode_nondigit _ E) in Hd. discriminate.
Qed.

(* ------------------------------------------------------------------ *)
(* where the numeric fields of each event come from: always elements of a parameter list
   (numbers_decode / number_decode, i.e. clamped unbounded decimal values by
   numbers_decode_values / number_decode_digits), minus one where the protocol is one-based;
   bit sets are masks of such a value *)

Ltac split_matches H :=
  repeat match type of H with
         | context [match ?x with _ => _ end] => destruct x eqn:?; try discriminate
         end.

Theorem dec_mouse_spec data name mode row col :
  dec_mouse data = Ok (RSome (PMouse name mode row col)) ->
  exists body e rest last,
    mid data 3 1 = Ok body /\ numbers_decode body 59 = e :: (col + 1) :: (row + 1) :: rest /\
    index data (length data - 1) = Ok last /\
    mode = (let m := N.land (N.land (N.shiftr e 2) 7) 511 in if last =? 77 then N.lor m 256 else m).
Proof.
  unfold dec_mouse. destruct (mid data 3 1) as [body| | |]; cbn [bind]; try discriminate.
  destruct (numbers_decode body 59) as [|e [|c [|r rest]]] eqn:En; try discriminate.
  destruct (checked_sub1 c) as [col'|] eqn:Ec; [|discriminate].
  destruct (checked_sub1 r) as [row'|] eqn:Er; [|discriminate].
  destruct (index data (length data - 1)) as [last| | |]; cbn [bind]; try discriminate.
  cbv zeta. destruct (negb (N.land e 128 =? 0) || negb (N.land e 64 =? 0) && (1 <? N.land e 3)); [discriminate|].
  intros H. apply checked_sub1_spec in Ec, Er. subst c r.
  exists body, e, rest, last. split; [reflexivity|].
  assert (col' = col /\ row' = row /\
          mode = (let m := N.land (N.land (N.shiftr e 2) 7) 511 in if last =? 77 then N.lor m 256 else m))
    as (-> & -> & ->) by (injection H; intros; subst; auto).
  split; [exact En|]. split; reflexivity.
Qed.

Theorem dec_termsize_spec data a b c d :
  dec_termsize data = Ok (RSome (PSize a b c d)) ->
  exists p0 cell pix more cb pb r1 r2,
    split_on 27 data = p0 :: cell :: pix :: more /\
    mid cell 3 1 = Ok cb /\ numbers_decode cb 59 = a :: b :: r1 /\
    mid pix 3 1 = Ok pb /\ numbers_decode pb 59 = c :: d :: r2.
Proof.
  unfold dec_termsize. destruct (split_on 27 data) as [|p0 [|cell rest]]; try discriminate.
  destruct (mid cell 3 1) as [cb| | |] eqn:Mc; cbn [bind]; try discriminate.
  destruct (numbers_decode cb 59) as [|ch [|cw r1]] eqn:E1; try discriminate.
  destruct rest as [|pix more]; [discriminate|].
  destruct (mid pix 3 1) as [pb| | |] eqn:Mp; cbn [bind]; try discriminate.
  destruct (numbers_decode pb 59) as [|ph [|pw r2]] eqn:E2; try discriminate.
  intros H; inversion H; subst. exists p0, cell, pix, more, cb, pb, r1, r2.
  split; [reflexivity|]. split; [exact Mc|]. split; [exact E1|]. split; [exact Mp|exact E2].
Qed.

Theorem dec_keylevel_spec data n :
  dec_kitty_keyboard data = Ok (RSome (PKeyLevel n)) ->
  exists rest, mid data 2 1 = Ok (63 :: rest) /\ number_decode rest = Some n.
Proof.
  unfold dec_kitty_keyboard. destruct (mid data 2 1) as [body| | |]; cbn [bind]; try discriminate.
  destruct body as [|b0 rest].
  - intros H. vm_compute in H. discriminate.
  - destruct (N.eq_dec b0 63) as [->|Hne].
    + destruct (number_decode rest) as [l|] eqn:E; [|discriminate].
      intros H; inversion H; subst. exists rest. split; [reflexivity|exact E].
    + assert (forall (A : Type) (x y : A), match b0 with 63 => x | _ => y end = y) as E.
      { intros A x y. destruct b0 as [|p]; [reflexivity|].
        do 6 (destruct p as [p|p|]; try reflexivity). exfalso. apply Hne. reflexivity. }
      rewrite E. intros H. split_matches H; discriminate.
Qed.

(* keyboard_decode_key: function keys are an offset of the code, nothing is truncated *)
Theorem keyboard_key_spec code kind arg :
  keyboard_key code = Some (kind, arg) ->
  (kind = 0 /\ code = 27) \/ (kind = 1 /\ code = 13) \/ (kind = 2 /\ code = 9) \/ (kind = 3 /\ code = 127) \/
  (kind = 4 /\ 57376 <= code <= 57398 /\ arg = code - 57376 + 13) \/
  (kind = 5 /\ arg = code /\ scalar_ok code = true).
Proof.
  unfold keyboard_key.
  destruct (N.eqb_spec code 27) as [E|_].
  { intros H; inversion H; subst. left. split; reflexivity. }
  destruct (N.eqb_spec code 13) as [E|_].
  { intros H; inversion H; subst. right; left. split; reflexivity. }
  destruct (N.eqb_spec code 9) as [E|_].
  { intros H; inversion H; subst. right; right; left. split; reflexivity. }
  destruct (N.eqb_spec code 127) as [E|_].
  { intros H; inversion H; subst. right; right; right; left. split; reflexivity. }
  destruct ((57376 <=? code) && (code <=? 57398)) eqn:EF.
  - intros H; inversion H; subst. apply andb_prop in EF. destruct EF as [A B]. apply N.leb_le in A, B.
    right; right; right; right; left. repeat split; assumption.
  - destruct ((code <=? 4294967295) && negb ((57344 <=? code) && (code <=? 63743))); [|discriminate].
    unfold char_from_u32. destruct (scalar_ok code) eqn:Es; [|discriminate].
    intros H; inversion H; subst. right; right; right; right; right. repeat split; try exact Es.
Qed.

Theorem dec_devattrs_spec data l :
  dec_devattrs data = Ok (RSome (PDevAttrs l)) ->
  exists body, mid data 3 1 = Ok body /\ l = to_set (filter (fun v => 0 <? v) (numbers_decode body 59)).
Proof.
  unfold dec_devattrs. destruct (mid data 3 1) as [body| | |]; cbn [bind]; try discriminate.
  intros H; inversion H; subst. exists body. split; reflexivity.
Qed.

(* kitty image: id and placement are the decoded values of the `i` / `p` keys *)
Lemma kitty_fields_spec kvs : forall id pl id' pl',
  kitty_fields kvs id pl = Some (id', pl') ->
  (id' = id \/ exists v, In ([105], v) kvs /\ number_decode v = Some id') /\
  (pl' = pl \/ exists v n, In ([112], v) kvs /\ number_decode v = Some n /\ pl' = Some n).
Proof.
  induction kvs as [|[k v] r IH]; intros id pl id' pl' H; cbn [kitty_fields] in H.
  - inversion H; subst. split; left; reflexivity.
  - destruct (match k with [105] => true | _ => false end) eqn:Ki.
    + destruct (number_decode v) as [n|] eqn:En; [|discriminate].
      assert (k = [105]) as -> by (destruct k as [|a [|? ?]]; try discriminate;
        destruct a as [|p]; try discriminate; do 7 (destruct p as [p|p|]; try discriminate); reflexivity).
      destruct (IH _ _ _ _ H) as [[->|(v' & Hin & Hv)] Hp]; split.
      * right. exists v. split; [left; reflexivity|exact En].
      * destruct Hp as [->|(v2 & n2 & Hin2 & A & B)]; [left; reflexivity|right; exists v2, n2; repeat split; auto; right; exact Hin2].
      * right. exists v'. split; [right; exact Hin|exact Hv].
      * destruct Hp as [->|(v2 & n2 & Hin2 & A & B)]; [left; reflexivity|right; exists v2, n2; repeat split; auto; right; exact Hin2].
    + destruct (match k with [112] => true | _ => false end) eqn:Kp.
      * destruct (number_decode v) as [n|] eqn:En; [|discriminate].
        assert (k = [112]) as -> by (destruct k as [|a [|? ?]]; try discriminate;
          destruct a as [|p]; try discriminate; do 7 (destruct p as [p|p|]; try discriminate); reflexivity).
        destruct (IH _ _ _ _ H) as [Hi Hp]. split.
        -- destruct Hi as [->|(v' & Hin & Hv)]; [left; reflexivity|right; exists v'; split; [right; exact Hin|exact Hv]].
        -- destruct Hp as [->|(v2 & n2 & Hin2 & A & B)];
             [right; exists v, n; repeat split; auto; left; reflexivity
             |right; exists v2, n2; repeat split; auto; right; exact Hin2].
      * destruct (IH _ _ _ _ H) as [Hi Hp]. split.
        -- destruct Hi as [->|(v' & Hin & Hv)]; [left; reflexivity|right; exists v'; split; [right; exact Hin|exact Hv]].
        -- destruct Hp as [->|(v2 & n2 & Hin2 & A & B)]; [left; reflexivity|right; exists v2, n2; repeat split; auto; right; exact Hin2].
Qed.

Theorem dec_kitty_image_spec data id pl err :
  dec_kitty_image data = Ok (RSome (PKitty id pl err)) ->
  exists body, mid data 3 2 = Ok body /\
    let kvs := key_value_decode 44 (fst (split_first 59 body)) in
    (id = 0 \/ exists v, In ([105], v) kvs /\ number_decode v = Some id) /\
    (pl = None \/ exists v n, In ([112], v) kvs /\ number_decode v = Some n /\ pl = Some n).
Proof.
  unfold dec_kitty_image. destruct (mid data 3 2) as [body| | |]; cbn [bind]; try discriminate.
  destruct (split_first 59 body) as [head msg] eqn:Es.
  destruct (kitty_fields (key_value_decode 44 head) 0 None) as [[id' pl']|] eqn:E; [|discriminate].
  destruct msg as [m|]; [|discriminate]. intros H; inversion H; subst.
  exists body. split; [reflexivity|]. rewrite Es. cbn [fst]. apply (kitty_fields_spec _ _ _ _ _ E).
Qed.

(* OSC 4: the palette index is the decoded second field *)
(* OSC colour reports: the colour name is decided by the first field (10 foreground, 11 background,
   4 palette), the palette index is the decoded second field; nothing else is a colour report *)
Theorem dec_osc_spec data name idx c r :
  dec_osc data = Ok r -> (r = RSome (PColor name idx c) \/ r = RExt (PColor name idx c)) ->
  exists last body a0 args,
    index data (length data - 1) = Ok last /\
    (if last =? 7 then mid data 2 1 else mid data 2 2) = Ok body /\
    split_on 59 body = a0 :: args /\
    ((name = 0 /\ idx = 0 /\ number_decode a0 = Some 10) \/
     (name = 1 /\ idx = 0 /\ number_decode a0 = Some 11) \/
     (name = 2 /\ number_decode a0 = Some 4 /\ exists a1 rest, args = a1 :: rest /\ number_decode a1 = Some idx)).
Proof.
  unfold dec_osc. destruct (index data (length data - 1)) as [last| | |]; cbn [bind]; try discriminate.
  destruct (if last =? 7 then mid data 2 1 else mid data 2 2) as [body| | |] eqn:Eb; cbn [bind]; try discriminate.
  destruct (split_on 59 body) as [|a0 args] eqn:Es; [intros H [E|E]; subst; discriminate|].
  destruct (number_decode a0) as [id|] eqn:E0; [|intros H [E|E]; subst; discriminate].
  intros H HE. exists last, body, a0, args. split; [reflexivity|]. split; [exact Eb|]. split; [exact Es|].
  destruct (N.eqb_spec id 10) as [->|_].
  { left. destruct HE as [E|E]; subst r; split_matches H; inversion H; subst; repeat split; try reflexivity; exact E0. }
  destruct (N.eqb_spec id 11) as [->|_].
  { right; left. destruct HE as [E|E]; subst r; split_matches H; inversion H; subst; repeat split; try reflexivity; exact E0. }
  destruct (N.eqb_spec id 4) as [->|_]; [|destruct HE as [E|E]; subst; discriminate].
  right; right.
  destruct args as [|a1 rest]; [destruct HE as [E|E]; subst; discriminate|].
  destruct (number_decode a1) as [i|] eqn:E1; [|destruct HE as [E|E]; subst; discriminate].
  destruct HE as [E|E]; subst r; split_matches H; inversion H; subst;
    (split; [reflexivity|]); (split; [exact E0|]); eexists; eexists; (split; [reflexivity|exact E1]).
Qed.

(* DECRPM: mode and status are the first two parameters and are codes the library knows
   (DecMode::from_usize / DecModeStatus::from_usize compare the WHOLE number: no truncation) *)
Theorem dec_decmode_spec tb data m st :
  dec_decmode tb data = Ok (RSome (PDecMode m st)) ->
  exists body rest, mid data 3 2 = Ok body /\ numbers_decode body 59 = m :: st :: rest /\
                    existsb (N.eqb m) (dt_modes tb) = true /\ existsb (N.eqb st) (dt_statuses tb) = true.
Proof.
  unfold dec_decmode. destruct (mid data 3 2) as [body| | |]; cbn [bind]; try discriminate.
  destruct (numbers_decode body 59) as [|m' [|s' rest]] eqn:En; try discriminate.
  - destruct (existsb (N.eqb m') (dt_modes tb)); discriminate.
  - destruct (existsb (N.eqb m') (dt_modes tb)) eqn:Em; [|discriminate].
    destruct (existsb (N.eqb s') (dt_statuses tb)) eqn:Est; [|discriminate].
    intros H; inversion H; subst. exists body, rest. repeat split; assumption.
Qed.

(* kitty keyboard key: the key comes from the first number of the first field (1 when there is none),
   the modifiers are the bit set (m - 1) & 511 of the first number m of the second field.  KeyMod is a
   set of nine flags (KeyMod::from_bits keeps the known bits, src/keys.rs): bits above are dropped by
   design, for 2^32 + 1 as for 1025 — a mask, not an arithmetic wrap. *)
Theorem dec_key_spec data kind arg mode :
  dec_kitty_keyboard data = Ok (RSome (PKey kind arg mode)) ->
  exists body codes fields,
    mid data 2 1 = Ok body /\ split_on 59 body = codes :: fields /\
    keyboard_key (match numbers_decode codes 58 with c :: _ => c | [] => 1 end) = Some (kind, arg) /\
    mode = match fields with
           | [] => 0
           | modes :: _ => match numbers_decode modes 58 with
                           | m :: _ => if 1 <? m then N.land (m - 1) 511 else 0
                           | [] => 0
                           end
           end.
Proof.
  unfold dec_kitty_keyboard. destruct (mid data 2 1) as [body| | |]; cbn [bind]; try discriminate.
  assert (Hgen : forall body,
    match split_on 59 body with
    | [] => Ok RNone
    | codes :: fields =>
        let code := match numbers_decode codes 58 with c :: _ => c | [] => 1 end in
        match keyboard_key code with
        | None => Ok RNone
        | Some (kind, arg) =>
            match fields with
            | [] => Ok (RSome (PKey kind arg 0))
            | modes :: _ =>
                let ms := numbers_decode modes 58 in
                let mode := match ms with m :: _ => if 1 <? m then N.land (m - 1) 511 else 0 | [] => 0 end in
                let event_type := match ms with _ :: t :: _ => t | _ => 0 end in
                if event_type =? 0 then Ok (RSome (PKey kind arg mode)) else Ok RNone
            end
        end
    end = Ok (RSome (PKey kind arg mode)) ->
    exists codes fields, split_on 59 body = codes :: fields /\
      keyboard_key (match numbers_decode codes 58 with c :: _ => c | [] => 1 end) = Some (kind, arg) /\
      mode = match fields with
             | [] => 0
             | modes :: _ => match numbers_decode modes 58 with
                             | m :: _ => if 1 <? m then N.land (m - 1) 511 else 0
                             | [] => 0
                             end
             end).
  { intros bd. destruct (split_on 59 bd) as [|codes fields]; [discriminate|]. cbv zeta.
    destruct (keyboard_key (match numbers_decode codes 58 with c :: _ => c | [] => 1 end)) as [[k a]|] eqn:Ek; [|discriminate].
    destruct fields as [|modes more].
    - intros H; inversion H; subst. exists codes, []. repeat split. exact Ek.
    - destruct (match numbers_decode modes 58 with _ :: t :: _ => t | _ => 0 end =? 0); [|discriminate].
      intros H; inversion H; subst. exists codes, (modes :: more). repeat split. exact Ek. }
  destruct body as [|b0 rest].
  - intros H. destruct (Hgen [] H) as (codes & fields & A & B & C). exists [], codes, fields. repeat split; assumption.
  - destruct (N.eq_dec b0 63) as [->|Hne].
    + destruct (number_decode rest); discriminate.
    + assert (forall (A : Type) (x y : A), match b0 with 63 => x | _ => y end = y) as E.
      { intros A x y. destruct b0 as [|p]; [reflexivity|].
        do 6 (destruct p as [p|p|]; try reflexivity). exfalso. apply Hne. reflexivity. }
      rewrite E. intros H. destruct (Hgen (b0 :: rest) H) as (codes & fields & A & B & C).
      exists (b0 :: rest), codes, fields. repeat split; assumption.
Qed.

(* ------------------------------------------------------------------ *)
(* SGR mouse: button and modifiers, in the arithmetic of the protocol
   (xterm ctlseqs, "SGR (1006)": low two bits = button, +4 shift, +8 meta, +16 control, +64 wheel;
   final `M` = press, `m` = release) *)

Lemma land_64 e : N.land e 64 = if N.testbit e 6 then 64 else 0.
Proof.
  apply N.bits_inj. intros i. rewrite N.land_spec.
  change 64 with (2 ^ 6). rewrite N.pow2_bits_eqb.
  destruct (N.eqb_spec 6 i) as [<-|Hne].
  - destruct (N.testbit e 6); cbn [andb]; [rewrite N.pow2_bits_true; reflexivity|rewrite N.bits_0; reflexivity].
  - rewrite andb_false_r. destruct (N.testbit e 6); [|rewrite N.bits_0; reflexivity].
    rewrite N.pow2_bits_false by exact Hne. reflexivity.
Qed.

Lemma small_masks m : m < 8 -> N.land m 511 = m /\ N.lor m 256 = m + 256.
Proof.
  intros H.
  assert (m = 0 \/ m = 1 \/ m = 2 \/ m = 3 \/ m = 4 \/ m = 5 \/ m = 6 \/ m = 7) as Hc by lia.
  repeat (destruct Hc as [->|Hc]; [split; reflexivity|]). subst m. split; reflexivity.
Qed.

Lemma land_128 e : N.land e 128 = if N.testbit e 7 then 128 else 0.
Proof.
  apply N.bits_inj. intros i. rewrite N.land_spec.
  change 128 with (2 ^ 7). rewrite N.pow2_bits_eqb.
  destruct (N.eqb_spec 7 i) as [<-|Hne].
  - destruct (N.testbit e 7); cbn [andb]; [rewrite N.pow2_bits_true; reflexivity|rewrite N.bits_0; reflexivity].
  - rewrite andb_false_r. destruct (N.testbit e 7); [|rewrite N.bits_0; reflexivity].
    rewrite N.pow2_bits_false by exact Hne. reflexivity.
Qed.

(* the guard of the decoder, in protocol terms: a button has a name unless bit 7 is set (buttons
   8..11) or it is the horizontal wheel (wheel bit with button 2 or 3, codes 66 / 67) *)
Definition mouse_named (e : N) : bool :=
  negb (N.testbit e 7) && (negb (N.testbit e 6) || (e mod 4 <? 2)).

Lemma mouse_guard e :
  (negb (N.land e 128 =? 0) || negb (N.land e 64 =? 0) && (1 <? N.land e 3)) = negb (mouse_named e).
Proof.
  unfold mouse_named. rewrite land_128, land_64.
  change 3 with (N.ones 2). rewrite N.land_ones. change (2 ^ 2) with 4.
  assert (H4 : e mod 4 < 4) by (apply N.mod_lt; lia).
  destruct (N.testbit e 7), (N.testbit e 6); cbn [N.eqb negb orb andb]; try reflexivity.
  destruct (N.ltb_spec 1 (e mod 4)), (N.ltb_spec (e mod 4) 2); try reflexivity; lia.
Qed.

Theorem dec_mouse_protocol data name mode row col :
  dec_mouse data = Ok (RSome (PMouse name mode row col)) ->
  exists body e rest last,
    mid data 3 1 = Ok body /\ numbers_decode body 59 = e :: (col + 1) :: (row + 1) :: rest /\
    index data (length data - 1) = Ok last /\
    mouse_named e = true /\
    mode = (e / 4) mod 8 + (if last =? 77 then 256 else 0) /\
    name = (let button := e mod 4 in
            if N.testbit e 6
            then (if button =? 0 then 4 else 5)                  (* wheel down / wheel up *)
            else if button =? 3 then 3 else button).             (* left, middle, right / move *)
Proof.
  intros H. pose proof H as H0.
  destruct (dec_mouse_spec _ _ _ _ _ H) as (body & e & rest & last & Hb & Hn & Hl & Hm).
  exists body, e, rest, last. split; [exact Hb|]. split; [exact Hn|]. split; [exact Hl|].
  assert (E7 : N.land (N.shiftr e 2) 7 = (e / 4) mod 8).
  { rewrite N.shiftr_div_pow2. change 7 with (N.ones 3). rewrite N.land_ones. reflexivity. }
  assert (E3 : N.land e 3 = e mod 4) by (change 3 with (N.ones 2); rewrite N.land_ones; reflexivity).
  assert (Hlt : (e / 4) mod 8 < 8) by (apply N.mod_lt; lia).
  destruct (small_masks _ Hlt) as [M1 M2].
  unfold dec_mouse in H0. rewrite Hb in H0. cbn [bind] in H0. rewrite Hn in H0.
  destruct (checked_sub1 (col + 1)) as [c'|]; [|discriminate].
  destruct (checked_sub1 (row + 1)) as [r'|]; [|discriminate].
  rewrite Hl in H0. cbn [bind] in H0. cbv zeta in H0. rewrite mouse_guard in H0.
  destruct (mouse_named e) eqn:Hg; cbn [negb] in H0; [|discriminate].
  split; [reflexivity|]. split.
  - rewrite Hm. cbv zeta. rewrite E7, M1. destruct (last =? 77); [exact M2|rewrite N.add_0_r; reflexivity].
  - assert (Hname : name =
      (if negb (N.land e 64 =? 0)
       then (if N.land e 3 =? 0 then 4 else if N.land e 3 =? 1 then 5 else 3)
       else if N.land e 3 =? 0 then 0 else if N.land e 3 =? 1 then 1 else if N.land e 3 =? 2 then 2 else 3))
      by (injection H0; intros; subst; reflexivity).
    rewrite Hname, E3, land_64. cbv zeta.
    assert (Hb4 : e mod 4 < 4) by (apply N.mod_lt; lia).
    unfold mouse_named in Hg. apply andb_prop in Hg. destruct Hg as [_ Hg].
    set (b := e mod 4) in *.
    destruct (N.testbit e 6); [change (64 =? 0) with false|change (0 =? 0) with true]; cbn [negb orb] in *.
    + apply N.ltb_lt in Hg. assert (b = 0 \/ b = 1) as [-> | ->] by lia; reflexivity.
    + assert (b = 0 \/ b = 1 \/ b = 2 \/ b = 3) as Hc by lia.
      destruct Hc as [-> |[-> |[-> | ->]]]; reflexivity.
Qed.

(* ... and a report whose button has no name is unrecognised *)
Theorem dec_mouse_unnamed data body e c r rest last :
  mid data 3 1 = Ok body -> numbers_decode body 59 = e :: c :: r :: rest ->
  index data (length data - 1) = Ok last ->
  mouse_named e = false -> dec_mouse data = Ok RNone.
Proof.
  intros Hb Hn Hl Hg. unfold dec_mouse. rewrite Hb. cbn [bind]. rewrite Hn.
  destruct (checked_sub1 c); [|reflexivity]. destruct (checked_sub1 r); [|reflexivity].
  rewrite Hl. cbn [bind]. cbv zeta. rewrite mouse_guard, Hg. reflexivity.
Qed.

(* legacy keys with a modifier parameter (CSI code ; m final): the modifier set is the parameter minus
   one — a zero parameter or a set above 255 makes the sequence unrecognised, nothing is masked away —
   and the key is named by the final byte (code 1) or, for `~`, by the code *)
Theorem dec_modkey_spec data kind arg mode :
  dec_modkey data = Ok (RSome (PKey kind arg mode)) ->
  exists body code rest last,
    mid data 2 1 = Ok body /\ numbers_decode body 59 = code :: (mode + 1) :: rest /\ mode <= 255 /\
    index data (length data - 1) = Ok last /\
    (if last =? 126 then tilde_key code else if code =? 1 then final_key last else None) = Some (kind, arg).
Proof.
  unfold dec_modkey. destruct (mid data 2 1) as [body| | |]; cbn [bind]; try discriminate.
  destruct (numbers_decode body 59) as [|code [|p rest]] eqn:En; try discriminate.
  destruct (checked_sub1 p) as [m|] eqn:Ep; [|discriminate].
  destruct (N.ltb_spec 255 m) as [|Hm]; [discriminate|].
  destruct (index data (length data - 1)) as [last| | |]; cbn [bind]; try discriminate.
  destruct (if last =? 126 then tilde_key code else if code =? 1 then final_key last else None) as [[k a]|] eqn:Ek;
    [|discriminate].
  intros H. apply checked_sub1_spec in Ep. subst p.
  assert (Hland : N.land m 511 = m).
  { change 511 with (N.ones 9). rewrite N.land_ones. apply N.mod_small. change (2 ^ 9) with 512. lia. }
  rewrite Hland in H. inversion H; subst. exists body, code, rest, last. repeat split; assumption || reflexivity.
Qed.
