(* The regenerated tables the payload decoders consult (Gen/ProdDFA.v), bundled. *)
From Coq Require Import List NArith.
From SNT Require Import Decoder.Payload Gen.ProdDFA.

Definition prod_tabs : dtabs := mk_dtabs decmode_codes decstatus_codes dec_cube dec_greys dec_colors.
