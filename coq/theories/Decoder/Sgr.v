(* Model of the SGR parameter interpreter of src/decoder.rs:
     sgr_color (1188-1233), sgr_face (1236-1289), GraphicRenditionMatcher::decode (780-783).

   Iterators are modelled by the list of items they still hold (`slice::Split`
   is fused: after the end `next()` keeps returning None).  `sgr_color` may
   consume items of the *shared* `groups` iterator, so it returns the rest.
   The `while let Some(group) = groups.next()` loop is a recursion on explicit
   fuel (one unit per executed iteration; `S (length groups)` always suffices,
   lemma sgr_loop_fuel in SgrProofs). *)
From Coq Require Import List NArith Bool.
From SNT Require Export Base.Dec10 Render.FaceModel.
Import ListNotations.
Local Open Scope N_scope.

(* slice::split(|b| b == sep): "a;b;" -> ["a";"b";""], "" -> [""] *)
Fixpoint split_on (sep : N) (data : list N) : list (list N) :=
  match data with
  | [] => [[]]
  | b :: r =>
      let rest := split_on sep r in
      if b =? sep then [] :: rest
      else match rest with
           | [] => [[b]]            (* unreachable: split_on never returns [] *)
           | g :: gs => (b :: g) :: gs
           end
  end.

Definition it_next {A} (it : list A) : option A * list A :=
  match it with
  | [] => (None, [])
  | x :: r => (Some x, r)
  end.

Definition nth_n {A} (l : list A) (i : N) : option A := nth_error l (N.to_nat i).

(* the 256-colour table of sgr_color *)
Definition color256 (index : N) : option rgba :=
  if index <? 16 then
    match nth_n SGR_COLORS index with
    | Some (r, g, b, a) => Some (RGBA r g b a)
    | None => None
    end
  else if index <? 232 then
    let index := index - 16 in
    let ri := index / 36 in
    let index := index - ri * 36 in
    let gi := index / 6 in
    let index := index - gi * 6 in
    let bi := index in
    match nth_n SGR_CUBE ri, nth_n SGR_CUBE gi, nth_n SGR_CUBE bi with
    | Some r, Some g, Some b => Some (RGBA r g b 255)
    | _, _, _ => None
    end
  else if index <? 256 then
    match nth_n SGR_GREYS (index - 232) with
    | Some v => Some (RGBA v v v 255)
    | None => None
    end
  else None.

Definition named_color (i : N) : option rgba :=
  match nth_n SGR_COLORS i with
  | Some (r, g, b, a) => Some (RGBA r g b a)
  | None => None
  end.

(* `cmds.next().and_then(number_decode)` *)
Definition next_number (it : list (list N)) : option N * list (list N) :=
  match it_next it with
  | (Some x, r) => (number_decode x, r)
  | (None, r) => (None, r)
  end.

(* `u8::try_from(value).ok()` *)
Definition channel_u8 (n : N) : option N := if n <? 256 then Some n else None.

Definition mk_rgb (r g b : N) : option rgba :=
  match channel_u8 r, channel_u8 g, channel_u8 b with
  | Some r, Some g, Some b => Some (RGBA r g b 255)
  | _, _, _ => None
  end.

(* `sub_params`: the iterator runs over the colon separated sub-parameters of one group
   (true) or over the shared semicolon separated groups (false) *)
Definition sgr_color (cmds : list (list N)) (sub_params : bool) : option rgba * list (list N) :=
  match it_next cmds with
  | (None, r) => (None, r)
  | (Some k, r) =>
      match number_decode k with
      | None => (None, r)
      | Some kind =>
          if kind =? 5 then
            match it_next r with
            | (None, r1) => (None, r1)
            | (Some i, r1) =>
                match number_decode i with
                | None => (None, r1)
                | Some index => (color256 index, r1)
                end
            end
          else if kind =? 2 then
            let '(c1, r1) := next_number r in
            let '(c2, r2) := next_number r1 in
            let '(c3, r3) := next_number r2 in
            let '(c4, r4) := if sub_params then next_number r3 else (None, r3) in
            match c1, c2, c3, c4 with
            | Some r_, Some g_, Some b_, None => (mk_rgb r_ g_ b_, r4)
            | _, Some r_, Some g_, Some b_ => (mk_rgb r_ g_ b_, r4)
            | _, _, _, _ => (None, r4)
            end
          else (None, r)
      end
  end.

Definition set_fg c (m : face_modify) := mkFM (m_reset m) c (m_bg m) (m_underline m) (m_ucolor m) (m_bold m) (m_italic m) (m_blink m) (m_strike m).
Definition set_bg c (m : face_modify) := mkFM (m_reset m) (m_fg m) c (m_underline m) (m_ucolor m) (m_bold m) (m_italic m) (m_blink m) (m_strike m).
Definition set_underline u (m : face_modify) := mkFM (m_reset m) (m_fg m) (m_bg m) u (m_ucolor m) (m_bold m) (m_italic m) (m_blink m) (m_strike m).
Definition set_ucolor c (m : face_modify) := mkFM (m_reset m) (m_fg m) (m_bg m) (m_underline m) c (m_bold m) (m_italic m) (m_blink m) (m_strike m).
Definition set_bold b (m : face_modify) := mkFM (m_reset m) (m_fg m) (m_bg m) (m_underline m) (m_ucolor m) b (m_italic m) (m_blink m) (m_strike m).
Definition set_italic b (m : face_modify) := mkFM (m_reset m) (m_fg m) (m_bg m) (m_underline m) (m_ucolor m) (m_bold m) b (m_blink m) (m_strike m).
Definition set_blink b (m : face_modify) := mkFM (m_reset m) (m_fg m) (m_bg m) (m_underline m) (m_ucolor m) (m_bold m) (m_italic m) b (m_strike m).
Definition set_strike b (m : face_modify) := mkFM (m_reset m) (m_fg m) (m_bg m) (m_underline m) (m_ucolor m) (m_bold m) (m_italic m) (m_blink m) b.

Definition in_range (lo hi v : N) : bool := (lo <=? v) && (v <=? hi).

(* one iteration of the loop of sgr_face: the group just taken, the groups still in the
   iterator, the modification so far  ->  the groups left, the updated modification *)
Definition sgr_step (group : list N) (groups : list (list N)) (face : face_modify)
  : list (list N) * face_modify :=
  let args0 := split_on 58 group in
  let first := match args0 with x :: _ => x | [] => [] end in
  let args := tl args0 in
  let cmd := number_decode first in
  (* `args.size_hint().0 == 0`: the Split iterator is finished iff the group had no ':' *)
  let args_empty := match args with [] => true | _ => false end in
  let color (_ : unit) : option rgba * list (list N) :=
    if args_empty then sgr_color groups false
    else (fst (sgr_color args true), groups) in
  match cmd with
  | None => (groups, fm_reset)
  | Some v =>
      if v =? 0 then (groups, fm_reset)
      else if v =? 1 then (groups, set_bold (Some true) face)
      else if v =? 22 then (groups, set_bold (Some false) face)
      else if v =? 3 then (groups, set_italic (Some true) face)
      else if v =? 23 then (groups, set_italic (Some false) face)
      else if v =? 4 then
        let u := match fst (next_number args) with
                 | Some k => if k =? 0 then UNone else if k =? 2 then UDouble else if k =? 3 then UCurly
                             else if k =? 4 then UDotted else if k =? 5 then UDashed
                             else UStraight
                 | None => UStraight
                 end in
        (groups, set_underline (Some u) face)
      else if v =? 21 then (groups, set_underline (Some UDouble) face)
      else if v =? 24 then (groups, set_underline (Some UNone) face)
      else if v =? 5 then (groups, set_blink (Some true) face)
      else if v =? 25 then (groups, set_blink (Some false) face)
      else if v =? 9 then (groups, set_strike (Some true) face)
      else if v =? 29 then (groups, set_strike (Some false) face)
      else if v =? 38 then let '(c, gs) := color tt in (gs, set_fg c face)
      else if v =? 48 then let '(c, gs) := color tt in (gs, set_bg c face)
      else if v =? 58 then let '(c, gs) := color tt in (gs, set_ucolor c face)
      else if in_range 30 37 v then (groups, set_fg (named_color (v - 30)) face)
      else if in_range 90 97 v then (groups, set_fg (named_color (v - 82)) face)
      else if in_range 40 48 v then (groups, set_bg (named_color (v - 40)) face)
      else if in_range 100 107 v then (groups, set_bg (named_color (v - 92)) face)
      else (groups, face)
  end.

Fixpoint sgr_loop (fuel : nat) (groups : list (list N)) (face : face_modify) : option face_modify :=
  match fuel with
  | O => None
  | S fuel' =>
      match groups with
      | [] => Some face
      | group :: rest =>
          let '(rest', face') := sgr_step group rest face in
          sgr_loop fuel' rest' face'
      end
  end.

(* sgr_face(data); None = the model's fuel ran out (never: sgr_face_total) *)
Definition sgr_face (data : list N) : option face_modify :=
  let groups := split_on 59 data in
  sgr_loop (S (length groups)) groups fm_default.

(* GraphicRenditionMatcher::decode: sgr_face(&data[2..data.len() - 1]) *)
Definition sgr_payload (data : list N) : list N := removelast (skipn 2 data).
