(* sgr_face reads back what the encoder writes between `ESC [` and `m`. *)
From Coq Require Import List NArith Bool Lia Arith.
From SNT Require Import Base.Sweep Base.Dec10 Base.Dec10Proofs Render.FaceModel Render.FaceModelProofs
  Decoder.Sgr Decoder.SgrRef Encoder.FaceEnc Decoder.SgrProofs.
Import ListNotations.
Local Open Scope N_scope.

Definition opt_opaque (c : option rgba) : Prop :=
  match c with Some c => opaque_color c | None => True end.
Definition fm_opaque (m : face_modify) : Prop :=
  opt_opaque (m_fg m) /\ opt_opaque (m_bg m) /\ opt_opaque (m_ucolor m).
Definition face_opaque (f : face) : Prop := opt_opaque (f_fg f) /\ opt_opaque (f_bg f).

(* ---- no chunk contains ';' ---- *)
Definition nosemi (chunks : list (list N)) : Prop := Forall (fun c => ~ In 59 c) chunks.

Lemma nosemi_app a b : nosemi a -> nosemi b -> nosemi (a ++ b).
Proof. intros. apply Forall_app. split; assumption. Qed.

Lemma nosemi_lit c : forallb (fun b => negb (b =? 59)) c = true -> nosemi [c].
Proof.
  intros H. constructor; [|constructor]. intros Hin. rewrite forallb_forall in H.
  specialize (H _ Hin). rewrite N.eqb_refl in H. discriminate.
Qed.

Lemma nosemi_digits n : ~ In 59 (digits n).
Proof. apply digits_no_byte. reflexivity. Qed.

Lemma nosemi_color k c : nosemi (color_chunks k c).
Proof.
  destruct c as [r g b a]. unfold color_chunks.
  repeat constructor; try apply nosemi_digits.
  - destruct k; cbn; intuition discriminate.
  - cbn; intuition discriminate.
Qed.

Lemma nosemi_opt_color k c : nosemi (opt_color_chunks k c).
Proof. destruct c; [apply nosemi_color | constructor]. Qed.

Lemma nosemi_face_underline u : nosemi (face_underline_chunks u).
Proof. destruct u; cbn [face_underline_chunks]; try constructor; try (apply nosemi_lit; reflexivity);
       try (cbn; intuition discriminate); constructor. Qed.

Lemma nosemi_modify_underline u : nosemi (modify_underline_chunks u).
Proof.
  destruct u as [[]|]; cbn [modify_underline_chunks]; try apply nosemi_face_underline;
    [apply nosemi_lit; reflexivity | constructor].
Qed.

Lemma nosemi_onoff flag on off :
  forallb (fun b => negb (b =? 59)) on = true -> forallb (fun b => negb (b =? 59)) off = true ->
  nosemi (onoff_chunk flag on off).
Proof. intros. destruct flag as [[]|]; cbn [onoff_chunk]; [apply nosemi_lit | apply nosemi_lit | constructor]; assumption. Qed.

Lemma nosemi_flag attrs flag code :
  forallb (fun b => negb (b =? 59)) code = true -> nosemi (flag_chunk attrs flag code).
Proof. intros. unfold flag_chunk. destruct (fa_contains attrs flag); [apply nosemi_lit; assumption | constructor]. Qed.

Lemma nosemi_modify m : nosemi (enc_modify_chunks m).
Proof.
  unfold enc_modify_chunks.
  repeat apply nosemi_app;
    try apply nosemi_opt_color; try apply nosemi_modify_underline; try (apply nosemi_onoff; reflexivity).
  destruct (m_reset m); [apply nosemi_lit; reflexivity | constructor].
Qed.

Lemma nosemi_face f : nosemi (enc_face_chunks f).
Proof.
  unfold enc_face_chunks.
  repeat apply nosemi_app;
    try apply nosemi_opt_color; try apply nosemi_face_underline; try (apply nosemi_lit; reflexivity).
  destruct (fa_is_empty (f_attrs f)); [constructor|].
  repeat apply nosemi_app; apply nosemi_flag; reflexivity.
Qed.

(* ---- FaceModify ---- *)
Definition keep {A} (x : option A) (old : option A) : option A :=
  match x with Some v => Some v | None => old end.

(* what the chunks of a record do to the modification being assembled by sgr_face *)
Definition eff_modify (m acc : face_modify) : face_modify :=
  let acc := if m_reset m then fm_reset else acc in
  mkFM (m_reset acc) (keep (m_fg m) (m_fg acc)) (keep (m_bg m) (m_bg acc))
       (keep (m_underline m) (m_underline acc)) (keep (m_ucolor m) (m_ucolor acc))
       (keep (m_bold m) (m_bold acc)) (keep (m_italic m) (m_italic acc))
       (keep (m_blink m) (m_blink acc)) (keep (m_strike m) (m_strike acc)).

Lemma unit_eff_ext U E E' : (forall acc, E acc = E' acc) -> unit_eff U E -> unit_eff U E'.
Proof. intros He H f rest acc Hf. rewrite <- He. apply H, Hf. Qed.

Lemma unit_modify m : fm_opaque m -> unit_eff (enc_modify_chunks m) (eff_modify m).
Proof.
  intros (Hfg & Hbg & Huc). unfold enc_modify_chunks.
  eapply unit_eff_ext; cycle 1.
  - repeat eapply unit_eff_app.
    + instantiate (1 := fun acc => if m_reset m then fm_reset else acc).
      destruct (m_reset m); [apply unit_0 | apply unit_eff_nil].
    + apply (unit_opt_color Foreground), Hfg.
    + apply (unit_opt_color Background), Hbg.
    + apply unit_modify_underline.
    + apply (unit_opt_color Underline), Huc.
    + apply unit_onoff; [apply unit_1 | apply unit_22].
    + apply unit_onoff; [apply unit_3 | apply unit_23].
    + apply unit_onoff; [apply unit_5 | apply unit_25].
    + apply unit_onoff; [apply unit_9 | apply unit_29].
  - intros acc. cbv beta. unfold eff_modify.
    generalize (if m_reset m then fm_reset else acc). intros a. destruct a as [rs fg bg ul uc bo it bl st].
    destruct (m_fg m), (m_bg m), (m_underline m), (m_ucolor m); cbn [set_color set_fg set_bg set_ucolor set_underline
      m_reset m_fg m_bg m_underline m_ucolor m_bold m_italic m_blink m_strike keep];
    destruct (m_bold m) as [[]|], (m_italic m) as [[]|], (m_blink m) as [[]|], (m_strike m) as [[]|]; reflexivity.
Qed.

Lemma eff_modify_default m : eff_modify m fm_default = m.
Proof.
  destruct m as [rs fg bg ul uc bo it bl st]. unfold eff_modify. cbn [m_reset m_fg m_bg m_underline m_ucolor m_bold m_italic m_blink m_strike].
  destruct rs; cbn; destruct fg, bg, ul, uc, bo, it, bl, st; reflexivity.
Qed.

Lemma sgr_face_join chunks E :
  chunks <> [] -> nosemi chunks -> unit_eff chunks E ->
  sgr_face (join [59] chunks) = Some (E fm_default).
Proof.
  intros Hne Hns Hu. unfold sgr_face. rewrite split_on_join by assumption.
  apply unit_eff_run; [exact Hu | apply Nat.lt_succ_diag_r].
Qed.

Theorem sgr_roundtrip_modify m :
  fm_opaque m -> enc_modify_chunks m <> [] ->
  sgr_face (join [59] (enc_modify_chunks m)) = Some m.
Proof.
  intros Ho Hne. rewrite (sgr_face_join _ (eff_modify m) Hne (nosemi_modify m) (unit_modify m Ho)).
  rewrite eff_modify_default. reflexivity.
Qed.

(* the encoder writes nothing exactly for the empty modification *)
Lemma enc_modify_chunks_nil m : enc_modify_chunks m = [] <-> m = fm_default.
Proof.
  split.
  - destruct m as [rs fg bg ul uc bo it bl st]. unfold enc_modify_chunks.
    cbn [m_reset m_fg m_bg m_underline m_ucolor m_bold m_italic m_blink m_strike].
    destruct rs; [discriminate|]. destruct fg as [[]|]; [discriminate|]. destruct bg as [[]|]; [discriminate|].
    destruct ul as [[]|]; try discriminate. destruct uc as [[]|]; [discriminate|].
    destruct bo as [[]|]; try discriminate. destruct it as [[]|]; try discriminate.
    destruct bl as [[]|]; try discriminate. destruct st as [[]|]; try discriminate. reflexivity.
  - intros ->. reflexivity.
Qed.

(* ---- Face ---- *)
Definition flag_opt (attrs flag : N) : option bool := if fa_contains attrs flag then Some true else None.

(* the modification sgr_face reads from the chunks of Face(f) *)
Definition face_as_modify (f : face) : face_modify :=
  let a := f_attrs f in
  mkFM true (f_fg f) (f_bg f)
       (match fa_underline a with UNone => None | u => Some u end) None
       (if fa_is_empty a then None else flag_opt a FA_BOLD)
       (if fa_is_empty a then None else flag_opt a FA_ITALIC)
       (if fa_is_empty a then None else flag_opt a FA_BLINK)
       (if fa_is_empty a then None else flag_opt a FA_STRIKE).

Lemma unit_face f : face_opaque f -> unit_eff (enc_face_chunks f) (fun _ => face_as_modify f).
Proof.
  intros (Hfg & Hbg). unfold enc_face_chunks.
  eapply unit_eff_ext; cycle 1.
  - repeat eapply unit_eff_app.
    + apply unit_0.
    + apply (unit_opt_color Foreground), Hfg.
    + apply (unit_opt_color Background), Hbg.
    + apply unit_face_underline.
    + instantiate (1 := if fa_is_empty (f_attrs f) then fun m => m else _).
      destruct (fa_is_empty (f_attrs f)); [apply unit_eff_nil|].
      repeat eapply unit_eff_app; apply unit_flag;
        [apply unit_1 | apply unit_3 | apply unit_5 | apply unit_7 | apply unit_9].
  - intros acc. cbv beta. unfold face_as_modify, flag_opt.
    destruct (f_fg f), (f_bg f), (fa_underline (f_attrs f)), (fa_is_empty (f_attrs f));
      cbn [set_color set_fg set_bg set_underline fm_reset m_reset m_fg m_bg m_underline m_ucolor m_bold m_italic m_blink m_strike];
      try reflexivity;
      destruct (fa_contains (f_attrs f) FA_BOLD), (fa_contains (f_attrs f) FA_ITALIC),
               (fa_contains (f_attrs f) FA_BLINK), (fa_contains (f_attrs f) FA_REVERSE),
               (fa_contains (f_attrs f) FA_STRIKE); reflexivity.
Qed.

Lemma enc_face_chunks_nonempty f : enc_face_chunks f <> [].
Proof. unfold enc_face_chunks. discriminate. Qed.

Theorem sgr_roundtrip_face f :
  face_opaque f ->
  sgr_face (join [59] (enc_face_chunks f)) = Some (face_as_modify f).
Proof.
  intros Ho. exact (sgr_face_join _ _ (enc_face_chunks_nonempty f) (nosemi_face f) (unit_face f Ho)).
Qed.

(* applying it to ANY face gives the face that was encoded, minus inverse video *)
Definition contains_check (a : N) : bool :=
  Bool.eqb (fa_contains a FA_BOLD) (has_flag a FA_BOLD)
  && Bool.eqb (fa_contains a FA_ITALIC) (has_flag a FA_ITALIC)
  && Bool.eqb (fa_contains a FA_BLINK) (has_flag a FA_BLINK)
  && Bool.eqb (fa_contains a FA_STRIKE) (has_flag a FA_STRIKE)
  && (negb (fa_is_empty a)
      || (ustyle_eqb (fa_underline a) UNone && negb (has_flag a FA_BOLD) && negb (has_flag a FA_ITALIC)
          && negb (has_flag a FA_BLINK) && negb (has_flag a FA_STRIKE))).

Lemma contains_check_ok : sweep1 256 contains_check = true.
Proof. vm_compute. reflexivity. Qed.

Theorem face_as_modify_meaning f r :
  face_ok f -> rapply (face_as_modify f) r = expressible (abs_face f).
Proof.
  intros Hf. pose proof (sweep1_sound 256 contains_check contains_check_ok (f_attrs f) Hf) as H.
  unfold contains_check in H. rewrite !andb_true_iff in H.
  destruct H as [[[[H1 H2] H3] H4] H5]. apply eqb_prop in H1, H2, H3, H4.
  unfold rapply, face_as_modify, expressible, abs_face, flag_opt.
  cbn [m_reset m_fg m_bg m_underline m_ucolor m_bold m_italic m_blink m_strike
       r_fg r_bg r_ul r_bold r_italic r_blink r_reverse r_strike rface_default].
  rewrite H1, H2, H3, H4.
  destruct (fa_is_empty (f_attrs f)) eqn:Ee.
  - cbn [negb orb] in H5. rewrite !andb_true_iff in H5. destruct H5 as [[[[Hu Hb] Hi] Hk] Hs].
    apply negb_true_iff in Hb, Hi, Hk, Hs. rewrite Hb, Hi, Hk, Hs.
    destruct (fa_underline (f_attrs f)); try discriminate.
    destruct (f_fg f), (f_bg f); reflexivity.
  - destruct (f_fg f), (f_bg f), (fa_underline (f_attrs f)),
      (has_flag (f_attrs f) FA_BOLD), (has_flag (f_attrs f) FA_ITALIC),
      (has_flag (f_attrs f) FA_BLINK), (has_flag (f_attrs f) FA_STRIKE); reflexivity.
Qed.
