(* Every Unicode scalar value except ESC, written as UTF-8, is read back by the command
   tokeniser as that character.  One-, two- and three-byte encodings (code points below
   65536) are swept completely; four-byte encodings are handled by the path through the
   automaton plus arithmetic. *)
From Coq Require Import List NArith ZArith Bool Lia Arith String ZifyBool ZifyNat ZifyN.
From SNT Require Import Base.Sweep Decoder.CmdTok Decoder.SgrRef Decoder.CmdTokProofs.
Import ListNotations.
Local Open Scope N_scope.
Ltac Zify.zify_post_hook ::= Z.div_mod_to_equations.

Definition st_is_init (s : st) : bool :=
  (sq s =? cmd_start) && match sbuf s, sres s, scand s with [], [], None => true | _, _, _ => false end.

Lemma st_is_init_eq s : st_is_init s = true -> s = st_init.
Proof.
  destruct s as [q buf res cand]. unfold st_is_init. cbn [sq sbuf sres scand].
  intros H. apply andb_true_iff in H. destruct H as [Hq H]. apply N.eqb_eq in Hq. subst q.
  destruct buf; [|discriminate]. destruct res; [|discriminate]. destruct cand; [discriminate|]. reflexivity.
Qed.

Definition char_check (c : N) : bool :=
  if scalar_ok c && negb (c =? 27) then
    match run st_init (utf8_encode c) with
    | (s, [TItem (CmdChar c')]) => (c' =? c) && st_is_init s
    | _ => false
    end
  else true.

Lemma char_check_small : sweep_pow 16 0 char_check = true.
Proof. vm_compute. reflexivity. Qed.

Lemma char_check_run c :
  char_check c = true -> scalar_ok c = true -> c <> 27 ->
  run st_init (utf8_encode c) = (st_init, [TItem (CmdChar c)]).
Proof.
  unfold char_check. intros H Hs Hn. rewrite Hs in H.
  replace (c =? 27) with false in H by (symmetry; apply N.eqb_neq; exact Hn). cbn [negb andb] in H.
  destruct (run st_init (utf8_encode c)) as [s toks].
  destruct toks as [|[[f|m|c'|bs]|bs] [|? ?]]; try discriminate.
  apply andb_true_iff in H. destruct H as [Hc Hi]. apply N.eqb_eq in Hc. subst c'.
  rewrite (st_is_init_eq s Hi). reflexivity.
Qed.

(* ---- bit arithmetic of utf8_decode ---- *)
Lemma land_shiftl_low a x : x < 64 -> N.land (N.shiftl a 6) x = 0.
Proof.
  intros Hx. apply N.bits_inj_0. intros n. rewrite N.land_spec.
  destruct (N.ltb_spec n 6) as [Hn|Hn].
  - rewrite N.shiftl_spec_low by exact Hn. reflexivity.
  - destruct (N.eq_dec x 0) as [->|Hx0]; [rewrite N.bits_0; apply andb_false_r|].
    rewrite (N.bits_above_log2 x n); [apply andb_false_r|].
    assert (N.log2 x < 6) by (apply N.log2_lt_pow2; [lia| exact Hx]). lia.
Qed.

Lemma lor_shiftl6 a x : x < 64 -> N.lor (N.shiftl a 6) x = a * 64 + x.
Proof.
  intros Hx. rewrite <- N.lxor_lor by (apply land_shiftl_low, Hx).
  rewrite <- N.add_nocarry_lxor by (apply land_shiftl_low, Hx).
  rewrite N.shiftl_mul_pow2. reflexivity.
Qed.

Lemma land_cont_sweep : sweep1 64 (fun x => N.land (128 + x) 63 =? x) = true.
Proof. vm_compute. reflexivity. Qed.
Lemma land_cont x : x < 64 -> N.land (128 + x) 63 = x.
Proof. intros Hx. apply N.eqb_eq. exact (sweep1_sound 64 _ land_cont_sweep x Hx). Qed.

Lemma land_lead4_sweep : sweep1 8 (fun h => N.land (240 + h) 7 =? h) = true.
Proof. vm_compute. reflexivity. Qed.
Lemma land_lead4 h : h < 8 -> N.land (240 + h) 7 = h.
Proof. intros Hh. apply N.eqb_eq. exact (sweep1_sound 8 _ land_lead4_sweep h Hh). Qed.

Lemma utf8_decode_4 h x y z :
  h < 8 -> x < 64 -> y < 64 -> z < 64 ->
  utf8_decode [240 + h; 128 + x; 128 + y; 128 + z] = Some (((h * 64 + x) * 64 + y) * 64 + z).
Proof.
  intros Hh Hx Hy Hz. unfold utf8_decode. cbn [List.length fold_left].
  rewrite land_lead4, !land_cont by assumption. rewrite !lor_shiftl6 by assumption. reflexivity.
Qed.

(* ---- the four-byte path through the automaton ---- *)
Definition path4_check : bool :=
  match cmd_delta cmd_start 240 with
  | Some q5 =>
      negb (cmd_accepting q5)
      && forallb (fun h => match cmd_delta cmd_start (240 + h) with Some q => q =? q5 | None => false end) (nrange 8)
      && match cmd_delta q5 128 with
         | Some q6 =>
             negb (cmd_accepting q6)
             && forallb (fun x => match cmd_delta q5 (128 + x) with Some q => q =? q6 | None => false end) (nrange 64)
             && match cmd_delta q6 128 with
                | Some q7 =>
                    negb (cmd_accepting q7)
                    && forallb (fun x => match cmd_delta q6 (128 + x) with Some q => q =? q7 | None => false end) (nrange 64)
                    && match cmd_delta q7 128 with
                       | Some q8 =>
                           cmd_accepting q8 && tag_is q8 1
                           && forallb (fun x => match cmd_delta q7 (128 + x) with Some q => q =? q8 | None => false end) (nrange 64)
                       | None => false
                       end
                | None => false
                end
         | None => false
         end
  | None => false
  end.
Lemma path4_check_ok : path4_check = true.
Proof. vm_compute. reflexivity. Qed.

Lemma forallb_nrange_delta q n base qt i :
  forallb (fun x => match cmd_delta q (base + x) with Some q' => q' =? qt | None => false end) (nrange n) = true ->
  i < N.of_nat n -> cmd_delta q (base + i) = Some qt.
Proof.
  intros H Hi. rewrite forallb_forall in H. specialize (H i (nrange_In n i Hi)).
  destruct (cmd_delta q (base + i)) as [q'|]; [|discriminate]. apply N.eqb_eq in H. subst. reflexivity.
Qed.

Lemma path4 :
  exists q5 q6 q7 q8,
    cmd_accepting q5 = false /\ cmd_accepting q6 = false /\ cmd_accepting q7 = false
    /\ cmd_accepting q8 = true /\ tag_is q8 1 = true
    /\ (forall h, h < 8 -> cmd_delta cmd_start (240 + h) = Some q5)
    /\ (forall x, x < 64 -> cmd_delta q5 (128 + x) = Some q6)
    /\ (forall x, x < 64 -> cmd_delta q6 (128 + x) = Some q7)
    /\ (forall x, x < 64 -> cmd_delta q7 (128 + x) = Some q8).
Proof.
  pose proof path4_check_ok as H. unfold path4_check in H.
  destruct (cmd_delta cmd_start 240) as [q5|]; [|discriminate].
  rewrite !andb_true_iff in H. destruct H as [[Ha5 H5] H].
  destruct (cmd_delta q5 128) as [q6|]; [|discriminate].
  rewrite !andb_true_iff in H. destruct H as [[Ha6 H6] H].
  destruct (cmd_delta q6 128) as [q7|]; [|discriminate].
  rewrite !andb_true_iff in H. destruct H as [[Ha7 H7] H].
  destruct (cmd_delta q7 128) as [q8|]; [|discriminate].
  rewrite !andb_true_iff in H. destruct H as [[Ha8 Ht8] H8].
  apply negb_true_iff in Ha5, Ha6, Ha7.
  exists q5, q6, q7, q8. repeat (split; [assumption|]).
  split; [intros h Hh; exact (forallb_nrange_delta _ 8 240 q5 h H5 Hh)|].
  split; [intros x Hx; exact (forallb_nrange_delta _ 64 128 q6 x H6 Hx)|].
  split; [intros x Hx; exact (forallb_nrange_delta _ 64 128 q7 x H7 Hx)|].
  intros x Hx; exact (forallb_nrange_delta _ 64 128 q8 x H8 Hx).
Qed.

Lemma decode_item_utf8 q w c :
  tag_is q 1 = true -> utf8_decode w = Some c -> decode_item q w = TItem (CmdChar c).
Proof.
  unfold decode_item, tag_is. intros Ht Hc.
  destruct (cmd_tag q) as [[j|?]|]; try discriminate. apply N.eqb_eq in Ht. subst j. rewrite Hc. reflexivity.
Qed.

Lemma run_char4 c :
  65536 <= c -> c < 1114112 -> run st_init (utf8_encode c) = (st_init, [TItem (CmdChar c)]).
Proof.
  intros Hlo Hhi.
  set (h := c / 262144). set (x := (c / 4096) mod 64). set (y := (c / 64) mod 64). set (z := c mod 64).
  assert (Hh : h < 8) by (unfold h; lia).
  assert (Hx : x < 64) by (unfold x; lia).
  assert (Hy : y < 64) by (unfold y; lia).
  assert (Hz : z < 64) by (unfold z; lia).
  assert (Hc : c = ((h * 64 + x) * 64 + y) * 64 + z) by (unfold h, x, y, z; lia).
  assert (He : utf8_encode c = [240 + h; 128 + x; 128 + y; 128 + z]).
  { unfold utf8_encode.
    replace (c <? 128) with false by (symmetry; apply N.ltb_ge; lia).
    replace (c <? 2048) with false by (symmetry; apply N.ltb_ge; lia).
    replace (c <? 65536) with false by (symmetry; apply N.ltb_ge; lia). reflexivity. }
  rewrite He. destruct path4 as (q5 & q6 & q7 & q8 & Ha5 & Ha6 & Ha7 & Ha8 & Ht8 & H5 & H6 & H7 & H8).
  cbn [run].
  rewrite (bstep_continue st_init (240 + h) q5 st_init_idle (H5 h Hh) Ha5).
  rewrite (bstep_continue (mkst q5 (sbuf st_init ++ [240 + h]) [] None) (128 + x) q6 (conj eq_refl eq_refl) (H6 x Hx) Ha6).
  cbn [sbuf st_init app].
  rewrite (bstep_continue (mkst q6 [240 + h; 128 + x] [] None) (128 + y) q7 (conj eq_refl eq_refl) (H7 y Hy) Ha7).
  cbn [sbuf app].
  rewrite (bstep_accept (mkst q7 [240 + h; 128 + x; 128 + y] [] None) (128 + z) q8 (conj eq_refl eq_refl) (H8 z Hz) Ha8).
  cbn [sbuf app].
  rewrite (decode_item_utf8 q8 _ c Ht8); [reflexivity|].
  rewrite utf8_decode_4 by assumption. rewrite <- Hc. reflexivity.
Qed.

(* every character except ESC *)
Theorem run_char c :
  scalar_ok c = true -> c <> 27 -> run st_init (utf8_encode c) = (st_init, [TItem (CmdChar c)]).
Proof.
  intros Hs Hn. destruct (N.ltb_spec c 65536) as [Hc|Hc].
  - apply char_check_run; [|exact Hs| exact Hn].
    apply (sweep_pow_sound 16 0 char_check char_check_small c); [lia| exact Hc].
  - apply run_char4; [exact Hc|]. unfold scalar_ok in Hs. lia.
Qed.
