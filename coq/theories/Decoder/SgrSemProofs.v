(* sgr_face followed by FaceModify::apply implements the reference SGR machine on every
   well-formed, expressible parameter string (unbounded: induction over the groups). *)
From Coq Require Import List NArith Bool Lia Arith.
From SNT Require Import Base.Sweep Base.Dec10 Base.Dec10Proofs Render.FaceModel Render.FaceModelProofs
  Decoder.Sgr Decoder.SgrRef Decoder.SgrProofs.
Import ListNotations.
Local Open Scope N_scope.

(* ---- the two splitters are the same function ---- *)
Lemma split_bytes_eq sep s : split_bytes sep s = split_on sep s.
Proof.
  induction s as [|b r IH]; cbn [split_bytes split_on]; [reflexivity|].
  rewrite IH. destruct (split_on sep r) eqn:E; [exfalso; eapply split_on_nonempty; exact E|].
  destruct (b =? sep); reflexivity.
Qed.

Definition P (g : list N) : param := map pnum_of (split_on 58 g).

Lemma parse_params_eq s : parse_params s = map P (split_on 59 s).
Proof.
  unfold parse_params, P. rewrite split_bytes_eq. apply map_ext. intros g. rewrite split_bytes_eq. reflexivity.
Qed.

(* ---- pieces ---- *)
Lemma split_on_forall sep (Q : N -> bool) s :
  forallb Q s = true -> Forall (fun p => forallb Q p = true) (split_on sep s).
Proof.
  induction s as [|b r IH]; intros H; cbn [split_on]; [repeat constructor|].
  cbn [forallb] in H. apply andb_true_iff in H. destruct H as [Hb Hr]. specialize (IH Hr).
  destruct (b =? sep); [constructor; [reflexivity| exact IH]|].
  destruct (split_on sep r) as [|g gs]; [repeat constructor; cbn; rewrite Hb; reflexivity|].
  inversion IH; subst. constructor; [cbn; rewrite Hb; assumption | assumption].
Qed.

Lemma split_on_nosep_pieces sep s : Forall (fun p => ~ In sep p) (split_on sep s).
Proof.
  induction s as [|b r IH]; cbn [split_on]; [repeat constructor; intros []|].
  destruct (b =? sep) eqn:E; [constructor; [intros []| exact IH]|].
  destruct (split_on sep r) as [|g gs]; [repeat constructor; intros [H|[]]; subst; rewrite N.eqb_refl in E; discriminate|].
  inversion IH; subst. constructor; [|assumption].
  intros [H|H]; [subst; rewrite N.eqb_refl in E; discriminate | contradiction].
Qed.

Lemma split_on_single sep s p : split_on sep s = [p] -> p = s /\ ~ In sep s.
Proof.
  revert p. induction s as [|b r IH]; intros p H; cbn [split_on] in H.
  - inversion H. split; [reflexivity| intros []].
  - destruct (b =? sep) eqn:E.
    + inversion H as [[H1 H2]]. exfalso. eapply split_on_nonempty; exact H2.
    + destruct (split_on sep r) as [|g gs] eqn:Er; [exfalso; eapply split_on_nonempty; exact Er|].
      inversion H; subst. destruct (IH g eq_refl) as [-> Hn]. split; [reflexivity|].
      intros [Hb|Hin]; [subst; rewrite N.eqb_refl in E; discriminate | contradiction].
Qed.

Definition gbyte (b : N) : bool := is_digit b || (b =? 58).
Definition group_ok (g : list N) : Prop := forallb gbyte g = true.
Definition digits_only (p : list N) : Prop := forallb is_digit p = true.

Lemma pieces_digits g : group_ok g -> Forall digits_only (split_on 58 g).
Proof.
  intros Hg. pose proof (split_on_forall 58 gbyte g Hg) as H1.
  pose proof (split_on_nosep_pieces 58 g) as H2.
  induction (split_on 58 g) as [|p ps IH]; [constructor|].
  inversion H1; inversion H2; subst. constructor; [|apply IH; assumption].
  unfold digits_only. apply forallb_forall. intros b Hb.
  assert (Hq : gbyte b = true).
  { match goal with H : forallb gbyte p = true |- _ => rewrite forallb_forall in H; exact (H b Hb) end. }
  unfold gbyte in Hq. apply orb_true_iff in Hq. destruct Hq as [Hq|Hq]; [exact Hq|].
  apply N.eqb_eq in Hq. subst. contradiction.
Qed.

Lemma groups_ok s : forallb param_byte s = true -> Forall group_ok (split_on 59 s).
Proof.
  intros Hs. pose proof (split_on_forall 59 param_byte s Hs) as H1.
  pose proof (split_on_nosep_pieces 59 s) as H2.
  induction (split_on 59 s) as [|p ps IH]; [constructor|].
  inversion H1; inversion H2; subst. constructor; [|apply IH; assumption].
  unfold group_ok. apply forallb_forall. intros b Hb.
  assert (Hq : param_byte b = true).
  { match goal with H : forallb param_byte p = true |- _ => rewrite forallb_forall in H; exact (H b Hb) end. }
  assert (b <> 59) by (intros ->; contradiction).
  unfold param_byte in Hq. unfold gbyte, is_digit. lia.
Qed.

Lemma nd_digits p : digits_only p -> number_decode p = Some (dec_value p).
Proof. unfold digits_only, number_decode. intros ->. reflexivity. Qed.

Lemma pval_digits p : digits_only p -> pval (pnum_of p) = Some (dec_value p).
Proof.
  unfold digits_only, pnum_of. intros H. destruct p; [reflexivity|]. rewrite H. reflexivity.
Qed.

Lemma P_nonempty g : P g <> [].
Proof. unfold P. pose proof (split_on_nonempty 58 g). destruct (split_on 58 g); [contradiction| discriminate]. Qed.

Lemma P_single g x :
  group_ok g -> P g = [x] -> digits_only g /\ x = pnum_of g /\ split_on 58 g = [g].
Proof.
  unfold P. intros Hg H. destruct (split_on 58 g) as [|p [|q r]] eqn:E; try discriminate.
  destruct (split_on_single _ _ _ E) as [-> _]. inversion H; subst.
  pose proof (pieces_digits g Hg) as Hd. rewrite E in Hd. inversion Hd; subst. auto.
Qed.

(* ---- how the model classifies a parameter without sub-parameters ---- *)
Definition mupd (a : action) (m : face_modify) : face_modify :=
  match a with
  | AReset => fm_reset
  | ABold b => set_bold (Some b) m
  | AItalic b => set_italic (Some b) m
  | ABlink b => set_blink (Some b) m
  | AStrike b => set_strike (Some b) m
  | AUnderline u => set_underline (Some u) m
  | AFg c => set_fg c m
  | ABg c => set_bg c m
  | AReverse _ | ANop | AMalformed => m
  end.

Definition mcls (v : N) : action :=
  if v =? 0 then AReset
  else if v =? 1 then ABold true
  else if v =? 22 then ABold false
  else if v =? 3 then AItalic true
  else if v =? 23 then AItalic false
  else if v =? 4 then AUnderline UStraight
  else if v =? 21 then AUnderline UDouble
  else if v =? 24 then AUnderline UNone
  else if v =? 5 then ABlink true
  else if v =? 25 then ABlink false
  else if v =? 9 then AStrike true
  else if v =? 29 then AStrike false
  else if in_range 30 37 v then AFg (named_color (v - 30))
  else if in_range 90 97 v then AFg (named_color (v - 82))
  else if in_range 40 48 v then ABg (named_color (v - 40))
  else if in_range 100 107 v then ABg (named_color (v - 92))
  else ANop.

Definition mupd_color (v : N) (c : option rgba) (m : face_modify) : face_modify :=
  if v =? 38 then set_fg c m else if v =? 48 then set_bg c m else set_ucolor c m.

Definition sub_style (k : option N) : ustyle :=
  match k with
  | Some k => if k =? 0 then UNone else if k =? 2 then UDouble else if k =? 3 then UCurly
              else if k =? 4 then UDotted else if k =? 5 then UDashed else UStraight
  | None => UStraight
  end.

Lemma colour_code_cases v : is_colour_code v = true -> v = 38 \/ v = 48 \/ v = 58.
Proof. unfold is_colour_code. rewrite !orb_true_iff, !N.eqb_eq. tauto. Qed.

(* characterisations of one loop iteration *)
Lemma step_simple g rest acc v :
  split_on 58 g = [g] -> number_decode g = Some v -> is_colour_code v = false ->
  sgr_step g rest acc = (rest, mupd (mcls v) acc).
Proof.
  intros Hs Hn Hc. unfold sgr_step. rewrite Hs. cbn [tl]. rewrite Hn.
  unfold is_colour_code in Hc. rewrite !orb_false_iff in Hc. destruct Hc as [[H38 H48] H58].
  rewrite H38, H48, H58. unfold mcls.
  repeat match goal with
         | |- context [if ?v =? ?k then _ else _] => destruct (v =? k); [reflexivity|]
         | |- context [if in_range ?a ?b ?v then _ else _] => destruct (in_range a b v); [reflexivity|]
         end.
  reflexivity.
Qed.

Lemma step_colour_semi g rest acc v :
  split_on 58 g = [g] -> number_decode g = Some v -> is_colour_code v = true ->
  sgr_step g rest acc = (snd (sgr_color rest false), mupd_color v (fst (sgr_color rest false)) acc).
Proof.
  intros Hs Hn Hc. unfold sgr_step. rewrite Hs. cbn [tl]. rewrite Hn.
  destruct (sgr_color rest false) as [c gs]. cbn [fst snd].
  destruct (colour_code_cases v Hc) as [ -> | [ -> | -> ] ]; reflexivity.
Qed.

Lemma step_colon_4 g rest acc first a1 args :
  split_on 58 g = first :: a1 :: args -> number_decode first = Some 4 ->
  sgr_step g rest acc = (rest, set_underline (Some (sub_style (number_decode a1))) acc).
Proof.
  intros Hs Hn. unfold sgr_step. rewrite Hs. cbn [tl]. rewrite Hn. reflexivity.
Qed.

Lemma step_colon_colour g rest acc first a1 args v :
  split_on 58 g = first :: a1 :: args -> number_decode first = Some v -> is_colour_code v = true ->
  sgr_step g rest acc = (rest, mupd_color v (fst (sgr_color (a1 :: args) true)) acc).
Proof.
  intros Hs Hn Hc. unfold sgr_step. rewrite Hs. cbn [tl]. rewrite Hn.
  destruct (sgr_color (a1 :: args) true) as [c gs]. cbn [fst snd].
  destruct (colour_code_cases v Hc) as [ -> | [ -> | -> ] ]; reflexivity.
Qed.

(* ---- meaning of the updates ---- *)
Lemma mupd_sem a acc r :
  is_inexpressible a = false -> rapply (mupd a acc) r = act a (rapply acc r).
Proof.
  intros Hx. destruct acc as [rs fg bg ul uc bo it bl st].
  destruct a as [ |b|b|b|b|b|u|c|c| | ]; try discriminate; unfold rapply, mupd, act;
    cbn [set_bold set_italic set_blink set_strike set_underline set_fg set_bg fm_reset
         m_reset m_fg m_bg m_underline m_ucolor m_bold m_italic m_blink m_strike
         r_fg r_bg r_ul r_bold r_italic r_blink r_reverse r_strike or_keep];
    try reflexivity.
  - destruct c as [c|]; [reflexivity| discriminate].
  - destruct c as [c|]; [reflexivity| discriminate].
Qed.

Lemma mupd_color_sem v col acc r :
  is_colour_code v = true ->
  rapply (mupd_color v (Some col) acc) r = act (colour_action v (Some col)) (rapply acc r).
Proof.
  intros Hc. destruct acc as [rs fg bg ul uc bo it bl st].
  destruct (colour_code_cases v Hc) as [ -> | [ -> | -> ] ]; reflexivity.
Qed.

(* ---- tables (re-checked against the regenerated source tables) ---- *)
Definition orgba_eqb := opt_eqb rgba_eqb.
Lemma rgba_eqb_eq x y : rgba_eqb x y = true -> x = y.
Proof.
  destruct x, y. cbn. rewrite !andb_true_iff, !N.eqb_eq. intros [[[-> ->] ->] ->]. reflexivity.
Qed.
Lemma orgba_eqb_eq x y : orgba_eqb x y = true -> x = y.
Proof. destruct x, y; cbn; try discriminate; [intros H; f_equal; apply rgba_eqb_eq, H | reflexivity]. Qed.

Lemma color256_palette_sweep : sweep1 256 (fun i => orgba_eqb (color256 i) (palette256 i)) = true.
Proof. vm_compute. reflexivity. Qed.

Lemma color256_palette i : color256 i = palette256 i.
Proof.
  destruct (N.ltb_spec i 256) as [Hi|Hi].
  - apply orgba_eqb_eq. exact (sweep1_sound 256 _ color256_palette_sweep i Hi).
  - unfold color256, palette256.
    replace (i <? 16) with false by (symmetry; apply N.ltb_ge; lia).
    replace (i <? 232) with false by (symmetry; apply N.ltb_ge; lia).
    replace (i <? 256) with false by (symmetry; apply N.ltb_ge; lia). reflexivity.
Qed.

Lemma named_palette_sweep : sweep1 16 (fun i => orgba_eqb (named_color i) (palette256 i)) = true.
Proof. vm_compute. reflexivity. Qed.

(* the sixteen base colours of the reference are the library's table *)
Theorem ansi16_is_library_table :
  map (fun '(r, g, b) => (r, g, b, 255)) ansi16 = SGR_COLORS.
Proof. reflexivity. Qed.

Definition action_eqb (x y : action) : bool :=
  match x, y with
  | AReset, AReset | ANop, ANop | AMalformed, AMalformed => true
  | ABold a, ABold b | AItalic a, AItalic b | ABlink a, ABlink b
  | AReverse a, AReverse b | AStrike a, AStrike b => Bool.eqb a b
  | AUnderline a, AUnderline b => ustyle_eqb a b
  | AFg a, AFg b | ABg a, ABg b => orgba_eqb a b
  | _, _ => false
  end.
Lemma action_eqb_eq x y : action_eqb x y = true -> x = y.
Proof.
  destruct x, y; cbn; try discriminate; intros H; try reflexivity;
    try (apply eqb_prop in H; subst; reflexivity);
    try (apply orgba_eqb_eq in H; subst; reflexivity).
  destruct u, u0; try discriminate; reflexivity.
Qed.

Definition simple_check (v : N) : bool :=
  is_colour_code v || is_inexpressible (simple_action v) || action_eqb (mcls v) (simple_action v).
Lemma simple_check_sweep : sweep1 128 simple_check = true.
Proof. vm_compute. reflexivity. Qed.

Lemma mcls_simple v :
  is_colour_code v = false -> is_inexpressible (simple_action v) = false -> mcls v = simple_action v.
Proof.
  intros Hc Hx. destruct (N.ltb_spec v 128) as [Hv|Hv].
  - pose proof (sweep1_sound 128 _ simple_check_sweep v Hv) as H. unfold simple_check in H.
    rewrite Hc, Hx in H. cbn [orb] in H. apply action_eqb_eq, H.
  - unfold mcls, simple_action, in_range.
    repeat match goal with
           | |- context [v =? ?k] => replace (v =? k) with false by (symmetry; apply N.eqb_neq; lia)
           | |- context [v <=? ?k] => replace (v <=? k) with false by (symmetry; apply N.leb_gt; lia)
           end.
    rewrite !andb_false_r. reflexivity.
Qed.

(* ---- colour specifications ---- *)
Lemma mk_rgb_direct pr pg pb :
  digits_only pr -> digits_only pg -> digits_only pb ->
  mk_rgb (dec_value pr) (dec_value pg) (dec_value pb) = direct (pnum_of pr) (pnum_of pg) (pnum_of pb).
Proof.
  intros Hr Hg Hb. unfold mk_rgb, direct, channel, channel_u8.
  rewrite !pval_digits by assumption. reflexivity.
Qed.

Lemma colour_action_some v c : is_malformed (colour_action v c) = false -> exists col, c = Some col.
Proof. destruct c as [col|]; [eexists; reflexivity | discriminate]. Qed.

Lemma is_five_val p : digits_only p -> is_five (pnum_of p) = true -> dec_value p = 5.
Proof. intros Hd. unfold is_five. rewrite pval_digits by exact Hd. apply N.eqb_eq. Qed.
Lemma is_two_val p : digits_only p -> is_two (pnum_of p) = true -> dec_value p = 2.
Proof. intros Hd. unfold is_two. rewrite pval_digits by exact Hd. apply N.eqb_eq. Qed.
Lemma is_five_not_two p : is_five p = true -> is_two p = false.
Proof. unfold is_five, is_two. destruct (pval p) as [v|]; [|discriminate]. rewrite N.eqb_eq. intros ->. reflexivity. Qed.

(* semicolon forms: the reference's reading of the parameters after 38 / 48 / 58 is what
   sgr_color takes from the shared iterator *)
Lemma semi_sem v rest a ps' :
  Forall group_ok rest ->
  semicolon_colour v (map P rest) = Some (a, ps') -> is_malformed a = false ->
  exists col rest' pre,
    sgr_color rest false = (Some col, rest') /\ rest = pre ++ rest' /\ pre <> [] /\
    ps' = map P rest' /\ a = colour_action v (Some col).
Proof.
  intros Hok H Hm. destruct rest as [|k more]; [discriminate|]. cbn [map semicolon_colour] in H.
  inversion Hok as [|? ? Hk Hmore]; subst.
  destruct (P k) as [|xk [|? ?]] eqn:Ek; try discriminate.
  destruct (P_single k xk Hk Ek) as (Hdk & -> & _).
  destruct (is_five (pnum_of k)) eqn:E5.
  - destruct more as [|n rest2]; [discriminate|]. cbn [map] in H.
    inversion Hmore as [|? ? Hn Hrest2]; subst.
    destruct (P n) as [|xn [|? ?]] eqn:En; try discriminate.
    destruct (P_single n xn Hn En) as (Hdn & -> & _).
    inversion H; subst. destruct (colour_action_some _ _ Hm) as [col Hcol].
    exists col, rest2, [k; n]. repeat split; try discriminate.
    + unfold sgr_color. cbn [it_next]. rewrite (nd_digits k Hdk), (is_five_val k Hdk E5).
      change (5 =? 5) with true. cbn iota. rewrite (nd_digits n Hdn).
      rewrite color256_palette. unfold indexed in Hcol. rewrite (pval_digits n Hdn) in Hcol.
      rewrite Hcol. reflexivity.
    + rewrite Hcol. reflexivity.
  - destruct (is_two (pnum_of k)) eqn:E2; [|discriminate].
    destruct more as [|r [|g [|b rest4]]]; try discriminate.
    { cbn [map] in H. destruct (P r) as [|? [|? ?]]; discriminate. }
    { cbn [map] in H. destruct (P r) as [|? [|? ?]]; try discriminate. destruct (P g) as [|? [|? ?]]; discriminate. }
    cbn [map] in H.
    inversion Hmore as [|? ? Hr Hm2]; subst. inversion Hm2 as [|? ? Hg Hm3]; subst.
    inversion Hm3 as [|? ? Hb Hrest4]; subst.
    destruct (P r) as [|xr [|? ?]] eqn:Er; try discriminate.
    destruct (P g) as [|xg [|? ?]] eqn:Eg; try discriminate.
    destruct (P b) as [|xb [|? ?]] eqn:Eb; try discriminate.
    destruct (P_single r xr Hr Er) as (Hdr & -> & _).
    destruct (P_single g xg Hg Eg) as (Hdg & -> & _).
    destruct (P_single b xb Hb Eb) as (Hdb & -> & _).
    inversion H; subst. destruct (colour_action_some _ _ Hm) as [col Hcol].
    exists col, rest4, [k; r; g; b]. repeat split; try discriminate.
    + unfold sgr_color. cbn [it_next]. rewrite (nd_digits k Hdk), (is_two_val k Hdk E2).
      change (2 =? 5) with false. change (2 =? 2) with true. cbn iota.
      unfold next_number. cbn [it_next]. rewrite (nd_digits r Hdr), (nd_digits g Hdg), (nd_digits b Hdb).
      rewrite mk_rgb_direct by assumption. rewrite Hcol. reflexivity.
    + rewrite Hcol. reflexivity.
Qed.

(* colon forms *)
Lemma colon_4_sem a1 args :
  Forall digits_only (a1 :: args) ->
  is_malformed (colon_action 4 (map pnum_of (a1 :: args))) = false ->
  colon_action 4 (map pnum_of (a1 :: args)) = AUnderline (sub_style (number_decode a1)).
Proof.
  intros Hd Hm. inversion Hd as [|? ? Hd1 _]; subst.
  unfold colon_action in *. change (4 =? 4) with true in *. cbn iota in *. cbn [map] in *.
  destruct args as [|? ?]; [|destruct (pnum_of a1); discriminate]. cbn [map] in *.
  rewrite (nd_digits a1 Hd1). unfold pnum_of in *.
  destruct a1 as [|d ds]; [discriminate|]. rewrite Hd1 in *.
  set (k := dec_value (d :: ds)) in *. unfold sub_style.
  destruct (k =? 0); [reflexivity|]. destruct (k =? 1) eqn:E1.
  - apply N.eqb_eq in E1. rewrite E1. reflexivity.
  - destruct (k =? 2); [reflexivity|]. destruct (k =? 3); [reflexivity|].
    destruct (k =? 4); [reflexivity|]. destruct (k =? 5); [reflexivity| discriminate].
Qed.

Lemma code_not_4 v : is_colour_code v = true -> v =? 4 = false.
Proof. intros H. destruct (colour_code_cases v H) as [ -> | [ -> | -> ] ]; reflexivity. Qed.

Lemma colon_colour_sem v a1 args :
  is_colour_code v = true -> Forall digits_only (a1 :: args) ->
  is_malformed (colon_action v (map pnum_of (a1 :: args))) = false ->
  exists col, fst (sgr_color (a1 :: args) true) = Some col
              /\ colon_action v (map pnum_of (a1 :: args)) = colour_action v (Some col).
Proof.
  intros Hc Hd Hm. unfold colon_action in *. rewrite (code_not_4 v Hc), Hc in *.
  inversion Hd as [|? ? Hd1 Hdargs]; subst. cbn [map] in *.
  destruct args as [|n args]; [discriminate|]. inversion Hdargs as [|? ? Hdn Hd3]; subst. cbn [map] in *.
  destruct args as [|g args].
  - (* [k; n] *)
    destruct (is_five (pnum_of a1)) eqn:E5; [|discriminate].
    destruct (colour_action_some _ _ Hm) as [col Hcol]. exists col. split; [|rewrite Hcol; reflexivity].
    unfold sgr_color. cbn [it_next]. rewrite (nd_digits a1 Hd1), (is_five_val a1 Hd1 E5).
    change (5 =? 5) with true. cbn iota. rewrite (nd_digits n Hdn), color256_palette.
    unfold indexed in Hcol. rewrite (pval_digits n Hdn) in Hcol. rewrite Hcol. reflexivity.
  - inversion Hd3 as [|? ? Hdg Hd4]; subst. cbn [map] in *.
    destruct args as [|b args]; [discriminate|]. inversion Hd4 as [|? ? Hdb Hd5]; subst. cbn [map] in *.
    destruct args as [|b2 args].
    + (* [k; r; g; b] *)
      destruct (is_two (pnum_of a1)) eqn:E2; [|discriminate].
      destruct (colour_action_some _ _ Hm) as [col Hcol]. exists col. split; [|rewrite Hcol; reflexivity].
      unfold sgr_color. cbn [it_next]. rewrite (nd_digits a1 Hd1), (is_two_val a1 Hd1 E2).
      change (2 =? 5) with false. change (2 =? 2) with true. cbn iota.
      unfold next_number. cbn [it_next]. rewrite (nd_digits n Hdn), (nd_digits g Hdg), (nd_digits b Hdb).
      rewrite mk_rgb_direct by assumption. rewrite Hcol. reflexivity.
    + inversion Hd5 as [|? ? Hdb2 Hd6]; subst. cbn [map] in *.
      destruct args as [|? ?]; [|discriminate].
      (* [k; cs; r; g; b] *)
      destruct (is_two (pnum_of a1)) eqn:E2; [|discriminate].
      rewrite (pval_digits n Hdn) in *.
      destruct (colour_action_some _ _ Hm) as [col Hcol]. exists col. split; [|rewrite Hcol; reflexivity].
      unfold sgr_color. cbn [it_next]. rewrite (nd_digits a1 Hd1), (is_two_val a1 Hd1 E2).
      change (2 =? 5) with false. change (2 =? 2) with true. cbn iota.
      unfold next_number. cbn [it_next]. rewrite (nd_digits n Hdn), (nd_digits g Hdg), (nd_digits b Hdb), (nd_digits b2 Hdb2).
      rewrite mk_rgb_direct by assumption. rewrite Hcol. reflexivity.
Qed.

Lemma colon_action_codes v subs :
  is_malformed (colon_action v subs) = false -> v = 4 \/ is_colour_code v = true.
Proof.
  unfold colon_action. destruct (v =? 4) eqn:E4; [apply N.eqb_eq in E4; auto|].
  destruct (is_colour_code v); [auto| discriminate].
Qed.

Lemma rapply_default r : rapply fm_default r = r.
Proof. destruct r; reflexivity. Qed.

Lemma actions_nil fa : actions fa [] = [].
Proof. destruct fa; reflexivity. Qed.

Lemma Forall_app_r {A} (Q : A -> Prop) a b : Forall Q (a ++ b) -> Forall Q b.
Proof. intros H. apply Forall_app in H. tauto. Qed.

Lemma act_lib_eq a r : is_inexpressible a = false -> act_lib a r = act a r.
Proof. unfold act_lib. intros ->. reflexivity. Qed.

(* the four inexpressible parameters are exactly those the model ignores *)
Definition inexpr_check (v : N) : bool :=
  negb (is_inexpressible (simple_action v)) || is_colour_code v || action_eqb (mcls v) ANop.
Lemma inexpr_check_sweep : sweep1 128 inexpr_check = true.
Proof. vm_compute. reflexivity. Qed.

Lemma simple_lib v acc r :
  is_colour_code v = false ->
  rapply (mupd (mcls v) acc) r = act_lib (simple_action v) (rapply acc r).
Proof.
  intros Hc. destruct (is_inexpressible (simple_action v)) eqn:Hx.
  - unfold act_lib. rewrite Hx.
    assert (Hv : v < 128).
    { destruct (N.ltb_spec v 128) as [Hv|Hv]; [exact Hv|]. exfalso.
      unfold simple_action in Hx.
      repeat match type of Hx with
             | context [v =? ?k] => replace (v =? k) with false in Hx by (symmetry; apply N.eqb_neq; lia)
             | context [v <=? ?k] => replace (v <=? k) with false in Hx by (symmetry; apply N.leb_gt; lia)
             end.
      rewrite !andb_false_r in Hx. discriminate. }
    pose proof (sweep1_sound 128 _ inexpr_check_sweep v Hv) as H. unfold inexpr_check in H.
    rewrite Hx, Hc in H. cbn [negb orb] in H. apply action_eqb_eq in H. rewrite H. reflexivity.
  - rewrite (mcls_simple v Hc Hx), mupd_sem by exact Hx. rewrite act_lib_eq by exact Hx. reflexivity.
Qed.

Lemma colour_action_expressible v c : is_inexpressible (colour_action v c) = false.
Proof.
  unfold colour_action. destruct c as [c|]; [|reflexivity].
  destruct (v =? 38); [reflexivity|]. destruct (v =? 48); reflexivity.
Qed.

Lemma colon_action_expressible v subs : is_inexpressible (colon_action v subs) = false.
Proof.
  unfold colon_action. destruct (v =? 4).
  - destruct subs as [|[k| |] [|? ?]]; try reflexivity.
    repeat match goal with |- context [if ?c then _ else _] => destruct c end; reflexivity.
  - destruct (is_colour_code v); [|reflexivity].
    destruct subs as [|k [|n [|g [|b [|b2 [|? ?]]]]]]; try reflexivity.
    + destruct (is_five k); [apply colour_action_expressible| reflexivity].
    + destruct (is_two k); [apply colour_action_expressible| reflexivity].
    + destruct (is_two k); [|reflexivity]. destruct (pval n); [apply colour_action_expressible| reflexivity].
Qed.

(* ---- the loop ---- *)
Lemma loop_sem : forall n groups acc f fa,
  (length groups <= n)%nat -> (length groups < f)%nat -> (length groups <= fa)%nat ->
  Forall group_ok groups ->
  existsb is_malformed (actions fa (map P groups)) = false ->
  exists m, sgr_loop f groups acc = Some m
            /\ forall r, rapply m r = fold_left (fun r a => act_lib a r) (actions fa (map P groups)) (rapply acc r).
Proof.
  induction n as [|n IH]; intros groups acc f fa Hn Hf Hfa Hok Hmal.
  - destruct groups; [|cbn in Hn; lia]. destruct f; [lia|]. exists acc. rewrite actions_nil. split; reflexivity.
  - destruct groups as [|g rest].
    { destruct f; [lia|]. exists acc. rewrite actions_nil. split; reflexivity. }
    destruct f as [|f]; [lia|]. destruct fa as [|fa]; [cbn in Hfa; lia|].
    cbn [length] in *. inversion Hok as [|? ? Hg Hrest]; subst.
    rewrite sgr_loop_S. cbn [map actions] in *.
    pose proof (pieces_digits g Hg) as Hpieces.
    destruct (P g) as [|x [|s subs]] eqn:EP.
    + exfalso. exact (P_nonempty g EP).
    + (* one parameter, no sub-parameters *)
      destruct (P_single g x Hg EP) as (Hdg & -> & Hsplit).
      rewrite (pval_digits g Hdg) in *. set (v := dec_value g) in *.
      destruct (is_colour_code v) eqn:Ecc.
      * destruct (semicolon_colour v (map P rest)) as [[a ps']|] eqn:Esemi; [|discriminate].
        cbn [existsb] in Hmal. apply orb_false_iff in Hmal.
        destruct Hmal as [Hma Hmal].
        destruct (semi_sem v rest a ps' Hrest Esemi Hma) as (col & rest' & pre & Hcol & Hsplit' & Hpre & -> & ->).
        rewrite (step_colour_semi g rest acc v Hsplit (nd_digits g Hdg) Ecc), Hcol. cbn [fst snd].
        assert (Hlen : (length rest' < length rest)%nat).
        { rewrite Hsplit', app_length. destruct pre; [contradiction| cbn; lia]. }
        destruct (IH rest' (mupd_color v (Some col) acc) f fa) as (m & Hm1 & Hm2); try lia; try assumption.
        { rewrite Hsplit' in Hrest. eapply Forall_app_r, Hrest. }
        exists m. split; [exact Hm1|]. intros r. rewrite Hm2. cbn [fold_left].
        rewrite mupd_color_sem by exact Ecc. rewrite act_lib_eq by apply colour_action_expressible. reflexivity.
      * cbn [existsb] in Hmal. apply orb_false_iff in Hmal.
        destruct Hmal as [Hma Hmal].
        rewrite (step_simple g rest acc v Hsplit (nd_digits g Hdg) Ecc).
        destruct (IH rest (mupd (mcls v) acc) f fa) as (m & Hm1 & Hm2); try lia; try assumption.
        exists m. split; [exact Hm1|]. intros r. rewrite Hm2. cbn [fold_left].
        rewrite simple_lib by exact Ecc. reflexivity.
    + (* sub-parameters *)
      unfold P in EP. destruct (split_on 58 g) as [|first [|a1 args]] eqn:Esplit; try discriminate.
      cbn [map] in EP. inversion EP as [[Hx Hs Hsubs]]. clear EP.
      inversion Hpieces as [|? ? Hdf Hdargs]; subst.
      rewrite (pval_digits first Hdf) in *. set (v := dec_value first) in *.
      change (pnum_of a1 :: map pnum_of args) with (map pnum_of (a1 :: args)) in *.
      cbn [existsb] in Hmal. apply orb_false_iff in Hmal.
      destruct Hmal as [Hma Hmal].
      destruct (colon_action_codes _ _ Hma) as [E4|Ecc].
      * fold v in E4. rewrite E4 in *.
        rewrite (step_colon_4 g rest acc first a1 args Esplit).
        2:{ rewrite (nd_digits first Hdf). fold v. rewrite E4. reflexivity. }
        destruct (IH rest (set_underline (Some (sub_style (number_decode a1))) acc) f fa) as (m & Hm1 & Hm2); try lia; try assumption.
        exists m. split; [exact Hm1|]. intros r. rewrite Hm2. cbn [fold_left].
        rewrite (colon_4_sem a1 args Hdargs Hma).
        change (set_underline (Some (sub_style (number_decode a1))) acc)
          with (mupd (AUnderline (sub_style (number_decode a1))) acc).
        rewrite mupd_sem by reflexivity. rewrite <- (colon_4_sem a1 args Hdargs Hma).
        rewrite act_lib_eq by apply colon_action_expressible. rewrite (colon_4_sem a1 args Hdargs Hma). reflexivity.
      * destruct (colon_colour_sem v a1 args Ecc Hdargs Hma) as (col & Hcol & Hact).
        rewrite (step_colon_colour g rest acc first a1 args v Esplit (nd_digits first Hdf) Ecc), Hcol.
        destruct (IH rest (mupd_color v (Some col) acc) f fa) as (m & Hm1 & Hm2); try lia; try assumption.
        exists m. split; [exact Hm1|]. intros r. rewrite Hm2. cbn [fold_left].
        rewrite Hact, mupd_color_sem by exact Ecc. rewrite act_lib_eq by apply colour_action_expressible. reflexivity.
Qed.

(* sgr_face + the meaning of a modification record = the library's recorded machine, on EVERY
   well-formed parameter string *)
Theorem sgr_face_sem_lib params :
  sgr_wf params = true ->
  exists m, sgr_face params = Some m /\ forall r, rapply m r = ref_sgr_lib params r.
Proof.
  unfold sgr_wf, ref_sgr_lib, sgr_actions, sgr_face.
  rewrite parse_params_eq, map_length. intros Hwf.
  rewrite !andb_true_iff in Hwf. destruct Hwf as [[Hbytes _] Hmal]. apply negb_true_iff in Hmal.
  destruct (loop_sem (length (split_on 59 params)) (split_on 59 params) fm_default
              (S (length (split_on 59 params))) (length (split_on 59 params)))
    as (m & Hm1 & Hm2); try lia; try assumption.
  { apply groups_ok, Hbytes. }
  exists m. split; [exact Hm1|]. intros r. rewrite Hm2, rapply_default. reflexivity.
Qed.

Lemma fold_act_lib_eq l : existsb is_inexpressible l = false ->
  forall r, fold_left (fun r a => act_lib a r) l r = fold_left (fun r a => act a r) l r.
Proof.
  induction l as [|a l IH]; intros H r; [reflexivity|]. cbn [existsb] in H. apply orb_false_iff in H. destruct H as [Ha Hl].
  cbn [fold_left]. rewrite act_lib_eq by exact Ha. apply IH, Hl.
Qed.

Lemma ref_sgr_lib_eq params r : sgr_inexpressible params = false -> ref_sgr_lib params r = ref_sgr params r.
Proof. unfold sgr_inexpressible, ref_sgr_lib, ref_sgr. intros H. apply fold_act_lib_eq, H. Qed.

(* ... and the reference SGR machine itself whenever no inexpressible parameter occurs *)
Theorem sgr_face_sem params :
  sgr_wf params = true -> sgr_inexpressible params = false ->
  exists m, sgr_face params = Some m /\ forall r, rapply m r = ref_sgr params r.
Proof.
  intros Hwf Hx. destruct (sgr_face_sem_lib params Hwf) as (m & Hm & Hsem). exists m. split; [exact Hm|].
  intros r. rewrite Hsem. apply ref_sgr_lib_eq, Hx.
Qed.
