(* C04: SGR mouse, size reports, DA1, bracketed paste, text. *)
From Coq Require Import List NArith ZArith Bool Lia Arith ZifyBool ZifyNat ZifyN.
From SNT Require Import Base.Outcome Base.Sweep Base.Dec10 Base.Dec10Proofs.
From SNT Require Import Automata.DfaData Automata.PatReach Automata.PatReachProofs.
From SNT Require Import Decoder.Sgr Decoder.SgrProofs Decoder.EvModel Decoder.Printer Decoder.EvProd Decoder.EvProofs
  Decoder.EvFamilies Decoder.CmdUtf8Proofs Encoder.FaceEnc.
From SNT Require Import Gen.ProdDFA Gen.C04Keys.
Import ListNotations.
Local Open Scope N_scope.
Ltac Zify.zify_post_hook ::= Z.div_mod_to_equations.

(* ---- SGR mouse: CSI < Cb ; Cx ; Cy M|m ---- *)
Definition pat_mouse : pat :=
  PSeq (PLit [27; 91; 60])
       (PSeq NUM (PSeq (PLit [59]) (PSeq NUM (PSeq (PLit [59]) (PSeq NUM (PSet [(77, 77); (109, 109)])))))).
Lemma check_mouse : family_check event_dfa pat_mouse (fam_good 7) = true.
Proof. vm_compute. reflexivity. Qed.

Definition mname_eqb (a b : mname) : bool :=
  match a, b with
  | MLeft, MLeft | MMiddle, MMiddle | MRight, MRight | MMove, MMove
  | MWheelDown, MWheelDown | MWheelUp, MWheelUp => true
  | _, _ => false
  end.
Lemma mname_eqb_eq a b : mname_eqb a b = true -> a = b.
Proof. destruct a, b; try discriminate; reflexivity. Qed.

(* the code's bit tests against the table of the protocol document, every code 0..255 *)
Definition mouse_code_ok (press : bool) (code : N) : bool :=
  match mouse_fields code press, mouse_name code with
  | Some (n, md), Some m =>
      mname_eqb n m && (md =? (if press then mouse_mods code + MOD_PRESS else mouse_mods code))
  | None, None => true
  | _, _ => false
  end.
Lemma mouse_check_ok : forallb (fun press => sweep1 256 (mouse_code_ok press)) [true; false] = true.
Proof. vm_compute. reflexivity. Qed.

Lemma mouse_fields_spec code press :
  code < 256 ->
  mouse_fields code press
  = match mouse_name code with
    | Some m => Some (m, if press then mouse_mods code + MOD_PRESS else mouse_mods code)
    | None => None
    end.
Proof.
  intros Hc. pose proof mouse_check_ok as H. rewrite forallb_forall in H.
  assert (Hp : In press [true; false]) by (destruct press; cbn; tauto). specialize (H press Hp).
  pose proof (sweep1_sound 256 _ H code Hc) as Hs. unfold mouse_code_ok in Hs.
  destruct (mouse_fields code press) as [[n md]|], (mouse_name code) as [m|]; try discriminate; [|reflexivity].
  apply andb_true_iff in Hs. destruct Hs as [H1 H2]. apply mname_eqb_eq in H1. apply N.eqb_eq in H2. subst. reflexivity.
Qed.

Lemma last_byte_app pre fin : last_byte (pre ++ [fin]) = fin.
Proof. unfold last_byte. apply last_last. Qed.

(* every button code 0..255: a named button gives the mouse event, an unnamed one is not an event *)
Theorem single_mouse code press row col :
  wf decmode_all prod_key_table (RMouse code press row col) = true ->
  single (RMouse code press row col).
Proof.
  cbn [wf]. intros Hwf. rewrite !andb_true_iff in Hwf. destruct Hwf as [[Hcode _] _].
  unfold single, prod_denote, denote. cbn [print].
  set (fin := if press then 77 else 109).
  replace (CSI ++ [60] ++ digits code ++ [59] ++ digits (col + 1) ++ [59] ++ digits (row + 1) ++ [fin])
    with ([27; 91; 60] ++ (digits code ++ [59] ++ digits (col + 1) ++ [59] ++ digits (row + 1)) ++ [fin])
    by list_eq.
  assert (Hm : matches pat_mouse ([27; 91; 60] ++ (digits code ++ [59] ++ digits (col + 1) ++ [59] ++ digits (row + 1)) ++ [fin])).
  { unfold pat_mouse. apply matches_seq_lit. rewrite <- !app_assoc.
    apply MSeq; [apply matches_num|]. apply matches_seq_lit. apply MSeq; [apply matches_num|].
    apply matches_seq_lit. apply MSeq; [apply matches_num|]. apply MSet. unfold fin. destruct press; reflexivity. }
  assert (Hp : ev_payload decmode_codes decstatus_codes 7
                 ([27; 91; 60] ++ (digits code ++ [59] ++ digits (col + 1) ++ [59] ++ digits (row + 1)) ++ [fin])
               = match mouse_name code with
                 | Some m => Some (EMouse m (if press then mouse_mods code + MOD_PRESS else mouse_mods code) row col)
                 | None => None
                 end).
  { payload_unfold. unfold dec_mouse.
    rewrite (sl_mid [27; 91; 60] _ [fin]), numbers3, !checked_dec_succ.
    rewrite app_assoc, last_byte_app.
    replace (fin =? 77) with press by (unfold fin; destruct press; reflexivity).
    rewrite (mouse_fields_spec code press) by lia. destruct (mouse_name code); reflexivity. }
  destruct (mouse_name code) as [m|].
  - eapply (fam_single _ _ _ _ check_mouse); [exact Hm| discriminate| exact Hp].
  - eapply (fam_single_raw _ _ _ check_mouse); [exact Hm| discriminate| exact Hp].
Qed.

(* ---- size: CSI 8 ; h ; w t CSI 4 ; h ; w t ---- *)
Definition pat_size_part (k : N) : pat :=
  PSeq (PLit [27; 91; k; 59]) (PSeq NUM (PSeq (PLit [59]) (PSeq NUM (PLit [116])))).
Definition pat_size : pat := PSeq (pat_size_part 56) (pat_size_part 52).
Lemma check_size : family_check event_dfa pat_size (fam_good 11) = true.
Proof. vm_compute. reflexivity. Qed.

Lemma size_part_no27 k a b : k <> 27 -> ~ In 27 ([91; k; 59] ++ (digits a ++ [59] ++ digits b) ++ [116]).
Proof.
  intros Hk. repeat apply not_in_app; try apply no27; cbn; intuition (try discriminate; try congruence).
Qed.

Theorem single_size ch cw ph pw : single (RSize ch cw ph pw).
Proof.
  unfold single, prod_denote, denote. cbn [print].
  set (A := [91; 56; 59] ++ (digits ch ++ [59] ++ digits cw) ++ [116]).
  set (B := [91; 52; 59] ++ (digits ph ++ [59] ++ digits pw) ++ [116]).
  replace (CSI ++ [56; 59] ++ digits ch ++ [59] ++ digits cw ++ [116]
           ++ CSI ++ [52; 59] ++ digits ph ++ [59] ++ digits pw ++ [116])
    with ([] ++ 27 :: A ++ 27 :: B)
    by (unfold A, B; list_eq).
  fam_tac check_size; [| discriminate |].
  - unfold pat_size, pat_size_part, A, B. cbn [app].
    change (27 :: 91 :: 56 :: 59 :: ((digits ch ++ 59 :: digits cw) ++ [116]) ++ 27 :: 91 :: 52 :: 59 :: (digits ph ++ 59 :: digits pw) ++ [116])
      with (([27; 91; 56; 59] ++ ((digits ch ++ 59 :: digits cw) ++ [116])) ++ ([27; 91; 52; 59] ++ (digits ph ++ 59 :: digits pw) ++ [116])).
    apply MSeq; apply matches_seq_lit; rewrite <- app_assoc;
      (apply MSeq; [apply matches_num|]); change (59 :: ?x) with ([59] ++ x);
      apply (matches_seq_lit [59]); (apply MSeq; [apply matches_num| apply MLit]).
  - payload_unfold. unfold dec_termsize.
    rewrite (split_on_app 27 [] (A ++ 27 :: B)) by (intros []).
    rewrite (split_on_app 27 A B) by (apply size_part_no27; discriminate).
    rewrite (split_on_nosep 27 B) by (apply size_part_no27; discriminate).
    unfold A, B. rewrite !(sl_mid [91; _; 59] _ [116]), !numbers2. reflexivity.
Qed.

(* ---- DA1: CSI ? a1 ; a2 ; .. c ---- *)
Definition pat_da : pat :=
  PSeq (PLit [27; 91; 63]) (PSeq (PPlus (PSeq NUM (POpt (PLit [59])))) (PLit [99])).
Lemma check_da : family_check event_dfa pat_da (fam_good 3) = true.
Proof. vm_compute. reflexivity. Qed.

Lemma join_with_split : forall l, l <> [] ->
  split_on 59 (join_with [59] (map digits l)) = map digits l.
Proof.
  induction l as [|a l IH]; intros Hne; [contradiction|]. destruct l as [|b l].
  - cbn [map join_with]. apply split_on_nosep, no59.
  - change (join_with [59] (map digits (a :: b :: l))) with (digits a ++ [59] ++ join_with [59] (map digits (b :: l))).
    cbn [app]. rewrite split_on_app by apply no59. rewrite IH by discriminate. reflexivity.
Qed.

Lemma filter_map_digits l : filter_map number_decode (map digits l) = l.
Proof. induction l as [|a l IH]; [reflexivity|]. cbn [map filter_map]. rewrite number_decode_digits, IH. reflexivity. Qed.

Lemma plus_star p w : matches (PPlus p) w -> matches (PStar p) w.
Proof. unfold PPlus. intros H. inversion H as [| |a b x y Hx Hy| | | | | |]; subst. apply MStarS; assumption. Qed.

Lemma matches_da_list : forall l, l <> [] ->
  matches (PPlus (PSeq NUM (POpt (PLit [59])))) (join_with [59] (map digits l)).
Proof.
  induction l as [|a l IH]; intros Hne; [contradiction|]. destruct l as [|b l].
  - cbn [map join_with]. rewrite <- (app_nil_r (digits a)). apply MSeq; [|apply MStarN].
    rewrite <- (app_nil_r (digits a)) at 1. apply MSeq; [apply matches_num| apply MOptN].
  - change (join_with [59] (map digits (a :: b :: l))) with (digits a ++ [59] ++ join_with [59] (map digits (b :: l))).
    rewrite app_assoc. specialize (IH ltac:(discriminate)).
    apply MSeq; [apply MSeq; [apply matches_num| apply MOptS, MLit]|]. apply plus_star, IH.
Qed.

Lemma strictly_increasing_cons a l :
  strictly_increasing (a :: l) = true -> (forall y, In y l -> a < y) /\ strictly_increasing l = true.
Proof.
  revert a. induction l as [|b l IH]; intros a H; [split; [intros y []| reflexivity]|].
  change (strictly_increasing (a :: b :: l)) with ((a <? b) && strictly_increasing (b :: l)) in H.
  apply andb_true_iff in H. destruct H as [Hab Hl].
  destruct (IH b Hl) as [Hb Hl']. split; [|exact Hl].
  intros y [->|Hy]; [lia|]. specialize (Hb y Hy). lia.
Qed.

Lemma strictly_increasing_intro a l :
  (forall y, In y l -> a < y) -> strictly_increasing l = true -> strictly_increasing (a :: l) = true.
Proof.
  intros Ha Hl. destruct l as [|b l]; [reflexivity|].
  change (strictly_increasing (a :: b :: l)) with ((a <? b) && strictly_increasing (b :: l)). rewrite Hl.
  assert (a < b) by (apply Ha; left; reflexivity). replace (a <? b) with true by lia. reflexivity.
Qed.

Lemma set_insert_In x l y : In y (set_insert x l) <-> y = x \/ In y l.
Proof.
  induction l as [|z l IH]; cbn [set_insert]; [cbn; intuition|].
  destruct (x <? z) eqn:E1; [cbn; intuition|]. destruct (x =? z) eqn:E2.
  - apply N.eqb_eq in E2. subst. cbn. intuition.
  - cbn [In]. rewrite IH. intuition.
Qed.

Lemma set_insert_sorted x l : strictly_increasing l = true -> strictly_increasing (set_insert x l) = true.
Proof.
  induction l as [|z l IH]; intros H; [reflexivity|]. cbn [set_insert].
  destruct (strictly_increasing_cons z l H) as [Hz Hl].
  destruct (x <? z) eqn:E1.
  - apply strictly_increasing_intro; [|exact H]. intros y [->|Hy]; [lia|]. specialize (Hz y Hy). lia.
  - destruct (x =? z) eqn:E2; [exact H|]. apply strictly_increasing_intro; [|apply IH, Hl].
    intros y Hy. apply set_insert_In in Hy. destruct Hy as [->|Hy]; [lia| apply Hz, Hy].
Qed.

Lemma sorted_unique : forall a b,
  strictly_increasing a = true -> strictly_increasing b = true -> (forall x, In x a <-> In x b) -> a = b.
Proof.
  induction a as [|x a IH]; intros [|y b] Ha Hb H.
  - reflexivity.
  - exfalso. apply (proj2 (H y)). left. reflexivity.
  - exfalso. apply (proj1 (H x)). left. reflexivity.
  - destruct (strictly_increasing_cons x a Ha) as [Hx Ha']. destruct (strictly_increasing_cons y b Hb) as [Hy Hb'].
    assert (x = y).
    { destruct (proj1 (H x) (or_introl eq_refl)) as [E|Hin]; [auto|].
      destruct (proj2 (H y) (or_introl eq_refl)) as [E|Hin2]; [auto|].
      specialize (Hy x Hin). specialize (Hx y Hin2). lia. }
    subst y. f_equal. apply IH; [exact Ha'| exact Hb'|]. intros z. split; intros Hz.
    + destruct (proj1 (H z) (or_intror Hz)) as [E|Hin]; [|exact Hin]. subst z. specialize (Hx x Hz). lia.
    + destruct (proj2 (H z) (or_intror Hz)) as [E|Hin]; [|exact Hin]. subst z. specialize (Hy x Hz). lia.
Qed.

Lemma sd_insert_eq x l : sd_insert x l = set_insert x l.
Proof. induction l as [|y l IH]; [reflexivity|]. cbn [sd_insert set_insert]. rewrite IH. reflexivity. Qed.

Lemma fold_left_insert_spec : forall l acc,
  strictly_increasing acc = true ->
  strictly_increasing (fold_left (fun s x => set_insert x s) l acc) = true
  /\ forall y, In y (fold_left (fun s x => set_insert x s) l acc) <-> In y l \/ In y acc.
Proof.
  induction l as [|a l IH]; intros acc Hacc; cbn [fold_left]; [split; [exact Hacc| cbn; intuition]|].
  destruct (IH (set_insert a acc) (set_insert_sorted a acc Hacc)) as [H1 H2]. split; [exact H1|].
  intros y. rewrite H2, set_insert_In. cbn [In]. intuition.
Qed.

(* the specification: sort_dedup l is THE strictly increasing list with the elements of l *)
Lemma sort_dedup_spec l :
  strictly_increasing (sort_dedup l) = true /\ forall y, In y (sort_dedup l) <-> In y l.
Proof.
  unfold sort_dedup. induction l as [|a l [IH1 IH2]]; [split; [reflexivity| cbn; intuition]|].
  cbn [fold_right]. rewrite sd_insert_eq. split; [apply set_insert_sorted, IH1|].
  intros y. rewrite set_insert_In, IH2. cbn [In]. intuition.
Qed.

Theorem single_da attrs :
  wf decmode_all prod_key_table (RDevAttrs attrs) = true -> single (RDevAttrs attrs).
Proof.
  cbn [wf]. intros Hwf. rewrite !andb_true_iff in Hwf. destruct Hwf as [Hne Hpos].
  assert (Hne' : attrs <> []) by (destruct attrs; [discriminate| discriminate]).
  unfold single, prod_denote, denote. cbn [print].
  replace (CSI ++ [63] ++ join_with [59] (map digits attrs) ++ [99])
    with ([27; 91; 63] ++ join_with [59] (map digits attrs) ++ [99]) by reflexivity.
  fam_tac check_da; [| discriminate |].
  - unfold pat_da. apply matches_seq_lit. apply MSeq; [apply matches_da_list, Hne'| apply MLit].
  - payload_unfold. unfold dec_devattrs. rewrite (sl_mid [27; 91; 63] _ [99]).
    unfold numbers_decode. rewrite join_with_split by exact Hne'. rewrite filter_map_digits.
    assert (Hf : filter (fun v => 0 <? v) attrs = attrs).
    { clear -Hpos. induction attrs as [|a l IH]; [reflexivity|]. cbn [forallb] in Hpos. apply andb_true_iff in Hpos.
      destruct Hpos as [Ha Hl]. apply andb_true_iff in Ha. destruct Ha as [Ha _]. cbn [filter]. rewrite Ha, (IH Hl). reflexivity. }
    rewrite Hf. f_equal. f_equal.
    destruct (fold_left_insert_spec attrs [] eq_refl) as [M1 M2]. destruct (sort_dedup_spec attrs) as [S1 S2].
    apply sorted_unique; [exact M1| exact S1|]. intros x. rewrite M2, S2. cbn [In]. intuition.
Qed.

(* ---- bracketed paste ---- *)
Definition pat_paste : pat :=
  PSeq (PLit [27; 91; 50; 48; 48; 126]) (PSeq (PStar (PSet [(0, 26); (28, 255)])) (PLit [27; 91; 50; 48; 49; 126])).
Lemma check_paste : family_check event_dfa pat_paste (fam_good 13) = true.
Proof. vm_compute. reflexivity. Qed.

Lemma text_in_ranges text :
  forallb text_byte_ok text = true -> forallb (in_ranges [(0, 26); (28, 255)]) text = true.
Proof.
  intros H. apply forallb_forall. intros b Hb. rewrite forallb_forall in H. specialize (H b Hb).
  unfold text_byte_ok in H. unfold in_ranges. cbn. lia.
Qed.

Theorem single_paste text :
  wf decmode_all prod_key_table (RPaste text) = true -> single (RPaste text).
Proof.
  cbn [wf]. intros Hwf. apply andb_true_iff in Hwf. destruct Hwf as [Hu Ht].
  unfold single, prod_denote, denote. cbn [print].
  replace (CSI ++ [50; 48; 48; 126] ++ text ++ CSI ++ [50; 48; 49; 126])
    with ([27; 91; 50; 48; 48; 126] ++ text ++ [27; 91; 50; 48; 49; 126]) by reflexivity.
  fam_tac check_paste; [| discriminate |].
  - unfold pat_paste. apply matches_seq_lit. apply MSeq; [apply matches_star_set, text_in_ranges, Ht| apply MLit].
  - payload_unfold. unfold dec_paste. rewrite (sl_mid [27; 91; 50; 48; 48; 126] _ [27; 91; 50; 48; 49; 126]), Hu. reflexivity.
Qed.

(* ---- text: printable characters as UTF-8 ---- *)
Definition char_entry_ok (c : N) : bool :=
  negb (printable c)
  || match prod_run (utf8_encode c) with
     | Some q =>
         d_accepting event_dfa q && d_terminal event_dfa q
         && match prod_item q (utf8_encode c) with
            | Some (EKey (KChar c') 0) => c' =? c
            | _ => false
            end
     | None => false
     end.
Lemma char_small_ok : sweep_pow 16 0 char_entry_ok = true.
Proof. vm_compute. reflexivity. Qed.

Definition T : pat := PSet [(128, 191)].
Definition pat_char4 : pat := PSeq (PSet [(240, 247)]) (PSeq T (PSeq T T)).
Lemma check_char4 : family_check event_dfa pat_char4 (fam_good 12) = true.
Proof. vm_compute. reflexivity. Qed.

Lemma utf8_code_4 h x y z :
  h < 8 -> x < 64 -> y < 64 -> z < 64 ->
  utf8_code [240 + h; 128 + x; 128 + y; 128 + z] = Some (((h * 64 + x) * 64 + y) * 64 + z).
Proof.
  intros Hh Hx Hy Hz. unfold utf8_code. cbn [length fold_left].
  rewrite land_lead4, !land_cont by assumption. rewrite !lor_shiftl6 by assumption. reflexivity.
Qed.

Theorem single_char c :
  wf decmode_all prod_key_table (RChar c) = true -> single (RChar c).
Proof.
  cbn [wf]. intros Hp. unfold single, prod_denote, denote. cbn [print].
  destruct (N.ltb_spec c 65536) as [Hc|Hc].
  - pose proof (sweep_pow_sound 16 0 char_entry_ok char_small_ok c ltac:(lia) Hc) as H.
    unfold char_entry_ok in H. rewrite Hp in H. cbn [negb orb] in H.
    split; [unfold utf8_encode; repeat match goal with |- context [if ?b then _ else _] => destruct b end; discriminate|].
    destruct (prod_run (utf8_encode c)) as [q|]; [|discriminate].
    rewrite !andb_true_iff in H. destruct H as [[Ha Ht] Hi]. exists q. split; [reflexivity|]. split; [exact Ha|]. split; [exact Ht|].
    destruct (prod_item q (utf8_encode c)) as [[[ | | | | |c'| | | | | | | | | |] m| | | | | | | | | | | | |]|]; try discriminate.
    destruct m; [|discriminate]. apply N.eqb_eq in Hi. subst. reflexivity.
  - assert (Hhi : c < 1114112) by (unfold printable, scalar_ok in Hp; lia).
    set (h := c / 262144). set (x := (c / 4096) mod 64). set (y := (c / 64) mod 64). set (z := c mod 64).
    assert (Hh : h < 8) by (unfold h; lia). assert (Hx : x < 64) by (unfold x; lia).
    assert (Hy : y < 64) by (unfold y; lia). assert (Hz : z < 64) by (unfold z; lia).
    assert (Hcv : c = ((h * 64 + x) * 64 + y) * 64 + z) by (unfold h, x, y, z; lia).
    assert (He : utf8_encode c = [240 + h; 128 + x; 128 + y; 128 + z]).
    { unfold utf8_encode.
      replace (c <? 128) with false by lia. replace (c <? 2048) with false by lia.
      replace (c <? 65536) with false by lia. reflexivity. }
    rewrite He. fam_tac check_char4; [| discriminate |].
    + unfold pat_char4, T. change [240 + h; 128 + x; 128 + y; 128 + z] with ([240 + h] ++ [128 + x] ++ [128 + y] ++ [128 + z]).
      repeat apply MSeq; apply MSet; unfold in_ranges; cbn; lia.
    + payload_unfold. unfold dec_utf8. rewrite utf8_code_4 by assumption. rewrite <- Hcv.
      replace (scalar_ok c) with true; [reflexivity|]. unfold printable in Hp. symmetry. apply andb_true_iff in Hp. destruct Hp as [Hp _]. apply andb_true_iff in Hp. tauto.
Qed.
