(* C04: assembly of the per-family lemmas. *)
From Coq Require Import List NArith Bool Lia Arith.
From SNT Require Import Decoder.SgrRef.
From SNT Require Import Base.Outcome Automata.DfaData Automata.Tokenizer Automata.TokenizerTheorems.
From SNT Require Import Decoder.EvModel Decoder.Printer Decoder.EvProd Decoder.EvProofs Decoder.EvFamilies Decoder.EvFamilies2 Decoder.EvXterm Decoder.EvFaces Decoder.EvColor Decoder.EvKitty Decoder.EvTermcap.
From SNT Require Import Gen.ProdDFA Gen.C04Keys.
Import ListNotations.
Local Open Scope N_scope.

(* every family has its single-report theorem; an SGR sequence denotes a modification record that
   is characterised by its meaning, so it has its own statement (sgr_event_decode) *)
Definition proved_family (r : report) : bool :=
  match r with
  | RSgr _ => false
  | RFaceReport p => negb (sgr_inexpressible p)   (* known finding: 7/27/39/49, see face_report_recorded *)
  | _ => true
  end.

Theorem single_proved r : proved_family r = true -> prod_wf r = true -> single r.
Proof.
  unfold prod_wf. intros Hp Hwf.
  destruct r; try discriminate.
  - cbn [wf] in Hwf. destruct (lit_lookup prod_key_table w) eqn:E; [|discriminate].
    apply single_literal; [rewrite E; discriminate| apply negb_true_iff, Hwf].
  - apply single_xterm, Hwf.
  - apply single_char, Hwf.
  - apply single_kitty, Hwf.
  - apply single_level.
  - apply single_mouse, Hwf.
  - apply single_cursor, Hwf.
  - apply single_size.
  - apply single_decmode, Hwf.
  - apply single_da, Hwf.
  - apply single_kimg, Hwf.
  - apply single_color, Hwf.
  - apply single_tc_ok, Hwf.
  - apply single_tc_fail, Hwf.
  - apply single_paste, Hwf.
  - apply single_facerep; [exact Hwf| apply negb_true_iff, Hp].
Qed.

Theorem single_report r rest :
  proved_family r = true -> prod_wf r = true ->
  prod_decode (print r ++ rest) = (prod_denote r :: fst (prod_decode rest), snd (prod_decode rest)).
Proof. intros Hp Hw. apply decode_single. exact (single_proved r Hp Hw). Qed.

Theorem concat_reports rs rest :
  forallb (fun r => proved_family r && prod_wf r) rs = true ->
  prod_decode (concat (map print rs) ++ rest)
  = (map prod_denote rs ++ fst (prod_decode rest), snd (prod_decode rest)).
Proof.
  intros H. apply decode_reports. apply Forall_forall. intros r Hr. rewrite forallb_forall in H.
  specialize (H r Hr). apply andb_true_iff in H. destruct H. apply single_proved; assumption.
Qed.

(* feeding the real decode loops with any partition of the stream yields munch (C03, instantiated
   at the production automaton and this payload model) *)
Theorem chunking chunks fuel :
  (length (concat chunks) + 3 <= fuel)%nat ->
  exists s',
    feed N tev (d_start event_dfa) (d_delta event_dfa) (d_accepting event_dfa) (d_terminal event_dfa) prod_item
         fuel (init (d_start event_dfa)) chunks
    = Ok (fst (prod_munch (concat chunks)), s')
    /\ sbuf s' = snd (prod_munch (concat chunks)).
Proof.
  intros Hf.
  destruct (feed_munch N tev (d_start event_dfa) (d_delta event_dfa) (d_accepting event_dfa) (d_terminal event_dfa)
              prod_item chunks fuel Hf) as (s' & H1 & H2 & _).
  exists s'. split; assumption.
Qed.

(* the ambiguity the property names: CSI 1 ; n R (n = 2..8) is the modified F3 of the key table *)
Lemma f3_entries :
  forallb (fun n => match lit_lookup prod_key_table [27; 91; 49; 59; 48 + n; 82] with
                    | Some (KF 3, m) => (m =? n - 1) && negb (bare_prefix [27; 91; 49; 59; 48 + n; 82])
                    | _ => false
                    end) [2; 3; 4; 5; 6; 7; 8] = true.
Proof. vm_compute. reflexivity. Qed.

Theorem cpr_vs_f3 n rest :
  2 <= n <= 8 ->
  prod_decode ([27; 91; 49; 59; 48 + n; 82] ++ rest)
  = (EKey (KF 3) (n - 1) :: fst (prod_decode rest), snd (prod_decode rest)).
Proof.
  intros Hn. pose proof f3_entries as H. rewrite forallb_forall in H.
  assert (Hin : In n [2; 3; 4; 5; 6; 7; 8]) by (cbn; lia). specialize (H n Hin). cbv beta in H.
  destruct (lit_lookup prod_key_table [27; 91; 49; 59; 48 + n; 82]) as [[k m]|] eqn:E; [|discriminate].
  destruct k as [ | | | |f| | | | | | | | | | | ]; try discriminate.
  destruct (N.eq_dec f 3) as [->|Hf]; [|destruct f as [|p]; [discriminate|]; repeat (destruct p as [p|p|]; try discriminate); exfalso; apply Hf; reflexivity].
  apply andb_true_iff in H. destruct H as [Hm Hsd]. apply N.eqb_eq in Hm. subst m. apply negb_true_iff in Hsd.
  change ([27; 91; 49; 59; 48 + n; 82] ++ rest) with (print (RLit [27; 91; 49; 59; 48 + n; 82]) ++ rest).
  rewrite (decode_single _ (prod_denote (RLit [27; 91; 49; 59; 48 + n; 82])) rest).
  - unfold prod_denote, denote. rewrite E. reflexivity.
  - apply single_literal; [rewrite E; discriminate| exact Hsd].
Qed.

Theorem xterm_keys_decode k mods alt_form rest :
  wf decmode_all prod_key_table (RXterm k mods alt_form) = true ->
  prod_decode (print (RXterm k mods alt_form) ++ rest) = (EKey k mods :: fst (prod_decode rest), snd (prod_decode rest)).
Proof. intros H. exact (decode_single _ _ rest (single_xterm k mods alt_form H)). Qed.

Theorem sgr_event_decode p rest :
  SgrRef.sgr_wf p = true -> SgrRef.sgr_inexpressible p = false ->
  exists m, prod_decode (print (RSgr p) ++ rest) = (EFaceModify m :: fst (prod_decode rest), snd (prod_decode rest))
            /\ forall r, SgrRef.rapply m r = SgrRef.ref_sgr p r.
Proof.
  intros Hwf Hx. destruct (sgr_event p Hwf Hx) as (m & Hs & Hsem). exists m. split; [apply decode_single, Hs| exact Hsem].
Qed.

(* well-formed reports are self-delimiting: the automaton is in a terminal accepting state after them *)
Theorem wf_self_delimiting r :
  proved_family r = true -> prod_wf r = true -> self_delimiting (print r) = true.
Proof. intros Hp Hw. apply single_self_delimiting, single_proved; assumption. Qed.

(* the face report with inexpressible parameters: exactly the recorded behaviour *)
Theorem face_report_recorded_decode p rest :
  sgr_wf p = true ->
  prod_decode (print (RFaceReport p) ++ rest) = (face_report_recorded p :: fst (prod_decode rest), snd (prod_decode rest)).
Proof. intros Hwf. apply decode_single, single_facerep_lib, Hwf. Qed.

(* the evaluation function of the correspondence file computes the same events as the specification *)
Theorem fast_decode s : prod_decode_fast s = fst (prod_decode s).
Proof.
  unfold prod_decode_fast.
  destruct (chunking [s] (length s + 3)) as (s' & H & _); [cbn [concat]; rewrite app_nil_r; apply Nat.le_refl|].
  cbn [concat] in H. rewrite app_nil_r in H. rewrite H. reflexivity.
Qed.
