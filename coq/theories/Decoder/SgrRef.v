(* Reference SGR state machine, written from the standards, NOT from the code:

     ECMA-48 5th ed. 5.4.2 (parameter strings: parameters separated by ';' 03/11,
       sub-parameters by ':' 03/10, decimal digits, an empty (sub-)parameter
       stands for the default value, 0 for SGR) and 8.3.117 (SGR);
     XTerm Control Sequences, "Character Attributes (SGR)": 0 normal, 1 bold,
       3 italicized, 4 underlined, 5 blink, 7 inverse, 9 crossed-out, 21 doubly
       underlined, 22 normal (neither bold nor faint), 23 not italicized, 24 not
       underlined, 25 steady, 27 positive, 29 not crossed-out, 30-37 / 40-47
       foreground / background, 39 / 49 default colours, 90-97 / 100-107 bright
       colours, 38 / 48 ; 5 ; Ps indexed colour, 38 / 48 ; 2 ; Pr ; Pg ; Pb direct
       colour (exactly three components in the semicolon form), the colon forms
       38:5:Ps, 38:2:Pr:Pg:Pb and 38:2:Pi:Pr:Pg:Pb (ITU T.416, colour-space id
       ignored);
     kitty "Colored and styled underlines": 4:0 none, 4:1 straight, 4:2 double,
       4:3 curly, 4:4 dotted, 4:5 dashed; 58 underline colour (same forms as
       38), 59 default underline colour.

   Each rendition aspect is an independent field; parameters act left to right,
   so later parameters override earlier ones; 0 restores the default rendition.
   The 256-colour palette: 16..231 is the 6x6x6 cube with levels 0, 95, 135, 175,
   215, 255; 232..255 the grey ramp 8 + 10 k.  The sixteen base colours have no
   standard RGB value: `ansi16` is the table the library documents (VGA-style
   values), written out here and compared with the regenerated source table in
   the proofs (ansi16_is_library_table).

   Aspects a terminal cell of this library cannot carry (faint, conceal, rapid
   blink, fonts, overline, underline colour ...) do not appear in `rface`; their
   parameters are parsed (so that they consume exactly what the standard says)
   and change nothing. *)
From Coq Require Import List NArith Bool.
From SNT Require Import Base.Dec10 Render.FaceModel.
Import ListNotations.
Local Open Scope N_scope.

Record rface := mkR {
  r_fg : option rgba;            (* None = default foreground *)
  r_bg : option rgba;
  r_ul : ustyle;
  r_bold : bool;
  r_italic : bool;
  r_blink : bool;
  r_reverse : bool;
  r_strike : bool
}.
Definition rface_default : rface := mkR None None UNone false false false false false.

Definition rface_eqb (x y : rface) : bool :=
  opt_eqb rgba_eqb (r_fg x) (r_fg y) && opt_eqb rgba_eqb (r_bg x) (r_bg y)
  && ustyle_eqb (r_ul x) (r_ul y)
  && Bool.eqb (r_bold x) (r_bold y) && Bool.eqb (r_italic x) (r_italic y)
  && Bool.eqb (r_blink x) (r_blink y) && Bool.eqb (r_reverse x) (r_reverse y)
  && Bool.eqb (r_strike x) (r_strike y).

Inductive action :=
| AReset
| ABold (b : bool) | AItalic (b : bool) | ABlink (b : bool) | AReverse (b : bool) | AStrike (b : bool)
| AUnderline (u : ustyle)
| AFg (c : option rgba) | ABg (c : option rgba)
| ANop
| AMalformed.

Definition act (a : action) (r : rface) : rface :=
  match a with
  | AReset => rface_default
  | ABold b => mkR (r_fg r) (r_bg r) (r_ul r) b (r_italic r) (r_blink r) (r_reverse r) (r_strike r)
  | AItalic b => mkR (r_fg r) (r_bg r) (r_ul r) (r_bold r) b (r_blink r) (r_reverse r) (r_strike r)
  | ABlink b => mkR (r_fg r) (r_bg r) (r_ul r) (r_bold r) (r_italic r) b (r_reverse r) (r_strike r)
  | AReverse b => mkR (r_fg r) (r_bg r) (r_ul r) (r_bold r) (r_italic r) (r_blink r) b (r_strike r)
  | AStrike b => mkR (r_fg r) (r_bg r) (r_ul r) (r_bold r) (r_italic r) (r_blink r) (r_reverse r) b
  | AUnderline u => mkR (r_fg r) (r_bg r) u (r_bold r) (r_italic r) (r_blink r) (r_reverse r) (r_strike r)
  | AFg c => mkR c (r_bg r) (r_ul r) (r_bold r) (r_italic r) (r_blink r) (r_reverse r) (r_strike r)
  | ABg c => mkR (r_fg r) c (r_ul r) (r_bold r) (r_italic r) (r_blink r) (r_reverse r) (r_strike r)
  | ANop | AMalformed => r
  end.

(* ---- palette ---- *)
Definition ansi16 : list (N * N * N) :=
  [ (0, 0, 0); (128, 0, 0); (0, 128, 0); (128, 128, 0); (0, 0, 128); (128, 0, 128); (0, 128, 128); (192, 192, 192);
    (128, 128, 128); (255, 0, 0); (0, 255, 0); (255, 255, 0); (0, 0, 255); (255, 0, 255); (0, 255, 255); (255, 255, 255) ].

Definition cube_level (k : N) : N := if k =? 0 then 0 else 55 + 40 * k.

Definition palette256 (n : N) : option rgba :=
  if n <? 16 then
    match nth_error ansi16 (N.to_nat n) with
    | Some (r, g, b) => Some (RGBA r g b 255)
    | None => None
    end
  else if n <? 232 then
    let k := n - 16 in
    Some (RGBA (cube_level (k / 36)) (cube_level ((k / 6) mod 6)) (cube_level (k mod 6)) 255)
  else if n <? 256 then
    let v := 8 + 10 * (n - 232) in Some (RGBA v v v 255)
  else None.

(* ---- parameter strings ---- *)
Fixpoint split_bytes (sep : N) (s : list N) : list (list N) :=
  match s with
  | [] => [[]]
  | b :: r =>
      match split_bytes sep r with
      | cur :: more => if b =? sep then [] :: cur :: more else (b :: cur) :: more
      | [] => [[b]]
      end
  end.

(* a (sub-)parameter: Some v, empty = default (None), or not a number at all *)
Inductive pnum := PNum (v : N) | PDefault | PBad.

Definition pnum_of (s : list N) : pnum :=
  match s with
  | [] => PDefault
  | _ => if forallb is_digit s then PNum (dec_value s) else PBad
  end.

Definition pval (p : pnum) : option N :=
  match p with PNum v => Some v | PDefault => Some 0 | PBad => None end.

(* one parameter = its sub-parameters *)
Definition param := list pnum.
Definition parse_params (s : list N) : list param :=
  map (fun p => map pnum_of (split_bytes 58 p)) (split_bytes 59 s).

Definition channel (p : pnum) : option N :=
  match pval p with
  | Some v => if v <? 256 then Some v else None
  | None => None
  end.

Definition direct (r g b : pnum) : option rgba :=
  match channel r, channel g, channel b with
  | Some r, Some g, Some b => Some (RGBA r g b 255)
  | _, _, _ => None
  end.

(* which aspect an extended colour parameter (38 / 48 / 58) sets *)
Definition colour_action (code : N) (c : option rgba) : action :=
  match c with
  | None => AMalformed
  | Some c => if code =? 38 then AFg (Some c) else if code =? 48 then ABg (Some c) else ANop
  end.

Definition simple_action (v : N) : action :=
  if v =? 0 then AReset
  else if v =? 1 then ABold true
  else if v =? 3 then AItalic true
  else if v =? 4 then AUnderline UStraight
  else if v =? 5 then ABlink true
  else if v =? 7 then AReverse true
  else if v =? 9 then AStrike true
  else if v =? 21 then AUnderline UDouble
  else if v =? 22 then ABold false
  else if v =? 23 then AItalic false
  else if v =? 24 then AUnderline UNone
  else if v =? 25 then ABlink false
  else if v =? 27 then AReverse false
  else if v =? 29 then AStrike false
  else if (30 <=? v) && (v <=? 37) then AFg (palette256 (v - 30))
  else if v =? 39 then AFg None
  else if (40 <=? v) && (v <=? 47) then ABg (palette256 (v - 40))
  else if v =? 49 then ABg None
  else if (90 <=? v) && (v <=? 97) then AFg (palette256 (v - 90 + 8))
  else if (100 <=? v) && (v <=? 107) then ABg (palette256 (v - 100 + 8))
  else ANop.

Definition is_colour_code (v : N) : bool := (v =? 38) || (v =? 48) || (v =? 58).

Definition single (p : param) : option pnum :=
  match p with [x] => Some x | _ => None end.

Definition indexed (n : pnum) : option rgba :=
  match pval n with Some i => palette256 i | None => None end.

(* the semicolon forms after a colour code:  5 ; n   or   2 ; r ; g ; b  (each a parameter of
   its own, without sub-parameters); returns the action and the parameters that follow *)
Definition is_two (k : pnum) : bool := match pval k with Some v => v =? 2 | None => false end.
Definition is_five (k : pnum) : bool := match pval k with Some v => v =? 5 | None => false end.

Definition semicolon_colour (code : N) (rest : list param) : option (action * list param) :=
  match rest with
  | [k] :: more =>
      if is_five k then
        match more with
        | [n] :: rest2 => Some (colour_action code (indexed n), rest2)
        | _ => None
        end
      else if is_two k then
        match more with
        | [r] :: [g] :: [b] :: rest4 => Some (colour_action code (direct r g b), rest4)
        | _ => None
        end
      else None
  | _ => None
  end.

(* a parameter with sub-parameters: code : sub : sub ... *)
Definition colon_action (code : N) (subs : list pnum) : action :=
  if code =? 4 then
    match subs with
    | [PNum k] =>
        if k =? 0 then AUnderline UNone else if k =? 1 then AUnderline UStraight
        else if k =? 2 then AUnderline UDouble else if k =? 3 then AUnderline UCurly
        else if k =? 4 then AUnderline UDotted else if k =? 5 then AUnderline UDashed
        else AMalformed
    | _ => AMalformed
    end
  else if is_colour_code code then
    match subs with
    | [k; n] => if is_five k then colour_action code (indexed n) else AMalformed
    | [k; r; g; b] => if is_two k then colour_action code (direct r g b) else AMalformed
    | [k; cs; r; g; b] =>
        if is_two k then match pval cs with Some _ => colour_action code (direct r g b) | None => AMalformed end
        else AMalformed
    | _ => AMalformed
    end
  else AMalformed.

(* the actions of a parameter list, left to right; fuel = number of parameters *)
Fixpoint actions (fuel : nat) (ps : list param) : list action :=
  match fuel with
  | O => []
  | S fuel' =>
      match ps with
      | [] => []
      | p :: rest =>
          match p with
          | [] => [AMalformed]
          | [x] =>
              match pval x with
              | None => [AMalformed]
              | Some v =>
                  if is_colour_code v then
                    match semicolon_colour v rest with
                    | Some (a, rest') => a :: actions fuel' rest'
                    | None => [AMalformed]
                    end
                  else simple_action v :: actions fuel' rest
              end
          | x :: subs =>
              (match pval x with
               | None => AMalformed
               | Some v => colon_action v subs
               end) :: actions fuel' rest
          end
      end
  end.

Definition sgr_actions (params : list N) : list action :=
  let ps := parse_params params in actions (length ps) ps.

(* THE reference: the rendition after CSI <params> m *)
Definition ref_sgr (params : list N) (r : rface) : rface :=
  fold_left (fun r a => act a r) (sgr_actions params) r.

(* ---- what a modification record means (face.rs: "Command that modifies current face"):
   reset restores the default rendition first, then every field that is present
   overrides that aspect and every absent field leaves it alone.  Inverse video is not
   part of the record; the underline colour is not part of a cell's rendition. ---- *)
Definition or_keep {A} (x : option A) (old : A) : A := match x with Some v => v | None => old end.
Definition rapply (m : face_modify) (r : rface) : rface :=
  let r := if m_reset m then rface_default else r in
  mkR (match m_fg m with Some c => Some c | None => r_fg r end)
      (match m_bg m with Some c => Some c | None => r_bg r end)
      (or_keep (m_underline m) (r_ul r))
      (or_keep (m_bold m) (r_bold r)) (or_keep (m_italic m) (r_italic r))
      (or_keep (m_blink m) (r_blink r)) (r_reverse r) (or_keep (m_strike m) (r_strike r)).

(* the rendition a Face command asks for, minus what a modification record cannot say *)
Definition expressible (r : rface) : rface :=
  mkR (r_fg r) (r_bg r) (r_ul r) (r_bold r) (r_italic r) (r_blink r) false (r_strike r).

(* ---- domain ---- *)
Definition is_malformed (a : action) : bool := match a with AMalformed => true | _ => false end.

(* every maximal digit run has at most 19 digits (so its value fits usize) *)
Fixpoint short_numbers_from (run : nat) (s : list N) : bool :=
  match s with
  | [] => true
  | b :: r => if is_digit b then Nat.ltb run 19 && short_numbers_from (S run) r
              else short_numbers_from 0 r
  end.
Definition short_numbers (s : list N) : bool := short_numbers_from 0 s.

Definition param_byte (b : N) : bool := (48 <=? b) && (b <=? 59).

(* a well-formed SGR parameter string: digits, ':' and ';' only, numbers that fit a machine
   word, and every parameter is one the standards above define completely *)
Definition sgr_wf (params : list N) : bool :=
  forallb param_byte params && short_numbers params
  && negb (existsb is_malformed (sgr_actions params)).

(* parameters whose effect a FaceModify record cannot express: inverse on/off and
   "default colour" (39 / 49).  Known finding C06-inexpressible. *)
Definition is_inexpressible (a : action) : bool :=
  match a with AReverse _ | AFg None | ABg None => true | _ => false end.
Definition sgr_inexpressible (params : list N) : bool :=
  existsb is_inexpressible (sgr_actions params).

(* ---- the library's recorded behaviour (known finding C06-inexpressible) ----
   The same machine except that the four parameters a FaceModify record cannot express --
   7 / 27 (inverse on / off) and 39 / 49 (default foreground / background) -- change nothing. *)
Definition act_lib (a : action) (r : rface) : rface := if is_inexpressible a then r else act a r.
Definition ref_sgr_lib (params : list N) (r : rface) : rface :=
  fold_left (fun r a => act_lib a r) (sgr_actions params) r.

(* ---- histories: SGR sequences interleaved with text ---- *)
Inductive hitem := HSgr (params : list N) | HText (chars : list N).

Definition rcell := (N * rface)%type.

Definition ref_step (st : rface * list rcell) (h : hitem) : rface * list rcell :=
  let '(r, cells) := st in
  match h with
  | HSgr p => (ref_sgr p r, cells)
  | HText cs => (r, cells ++ map (fun c => (c, r)) cs)
  end.

Definition ref_cells (r0 : rface) (hist : list hitem) : list rcell :=
  snd (fold_left ref_step hist (r0, [])).

Definition ref_step_lib (st : rface * list rcell) (h : hitem) : rface * list rcell :=
  let '(r, cells) := st in
  match h with
  | HSgr p => (ref_sgr_lib p r, cells)
  | HText cs => (r, cells ++ map (fun c => (c, r)) cs)
  end.
Definition ref_cells_lib (r0 : rface) (hist : list hitem) : list rcell :=
  snd (fold_left ref_step_lib hist (r0, [])).

(* what a library face means as a rendition *)
Definition has_flag (attrs flag : N) : bool := negb (N.land attrs flag =? 0).
Definition abs_face (f : face) : rface :=
  mkR (f_fg f) (f_bg f) (fa_underline (f_attrs f))
      (has_flag (f_attrs f) FA_BOLD) (has_flag (f_attrs f) FA_ITALIC) (has_flag (f_attrs f) FA_BLINK)
      (has_flag (f_attrs f) FA_REVERSE) (has_flag (f_attrs f) FA_STRIKE).
