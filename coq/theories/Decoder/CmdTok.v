(* Model of TTYCommandDecoder (src/decoder.rs): the incremental tokeniser
   MatcherDecoder (decode :212-234, decode_byte :250-290, take_candidate :293-300)
   over the crate's own compiled command automaton (Gen/C06CmdDFA.v, regenerated
   from the code on every run), the two payload decoders registered in
   TTY_COMMAND_AUTOMATA (GraphicRenditionMatcher -> FaceModify, UTF8Matcher
   NotEscape -> Char), the Raw fallback of TTYCommandDecoder::decode, and the
   escape-sequence cell writer TTYCellWriter::write (src/render.rs:660-690).

   `rescheduled` is a stack in the code (next byte to re-parse last); here the
   list is kept next-byte-first. *)
From Coq Require Import List NArith Bool String.
From SNT Require Export Gen.C06CmdDFA Decoder.Sgr Encoder.FaceEnc.
Import ListNotations.
Local Open Scope N_scope.

(* ---- the dumped automaton as functions ---- *)
Fixpoint range_lookup (rs : list (N * N * N)) (b : N) : option N :=
  match rs with
  | [] => None
  | (lo, hi, to) :: r => if (lo <=? b) && (b <=? hi) then Some to else range_lookup r b
  end.

Definition cmd_delta (q b : N) : option N :=
  match nth_error cmd_ranges (N.to_nat q) with
  | Some rs => range_lookup rs b
  | None => None
  end.

Definition cmd_info (q : N) : bool * bool * list (N + string) :=
  nth (N.to_nat q) cmd_infos (false, false, []).
Definition cmd_accepting q := fst (fst (cmd_info q)).
Definition cmd_terminal q := snd (fst (cmd_info q)).
Definition cmd_tag q : option (N + string) := hd_error (snd (cmd_info q)).

(* ---- items ---- *)
(* utf8_decode (decoder.rs:1326-1340); the result is the raw code handed to from_u32_unchecked *)
Definition utf8_decode (slice : list N) : option N :=
  match slice with
  | [] => None                                   (* slice[0] panics *)
  | first :: tail =>
      let init :=
        match List.length slice with
        | 1%nat => Some (N.land first 127)
        | 2%nat => Some (N.land first 31)
        | 3%nat => Some (N.land first 15)
        | 4%nat => Some (N.land first 7)
        | _ => None                               (* panic!("invalid code point slice") *)
        end in
      match init with
      | None => None
      | Some code => Some (fold_left (fun code byte => N.lor (N.shiftl code 6) (N.land byte 63)) tail code)
      end
  end.

(* Result<TerminalCommand, buffer>: what MatcherDecoder hands to TTYCommandDecoder *)
Inductive tok := TItem (c : command) | TReject (bs : list N).

(* the event computed in an accepting state (decoder.rs:264-269) for the matchers of
   TTY_COMMAND_AUTOMATA; index 0 = SGR, 1 = UTF-8 (checked against the dump: cmd_matchers_ok) *)
Definition decode_item (q : N) (buf : list N) : tok :=
  match cmd_tag q with
  | Some (inl 0) =>
      match sgr_face (sgr_payload buf) with
      | Some m => TItem (CmdFaceModify m)
      | None => TReject buf
      end
  | Some (inl 1) =>
      match utf8_decode buf with
      | Some c => TItem (CmdChar c)
      | None => TReject buf
      end
  | _ => TReject buf
  end.

Record st := mkst {
  sq : N;                         (* automata_state *)
  sbuf : list N;                  (* buffer *)
  sres : list N;                  (* rescheduled, next byte first *)
  scand : option (tok * nat)      (* item_candidate *)
}.
Definition st_init : st := mkst cmd_start [] [] None.

Definition take_candidate (s : st) : option (tok * st) :=
  match scand s with
  | None => None
  | Some (t, n) => Some (t, mkst cmd_start [] (skipn n (sbuf s) ++ sres s) None)
  end.

Definition decode_byte (s : st) (b : N) : st * option tok :=
  let buf' := sbuf s ++ [b] in
  match cmd_delta (sq s) b with
  | Some q' =>
      if cmd_accepting q' then
        let s1 := mkst q' buf' (sres s) (Some (decode_item q' buf', List.length buf')) in
        if cmd_terminal q' then
          match take_candidate s1 with
          | Some (t, s2) => (s2, Some t)
          | None => (s1, None)
          end
        else (s1, None)
      else (mkst q' buf' (sres s) (scand s), None)
  | None =>
      let s1 := mkst (sq s) buf' (sres s) (scand s) in
      match take_candidate s1 with
      | Some (t, s2) => (s2, Some t)
      | None =>
          if Nat.ltb 1 (List.length buf')
          then (mkst cmd_start [] (b :: sres s) None, Some (TReject (sbuf s)))
          else (mkst cmd_start [] (sres s) None, Some (TReject buf'))
      end
  end.

(* `while let Some(byte) = self.rescheduled.pop()`; fuel = bytes that can be popped before an
   item appears (the stack only grows when an item is returned) *)
Fixpoint drain (fuel : nat) (s : st) : option (st * option tok) :=
  match fuel with
  | O => None
  | S fuel' =>
      match sres s with
      | [] => Some (s, None)
      | b :: r =>
          let '(s', o) := decode_byte (mkst (sq s) (sbuf s) r (scand s)) b in
          match o with
          | Some t => Some (s', Some t)
          | None => drain fuel' s'
          end
      end
  end.

Fixpoint scan_input (s : st) (input : list N) : st * option tok * list N :=
  match input with
  | [] => (s, None, [])
  | b :: r =>
      let '(s', o) := decode_byte s b in
      match o with
      | Some t => (s', Some t, r)
      | None => scan_input s' r
      end
  end.

(* MatcherDecoder::decode, one call; None = out of fuel *)
Definition tok_decode (s : st) (input : list N) : option (st * option tok * list N) :=
  match drain (S (List.length (sres s))) s with
  | None => None
  | Some (s1, Some t) => Some (s1, Some t, input)
  | Some (s1, None) => Some (scan_input s1 input)
  end.

(* TTYCommandDecoder::decode: Ok(item) -> item; reject -> None if empty else Raw *)
Definition cmd_of_tok (t : tok) : option command :=
  match t with
  | TItem c => Some c
  | TReject [] => None
  | TReject bs => Some (CmdRaw bs)
  end.

(* Decoder::decode_into / the `while let Some(cmd) = decoder.decode(&mut cur)` loop of
   TTYCellWriter::write over one buffer.  Note that an empty reject ends the loop
   (`decode` returns Ok(None)).  Returns the commands and the decoder state. *)
Fixpoint decode_into (fuel : nat) (s : st) (input : list N) : option (list command * st) :=
  match fuel with
  | O => None
  | S fuel' =>
      match tok_decode s input with
      | None => None
      | Some (s1, None, _) => Some ([], s1)
      | Some (s1, Some t, rest) =>
          match cmd_of_tok t with
          | None => Some ([], s1)
          | Some c =>
              match decode_into fuel' s1 rest with
              | None => None
              | Some (cs, s2) => Some (c :: cs, s2)
              end
          end
      end
  end.

Definition fuel_for (s : st) (input : list N) : nat :=
  (2 * (List.length (sbuf s) + List.length (sres s) + List.length input) + 4)%nat.

(* one decode_into per chunk, decoder state kept across chunks *)
Fixpoint decode_chunks (s : st) (chunks : list (list N)) : option (list command * st) :=
  match chunks with
  | [] => Some ([], s)
  | c :: cs =>
      match decode_into (fuel_for s c) s c with
      | None => None
      | Some (l1, s1) =>
          match decode_chunks s1 cs with
          | None => None
          | Some (l2, s2) => Some (l1 ++ l2, s2)
          end
      end
  end.

Definition cmd_decode (bytes : list N) : option (list command) :=
  option_map fst (decode_chunks st_init [bytes]).

(* ---- TTYCellWriter ---- *)
(* a recording CellWrite: current face and the cells put so far (character, face) *)
Definition cell := (N * face)%type.

Definition writer_step (st : face * list cell) (c : command) : face * list cell :=
  let '(cur, cells) := st in
  match c with
  | CmdChar ch => (cur, cells ++ [(ch, cur)])                 (* put_char: Cell::new_char(self.face(), c) *)
  | CmdFaceModify m => (fm_apply m cur, cells)                (* set_face(face_modify.apply(self.face())) *)
  | _ => (cur, cells)
  end.

(* write() once per chunk on a fresh tty_writer over a recorder whose face is `f0` *)
Definition tty_write_chunks (f0 : face) (chunks : list (list N)) : option (list cell) :=
  match decode_chunks st_init chunks with
  | None => None
  | Some (cmds, _) => Some (snd (fold_left writer_step cmds (f0, [])))
  end.
