(* SPECIFICATION side of C04: an independent protocol printer.  `print r` is the byte sequence
   a terminal sends for report `r`, `denote r` the event those bytes denote.  Written from the
   protocol documents, NOT from the decoder:

     ECMA-48 / DEC STD 070: CSI Pr ; Pc R (CPR), CSI ? Pd ; Ps $ y (DECRPM), CSI ? Ps ; .. c (DA1),
       DCS 1 $ r Pt ST (DECRPSS), bracketed paste CSI 200 ~ .. CSI 201 ~
     xterm ctlseqs: CSI 8 ; h ; w t / CSI 4 ; h ; w t (XTWINOPS replies), SGR mouse
       CSI < Cb ; Cx ; Cy M|m with Cb = button + 4 shift + 8 meta + 16 ctrl + 32 motion + 64 wheel,
       OSC 4 ; c ; spec ST|BEL, OSC 10|11 ; spec ST|BEL with XParseColor specs
       rgb:h/h/h .. rgb:hhhh/hhhh/hhhh (scaled) and #rrggbb, XTGETTCAP DCS 1 + r hex=hex ;.. ST
       and DCS 0 + r hex ST
     kitty keyboard protocol: CSI code u, CSI code ; 1+mods u, CSI ? flags u; functional key
       numbers 27 13 9 127, F13..F35 = 57376..57398; modifier bits shift 1 alt 2 ctrl 4 super 8
       hyper 16 meta 32 caps_lock 64 num_lock 128
     kitty graphics protocol: APC G i=<id>[,p=<placement>] ; OK|<message> ST
     UTF-8 (RFC 3629) for text

   Only NAMES come from the library (as the property prescribes): which key a literal
   sequence of the xterm / fixterms table denotes (`RLit`, the table is read from the compiled
   automaton), which mouse button codes are called wheel up / down (`mouse_code`), and the
   numeric DEC mode codes the library knows (`decmode_all`).

   `wf r` bounds the parameters; `print` is total on well-formed reports. *)
From Coq Require Import List NArith Bool String.
From SNT Require Import Base.Dec10 Render.FaceModel Encoder.FaceEnc Decoder.SgrRef Decoder.EvModel.
Import ListNotations.
Local Open Scope N_scope.

Inductive osc_end := EndST | EndBEL.
(* how a colour channel is written: rgb: with 1..4 hex digits per channel, or #rrggbb *)
Inductive cform := Rgb1 | Rgb2 | Rgb3 | Rgb4 | Hash2.

Inductive report :=
| RLit (w : list N)                                    (* a sequence of the literal key table *)
| RXterm (k : kname) (mods : N) (alt_form : bool)      (* a key in the xterm PC-style / VT220-style encoding *)
| RChar (c : N)                                        (* a printable character typed *)
| RKittyKey (k : kname) (mods : N) (alts : list (option N))   (* alternate key codes (shifted : base layout), possibly empty *)
| RKeyLevel (flags : N)
| RMouse (code : N) (press : bool) (row col : N)         (* SGR mouse report with the raw button code Cb *)
| RCursor (row col : N)
| RSize (ch cw ph pw : N)
| RDecMode (mode status : N)
| RDevAttrs (attrs : list N)
| RKittyImage (id : N) (placement : option N) (error : option (list N))
| RColor (name : tcolor) (r g b : N) (form : cform) (upper : bool) (e : osc_end)   (* channels as transmitted: 4 / 8 / 12 / 16 bits *)
| RTermcapOk (caps : list (list N * list N)) (upper : bool)
| RTermcapFail (names : list (list N)) (upper : bool)
| RPaste (text : list N)
| RSgr (params : list N)                               (* CSI params m *)
| RFaceReport (params : list N).                       (* DECRPSS reply to DECRQSS m: DCS 1 $ r params m ST *)

Definition CSI : list N := [27; 91].
Definition ST : list N := [27; 92].

Fixpoint join_with (sep : list N) (parts : list (list N)) : list N :=
  match parts with
  | [] => []
  | [p] => p
  | p :: r => p ++ sep ++ join_with sep r
  end.

Definition hex_digit (upper : bool) (v : N) : N :=
  if v <? 10 then 48 + v else (if upper then 65 else 97) + (v - 10).
Definition hex2 (upper : bool) (b : N) : list N := [hex_digit upper (b / 16); hex_digit upper (b mod 16)].
Definition hex_string (upper : bool) (s : list N) : list N := flat_map (hex2 upper) s.

(* kitty functional key numbers *)
Definition kitty_code (k : kname) : option N :=
  match k with
  | KEsc => Some 27 | KEnter => Some 13 | KTab => Some 9 | KBackspace => Some 127
  | KF n => if (13 <=? n) && (n <=? 35) then Some (57376 + (n - 13)) else None
  | KChar c => Some c
  | _ => None
  end.

(* xterm ctlseqs, "Extended coordinates" (SGR 1006): Cb = button + 4 shift + 8 meta + 16 control
   + 32 motion; button: 0 MB1, 1 MB2, 2 MB3, 3 none (motion with no button down); + 64 for buttons
   4..7 (64 / 65 wheel, 66 / 67 horizontal wheel); + 128 for buttons 8..11.
   NAMES are the library's: 0 left, 1 middle, 2 right, 3 move, 64 "wheel down", 65 "wheel up";
   the horizontal wheel and buttons 8..11 have no name in the library, such a report denotes no
   named button.  (The library's Mouse event has no field for the motion flag: a drag report and a
   click report of the same button denote the same event.) *)
Definition mouse_name (code : N) : option mname :=
  if 128 <=? code then None
  else
    let b := code mod 4 in
    if 64 <=? code then (if b =? 0 then Some MWheelDown else if b =? 1 then Some MWheelUp else None)
    else Some (if b =? 0 then MLeft else if b =? 1 then MMiddle else if b =? 2 then MRight else MMove).
Definition mouse_mods (code : N) : N := (code / 4) mod 8.

(* XParseColor: rgb:<r>/<g>/<b> with 1..4 hex digits per channel, "scaled": an n-digit value h
   stands for the 16-bit intensity h * 65535 / (16^n - 1); #rrggbb gives 8 bits per channel.  The
   library's colours have 8 bits per channel: the most significant byte of the 16-bit intensity
   (what an X server does for 8-bit visuals). *)
Definition chan_digits (form : cform) : nat :=
  match form with Rgb1 => 1 | Rgb2 | Hash2 => 2 | Rgb3 => 3 | Rgb4 => 4 end%nat.
Definition chan_bound (form : cform) : N := 16 ^ N.of_nat (chan_digits form).
Definition scale8 (form : cform) (v : N) : N := (v * 65535 / (chan_bound form - 1)) / 256.

Fixpoint hex_n (upper : bool) (n : nat) (v : N) : list N :=
  match n with
  | O => []
  | S k => hex_n upper k (v / 16) ++ [hex_digit upper (v mod 16)]
  end.
Definition chan (form : cform) (upper : bool) (v : N) : list N := hex_n upper (chan_digits form) v.

Definition color_spec (r g b : N) (form : cform) (upper : bool) : list N :=
  match form with
  | Hash2 => [35] ++ chan form upper r ++ chan form upper g ++ chan form upper b
  | _ => [114; 103; 98; 58] ++ chan form upper r ++ [47] ++ chan form upper g ++ [47] ++ chan form upper b
  end.

(* xterm ctlseqs, "PC-Style Function Keys" and "VT220-Style Function Keys": cursor keys CSI A..D,
   Home / End CSI H / F, F1..F4 SS3 P..S, the `~` keys CSI n ~ (1 Home, 2 Insert, 3 Delete, 4 End,
   5 PageUp, 6 PageDown, 11..15 F1..F5, 17..21 F6..F10, 23 24 F11 F12); a modified key inserts the
   parameter 1 + mask: CSI 1 ; m X and CSI n ; m ~.  The mask is xterm's shift 1, alt 2, ctrl 4,
   meta 8 (parameters 2..16) and, in the same forms, the kitty protocol's 8-bit mask (super 8,
   hyper 16, meta 32, caps_lock 64, num_lock 128): every mask below 256 is a legitimate report.
   Alt sends ESC before the character, Ctrl+letter sends the letter's control code, DEL is backspace. *)
Definition final_byte (k : kname) : option N :=
  match k with
  | KUp => Some 65 | KDown => Some 66 | KRight => Some 67 | KLeft => Some 68 | KEnd => Some 70 | KHome => Some 72
  | KF n => if (1 <=? n) && (n <=? 4) then Some (79 + n) else None
  | _ => None
  end.
Definition tilde_code (k : kname) (alt_form : bool) : option N :=
  match k with
  | KInsert => Some 2 | KDelete => Some 3 | KPageUp => Some 5 | KPageDown => Some 6
  | KHome => if alt_form then Some 1 else None
  | KEnd => if alt_form then Some 4 else None
  | KF n => if (1 <=? n) && (n <=? 5) then (if (n <=? 4) && negb alt_form then None else Some (10 + n))
            else if (6 <=? n) && (n <=? 10) then Some (11 + n)
            else if (11 <=? n) && (n <=? 12) then Some (12 + n)
            else None
  | _ => None
  end.
(* `alt_form`: the VT220-style `~` encoding of Home / End / F1..F4 instead of the final-byte one *)
Definition xterm_seq (k : kname) (mods : N) (alt_form : bool) : option (list N) :=
  if 256 <=? mods then None
  else
    match k with
    | KBackspace => if mods =? 0 then Some [127] else None
    | KChar c =>
        (* Alt + printable ASCII other than upper case: ESC c (not ESC [ ] _ : introducers) *)
        if (mods =? 2) && (33 <=? c) && (c <=? 126) && negb ((65 <=? c) && (c <=? 90))
           && negb ((c =? 91) || (c =? 93) || (c =? 95)) then Some [27; c]
        (* Alt + Shift + letter: ESC and the upper case letter (not ESC O, ESC P: introducers) *)
        else if (mods =? 3) && (97 <=? c) && (c <=? 122) && negb ((c =? 111) || (c =? 112)) then Some [27; c - 32]
        (* Ctrl + letter / Ctrl + space: the control code *)
        else if (mods =? 4) && (97 <=? c) && (c <=? 122) then Some [c - 96]
        else if (mods =? 4) && (c =? 32) then Some [0]
        else None
    | _ =>
        match (if alt_form then None else final_byte k), tilde_code k alt_form with
        | Some f, _ =>
            if mods =? 0 then Some ([27; if (80 <=? f) && (f <=? 83) then 79 else 91] ++ [f])
            (* CSI 1 ; n R is also the cursor position report of row 1, column n.  The property resolves
               n = 2..8 (the classic shift / alt / ctrl masks) for the key; for larger n the sequence is
               taken as the report (RCursor), so F3 with a mask >= 8 has no PC-style encoding here
               (it has the VT220-style one, CSI 13 ; m ~) *)
            else if (f =? 82) && (8 <=? mods) then None
            else Some ([27; 91; 49; 59] ++ digits (mods + 1) ++ [f])
        | None, Some n =>
            if mods =? 0 then Some ([27; 91] ++ digits n ++ [126])
            else Some ([27; 91] ++ digits n ++ [59] ++ digits (mods + 1) ++ [126])
        | None, None => None
        end
    end.

(* kitty "report alternate keys": CSI unicode-key-code:shifted-key:base-layout-key ; modifiers u,
   either alternate may be empty.  (Event types `modifiers:event` and the text field are sent only
   under progressive-enhancement flags 2 and 16, which the library does not request.) *)
Definition kitty_alts (alts : list (option N)) : list N :=
  flat_map (fun a => 58 :: match a with Some x => digits x | None => [] end) alts.

Definition print (r : report) : list N :=
  match r with
  | RLit w => w
  | RXterm k mods alt_form => match xterm_seq k mods alt_form with Some w => w | None => [] end
  | RChar c => utf8_encode c
  | RKittyKey k mods alts =>
      match kitty_code k with
      | Some code => CSI ++ (digits code ++ kitty_alts alts) ++ (if mods =? 0 then [] else [59] ++ digits (mods + 1)) ++ [117]
      | None => []
      end
  | RKeyLevel flags => CSI ++ [63] ++ digits flags ++ [117]
  | RMouse code press row col =>
      CSI ++ [60] ++ digits code ++ [59] ++ digits (col + 1) ++ [59] ++ digits (row + 1) ++ [if press then 77 else 109]
  | RCursor row col => CSI ++ digits (row + 1) ++ [59] ++ digits (col + 1) ++ [82]
  | RSize ch cw ph pw =>
      CSI ++ [56; 59] ++ digits ch ++ [59] ++ digits cw ++ [116]
      ++ CSI ++ [52; 59] ++ digits ph ++ [59] ++ digits pw ++ [116]
  | RDecMode mode status => CSI ++ [63] ++ digits mode ++ [59] ++ digits status ++ [36; 121]
  | RDevAttrs attrs => CSI ++ [63] ++ join_with [59] (map digits attrs) ++ [99]
  | RKittyImage id placement error =>
      [27; 95; 71] ++ [105; 61] ++ digits id
      ++ (match placement with Some p => [44; 112; 61] ++ digits p | None => [] end)
      ++ [59] ++ (match error with None => [79; 75] | Some msg => msg end) ++ ST
  | RColor name r g b form upper e =>
      [27; 93]
      ++ (match name with TFg => [49; 48] | TBg => [49; 49] | TPalette i => [52; 59] ++ digits i end)
      ++ [59] ++ color_spec r g b form upper ++ (match e with EndST => ST | EndBEL => [7] end)
  | RTermcapOk caps upper =>
      [27; 80; 49; 43; 114]
      ++ join_with [59] (map (fun kv => hex_string upper (fst kv) ++ [61] ++ hex_string upper (snd kv)) caps) ++ ST
  | RTermcapFail names upper =>
      [27; 80; 48; 43; 114] ++ join_with [59] (map (hex_string upper) names) ++ ST
  | RPaste text => CSI ++ [50; 48; 48; 126] ++ text ++ CSI ++ [50; 48; 49; 126]
  | RSgr params => CSI ++ params ++ [109]
  | RFaceReport params => [27; 80; 49; 36; 114] ++ params ++ [109] ++ ST
  end.

Fixpoint lit_lookup (tab : list (list N * (kname * N))) (w : list N) : option (kname * N) :=
  match tab with
  | [] => None
  | (w', k) :: r => if bytes_eqb w' w then Some k else lit_lookup r w
  end.

(* a rendition as the library's Face value: packed underline style + flag bits (constants of
   src/face.rs, regenerated) *)
Definition face_of_rface (r : rface) : face :=
  mkFace (r_fg r) (r_bg r)
         (ustyle_bits (r_ul r)
          + (if r_bold r then FA_BOLD else 0) + (if r_italic r then FA_ITALIC else 0)
          + (if r_blink r then FA_BLINK else 0) + (if r_reverse r then FA_REVERSE else 0)
          + (if r_strike r then FA_STRIKE else 0)).

(* DA1 carries a SET of attributes (the event holds a BTreeSet): the attributes in increasing
   order without repetition, whatever order the terminal sent them in (VT220: class first) *)
Fixpoint sd_insert (x : N) (l : list N) : list N :=
  match l with
  | [] => [x]
  | y :: r => if x <? y then x :: l else if x =? y then l else y :: sd_insert x r
  end.
Definition sort_dedup (l : list N) : list N := fold_right sd_insert [] l.

(* `tab`: the library's naming table for literal sequences *)
Definition denote (tab : list (list N * (kname * N))) (r : report) : tev :=
  match r with
  | RLit w => match lit_lookup tab w with Some (k, mods) => EKey k mods | None => ERaw w end
  | RXterm k mods _ => EKey k mods
  | RChar c => EKey (KChar c) 0
  | RKittyKey k mods _ => EKey k mods
  | RKeyLevel flags => EKeyLevel flags
  | RMouse code press row col =>
      match mouse_name code with
      | Some m => EMouse m (if press then mouse_mods code + MOD_PRESS else mouse_mods code) row col
      | None => ERaw (print r)          (* no named button: the bytes are not an event of the library *)
      end
  | RCursor row col => ECursor row col
  | RSize ch cw ph pw => ESize ch cw ph pw
  | RDecMode mode status => EDecMode mode status
  | RDevAttrs attrs => EDevAttrs (sort_dedup attrs)
  | RKittyImage id placement error => EKittyImage id placement error
  | RColor name r g b form _ _ => EColor name (RGBA (scale8 form r) (scale8 form g) (scale8 form b) 255)
  | RTermcapOk caps _ => ETermcap (map (fun kv => (fst kv, Some (snd kv))) caps)
  | RTermcapFail names _ => ETermcap (map (fun k => (k, None)) names)
  | RPaste text => EPaste text
  | RSgr _ => ERaw []      (* a modification record is compared by its meaning: see sgr_event_ok *)
  | RFaceReport params => EFaceGet (face_of_rface (ref_sgr params rface_default))
  end.

(* DEC private modes the library names, with the numbers of xterm ctlseqs "DEC Private Mode Set
   (DECSET)" / the synchronized-output specification, and the DECRPM status values (DEC STD 070:
   0 not recognized, 1 set, 2 reset, 3 permanently set, 4 permanently reset) *)
Definition xterm_decmodes : list (string * N) :=
  [("AutoWrap", 7);              (* DECAWM *)
   ("VisibleCursor", 25);        (* DECTCEM *)
   ("SixelScrolling", 80);       (* DECSDM *)
   ("MouseReport", 1000);        (* send mouse X & Y on button press and release *)
   ("MouseMotions", 1003);       (* all-motion mouse tracking *)
   ("MouseSGR", 1006);           (* SGR mouse mode *)
   ("AltScreen", 1049);          (* save cursor, switch to the alternate screen buffer *)
   ("BracketedPaste", 2004);     (* bracketed paste mode *)
   ("SynchronizedOutput", 2026)  (* synchronized output *)
  ]%string.
Definition decrpm_statuses : list (string * N) :=
  [("NotRecognized", 0); ("Enabled", 1); ("Disabled", 2); ("PermanentlyEnabled", 3); ("PermanentlyDisabled", 4)]%string.

Definition named_eqb (a b : string * N) : bool := String.eqb (fst a) (fst b) && (snd a =? snd b).
(* every variant of the library's enum carries the documented number of its name, and every
   documented mode is a variant *)
Definition named_tables_agree (lib doc : list (string * N)) : bool :=
  forallb (fun e => existsb (named_eqb e) doc) lib && forallb (fun e => existsb (named_eqb e) lib) doc.

(* ---- well-formedness ---- *)
Definition coord_ok (n : N) : bool := n <? 65535.          (* transmitted value n + 1 in 1..65535 *)
Definition num_ok (n : N) : bool := n <? 4294967296.

Fixpoint strictly_increasing (l : list N) : bool :=
  match l with
  | a :: ((b :: _) as r) => (a <? b) && strictly_increasing r
  | _ => true
  end.
Fixpoint keys_increasing (l : list (list N)) : bool :=
  match l with
  | a :: ((b :: _) as r) => str_ltb a b && keys_increasing r
  | _ => true
  end.

Definition text_byte_ok (b : N) : bool := (b <? 256) && negb (b =? 27).
Definition name_ok (s : list N) : bool :=
  negb (match s with [] => true | _ => false end) && forallb (fun b => b <? 256) s.

Definition printable (c : N) : bool := scalar_ok c && (32 <=? c) && negb (c =? 127).

(* key codes the kitty protocol sends as `CSI code u` for a text key: any scalar value that is
   not one of the functional codes and not in the private use area used for functional keys *)
Definition kitty_char_ok (c : N) : bool :=
  scalar_ok c && negb ((c =? 27) || (c =? 13) || (c =? 9) || (c =? 127))
  && negb ((57344 <=? c) && (c <=? 63743)).

(* ECMA-48 / ISO 2022: ESC alone and the 7-bit introducers ESC O (SS3), ESC P (DCS), ESC [ (CSI),
   ESC ] (OSC), ESC _ (APC) are prefixes of longer control sequences; as key reports (Esc, Alt+O ..)
   they are inherently ambiguous when more input follows and are resolved by timing, not by the
   decoder: not self-delimiting *)
Definition bare_prefix (w : list N) : bool :=
  match w with
  | [27] | [27; 79] | [27; 80] | [27; 91] | [27; 93] | [27; 95] => true
  | _ => false
  end.

Section Wf.
  Variable decmode_all : list N.              (* the DEC private mode codes the library names *)
  Variable lit_table : list (list N * (kname * N)).   (* the literal key table *)

  Definition wf (r : report) : bool :=
    match r with
    | RLit w => match lit_lookup lit_table w with Some _ => negb (bare_prefix w) | None => false end
    | RXterm k mods alt_form => match xterm_seq k mods alt_form with Some _ => true | None => false end
    | RChar c => printable c
    | RKittyKey k mods alts =>
        (mods <? 256) && forallb (fun a => match a with Some x => num_ok x | None => true end) alts
        && match k with
           | KEsc | KEnter | KTab | KBackspace => true
           | KF n => (13 <=? n) && (n <=? 35)
           | KChar c => kitty_char_ok c
           | _ => false
           end
    | RKeyLevel flags => num_ok flags
    | RMouse code press row col => (code <? 256) && coord_ok row && coord_ok col
    | RCursor row col =>
        (* CSI 1 ; n R with n in 2..8 is a modified F3 of the key table: resolved for the key *)
        coord_ok row && coord_ok col && negb ((row =? 0) && (1 <=? col) && (col <=? 7))
    | RSize ch cw ph pw => num_ok ch && num_ok cw && num_ok ph && num_ok pw
    | RDecMode mode status => existsb (N.eqb mode) decmode_all && (status <? 5)
    | RDevAttrs attrs =>
        negb (match attrs with [] => true | _ => false end)
        && forallb (fun a => (0 <? a) && num_ok a) attrs
    | RKittyImage id placement error =>
        num_ok id && match placement with Some p => num_ok p | None => true end
        && match error with
           | None => true
           | Some msg => utf8_valid msg && forallb text_byte_ok msg && negb (bytes_eqb msg [79; 75])
           end
    | RColor name r g b form upper e =>
        (r <? chan_bound form) && (g <? chan_bound form) && (b <? chan_bound form)
        && match name with TPalette i => i <? 256 | _ => true end
    | RTermcapOk caps upper =>
        forallb (fun kv => name_ok (fst kv) && name_ok (snd kv)) caps && keys_increasing (map fst caps)
    | RTermcapFail names upper =>
        negb (match names with [] => true | _ => false end) && forallb name_ok names && keys_increasing names
    | RPaste text => utf8_valid text && forallb text_byte_ok text
    | RSgr params | RFaceReport params => sgr_wf params
    end.
End Wf.

(* an SGR sequence denotes a face modification whose MEANING is the reference SGR machine; as a
   boolean test on three renditions that differ from each other in every aspect *)
Definition probe1 : rface := mkR (Some (RGBA 1 1 1 255)) (Some (RGBA 2 2 2 255)) UDotted true true true true true.
Definition probe2 : rface := mkR (Some (RGBA 3 3 3 255)) (Some (RGBA 4 4 4 255)) UDashed true true true false true.
Definition sgr_event_ok (params : list N) (m : face_modify) : bool :=
  forallb (fun r => rface_eqb (rapply m r) (ref_sgr params r)) [rface_default; probe1; probe2].

(* known finding C06-inexpressible as it shows in events (C04-face-report-inverse): with one of
   7 / 27 / 39 / 49 among the parameters the library's result is that of the recorded machine
   (those four parameters ignored) *)
Definition sgr_event_recorded (params : list N) (m : face_modify) : bool :=
  forallb (fun r => rface_eqb (rapply m r) (ref_sgr_lib params r)) [rface_default; probe1; probe2].
Definition face_report_recorded (params : list N) : tev :=
  EFaceGet (face_of_rface (ref_sgr_lib params rface_default)).
