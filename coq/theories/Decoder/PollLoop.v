(* The read loop of UnixTerminal::poll (src/unix.rs, "process pending input"):

     let recv = self.tty.read(&mut buf)?;                      // one read of the tty
     let mut read_queue = Cursor::new(&buf[..recv]);
     while let Some(event) = self.decoder.decode(&mut read_queue)? {
         if let TerminalEvent::Size(size) = event { .. self.events_queue.push_back(Resize(size)) .. }
         if !self.image_handler.handle(&mut self.write_queue, &event)? {
             self.events_queue.push_back(event)
         }
     }

   as a user of the decoder of Decoder/Events.v.  `decode` on a Cursor cannot fail (its only error
   is an io error of fill_buf).  `handle` is the one fallible step: `pre` are the events the loop
   pushes itself before calling it (Resize for a Size report), `handle t` is Some true (the handler
   consumed the event), Some false (pass it on) or None (Err: `?` leaves poll at once).

   Result: as long as the handler does not fail, the events queued over any sequence of reads are
   exactly the decoder's events for the whole byte stream (so C03/C02 carry over: none lost,
   duplicated or reordered, whatever the read boundaries); when the handler fails on an event,
   poll returns that error and the bytes of the current read that follow the event are dropped
   (they were already taken from the tty and live only in poll's stack buffer) — this is the limit
   of the guarantee, stated below as poll_read_spec.  The three handlers of the crate write only to
   the in-memory write queue (IOQueue / Vec: `write` cannot fail) and do not fail. *)
From Coq Require Import List NArith Arith Bool Lia.
From SNT Require Import Base.Outcome Automata.DfaData Automata.Tokenizer Decoder.Payload Decoder.Events.
Import ListNotations.

Section Poll.
  Variable d : dfa.
  Variable payload : N -> list N -> outcome pres.
  Notation tstate := (st N pitem).
  Notation ttok := (tok pitem).

  Variable pre : ttok -> list ttok.
  Variable handle : ttok -> option bool.

  Definition site_handler : N := 100.

  (* the body of the `while let`: what one event adds to events_queue, None = handler error *)
  Definition deliver (t : ttok) : option (list ttok) :=
    match handle t with
    | None => None
    | Some true => Some (pre t)
    | Some false => Some (pre t ++ [t])
    end.

  (* the loop over one read buffer *)
  Fixpoint poll_read (fuel : nat) (s : tstate) (buf : list N) (queue : list ttok)
    : outcome (tstate * list ttok) :=
    match fuel with
    | O => OutOfFuel
    | S fuel' =>
        let* (s1, o, rest) := tty_decode d payload s buf in
        match o with
        | None => Ok (s1, queue)
        | Some t =>
            match deliver t with
            | None => Err site_handler
            | Some evs => poll_read fuel' s1 rest (queue ++ evs)
            end
        end
    end.

  Fixpoint deliver_all (ts : list ttok) : option (list ttok) :=
    match ts with
    | [] => Some []
    | t :: r =>
        match deliver t with
        | None => None
        | Some evs => match deliver_all r with Some l => Some (evs ++ l) | None => None end
        end
    end.

  (* the loop = decode_into of the same buffer, then deliver every event in order; an error of the
     handler is an error of the read and nothing after that event is delivered *)
  Theorem poll_read_spec fuel : forall s buf queue ts s' rest,
    tty_decode_into d payload fuel s buf = Ok (ts, s', rest) ->
    poll_read fuel s buf queue =
    match deliver_all ts with
    | Some evs => Ok (s', queue ++ evs)
    | None => Err site_handler
    end.
  Proof.
    induction fuel as [|f IH]; intros s buf queue ts s' rest H; [discriminate|].
    cbn [poll_read tty_decode_into] in *.
    destruct (tty_decode d payload s buf) as [[[s1 o] rest1]| | |]; cbn [bind] in *; try discriminate.
    destruct o as [t|].
    - destruct (tty_decode_into d payload f s1 rest1) as [[[ts2 s2] r2]| | |] eqn:E2; cbn [bind] in H; try discriminate.
      inversion H; subst. cbn [deliver_all]. destruct (deliver t) as [evs|]; [|reflexivity].
      rewrite (IH _ _ _ _ _ _ E2). destruct (deliver_all ts2); [rewrite app_assoc; reflexivity|reflexivity].
    - inversion H; subst. cbn [deliver_all]. rewrite app_nil_r. reflexivity.
  Qed.

  (* one poll_read per read of the tty *)
  Fixpoint poll_feed (fuel : nat) (s : tstate) (chunks : list (list N)) (queue : list ttok)
    : outcome (tstate * list ttok) :=
    match chunks with
    | [] => Ok (s, queue)
    | c :: cs =>
        let* (s1, q1) := poll_read fuel s c queue in
        poll_feed fuel s1 cs q1
    end.

  Lemma deliver_all_app a : forall b,
    deliver_all (a ++ b) =
    match deliver_all a, deliver_all b with
    | Some x, Some y => Some (x ++ y)
    | _, _ => None
    end.
  Proof.
    induction a as [|t a IH]; intros b; cbn [app deliver_all].
    - destruct (deliver_all b); reflexivity.
    - destruct (deliver t) as [evs|]; [|reflexivity]. rewrite IH.
      destruct (deliver_all a), (deliver_all b); try reflexivity. rewrite app_assoc. reflexivity.
  Qed.

  (* with a handler that does not fail on the events of the stream, the queue over all reads is the
     delivery of the decoder's events of the whole stream, in order *)
  Theorem poll_feed_spec fuel chunks : forall s queue ts s',
    tty_feed d payload fuel s chunks = Ok (ts, s') ->
    forall evs, deliver_all ts = Some evs ->
    poll_feed fuel s chunks queue = Ok (s', queue ++ evs).
  Proof.
    induction chunks as [|c cs IH]; intros s queue ts s' H evs He.
    - cbn in H. inversion H; subst. cbn in He. inversion He; subst. cbn. rewrite app_nil_r. reflexivity.
    - cbn [tty_feed poll_feed] in *.
      destruct (tty_decode_into d payload fuel s c) as [[[t1 s1] r1]| | |] eqn:E1; cbn [bind] in H; try discriminate.
      destruct (tty_feed d payload fuel s1 cs) as [[t2 s2]| | |] eqn:E2; cbn [bind] in H; try discriminate.
      inversion H; subst. rewrite deliver_all_app in He.
      destruct (deliver_all t1) as [e1|] eqn:D1; [|discriminate].
      destruct (deliver_all t2) as [e2|] eqn:D2; [|discriminate]. inversion He; subst.
      rewrite (poll_read_spec _ _ _ queue _ _ _ E1), D1. cbn [bind].
      rewrite (IH _ (queue ++ e1) _ _ E2 _ D2). rewrite app_assoc. reflexivity.
  Qed.

  (* the limit: the first event on which the handler fails ends the read with an error; the events the
     decoder would still produce from the rest of the buffer are not delivered *)
  Theorem poll_read_handler_error fuel s buf queue ts s' rest :
    tty_decode_into d payload fuel s buf = Ok (ts, s', rest) ->
    deliver_all ts = None ->
    poll_read fuel s buf queue = Err site_handler.
  Proof. intros H He. rewrite (poll_read_spec _ _ _ _ _ _ _ H), He. reflexivity. Qed.
End Poll.
